import Srtla.Model.Reload
import Srtla.Lemmas.Reload
/-!
# C19 — IP-list reload never strands the stream and never disturbs survivors

Property theorems only. All statements are for every file (list of lines of any length, any
`trim` / `parseIp`), every sender state `s : Sys` (any number of links, any labels — duplicated
labels included —, any tracker and I/O-map contents), every new address list (duplicates, empty),
every outcome of the connect attempts, and — for the `run` theorems — every finite sequence of
SIGHUPs, housekeeping ticks and environment steps.

`mk : Ip → Label` is the label function `format!("{host}:{port} via {ip}")`; nothing is assumed
about it (not even injectivity) in sections 1–10, which follow the code and speak about LABELS.
Section 11 restates survivors / removed / tracker / routing choice / added-once by ADDRESS, under the
proved invariant `label = mk ip` and injectivity of `mk` (proved for `mkLabel host port`).
-/
namespace Srtla.Props.C19
open Srtla.Reload

/-! ## 1. Refusal -/

/-- A file that cannot be read (missing, unreadable, not UTF-8) is refused. -/
theorem C19_refuse_missing : analyzeIpReload none = .refuse .notFound := rfl

/-- The reload is refused exactly when no line parses. -/
theorem C19_refuse_iff (lines : List Line) :
    (∃ r, analyzeText lines = .refuse r) ↔ okIps lines = [] := by
  rw [analyzeText_spec]
  by_cases h : okIps lines = []
  · simp only [h, if_true, iff_true]
    split
    · exact ⟨_, rfl⟩
    · exact ⟨_, rfl⟩
  · simp [h]

/-- No non-blank line (in particular the empty file): refused as `Empty`. For arbitrary `trim` and
`parseIp`. -/
theorem C19_refuse_blank (trim : String → String) (parseIp : String → Option Ip) (raw : List String)
    (h : ∀ l ∈ raw, (trim l).isEmpty = true) :
    analyzeText (raw.map (classify trim parseIp)) = .refuse .empty := by
  rw [analyzeText_spec]
  have hall : ∀ l ∈ raw.map (classify trim parseIp), l = Line.blank := by
    intro l hl
    obtain ⟨r, hr, rfl⟩ := List.mem_map.1 hl
    simp [classify, h r hr]
  have hok : okIps (raw.map (classify trim parseIp)) = [] := by
    rw [okIps_map_classify]
    apply List.filterMap_eq_nil_iff.2
    intro l hl
    simp [h l hl]
  have hb : (raw.map (classify trim parseIp)).all Line.isBlank = true := by
    rw [List.all_eq_true]
    intro l hl
    rw [hall l hl]; rfl
  simp [hok, hb]

/-- Content but no parsable line: refused as `NoValidIps`, reporting the (1-based) number of the
first non-blank line. For arbitrary `trim` and `parseIp`. -/
theorem C19_refuse_unparsable (trim : String → String) (parseIp : String → Option Ip) (raw : List String)
    (hnone : ∀ l ∈ raw, (trim l).isEmpty = true ∨ parseIp (trim l) = none)
    (hcontent : ∃ l ∈ raw, (trim l).isEmpty = false) :
    ∃ n, analyzeText (raw.map (classify trim parseIp)) = .refuse (.noValidIps (n + 1)) ∧
      (raw.map (classify trim parseIp)).findIdx? (fun l => !l.isBlank) = some n := by
  rw [analyzeText_spec]
  have hok : okIps (raw.map (classify trim parseIp)) = [] := by
    rw [okIps_map_classify]
    apply List.filterMap_eq_nil_iff.2
    intro l hl
    rcases hnone l hl with h | h
    · simp [h]
    · by_cases he : (trim l).isEmpty = true <;> simp [he, h]
  obtain ⟨l0, hl0, hne⟩ := hcontent
  have hnb : (raw.map (classify trim parseIp)).all Line.isBlank = false := by
    cases hall : (raw.map (classify trim parseIp)).all Line.isBlank with
    | false => rfl
    | true =>
      exfalso
      rw [List.all_eq_true] at hall
      have := hall _ (List.mem_map.2 ⟨l0, hl0, rfl⟩)
      cases hp : parseIp (trim l0) <;> simp [classify, hne, hp, Line.isBlank] at this
  have hsome : ∃ n, (raw.map (classify trim parseIp)).findIdx? (fun l => !l.isBlank) = some n := by
    cases hf : (raw.map (classify trim parseIp)).findIdx? (fun l => !l.isBlank) with
    | some n => exact ⟨n, rfl⟩
    | none =>
      exfalso
      rw [List.findIdx?_eq_none_iff] at hf
      have h1 := hf _ (List.mem_map.2 ⟨l0, hl0, rfl⟩)
      cases hp : parseIp (trim l0) <;> simp [classify, hne, hp, Line.isBlank] at h1
  obtain ⟨n, hn⟩ := hsome
  refine ⟨n, ?_, hn⟩
  simp [hok, hnb, firstBad_of_no_ok hok, hn]

/-- A refused reload changes nothing: the SIGHUP arm does not even queue a change … -/
theorem C19_refuse_changes_nothing (mk : Ip → Label) (s : Sys) (file : Option (List Line))
    (h : ∃ r, analyzeIpReload file = .refuse r) : step mk s (.sighup file) = s := by
  obtain ⟨r, hr⟩ := h
  simp [step, hr]

/-- … so (with nothing else queued) the next housekeeping tick leaves the whole sender state —
links, I/O map, tracker, routing choice — exactly as it was, whatever the connect outcomes would be. -/
theorem C19_refuse_then_tick (mk : Ip → Label) (s : Sys) (file : Option (List Line))
    (outs : List (Option ConnOk)) (hp : s.pending = none)
    (h : ∃ r, analyzeIpReload file = .refuse r) :
    run mk s [.sighup file, .tick outs] = s := by
  obtain ⟨r, hr⟩ := h
  simp [run, step, hr, hp]

example : run (mkLabel "127.0.0.1" 5000)
    { links := [⟨1, "127.0.0.1", "127.0.0.1:5000 via 127.0.0.1", 7⟩], io := [(1, 1)] }
    [.sighup (some [.blank, .bad]), .tick [some ⟨2, 2, 0⟩]] =
    { links := [⟨1, "127.0.0.1", "127.0.0.1:5000 via 127.0.0.1", 7⟩], io := [(1, 1)] } :=
  C19_refuse_then_tick _ _ _ _ rfl ⟨_, rfl⟩

/-! ## 2. The applied list -/

/-- Otherwise the applied list is exactly the parsable lines, in order, duplicates included, and the
reported line is the first non-blank unparsable one. -/
theorem C19_applied_list (lines : List Line) (h : okIps lines ≠ []) :
    analyzeText lines = .apply (okIps lines) (firstBad lines) := by
  rw [analyzeText_spec]; simp [h]

/-- The same in terms of raw lines and arbitrary `trim` / `parseIp`: whatever is applied is the list
of `parseIp (trim l)` over the non-blank lines, in file order, and it is non-empty. -/
theorem C19_applied_list_raw (trim : String → String) (parseIp : String → Option Ip) (raw : List String)
    (ips : List Ip) (fi : Option Nat)
    (h : analyzeText (raw.map (classify trim parseIp)) = .apply ips fi) :
    ips = raw.filterMap (fun l => if (trim l).isEmpty then none else parseIp (trim l)) ∧ ips ≠ [] := by
  rw [analyzeText_spec] at h
  by_cases hok : okIps (raw.map (classify trim parseIp)) = []
  · simp only [hok, if_true] at h
    split at h <;> cases h
  · simp only [hok, if_false] at h
    cases h
    exact ⟨okIps_map_classify trim parseIp raw, hok⟩

/-- What the SIGHUP arm queues is that list, and the next tick applies exactly it. -/
theorem C19_applied_list_sys (mk : Ip → Label) (s : Sys) (lines : List Line) (outs : List (Option ConnOk))
    (h : okIps lines ≠ []) :
    (step mk s (.sighup (some lines))).pending = some (okIps lines) ∧
    run mk s [.sighup (some lines), .tick outs] =
      applyChanges mk { s with pending := none } (okIps lines) outs := by
  simp [run, step, analyzeIpReload, C19_applied_list lines h]

example : analyzeText [.ok "10.0.0.1", .bad, .blank, .ok "10.0.0.1"] =
    .apply ["10.0.0.1", "10.0.0.1"] (some 2) := by decide

/-! ## 3. Survivors -/

/-- Every link whose label is still desired is kept as the very same record (identity, address,
label and the opaque token of its whole protocol state), in the same relative order — the kept
links are a prefix of the new list — and everything after that prefix is a newly created link. -/
theorem C19_survivors_equal (mk : Ip → Label) (s : Sys) (newIps : List Ip) (outs : List (Option ConnOk)) :
    ∃ added : List Link,
      (applyChanges mk s newIps outs).links =
        s.links.filter (fun l => decide (l.label ∈ newIps.map mk)) ++ added ∧
      ∀ a ∈ added, a.label ∉ s.links.map (·.label) ∧ a.connId ∈ okIds outs ∧
        a.ip ∈ newIps ∧ a.label = mk a.ip := by
  rw [applyChanges_eq]
  refine ⟨(createConnections mk (neededIps mk s newIps) outs
      ((removedIds mk s newIps).foldl IoMap.remove s.io)).1, ?_, ?_⟩
  · simp only [retained, desiredLabels, List.contains_eq_mem]
  · intro a ha
    obtain ⟨h1, h2, h3, -, -, -⟩ := createConnections_spec mk (neededIps mk s newIps) outs
      ((removedIds mk s newIps).foldl IoMap.remove s.io)
    have hip : a.ip ∈ neededIps mk s newIps := h2.subset (List.mem_map.2 ⟨a, ha, rfl⟩)
    have hid : a.connId ∈ okIds outs := h1.subset (List.mem_map.2 ⟨a, ha, rfl⟩)
    simp only [neededIps, List.mem_filter, List.contains_eq_mem, Bool.not_eq_eq_eq_not,
      Bool.not_true, decide_eq_false_iff_not] at hip
    refine ⟨?_, hid, ((dedupSeen_spec [] newIps).2 _).1 hip.1 |>.1, h3 a ha⟩
    rw [h3 a ha]; exact hip.2

theorem C19_survivors_prefix (mk : Ip → Label) (s : Sys) (newIps : List Ip) (outs : List (Option ConnOk)) :
    s.links.filter (fun l => decide (l.label ∈ newIps.map mk)) <+: (applyChanges mk s newIps outs).links := by
  obtain ⟨added, h, -⟩ := C19_survivors_equal mk s newIps outs
  exact ⟨added, h.symm⟩

/-- The survivor's socket is untouched too (its I/O-map entry is the same), provided `conn_id`s are
distinct and the random ids drawn for new links are fresh. -/
theorem C19_survivors_socket (mk : Ip → Label) (s : Sys) (newIps : List Ip) (outs : List (Option ConnOk))
    (hnd : (ids s).Nodup) (hfresh : Fresh s outs) (l : Link) (hl : l ∈ s.links)
    (hkeep : l.label ∈ newIps.map mk) :
    (applyChanges mk s newIps outs).io.get l.connId = s.io.get l.connId := by
  rw [applyChanges_eq]
  obtain ⟨h1, -, -, -, -, h6⟩ := createConnections_spec mk (neededIps mk s newIps) outs
    ((removedIds mk s newIps).foldl IoMap.remove s.io)
  have hid : l.connId ∈ ids s := List.mem_map.2 ⟨l, hl, rfl⟩
  simp only
  rw [h6 _ (fun hmem => hfresh.2 _ (h1.subset hmem) hid), IoMap.get_foldl_remove]
  have : l.connId ∉ removedIds mk s newIps := by
    intro hr
    obtain ⟨l2, hl2, hno, hidEq⟩ := (mem_removedIds mk s newIps _).1 hr
    have := inj_of_nodup_map (fun l : Link => l.connId) (l := s.links) hnd hl2 hl hidEq
    subst this
    exact hno hkeep
  simp [this]

/-! ## 4. Removed exactly -/

/-- Of the old links, exactly those whose label is no longer desired disappear (record level; no
assumption at all). -/
theorem C19_removed_exactly (mk : Ip → Label) (s : Sys) (newIps : List Ip) (outs : List (Option ConnOk))
    (l : Link) (hl : l ∈ s.links) :
    l ∈ (applyChanges mk s newIps outs).links ↔ l.label ∈ newIps.map mk := by
  obtain ⟨added, h, hadd⟩ := C19_survivors_equal mk s newIps outs
  rw [h, List.mem_append, List.mem_filter]
  constructor
  · rintro (⟨-, hk⟩ | ha)
    · simpa using hk
    · exact absurd (List.mem_map.2 ⟨l, hl, rfl⟩) (hadd l ha).1
  · intro hk; exact Or.inl ⟨hl, by simpa using hk⟩

/-- The same at identity level: an old `conn_id` is live afterwards iff its label is still desired. -/
theorem C19_removed_exactly_ids (mk : Ip → Label) (s : Sys) (newIps : List Ip) (outs : List (Option ConnOk))
    (hnd : (ids s).Nodup) (hfresh : Fresh s outs) (l : Link) (hl : l ∈ s.links) :
    l.connId ∈ ids (applyChanges mk s newIps outs) ↔ l.label ∈ newIps.map mk := by
  constructor
  · intro hmem
    obtain ⟨added, h, hadd⟩ := C19_survivors_equal mk s newIps outs
    simp only [ids, h, List.map_append, List.mem_append, List.mem_map, List.mem_filter] at hmem
    rcases hmem with ⟨l2, ⟨hl2, hk⟩, hidEq⟩ | ⟨a, ha, hidEq⟩
    · have := inj_of_nodup_map (fun l : Link => l.connId) (l := s.links) hnd hl2 hl hidEq
      subst this; simpa using hk
    · exact absurd (List.mem_map.2 ⟨l, hl, rfl⟩) (hidEq ▸ hfresh.2 _ (hadd a ha).2.1)
  · intro hk
    exact List.mem_map.2 ⟨l, (C19_removed_exactly mk s newIps outs l hl).2 hk, rfl⟩

/-- … together with its I/O handle. -/
theorem C19_removed_io (mk : Ip → Label) (s : Sys) (newIps : List Ip) (outs : List (Option ConnOk))
    (hfresh : Fresh s outs) (l : Link) (hl : l ∈ s.links) (hgone : l.label ∉ newIps.map mk) :
    (applyChanges mk s newIps outs).io.get l.connId = none ∧
    l.connId ∉ (applyChanges mk s newIps outs).io.keys := by
  rw [applyChanges_eq]
  obtain ⟨h1, -, -, h4, -, h6⟩ := createConnections_spec mk (neededIps mk s newIps) outs
    ((removedIds mk s newIps).foldl IoMap.remove s.io)
  have hid : l.connId ∈ ids s := List.mem_map.2 ⟨l, hl, rfl⟩
  have hnew : l.connId ∉ (createConnections mk (neededIps mk s newIps) outs
      ((removedIds mk s newIps).foldl IoMap.remove s.io)).1.map (·.connId) :=
    fun hmem => hfresh.2 _ (h1.subset hmem) hid
  have hrem : l.connId ∈ removedIds mk s newIps := by
    exact (mem_removedIds mk s newIps _).2 ⟨l, hl, hgone, rfl⟩
  simp only
  refine ⟨?_, ?_⟩
  · rw [h6 _ hnew, IoMap.get_foldl_remove]; simp [hrem]
  · rw [h4, IoMap.mem_keys_foldl_remove]
    rintro (⟨-, h⟩ | h)
    · exact h hrem
    · exact hnew h

/-! ## 5. I/O-map keys = live `conn_id`s -/

/-- One reload keeps the three-structure invariant, given fresh ids for the new links. -/
theorem C19_io_keys (mk : Ip → Label) (s : Sys) (newIps : List Ip) (outs : List (Option ConnOk))
    (hwf : Wf s) (hfresh : Fresh s outs) : Wf (applyChanges mk s newIps outs) := by
  obtain ⟨hnd, hknd, hkeys⟩ := hwf
  rw [applyChanges_eq]
  obtain ⟨h1, -, -, h4, h5, -⟩ := createConnections_spec mk (neededIps mk s newIps) outs
    ((removedIds mk s newIps).foldl IoMap.remove s.io)
  have hret : ∀ k, k ∈ (retained mk s newIps).map (·.connId) ↔ k ∈ ids s ∧ k ∉ removedIds mk s newIps := by
    intro k
    rw [List.mem_map]
    constructor
    · rintro ⟨l, hl, rfl⟩
      obtain ⟨hl, hk⟩ := (mem_retained mk s newIps l).1 hl
      refine ⟨List.mem_map.2 ⟨l, hl, rfl⟩, fun hr => ?_⟩
      obtain ⟨l2, hl2, hno, hidEq⟩ := (mem_removedIds mk s newIps _).1 hr
      have := inj_of_nodup_map (fun l : Link => l.connId) (l := s.links) hnd hl2 hl hidEq
      subst this; exact hno hk
    · rintro ⟨hk, hnr⟩
      obtain ⟨l, hl, rfl⟩ := List.mem_map.1 hk
      refine ⟨l, (mem_retained mk s newIps l).2 ⟨hl, ?_⟩, rfl⟩
      apply Classical.byContradiction
      intro hno
      exact hnr ((mem_removedIds mk s newIps _).2 ⟨l, hl, hno, rfl⟩)
  refine ⟨?_, ?_, ?_⟩
  · simp only [ids, List.map_append]
    rw [List.nodup_append]
    refine ⟨List.Nodup.sublist (List.Sublist.map _ List.filter_sublist) hnd,
      List.Nodup.sublist h1 hfresh.1, ?_⟩
    intro a ha b hb hab
    subst hab
    exact hfresh.2 _ (h1.subset hb) ((hret a).1 ha).1
  · exact h5 (IoMap.nodup_keys_foldl_remove _ _ hknd)
  · intro k
    simp only [ids, List.map_append, List.mem_append]
    rw [h4, IoMap.mem_keys_foldl_remove, hkeys, hret]

/-- Startup (`create_connections_from_ips` on the file's list as is) establishes the invariant. -/
theorem C19_io_keys_startup (mk : Ip → Label) (ips : List Ip) (outs : List (Option ConnOk))
    (hfresh : (okIds outs).Nodup) : Wf (startup mk ips outs) := by
  obtain ⟨h1, -, -, h4, h5, -⟩ := createConnections_spec mk ips outs []
  refine ⟨List.Nodup.sublist h1 hfresh, h5 (by simp [IoMap.keys]), ?_⟩
  intro k
  simp only [startup, ids]
  rw [h4]; simp [IoMap.keys]

/-- Every step of the sender that touches these structures keeps the invariant … -/
theorem C19_io_keys_step (mk : Ip → Label) (s : Sys) (op : Op) (hwf : Wf s) (hf : OpFresh s op) :
    Wf (step mk s op) := by
  cases op with
  | sighup file =>
    simp only [step]
    split <;> exact hwf
  | tick outs =>
    simp only [step]
    split
    · exact C19_io_keys mk _ _ outs hwf hf
    · exact hwf
  | track seq id ts => exact hwf
  | mutate idx tok =>
    obtain ⟨h1, h2, h3⟩ := hwf
    refine ⟨?_, h2, ?_⟩
    · simpa [step, ids, map_connId_setState] using h1
    · simpa [step, ids, map_connId_setState] using h3
  | select v => exact hwf
  | resock idx sock tok =>
    simp only [step]
    split
    · obtain ⟨h1, h2, h3⟩ := hwf
      refine ⟨?_, ?_, ?_⟩
      · simpa [ids, map_connId_setState] using h1
      · simpa [IoMap.keys_replace] using h2
      · simpa [ids, map_connId_setState, IoMap.keys_replace] using h3
    · exact hwf

/-- … hence after ANY sequence of SIGHUPs (accepted, refused, overriding one another), ticks, tracker
inserts, link-state changes, in-place reconnects and routing choices, starting from a consistent state, the I/O map is
keyed by exactly the live `conn_id`s and those are pairwise distinct. Induction over the run. -/
theorem C19_io_keys_run (mk : Ip → Label) (s : Sys) (ops : List Op) (hwf : Wf s)
    (hadm : Admissible mk s ops) : Wf (run mk s ops) := by
  induction ops generalizing s with
  | nil => exact hwf
  | cons op ops ih =>
    simp only [run, List.foldl_cons]
    exact ih _ (C19_io_keys_step mk s op hwf hadm.1) hadm.2

/-- The hypotheses are satisfiable by a non-trivial run: startup with a duplicated line and a failed
attempt, a reload that removes, keeps and adds, a refused SIGHUP, an in-place reconnect. -/
example :
    let mk := mkLabel "127.0.0.1" 5000
    let s := startup mk ["127.0.0.1", "127.0.0.1", "10.255.255.1", "127.0.0.2"]
      [some ⟨1, 1, 0⟩, some ⟨2, 2, 0⟩, none, some ⟨3, 3, 0⟩]
    let ops : List Op :=
      [.track 5 3 100, .sighup (some [.ok "127.0.0.2", .bad, .ok "127.0.0.3"]), .mutate 2 7,
       .tick [some ⟨4, 4, 0⟩], .sighup none, .resock 0 1001 8, .tick [some ⟨5, 5, 0⟩]]
    Wf s ∧ Admissible mk s ops ∧ Wf (run mk s ops) ∧
      (run mk s ops).links = [⟨3, "127.0.0.2", mk "127.0.0.2", 8⟩, ⟨4, "127.0.0.3", mk "127.0.0.3", 0⟩] ∧
      (run mk s ops).io.keys = [4, 3] ∧ (run mk s ops).tracker.get 5 200 = some 3 := by
  intro mk s ops
  have hwf : Wf s := C19_io_keys_startup _ _ _ (by decide)
  have hadm : Admissible mk s ops := by
    simp only [ops, Admissible, OpFresh, Fresh, and_true, true_and]
    decide
  exact ⟨hwf, hadm, C19_io_keys_run mk s ops hwf hadm, by decide, by decide, by decide⟩

/-! ## 6. NAK-attribution records -/

/-- After the reload a sequence number is attributed exactly as before, except that every
attribution to a removed `conn_id` is gone. -/
theorem C19_tracker_purged (mk : Ip → Label) (s : Sys) (newIps : List Ip) (outs : List (Option ConnOk))
    (seq now : Nat) :
    (applyChanges mk s newIps outs).tracker.get seq now =
      match s.tracker.get seq now with
      | some id => if id ∈ removedIds mk s newIps then none else some id
      | none => none := by
  rw [applyChanges_eq]
  exact Tracker.get_foldl_removeConnection _ _ _ _

/-- In particular no lookup, for any sequence number at any time, returns a removed link. -/
theorem C19_tracker_no_removed (mk : Ip → Label) (s : Sys) (newIps : List Ip) (outs : List (Option ConnOk))
    (l : Link) (hl : l ∈ s.links) (hgone : l.label ∉ newIps.map mk) (seq now : Nat) :
    (applyChanges mk s newIps outs).tracker.get seq now ≠ some l.connId := by
  rw [C19_tracker_purged]
  have hrem : l.connId ∈ removedIds mk s newIps := by
    exact (mem_removedIds mk s newIps _).2 ⟨l, hl, hgone, rfl⟩
  cases h : s.tracker.get seq now with
  | none => simp
  | some id =>
    by_cases hid : id ∈ removedIds mk s newIps
    · simp [hid]
    · simp only [hid, if_false, ne_eq, Option.some.injEq]
      rintro rfl; exact hid hrem

/-- The hypothesis is not vacuous: a young entry of a live link is found before the reload. -/
example (t : Tracker) : (t.insert 100 7 1000).get 100 6000 = some 7 :=
  Tracker.get_insert_self t 100 7 1000 6000 (by decide) (by decide)

/-! ## 7. Added once -/

/-- The connect attempts of one reload: pairwise distinct addresses (a line listed twice is tried
once), each listed, none already connected, and every listed, not yet connected address is among
them; each attempt yields at most one new link, in attempt order, so no address gets two. -/
theorem C19_added_once (mk : Ip → Label) (s : Sys) (newIps : List Ip) (outs : List (Option ConnOk)) :
    (neededIps mk s newIps).Nodup ∧
    (∀ ip, ip ∈ neededIps mk s newIps ↔ ip ∈ newIps ∧ mk ip ∉ s.links.map (·.label)) ∧
    ∃ added : List Link,
      (applyChanges mk s newIps outs).links = retained mk s newIps ++ added ∧
      (added.map (·.ip)).Sublist (neededIps mk s newIps) ∧ (added.map (·.ip)).Nodup := by
  have hnd : (neededIps mk s newIps).Nodup :=
    List.Nodup.sublist List.filter_sublist (dedupSeen_spec [] newIps).1
  refine ⟨hnd, ?_, ?_⟩
  · intro ip
    simp only [neededIps, List.mem_filter, (dedupSeen_spec [] newIps).2, List.contains_eq_mem,
      Bool.not_eq_eq_eq_not, Bool.not_true, decide_eq_false_iff_not, List.not_mem_nil,
      not_false_eq_true, and_true]
  · rw [applyChanges_eq]
    obtain ⟨-, h2, -, -, -, -⟩ := createConnections_spec mk (neededIps mk s newIps) outs
      ((removedIds mk s newIps).foldl IoMap.remove s.io)
    exact ⟨_, rfl, h2, List.Nodup.sublist h2 hnd⟩

/-- If every attempt succeeds, the new links are exactly one per needed address, in list order. -/
theorem C19_added_all (mk : Ip → Label) (s : Sys) (newIps : List Ip) (cs : List ConnOk)
    (hlen : cs.length = (neededIps mk s newIps).length) :
    ∃ added : List Link,
      (applyChanges mk s newIps (cs.map some)).links = retained mk s newIps ++ added ∧
      added.map (·.ip) = neededIps mk s newIps := by
  rw [applyChanges_eq]
  exact ⟨_, rfl, (createConnections_all_ok mk _ cs _ hlen).1⟩

/-! ## 8. The previous routing choice -/

/-- `last_selected_idx` is forgotten whenever a link was removed … -/
theorem C19_last_selected_reset (mk : Ip → Label) (s : Sys) (newIps : List Ip) (outs : List (Option ConnOk))
    (h : ∃ l ∈ s.links, l.label ∉ newIps.map mk) :
    (applyChanges mk s newIps outs).lastSel = none := by
  rw [applyChanges_eq]
  have : removedIds mk s newIps ≠ [] := by
    rw [Ne, removedIds_eq_nil_iff]
    obtain ⟨l, hl, hno⟩ := h
    exact fun hall => hno (hall l hl)
  simp [this]

/-- … and kept otherwise (pure additions do not shift indices: survivors are a prefix). -/
theorem C19_last_selected_kept (mk : Ip → Label) (s : Sys) (newIps : List Ip) (outs : List (Option ConnOk))
    (h : ∀ l ∈ s.links, l.label ∈ newIps.map mk) :
    (applyChanges mk s newIps outs).lastSel = s.lastSel := by
  rw [applyChanges_eq]
  simp [(removedIds_eq_nil_iff mk s newIps).2 h]

/-! ## 9. Sequences of reloads (histories) -/

/-- What a SIGHUP does to the queue: an accepted file replaces whatever was queued, a refused one
leaves an earlier accepted (not yet applied) list queued; nothing else is touched. -/
theorem C19_pending_sighup (mk : Ip → Label) (s : Sys) (file : Option (List Line)) :
    step mk s (.sighup file) =
      { s with pending := match analyzeIpReload file with
                          | .apply ips _ => some ips
                          | .refuse _ => s.pending } := by
  simp only [step]
  split <;> rename_i h <;> simp [h]

/-- A tick consumes the queue. -/
theorem C19_pending_tick (mk : Ip → Label) (s : Sys) (outs : List (Option ConnOk)) :
    (step mk s (.tick outs)).pending = none := by
  simp only [step]
  split
  · rw [applyChanges_eq]
  · rename_i h; exact h

/-- Survivors across ANY history: after any sequence of SIGHUPs, ticks (any number of reloads, with
any lists and connect outcomes), tracker inserts, protocol activity on links and routing choices,
the link list is `pre ++ post` where `pre` — compared by (conn_id, address, label), the part of a
link that protocol activity cannot change — is a sub-sequence of the ORIGINAL list (same relative
order, nothing duplicated, nothing re-identified) and every link of `post` carries a `conn_id`
drawn by one of the run's ticks. -/
theorem C19_run_survivors (mk : Ip → Label) (s : Sys) (ops : List Op) :
    ∃ pre post, (run mk s ops).links = pre ++ post ∧
      (pre.map Link.key).Sublist (s.links.map Link.key) ∧ ∀ l ∈ post, l.connId ∈ drawn ops := by
  have := split_run Link.key (s.links.map Link.key) mk ops s [] (Or.inl (fun _ _ => rfl))
    ⟨s.links, [], by simp, List.Sublist.refl _, by simp⟩
  simpa [Split] using this

/-- Without protocol activity in between (reloads, refused reloads, tracker inserts and routing
choices only) the surviving original links are the very same records — state token included. -/
theorem C19_run_survivors_records (mk : Ip → Label) (s : Sys) (ops : List Op)
    (hno : ∀ op ∈ ops, op.isMutate = false) :
    ∃ pre post, (run mk s ops).links = pre ++ post ∧
      pre.Sublist s.links ∧ ∀ l ∈ post, l.connId ∈ drawn ops := by
  have := split_run id s.links mk ops s [] (Or.inr hno)
    ⟨s.links, [], by simp, by simp, by simp⟩
  simpa [Split] using this

example :
    let mk := mkLabel "h" 1
    (run mk { links := [⟨1, "a", mk "a", 5⟩, ⟨2, "b", mk "b", 6⟩], io := [(1, 1), (2, 2)] }
      [.sighup (some [.ok "b", .bad, .ok "c"]), .mutate 1 9, .sighup none, .tick [some ⟨3, 3, 0⟩],
       .sighup (some [.ok "c", .ok "b", .ok "a"]), .tick [some ⟨4, 4, 0⟩]]).links =
      [⟨2, "b", mk "b", 9⟩, ⟨3, "c", mk "c", 0⟩, ⟨4, "a", mk "a", 0⟩] := by decide

/-- If labels determine addresses (true for `mkLabel host port`, see `mkLabel_injective`) and the
old links have pairwise distinct labels, so have the new ones: no address ever gets two uplinks
through a reload. (At startup a duplicated line does create two — `startup` does not de-duplicate —
which is why this is stated relative to the old state.) -/
theorem C19_labels_unique (mk : Ip → Label) (hinj : Function.Injective mk) (s : Sys) (newIps : List Ip)
    (outs : List (Option ConnOk)) (hnd : (s.links.map (·.label)).Nodup) :
    ((applyChanges mk s newIps outs).links.map (·.label)).Nodup := by
  obtain ⟨-, -, added, hlinks, -, hipnd⟩ := C19_added_once mk s newIps outs
  obtain ⟨added', hlinks', hadd⟩ := C19_survivors_equal mk s newIps outs
  have hsame : added' = added := by
    have := hlinks'.symm.trans hlinks
    simp only [retained, desiredLabels, List.contains_eq_mem] at this
    exact List.append_cancel_left this
  subst hsame
  rw [hlinks', List.map_append, List.nodup_append]
  refine ⟨List.Nodup.sublist (List.Sublist.map _ List.filter_sublist) hnd, ?_, ?_⟩
  · have hmap : added'.map (·.label) = (added'.map (·.ip)).map mk := by
      rw [List.map_map]
      apply List.map_congr_left
      intro a ha; exact (hadd a ha).2.2.2
    rw [hmap]
    exact nodup_map_of_injective mk hinj _ hipnd
  · intro a ha b hb hab
    obtain ⟨l, hl, rfl⟩ := List.mem_map.1 ha
    obtain ⟨a', ha', rfl⟩ := List.mem_map.1 hb
    exact (hadd a' ha').1 (hab ▸ List.mem_map.2 ⟨l, (List.mem_filter.1 hl).1, rfl⟩)

theorem C19_mkLabel_injective (host : String) (port : Nat) : Function.Injective (mkLabel host port) :=
  mkLabel_injective host port

/-! ## 10. A worked instance exercising every clause at once -/

example :
    let mk := mkLabel "127.0.0.1" 5000
    let s : Sys :=
      { links := [⟨1, "127.0.0.1", mk "127.0.0.1", 11⟩, ⟨2, "127.0.0.2", mk "127.0.0.2", 22⟩,
                  ⟨3, "127.0.0.3", mk "127.0.0.3", 33⟩]
        io := [(1, 1), (2, 2), (3, 3)]
        tracker := Tracker.insert (Tracker.insert [] 100 1 1000) 200 2 1000
        lastSel := some 2 }
    let s' := applyChanges mk s ["127.0.0.3", "127.0.0.4", "127.0.0.1", "127.0.0.4", "10.255.255.1"]
      [some ⟨4, 4, 0⟩, none]
    s'.links = [⟨1, "127.0.0.1", mk "127.0.0.1", 11⟩, ⟨3, "127.0.0.3", mk "127.0.0.3", 33⟩,
                ⟨4, "127.0.0.4", mk "127.0.0.4", 0⟩] ∧
    s'.io.keys = [4, 1, 3] ∧ s'.lastSel = none ∧
    s'.tracker.get 100 2000 = some 1 ∧ s'.tracker.get 200 2000 = none := by
  decide

/-! ## 11. The same by ADDRESS

`apply_connection_changes` decides by LABEL (`desired_labels.contains(&c.label)`), and sections 3–8
say so. The property speaks about the uplink's ADDRESS. The two coincide on every reachable state:

* `LabelInv mk s` — every link's label is the label function applied to its own address — holds
  after `startup` (whatever the list and the connect outcomes), is kept by `applyChanges` and by every
  `Op` (SIGHUP, tick, tracker insert, link-state change, routing choice, in-place reconnect), hence
  along every run. No hypothesis is needed (not even fresh ids).
* the real label function `mkLabel host port` is injective (`C19_mkLabel_injective`), so
  `mk l.ip ∈ newIps.map mk ↔ l.ip ∈ newIps`.

The `…_by_ip` theorems below are derived from the label-based ones (not re-proved); each takes the
invariant and `Function.Injective mk`; `…_by_ip_mkLabel` / `…_run` discharge both. -/

theorem C19_label_inv_iff (mk : Ip → Label) (s : Sys) :
    LabelInv mk s ↔ ∀ l ∈ s.links, l.label = mk l.ip := Iff.rfl

/-- Startup (`create_connections_from_ips` over the file's list, duplicates and failed attempts
included) establishes label = mk address. -/
theorem C19_label_inv_startup (mk : Ip → Label) (ips : List Ip) (outs : List (Option ConnOk)) :
    LabelInv mk (startup mk ips outs) := labelInv_startup mk ips outs

/-- One `apply_connection_changes` keeps it (survivors are old records, new links are labelled from
their address). -/
theorem C19_label_inv_apply (mk : Ip → Label) (s : Sys) (newIps : List Ip) (outs : List (Option ConnOk))
    (h : LabelInv mk s) : LabelInv mk (applyChanges mk s newIps outs) :=
  labelInv_applyChanges mk s newIps outs h

/-- Every `Op` keeps it: sighup, tick, track, mutate, select, resock. -/
theorem C19_label_inv_step (mk : Ip → Label) (s : Sys) (op : Op) (h : LabelInv mk s) :
    LabelInv mk (step mk s op) := labelInv_step mk s op h

/-- Hence every finite history keeps it. -/
theorem C19_label_inv_run (mk : Ip → Label) (s : Sys) (ops : List Op) (h : LabelInv mk s) :
    LabelInv mk (run mk s ops) := labelInv_run mk s ops h

/-- Every state reachable from startup satisfies it. -/
theorem C19_label_inv_reachable (mk : Ip → Label) (ips : List Ip) (outs : List (Option ConnOk))
    (ops : List Op) : LabelInv mk (run mk (startup mk ips outs) ops) :=
  labelInv_run mk _ ops (labelInv_startup mk ips outs)

/-- The run of section 5 (duplicate line and failed attempt at startup; remove/keep/add reload,
refused SIGHUP, in-place reconnect): the invariant holds at the end, and the end state is non-trivial. -/
example :
    let mk := mkLabel "127.0.0.1" 5000
    let s := startup mk ["127.0.0.1", "127.0.0.1", "10.255.255.1", "127.0.0.2"]
      [some ⟨1, 1, 0⟩, some ⟨2, 2, 0⟩, none, some ⟨3, 3, 0⟩]
    let ops : List Op :=
      [.track 5 3 100, .sighup (some [.ok "127.0.0.2", .bad, .ok "127.0.0.3"]), .mutate 2 7,
       .tick [some ⟨4, 4, 0⟩], .sighup none, .resock 0 1001 8, .tick [some ⟨5, 5, 0⟩]]
    LabelInv mk (run mk s ops) ∧ (run mk s ops).links.map (·.ip) = ["127.0.0.2", "127.0.0.3"] ∧
      s.links.map (·.ip) = ["127.0.0.1", "127.0.0.1", "127.0.0.2"] := by
  intro mk s ops
  exact ⟨C19_label_inv_reachable _ _ _ _, by decide, by decide⟩

/-- The invariant is a real restriction on `Sys` (the label-based theorems also cover states that
violate it; such states are unreachable). -/
example : ¬ LabelInv (mkLabel "h" 1) { links := [⟨1, "a", "h:1 via b", 0⟩] } := by
  unfold LabelInv; decide

/-- Label membership is address membership for an injective label function. -/
theorem C19_label_listed_iff_ip_listed (mk : Ip → Label) (hinj : Function.Injective mk) (s : Sys)
    (hinv : LabelInv mk s) (newIps : List Ip) (l : Link) (hl : l ∈ s.links) :
    l.label ∈ newIps.map mk ↔ l.ip ∈ newIps := label_desired_iff hinj hinv newIps hl

/-! ### 11.3 Survivors, by address -/

/-- Every link whose ADDRESS is still listed is kept as the very same record (identity, address,
label, opaque full-state token), in the old relative order, as a prefix of the new list; everything
after the prefix is a newly created link whose address is listed and was not connected before. -/
theorem C19_survivors_equal_by_ip (mk : Ip → Label) (hinj : Function.Injective mk) (s : Sys)
    (hinv : LabelInv mk s) (newIps : List Ip) (outs : List (Option ConnOk)) :
    ∃ added : List Link,
      (applyChanges mk s newIps outs).links =
        s.links.filter (fun l => decide (l.ip ∈ newIps)) ++ added ∧
      ∀ a ∈ added, a.ip ∉ s.links.map (·.ip) ∧ a.connId ∈ okIds outs ∧
        a.ip ∈ newIps ∧ a.label = mk a.ip := by
  obtain ⟨added, h, hadd⟩ := C19_survivors_equal mk s newIps outs
  refine ⟨added, by rw [h, filter_label_eq_filter_ip hinj hinv], fun a ha => ?_⟩
  obtain ⟨h1, h2, h3, h4⟩ := hadd a ha
  refine ⟨fun hip => h1 ?_, h2, h3, h4⟩
  rw [h4]; exact (mk_mem_labels_iff hinj hinv _).2 hip

theorem C19_survivors_prefix_by_ip (mk : Ip → Label) (hinj : Function.Injective mk) (s : Sys)
    (hinv : LabelInv mk s) (newIps : List Ip) (outs : List (Option ConnOk)) :
    s.links.filter (fun l => decide (l.ip ∈ newIps)) <+: (applyChanges mk s newIps outs).links := by
  obtain ⟨added, h, -⟩ := C19_survivors_equal_by_ip mk hinj s hinv newIps outs
  exact ⟨added, h.symm⟩

/-- The socket (I/O-map entry) of a link whose address is still listed is untouched. -/
theorem C19_survivors_socket_by_ip (mk : Ip → Label) (hinj : Function.Injective mk) (s : Sys)
    (hinv : LabelInv mk s) (newIps : List Ip) (outs : List (Option ConnOk))
    (hnd : (ids s).Nodup) (hfresh : Fresh s outs) (l : Link) (hl : l ∈ s.links)
    (hkeep : l.ip ∈ newIps) :
    (applyChanges mk s newIps outs).io.get l.connId = s.io.get l.connId :=
  C19_survivors_socket mk s newIps outs hnd hfresh l hl
    ((label_desired_iff hinj hinv newIps hl).2 hkeep)

/-! ### 11.4 Removed exactly, by address -/

/-- Of the old links, exactly those whose ADDRESS is no longer listed disappear. -/
theorem C19_removed_exactly_by_ip (mk : Ip → Label) (hinj : Function.Injective mk) (s : Sys)
    (hinv : LabelInv mk s) (newIps : List Ip) (outs : List (Option ConnOk))
    (l : Link) (hl : l ∈ s.links) :
    l ∈ (applyChanges mk s newIps outs).links ↔ l.ip ∈ newIps :=
  (C19_removed_exactly mk s newIps outs l hl).trans (label_desired_iff hinj hinv newIps hl)

/-- Identity level: an old `conn_id` is live afterwards iff its address is still listed. -/
theorem C19_removed_exactly_ids_by_ip (mk : Ip → Label) (hinj : Function.Injective mk) (s : Sys)
    (hinv : LabelInv mk s) (newIps : List Ip) (outs : List (Option ConnOk))
    (hnd : (ids s).Nodup) (hfresh : Fresh s outs) (l : Link) (hl : l ∈ s.links) :
    l.connId ∈ ids (applyChanges mk s newIps outs) ↔ l.ip ∈ newIps :=
  (C19_removed_exactly_ids mk s newIps outs hnd hfresh l hl).trans
    (label_desired_iff hinj hinv newIps hl)

/-- … and the I/O handle of a link whose address is no longer listed is gone. -/
theorem C19_removed_io_by_ip (mk : Ip → Label) (hinj : Function.Injective mk) (s : Sys)
    (hinv : LabelInv mk s) (newIps : List Ip) (outs : List (Option ConnOk))
    (hfresh : Fresh s outs) (l : Link) (hl : l ∈ s.links) (hgone : l.ip ∉ newIps) :
    (applyChanges mk s newIps outs).io.get l.connId = none ∧
    l.connId ∉ (applyChanges mk s newIps outs).io.keys :=
  C19_removed_io mk s newIps outs hfresh l hl
    (fun h => hgone ((label_desired_iff hinj hinv newIps hl).1 h))

/-! ### 11.6 NAK-attribution records, by address -/

/-- The purged ids are the `conn_id`s of the old links whose address is not listed. -/
theorem C19_removed_ids_by_ip (mk : Ip → Label) (hinj : Function.Injective mk) (s : Sys)
    (hinv : LabelInv mk s) (newIps : List Ip) :
    removedIds mk s newIps = (s.links.filter (fun l => !decide (l.ip ∈ newIps))).map (·.connId) ∧
    ∀ id, id ∈ removedIds mk s newIps ↔ ∃ l, l ∈ s.links ∧ l.ip ∉ newIps ∧ l.connId = id :=
  ⟨removedIds_eq_map_filter_ip hinj hinv newIps, mem_removedIds_by_ip hinj hinv newIps⟩

/-- After the reload a sequence number is attributed exactly as before, except that every
attribution to the `conn_id` of a link whose address is no longer listed is gone. -/
theorem C19_tracker_purged_by_ip (mk : Ip → Label) (hinj : Function.Injective mk) (s : Sys)
    (hinv : LabelInv mk s) (newIps : List Ip) (outs : List (Option ConnOk)) (seq now : Nat) :
    (applyChanges mk s newIps outs).tracker.get seq now =
      match s.tracker.get seq now with
      | some id =>
        if id ∈ (s.links.filter (fun l => !decide (l.ip ∈ newIps))).map (·.connId) then none
        else some id
      | none => none := by
  rw [C19_tracker_purged, removedIds_eq_map_filter_ip hinj hinv]

/-- No lookup, for any sequence number at any time, returns a link whose address is no longer listed. -/
theorem C19_tracker_no_removed_by_ip (mk : Ip → Label) (hinj : Function.Injective mk) (s : Sys)
    (hinv : LabelInv mk s) (newIps : List Ip) (outs : List (Option ConnOk))
    (l : Link) (hl : l ∈ s.links) (hgone : l.ip ∉ newIps) (seq now : Nat) :
    (applyChanges mk s newIps outs).tracker.get seq now ≠ some l.connId :=
  C19_tracker_no_removed mk s newIps outs l hl
    (fun h => hgone ((label_desired_iff hinj hinv newIps hl).1 h)) seq now

/-- Conversely an attribution to a `conn_id` all of whose holders keep a listed address survives
(with distinct ids: the attribution to a surviving link survives). -/
theorem C19_tracker_kept_by_ip (mk : Ip → Label) (hinj : Function.Injective mk) (s : Sys)
    (hinv : LabelInv mk s) (newIps : List Ip) (outs : List (Option ConnOk)) (seq now id : Nat)
    (hget : s.tracker.get seq now = some id)
    (hkeep : ∀ l ∈ s.links, l.connId = id → l.ip ∈ newIps) :
    (applyChanges mk s newIps outs).tracker.get seq now = some id := by
  rw [C19_tracker_purged, hget]
  have : id ∉ removedIds mk s newIps := by
    rw [mem_removedIds_by_ip hinj hinv]
    rintro ⟨l, hl, hno, he⟩
    exact hno (hkeep l hl he)
  simp [this]

/-! ### 11.7 Added once, by address -/

/-- The connect attempts of one reload: pairwise distinct addresses, exactly the listed addresses
that are NOT YET CONNECTED BY ADDRESS; each attempt yields at most one new link, in attempt order. -/
theorem C19_added_once_by_ip (mk : Ip → Label) (hinj : Function.Injective mk) (s : Sys)
    (hinv : LabelInv mk s) (newIps : List Ip) (outs : List (Option ConnOk)) :
    (neededIps mk s newIps).Nodup ∧
    (∀ ip, ip ∈ neededIps mk s newIps ↔ ip ∈ newIps ∧ ip ∉ s.links.map (·.ip)) ∧
    ∃ added : List Link,
      (applyChanges mk s newIps outs).links =
        s.links.filter (fun l => decide (l.ip ∈ newIps)) ++ added ∧
      (added.map (·.ip)).Sublist (neededIps mk s newIps) ∧ (added.map (·.ip)).Nodup := by
  obtain ⟨h1, h2, added, h3, h4⟩ := C19_added_once mk s newIps outs
  refine ⟨h1, fun ip => ?_, added, by rw [h3, retained_eq_filter_ip hinj hinv], h4⟩
  rw [h2 ip, mk_mem_labels_iff hinj hinv]

/-- If every attempt succeeds: one new link per listed, not yet connected address, in list order. -/
theorem C19_added_all_by_ip (mk : Ip → Label) (hinj : Function.Injective mk) (s : Sys)
    (hinv : LabelInv mk s) (newIps : List Ip) (cs : List ConnOk)
    (hlen : cs.length = (neededIps mk s newIps).length) :
    ∃ added : List Link,
      (applyChanges mk s newIps (cs.map some)).links =
        s.links.filter (fun l => decide (l.ip ∈ newIps)) ++ added ∧
      added.map (·.ip) = neededIps mk s newIps := by
  obtain ⟨added, h1, h2⟩ := C19_added_all mk s newIps cs hlen
  exact ⟨added, by rw [h1, retained_eq_filter_ip hinj hinv], h2⟩

/-- No address gets two uplinks through a reload: pairwise distinct addresses stay pairwise distinct. -/
theorem C19_addresses_unique_by_ip (mk : Ip → Label) (hinj : Function.Injective mk) (s : Sys)
    (hinv : LabelInv mk s) (newIps : List Ip) (outs : List (Option ConnOk))
    (hnd : (s.links.map (·.ip)).Nodup) :
    ((applyChanges mk s newIps outs).links.map (·.ip)).Nodup := by
  have hmap : ∀ t : Sys, LabelInv mk t → t.links.map (·.label) = (t.links.map (·.ip)).map mk := by
    intro t ht
    rw [List.map_map]
    exact List.map_congr_left (fun l hl => ht l hl)
  have := C19_labels_unique mk hinj s newIps outs
    (by rw [hmap s hinv]; exact nodup_map_of_injective mk hinj _ hnd)
  rw [hmap _ (labelInv_applyChanges mk s newIps outs hinv)] at this
  exact List.Pairwise.of_map mk (fun a b hne hab => hne (congrArg mk hab)) this

/-! ### 11.8 The previous routing choice, by address -/

/-- `last_selected_idx` is forgotten whenever some link's address is no longer listed … -/
theorem C19_last_selected_reset_by_ip (mk : Ip → Label) (hinj : Function.Injective mk) (s : Sys)
    (hinv : LabelInv mk s) (newIps : List Ip) (outs : List (Option ConnOk))
    (h : ∃ l ∈ s.links, l.ip ∉ newIps) :
    (applyChanges mk s newIps outs).lastSel = none := by
  obtain ⟨l, hl, hno⟩ := h
  exact C19_last_selected_reset mk s newIps outs
    ⟨l, hl, fun hk => hno ((label_desired_iff hinj hinv newIps hl).1 hk)⟩

/-- … and kept when every link's address is still listed. -/
theorem C19_last_selected_kept_by_ip (mk : Ip → Label) (hinj : Function.Injective mk) (s : Sys)
    (hinv : LabelInv mk s) (newIps : List Ip) (outs : List (Option ConnOk))
    (h : ∀ l ∈ s.links, l.ip ∈ newIps) :
    (applyChanges mk s newIps outs).lastSel = s.lastSel :=
  C19_last_selected_kept mk s newIps outs
    (fun l hl => (label_desired_iff hinj hinv newIps hl).2 (h l hl))

/-- The worked state of section 10 meets every hypothesis of the by-address theorems (invariant,
injective label function, distinct ids, fresh ids; one address dropped, two kept, one added, one
listed twice, one failing), and the theorems apply to it. -/
example :
    let mk := mkLabel "127.0.0.1" 5000
    let s : Sys :=
      { links := [⟨1, "127.0.0.1", mk "127.0.0.1", 11⟩, ⟨2, "127.0.0.2", mk "127.0.0.2", 22⟩,
                  ⟨3, "127.0.0.3", mk "127.0.0.3", 33⟩]
        io := [(1, 1), (2, 2), (3, 3)]
        tracker := Tracker.insert (Tracker.insert [] 100 1 1000) 200 2 1000
        lastSel := some 2 }
    let newIps := ["127.0.0.3", "127.0.0.4", "127.0.0.1", "127.0.0.4", "10.255.255.1"]
    let outs : List (Option ConnOk) := [some ⟨4, 4, 0⟩, none]
    let l1 : Link := ⟨1, "127.0.0.1", mk "127.0.0.1", 11⟩
    let l2 : Link := ⟨2, "127.0.0.2", mk "127.0.0.2", 22⟩
    let s' := applyChanges mk s newIps outs
    (LabelInv mk s ∧ Function.Injective mk ∧ (ids s).Nodup ∧ Fresh s outs) ∧
    (l1 ∈ s.links ∧ l1.ip ∈ newIps ∧ l2 ∈ s.links ∧ l2.ip ∉ newIps) ∧
    s.links.filter (fun l => decide (l.ip ∈ newIps)) <+: s'.links ∧
    s'.io.get 1 = s.io.get 1 ∧ s.io.get 1 = some 1 ∧
    (l1 ∈ s'.links ∧ ¬ l2 ∈ s'.links) ∧ (1 ∈ ids s' ∧ 2 ∉ ids s') ∧
    (s'.io.get 2 = none ∧ 2 ∉ s'.io.keys) ∧
    (s.tracker.get 200 2000 = some 2 ∧ s'.tracker.get 200 2000 ≠ some 2) ∧
    (s.tracker.get 100 2000 = some 1 ∧ s'.tracker.get 100 2000 = some 1) ∧
    (s.lastSel = some 2 ∧ s'.lastSel = none) ∧
    neededIps mk s newIps = ["127.0.0.4", "10.255.255.1"] ∧
    (s'.links.map (·.ip)).Nodup := by
  intro mk s newIps outs l1 l2 s'
  have hinv : LabelInv mk s := by unfold LabelInv; decide
  have hinj : Function.Injective mk := C19_mkLabel_injective _ _
  have hnd : (ids s).Nodup := by decide
  have hfresh : Fresh s outs := by unfold Fresh; decide
  have hl1 : l1 ∈ s.links := by decide
  have hl2 : l2 ∈ s.links := by decide
  have hk1 : l1.ip ∈ newIps := by decide
  have hg2 : l2.ip ∉ newIps := by decide
  refine ⟨⟨hinv, hinj, hnd, hfresh⟩, ⟨hl1, hk1, hl2, hg2⟩,
    C19_survivors_prefix_by_ip mk hinj s hinv newIps outs,
    C19_survivors_socket_by_ip mk hinj s hinv newIps outs hnd hfresh l1 hl1 hk1, by decide,
    ⟨(C19_removed_exactly_by_ip mk hinj s hinv newIps outs l1 hl1).2 hk1,
     fun h => hg2 ((C19_removed_exactly_by_ip mk hinj s hinv newIps outs l2 hl2).1 h)⟩,
    ⟨(C19_removed_exactly_ids_by_ip mk hinj s hinv newIps outs hnd hfresh l1 hl1).2 hk1,
     fun h => hg2 ((C19_removed_exactly_ids_by_ip mk hinj s hinv newIps outs hnd hfresh l2 hl2).1 h)⟩,
    C19_removed_io_by_ip mk hinj s hinv newIps outs hfresh l2 hl2 hg2,
    ⟨by decide, C19_tracker_no_removed_by_ip mk hinj s hinv newIps outs l2 hl2 hg2 200 2000⟩,
    ⟨by decide, C19_tracker_kept_by_ip mk hinj s hinv newIps outs 100 2000 1 (by decide) (by decide)⟩,
    ⟨rfl, C19_last_selected_reset_by_ip mk hinj s hinv newIps outs ⟨l2, hl2, hg2⟩⟩,
    by decide,
    C19_addresses_unique_by_ip mk hinj s hinv newIps outs (by decide)⟩

/-- A pure addition (every old address still listed) keeps the routing choice. -/
example :
    let mk := mkLabel "h" 1
    let s : Sys := { links := [⟨1, "a", mk "a", 5⟩, ⟨2, "b", mk "b", 6⟩], io := [(1, 1), (2, 2)],
                     lastSel := some 1 }
    (applyChanges mk s ["b", "c", "a"] [some ⟨3, 3, 0⟩]).lastSel = some 1 ∧
    (applyChanges mk s ["b", "c", "a"] [some ⟨3, 3, 0⟩]).links.map (·.ip) = ["a", "b", "c"] := by
  intro mk s
  exact ⟨C19_last_selected_kept_by_ip mk (C19_mkLabel_injective _ _) s (by unfold LabelInv; decide)
    _ _ (by decide), by decide⟩

/-! ### 11.9 Both hypotheses discharged: the real label function, any reachable state -/

/-- For the real label function the invariant alone suffices (injectivity is proved). -/
theorem C19_survivors_equal_by_ip_mkLabel (host : String) (port : Nat) (s : Sys)
    (hinv : LabelInv (mkLabel host port) s) (newIps : List Ip) (outs : List (Option ConnOk)) :
    ∃ added : List Link,
      (applyChanges (mkLabel host port) s newIps outs).links =
        s.links.filter (fun l => decide (l.ip ∈ newIps)) ++ added ∧
      ∀ a ∈ added, a.ip ∉ s.links.map (·.ip) ∧ a.connId ∈ okIds outs ∧
        a.ip ∈ newIps ∧ a.label = mkLabel host port a.ip :=
  C19_survivors_equal_by_ip _ (mkLabel_injective host port) s hinv newIps outs

theorem C19_removed_exactly_by_ip_mkLabel (host : String) (port : Nat) (s : Sys)
    (hinv : LabelInv (mkLabel host port) s) (newIps : List Ip) (outs : List (Option ConnOk))
    (l : Link) (hl : l ∈ s.links) :
    l ∈ (applyChanges (mkLabel host port) s newIps outs).links ↔ l.ip ∈ newIps :=
  C19_removed_exactly_by_ip _ (mkLabel_injective host port) s hinv newIps outs l hl

theorem C19_tracker_no_removed_by_ip_mkLabel (host : String) (port : Nat) (s : Sys)
    (hinv : LabelInv (mkLabel host port) s) (newIps : List Ip) (outs : List (Option ConnOk))
    (l : Link) (hl : l ∈ s.links) (hgone : l.ip ∉ newIps) (seq now : Nat) :
    (applyChanges (mkLabel host port) s newIps outs).tracker.get seq now ≠ some l.connId :=
  C19_tracker_no_removed_by_ip _ (mkLabel_injective host port) s hinv newIps outs l hl hgone seq now

theorem C19_last_selected_by_ip_mkLabel (host : String) (port : Nat) (s : Sys)
    (hinv : LabelInv (mkLabel host port) s) (newIps : List Ip) (outs : List (Option ConnOk)) :
    ((∃ l ∈ s.links, l.ip ∉ newIps) →
      (applyChanges (mkLabel host port) s newIps outs).lastSel = none) ∧
    ((∀ l ∈ s.links, l.ip ∈ newIps) →
      (applyChanges (mkLabel host port) s newIps outs).lastSel = s.lastSel) :=
  ⟨C19_last_selected_reset_by_ip _ (mkLabel_injective host port) s hinv newIps outs,
   C19_last_selected_kept_by_ip _ (mkLabel_injective host port) s hinv newIps outs⟩

theorem C19_added_once_by_ip_mkLabel (host : String) (port : Nat) (s : Sys)
    (hinv : LabelInv (mkLabel host port) s) (newIps : List Ip) (outs : List (Option ConnOk)) :
    (neededIps (mkLabel host port) s newIps).Nodup ∧
    (∀ ip, ip ∈ neededIps (mkLabel host port) s newIps ↔ ip ∈ newIps ∧ ip ∉ s.links.map (·.ip)) :=
  let h := C19_added_once_by_ip _ (mkLabel_injective host port) s hinv newIps outs
  ⟨h.1, h.2.1⟩

/-- Run level, no hypothesis left: after startup from ANY list and ANY history of SIGHUPs, ticks,
tracker inserts, link-state changes, routing choices and in-place reconnects, the next
`apply_connection_changes` removes exactly the links whose ADDRESS is not listed (and keeps the
others as the same records). -/
theorem C19_removed_exactly_by_ip_run (host : String) (port : Nat) (ips0 : List Ip)
    (outs0 : List (Option ConnOk)) (ops : List Op) (newIps : List Ip) (outs : List (Option ConnOk))
    (l : Link) (hl : l ∈ (run (mkLabel host port) (startup (mkLabel host port) ips0 outs0) ops).links) :
    l ∈ (applyChanges (mkLabel host port)
          (run (mkLabel host port) (startup (mkLabel host port) ips0 outs0) ops) newIps outs).links ↔
      l.ip ∈ newIps :=
  C19_removed_exactly_by_ip_mkLabel host port _ (C19_label_inv_reachable _ ips0 outs0 ops) newIps outs l hl

/-- The same through the event-loop arms: after any history, an accepted SIGHUP file followed by
the housekeeping tick removes exactly the links whose address is not among the parsable lines, drops
every tracker attribution to them and forgets the routing choice iff there is such a link. -/
theorem C19_reload_by_ip_run (host : String) (port : Nat) (ips0 : List Ip)
    (outs0 : List (Option ConnOk)) (ops : List Op) (lines : List Line) (outs : List (Option ConnOk))
    (hok : okIps lines ≠ []) :
    let mk := mkLabel host port
    let s := run mk (startup mk ips0 outs0) ops
    let s' := run mk s [.sighup (some lines), .tick outs]
    (∀ l ∈ s.links, (l ∈ s'.links ↔ l.ip ∈ okIps lines)) ∧
    (∀ l ∈ s.links, l.ip ∉ okIps lines → ∀ seq now, s'.tracker.get seq now ≠ some l.connId) ∧
    ((∃ l ∈ s.links, l.ip ∉ okIps lines) → s'.lastSel = none) ∧
    ((∀ l ∈ s.links, l.ip ∈ okIps lines) → s'.lastSel = s.lastSel) := by
  intro mk s s'
  have hinv : LabelInv mk { s with pending := none } := C19_label_inv_reachable mk ips0 outs0 ops
  have hs' : s' = applyChanges mk { s with pending := none } (okIps lines) outs :=
    (C19_applied_list_sys mk s lines outs hok).2
  rw [hs']
  exact ⟨fun l hl => C19_removed_exactly_by_ip_mkLabel host port _ hinv _ outs l hl,
    fun l hl hg seq now => C19_tracker_no_removed_by_ip_mkLabel host port _ hinv _ outs l hl hg seq now,
    (C19_last_selected_by_ip_mkLabel host port _ hinv _ outs).1,
    (C19_last_selected_by_ip_mkLabel host port _ hinv _ outs).2⟩

/-- A non-trivial instance: startup with a duplicated line and a failed attempt, some history, then a
reload file that drops one connected address, keeps one and adds one. -/
example :
    let mk := mkLabel "127.0.0.1" 5000
    let s := run mk (startup mk ["127.0.0.1", "127.0.0.1", "10.255.255.1", "127.0.0.2"]
        [some ⟨1, 1, 0⟩, some ⟨2, 2, 0⟩, none, some ⟨3, 3, 0⟩])
      [.track 5 3 100, .sighup (some [.ok "127.0.0.2", .bad, .ok "127.0.0.3"]), .mutate 2 7,
       .tick [some ⟨4, 4, 0⟩], .select (some 1)]
    let lines : List Line := [.ok "127.0.0.3", .blank, .bad, .ok "127.0.0.5"]
    let s' := run mk s [.sighup (some lines), .tick [some ⟨6, 6, 0⟩]]
    okIps lines ≠ [] ∧
    s.links.map (·.ip) = ["127.0.0.2", "127.0.0.3"] ∧ s.lastSel = some 1 ∧
    s.tracker.get 5 200 = some 3 ∧
    s'.links.map (·.ip) = ["127.0.0.3", "127.0.0.5"] ∧ s'.lastSel = none ∧
    s'.tracker.get 5 200 = none := by
  decide

end Srtla.Props.C19
