import Srtla.Lemmas.ForwardRun
import Srtla.Lemmas.SendAll
import Srtla.Lemmas.RunLevelGhost
import Srtla.Lemmas.RunLevelGhostReload
import Srtla.Lemmas.ProbeRateReload
import Srtla.Lemmas.AccountingReload
import Srtla.Lemmas.WireIds
import Srtla.Lemmas.SysDir
import Srtla.Lemmas.SysInvQual
import Srtla.Props.C03
/-!
# C01 — the uplink path forwards every SRT datagram intact, once, in per-link order

Model: `Srtla.Sys` (`Model/Sys.lean`), the sender shell as a step function over ELEVEN event constructors
(`client`, `uplink`, `flush`, `hk`, `setCfg`, `crit`, `failNext`, `failBind`, `stamp`, `syncTimeout`:
client datagram, uplink datagram, 15 ms flush tick, housekeeping tick, configuration change, keyframe window,
the two fault injections — next batch send fails / next socket re-creation fails —, the classifier / link-CC
verdict stamp, and the per-tick refresh of every link's timeout copy); run bit-for-bit against the real
event-loop arms by component `sys`.  All theorems below hold for EVERY scalar type `F` with EVERY
`[Scalar F]` instance (selection decisions are opaque: `runSelect` returns some index or none), hence
for the `Float` instance of the compiled driver; the only exception is the last section, which imports
C03 and therefore lives over an ordered field.

Vocabulary (definitions in `Lemmas/Forward*.lean`; all are plain functions of the model):
* `QItem = (bytes, seq, queue time)`; `bytesOf q` = the payloads of a queue; `clientItem pkt now`.
* `wireOf c w` — the datagrams of a wire output `w` that went to the socket of conn id `c`, in order.
* `Inv s` — conn ids are pairwise distinct and every queue holds fewer than 32 datagrams.  It is
  preserved by every event (`C01_hold`); it holds initially (empty queues, ids from a counter).
* `selected s pkt now` — the routing decision of `handle_srt_packet` once registered (scheduler's pick or
  the enhanced-mode override); `target` — the same incl. the pre-registration path
  (`select_pre_registration_connection`); `routedLinks s now` — the links after this call's selection
  pass (it rewrites stall-gate flags, never a queue, conn id or probe counter).
* `appended s ev i` — what event `ev` appends to link `i`'s queue (closed form: `C01_exactly_one_unique_copy`).
* `dataWire ev out c` — data-path output of one event for conn id `c`: `wireOf c out.wire` for `client` and
  `flush` events, nothing for the others (what `uplink`/`hk` events send — REG1/REG2, keepalives — is built
  by the shell and provably never comes from a queue: in those events a queue is untouched or discarded).
* `LossCause s ev i l l'` — the four admissible reasons for discarding queued datagrams, each WITH ITS CAUSE
  (a fact about the pre-state and the event, `C01_loss_cause_def`): `client` / `flush` — the event CONSUMED an
  injected send failure for the link's conn id (its multiplicity in `failNext` went down); `uplink` — a REG3 /
  REG_ERR arrived on the link's conn id; `hk` — the link was timed out and due for a reconnect attempt when the
  tick started.  `setCfg`, `crit`, `failNext`, `failBind`, `stamp`, `syncTimeout` never discard anything.
* `run`, `wireLog`, `arrivals`, `clientItems`, `probeCopies`, `gatedRouted` — per-link logs of a run.
* `runG`, `ginit`, `G`, `Bins`, `GItem`, `ucount` (`Lemmas/RunLevelGhost.lean`) — the ghost-instrumented run of
  section 10: fresh tags for accepted datagrams, per-link bins queued / wire / lost, the dropped list.

Not covered: kernel/UDP delivery after `sendmmsg`; partial kernel sends inside one batch (the model's
batch send is all-or-nothing; see `C01_send_all_complete` for the chunk loop in isolation); tokio timer
jitter ("15 ms" = one `flush` event).
-/
namespace Srtla.Props.C01
open Srtla Srtla.Sys Srtla.Link Srtla.Conn Srtla.Select

set_option linter.unusedSectionVars false

variable {F : Type} [Scalar F]
variable {fa : List (Nat × Nat)}

/-- A datagram. -/
abbrev Bytes := List UInt8

/-! ## 1. Building blocks -/

/-- `take_batch` returns exactly the queue, in order, and empties it (conn id, connection flag,
stall-gate flag, probe counter and regime untouched). -/
theorem C01_take_batch (l : FLink F) (now : Nat) :
    (l.takeBatch now).2 = l.queue ∧ (l.takeBatch now).1.queue = [] ∧
    (l.takeBatch now).1.core.connId = l.core.connId ∧ (l.takeBatch now).1.probeCounter = l.probeCounter := by
  obtain ⟨h1, h2, h3, -, -, h6, -⟩ := takeBatch_spec l now
  exact ⟨h1, h2, h3, h6⟩

/-- `send_connection_batch` puts on the wire exactly the queued payloads, in queue order, each tagged
with the link's conn id and never a modified byte — or only a PREFIX of them (the first
`failPrefix fa connId …` payloads: what `send_all_datagrams` got out before the call that failed; none of them for
a plain `failNext` injection, `C01_fail_prefix`), and that only when a send failure was pending for this conn id
(then the injection is consumed and `ok = false`: the caller treats the WHOLE batch as failed).  The queue is empty
afterwards in every case.  `fa` is the prefix table of the partial injections (`Sys.failAfter`). -/
theorem C01_send_connection_batch (fa : List (Nat × Nat)) (l : FLink F) (now : Nat) (fn : List Nat) :
    let r := sendConnectionBatch fa l now fn
    r.1.queue = [] ∧ r.1.core.connId = l.core.connId ∧
    ((r.2.1 = (l.queue.map (·.1)).map (fun x => (l.core.connId, x)) ∧ r.2.2.1 = true ∧ r.2.2.2 = fn) ∨
     (r.2.1 = ((l.queue.map (·.1)).take (failPrefix fa l.core.connId (fn.count l.core.connId))).map
          (fun x => (l.core.connId, x)) ∧
        r.2.2.1 = false ∧ l.queue ≠ [] ∧ l.core.connId ∈ fn ∧ r.2.2.2 = fn.erase l.core.connId)) := by
  obtain ⟨h1, h2, -, -, -, -, h7⟩ := sendConnectionBatch_spec (fa := fa) l now fn
  exact ⟨h1, h2, h7⟩

/-- **How much of a batch a failing send puts on the wire** (`failPrefix`, the reading of the two injection
events): with NO partial injection pending for the conn id (`Ev.failNext` only) nothing goes out; when the conn id
occurs exactly once in `failNext` and its only partial injection is `(cid, k)`, the first `min k len` datagrams go
out (`List.take k`); a plain injection pending next to partial ones is consulted first (multiplicity above the
number of partial entries: nothing goes out). -/
theorem C01_fail_prefix (fa : List (Nat × Nat)) (cid c k : Nat) :
    ((∀ e ∈ fa, e.1 ≠ cid) → failPrefix fa cid c = 0) ∧
    ((fa.filter fun e => e.1 == cid) = [(cid, k)] → failPrefix fa cid 1 = k) ∧
    ((fa.filter fun e => e.1 == cid).length < c → failPrefix fa cid c = 0) := by
  refine ⟨fun h => ?_, fun h => ?_, fun h => ?_⟩
  · have : (fa.filter fun e => e.1 == cid) = [] := by
      rw [List.filter_eq_nil_iff]
      intro e he
      simpa using h e he
    unfold failPrefix
    simp [this]
  · unfold failPrefix
    simp [h]
  · unfold failPrefix
    simp only [List.length_map]
    rw [if_neg (by omega)]

example : failPrefix [(1, 3), (2, 5), (1, 7)] 1 3 = 0 ∧ failPrefix [(1, 3), (2, 5), (1, 7)] 1 2 = 3 ∧
    failPrefix [(1, 3), (2, 5), (1, 7)] 1 1 = 7 ∧ failPrefix [(1, 3), (2, 5), (1, 7)] 2 1 = 5 := by decide

/-- `queue_data_packet` appends exactly `(pkt, seq, now)` at the END of the link's queue, leaves the
core, the probe counter and the regime alone, and asks for a flush iff the new length reaches the
regime's batch size. -/
theorem C01_queue_data_packet (l : FLink F) (pkt : Bytes) (seq : Option Nat) (now : Nat) :
    (l.queueDataPacket pkt seq now).1.queue = l.queue ++ [(pkt, seq, now)] ∧
    (l.queueDataPacket pkt seq now).2 = decide (l.queue.length + 1 ≥ l.regime.batchSize) ∧
    (l.queueDataPacket pkt seq now).1.core = l.core ∧
    (l.queueDataPacket pkt seq now).1.probeCounter = l.probeCounter := by
  obtain ⟨h1, h2, h3, h4, -, -⟩ := queueDataPacket_spec l pkt seq now
  exact ⟨h1, h2, h3, h4⟩

/-- `forward_via_connection` touches exactly one link: the list of links afterwards is the old one with
position `sel` replaced, the wire output is tagged with that link's conn id only, and
`last_selected_idx = sel`. -/
theorem C01_forward_touches_one_link (s : Sys F) (sel : Nat) (pkt : Bytes) (seq : Option Nat) (now : Nat)
    (l : FLink F) (hl : s.links[sel]? = some l) :
    ∃ (l' : FLink F) (b : List Bytes), (forwardVia s sel pkt seq now).1.links = setAt s.links sel l' ∧
      (forwardVia s sel pkt seq now).2.wire = b.map (fun y => (l.core.connId, y)) ∧
      (forwardVia s sel pkt seq now).1.lastSelected = some sel := by
  obtain ⟨l', b, f1, f2, -, -, -, f6, -⟩ := forwardVia_spec s sel pkt seq now l hl
  exact ⟨l', b, f1, f2, f6⟩

/-- Regime batch sizes: 4 (low activity), 16 (normal), 32 (high load) — never above 32. -/
theorem C01_batch_sizes :
    Regime.low.batchSize = 4 ∧ Regime.normal.batchSize = 16 ∧ Regime.high.batchSize = 32 := by
  simp [Regime.batchSize]

/-! ## 2. Every event, every link: the master statement -/

/-- **One event, one link.**  For every state with distinct conn ids, every event and every link `i`
(`l` before, `l'` after): the number of links and the link's conn id do not change; the queue first
grows by exactly `appended s ev i` at its END, and then exactly one of
* *held*: nothing leaves (`l'.queue = l.queue ++ appended`), nothing of this link's goes on the wire, and
  if something was appended the queue is below the link's regime threshold and below 32;
* *sent*: the WHOLE queue (old content then the appended item) is put on this link's socket, in queue
  order, byte for byte (`dataWire … = bytesOf (l.queue ++ appended)`), and the queue is empty;
* *discarded*: the queue is empty, at most a PREFIX of it went on the wire (`List.take k`: a send that failed
  part-way; `k = 0` for a reset or a send that failed before anything went out - whenever the whole content did go
  out the event is classified *sent* by `Lemmas/ForwardStep.lean: LinkFx.strengthen`, so the cause below is proved
  for the events that really lose something), and a `LossCause` holds.
`hnr`: over events / runs that keep the link set (no `Ev.reload`); a reload keeps the whole record of every retained link
(`Props/SysReload.lean: reload_frame`) and the theorem applies again from the state after it.  A datagram queued on an uplink that a
reload removes is discarded with it: `Props/SysReload.lean: C01_reload_accounting`. -/
theorem C01_event_link (s : Sys F) (ev : Ev) (hnd : (ids s.links).Nodup) (hnr : ev.isReload = false) :
    (step s ev).1.links.length = s.links.length ∧
    ∀ (i : Nat) (l : FLink F), s.links[i]? = some l → ∃ l', (step s ev).1.links[i]? = some l' ∧
      l'.core.connId = l.core.connId ∧
      ((l'.queue = l.queue ++ appended s ev i ∧ dataWire ev (step s ev).2 l.core.connId = [] ∧
          (appended s ev i = [] ∨ (l'.queue.length < l'.regime.batchSize ∧ l'.queue.length < 32))) ∨
       (l'.queue = [] ∧ dataWire ev (step s ev).2 l.core.connId = bytesOf (l.queue ++ appended s ev i)) ∨
       (l'.queue = [] ∧
         (∃ k, dataWire ev (step s ev).2 l.core.connId = (bytesOf (l.queue ++ appended s ev i)).take k) ∧
         LossCause s ev i l l')) := by
  obtain ⟨h1, h2⟩ := step_link s ev hnd hnr
  refine ⟨h1, fun i l hl => ?_⟩
  obtain ⟨l', g1, g2, -, -⟩ := h2 i l hl
  exact ⟨l', g1, g2.1, g2.2⟩

/-- Only a client datagram is ever appended to a queue, and it is appended unmodified:
`appended` is empty or the single item `(pkt, seq(pkt), now)` of that very event. -/
theorem C01_appended_is_client_datagram (s : Sys F) (ev : Ev) (i : Nat) :
    appended s ev i = [] ∨ ∃ now pkt, ev = .client now pkt ∧ appended s ev i = [(pkt, Codec.getSrtSequenceNumberS pkt, now)] := by
  cases ev with
  | client now pkt =>
    rcases appendedClient_cases s pkt now i with h | h
    · exact Or.inl h
    · exact Or.inr ⟨now, pkt, rfl, h⟩
  | _ => exact Or.inl rfl

/-! ## 3. Runs: intact, in order, exactly accounted -/

/-- **Exact accounting** (`C01_accounting` of the design).  Over every event list from every state
satisfying `Inv`, for every link: its initial queue followed by its arrival log splits, IN ORDER, into
the departed items followed by the final queue; every departed item carries one flag (`true` = put on
the wire, `false` = discarded); and the link's wire log is exactly the `true` items, in order, byte
for byte.  Hence every accepted copy is, by position, in exactly one of: wire log (once), discarded,
still queued.
`hnr`: over events / runs that keep the link set (no `Ev.reload`); a reload keeps the whole record of every retained link
(`Props/SysReload.lean: reload_frame`) and the theorem applies again from the state after it.  A datagram queued on an uplink that a
reload removes is discarded with it: `Props/SysReload.lean: C01_reload_accounting`. -/
theorem C01_accounting (s : Sys F) (h : Inv s) (evs : List Ev) (hnr : NoReload evs) (i : Nat)
    (hi : i < s.links.length) :
    ∃ dep : List (QItem × Bool),
      queueOf s i ++ arrivals s evs i = dep.map (·.1) ++ queueOf (run s evs).1 i ∧
      wireLog s evs i = bytesOf ((dep.filter (·.2)).map (·.1)) :=
  run_accounting s h evs hnr i hi

/-- The arrival log of every link is a subsequence of the client datagrams of the run (each client
event contributes at most one copy per link, unmodified). -/
theorem C01_arrivals_are_client_datagrams (s : Sys F) (evs : List Ev) (i : Nat) :
    (arrivals s evs i).Sublist (clientItems evs) :=
  arrivals_sublist s evs i

/-- **Intact, in per-link order, at most once per link** — purely observational, no ghost state.
Over every event list from every state satisfying `Inv`, for every link: (the datagrams put on its
socket by the data path, in order) followed by (the payloads still queued at the end) is a
SUBSEQUENCE of (the payloads queued initially) followed by (the client datagrams of the run, in
arrival order).  So every wire datagram is byte-for-byte a datagram received from the SRT client
(or queued before the run), the per-link wire order is the arrival order, and no client datagram is
sent twice on the same link; what is missing was discarded (`C01_lost_only_by_reset_or_failed_send`)
or routed elsewhere.
`hnr`: over events / runs that keep the link set (no `Ev.reload`); a reload keeps the whole record of every retained link
(`Props/SysReload.lean: reload_frame`) and the theorem applies again from the state after it.  A datagram queued on an uplink that a
reload removes is discarded with it: `Props/SysReload.lean: C01_reload_accounting`. -/
theorem C01_intact_in_order (s : Sys F) (h : Inv s) (evs : List Ev) (hnr : NoReload evs) (i : Nat)
    (hi : i < s.links.length) :
    (wireLog s evs i ++ bytesOf (queueOf (run s evs).1 i)).Sublist
      (bytesOf (queueOf s i) ++ bytesOf (clientItems evs)) :=
  run_sublist s h evs hnr i hi

/-! ## 4. Exactly one unique copy, probes only on gated links -/

/-- **Where a client datagram goes.**  For a non-empty client datagram (registered or not) whose
routing decision is `target s pkt now = some sel`: `sel` is an existing link, `last_selected_idx`
becomes `sel`, and link `i` (seen as `l1` after this call's selection pass — same queue, core and probe
counter as before it) gets appended
* the unique copy iff `i = sel`;
* otherwise one probe copy iff the session is registered AND the datagram is an SRT data packet AND
  the link is stall-gated AND connected AND its 1-in-100 counter fires (`probeCounter + 1 ≥ 100`, i.e.
  it stood at 99; `stall_probe_due`);
* otherwise nothing — and then the link's queue is untouched and nothing is sent on its socket.
The copy is the datagram itself: `(pkt, seq(pkt), now)`. -/
theorem C01_exactly_one_unique_copy (s : Sys F) (hnd : (ids s.links).Nodup) (pkt : Bytes) (now sel : Nat)
    (hne : pkt ≠ []) (ht : target s pkt now = some sel) :
    sel < s.links.length ∧ (handleSrtPacket s pkt now).1.lastSelected = some sel ∧
    ∀ (i : Nat) (l : FLink F), s.links[i]? = some l →
      ∃ l1 l', (routedLinks s now)[i]? = some l1 ∧ l1.queue = l.queue ∧ l1.core = l.core ∧
        l1.probeCounter = l.probeCounter ∧ (handleSrtPacket s pkt now).1.links[i]? = some l' ∧
        appended s (.client now pkt) i =
          (if i = sel then [(pkt, Codec.getSrtSequenceNumberS pkt, now)]
           else if s.reg.hasConnected = true ∧ (Codec.getSrtSequenceNumberS pkt).isSome = true ∧
               l1.stallGated = true ∧ l1.core.connected = true ∧ l1.probeCounter + 1 ≥ 100
             then [(pkt, Codec.getSrtSequenceNumberS pkt, now)]
           else []) ∧
        (appended s (.client now pkt) i = [] →
          l'.queue = l.queue ∧ wireOf l.core.connId (handleSrtPacket s pkt now).2.wire = []) := by
  have hne' : pkt.isEmpty = false := by cases pkt <;> simp_all
  obtain ⟨-, -, -, -, -, h6, -, h8⟩ := client_links s pkt now hnd
  refine ⟨target_in_range s pkt now sel ht, h6 sel hne' ht, fun i l hl => ?_⟩
  obtain ⟨l1, r1, r2, r3, r4, -⟩ := routedLinks_getElem? s now i l hl
  obtain ⟨l', g1, -, -, g4⟩ := h8 i l hl
  exact ⟨l1, l', r1, r2, r3, r4, g1, appendedClient_eq s pkt now i sel l1 hne ht r1, g4⟩

/-- Once registered the routing decision is `selected`; before, it is
`select_pre_registration_connection` — and then no probe copy exists (see the `hasConnected` conjunct
above). -/
theorem C01_target_def (s : Sys F) (pkt : Bytes) (now : Nat) :
    target s pkt now =
      if s.reg.hasConnected then selected s pkt now else selectPreRegistration s.links s.lastSelected now := rfl

/-- `selected` is the scheduler's pick (`select_connection_idx`), or — only for an SRT data packet, in
enhanced mode, inside the keyframe window or flagged as a retransmission — the best-quality eligible
link (`select_best_quality_eligible_idx`). -/
theorem C01_selected_is_pick_or_override (s : Sys F) (pkt : Bytes) (now : Nat) :
    selected s pkt now = (runSelect s now).2 ∨
    ((Codec.getSrtSequenceNumberS pkt).isSome = true ∧ s.cfg.classic = false ∧
      (s.critDeadline > now ∨ Codec.isSrtDataRetransmitS pkt = true) ∧
      ∃ b, selected s pkt now = some b ∧
        bestQualityEligible ((runSelect s now).1.links.map FLink.toSLink) now = some b) :=
  selected_cases s pkt now

/-- **The unique copy goes to an eligible link** (the shell-level clause C04 leaves open).  Once
registered, the link that receives the unique copy is — in the state this call's selection pass leaves
behind, i.e. what `is_stall_gated()` / `is_timed_out(now)` answer when `forward_via_connection` runs —
connected, schedulable (phase ≠ registering), not timed out and not stall-gated; for the scheduler's
pick by `C04_selector_eligible`, for the override by `C04_override_eligible`.  Together with
`C01_exactly_one_unique_copy`: a registering, timed-out or gated link receives no client datagram
except probe copies (gated AND connected links only). -/
theorem C01_unique_copy_on_eligible_link (s : Sys F) (pkt : Bytes) (now sel : Nat)
    (hreg : s.reg.hasConnected = true) (ht : target s pkt now = some sel) :
    ∃ l1, (routedLinks s now)[sel]? = some l1 ∧ l1.core.connected = true ∧ l1.schedulable = true ∧
      l1.isTimedOut now = false ∧ l1.stallGated = false := by
  have h1 : target s pkt now = selected s pkt now := by unfold target; simp [hreg]
  have h2 : routedLinks s now = (runSelect s now).1.links := by unfold routedLinks; simp [hreg]
  rw [h1] at ht; rw [h2]
  exact selected_eligible s pkt now sel ht

/-- **Dropped** (no link chosen, or empty datagram): nothing is queued, nothing is sent, on any link,
and `last_selected_idx` is unchanged. -/
theorem C01_dropped_when_no_link (s : Sys F) (hnd : (ids s.links).Nodup) (pkt : Bytes) (now : Nat)
    (h : pkt = [] ∨ target s pkt now = none) :
    (handleSrtPacket s pkt now).2.wire = [] ∧ (handleSrtPacket s pkt now).1.lastSelected = s.lastSelected ∧
    ∀ (i : Nat) (l : FLink F), s.links[i]? = some l →
      ∃ l', (handleSrtPacket s pkt now).1.links[i]? = some l' ∧ l'.queue = l.queue := by
  obtain ⟨-, -, -, -, -, -, h7, h8⟩ := client_links s pkt now hnd
  have h' : pkt.isEmpty = true ∨ target s pkt now = none := by
    rcases h with h | h
    · exact Or.inl (by simp [h])
    · exact Or.inr h
  refine ⟨(h7 h').1, (h7 h').2, fun i l hl => ?_⟩
  obtain ⟨l', g1, -, -, g4⟩ := h8 i l hl
  refine ⟨l', g1, (g4 ?_).1⟩
  unfold appendedClient
  rcases h' with h' | h'
  · rw [if_pos h']
  · rw [h']; split <;> rfl

/-! ## 5. Probe rate -/

/-- The per-event indicator counted by `probeCopies` is exactly "a probe copy was appended":
on a link other than the target, a copy is appended iff `stall_probe_due` was consulted
(`consulted`: registered, data packet, link gated and connected) and the counter fired. -/
theorem C01_probe_copy_iff (s : Sys F) (pkt : Bytes) (now i sel : Nat) (l : FLink F)
    (hne : pkt ≠ []) (ht : target s pkt now = some sel) (hi : i ≠ sel) (hl : s.links[i]? = some l) :
    (appended s (.client now pkt) i ≠ [] ↔
      (consulted s (.client now pkt) i = true ∧ l.probeCounter + 1 ≥ 100)) := by
  obtain ⟨l1, r1, -, -, r4, -⟩ := routedLinks_getElem? s now i l hl
  have h1 := appendedClient_eq s pkt now i sel l1 hne ht r1
  have h2 := probeConsulted_iff s pkt now i sel l1 hne ht r1
  simp only [appended, consulted]
  rw [h1, h2, if_neg hi, r4]
  constructor
  · intro h
    split at h
    · rename_i hc; exact ⟨⟨hc.1, hc.2.1, hi, hc.2.2.1, hc.2.2.2.1⟩, hc.2.2.2.2⟩
    · exact absurd rfl h
  · rintro ⟨⟨a, b, -, c, d⟩, e⟩
    rw [if_pos ⟨a, b, c, d, e⟩]; simp

/-- **At most one duplicate per 100 routed data packets per gated uplink.**  Over every event list
from every state with distinct conn ids, for every link:
`100 × (probe copies queued on the link) + final probe counter ≤ (data packets routed to another link
while this link was stall-gated and connected) + initial probe counter`.
The counter is 0 after every `reset_core_state`, so counted from a reset (or from any state with
counter 0) `100 × probes + probeCounter ≤ routed-while-gated`; applied to a suffix of a run it bounds
every window: at most `⌊(n + 99) / 100⌋` duplicates for `n` routed data packets.
`hnr`: over events / runs that keep the link set (no `Ev.reload`); a reload keeps the whole record of every retained link
(`Props/SysReload.lean: reload_frame`) and the theorem applies again from the state after it. -/
theorem C01_probe_rate (s : Sys F) (hnd : (ids s.links).Nodup) (evs : List Ev) (hnr : NoReload evs) (i : Nat)
    (hi : i < s.links.length) :
    100 * probeCopies s evs i + probeCounterOf (run s evs).1 i ≤ gatedRouted s evs i + probeCounterOf s i :=
  run_probe_rate s hnd evs hnr i hi

/-! ## 6. Hold time -/

/-- **Invariant**: after every event list from a state satisfying `Inv` (distinct conn ids, every
queue < 32), conn ids are still distinct and every queue holds fewer than 32 datagrams: a datagram
is never held for more than one batch.  (A regime change by housekeeping can leave an older queue
above a smaller threshold, never at 32: appends flush at the regime threshold ≤ 32.)
`hnr`: over events / runs that keep the link set (no `Ev.reload`); a reload keeps the whole record of every retained link
(`Props/SysReload.lean: reload_frame`) and the theorem applies again from the state after it. -/
theorem C01_hold (s : Sys F) (h : Inv s) (evs : List Ev) (hnr : NoReload evs) :
    (ids (run s evs).1.links).Nodup ∧ ∀ l ∈ (run s evs).1.links, l.queue.length < 32 :=
  ⟨(h.run evs hnr).nodup, (h.run evs hnr).hold⟩

/-- After a client event, a link that received a copy and still holds it is below its CURRENT regime
threshold (4 / 16 / 32). -/
theorem C01_hold_below_threshold (s : Sys F) (hnd : (ids s.links).Nodup) (now : Nat) (pkt : Bytes) (i : Nat)
    (l l' : FLink F) (hl : s.links[i]? = some l) (hl' : (handleSrtPacket s pkt now).1.links[i]? = some l')
    (happ : appended s (.client now pkt) i ≠ []) (hq : l'.queue ≠ []) :
    l'.queue.length < l'.regime.batchSize := by
  obtain ⟨-, h2⟩ := step_link s (.client now pkt) hnd rfl
  obtain ⟨l'', g1, g2, -, -⟩ := h2 i l hl
  have : l'' = l' := by
    have h := g1; simp only [step] at h; rw [hl'] at h; exact (Option.some.inj h).symm
  subst this
  rcases g2.2 with g | g | g
  · rcases g.2.2 with h | h
    · exact absurd h happ
    · exact h.1
  · exact absurd g.1 hq
  · exact absurd g.1 hq

/-- **After every `flush` event every queue is empty** (`flush_all_batches` drains every non-empty
queue; every link has an I/O handle in the model): a datagram is held for at most one flush tick. -/
theorem C01_flush_empties (s : Sys F) (hnd : (ids s.links).Nodup) (now : Nat) :
    ∀ l' ∈ (step s (.flush now)).1.links, l'.queue = [] := by
  obtain ⟨h1, -, -, -, -, -, h7⟩ := flush_links s now hnd
  intro l' hl'
  obtain ⟨i, hi, hget⟩ := List.getElem_of_mem hl'
  have hi' : i < s.links.length := by simp only [step] at hi; omega
  obtain ⟨l'', g1, -, g3, -⟩ := h7 i s.links[i] (List.getElem?_eq_getElem hi')
  have : l'' = l' := by
    have h := List.getElem?_eq_getElem hi
    simp only [step] at h hget; rw [g1, hget] at h; exact Option.some.inj h
  rw [← this]; exact g3

/-! ## 7. Lost only by reset or failed send -/

/-- **Nothing vanishes.**  If an item that link `i` held before an event, or that the event appended
to it, is afterwards neither in the link's queue nor among the datagrams the event put on the link's
socket, then the event discarded the queue for one of the four admissible reasons (`LossCause`, each with its
CAUSE in the pre-state — `C01_loss_cause_def`):
* `client`: a send failure was pending for the conn id AND THIS EVENT CONSUMED IT (`failNext` holds the conn id
  strictly fewer times afterwards): the threshold flush failed and the link was reset by `mark_for_recovery`
  (disconnected, phase registering);
* `flush`: a send failure was pending for the conn id and this event consumed it (failed periodic send; the
  batch is lost);
* `uplink`: the packet arrived on this very link's conn id and is a REG3 (type 0x9202,
  `clear_pre_registration_state`) or a REG_ERR (type 0x9210, `mark_for_recovery`);
* `hk`: the link — as the tick found it — was timed out at `now` and `should_attempt_reconnect(now)` held, and
  housekeeping started a reconnect of it at `now` (`reset_for_reconnect`, or `mark_for_recovery` when the socket
  re-creation failed).
`setCfg`, `crit`, `failNext`, `failBind`, `stamp`, `syncTimeout` events never discard anything.
`hnr`: over events / runs that keep the link set (no `Ev.reload`); a reload keeps the whole record of every retained link
(`Props/SysReload.lean: reload_frame`) and the theorem applies again from the state after it.  A datagram queued on an uplink that a
reload removes is discarded with it: `Props/SysReload.lean: C01_reload_accounting`. -/
theorem C01_lost_only_by_reset_or_failed_send (s : Sys F) (ev : Ev) (hnd : (ids s.links).Nodup)
    (hnr : ev.isReload = false) (i : Nat) (l l' : FLink F) (hl : s.links[i]? = some l) (hl' : (step s ev).1.links[i]? = some l')
    (x : QItem) (hx : x ∈ l.queue ++ appended s ev i) (hq : x ∉ l'.queue)
    (hw : x.1 ∉ dataWire ev (step s ev).2 l.core.connId) :
    LossCause s ev i l l' := by
  obtain ⟨-, h2⟩ := step_link s ev hnd hnr
  obtain ⟨l'', g1, g2, -, -⟩ := h2 i l hl
  have : l'' = l' := by rw [hl'] at g1; exact (Option.some.inj g1).symm
  subst this
  rcases g2.2 with g | g | g
  · rw [g.1] at hq; exact absurd hx hq
  · rw [g.2] at hw
    exact absurd (List.mem_map.2 ⟨x, hx, rfl⟩) hw
  · exact g.2.2

/-- **The causes, spelled out** (all eleven event constructors).  Each admissible arm is a statement about the
PRE-state `s`, `l` and the event — the cause — together with the shape of the post-state `l'`:
* `client`: the conn id was in `failNext`, the event CONSUMED one such injection (`failNext` of the post-state
  holds the conn id strictly fewer times), and the link is torn down (not connected, registering);
* `flush`: the conn id was in `failNext` and the event consumed one such injection;
* `uplink`: the datagram's conn id is this link's, and the registration layer's verdict is REG3 or REG_ERR —
  equivalently (third conjunct) its type code is 0x9202 or 0x9210;
* `hk`: `l.isTimedOut now ∧ l.shouldAttemptReconnect now` on the record the tick started with, and the
  post-state carries the attempt stamp `now`, is not connected and is registering;
* `setCfg`, `crit`, `failNext`, `failBind` (the two fault INJECTIONS themselves lose nothing: only the later
  `client` / `flush` / `hk` event that consumes one does), `stamp`, `syncTimeout`: never.
The twelfth constructor `reload` is not an event of the index-based walk (`hnr` of `C01_event_link`); what it discards
— the whole queue of every removed uplink — is `Props/SysReload.lean: C01_reload_accounting`. -/
theorem C01_loss_cause_def (s : Sys F) (i : Nat) (l l' : FLink F) :
    (∀ now pkt, LossCause s (.client now pkt) i l l' ↔
      ((l.core.connId ∈ s.failNext ∧ l'.core.connected = false ∧ l'.core.phase = .registering) ∧
        (step s (.client now pkt)).1.failNext.count l.core.connId < s.failNext.count l.core.connId)) ∧
    (∀ now, LossCause s (.flush now) i l l' ↔
      (l.core.connId ∈ s.failNext ∧
        (step s (.flush now)).1.failNext.count l.core.connId < s.failNext.count l.core.connId)) ∧
    (∀ now cid data, LossCause s (.uplink now cid data) i l l' ↔
      (cid = l.core.connId ∧
        ((Reg.processRegistrationPacket s.reg i data now).2 = some .reg3 ∨
         (Reg.processRegistrationPacket s.reg i data now).2 = some .regErr) ∧
        (Codec.getPacketTypeS data = some 0x9202 ∨ Codec.getPacketTypeS data = some 0x9210))) ∧
    (∀ now, LossCause s (.hk now) i l l' ↔
      (l.isTimedOut now = true ∧ l.shouldAttemptReconnect now = true ∧
        l'.lastAttemptMs = now ∧ l'.core.connected = false ∧ l'.core.phase = .registering)) ∧
    (∀ cfg, ¬ LossCause s (.setCfg cfg) i l l') ∧ (∀ d, ¬ LossCause s (.crit d) i l l') ∧
    (∀ c, ¬ LossCause s (.failNext c) i l l') ∧ (∀ c, ¬ LossCause s (.failBind c) i l l') ∧
    (∀ idx w ld ccb cct, ¬ LossCause s (.stamp idx w ld ccb cct) i l l') ∧
    ¬ LossCause s .syncTimeout i l l' := by
  refine ⟨fun _ _ => Iff.rfl, fun _ => Iff.rfl, fun now cid data => ?_, fun _ => Iff.rfl,
    fun _ h => h, fun _ h => h, fun _ h => h, fun _ h => h, fun _ _ _ _ _ h => h, fun h => h⟩
  obtain ⟨hE, h3⟩ := Hk.regEvent_of_type s.reg i data now
  constructor
  · rintro ⟨h1, h2⟩
    refine ⟨h1, h2, ?_⟩
    rcases h2 with h | h
    · exact Or.inl (h3.1 h)
    · exact Or.inr (hE.1 h)
  · rintro ⟨h1, h2, -⟩
    exact ⟨h1, h2⟩

/-- **What a consumed injection means for the fault-injection list**: `failNext` is written only by `failNext`
events (one entry added) and by the `client` / `flush` events that consume entries; whatever a `client` or
`flush` event removes are failed sends, one entry per failed batch — so the `client` / `flush` arms of
`LossCause` say that one of the batches that failed in this event was this link's. -/
theorem C01_failNext_only_shrinks_in_data_events (s : Sys F) (now : Nat) (pkt : Bytes) (a : Nat) :
    (step s (.client now pkt)).1.failNext.count a ≤ s.failNext.count a ∧
    (step s (.flush now)).1.failNext.count a ≤ s.failNext.count a :=
  ⟨client_fnLe s pkt now a, flush_fnLe s now a⟩

/-! ## 8. Not dropped when a link is selectable -/

/-- **No drop when the scheduler picks.**  Registered session, non-empty datagram: if
`select_connection_idx` returns an index then the datagram is not dropped — some existing link `sel`
becomes `last_selected_idx`, the datagram is appended to its queue, and afterwards it is in that
queue, or on that link's socket, or was discarded by a failed threshold flush (`mark_for_recovery`). -/
theorem C01_no_drop_when_selectable (s : Sys F) (hnd : (ids s.links).Nodup) (pkt : Bytes) (now : Nat)
    (hne : pkt ≠ []) (hreg : s.reg.hasConnected = true) (hsel : (runSelect s now).2 ≠ none) :
    ∃ sel l l', target s pkt now = some sel ∧ s.links[sel]? = some l ∧
      (handleSrtPacket s pkt now).1.links[sel]? = some l' ∧
      (handleSrtPacket s pkt now).1.lastSelected = some sel ∧
      appended s (.client now pkt) sel = [(pkt, Codec.getSrtSequenceNumberS pkt, now)] ∧
      ((pkt, Codec.getSrtSequenceNumberS pkt, now) ∈ l'.queue ∨
       pkt ∈ wireOf l.core.connId (handleSrtPacket s pkt now).2.wire ∨
       (l.core.connId ∈ s.failNext ∧ l'.core.connected = false ∧ l'.core.phase = .registering)) := by
  have hne' : pkt.isEmpty = false := by cases pkt <;> simp_all
  have ht : target s pkt now = selected s pkt now := by unfold target; simp [hreg]
  obtain ⟨sel, hs⟩ := Option.ne_none_iff_exists'.1 (selected_ne_none s pkt now hsel)
  rw [← ht] at hs
  have hrange := target_in_range s pkt now sel hs
  have hl : s.links[sel]? = some s.links[sel] := List.getElem?_eq_getElem hrange
  obtain ⟨-, -, -, -, -, h6, -, h8⟩ := client_links s pkt now hnd
  obtain ⟨l', g1, g2, -, -⟩ := h8 sel _ hl
  obtain ⟨l1, r1, -⟩ := routedLinks_getElem? s now sel _ hl
  have happ := appendedClient_eq s pkt now sel sel l1 hne hs r1
  rw [if_pos rfl] at happ
  refine ⟨sel, _, l', hs, hl, g1, h6 sel hne' hs, happ, ?_⟩
  rw [happ] at g2
  rcases g2.2 with g | g | g
  · left; rw [g.1]; simp [clientItem]
  · right; left; rw [g.2]; simp [bytesOf, clientItem]
  · right; right; exact g.2.2

section withC03
open Srtla.Props.C03
variable {K : Type} [Field K] [LinearOrder K] [IsStrictOrderedRing K] [FloorRing K] (e : K → K) (ninf : K)

/-- **No drop when a usable link exists** (C01 + C03).  Scalar code read in an arbitrary linearly ordered
field with floor (exact arithmetic, `ExpLaw e`; see `Props/C03.lean` for what that means and for the
IEEE caveat).  Registered session, non-empty datagram, every link in C03's domain: if at least one link
is usable w.r.t. the configured timeout (registered phase, connected, not timed out) then the routing
decision is not `none`, i.e. the datagram is queued on a link (and then `C01_no_drop_when_selectable`
applies). -/
theorem C01_no_drop_when_usable (he : ExpLaw e) (s : Sys K) (pkt : Bytes) (now : Nat)
    (hreg : s.reg.hasConnected = true)
    (hdom : ∀ l ∈ s.links, InDomain (@FLink.toSLink K (fieldScalar K e ninf) l))
    (h : ∃ l ∈ s.links, UsableCfg (@FLink.toSLink K (fieldScalar K e ninf) l) s.cfg now) :
    @target K (fieldScalar K e ninf) s pkt now ≠ none := by
  have ht : @target K (fieldScalar K e ninf) s pkt now = @selected K (fieldScalar K e ninf) s pkt now := by
    unfold target; simp [hreg]
  rw [ht]
  apply @selected_ne_none K (fieldScalar K e ninf)
  rw [@runSelect_snd K (fieldScalar K e ninf)]
  apply C03_no_blackout e ninf he
  · intro c hc
    obtain ⟨l, hl, rfl⟩ := List.mem_map.1 hc
    exact hdom l hl
  · obtain ⟨l, hl, hu⟩ := h
    exact ⟨_, List.mem_map.2 ⟨l, hl, rfl⟩, hu⟩

end withC03

/-! ## 9. The chunked `sendmmsg` loop (`send_all_datagrams`), in isolation -/

/-- **`send_all_complete`**: for every batch, every chunk size (the code uses `BATCH_SEND_SIZE = 32`) and
every sequence of kernel answers (short sends, `Ok(0)`, errors — the parameter `oracle`): if the loop
returns `Ok(())` the datagrams the kernel accepted are exactly the offered ones, in order, each once;
whatever it returns they are a PREFIX of the offered ones; and the loop never needs more iterations
than there are datagrams.  (`Model/Sys.lean` abstracts this function as all-or-nothing.) -/
theorem C01_send_all_complete (oracle : List SendAll.SendRes) (bufs : List SendAll.Bytes) :
    ((SendAll.sendAll 32 oracle bufs).1 = .okAll → (SendAll.sendAll 32 oracle bufs).2 = bufs) ∧
    (SendAll.sendAll 32 oracle bufs).2 <+: bufs ∧
    (SendAll.sendAll 32 oracle bufs).1 ≠ .outOfFuel :=
  SendAll.send_all_complete 32 oracle bufs

/-! ## Non-vacuity: concrete states (toy fixed-point scalar `fixScalar`, evaluated by the kernel) -/

section examples

/-- Link 0: live, connected, heard 10 ms ago, 10 packets in flight, low-activity regime (batch 4). -/
def exLinkA : FLink Int :=
  { (@FLink.newRegistering Int fixScalar 1 0) with
    core := { connId := 1, connected := true, phase := .live, inFlight := 10, lastReceived := some 4990 },
    established := 1, regime := .low }

/-- Link 1: live, connected, 40 packets in flight, delivery proof 4 s old — the stall guard latches and
gates it at `now = 5000`; its probe counter stands at 99. -/
def exLinkB : FLink Int :=
  { (@FLink.newRegistering Int fixScalar 3 0) with
    core := { connId := 3, connected := true, phase := .live, window := 60000, inFlight := 40,
              lastReceived := some 4990, proofMs := 1000 },
    established := 1, probeCounter := 99 }

/-- Registered session, two links, defaults (enhanced mode, guard on). -/
def exSys : Sys Int :=
  { links := [exLinkA, exLinkB], reg := { (Srtla.Reg.Reg.new [] []) with hasConnected := true } }

/-- An SRT data packet with sequence number 5 (17 bytes) and an SRT control packet (ACK, 16 bytes). -/
def exData : Bytes := [0, 0, 0, 5, 0, 0, 0, 0, 1, 2, 3, 4, 9, 9, 9, 9, 42]
def exCtl : Bytes := [128, 2, 0, 0, 0, 0, 0, 0, 1, 2, 3, 4, 9, 9, 9, 9]

/-- `Inv` holds of the example state. -/
example : @Inv Int exSys := ⟨by decide, by decide⟩

/-- One data packet at `now = 5000`: the scheduler picks link 0 (`target = some 0`); link 1 is gated by
this very call and its counter fires, so it gets the one probe copy; both queues hold exactly the
datagram, `last_selected_idx = 0`, both counters are 0 afterwards, nothing is on the wire yet.
Instance of `C01_exactly_one_unique_copy`, `C01_probe_copy_iff`, `C01_probe_rate` (tight: 100·1 + 0 ≤ 1 + 99). -/
example :
    @target Int fixScalar exSys exData 5000 = some 0 ∧
    (@handleSrtPacket Int fixScalar exSys exData 5000).1.lastSelected = some 0 ∧
    ((@handleSrtPacket Int fixScalar exSys exData 5000).1.links.map (·.queue)) =
      [[(exData, some 5, 5000)], [(exData, some 5, 5000)]] ∧
    ((@handleSrtPacket Int fixScalar exSys exData 5000).1.links.map (·.stallGated)) = [false, true] ∧
    ((@handleSrtPacket Int fixScalar exSys exData 5000).1.links.map (·.probeCounter)) = [0, 0] ∧
    (@handleSrtPacket Int fixScalar exSys exData 5000).2.wire = [] ∧
    @appended Int fixScalar exSys (.client 5000 exData) 1 = [(exData, some 5, 5000)] ∧
    @probeCopies Int fixScalar exSys [.client 5000 exData] 1 = 1 ∧
    @gatedRouted Int fixScalar exSys [.client 5000 exData] 1 = 1 := by
  decide +kernel

/-- A control packet is never duplicated: only link 0 receives it. -/
example :
    ((@handleSrtPacket Int fixScalar exSys exCtl 5000).1.links.map (·.queue)) = [[(exCtl, none, 5000)], []] ∧
    ((@handleSrtPacket Int fixScalar exSys exCtl 5000).1.links.map (·.probeCounter)) = [0, 99] := by
  decide +kernel

/-- A run: data, control, then a flush tick.  Each link's wire log is its arrival log, in order, and
every queue is empty after the flush (`C01_accounting`, `C01_intact_in_order`, `C01_flush_empties`). -/
example :
    @wireLog Int fixScalar exSys [.client 5000 exData, .client 5001 exCtl, .flush 5010] 0 = [exData, exCtl] ∧
    @wireLog Int fixScalar exSys [.client 5000 exData, .client 5001 exCtl, .flush 5010] 1 = [exData] ∧
    @arrivals Int fixScalar exSys [.client 5000 exData, .client 5001 exCtl, .flush 5010] 0 =
      [(exData, some 5, 5000), (exCtl, none, 5001)] ∧
    ((@run Int fixScalar exSys [.client 5000 exData, .client 5001 exCtl, .flush 5010]).1.links.map (·.queue)) =
      [[], []] := by
  decide +kernel

/-- Threshold flush: link 0 is in the low-activity regime (batch 4); the fourth datagram triggers the
flush inside the client event and all four go on the wire in arrival order, tagged with conn id 1. -/
example :
    (@run Int fixScalar exSys [.client 5000 exCtl, .client 5001 exCtl, .client 5002 exCtl, .client 5003 exData]).2.map
        (·.wire.map (·.1)) = [[], [], [], [1, 1, 1, 1]] ∧
    @wireLog Int fixScalar exSys [.client 5000 exCtl, .client 5001 exCtl, .client 5002 exCtl, .client 5003 exData] 0 =
      [exCtl, exCtl, exCtl, exData] := by
  decide +kernel

/-- Failure injection on conn id 1 consumed by the periodic flush: link 0's batch is lost (wire log
empty, queue empty), link 1 is unaffected; the cause is the one `C01_lost_only_by_reset_or_failed_send`
names (`1 ∈ failNext`). -/
example :
    @wireLog Int fixScalar exSys [.failNext 1, .client 5000 exData, .flush 5010] 0 = [] ∧
    @wireLog Int fixScalar exSys [.failNext 1, .client 5000 exData, .flush 5010] 1 = [exData] ∧
    ((@run Int fixScalar exSys [.failNext 1, .client 5000 exData, .flush 5010]).1.links.map (·.queue)) = [[], []] ∧
    (@run Int fixScalar exSys [.failNext 1, .client 5000 exData]).1.failNext = [1] ∧
    (@run Int fixScalar exSys [.failNext 1, .client 5000 exData, .flush 5010]).1.failNext = [] := by
  decide +kernel

/-- The `client` arm of `LossCause`, on a run: an injected failure for conn id 1 is pending; three control
packets are queued on link 0 (low-activity regime, batch 4); the fourth datagram reaches the threshold, the flush
FAILS, the injection is CONSUMED by this very event (`failNext`: `[1]` before, `[]` after), nothing reaches the
wire, all four datagrams are discarded and link 0 is torn down (`mark_for_recovery`: not connected,
registering).  Link 1 only receives its probe copy. -/
example :
    let s3 := (@run Int fixScalar exSys [.failNext 1, .client 5000 exCtl, .client 5001 exCtl, .client 5002 exCtl]).1
    s3.failNext = [1] ∧ (s3.links.map (·.queue.length)) = [3, 0] ∧
    @target Int fixScalar s3 exData 5003 = some 0 ∧
    (@step Int fixScalar s3 (.client 5003 exData)).1.failNext = [] ∧
    (@step Int fixScalar s3 (.client 5003 exData)).2.wire = [] ∧
    ((@step Int fixScalar s3 (.client 5003 exData)).1.links.map fun l =>
        (l.queue.length, l.core.connected, decide (l.core.phase = .registering))) =
      [(0, false, true), (1, true, false)] := by
  decide +kernel

/-- … and `C01_lost_only_by_reset_or_failed_send` applied to it: the first queued control packet is neither in
link 0's queue nor on its socket afterwards, so `LossCause` holds — in particular its new conjunct, the
consumption of the injection. -/
example :
    let s3 := (@run Int fixScalar exSys [.failNext 1, .client 5000 exCtl, .client 5001 exCtl, .client 5002 exCtl]).1
    ∀ l l', s3.links[0]? = some l → (@step Int fixScalar s3 (.client 5003 exData)).1.links[0]? = some l' →
      (exCtl, none, 5000) ∈ l.queue ++ @appended Int fixScalar s3 (.client 5003 exData) 0 →
      (exCtl, none, 5000) ∉ l'.queue →
      exCtl ∉ dataWire (.client 5003 exData) (@step Int fixScalar s3 (.client 5003 exData)).2 l.core.connId →
      (@step Int fixScalar s3 (.client 5003 exData)).1.failNext.count l.core.connId < s3.failNext.count l.core.connId := by
  intro s3 l l' hl hl' hx hq hw
  exact ((@C01_loss_cause_def Int fixScalar s3 0 l l').1 5003 exData).1
    (@C01_lost_only_by_reset_or_failed_send Int fixScalar s3 (.client 5003 exData) (by decide +kernel) rfl 0 l l' hl hl'
      _ hx hq hw) |>.2

example (now : Nat) (pkt : Bytes) (a : Nat) :=
  @C01_failNext_only_shrinks_in_data_events Int fixScalar (@step Int fixScalar exSys (.failNext 1)).1 now pkt a

/-- No link can be chosen (both disconnected): the datagram is dropped (`C01_dropped_when_no_link`). -/
example :
    @target Int fixScalar
      { exSys with links := [{ exLinkA with core := { exLinkA.core with connected := false } },
                             { exLinkB with core := { exLinkB.core with connected := false } }] }
      exData 5000 = none := by
  decide +kernel

/-- REG_ERR arriving on link 0 (conn id 1) while a datagram is queued there: `mark_for_recovery` discards
the queue; nothing of it reaches the wire; the cause is the `uplink` clause of `LossCause`. -/
example :
    ((@run Int fixScalar exSys [.client 5000 exCtl]).1.links.map (·.queue)) = [[(exCtl, none, 5000)], []] ∧
    ((@run Int fixScalar exSys [.client 5000 exCtl, .uplink 5001 1 (Codec.toBE16 Gen.Proto.SRTLA_TYPE_REG_ERR)]).1.links.map
        (·.queue)) = [[], []] ∧
    @wireLog Int fixScalar exSys [.client 5000 exCtl, .uplink 5001 1 (Codec.toBE16 Gen.Proto.SRTLA_TYPE_REG_ERR), .flush 5010] 0 = [] ∧
    (Reg.processRegistrationPacket exSys.reg 0 (Codec.toBE16 Gen.Proto.SRTLA_TYPE_REG_ERR) 5001).2 = some .regErr := by
  decide +kernel

/-- Housekeeping at `now = 20000`: both links have been silent for 15 s — in the state the tick starts with both
are timed out AND due for a reconnect attempt (the CAUSE in the `hk` clause of `LossCause`) —, housekeeping
reconnects them (`reset_for_reconnect`), the queued datagram is discarded; the post-state part of the clause
(attempt stamp 20000, not connected, registering) holds as well. -/
example :
    ((@run Int fixScalar exSys [.client 5000 exCtl]).1.links.map
        fun l => (l.queue.length, @FLink.isTimedOut Int fixScalar l 20000, l.shouldAttemptReconnect 20000)) =
      [(1, true, true), (0, true, true)] ∧
    ((@run Int fixScalar exSys [.client 5000 exCtl, .hk 20000]).1.links.map
        fun l => (l.queue, l.lastAttemptMs, l.core.connected, decide (l.core.phase = .registering))) =
      [([], 20000, false, true), ([], 20000, false, true)] := by
  decide +kernel

/-- A tick at `now = 6000` instead (nothing is timed out yet): the `hk` cause is FALSE for both links and the
queue survives the tick. -/
example :
    ((@run Int fixScalar exSys [.client 5000 exCtl]).1.links.map
        fun l => @FLink.isTimedOut Int fixScalar l 6000) = [false, false] ∧
    ((@run Int fixScalar exSys [.client 5000 exCtl, .hk 6000]).1.links.map (·.queue.length)) = [1, 0] := by
  decide +kernel

/-- The chunk loop on a concrete kernel behaviour (short send, then the rest): instance of
`C01_send_all_complete`. -/
example : SendAll.sendAll 32 [.ok 1, .ok 5] [[1], [2], [3]] = (.okAll, [[1], [2], [3]]) := by decide

/-- A registered session over `ℚ` (exact arithmetic) with one usable link in C03's domain: instance of
`C01_no_drop_when_usable`. -/
noncomputable def exLinkQ : FLink ℚ :=
  { (@FLink.newRegistering ℚ ratScalar 1 0) with
    core := { connId := 1, connected := true, phase := .live, inFlight := 10, lastReceived := some 4990 },
    established := 1 }

noncomputable def exSysQ : Sys ℚ :=
  { links := [exLinkQ], reg := { (Srtla.Reg.Reg.new [] []) with hasConnected := true } }

example : @target ℚ ratScalar exSysQ exData 5000 ≠ none := by
  apply C01_no_drop_when_usable _ _ expLaw_rat exSysQ exData 5000 rfl
  · intro l hl
    simp only [exSysQ, List.mem_singleton] at hl
    subst hl
    unfold Srtla.Props.C03.InDomain
    simp [exLinkQ, FLink.toSLink, FLink.newRegistering, WINDOW_INIT, Rtt.one, Scalar.lit]
    norm_num
  · refine ⟨exLinkQ, by simp [exSysQ], ?_⟩
    unfold Srtla.Props.C03.UsableCfg Srtla.Props.C03.Usable
    decide

end examples

/-! ## 10. Exactly once over a RUN, with ghost tags -/

open Srtla.Sys.Ghost

/-- The ghost vocabulary, spelled out: `ucount t g` counts the copies of kind `unique` carrying tag `t`
in the wire bin, the queue mirror and the lost bin of EVERY link, plus the entries for `t` in the
dropped list; `Bins.probes` counts the probe copies ever enqueued on one link. -/
theorem C01_ghost_counts_def (t : Nat) (g : G F) (b : Bins) :
    ucount t g =
      (g.bins.map fun b => (b.wire ++ b.queued ++ b.lost.map (·.2)).countP
          (fun x => x.tag == t && decide (x.kind = .unique))).sum +
        g.dropped.countP (·.1 == t) ∧
    b.probes = (b.wire ++ b.queued ++ b.lost.map (·.2)).countP (fun x => decide (x.kind = .probe)) :=
  ⟨rfl, rfl⟩

/-- **The instrumented run projects to `Sys.run`.**  Erasing the ghost: the real component of `runG` is
the final state of `Sys.run`; there is one set of bins per link; the acceptance log is (what was queued
initially, then) exactly the non-empty client datagrams of the event list, in order; every link's queue
mirror erases to its real queue and its wire bin erases to the real wire log of the run (`wireLog`: the
datagrams the data path put on that link's socket, in order, byte for byte).
`hnr`: over events / runs that keep the link set (no `Ev.reload`); a reload keeps the whole record of every retained link
(`Props/SysReload.lean: reload_frame`) and the theorem applies again from the state after it.  A datagram queued on an uplink that a
reload removes is discarded with it: `Props/SysReload.lean: C01_reload_accounting`. -/
theorem C01_ghost_projects (s : Sys F) (h : Inv s) (evs : List Ev) (hnr : NoReload evs) :
    (runG (ginit s) evs).sys = (run s evs).1 ∧
    (runG (ginit s) evs).bins.length = s.links.length ∧
    (runG (ginit s) evs).accepted.map (·.2) = (ginit s).accepted.map (·.2) ++ evs.filterMap accepts ∧
    ∀ (i : Nat) (b : Bins), (runG (ginit s) evs).bins[i]? = some b →
      b.queued.map (·.item) = queueOf (run s evs).1 i ∧ b.wire.map (·.bytes) = wireLog s evs i := by
  have hg := (ginit_inv s h).run evs hnr
  have hsys : (runG (ginit s) evs).sys = (run s evs).1 := runG_sys _ _
  refine ⟨hsys, ?_, runG_accepted _ _, fun i b hb => ⟨?_, ?_⟩⟩
  · rw [hg.len, hsys]; exact run_length s h evs hnr
  · rw [← hsys]; exact hg.aligned i b hb
  · obtain ⟨b0, hb0⟩ := runG_bins_get _ _ _ _ hb
    have := runG_wire (ginit s) (ginit_inv s h) evs hnr i b0 b hb0 hb
    rw [(ginit_bins s i b0 hb0).1] at this
    simpa [ginit] using this

/-- **Exactly once, intact, in order — over every run.**  From every state satisfying `Inv`, after every
event list, in the instrumented run `g = runG (ginit s) evs`:
1. tags are handed out consecutively in acceptance order (`0, 1, 2, …`), so tag order IS acceptance order;
2. for every accepted datagram the number of `unique` copies among (wire output so far, all links) ∪
   (still queued on some link) ∪ (discarded, all links) ∪ (dropped: no link selectable) is EXACTLY ONE;
3. every copy anywhere — sent, queued or discarded, unique or probe — carries byte for byte the datagram
   the client sent under its tag, and so does every dropped entry;
4. on every link the wire order followed by the queue order is strictly increasing tag order: per link,
   datagrams leave in acceptance order and no tag appears twice on one link;
5. a probe copy exists only on a link that was stall-gated AND connected (hence not eligible) when it was
   enqueued, in an established session; the unique copy of an established session was enqueued on a link
   that was eligible (connected, registered, not timed out, not stall-gated) at that moment;
6. at most one duplicate per 100 routed data packets per gated uplink: `100 × (probe copies ever enqueued
   on the link) + final probe counter ≤ (data packets routed elsewhere while the link was stall-gated and
   connected) + initial probe counter`.
`hnr`: over events / runs that keep the link set (no `Ev.reload`); a reload keeps the whole record of every retained link
(`Props/SysReload.lean: reload_frame`) and the theorem applies again from the state after it.  A datagram queued on an uplink that a
reload removes is discarded with it: `Props/SysReload.lean: C01_reload_accounting`. -/
theorem C01_exactly_once_run (s : Sys F) (h : Inv s) (evs : List Ev) (hnr : NoReload evs) :
    (runG (ginit s) evs).accepted.map (·.1) = List.range (runG (ginit s) evs).next ∧
    (∀ tb ∈ (runG (ginit s) evs).accepted, ucount tb.1 (runG (ginit s) evs) = 1) ∧
    (∀ (i : Nat) (b : Bins), (runG (ginit s) evs).bins[i]? = some b →
      ∀ x ∈ b.all, (x.tag, x.bytes) ∈ (runG (ginit s) evs).accepted) ∧
    (∀ x ∈ (runG (ginit s) evs).dropped, x ∈ (runG (ginit s) evs).accepted) ∧
    (∀ (i : Nat) (b : Bins), (runG (ginit s) evs).bins[i]? = some b →
      (b.wire ++ b.queued).Pairwise (fun x y => x.tag < y.tag)) ∧
    (∀ (i : Nat) (b : Bins), (runG (ginit s) evs).bins[i]? = some b → ∀ x ∈ b.all,
      (x.kind = .probe → x.gated = true ∧ x.elig = false ∧ x.estab = true) ∧
      (x.kind = .unique → x.estab = true → x.elig = true ∧ x.gated = false)) ∧
    (∀ (i : Nat) (b : Bins), (runG (ginit s) evs).bins[i]? = some b →
      100 * b.probes + probeCounterOf (run s evs).1 i ≤ gatedRouted s evs i + probeCounterOf s i) := by
  have hg := (ginit_inv s h).run evs hnr
  refine ⟨hg.acc, ?_, fun i b hb => (hg.ok i b hb).bytes, hg.dropped, fun i b hb => (hg.ok i b hb).sorted,
    fun i b hb x hx => ⟨(hg.ok i b hb).probe x hx, (hg.ok i b hb).unique x hx⟩, ?_⟩
  · intro tb htb
    apply hg.once
    have : tb.1 ∈ (runG (ginit s) evs).accepted.map (·.1) := List.mem_map.2 ⟨tb, htb, rfl⟩
    rw [hg.acc] at this
    exact List.mem_range.1 this
  · intro i b hb
    obtain ⟨b0, hb0⟩ := runG_bins_get _ _ _ _ hb
    have hp := runG_probes (ginit s) (ginit_inv s h) evs hnr i b0 b hb0 hb
    rw [(ginit_bins s i b0 hb0).2.2, Nat.zero_add] at hp
    rw [hp]
    have hi : i < s.links.length := by
      have := (List.getElem?_eq_some_iff.1 hb0).1
      rw [(ginit_inv s h).len] at this; exact this
    exact C01_probe_rate s h.nodup evs hnr i hi

/-- **Nothing is filed under `lost` without a cause.**  Every entry `(k, x)` of a link's lost bin at the
end of a run names an event of the run (`evs[k]`), and that event, applied to the state the run had
reached after its first `k` events, discarded the link's queue for one of the four admissible reasons
(`LossCause`, spelled out in `C01_loss_cause_def`: failed threshold send + `mark_for_recovery`, failed
periodic send — in both cases the injected failure for the link's conn id is CONSUMED by that very event —,
REG3 / REG_ERR on this link's conn id, housekeeping reconnect of a link that was timed out and due for an attempt
when the tick started).  The eleven-constructor alphabet includes `failBind`, `stamp`, `syncTimeout`: none of
them ever files anything under `lost`.
`hnr`: over events / runs that keep the link set (no `Ev.reload`); a reload keeps the whole record of every retained link
(`Props/SysReload.lean: reload_frame`) and the theorem applies again from the state after it.  A datagram queued on an uplink that a
reload removes is discarded with it: `Props/SysReload.lean: C01_reload_accounting`. -/
theorem C01_lost_has_cause_run (s : Sys F) (h : Inv s) (evs : List Ev) (hnr : NoReload evs) (i : Nat) (b : Bins)
    (hb : (runG (ginit s) evs).bins[i]? = some b) :
    ∀ kx ∈ b.lost, ∃ ev l l', evs[kx.1]? = some ev ∧
      (run s (evs.take kx.1)).1.links[i]? = some l ∧
      (step (run s (evs.take kx.1)).1 ev).1.links[i]? = some l' ∧
      LossCause (run s (evs.take kx.1)).1 ev i l l' := by
  obtain ⟨b0, hb0⟩ := runG_bins_get _ _ _ _ hb
  obtain ⟨extra, e1, e2⟩ := runG_lost (ginit s) (ginit_inv s h) evs hnr i b0 b hb0 hb
  rw [(ginit_bins s i b0 hb0).2.1, List.nil_append] at e1
  intro kx hkx
  rw [e1] at hkx
  obtain ⟨k, ev, l, l', q1, q2, q3, q4, q5⟩ := e2 kx hkx
  have hk : kx.1 = k := by rw [q1]; simp [ginit]
  rw [hk]
  exact ⟨ev, l, l', q2, q3, q4, q5⟩

section ghostExamples

/-- The run of the earlier example (data, control, flush tick) from `exSys`, instrumented. -/
def exG1 : G Int := @runG Int fixScalar (ginit exSys) [.client 5000 exData, .client 5001 exCtl, .flush 5010]

/-- Both datagrams are accepted (tags 0 and 1); link 0 sent the two unique copies in acceptance order, link 1
(stall-gated and connected at enqueue time) sent the one probe copy of tag 0; each tag has exactly one
unique copy; nothing dropped, nothing lost.  Instance of `C01_ghost_projects`, `C01_exactly_once_run`. -/
example :
    @Inv Int exSys ∧
    exG1.accepted = [(0, exData), (1, exCtl)] ∧ exG1.next = 2 ∧
    (exG1.bins.map fun b => b.wire.map fun x => (x.tag, x.kind, x.gated, x.estab, x.elig)) =
      [[(0, .unique, false, true, true), (1, .unique, false, true, true)], [(0, .probe, true, true, false)]] := by
  refine ⟨⟨by decide, by decide⟩, ?_⟩
  decide +kernel

example :
    (exG1.bins.map fun b => b.wire.map (·.bytes)) = [[exData, exCtl], [exData]] ∧
    (exG1.bins.map fun b => (b.queued, b.lost)) = [([], []), ([], [])] ∧
    ucount 0 exG1 = 1 ∧ ucount 1 exG1 = 1 ∧ exG1.dropped = [] ∧ (exG1.bins.map (·.probes)) = [0, 1] := by
  decide +kernel

/-- Failure injection on conn id 1 consumed by the periodic flush (event index 2): the unique copy of
tag 0 is in link 0's LOST bin, stamped with event index 2; the count is still exactly one; link 1 sent its
probe copy.  Instance of `C01_lost_has_cause_run` (`LossCause … (.flush 5010)` = `1 ∈ failNext`). -/
def exG2 : G Int := @runG Int fixScalar (ginit exSys) [.failNext 1, .client 5000 exData, .flush 5010]

example :
    exG2.accepted = [(0, exData)] ∧
    (exG2.bins.map fun b => (b.wire.map (·.tag), b.queued.map (·.tag), b.lost.map fun kx => (kx.1, kx.2.tag, kx.2.kind))) =
      [([], [], [(2, 0, .unique)]), ([0], [], [])] ∧
    ucount 0 exG2 = 1 ∧
    (@run Int fixScalar exSys [.failNext 1, .client 5000 exData]).1.failNext = [1] := by
  decide +kernel

/-- A send that fails PART-WAY (`Ev.failAfter 1 2`: the threshold flush of link 0 gets two datagrams out, then
`send_all_datagrams` returns the error).  Three control packets are queued on link 0 (low-activity regime, batch 4);
the fourth datagram reaches the threshold: the first TWO datagrams of the batch are on the wire, the other two are
not, the injection is consumed, the caller sees a failed send and tears the link down.  The ghost files tags 0, 1
under `wire` and tags 2, 3 under `lost` (stamped with event index 4); every tag still has exactly one unique copy;
the wire bin is the real wire log. -/
def exEvsPartial : List Ev :=
  [.failAfter 1 2, .client 5000 exCtl, .client 5001 exCtl, .client 5002 exCtl, .client 5003 exData]
def exG2p : G Int := @runG Int fixScalar (ginit exSys) exEvsPartial

example :
    let s3 := (@run Int fixScalar exSys (exEvsPartial.take 4)).1
    s3.failNext = [1] ∧ s3.failAfter = [(1, 2)] ∧ (s3.links.map (·.queue.length)) = [3, 0] ∧
    (@step Int fixScalar s3 (.client 5003 exData)).2.wire = [(1, exCtl), (1, exCtl)] ∧
    (@step Int fixScalar s3 (.client 5003 exData)).1.failNext = [] ∧
    ((@step Int fixScalar s3 (.client 5003 exData)).1.links.map fun l =>
        (l.queue.length, l.core.connected, decide (l.core.phase = .registering))) =
      [(0, false, true), (1, true, false)] := by
  decide +kernel

example :
    (exG2p.bins.map fun b =>
        (b.wire.map (·.tag), b.queued.map (·.tag), b.lost.map fun kx => (kx.1, kx.2.tag, kx.2.kind))) =
      [([0, 1], [], [(4, 2, .unique), (4, 3, .unique)]), ([], [3], [])] ∧
    ucount 0 exG2p = 1 ∧ ucount 1 exG2p = 1 ∧ ucount 2 exG2p = 1 ∧ ucount 3 exG2p = 1 ∧
    @wireLog Int fixScalar exSys exEvsPartial 0 = [exCtl, exCtl] := by
  decide +kernel

/-- … and with `k` at least the batch length (`Ev.failAfter 1 9`): the WHOLE batch is on the wire (the ghost files
all four tags under `wire`, nothing is lost), yet the send reported failure and the link is torn down. -/
example :
    let evs : List Ev := [.failAfter 1 9, .client 5000 exCtl, .client 5001 exCtl, .client 5002 exCtl, .client 5003 exData]
    ((@runG Int fixScalar (ginit exSys) evs).bins.map fun b => (b.wire.map (·.tag), b.lost.length)) =
      [([0, 1, 2, 3], 0), ([], 0)] ∧
    ((@run Int fixScalar exSys evs).1.links.map fun l => (l.queue.length, l.core.connected)) =
      [(0, false), (1, true)] ∧
    (@run Int fixScalar exSys evs).1.failNext = [] := by
  decide +kernel

/-- No link can be chosen (both disconnected): the accepted datagram is filed under `dropped`, and that is
its one unique copy. -/
def exG3 : G Int :=
  @runG Int fixScalar (ginit
      { exSys with links := [{ exLinkA with core := { exLinkA.core with connected := false } },
                             { exLinkB with core := { exLinkB.core with connected := false } }] })
    [.client 5000 exData]

example :
    exG3.accepted = [(0, exData)] ∧ exG3.dropped = [(0, exData)] ∧ ucount 0 exG3 = 1 ∧
    (exG3.bins.map (·.all)) = [[], []] := by
  decide +kernel

/-- A state with datagrams already queued (two on link 0, one on link 1): `ginit` gives them tags 0, 1, 2;
the next client datagram gets tag 3 and the flush puts link 0's three datagrams on the wire in tag order. -/
def exG4 : G Int :=
  @runG Int fixScalar (ginit
      { exSys with links := [{ exLinkA with queue := [(exCtl, none, 4000), (exCtl, none, 4001)] },
                             { exLinkB with queue := [(exCtl, none, 4002)] }] })
    [.client 5000 exCtl, .flush 5010]

example :
    exG4.accepted.map (·.1) = [0, 1, 2, 3] ∧
    (exG4.bins.map fun b => b.wire.map (·.tag)) = [[0, 1, 3], [2]] ∧
    ucount 0 exG4 = 1 ∧ ucount 1 exG4 = 1 ∧ ucount 2 exG4 = 1 ∧ ucount 3 exG4 = 1 := by
  decide +kernel

/-- A 2-byte REG3 (0x9202) arriving on the socket of the LIVE link 0 (a duplicated or late handshake reply)
while a client datagram is queued there: `clear_pre_registration_state` runs unconditionally — the queued
datagram is discarded (lost bin, event index 1, cause = the `uplink` clause of `LossCause`), the 10 packets
in flight are forgotten and the link is back in `warming`.  The count is still exactly one. -/
def exG5 : G Int :=
  @runG Int fixScalar (ginit exSys) [.client 5000 exCtl, .uplink 5001 1 [0x92, 0x02], .flush 5010]

example :
    (exG5.bins.map fun b => (b.wire.map (·.tag), b.queued.map (·.tag), b.lost.map fun kx => (kx.1, kx.2.tag))) =
      [([], [], [(1, 0)]), ([], [], [])] ∧
    ucount 0 exG5 = 1 ∧
    (exSys.links.map fun l => (decide (l.core.phase = .live), l.core.inFlight)) = [(true, 10), (true, 40)] ∧
    (exG5.sys.links.map fun l => (decide (l.core.phase = .warming 0 5001), l.core.inFlight)) =
      [(true, 0), (false, 40)] := by
  decide +kernel

end ghostExamples

/-! ## 11. The fourth bin: dropped only without a usable link -/

/-- **Bookkeeping of the `dropped` bin** (any scalar instance, any start state): every entry of `dropped` at the end
of a run names a `client` event of the run (`evs[k]`) with a NON-EMPTY datagram, is exactly that datagram under the
tag that was fresh when the event was processed, and the routing decision of that event — in the state the run had
reached after its first `k` events — was `none`. -/
theorem C01_dropped_bookkeeping_run (s : Sys F) (evs : List Ev) :
    ∀ x ∈ (runG (ginit s) evs).dropped, ∃ k now pkt,
      evs[k]? = some (.client now pkt) ∧ pkt ≠ [] ∧ x = ((runG (ginit s) (evs.take k)).next, pkt) ∧
      target (run s (evs.take k)).1 pkt now = none := by
  obtain ⟨extra, e1, e2⟩ := runG_dropped (ginit s) evs
  intro x hx
  rw [e1] at hx
  have hx' : x ∈ extra := by simpa [ginit] using hx
  obtain ⟨k, now, pkt, q1, q2, q3, q4⟩ := e2 x hx'
  exact ⟨k, now, pkt, q1, (by intro h; rw [h] at q2; cases q2), q3, q4⟩

section droppedRun
open Srtla.Props.C03 Srtla.SysInv
variable {K : Type} [Field K] [LinearOrder K] [IsStrictOrderedRing K] [FloorRing K] (e : K → K) (ninf : K)

local notation "𝕊" => fieldScalar K e ninf

/-- The quality cache stays in its documented range along every run (ordered field, `ExpLaw`). -/
theorem qualRange_run (he : ExpLaw e) (s : Sys K) (evs : List Ev)
    (h : All (fun l => QualRange l.qualMult) s.links) :
    All (fun l => QualRange l.qualMult) (@run K 𝕊 s evs).1.links := by
  induction evs generalizing s with
  | nil => exact h
  | cons ev evs ih =>
    exact ih _ (@step_all K 𝕊 (fun l => QualRange l.qualMult) s ev
      (fun _ _ => qualRange_closed e ninf he _ _ _) h)

/-- **Dropped only without a usable link — over every run.**  Scalar code read in an arbitrary linearly ordered
field with floor (`ExpLaw e`, as `C01_no_drop_when_usable`; IEEE rounding / NaN not covered).  Start state: the
accounting invariant (`hs`, literally the body of `SysInv` of `Props/SysLevel.lean`) and the quality cache in
`[0.35, 1.1·1.03]` (`hq`, the body of `QualInv`) — both hold initially and along every run; `Inv` (distinct conn
ids, queues < 32) is NOT needed for this statement.  Then at the end of ANY run, every entry of the `dropped` bin
of the instrumented run was accepted by a `client` event `evs[k]` (non-empty datagram, tag = the counter `next`
at that moment) whose PRE-state `sk = run s (evs.take k)` had NO usable link at the event's clock:
* established session (`has_connected`): no link of `sk` is in a registered phase, connected and not timed out
  w.r.t. the configured connection timeout (`UsableCfg`, the hypothesis of `C03_no_blackout`);
* before the first registration completes: EVERY link of `sk` is timed out at that clock
  (`select_pre_registration_connection` takes the first link that is not).
So the fourth bin of `C01_exactly_once_run` is empty along any run in which every client datagram arrives while
some link is usable. -/
theorem C01_dropped_only_without_usable_link_run (he : ExpLaw e) (s : Sys K)
    (hs : ∀ l ∈ s.links, LogInv l.core ∧ 1000 ≤ l.core.window ∧ l.core.window ≤ 60000 ∧ 0 ≤ l.core.inFlight ∧
      ∀ it ∈ l.queue, ∀ sq, it.2.1 = some sq → sq < 2147483648)
    (hq : ∀ l ∈ s.links, (0.35 : K) ≤ l.qualMult ∧ l.qualMult ≤ 1.1 * 1.03)
    (evs : List Ev) :
    ∀ x ∈ (@runG K 𝕊 (@ginit K s) evs).dropped, ∃ k now pkt,
      evs[k]? = some (.client now pkt) ∧ pkt ≠ [] ∧
      x = ((@runG K 𝕊 (@ginit K s) (evs.take k)).next, pkt) ∧
      @target K 𝕊 (@run K 𝕊 s (evs.take k)).1 pkt now = none ∧
      ((@run K 𝕊 s (evs.take k)).1.reg.hasConnected = true →
        ∀ l ∈ (@run K 𝕊 s (evs.take k)).1.links,
          ¬ UsableCfg (@FLink.toSLink K 𝕊 l) (@run K 𝕊 s (evs.take k)).1.cfg now) ∧
      ((@run K 𝕊 s (evs.take k)).1.reg.hasConnected = false →
        ∀ l ∈ (@run K 𝕊 s (evs.take k)).1.links, @FLink.isTimedOut K 𝕊 l now = true) := by
  intro x hx
  obtain ⟨k, now, pkt, q1, q2, q3, q4⟩ := @C01_dropped_bookkeeping_run K 𝕊 s evs x hx
  refine ⟨k, now, pkt, q1, q2, q3, q4, fun hreg l hl hu => ?_, fun hreg => ?_⟩
  · -- established: a usable link would have been chosen
    have hLI : All LinkInv (@run K 𝕊 s (evs.take k)).1.links :=
      @SysDir.linkInv_run K 𝕊 s (evs.take k) (fun l hl => by
        obtain ⟨a, b, c, d, f⟩ := hs l hl
        exact ⟨a, b, c, d, f⟩)
    have hQ := qualRange_run e ninf he s (evs.take k) hq
    refine @C01_no_drop_when_usable K _ _ _ _ e ninf he (@run K 𝕊 s (evs.take k)).1 pkt now hreg ?_
      ⟨l, hl, hu⟩ q4
    intro l' hl'
    have hi := hLI l' hl'
    obtain ⟨g1, g2⟩ := hQ l' hl'
    exact ⟨hi.wlo, hi.whi, hi.inf, Int.natCast_nonneg _, g1, g2⟩
  · -- not yet established: the pre-registration choice is the first link that is not timed out
    have ht : @target K 𝕊 (@run K 𝕊 s (evs.take k)).1 pkt now =
        @selectPreRegistration K 𝕊 (@run K 𝕊 s (evs.take k)).1.links
          (@run K 𝕊 s (evs.take k)).1.lastSelected now := by
      unfold target; simp [hreg]
    rw [ht] at q4
    exact @selectPreRegistration_none K 𝕊 _ _ _ q4

end droppedRun

section droppedExamples

/-- Non-vacuity of the bookkeeping on the toy scalar: in `exG3` (both links disconnected, established session) the
one accepted datagram is in `dropped`; it names event 0, tag 0, and the routing decision there is `none`; in the
pre-state no link is connected, so none is usable. -/
example :
    exG3.dropped = [(0, exData)] ∧
    @target Int fixScalar
      { exSys with links := [{ exLinkA with core := { exLinkA.core with connected := false } },
                             { exLinkB with core := { exLinkB.core with connected := false } }] }
      exData 5000 = none ∧
    (([{ exLinkA with core := { exLinkA.core with connected := false } },
       { exLinkB with core := { exLinkB.core with connected := false } }] : List (FLink Int)).map
        (·.core.connected)) = [false, false] := by
  decide +kernel

example (evs : List Ev) := @C01_dropped_bookkeeping_run Int fixScalar exSys evs

/-- Over `ℚ`: a state that meets the hypotheses of `C01_dropped_only_without_usable_link_run` — one live connected
link with a consistent packet log (5 and 7 in flight, `in_flight = 2`), one fresh link, quality caches `1.0`. -/
noncomputable def exSysQ2 : Sys ℚ :=
  { links :=
      [{ (@FLink.newRegistering ℚ ratScalar 1 0) with
          core := { connId := 1, connected := true, phase := .live, window := 1050, inFlight := 2,
                    log := [(5, 100), (7, 120)], highestAcked := 4, lastReceived := some 4990 },
          established := 1, queue := [([0, 0, 0, 9, 0, 0, 0, 0], some 9, 4000)] },
       @FLink.newRegistering ℚ ratScalar 2 0],
    reg := { (Srtla.Reg.Reg.new [] []) with hasConnected := true } }

example (evs : List Ev) :=
  C01_dropped_only_without_usable_link_run (fun x : ℚ => 1 / (1 - x)) (-1) expLaw_rat exSysQ2
    (by
      intro l hl
      simp only [exSysQ2, List.mem_cons, List.not_mem_nil, or_false] at hl
      rcases hl with rfl | rfl
      · refine ⟨⟨by decide, by decide, by decide⟩, by decide, by decide, by decide, ?_⟩
        intro it hit sq hsq
        simp only [List.mem_singleton] at hit
        subst hit
        cases hsq
        decide
      · have := @SysInv.linkInv_new ℚ ratScalar 2 0
        exact ⟨this.log, this.wlo, this.whi, this.inf, this.queue⟩)
    (by
      intro l hl
      simp only [exSysQ2, List.mem_cons, List.not_mem_nil, or_false] at hl
      rcases hl with rfl | rfl
      · exact SysInv.qualRange_new _ _ 1 0
      · exact SysInv.qualRange_new _ _ 2 0)
    evs

end droppedExamples

/-! ## 12. Exactly once over a run WITH reloads -/

section reloadRun
open Srtla.Props.SysReload

/-- The vocabulary of the run with reloads, spelled out (`Lemmas/RunLevelGhostReload.lean`).  `runR` is `runG` on
every event that keeps the link set; at a reload the ghost CARRIES THE INDEX RENAMING THE RELOAD INDUCES (it is not
re-keyed by conn id): the bins are walked next to the links with the predicate of `retained`, a retained link's
bins move with it to its new index, a removed link's bins are retired into `gone` (stamped with the reload's event
index `k` and the link's conn id `cid`; what was still queued is filed under `lost` with that `k`), a created link
gets empty bins.  `ucountR t r` counts the `unique` copies of tag `t` in wire ∪ queued ∪ lost of every CURRENT link,
in the bins of every REMOVED link, plus the dropped list.  `wireOfId c r` is everything filed under `wire` for conn
id `c` (removed links in removal order, then the current one); `wireLogId s evs c` is read off the real run alone:
the data-path datagrams the events put on the socket of conn id `c` while `c` names a link present in the state
the event starts from.  `LostOk s evs cid (k, x)`: `evs[k]` exists and, in the state `sk` after the first `k`
events, either discarded the queue of the link carrying `cid` (at the index `j` it had THEN) with a `LossCause`,
or is a reload whose address list no longer names that link, on which `x` was queued. -/
theorem C01_ghost_reload_def (t : Nat) (r : GR F) (c : Nat) (s : Sys F) (evs : List Ev) (cid : Nat) (kx : Nat × GItem) :
    ucountR t r = ucount t r.g + (r.gone.map fun e => e.bins.all.countP (fun x => x.tag == t && decide (x.kind = .unique))).sum ∧
    wireOfId c r = wgone c r.gone ++ wcur c r.g.bins r.g.sys.links ∧
    (∀ ev evs', wireLogId s (ev :: evs') c =
      (if c ∈ ids s.links then dataWire ev (step s ev).2 c else []) ++ wireLogId (step s ev).1 evs' c) ∧
    (LostOk s evs cid kx ↔ ∃ ev, evs[kx.1]? = some ev ∧
      ((∃ j l l', (run s (evs.take kx.1)).1.links[j]? = some l ∧ l.core.connId = cid ∧
          (step (run s (evs.take kx.1)).1 ev).1.links[j]? = some l' ∧
          LossCause (run s (evs.take kx.1)).1 ev j l l') ∨
       (∃ now addrs outs l, ev = .reload now addrs outs ∧ l ∈ (run s (evs.take kx.1)).1.links ∧
          l.core.connId = cid ∧ addrs.contains l.addr = false ∧ kx.2.item ∈ l.queue))) :=
  ⟨rfl, rfl, fun _ _ => rfl, Iff.rfl⟩

/-- **Exactly once, intact, in order — over every run, RELOADS INCLUDED** (no `NoReload` hypothesis).  From every
state satisfying `Inv`, after ANY event list whose reloads draw conn ids that are new among the links present at
that moment (`FreshRun`: `rand::rng().next_u64()`, no check in `connect_uplink`; collision ≈ 2⁻⁶⁴ per pair), in the
instrumented run `r = runR (rinit s) evs`:
1. erasing the ghost gives `Sys.run`; one set of bins per CURRENT link; the acceptance log is (what was queued
   initially, then) the non-empty client datagrams of the event list, in order, tags `0, 1, 2, …`; the tag
   counter, acceptance log and dropped list are those of `runG` (`C01_dropped_bookkeeping_run` and
   `C01_dropped_only_without_usable_link_run` speak about this run's dropped list);
2. for every accepted datagram the number of `unique` copies among (put on the wire by a current or a removed
   link) ∪ (still queued on a CURRENT link) ∪ (discarded — by a current or a removed link) ∪ (dropped) is EXACTLY
   ONE (`ucountR`);
3. "still queued" is real and current: a current link's queue mirror erases to its real queue at the end of the
   run; the bins of a removed link hold nothing queued;
4. "put on the wire" is real: for EVERY conn id, what the ghost filed under `wire` for it is exactly what the run's
   data path put on the sockets of that conn id, in order, byte for byte (`wireOfId c r = wireLogId s evs c`);
5. every copy anywhere — current or retired bins, sent, queued or discarded, unique or probe — carries byte for
   byte the datagram the client sent under its tag, and so does every dropped entry; per link (current or
   removed) wire order then queue order is strictly increasing tag order (acceptance order, no tag twice on one
   link); a probe copy exists only on a link that was stall-gated AND connected when it was enqueued, the unique
   copy of an established session was enqueued on an eligible link;
6. every `lost` entry has a RECORDED CAUSE (`LostOk`, spelled out in `C01_ghost_reload_def`): one of the four
   `LossCause` arms at the event it names, for the link that carried that conn id at that moment — or "queued on an
   uplink that a reload removed".
Still per stretch only (by index, `C01_exactly_once_run` item 6): the 1-in-100 probe RATE bound. -/
theorem C01_exactly_once_run_reload (s : Sys F) (h : Inv s) (evs : List Ev) (hf : FreshRun s evs) :
    let r := runR (rinit s) evs
    (r.g.sys = (run s evs).1 ∧ r.g.bins.length = (run s evs).1.links.length ∧
      r.g.accepted.map (·.2) = (ginit s).accepted.map (·.2) ++ evs.filterMap accepts ∧
      r.g.accepted.map (·.1) = List.range r.g.next ∧
      r.g.next = (runG (ginit s) evs).next ∧ r.g.accepted = (runG (ginit s) evs).accepted ∧
      r.g.dropped = (runG (ginit s) evs).dropped) ∧
    (∀ tb ∈ r.g.accepted, ucountR tb.1 r = 1) ∧
    ((∀ (i : Nat) (b : Bins), r.g.bins[i]? = some b → b.queued.map (·.item) = queueOf (run s evs).1 i) ∧
      ∀ e ∈ r.gone, e.bins.queued = []) ∧
    (∀ c, wireOfId c r = wireLogId s evs c) ∧
    ((∀ b, (b ∈ r.g.bins ∨ ∃ e ∈ r.gone, e.bins = b) →
        (∀ x ∈ b.all, (x.tag, x.bytes) ∈ r.g.accepted) ∧
        (b.wire ++ b.queued).Pairwise (fun x y => x.tag < y.tag) ∧
        ∀ x ∈ b.all, (x.kind = .probe → x.gated = true ∧ x.elig = false ∧ x.estab = true) ∧
          (x.kind = .unique → x.estab = true → x.elig = true ∧ x.gated = false)) ∧
      ∀ x ∈ r.g.dropped, x ∈ r.g.accepted) ∧
    ((∀ (i : Nat) (b : Bins) (l : FLink F), r.g.bins[i]? = some b → (run s evs).1.links[i]? = some l →
        ∀ kx ∈ b.lost, LostOk s evs l.core.connId kx) ∧
      ∀ e ∈ r.gone, ∀ kx ∈ e.bins.lost, LostOk s evs e.cid kx) := by
  intro r
  obtain ⟨hr, hh⟩ := runR_inv s [] (rinit s) (rinit_inv s h) (rinit_hinv s) evs hf
  have hsys : r.g.sys = (run s evs).1 := runR_sys _ _
  obtain ⟨s1, s2, s3⟩ := runR_scalars (rinit s) (ginit s) evs rfl rfl rfl rfl
  have hok : ∀ b, (b ∈ r.g.bins ∨ ∃ e ∈ r.gone, e.bins = b) → BinOk r.g.next r.g.accepted b := by
    rintro b (hb | ⟨e, he, rfl⟩)
    · obtain ⟨i, hi, hget⟩ := List.getElem_of_mem hb
      exact hr.ok i b (by rw [List.getElem?_eq_getElem hi, hget])
    · exact (hr.okGone e he).1
  refine ⟨⟨hsys, by rw [← hsys]; exact hr.len, ?_, hr.acc, s1, s2, s3⟩, ?_, ⟨?_, fun e he => (hr.okGone e he).2⟩,
    hh.wire, ⟨fun b hb => ⟨(hok b hb).bytes, (hok b hb).sorted,
      fun x hx => ⟨(hok b hb).probe x hx, (hok b hb).unique x hx⟩⟩, hr.dropped⟩, ?_, hh.lostGone⟩
  · show (runR (rinit s) evs).g.accepted.map (·.2) = _
    rw [s2]; exact runG_accepted _ _
  · intro tb htb
    apply hr.once
    have : tb.1 ∈ r.g.accepted.map (·.1) := List.mem_map.2 ⟨tb, htb, rfl⟩
    rw [hr.acc] at this
    exact List.mem_range.1 this
  · intro i b hb
    rw [← hsys]; exact hr.aligned i b hb
  · intro i b l hb hl kx hkx
    rw [← hsys] at hl
    exact hh.lost b l ((mem_zip_iff_get _ _ _ _).2 ⟨i, hb, hl⟩) kx hkx

end reloadRun

section reloadExamples
open Srtla.Props.SysReload

/-- `exSys` with distinct uplink addresses (1 and 2). -/
def exSysR : Sys Int :=
  { exSys with links := [{ exLinkA with addr := 1 }, { exLinkB with addr := 2 }] }

/-- A run WITH a reload that removes an uplink holding queued datagrams: a control packet (tag 0) and a data packet
(tag 1) are queued on link 0 (conn id 1; link 1, conn id 3, gets the probe copy of tag 1); the reload (event
index 2) keeps address 2, drops address 1 and adds address 3 (drawn conn id 7); a third datagram (tag 2) and a
flush follow. -/
def exEvsR : List Ev :=
  [.client 5000 exCtl, .client 5001 exData, .reload 5005 [2, 3] [some 7], .client 5006 exCtl, .flush 5010]

def exR1 : GR Int := @runR Int fixScalar (rinit exSysR) exEvsR

/-- The removed link's bins are retired (event index 2, conn id 1): its two queued unique copies are in its LOST
bin, stamped 2; the surviving link (conn id 3, now at index 0) kept its bins through the renaming and sent the probe
copy of tag 1 and the unique copy of tag 2; the new link (conn id 7) has empty bins; every tag has EXACTLY ONE
unique copy; the wire bins per conn id are the real per-conn-id wire logs. -/
example :
    exR1.g.accepted.map (·.1) = [0, 1, 2] ∧
    (exR1.g.sys.links.map fun l => (l.core.connId, l.addr)) = [(3, 2), (7, 3)] ∧
    (exR1.g.bins.map fun b => (b.wire.map (·.tag), b.queued.map (·.tag), b.lost.map fun kx => (kx.1, kx.2.tag))) =
      [([1, 2], [], []), ([], [], [])] ∧
    (exR1.gone.map fun e => (e.k, e.cid, e.bins.wire.map (·.tag), e.bins.queued.map (·.tag))) = [(2, 1, [], [])] ∧
    (exR1.gone.map fun e => e.bins.lost.map fun kx => (kx.1, kx.2.tag, kx.2.kind)) =
      [[(2, 0, .unique), (2, 1, .unique)]] ∧
    ucountR 0 exR1 = 1 ∧ ucountR 1 exR1 = 1 ∧ ucountR 2 exR1 = 1 ∧ exR1.g.dropped = [] := by
  decide +kernel

example :
    @wireOfId Int 1 exR1 = [] ∧ @wireLogId Int fixScalar exSysR exEvsR 1 = [] ∧
    @wireOfId Int 3 exR1 = [exData, exCtl] ∧ @wireLogId Int fixScalar exSysR exEvsR 3 = [exData, exCtl] := by
  decide +kernel

/-- The hypotheses of `C01_exactly_once_run_reload` hold of this run: `Inv`, and the drawn id 7 is new. -/
example : @Inv Int exSysR ∧ @FreshRun Int fixScalar exSysR exEvsR := by
  refine ⟨⟨by decide, by decide⟩, fun _ _ _ h => (by cases h), fun _ _ _ h => (by cases h), ?_,
    fun _ _ _ h => (by cases h), fun _ _ _ h => (by cases h), trivial⟩
  intro now addrs outs h
  cases h
  refine ⟨by decide, ?_⟩
  intro i hi
  have : i = 7 := by simpa using hi
  subst this
  decide +kernel

/-- … and the cause recorded for the retired copies is the reload: `LostOk`'s second arm holds of entry `(2, tag 0)`
(event 2 is the reload, the link with conn id 1 is present before it, its address 1 is not in `[2, 3]`, and the
control packet is queued on it). -/
example :
    exEvsR[2]? = some (.reload 5005 [2, 3] [some 7]) ∧
    ((@run Int fixScalar exSysR (exEvsR.take 2)).1.links.map fun l =>
        (l.core.connId, ([2, 3] : List Nat).contains l.addr, l.queue.map (·.1))) =
      [(1, false, [exCtl, exData]), (3, true, [exData])] := by
  refine ⟨rfl, ?_⟩
  decide +kernel

end reloadExamples

/-! ## 13. Probe rate BY CONN ID, over runs WITH reloads (round 8)

`C01_probe_rate` counts by link INDEX and keeps `NoReload`.  `Lemmas/ProbeRateReload.lean` reads the three quantities
by CONN ID: `probeCopiesId s evs c` / `gatedRoutedId s evs c` sum, event by event, the index quantities of ONE event
(`probeCopies s [ev] i`, `gatedRouted s [ev] i`) at the index `i` the link with conn id `c` has in the state the run
had reached (`idxOfId`; nothing while no link carries `c`), and `probeCounterId s c` is that link's counter (0 while
absent). -/

section probeRateById
open Srtla.Props.SysReload

/-- **At most one duplicate per 100 routed data packets per gated uplink, by conn id, over ANY run** — reloads
included; hypotheses `Inv` of the start state and `FreshRun` (as `Inv_run_reload`), no `NoReload`.  For every conn
id `c`: `100 × (probe copies queued on the link with conn id c) + its final probe counter ≤ (data packets routed to
another link while it was stall-gated and connected) + its initial probe counter`, each quantity read at the index
the link has at that moment (0 while no link carries `c`).  A reload consults no counter and queues no copy; a
retained link keeps its counter wherever its index moves; a created link starts at 0, so counted from its creation
`100 × probes + counter ≤ routed-while-gated`; a removed link stops counting. -/
theorem C01_probe_rate_by_id (s : Sys F) (hinv : Inv s) (evs : List Ev) (hf : FreshRun s evs) (c : Nat) :
    100 * probeCopiesId s evs c + probeCounterId (run s evs).1 c ≤ gatedRoutedId s evs c + probeCounterId s c :=
  run_probe_rate_id s hinv evs hf c

/-- What the by-id quantities are, one event at a time (definitional unfolding, stated for the reader): at the head
event the index quantities of that ONE event at the current index of `c`, `0` if no link carries `c`; on a run
without reloads from a state where `c` sits at index `i` they are the index quantities of `C01_probe_rate`. -/
theorem C01_probe_rate_by_id_reading (s : Sys F) (ev : Ev) (evs : List Ev) (c : Nat) :
    probeCopiesId s (ev :: evs) c =
      (match idxOfId s c with | some i => probeCopies s [ev] i | none => 0) + probeCopiesId (step s ev).1 evs c ∧
    gatedRoutedId s (ev :: evs) c =
      (match idxOfId s c with | some i => gatedRouted s [ev] i | none => 0) + gatedRoutedId (step s ev).1 evs c ∧
    probeCounterId s c = (match idxOfId s c with | some i => probeCounterOf s i | none => 0) ∧
    (∀ i, idxOfId s c = some i → ∃ l, s.links[i]? = some l ∧ l.core.connId = c) ∧
    (idxOfId s c = none → c ∉ ids s.links) :=
  ⟨rfl, rfl, rfl, fun _ h => by obtain ⟨l, h1, h2, -⟩ := idxOfId_some h; exact ⟨l, h1, h2⟩, idxOfId_none⟩

/-- **Hold time over runs WITH reloads** (`C01_hold` without `NoReload`): after every event list from a state
satisfying `Inv`, reloads included (the drawn ids new: `FreshRun`), conn ids are still pairwise distinct and every
queue holds fewer than 32 datagrams (a created link starts with the empty queue). -/
theorem C01_hold_run_reload (s : Sys F) (h : Inv s) (evs : List Ev) (hf : FreshRun s evs) :
    (ids (run s evs).1.links).Nodup ∧ ∀ l ∈ (run s evs).1.links, l.queue.length < 32 :=
  ⟨(Inv_run_reload s h evs hf).nodup, (Inv_run_reload s h evs hf).hold⟩

/-- **Exact accounting BY CONN ID over ANY run** (`C01_accounting` without `NoReload`; `Lemmas/AccountingReload.lean`).
For every conn id `c`: (the queue the link with conn id `c` holds initially — `[]` if no link carries `c`) followed by
(its arrival log `arrivalsId`: what the events append to the queue of the link that carries `c`, read at the index it
has THEN) splits, IN ORDER, into the departed items followed by (the queue the link with conn id `c` holds at the
end); every departed item carries one flag (`true` = put on the wire, `false` = discarded); and the wire log of the
conn id (`wireLogId`: the data-path output to `c` while `c` names a present link) is exactly the `true` items, in
order, byte for byte.  At a reload: a retained link keeps its queue (nothing departs); the queue of a REMOVED link
departs flagged `false` — discarded with the link, the accounted additional discard cause; a created link starts
empty. -/
theorem C01_accounting_by_id (s : Sys F) (h : Inv s) (evs : List Ev) (hf : FreshRun s evs) (c : Nat) :
    ∃ dep : List (QItem × Bool),
      queueOfId s c ++ arrivalsId s evs c = dep.map (·.1) ++ queueOfId (run s evs).1 c ∧
      Ghost.wireLogId s evs c = bytesOf ((dep.filter (·.2)).map (·.1)) :=
  run_accounting_id s h evs hf c

/-- **Intact, in order, at most once per conn id over ANY run** (`C01_intact_in_order` without `NoReload`): (the
datagrams the data path put on the socket of conn id `c`, in order) followed by (the payloads the link with conn id
`c` still holds at the end) is a SUBSEQUENCE of (the payloads it held initially) followed by (the client datagrams of
the run, in arrival order). -/
theorem C01_intact_in_order_by_id (s : Sys F) (h : Inv s) (evs : List Ev) (hf : FreshRun s evs) (c : Nat) :
    (Ghost.wireLogId s evs c ++ bytesOf (queueOfId (run s evs).1 c)).Sublist
      (bytesOf (queueOfId s c) ++ bytesOf (clientItems evs)) :=
  run_sublist_id s h evs hf c

end probeRateById

section probeRateByIdExamples
open Srtla.Props.SysReload

/-- A fresh registering link `7@9` in FRONT of the two links of `exSysR` (`1@1`, and `3@2` with its probe counter at
99). -/
def exSysP : Sys Int :=
  { exSys with links := [@FLink.newUplink Int fixScalar 7 9 0, { exLinkA with addr := 1 }, { exLinkB with addr := 2 }] }

/-- The reload removes the link in front (address 9 no longer desired): links 1 and 3 slide from the indices 1, 2 to
0, 1; address 4 is added (conn id 8).  Then one data packet: routed to link 1, link 3 is gated and its counter fires. -/
def exEvsP : List Ev := [.reload 4990 [1, 2, 4] [some 8], .client 5000 exData]

/-- The hypotheses hold, the run is NOT reload-free, conn id 3 moves from index 2 to index 1, and the bound is
TIGHT across the reload: `100 · 1 + 0 ≤ 1 + 99` for conn id 3 — its counter 99 survived the reload at another index;
the created link 8 starts at 0; the removed link 7 counts nothing. -/
example :
    @Inv Int exSysP ∧ @FreshRun Int fixScalar exSysP exEvsP ∧ ¬ NoReload exEvsP ∧
    @idxOfId Int exSysP 3 = some 2 ∧ @idxOfId Int (@run Int fixScalar exSysP (exEvsP.take 1)).1 3 = some 1 ∧
    (ids (@run Int fixScalar exSysP exEvsP).1.links) = [1, 3, 8] ∧
    @probeCopiesId Int fixScalar exSysP exEvsP 3 = 1 ∧ @gatedRoutedId Int fixScalar exSysP exEvsP 3 = 1 ∧
    @probeCounterId Int exSysP 3 = 99 ∧ @probeCounterId Int (@run Int fixScalar exSysP exEvsP).1 3 = 0 ∧
    @probeCopiesId Int fixScalar exSysP exEvsP 8 = 0 ∧ @probeCounterId Int (@run Int fixScalar exSysP exEvsP).1 8 = 0 ∧
    @probeCopiesId Int fixScalar exSysP exEvsP 7 = 0 ∧ @gatedRoutedId Int fixScalar exSysP exEvsP 7 = 0 :=
  ⟨⟨by decide, by decide⟩, by decide +kernel, by decide, by decide +kernel, by decide +kernel, by decide +kernel,
   by decide +kernel, by decide +kernel, by decide +kernel, by decide +kernel, by decide +kernel, by decide +kernel,
   by decide +kernel, by decide +kernel⟩

example (c : Nat) := @C01_probe_rate_by_id Int fixScalar exSysP ⟨by decide, by decide⟩ exEvsP (by decide +kernel) c

example := @C01_probe_rate_by_id_reading Int fixScalar exSysP (.reload 4990 [1, 2, 4] [some 8]) [.client 5000 exData] 3

/-- The by-id logs on the run `exEvsR` of section 12 (a reload REMOVES the uplink with conn id 1 while two datagrams
are queued on it, keeps conn id 3 — which moves from index 1 to index 0 — and creates conn id 7): conn id 1 — both
arrivals depart DISCARDED (nothing on its wire, nothing queued at the end: the link is gone); conn id 3 — its two
arrivals (the probe copy before the reload, the control packet after it, at ANOTHER index) are both on its wire, in
order; conn id 7 — nothing.  `Inv` / `FreshRun` of this run: the example of section 12. -/
example :
    @arrivalsId Int fixScalar exSysR exEvsR 1 = [(exCtl, none, 5000), (exData, some 5, 5001)] ∧
    @Ghost.wireLogId Int fixScalar exSysR exEvsR 1 = [] ∧ @queueOfId Int (@run Int fixScalar exSysR exEvsR).1 1 = [] ∧
    @idxOfId Int (@run Int fixScalar exSysR exEvsR).1 1 = none ∧
    @arrivalsId Int fixScalar exSysR exEvsR 3 = [(exData, some 5, 5001), (exCtl, none, 5006)] ∧
    @Ghost.wireLogId Int fixScalar exSysR exEvsR 3 = [exData, exCtl] ∧
    @queueOfId Int (@run Int fixScalar exSysR exEvsR).1 3 = [] ∧
    @idxOfId Int exSysR 3 = some 1 ∧ @idxOfId Int (@run Int fixScalar exSysR exEvsR).1 3 = some 0 ∧
    @arrivalsId Int fixScalar exSysR exEvsR 7 = [] ∧ @Ghost.wireLogId Int fixScalar exSysR exEvsR 7 = [] ∧
    ¬ NoReload exEvsR := by
  refine ⟨?_, ?_, ?_, ?_, ?_, ?_, ?_, ?_, ?_, ?_, ?_, ?_⟩ <;> decide +kernel

/-- The accounting equation of `C01_accounting_by_id` on that run, with its `dep` exhibited: conn id 1 — two
departures flagged `false`; conn id 3 — two flagged `true`. -/
example :
    let dep1 : List (QItem × Bool) := [((exCtl, none, 5000), false), ((exData, some 5, 5001), false)]
    let dep3 : List (QItem × Bool) := [((exData, some 5, 5001), true), ((exCtl, none, 5006), true)]
    (@queueOfId Int exSysR 1 ++ @arrivalsId Int fixScalar exSysR exEvsR 1 =
        dep1.map (·.1) ++ @queueOfId Int (@run Int fixScalar exSysR exEvsR).1 1 ∧
      @Ghost.wireLogId Int fixScalar exSysR exEvsR 1 = bytesOf ((dep1.filter (·.2)).map (·.1))) ∧
    (@queueOfId Int exSysR 3 ++ @arrivalsId Int fixScalar exSysR exEvsR 3 =
        dep3.map (·.1) ++ @queueOfId Int (@run Int fixScalar exSysR exEvsR).1 3 ∧
      @Ghost.wireLogId Int fixScalar exSysR exEvsR 3 = bytesOf ((dep3.filter (·.2)).map (·.1))) := by
  refine ⟨⟨?_, ?_⟩, ⟨?_, ?_⟩⟩ <;> decide +kernel

/-- Instances of the theorems on that run (hypotheses as in the example of section 12). -/
theorem exEvsR_fresh : @FreshRun Int fixScalar exSysR exEvsR := by decide +kernel

example (c : Nat) := @C01_accounting_by_id Int fixScalar exSysR ⟨by decide, by decide⟩ exEvsR exEvsR_fresh c
example (c : Nat) := @C01_intact_in_order_by_id Int fixScalar exSysR ⟨by decide, by decide⟩ exEvsR exEvsR_fresh c
example := @C01_hold_run_reload Int fixScalar exSysR ⟨by decide, by decide⟩ exEvsR exEvsR_fresh

end probeRateByIdExamples

/-! ## 14. Every wire output names a PRESENT link (audit 5, C1)

The by-conn-id wire log `Ghost.wireLogId` (sections 12, 13: `C01_accounting_by_id`, `C01_intact_in_order_by_id`)
reads, for a conn id `c`, only events that start from a state in which `c` names a link, and drops everything else
BY DEFINITION.  Those theorems alone would stay true if a flush put queued datagrams on the socket of a REMOVED
conn id.  This section closes that: no event of the shell ever puts a datagram on the socket of a conn id that no
link of the state it starts from carries (helper lemmas: `Lemmas/WireIds.lean`), so the guard is redundant
(`C01_wire_log_guard_redundant`: the log WITHOUT the guard is the same list).
Scope: `Out.wire` of the shell model (client / flush / hk / uplink arms; `drain_packet_queue` delivers uplink
events); the model identifies a socket with the conn id of its link, so "the socket of a removed link" is
expressible only as "a conn id no present link carries". -/

section wireIds

/-- **Every wire output names a present link.**  Whatever event the shell performs from whatever state: every
datagram it puts on an uplink socket is addressed to the conn id of a link of the state the event STARTS from; a
reload puts nothing on any socket. -/
theorem C01_wire_names_present_link (s : Sys F) (ev : Ev) :
    (∀ x ∈ (step s ev).2.wire, x.1 ∈ s.links.map (·.core.connId)) ∧
    (ev.isReload = true → (step s ev).2.wire = []) := by
  refine ⟨step_wire_ids s ev, fun h => ?_⟩
  cases ev <;> first | rfl | cases h

/-- **… along every run** (reloads included; no hypothesis on the start state or the events): the output of the
`k`-th event names only links present in the state the run has reached after its first `k` events - in particular
never a conn id removed by an earlier reload (unless a later reload re-drew it for a new link). -/
theorem C01_wire_names_present_link_run (s : Sys F) (evs : List Ev) (k : Nat) (o : Out)
    (ho : (run s evs).2[k]? = some o) :
    ∀ x ∈ o.wire, x.1 ∈ (run s (evs.take k)).1.links.map (·.core.connId) :=
  run_wire_ids s evs k o ho

/-- The by-conn-id wire log WITHOUT the presence guard of `Ghost.wireLogId`. -/
def wireLogRaw (s : Sys F) : List Ev → Nat → List Bytes
  | [], _ => []
  | ev :: evs, c => dataWire ev (step s ev).2 c ++ wireLogRaw (step s ev).1 evs c

/-- **The presence guard of the by-conn-id wire log is redundant**: for every run and every conn id the guarded log
of sections 12 / 13 IS the unguarded one - nothing was defined away. -/
theorem C01_wire_log_guard_redundant (s : Sys F) (evs : List Ev) (c : Nat) :
    Ghost.wireLogId s evs c = wireLogRaw s evs c := by
  induction evs generalizing s with
  | nil => rfl
  | cons ev evs ih =>
    show (if c ∈ ids s.links then dataWire ev (step s ev).2 c else []) ++ Ghost.wireLogId (step s ev).1 evs c = _
    rw [ih]
    by_cases hc : c ∈ ids s.links
    · rw [if_pos hc]; rfl
    · rw [if_neg hc]
      show _ = dataWire ev (step s ev).2 c ++ wireLogRaw (step s ev).1 evs c
      rw [dataWire_absent s ev c hc]

end wireIds

section wireIdsExamples

/-- On the run of section 12 (non-pristine start: probe counter 99, a gated link; the reload at index 2 REMOVES conn
id 1 while it holds two queued datagrams): the only event that sends is the final flush, and it sends on conn id 3
only - a present link -, nothing on the removed id 1; the link sets along the run. -/
example :
    (@run Int fixScalar exSysR exEvsR).2.map (fun o => o.wire.map (·.1)) = [[], [], [], [], [3, 3]] ∧
    ((List.range 6).map fun k => @ids Int (@run Int fixScalar exSysR (exEvsR.take k)).1.links) =
      [[1, 3], [1, 3], [1, 3], [3, 7], [3, 7], [3, 7]] ∧
    @wireLogRaw Int fixScalar exSysR exEvsR 1 = [] ∧ @wireLogRaw Int fixScalar exSysR exEvsR 3 = [exData, exCtl] := by
  refine ⟨?_, ?_, ?_, ?_⟩ <;> decide +kernel

example (ev : Ev) := @C01_wire_names_present_link Int fixScalar exSysR ev
example (k : Nat) (o : Out) := @C01_wire_names_present_link_run Int fixScalar exSysR exEvsR k o
example (c : Nat) := @C01_wire_log_guard_redundant Int fixScalar exSysR exEvsR c

end wireIdsExamples

end Srtla.Props.C01
