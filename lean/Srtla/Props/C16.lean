import Srtla.Model.LinkCc
import Srtla.Lemmas.LinkCc
/-!
# C16 — per-link CC soft cap and loss latch stay bounded and honest

Property theorems only.  Histories are arbitrary lists of `Op` (RTT samples, cumulative counters,
direct loss samples, ticks; any values, any time stamps, also non-monotone) applied to
`LinkCongestionState::default()`; `run ops` is the state after the history.

Two levels (see `tools/props/C16.json`):

* **every scalar** (`[Scalar F]`, in particular the `Float` instance the compiled driver runs and
  that is compared bit-for-bit with the Rust code): bounds, Bootstrap-at-floor, "only `tick` moves
  the cap / the latch", the loss-degraded latch clauses (over the model's own comparisons
  `ewma > 0.55`, `ewma < 0.25`, ghost trace of all EWMA evaluations), garbage collection.
* **exact arithmetic** (`ratScalar e fin infv : Scalar Rat`, `as u64 = ⌊·⌋`, any `exp`, any
  finiteness predicate): the clauses that need the value of the float expressions — floor until an
  RTT sample, lowered only by back-off / Drain entry with the quantitative bounds, growth ≤ 6 % and
  ≤ 2× measured, seeded at most once.  IEEE rounding / overflow is *not* covered by these proofs;
  on the real code they are checked by the integer-arithmetic monitors of `harness/src/bin/linkcc.rs`.
-/
namespace Srtla.Props.C16
open Srtla.LinkCc Srtla.Gen.LinkCc

section generic
variable {F : Type} [Scalar F]

/-! ## Bounds (every scalar, every history) -/

/-- The target stays within [100 kbit/s, 200 Mbit/s] after every history. -/
theorem C16_bounds (ops : List (Op F)) :
    100000 ≤ (run ops).target ∧ (run ops).target ≤ 200000000 :=
  ⟨(inv_run ops).1, (inv_run ops).2.1⟩

/-- Bootstrap is always at the floor. -/
theorem C16_bootstrap_at_floor (ops : List (Op F)) (h : (run ops).state = .bootstrap) :
    (run ops).target = 100000 :=
  (inv_run ops).2.2 h

/-- Only `tick` moves the cap, the state, the loss EWMA or the degraded latch: RTT samples, counter
snapshots (including counter resets) and loss samples leave them untouched. -/
theorem C16_only_tick_moves (ops : List (Op F)) (op : Op F) (h : ∀ o now, op ≠ .tick o now) :
    (apply (run ops) op).target = (run ops).target ∧ (apply (run ops) op).state = (run ops).state ∧
    (apply (run ops) op).lossDegraded = (run ops).lossDegraded := by
  cases op with
  | tick o now => exact absurd rfl (h o now)
  | rtt x now => obtain ⟨a, b, c, -⟩ := keeps_recordRtt (run ops) x now; exact ⟨a, b, c⟩
  | traffic bt n now => obtain ⟨a, b, c, -⟩ := keeps_observeTraffic (run ops) bt n now; exact ⟨a, b, c⟩
  | loss sn l now => obtain ⟨a, b, c, -⟩ := keeps_recordLoss (run ops) sn l now; exact ⟨a, b, c⟩

/-- Counter reset after a reconnect: when the cumulative byte counter does not advance and the NAK
counter does not advance (both may have gone *down*), `observe_traffic` adds no loss sample — the
window, its sums and hence `loss_permille` are untouched; only the baselines move. -/
theorem C16_counter_reset_no_sample (ops : List (Op F)) (bytes : Nat) (nak : Int) (now : Nat)
    (hb : (run ops).baselineSet = true) (h1 : bytes ≤ (run ops).prevBytes)
    (h2 : nak ≤ (run ops).prevNak) (h3 : -2147483648 ≤ nak - (run ops).prevNak) :
    let s' := apply (run ops) (.traffic bytes nak now)
    s'.samples = (run ops).samples ∧ s'.windowSent = (run ops).windowSent ∧
    s'.windowLost = (run ops).windowLost ∧ lossPermille s' = lossPermille (run ops) ∧
    s'.prevBytes = bytes ∧ s'.prevNak = nak := by
  intro s'
  have es' : s' = apply (run ops) (.traffic bytes nak now) := rfl
  clear_value s'
  generalize run ops = s at *
  subst es'
  have hd : bytes - s.prevBytes = 0 := by omega
  have hn : (if satSubI32 nak s.prevNak < 0 then 0 else (satSubI32 nak s.prevNak).toNat) = 0 := by
    simp only [satSubI32]; split <;> (try split) <;> (try split) <;> omega
  simp only [apply, observeTraffic, hb, hd, hn, lossPermille]
  simp

example : (apply (run ([] : List (Op Float))) (.loss 1000 100 5)).target = 100000 := by
  simp [run, apply, recordLoss, evictExpired, St.default]

end generic

/-! ## The loss-degraded latch (every scalar, ghost trace of EWMA evaluations) -/

section latch
variable {F : Type} [Scalar F]

/-- The state component of the ghost-extended run is the plain run. -/
theorem C16_ghost_run (ops : List (Op F)) : (runG ops (St.default, [])).1 = run ops :=
  runG_fst ops _ _

/-- The loss-degraded verdict latches only at a tick whose loss EWMA compares `> 0.55` and that ends a
run of consecutive EWMA evaluations which all compared `> 0.55` and whose first evaluation is at
least 4000 ms older (`now − first ≥ 4000`, saturating).  Every history, every scalar instance. -/
theorem C16_latch_set (ops : List (Op F)) (o now : Nat) :
    let s := (runG ops (St.default, [])).1
    let tr := (runG ops (St.default, [])).2
    s.lossDegraded = false → (tick s o now).lossDegraded = true →
      ∃ hrun rest first,
        traceStep s (.tick o now) tr = (now, (tick s o now).lossEwma) :: (hrun ++ first :: rest) ∧
        High (tick s o now).lossEwma ∧ (∀ p ∈ hrun, High p.2) ∧ High first.2 ∧
        now - first.1 ≥ 4000 := by
  intro s tr h0 h1
  have hinv : LatchInv s tr := latchInv_runG ops _ _ (by intro h; exact absurd rfl h)
  cases hn : noRtt (evictExpired s now)
  · obtain ⟨hd, hh, he, -, -, -⟩ := tick_run s o now hn
    obtain ⟨k1, -, -, -, khi, klo⟩ := updateLossEwma_spec (evictExpired s now) (lossPermille (evictExpired s now)) now
    have e0 : (evictExpired s now).lossHighSince = s.lossHighSince := rfl
    have e1 : (evictExpired s now).lossDegraded = s.lossDegraded := rfl
    rw [hd] at h1
    cases hc : Scalar.lt (cEnter : F) (nextLossEwma (evictExpired s now) (lossPermille (evictExpired s now)) now)
    · have := (klo hc).2; rw [e1, h0] at this; rw [this] at h1; simp at h1
    · obtain ⟨a, b⟩ := khi hc
      rw [e0] at a b
      by_cases hz : s.lossHighSince = 0
      · have := (a hz).2; rw [e1, h0] at this; rw [this] at h1; simp at h1
      · have := (b hz).2; rw [e1, h0] at this; rw [this] at h1
        have hge : now - s.lossHighSince ≥ 4000 := by simpa using h1
        obtain ⟨hrun, rest, first, t1, t2, t3, t4⟩ := hinv hz
        refine ⟨hrun, rest, first, ?_, ?_, t4, t3, by rw [t2]; exact hge⟩
        · simp only [traceStep, hn, Bool.false_eq_true, if_false, t1]
        · show Scalar.lt (cEnter : F) (tick s o now).lossEwma = true
          rw [he, k1]; exact hc
  · obtain ⟨-, -, hd, -, -, -⟩ := tick_boot s o now hn
    rw [hd, h0] at h1; simp at h1

/-- The verdict clears only at a tick that evaluated the loss EWMA and found it `< 0.25`
(and not `> 0.55`).  Every history, every op, every scalar instance. -/
theorem C16_latch_clear (ops : List (Op F)) (op : Op F)
    (h1 : (run ops).lossDegraded = true) (h2 : (apply (run ops) op).lossDegraded = false) :
    ∃ o now, op = .tick o now ∧ noRtt (evictExpired (run ops) now) = false ∧
      Low (tick (run ops) o now).lossEwma ∧ ¬ High (tick (run ops) o now).lossEwma := by
  generalize run ops = s at h1 h2
  cases op with
  | rtt x now => have := (keeps_recordRtt s x now).2.2.1; simp only [apply] at h2; rw [this, h1] at h2; simp at h2
  | traffic bt n now => have := (keeps_observeTraffic s bt n now).2.2.1; simp only [apply] at h2; rw [this, h1] at h2; simp at h2
  | loss sn l now => have := (keeps_recordLoss s sn l now).2.2.1; simp only [apply] at h2; rw [this, h1] at h2; simp at h2
  | tick o now =>
    simp only [apply] at h2
    refine ⟨o, now, rfl, ?_⟩
    cases hn : noRtt (evictExpired s now)
    · obtain ⟨hd, hh, he, -, -, -⟩ := tick_run s o now hn
      obtain ⟨k1, -, -, -, khi, klo⟩ := updateLossEwma_spec (evictExpired s now) (lossPermille (evictExpired s now)) now
      have e0 : (evictExpired s now).lossHighSince = s.lossHighSince := rfl
      have e1 : (evictExpired s now).lossDegraded = s.lossDegraded := rfl
      rw [hd] at h2
      refine ⟨rfl, ?_⟩
      show Scalar.lt (tick s o now).lossEwma (cClear : F) = true ∧ ¬ Scalar.lt (cEnter : F) (tick s o now).lossEwma = true
      rw [he, k1]
      cases hc : Scalar.lt (cEnter : F) (nextLossEwma (evictExpired s now) (lossPermille (evictExpired s now)) now)
      · have := (klo hc).2; rw [e1, h1] at this; rw [this] at h2
        refine ⟨by simpa using h2, by simp⟩
      · obtain ⟨a, b⟩ := khi hc
        rw [e0] at a b
        by_cases hz : s.lossHighSince = 0
        · have := (a hz).2; rw [e1, h1] at this; rw [this] at h2; simp at h2
        · have := (b hz).2; rw [e1, h1] at this; rw [this] at h2; simp at h2
    · obtain ⟨-, -, hd, -, -, -⟩ := tick_boot s o now hn
      rw [hd, h1] at h2; simp at h2
end latch

/-! ## `tick_all`: garbage collection of vanished links (every scalar) -/

section gc
variable {F : Type} [Scalar F]

/-- Garbage collection: after `tick_all` the controller holds no entry for an id that was not among
the connections of that call. -/
theorem C16_gc_vanished (m : Ctl F) (conns : List (ConnIn F)) (now id : Nat)
    (h : ∀ c ∈ conns, c.id ≠ id) : (tickAll m conns now).get id = none := by
  simp only [tickAll]
  rw [get_filter (tickLoop m now conns) (fun k => conns.any (·.id == k)) id]
  have : conns.any (·.id == id) = false := by
    simp only [List.any_eq_false, beq_iff_eq]; exact fun c hc => h c hc
  simp [this]

/-- A link the controller has no entry for — never seen, or vanished from an earlier call and
therefore collected (`C16_gc_vanished`) — restarts from `LinkCongestionState::default()`: its state
after the call is one per-link step from the default state. -/
theorem C16_gc_restart (m : Ctl F) (pre post : List (ConnIn F)) (c : ConnIn F) (now : Nat)
    (hm : m.get c.id = none) (hpre : ∀ d ∈ pre, d.id ≠ c.id) (hpost : ∀ d ∈ post, d.id ≠ c.id) :
    (tickAll m (pre ++ c :: post) now).get c.id = some (connStep St.default c now) := by
  simp only [tickAll]
  rw [get_filter (tickLoop m now (pre ++ c :: post)) (fun k => (pre ++ c :: post).any (·.id == k)) c.id]
  have hany : (pre ++ c :: post).any (·.id == c.id) = true := by simp
  simp only [hany, if_true]
  rw [tickLoop_append now pre (c :: post) m]
  simp only [tickLoop]
  rw [tickLoop_get_other _ now post c.id hpost, get_set_same]
  rw [tickLoop_get_other m now pre c.id hpre, hm]
  rfl

/-- A link present in consecutive calls keeps its state: the step is applied to the stored entry. -/
theorem C16_gc_kept (m : Ctl F) (pre post : List (ConnIn F)) (c : ConnIn F) (now : Nat) (s : St F)
    (hm : m.get c.id = some s) (hpre : ∀ d ∈ pre, d.id ≠ c.id) (hpost : ∀ d ∈ post, d.id ≠ c.id) :
    (tickAll m (pre ++ c :: post) now).get c.id = some (connStep s c now) := by
  simp only [tickAll]
  rw [get_filter (tickLoop m now (pre ++ c :: post)) (fun k => (pre ++ c :: post).any (·.id == k)) c.id]
  have hany : (pre ++ c :: post).any (·.id == c.id) = true := by simp
  simp only [hany, if_true]
  rw [tickLoop_append now pre (c :: post) m]
  simp only [tickLoop]
  rw [tickLoop_get_other _ now post c.id hpost, get_set_same]
  rw [tickLoop_get_other m now pre c.id hpre, hm]
  rfl
end gc

/-! ## Exact arithmetic: the clauses about the value of the cap -/

section exact
variable (e : Rat → Rat) (fin : Rat → Bool) (infv : Rat)

/-- At the floor, in Bootstrap, until an RTT sample is accepted (finite and > 0).
Every history, exact arithmetic (only `0.0 == 0.0` is used). -/
theorem C16_floor_until_rtt (ops : List (Op Rat))
    (h : ∀ x now, Op.rtt x now ∈ ops → @rttAccepted Rat (ratScalar e fin infv) x = false) :
    (@run Rat (ratScalar e fin infv) ops).target = 100000 ∧
    (@run Rat (ratScalar e fin infv) ops).state = .bootstrap := by
  suffices H : ∀ (ops : List (Op Rat)) (s : St Rat),
      (∀ x now, Op.rtt x now ∈ ops → @rttAccepted Rat (ratScalar e fin infv) x = false) →
      s.rttEwma = 0 ∧ s.target = 100000 ∧ s.state = .bootstrap →
      (ops.foldl (@apply Rat (ratScalar e fin infv)) s).rttEwma = 0 ∧
      (ops.foldl (@apply Rat (ratScalar e fin infv)) s).target = 100000 ∧
      (ops.foldl (@apply Rat (ratScalar e fin infv)) s).state = .bootstrap by
    have := H ops (@St.default Rat (ratScalar e fin infv)) h (by simp [St.default, zero, Scalar.ofNat])
    exact ⟨this.2.1, this.2.2⟩
  intro ops
  induction ops with
  | nil => intro s _ hs; exact hs
  | cons op ops ih =>
    intro s hh hs
    apply ih _ (fun x now hm => hh x now (List.mem_cons_of_mem _ hm))
    obtain ⟨h0, h1, h2⟩ := hs
    cases op with
    | rtt x now =>
      have hx := hh x now (List.mem_cons_self)
      have : @recordRtt Rat (ratScalar e fin infv) s x now = s := by simp [recordRtt, hx]
      simp only [apply, this]; exact ⟨h0, h1, h2⟩
    | traffic bt n now =>
      obtain ⟨kt, ks, -⟩ := keeps_observeTraffic s bt n now
      have er : (observeTraffic s bt n now).rttEwma = s.rttEwma := by
        simp only [observeTraffic, recordLoss, evictExpired]; repeat' split
        all_goals rfl
      simp only [apply, kt, ks, er]; exact ⟨h0, h1, h2⟩
    | loss sn l now => exact ⟨h0, h1, h2⟩
    | tick o now =>
      have hn : @noRtt Rat (ratScalar e fin infv) (evictExpired s now) = true := by
        have e0 : (evictExpired s now).rttEwma = s.rttEwma := rfl
        simp [noRtt, Scalar.beq, zero, Scalar.ofNat, e0, h0]
      obtain ⟨a, b, -, -, -, c⟩ := @tick_boot Rat (ratScalar e fin infv) s o now hn
      simp only [apply]; exact ⟨c.trans h0, b, a⟩

variable (hfin : ∀ x : Rat, 0 < x → fin x = true)
include hfin

/-- Once out of Bootstrap the controller never returns to it, so the target is seeded from measured
throughput at most once per link lifetime (exact arithmetic; positive numbers are finite). -/
theorem C16_seed_once (ops : List (Op Rat)) (op : Op Rat)
    (h : (@run Rat (ratScalar e fin infv) ops).state ≠ .bootstrap) :
    (@apply Rat (ratScalar e fin infv) (@run Rat (ratScalar e fin infv) ops) op).state ≠ .bootstrap := by
  generalize hs : @run Rat (ratScalar e fin infv) ops = s at h
  have hi : InvR s := hs ▸ invR_run e fin infv ops
  cases op with
  | rtt x now =>
    have := (@keeps_recordRtt Rat (ratScalar e fin infv) s x now).2.1
    simp only [apply, this]; exact h
  | traffic bt n now =>
    have := (keeps_observeTraffic s bt n now).2.1
    simp only [apply, this]; exact h
  | loss sn l now => exact h
  | tick o now =>
    have hn := noRtt_false_of_left e fin infv hfin s hi h now
    exact (@tick_run Rat (ratScalar e fin infv) s o now hn).2.2.2.2.1

/-- The target is lowered only by a loss back-off — to no less than ⌊0.85·t⌋, no less than the
delivered rate `min observed t`, never raising — or on *entry* to Drain, to exactly
`max ⌊0.75·t⌋ 100000`.  Every history, every tick, exact arithmetic. -/
theorem C16_lowered_only_by (ops : List (Op Rat)) (obs now : Nat) :
    let s := @run Rat (ratScalar e fin infv) ops
    let s' := @tick Rat (ratScalar e fin infv) s obs now
    s'.target < s.target →
      (s'.state = .backingOff ∧ s'.target ≤ s.target ∧ s.target * 850 / 1000 ≤ s'.target ∧
        min obs s.target ≤ s'.target) ∨
      (s'.state = .drain ∧ s.state ≠ .drain ∧ s'.target = max (s.target * 750 / 1000) 100000) := by
  intro s s' hlt
  have es : s = @run Rat (ratScalar e fin infv) ops := rfl
  have es' : s' = @tick Rat (ratScalar e fin infv) s obs now := rfl
  clear_value s' s
  have hinv : Inv s := es ▸ @inv_run Rat (ratScalar e fin infv) ops
  have hi : InvR s := es ▸ invR_run e fin infv ops
  by_cases hb : s.state = .bootstrap
  · have := hinv.2.2 hb
    have := (@inv_tick Rat (ratScalar e fin infv) s obs now).1
    rw [← es'] at this
    omega
  · have hn := noRtt_false_of_left e fin infv hfin s hi hb now
    have k := tick_target_R e fin infv s obs now hinv hn
    simp only [hb, if_false] at k
    rw [← es'] at k
    obtain ⟨k1, k2, kne, kc, kh, kb, kd⟩ := k
    have hcases : ∀ st : CcState, st = .bootstrap ∨ st = .climbing ∨ st = .holding ∨ st = .backingOff ∨ st = .drain := by
      intro st; cases st <;> simp
    rcases hcases s'.state with c | c | c | c | c
    · exact absurd c kne
    · have := (kc c).1; omega
    · have := kh c; omega
    · left
      obtain ⟨a, b, d⟩ := kb c
      refine ⟨c, a, b, ?_⟩
      omega
    · right
      by_cases hd : s.state = .drain
      · have := (kd c).1 hd; omega
      · exact ⟨c, hd, (kd c).2 hd⟩

/-- After the initial seeding (state ≠ Bootstrap) the target grows per tick by at most 6 %, only in
Climbing, and a grown target is at most twice the measured rate (even twice the outlier-clamped
rate `min observed (4·max t 1e6)`).  Every history, every tick, exact arithmetic. -/
theorem C16_growth (ops : List (Op Rat)) (obs now : Nat) :
    let s := @run Rat (ratScalar e fin infv) ops
    let s' := @tick Rat (ratScalar e fin infv) s obs now
    s.state ≠ .bootstrap →
      s'.target * 1000 ≤ s.target * 1060 ∧
      (s.target < s'.target → s'.state = .climbing ∧ s'.target ≤ 2 * obs ∧
        s'.target ≤ 2 * min obs (4 * max s.target 1000000)) := by
  intro s s' hb
  have es : s = @run Rat (ratScalar e fin infv) ops := rfl
  have es' : s' = @tick Rat (ratScalar e fin infv) s obs now := rfl
  clear_value s' s
  have hinv : Inv s := es ▸ @inv_run Rat (ratScalar e fin infv) ops
  have hi : InvR s := es ▸ invR_run e fin infv ops
  have hn := noRtt_false_of_left e fin infv hfin s hi hb now
  have k := tick_target_R e fin infv s obs now hinv hn
  simp only [hb, if_false] at k
  rw [← es'] at k
  obtain ⟨k1, k2, kne, kc, kh, kb, kd⟩ := k
  have hcases : ∀ st : CcState, st = .bootstrap ∨ st = .climbing ∨ st = .holding ∨ st = .backingOff ∨ st = .drain := by
    intro st; cases st <;> simp
  rcases hcases s'.state with c | c | c | c | c
  · exact absurd c kne
  · obtain ⟨a, b, d⟩ := kc c
    refine ⟨b, fun hg => ⟨c, ?_, d hg⟩⟩
    have := d hg; omega
  · have := kh c; omega
  · obtain ⟨a, b, d⟩ := kb c; omega
  · by_cases hd : s.state = .drain
    · have := (kd c).1 hd; omega
    · have := (kd c).2 hd; omega

/-- Non-vacuity of the lowering clauses: with exact arithmetic a Drain entry at 2 Mbit/s yields
exactly 1.5 Mbit/s, and at 120 kbit/s it is floored at 100 kbit/s. -/
example : @tickTarget Rat (ratScalar e fin infv) .drain .climbing .normal 2000000 0 = 1500000 ∧
    @tickTarget Rat (ratScalar e fin infv) .drain .holding .normal 120000 0 = 100000 := by
  rw [tickTarget_drain_entry_R e fin infv _ _ _ _ (by simp) (by omega) (by omega),
    tickTarget_drain_entry_R e fin infv _ _ _ _ (by simp) (by omega) (by omega)]
  omega

/-- Non-vacuity of the hypothesis `∀ x > 0, fin x`: the instance whose `∞` token is −1. -/
example : ∀ x : Rat, 0 < x → (fun x : Rat => decide (x ≠ -1)) x = true := by
  intro x hx; simp; grind

end exact

end Srtla.Props.C16
