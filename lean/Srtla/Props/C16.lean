import Srtla.Model.LinkCc
import Srtla.Lemmas.LinkCc
/-!
# C16 — per-link CC soft cap and loss latch stay bounded and honest

Property theorems only.  Histories are arbitrary lists of `Op` (RTT samples, cumulative counters,
direct loss samples, ticks; any values, any time stamps, also non-monotone) applied to
`LinkCongestionState::default()`; `run ops` is the state after the history.

Two levels (see `tools/props/C16.json`):

* **every scalar** (`[Scalar F]`, in particular the `Float` instance the compiled driver runs and
  that is compared bit-for-bit with the Rust code): bounds, Bootstrap-at-floor, "only `tick` moves
  the cap / the latch", the loss-degraded latch clauses (over the model's own comparisons
  `ewma > 0.55`, `ewma < 0.25`, ghost trace of all EWMA evaluations), garbage collection.
* **exact arithmetic** (`ratScalar e fin infv : Scalar Rat`, `as u64 = ⌊·⌋`, any `exp`, any
  finiteness predicate): the clauses that need the value of the float expressions — floor until an
  RTT sample, lowered only by back-off / Drain entry with the quantitative bounds, growth ≤ 6 % and
  ≤ 2× measured, seeded at most once.  IEEE rounding / overflow is *not* covered by these proofs;
  on the real code they are checked by the integer-arithmetic monitors of `harness/src/bin/linkcc.rs`.

Round 2 additions:

* **literal thresholds**: `C16_threshold_pins*` tie the regenerated `LOSS_DEGRADE_ENTER/CLEAR/SUSTAIN_MS`
  to the literal 55/100, 25/100, 4000 (`0.55` / `0.25` on the `Float` side);
  `C16_latch_set_literal` / `C16_latch_clear_literal` restate the latch clauses with `55/100 < x`,
  `x < 25/100` at exact arithmetic.
* **controller level**: `CtlReach` (Lemmas) = controllers reachable from `LinkCcController::new()` by
  any sequence of `tick_all` calls (no distinct-id assumption: a repeated id just gets two loop
  bodies).  Every entry is a `run ops` (`C16_entry_is_run`; the loop body is ≤ 3 ops,
  `C16_connStep_is_ops`), hence `C16_bounds_ctl` (every scalar) and `C16_lowered_only_by_ctl`,
  `C16_growth_ctl`, `C16_seed_once_ctl` (exact arithmetic; for a link occurring once in the call),
  `C16_fresh_entry_ctl` for a link without entry.
* **reachability witnesses** evaluated by the kernel at a concrete exact-arithmetic instance:
  `C16_reach_latch`, `C16_reach_latch_hyps`, `C16_reach_latch_clear`, `C16_reach_backingOff`,
  `C16_reach_lowering`, `C16_reach_ctl`, `C16_reach_growth_ctl`.
* `C16_counter_reset_no_sample_strong`: the counter-reset clause without the superfluous lower bound.

Round 4 additions (third audit):

* `C16_seed_tick` / `C16_seed_tick_step`: the seeding tick out of Bootstrap (exact arithmetic) — the one
  tick neither `C16_growth` nor `C16_lowered_only_by` constrains.
* `C16_only_tick_moves` also concludes `lossEwma`, `lossHighSince`, `climbMode`.
* **which history an entry is the state of**: `C16_reach_is_calls`, `C16_entry_is_session_run`,
  `C16_session_entry` (`ctlOf`, `Session`, `sessionOps` in Lemmas), and the `tick_all` forms
  `C16_floor_until_rtt_ctl`, `C16_latch_set_ctl`, `C16_latch_clear_ctl` (+ `_literal`).
-/
namespace Srtla.Props.C16
open Srtla.LinkCc Srtla.Gen.LinkCc

section generic
variable {F : Type} [Scalar F]

/-! ## Bounds (every scalar, every history) -/

/-- The target stays within [100 kbit/s, 200 Mbit/s] after every history. -/
theorem C16_bounds (ops : List (Op F)) :
    100000 ≤ (run ops).target ∧ (run ops).target ≤ 200000000 :=
  ⟨(inv_run ops).1, (inv_run ops).2.1⟩

/-- Bootstrap is always at the floor. -/
theorem C16_bootstrap_at_floor (ops : List (Op F)) (h : (run ops).state = .bootstrap) :
    (run ops).target = 100000 :=
  (inv_run ops).2.2 h

/-- Only `tick` moves the cap, the state, the loss EWMA or the degraded latch: RTT samples, counter
snapshots (including counter resets) and loss samples leave them untouched — as well as the latch's
sustain timer `loss_high_since` and the climb mode.
(Round 4: `lossEwma`, `lossHighSince`, `climbMode` added to the conclusion; the docstring promised
the loss EWMA from the start.) -/
theorem C16_only_tick_moves (ops : List (Op F)) (op : Op F) (h : ∀ o now, op ≠ .tick o now) :
    (apply (run ops) op).target = (run ops).target ∧ (apply (run ops) op).state = (run ops).state ∧
    (apply (run ops) op).lossDegraded = (run ops).lossDegraded ∧
    (apply (run ops) op).lossEwma = (run ops).lossEwma ∧
    (apply (run ops) op).lossHighSince = (run ops).lossHighSince ∧
    (apply (run ops) op).climbMode = (run ops).climbMode := by
  have key : Keeps (run ops) (apply (run ops) op) := by
    cases op with
    | tick o now => exact absurd rfl (h o now)
    | rtt x now => exact keeps_recordRtt (run ops) x now
    | traffic bt n now => exact keeps_observeTraffic (run ops) bt n now
    | loss sn l now => exact keeps_recordLoss (run ops) sn l now
  obtain ⟨a, b, c, d, f, g⟩ := key
  exact ⟨a, b, c, f, d, g⟩

/-- Non-vacuity on a state where the six fields are not at their defaults: after the latch witness
(`C16_reach_latch`: BackingOff, loss EWMA 1, timer armed at 1000, latched) an RTT sample, a counter
snapshot and a loss sample are not ticks. -/
example (x : F) (b : Nat) (n : Int) (t : Nat) :
    (∀ o now, (Op.rtt x t : Op F) ≠ .tick o now) ∧ (∀ o now, (Op.traffic b n t : Op F) ≠ .tick o now) ∧
    (∀ o now, (Op.loss b b t : Op F) ≠ .tick o now) := by
  refine ⟨?_, ?_, ?_⟩ <;> intro o now h <;> cases h

/-- Counter reset after a reconnect, strong form (no lower bound on how far the NAK counter went
down): when the cumulative byte counter does not advance and the NAK counter does not advance (both
may have gone *down*, by any amount), `observe_traffic` adds no loss sample — the window, its sums
and hence `loss_permille` are untouched; only the baselines move.  When `nak − prev_nak < −2^31` the
`i32::saturating_sub` is the negative clamp `−2^31`, still `< 0`, so `.max(0)` gives a NAK delta of
0 as well. -/
theorem C16_counter_reset_no_sample_strong (ops : List (Op F)) (bytes : Nat) (nak : Int) (now : Nat)
    (hb : (run ops).baselineSet = true) (h1 : bytes ≤ (run ops).prevBytes)
    (h2 : nak ≤ (run ops).prevNak) :
    let s' := apply (run ops) (.traffic bytes nak now)
    s'.samples = (run ops).samples ∧ s'.windowSent = (run ops).windowSent ∧
    s'.windowLost = (run ops).windowLost ∧ lossPermille s' = lossPermille (run ops) ∧
    s'.prevBytes = bytes ∧ s'.prevNak = nak := by
  intro s'
  have es' : s' = apply (run ops) (.traffic bytes nak now) := rfl
  clear_value s'
  generalize run ops = s at *
  subst es'
  have hd : bytes - s.prevBytes = 0 := by omega
  have hn : (if satSubI32 nak s.prevNak < 0 then 0 else (satSubI32 nak s.prevNak).toNat) = 0 := by
    simp only [satSubI32]; split <;> (try split) <;> (try split) <;> omega
  simp only [apply, observeTraffic, hb, hd, hn, lossPermille]
  simp

/-- Non-vacuity of the strong form: after a baseline of (5000 bytes, 2147483647 NAKs) the counters
restart at (0, −2147483648); the difference −4294967295 is below `−2^31`, i.e. outside the extra
hypothesis `h3` of the weak form, and the hypotheses of the strong form hold. -/
example :
    let ops : List (Op F) := [.traffic 5000 2147483647 10]
    (run ops).baselineSet = true ∧ 0 ≤ (run ops).prevBytes ∧ (-2147483648 : Int) ≤ (run ops).prevNak ∧
      ¬ (-2147483648 ≤ (-2147483648 : Int) - (run ops).prevNak) := by
  simp [run, apply, observeTraffic, St.default]

/-- Counter reset after a reconnect: when the cumulative byte counter does not advance and the NAK
counter does not advance (both may have gone *down*), `observe_traffic` adds no loss sample — the
window, its sums and hence `loss_permille` are untouched; only the baselines move.
(Original form; the hypothesis `h3` is superfluous, see `C16_counter_reset_no_sample_strong`.) -/
theorem C16_counter_reset_no_sample (ops : List (Op F)) (bytes : Nat) (nak : Int) (now : Nat)
    (hb : (run ops).baselineSet = true) (h1 : bytes ≤ (run ops).prevBytes)
    (h2 : nak ≤ (run ops).prevNak) (_h3 : -2147483648 ≤ nak - (run ops).prevNak) :
    let s' := apply (run ops) (.traffic bytes nak now)
    s'.samples = (run ops).samples ∧ s'.windowSent = (run ops).windowSent ∧
    s'.windowLost = (run ops).windowLost ∧ lossPermille s' = lossPermille (run ops) ∧
    s'.prevBytes = bytes ∧ s'.prevNak = nak :=
  C16_counter_reset_no_sample_strong ops bytes nak now hb h1 h2

/-- Non-vacuity of the weak form: baseline (5000, 7), then the counters restart at (0, 0). -/
example :
    let ops : List (Op F) := [.traffic 5000 7 10]
    (run ops).baselineSet = true ∧ 0 ≤ (run ops).prevBytes ∧ (0 : Int) ≤ (run ops).prevNak ∧
      -2147483648 ≤ (0 : Int) - (run ops).prevNak := by
  simp [run, apply, observeTraffic, St.default]

example : (apply (run ([] : List (Op Float))) (.loss 1000 100 5)).target = 100000 := by
  simp [run, apply, recordLoss, evictExpired, St.default]

end generic

/-! ## The loss-degraded latch (every scalar, ghost trace of EWMA evaluations) -/

section latch
variable {F : Type} [Scalar F]

/-- The state component of the ghost-extended run is the plain run. -/
theorem C16_ghost_run (ops : List (Op F)) : (runG ops (St.default, [])).1 = run ops :=
  runG_fst ops _ _

/-- The loss-degraded verdict latches only at a tick whose loss EWMA compares `> 0.55` and that ends a
run of consecutive EWMA evaluations which all compared `> 0.55` and whose first evaluation is at
least 4000 ms older (`now − first ≥ 4000`, saturating).  Every history, every scalar instance. -/
theorem C16_latch_set (ops : List (Op F)) (o now : Nat) :
    let s := (runG ops (St.default, [])).1
    let tr := (runG ops (St.default, [])).2
    s.lossDegraded = false → (tick s o now).lossDegraded = true →
      ∃ hrun rest first,
        traceStep s (.tick o now) tr = (now, (tick s o now).lossEwma) :: (hrun ++ first :: rest) ∧
        High (tick s o now).lossEwma ∧ (∀ p ∈ hrun, High p.2) ∧ High first.2 ∧
        now - first.1 ≥ 4000 := by
  intro s tr h0 h1
  have hinv : LatchInv s tr := latchInv_runG ops _ _ (by intro h; exact absurd rfl h)
  cases hn : noRtt (evictExpired s now)
  · obtain ⟨hd, hh, he, -, -, -⟩ := tick_run s o now hn
    obtain ⟨k1, -, -, -, khi, klo⟩ := updateLossEwma_spec (evictExpired s now) (lossPermille (evictExpired s now)) now
    have e0 : (evictExpired s now).lossHighSince = s.lossHighSince := rfl
    have e1 : (evictExpired s now).lossDegraded = s.lossDegraded := rfl
    rw [hd] at h1
    cases hc : Scalar.lt (cEnter : F) (nextLossEwma (evictExpired s now) (lossPermille (evictExpired s now)) now)
    · have := (klo hc).2; rw [e1, h0] at this; rw [this] at h1; simp at h1
    · obtain ⟨a, b⟩ := khi hc
      rw [e0] at a b
      by_cases hz : s.lossHighSince = 0
      · have := (a hz).2; rw [e1, h0] at this; rw [this] at h1; simp at h1
      · have := (b hz).2; rw [e1, h0] at this; rw [this] at h1
        have hge : now - s.lossHighSince ≥ 4000 := by simpa using h1
        obtain ⟨hrun, rest, first, t1, t2, t3, t4⟩ := hinv hz
        refine ⟨hrun, rest, first, ?_, ?_, t4, t3, by rw [t2]; exact hge⟩
        · simp only [traceStep, hn, Bool.false_eq_true, if_false, t1]
        · show Scalar.lt (cEnter : F) (tick s o now).lossEwma = true
          rw [he, k1]; exact hc
  · obtain ⟨-, -, hd, -, -, -⟩ := tick_boot s o now hn
    rw [hd, h0] at h1; simp at h1

/-- The verdict clears only at a tick that evaluated the loss EWMA and found it `< 0.25`
(and not `> 0.55`).  Every history, every op, every scalar instance. -/
theorem C16_latch_clear (ops : List (Op F)) (op : Op F)
    (h1 : (run ops).lossDegraded = true) (h2 : (apply (run ops) op).lossDegraded = false) :
    ∃ o now, op = .tick o now ∧ noRtt (evictExpired (run ops) now) = false ∧
      Low (tick (run ops) o now).lossEwma ∧ ¬ High (tick (run ops) o now).lossEwma := by
  generalize run ops = s at h1 h2
  cases op with
  | rtt x now => have := (keeps_recordRtt s x now).2.2.1; simp only [apply] at h2; rw [this, h1] at h2; simp at h2
  | traffic bt n now => have := (keeps_observeTraffic s bt n now).2.2.1; simp only [apply] at h2; rw [this, h1] at h2; simp at h2
  | loss sn l now => have := (keeps_recordLoss s sn l now).2.2.1; simp only [apply] at h2; rw [this, h1] at h2; simp at h2
  | tick o now =>
    simp only [apply] at h2
    refine ⟨o, now, rfl, ?_⟩
    cases hn : noRtt (evictExpired s now)
    · obtain ⟨hd, hh, he, -, -, -⟩ := tick_run s o now hn
      obtain ⟨k1, -, -, -, khi, klo⟩ := updateLossEwma_spec (evictExpired s now) (lossPermille (evictExpired s now)) now
      have e0 : (evictExpired s now).lossHighSince = s.lossHighSince := rfl
      have e1 : (evictExpired s now).lossDegraded = s.lossDegraded := rfl
      rw [hd] at h2
      refine ⟨rfl, ?_⟩
      show Scalar.lt (tick s o now).lossEwma (cClear : F) = true ∧ ¬ Scalar.lt (cEnter : F) (tick s o now).lossEwma = true
      rw [he, k1]
      cases hc : Scalar.lt (cEnter : F) (nextLossEwma (evictExpired s now) (lossPermille (evictExpired s now)) now)
      · have := (klo hc).2; rw [e1, h1] at this; rw [this] at h2
        refine ⟨by simpa using h2, by simp⟩
      · obtain ⟨a, b⟩ := khi hc
        rw [e0] at a b
        by_cases hz : s.lossHighSince = 0
        · have := (a hz).2; rw [e1, h1] at this; rw [this] at h2; simp at h2
        · have := (b hz).2; rw [e1, h1] at this; rw [this] at h2; simp at h2
    · obtain ⟨-, -, hd, -, -, -⟩ := tick_boot s o now hn
      rw [hd, h1] at h2; simp at h2
end latch

/-! ## In-Lean reachability witnesses (exact arithmetic, kernel-evaluated)

Concrete histories / `tick_all` sequences at the exact-arithmetic instance `witScalar`
(`exp := 0`, so the EWMA weight is 1; `is_finite x := x ≠ −1`; `INFINITY := −1`), evaluated by the
kernel (`Float` cannot be evaluated by the kernel).  They show that the loss latch, BackingOff, a
lowered cap and a grown cap are reachable in the model — the hypotheses of the latch / lowering /
growth theorems are not vacuous — and are used as the `example`s beside the theorems below. -/

section witnesses

/-- The loss latch is reachable: RTT sample, 100 % loss sample + tick at 1000 ms (EWMA 1 > 55/100,
timer armed), 100 % loss sample + tick at 5000 ms (EWMA 1, 4000 ms later) ⇒ `loss_degraded`. -/
theorem C16_reach_latch :
    letI := witScalar
    (run ([.rtt 10 1, .loss 10 10 1000, .tick 0 1000, .loss 10 10 5000, .tick 0 5000] : List (Op Rat))
      ).lossDegraded = true := by decide +kernel

/-- The witness meets the hypotheses of `C16_latch_set` / `C16_latch_set_literal` (not latched
before the last tick, latched after), and its ghost trace is the single earlier evaluation
`(1000, 1)`: so the conclusion holds with `hrun = []`, `first = (1000, 1)`, `5000 − 1000 ≥ 4000`. -/
theorem C16_reach_latch_hyps :
    letI := witScalar
    let ops : List (Op Rat) := [.rtt 10 1, .loss 10 10 1000, .tick 0 1000, .loss 10 10 5000]
    let s := (runG ops (St.default, [])).1
    let tr := (runG ops (St.default, [])).2
    s.lossDegraded = false ∧ (tick s 0 5000).lossDegraded = true ∧ tr = [(1000, 1)] ∧
      (tick s 0 5000).lossEwma = 1 ∧ s.lossHighSince = 1000 := by decide +kernel

/-- … and un-latching is reachable too: a loss-free tick (EWMA 0 < 25/100) clears the verdict
(hypotheses of `C16_latch_clear`). -/
theorem C16_reach_latch_clear :
    letI := witScalar
    let ops : List (Op Rat) := [.rtt 10 1, .loss 10 10 1000, .tick 0 1000, .loss 10 10 5000, .tick 0 5000]
    (run ops).lossDegraded = true ∧ (apply (run ops) (.tick 0 7000)).lossDegraded = false ∧
      (tick (run ops) 0 7000).lossEwma = 0 := by decide +kernel

/-- BackingOff is reachable: RTT sample, 100 % loss in the window, a tick under load
(observed 500 kbit/s ≥ 30 % of the seed 1 Mbit/s). -/
theorem C16_reach_backingOff :
    letI := witScalar
    (run ([.rtt 10 1, .loss 10 10 1000, .tick 500000 1000] : List (Op Rat))).state = .backingOff := by
  decide +kernel

/-- A back-off that lowers the cap (hypothesis `s'.target < s.target` of `C16_lowered_only_by`):
seeded and grown to 1 060 000, then 100 % loss under load ⇒ BackingOff at ⌊0.85·1 060 000⌋ = 901 000. -/
theorem C16_reach_lowering :
    letI := witScalar
    let ops : List (Op Rat) := [.rtt 10 1, .tick 1000000 500, .loss 10 10 1000]
    (run ops).state = .climbing ∧ (run ops).target = 1060000 ∧
    (tick (run ops) 500000 1000).state = .backingOff ∧ (tick (run ops) 500000 1000).target = 901000 := by
  decide +kernel

/-- Controller level: three `tick_all` calls from the empty controller.  Call 1 (links 7 and 9) seeds
link 7 and lets it climb; call 2 (link 7 only: 10 packets sent, 10 NAKs) backs off and lowers the
cap, link 9 is collected; call 3 (another 10/10, 4000 ms later) latches `loss_degraded`. -/
theorem C16_reach_ctl :
    letI := witScalar
    let m1 : Ctl Rat := tickAll [] [witConn 0 0 1000000, witConn9] 500
    let m2 : Ctl Rat := tickAll m1 [witConn 13160 10 500000] 1000
    let m3 : Ctl Rat := tickAll m2 [witConn 26320 20 500000] 5000
    (m1.get 7).map (fun s => (s.state, s.target)) = some (.climbing, 1060000) ∧
    (m1.get 9).map (fun s => (s.state, s.target)) = some (.bootstrap, 100000) ∧
    (m2.get 7).map (fun s => (s.state, s.target, s.lossDegraded)) = some (.backingOff, 901000, false) ∧
    (m2.get 9).isNone = true ∧
    (m3.get 7).map (fun s => s.lossDegraded) = some true := by
  decide +kernel

/-- The three controllers of `C16_reach_ctl` are `CtlReach` (hypothesis of the `_ctl` theorems). -/
example :
    letI := witScalar
    CtlReach (tickAll (tickAll (tickAll ([] : Ctl Rat) [witConn 0 0 1000000, witConn9] 500)
      [witConn 13160 10 500000] 1000) [witConn 26320 20 500000] 5000) :=
  @CtlReach.tick Rat witScalar _ _ _ (@CtlReach.tick Rat witScalar _ _ _
    (@CtlReach.tick Rat witScalar _ _ _ (@CtlReach.empty Rat witScalar)))

/-- Growth witness at controller level (hypotheses of `C16_growth_ctl`): the entry has left
Bootstrap and the next call raises the cap by exactly 6 % (HAI step). -/
theorem C16_reach_growth_ctl :
    letI := witScalar
    let m1 : Ctl Rat := tickAll [] [witConn 0 0 1000000] 500
    let m2 : Ctl Rat := tickAll m1 [witConn 13160 0 2000000] 1000
    (m1.get 7).map (fun s => (s.state, s.target)) = some (.climbing, 1060000) ∧
    (m2.get 7).map (fun s => (s.state, s.target)) = some (.climbing, 1123600) := by
  decide +kernel
end witnesses

/-! ## The latch thresholds are the literal 0.55 / 0.25 / 4000 ms -/
section pins

/-- The regenerated constants behind the latch: the generator emits the decimal literals of
`LOSS_DEGRADE_ENTER` / `LOSS_DEGRADE_CLEAR` as reduced fractions (11/20, 1/4); as rationals they are
the literal 55/100 and 25/100; the sustain time is 4000 ms.  An edit of any of the three Rust
constants breaks this proof. -/
theorem C16_threshold_pins :
    LOSS_DEGRADE_ENTER_num = 11 ∧ LOSS_DEGRADE_ENTER_den = 20 ∧
    LOSS_DEGRADE_CLEAR_num = 1 ∧ LOSS_DEGRADE_CLEAR_den = 4 ∧
    (LOSS_DEGRADE_ENTER_num : Rat) / (LOSS_DEGRADE_ENTER_den : Rat) = 55 / 100 ∧
    (LOSS_DEGRADE_CLEAR_num : Rat) / (LOSS_DEGRADE_CLEAR_den : Rat) = 25 / 100 ∧
    LOSS_DEGRADE_SUSTAIN_MS = 4000 := by
  refine ⟨rfl, rfl, rfl, rfl, ?_, ?_, rfl⟩ <;> decide +kernel

/-- The thresholds the exact-arithmetic model compares with are the literal 55/100 and 25/100. -/
theorem C16_threshold_pins_exact (e : Rat → Rat) (fin : Rat → Bool) (infv : Rat) :
    @cEnter Rat (ratScalar e fin infv) = 55 / 100 ∧ @cClear Rat (ratScalar e fin infv) = 25 / 100 :=
  ⟨cEnter_R e fin infv, cClear_R e fin infv⟩

/-- The thresholds the `Float` model (the one compared bit-for-bit with the Rust code) compares
with are the regenerated `f64` literals, and those are the source literals `0.55` / `0.25`.
(Float literals are opaque to the kernel: this is a syntactic identity of the literal, which is all
that can be said inside Lean; it still breaks when the Rust constant is edited.) -/
theorem C16_threshold_pins_float :
    (cEnter : Float) = LOSS_DEGRADE_ENTER_f ∧ LOSS_DEGRADE_ENTER_f = 0.55 ∧
    (cClear : Float) = LOSS_DEGRADE_CLEAR_f ∧ LOSS_DEGRADE_CLEAR_f = 0.25 :=
  ⟨rfl, rfl, rfl, rfl⟩

/-- At exact arithmetic the model's comparisons `High` / `Low` are the literal inequalities. -/
theorem C16_high_low_literal (e : Rat → Rat) (fin : Rat → Bool) (infv : Rat) (x : Rat) :
    (@High Rat (ratScalar e fin infv) x ↔ (55 : Rat) / 100 < x) ∧
    (@Low Rat (ratScalar e fin infv) x ↔ x < (25 : Rat) / 100) :=
  ⟨High_R e fin infv x, Low_R e fin infv x⟩

example : (55 : Rat) / 100 < 3 / 5 ∧ ¬ ((55 : Rat) / 100 < 55 / 100) ∧ (1 : Rat) / 5 < 25 / 100 := by
  decide +kernel

variable (e : Rat → Rat) (fin : Rat → Bool) (infv : Rat)

/-- `C16_latch_set` with the literal numbers: at exact arithmetic the loss-degraded verdict latches
only at a tick whose loss EWMA is `> 55/100` and that ends a run of consecutive EWMA evaluations all
`> 55/100` whose first evaluation is at least 4000 ms older. -/
theorem C16_latch_set_literal (ops : List (Op Rat)) (o now : Nat) :
    letI := ratScalar e fin infv
    let s := (runG ops (St.default, [])).1
    let tr := (runG ops (St.default, [])).2
    s.lossDegraded = false → (tick s o now).lossDegraded = true →
      ∃ hrun rest first,
        traceStep s (.tick o now) tr = (now, (tick s o now).lossEwma) :: (hrun ++ first :: rest) ∧
        (55 : Rat) / 100 < (tick s o now).lossEwma ∧ (∀ p ∈ hrun, (55 : Rat) / 100 < p.2) ∧
        (55 : Rat) / 100 < first.2 ∧ now - first.1 ≥ 4000 := by
  intro s tr h0 h1
  obtain ⟨hrun, rest, first, a, b, c, d, f⟩ := @C16_latch_set Rat (ratScalar e fin infv) ops o now h0 h1
  exact ⟨hrun, rest, first, a, (High_R e fin infv _).1 b, fun p hp => (High_R e fin infv _).1 (c p hp),
    (High_R e fin infv _).1 d, f⟩

/-- The literal theorem applied to the witness `C16_reach_latch_hyps` (its hypotheses are met). -/
example :=
  C16_latch_set_literal (fun _ => 0) (fun x => decide (x ≠ -1)) (-1)
    [.rtt 10 1, .loss 10 10 1000, .tick 0 1000, .loss 10 10 5000] 0 5000
    C16_reach_latch_hyps.1 C16_reach_latch_hyps.2.1

/-- `C16_latch_clear` with the literal numbers: the verdict clears only at a tick that evaluated the
loss EWMA and found it `< 25/100`. -/
theorem C16_latch_clear_literal (ops : List (Op Rat)) (op : Op Rat) :
    letI := ratScalar e fin infv
    (run ops).lossDegraded = true → (apply (run ops) op).lossDegraded = false →
    ∃ o now, op = .tick o now ∧ noRtt (evictExpired (run ops) now) = false ∧
      (tick (run ops) o now).lossEwma < (25 : Rat) / 100 ∧
      ¬ ((55 : Rat) / 100 < (tick (run ops) o now).lossEwma) := by
  intro h1 h2
  obtain ⟨o, now, a, b, c, d⟩ := @C16_latch_clear Rat (ratScalar e fin infv) ops op h1 h2
  exact ⟨o, now, a, b, (Low_R e fin infv _).1 c, fun h => d ((High_R e fin infv _).2 h)⟩

/-- … and to the witness `C16_reach_latch_clear`. -/
example :=
  C16_latch_clear_literal (fun _ => 0) (fun x => decide (x ≠ -1)) (-1)
    [.rtt 10 1, .loss 10 10 1000, .tick 0 1000, .loss 10 10 5000, .tick 0 5000] (.tick 0 7000)
    C16_reach_latch_clear.1 C16_reach_latch_clear.2.1

end pins

/-! ## `tick_all`: garbage collection of vanished links (every scalar) -/

section gc
variable {F : Type} [Scalar F]

/-- Garbage collection: after `tick_all` the controller holds no entry for an id that was not among
the connections of that call. -/
theorem C16_gc_vanished (m : Ctl F) (conns : List (ConnIn F)) (now id : Nat)
    (h : ∀ c ∈ conns, c.id ≠ id) : (tickAll m conns now).get id = none := by
  simp only [tickAll]
  rw [get_filter (tickLoop m now conns) (fun k => conns.any (·.id == k)) id]
  have : conns.any (·.id == id) = false := by
    simp only [List.any_eq_false, beq_iff_eq]; exact fun c hc => h c hc
  simp [this]

/-- A link the controller has no entry for — never seen, or vanished from an earlier call and
therefore collected (`C16_gc_vanished`) — restarts from `LinkCongestionState::default()`: its state
after the call is one per-link step from the default state. -/
theorem C16_gc_restart (m : Ctl F) (pre post : List (ConnIn F)) (c : ConnIn F) (now : Nat)
    (hm : m.get c.id = none) (hpre : ∀ d ∈ pre, d.id ≠ c.id) (hpost : ∀ d ∈ post, d.id ≠ c.id) :
    (tickAll m (pre ++ c :: post) now).get c.id = some (connStep St.default c now) := by
  simp only [tickAll]
  rw [get_filter (tickLoop m now (pre ++ c :: post)) (fun k => (pre ++ c :: post).any (·.id == k)) c.id]
  have hany : (pre ++ c :: post).any (·.id == c.id) = true := by simp
  simp only [hany, if_true]
  rw [tickLoop_append now pre (c :: post) m]
  simp only [tickLoop]
  rw [tickLoop_get_other _ now post c.id hpost, get_set_same]
  rw [tickLoop_get_other m now pre c.id hpre, hm]
  rfl

/-- A link present in consecutive calls keeps its state: the step is applied to the stored entry. -/
theorem C16_gc_kept (m : Ctl F) (pre post : List (ConnIn F)) (c : ConnIn F) (now : Nat) (s : St F)
    (hm : m.get c.id = some s) (hpre : ∀ d ∈ pre, d.id ≠ c.id) (hpost : ∀ d ∈ post, d.id ≠ c.id) :
    (tickAll m (pre ++ c :: post) now).get c.id = some (connStep s c now) := by
  simp only [tickAll]
  rw [get_filter (tickLoop m now (pre ++ c :: post)) (fun k => (pre ++ c :: post).any (·.id == k)) c.id]
  have hany : (pre ++ c :: post).any (·.id == c.id) = true := by simp
  simp only [hany, if_true]
  rw [tickLoop_append now pre (c :: post) m]
  simp only [tickLoop]
  rw [tickLoop_get_other _ now post c.id hpost, get_set_same]
  rw [tickLoop_get_other m now pre c.id hpre, hm]
  rfl
end gc

/-! ## Reachable controllers: the per-link theorems composed over `tick_all` -/
section ctl
variable {F : Type} [Scalar F]

/-- The body of the `for conn in connections` loop is two or three ops of the history alphabet:
the RTT sample (only when `> 0.0`), the cumulative counters, the tick. -/
theorem C16_connStep_is_ops (s : St F) (c : ConnIn F) (now : Nat) :
    connStep s c now =
      ((if Scalar.lt zero c.smoothRtt then [Op.rtt c.smoothRtt now] else []) ++
        [Op.traffic c.bytesTotal c.nakTotal now,
         Op.tick (Scalar.toU64 (fmax c.bitrate zero)) now]).foldl apply s := by
  rw [connStep_eq_apply]
  simp only [connOps, connPre, connObs, List.append_assoc, List.cons_append, List.nil_append]

/-- Every entry of a controller reachable from `LinkCcController::new()` by any sequence of
`tick_all` calls (any connection slices — ids may even repeat inside a call —, any time stamps) is
the state after some history of ops, i.e. all `run`-level theorems of this file apply to it. -/
theorem C16_entry_is_run (m : Ctl F) (hm : CtlReach m) (id : Nat) (s : St F) (hg : m.get id = some s) :
    ∃ ops : List (Op F), s = run ops :=
  hm.entry_run id s hg

/-- Bounds for every entry of every reachable controller, every scalar instance: the target is in
[100 kbit/s, 200 Mbit/s] and Bootstrap is at the floor. -/
theorem C16_bounds_ctl (m : Ctl F) (hm : CtlReach m) (id : Nat) (s : St F) (hg : m.get id = some s) :
    100000 ≤ s.target ∧ s.target ≤ 200000000 ∧ (s.state = .bootstrap → s.target = 100000) := by
  obtain ⟨ops, rfl⟩ := hm.entry_run id s hg
  exact ⟨(C16_bounds ops).1, (C16_bounds ops).2, C16_bootstrap_at_floor ops⟩

/-- `C16_entry_is_run` / `C16_bounds_ctl`: a reachable controller with an entry. -/
example :
    letI := witScalar
    let m : Ctl Rat := tickAll (tickAll [] [witConn 0 0 1000000, witConn9] 500) [witConn 13160 10 500000] 1000
    CtlReach m ∧ (m.get 7).isSome = true :=
  ⟨@CtlReach.tick Rat witScalar _ _ _ (@CtlReach.tick Rat witScalar _ _ _ (@CtlReach.empty Rat witScalar)),
   by decide +kernel⟩

/-- A link without entry (new, or collected after it vanished) that occurs once in the call: its
entry after the call is one loop body from the default state; it is within bounds and not below the
default target 100000 (nothing is "lowered" on a fresh entry).  Every scalar, every controller. -/
theorem C16_fresh_entry_ctl (m : Ctl F) (pre post : List (ConnIn F)) (c : ConnIn F) (now : Nat)
    (hg : m.get c.id = none) (hpre : ∀ d ∈ pre, d.id ≠ c.id) (hpost : ∀ d ∈ post, d.id ≠ c.id) :
    let s' := connStep (St.default : St F) c now
    (tickAll m (pre ++ c :: post) now).get c.id = some s' ∧ (St.default : St F).target = 100000 ∧
    100000 ≤ s'.target ∧ s'.target ≤ 200000000 ∧ (s'.state = .bootstrap → s'.target = 100000) := by
  intro s'
  have hr : s' = run ([] ++ connOps c now) := connStep_run [] c now
  refine ⟨C16_gc_restart m pre post c now hg hpre hpost, rfl, ?_⟩
  rw [hr]
  exact ⟨(C16_bounds _).1, (C16_bounds _).2, C16_bootstrap_at_floor _⟩

/-- `C16_fresh_entry_ctl`: link 7 has no entry in the empty controller and occurs once in the call. -/
example :
    (Ctl.get ([] : Ctl Rat) (witConn 0 0 1000000).id = none) ∧
    (∀ d ∈ ([] : List (ConnIn Rat)), d.id ≠ (witConn 0 0 1000000).id) ∧
    (∀ d ∈ [witConn9], d.id ≠ (witConn 0 0 1000000).id) := by
  refine ⟨rfl, by simp, by simp [witConn9, witConn]⟩

end ctl

/-! ## Exact arithmetic: the clauses about the value of the cap -/

section exact
variable (e : Rat → Rat) (fin : Rat → Bool) (infv : Rat)

/-- At the floor, in Bootstrap, until an RTT sample is accepted (finite and > 0).
Every history, exact arithmetic (only `0.0 == 0.0` is used). -/
theorem C16_floor_until_rtt (ops : List (Op Rat))
    (h : ∀ x now, Op.rtt x now ∈ ops → @rttAccepted Rat (ratScalar e fin infv) x = false) :
    (@run Rat (ratScalar e fin infv) ops).target = 100000 ∧
    (@run Rat (ratScalar e fin infv) ops).state = .bootstrap := by
  suffices H : ∀ (ops : List (Op Rat)) (s : St Rat),
      (∀ x now, Op.rtt x now ∈ ops → @rttAccepted Rat (ratScalar e fin infv) x = false) →
      s.rttEwma = 0 ∧ s.target = 100000 ∧ s.state = .bootstrap →
      (ops.foldl (@apply Rat (ratScalar e fin infv)) s).rttEwma = 0 ∧
      (ops.foldl (@apply Rat (ratScalar e fin infv)) s).target = 100000 ∧
      (ops.foldl (@apply Rat (ratScalar e fin infv)) s).state = .bootstrap by
    have := H ops (@St.default Rat (ratScalar e fin infv)) h (by simp [St.default, zero, Scalar.ofNat])
    exact ⟨this.2.1, this.2.2⟩
  intro ops
  induction ops with
  | nil => intro s _ hs; exact hs
  | cons op ops ih =>
    intro s hh hs
    apply ih _ (fun x now hm => hh x now (List.mem_cons_of_mem _ hm))
    obtain ⟨h0, h1, h2⟩ := hs
    cases op with
    | rtt x now =>
      have hx := hh x now (List.mem_cons_self)
      have : @recordRtt Rat (ratScalar e fin infv) s x now = s := by simp [recordRtt, hx]
      simp only [apply, this]; exact ⟨h0, h1, h2⟩
    | traffic bt n now =>
      obtain ⟨kt, ks, -⟩ := keeps_observeTraffic s bt n now
      have er : (observeTraffic s bt n now).rttEwma = s.rttEwma := by
        simp only [observeTraffic, recordLoss, evictExpired]; repeat' split
        all_goals rfl
      simp only [apply, kt, ks, er]; exact ⟨h0, h1, h2⟩
    | loss sn l now => exact ⟨h0, h1, h2⟩
    | tick o now =>
      have hn : @noRtt Rat (ratScalar e fin infv) (evictExpired s now) = true := by
        have e0 : (evictExpired s now).rttEwma = s.rttEwma := rfl
        simp [noRtt, Scalar.beq, zero, Scalar.ofNat, e0, h0]
      obtain ⟨a, b, -, -, -, c⟩ := @tick_boot Rat (ratScalar e fin infv) s o now hn
      simp only [apply]; exact ⟨c.trans h0, b, a⟩

variable (hfin : ∀ x : Rat, 0 < x → fin x = true)
include hfin

/-- Once out of Bootstrap the controller never returns to it, so the target is seeded from measured
throughput at most once per link lifetime (exact arithmetic; positive numbers are finite). -/
theorem C16_seed_once (ops : List (Op Rat)) (op : Op Rat)
    (h : (@run Rat (ratScalar e fin infv) ops).state ≠ .bootstrap) :
    (@apply Rat (ratScalar e fin infv) (@run Rat (ratScalar e fin infv) ops) op).state ≠ .bootstrap := by
  generalize hs : @run Rat (ratScalar e fin infv) ops = s at h
  have hi : InvR s := hs ▸ invR_run e fin infv ops
  cases op with
  | rtt x now =>
    have := (@keeps_recordRtt Rat (ratScalar e fin infv) s x now).2.1
    simp only [apply, this]; exact h
  | traffic bt n now =>
    have := (keeps_observeTraffic s bt n now).2.1
    simp only [apply, this]; exact h
  | loss sn l now => exact h
  | tick o now =>
    have hn := noRtt_false_of_left e fin infv hfin s hi h now
    exact (@tick_run Rat (ratScalar e fin infv) s o now hn).2.2.2.2.1

/-- The target is lowered only by a loss back-off — to no less than ⌊0.85·t⌋, no less than the
delivered rate `min observed t`, never raising — or on *entry* to Drain, to exactly
`max ⌊0.75·t⌋ 100000`.  Every history, every tick, exact arithmetic. -/
theorem C16_lowered_only_by (ops : List (Op Rat)) (obs now : Nat) :
    let s := @run Rat (ratScalar e fin infv) ops
    let s' := @tick Rat (ratScalar e fin infv) s obs now
    s'.target < s.target →
      (s'.state = .backingOff ∧ s'.target ≤ s.target ∧ s.target * 850 / 1000 ≤ s'.target ∧
        min obs s.target ≤ s'.target) ∨
      (s'.state = .drain ∧ s.state ≠ .drain ∧ s'.target = max (s.target * 750 / 1000) 100000) := by
  intro s s' hlt
  have es : s = @run Rat (ratScalar e fin infv) ops := rfl
  have es' : s' = @tick Rat (ratScalar e fin infv) s obs now := rfl
  clear_value s' s
  have hinv : Inv s := es ▸ @inv_run Rat (ratScalar e fin infv) ops
  have hi : InvR s := es ▸ invR_run e fin infv ops
  by_cases hb : s.state = .bootstrap
  · have := hinv.2.2 hb
    have := (@inv_tick Rat (ratScalar e fin infv) s obs now).1
    rw [← es'] at this
    omega
  · have hn := noRtt_false_of_left e fin infv hfin s hi hb now
    have k := tick_target_R e fin infv s obs now hinv hn
    simp only [hb, if_false] at k
    rw [← es'] at k
    obtain ⟨k1, k2, kne, kc, kh, kb, kd⟩ := k
    have hcases : ∀ st : CcState, st = .bootstrap ∨ st = .climbing ∨ st = .holding ∨ st = .backingOff ∨ st = .drain := by
      intro st; cases st <;> simp
    rcases hcases s'.state with c | c | c | c | c
    · exact absurd c kne
    · have := (kc c).1; omega
    · have := kh c; omega
    · left
      obtain ⟨a, b, d⟩ := kb c
      refine ⟨c, a, b, ?_⟩
      omega
    · right
      by_cases hd : s.state = .drain
      · have := (kd c).1 hd; omega
      · exact ⟨c, hd, (kd c).2 hd⟩

/-- After the initial seeding (state ≠ Bootstrap) the target grows per tick by at most 6 %, only in
Climbing, and a grown target is at most twice the measured rate (even twice the outlier-clamped
rate `min observed (4·max t 1e6)`).  Every history, every tick, exact arithmetic. -/
theorem C16_growth (ops : List (Op Rat)) (obs now : Nat) :
    let s := @run Rat (ratScalar e fin infv) ops
    let s' := @tick Rat (ratScalar e fin infv) s obs now
    s.state ≠ .bootstrap →
      s'.target * 1000 ≤ s.target * 1060 ∧
      (s.target < s'.target → s'.state = .climbing ∧ s'.target ≤ 2 * obs ∧
        s'.target ≤ 2 * min obs (4 * max s.target 1000000)) := by
  intro s s' hb
  have es : s = @run Rat (ratScalar e fin infv) ops := rfl
  have es' : s' = @tick Rat (ratScalar e fin infv) s obs now := rfl
  clear_value s' s
  have hinv : Inv s := es ▸ @inv_run Rat (ratScalar e fin infv) ops
  have hi : InvR s := es ▸ invR_run e fin infv ops
  have hn := noRtt_false_of_left e fin infv hfin s hi hb now
  have k := tick_target_R e fin infv s obs now hinv hn
  simp only [hb, if_false] at k
  rw [← es'] at k
  obtain ⟨k1, k2, kne, kc, kh, kb, kd⟩ := k
  have hcases : ∀ st : CcState, st = .bootstrap ∨ st = .climbing ∨ st = .holding ∨ st = .backingOff ∨ st = .drain := by
    intro st; cases st <;> simp
  rcases hcases s'.state with c | c | c | c | c
  · exact absurd c kne
  · obtain ⟨a, b, d⟩ := kc c
    refine ⟨b, fun hg => ⟨c, ?_, d hg⟩⟩
    have := d hg; omega
  · have := kh c; omega
  · obtain ⟨a, b, d⟩ := kb c; omega
  · by_cases hd : s.state = .drain
    · have := (kd c).1 hd; omega
    · have := (kd c).2 hd; omega

/-- Non-vacuity of the lowering clauses: with exact arithmetic a Drain entry at 2 Mbit/s yields
exactly 1.5 Mbit/s, and at 120 kbit/s it is floored at 100 kbit/s. -/
example : @tickTarget Rat (ratScalar e fin infv) .drain .climbing .normal 2000000 0 = 1500000 ∧
    @tickTarget Rat (ratScalar e fin infv) .drain .holding .normal 120000 0 = 100000 := by
  rw [tickTarget_drain_entry_R e fin infv _ _ _ _ (by simp) (by omega) (by omega),
    tickTarget_drain_entry_R e fin infv _ _ _ _ (by simp) (by omega) (by omega)]
  omega

/-- Non-vacuity of the hypothesis `∀ x > 0, fin x`: the instance whose `∞` token is −1. -/
example : ∀ x : Rat, 0 < x → (fun x : Rat => decide (x ≠ -1)) x = true := by
  intro x hx; simp; grind

end exact

/-! ## Exact arithmetic at controller level: lowering / growth rules over `tick_all` -/

section exact_ctl
variable (e : Rat → Rat) (fin : Rat → Bool) (infv : Rat)
variable (hfin : ∀ x : Rat, 0 < x → fin x = true)
include hfin

/-- `C16_lowered_only_by` for one loop body of `tick_all` applied to a history state: the RTT sample
and the counter snapshot do not move the target, the tick obeys the lowering rule; `observed` is
`current_bitrate_bps.max(0.0) as u64`. -/
theorem C16_lowered_only_by_step (ops : List (Op Rat)) (c : ConnIn Rat) (now : Nat) :
    letI := ratScalar e fin infv
    let s := run ops
    let s' := connStep s c now
    let obs := Scalar.toU64 (fmax c.bitrate zero)
    s'.target < s.target →
      (s'.state = .backingOff ∧ s'.target ≤ s.target ∧ s.target * 850 / 1000 ≤ s'.target ∧
        min obs s.target ≤ s'.target) ∨
      (s'.state = .drain ∧ s.state ≠ .drain ∧ s'.target = max (s.target * 750 / 1000) 100000) := by
  intro s s' obs
  have es' : s' = @tick Rat (ratScalar e fin infv)
      (@run Rat (ratScalar e fin infv) (ops ++ @connPre Rat (ratScalar e fin infv) c now)) obs now := by
    simp only [s', s]
    rw [@connStep_eq_tick Rat (ratScalar e fin infv), @connPre_run Rat (ratScalar e fin infv)]
    rfl
  obtain ⟨kt, ks, -⟩ := @keeps_connPre Rat (ratScalar e fin infv) s c now
  rw [@connPre_run Rat (ratScalar e fin infv)] at kt ks
  have k := C16_lowered_only_by e fin infv hfin (ops ++ @connPre Rat (ratScalar e fin infv) c now) obs now
  simp only [← es', kt, ks] at k
  exact k

/-- `C16_growth` for one loop body of `tick_all` applied to a history state. -/
theorem C16_growth_step (ops : List (Op Rat)) (c : ConnIn Rat) (now : Nat) :
    letI := ratScalar e fin infv
    let s := run ops
    let s' := connStep s c now
    let obs := Scalar.toU64 (fmax c.bitrate zero)
    s.state ≠ .bootstrap →
      s'.target * 1000 ≤ s.target * 1060 ∧
      (s.target < s'.target → s'.state = .climbing ∧ s'.target ≤ 2 * obs ∧
        s'.target ≤ 2 * min obs (4 * max s.target 1000000)) := by
  intro s s' obs
  have es' : s' = @tick Rat (ratScalar e fin infv)
      (@run Rat (ratScalar e fin infv) (ops ++ @connPre Rat (ratScalar e fin infv) c now)) obs now := by
    simp only [s', s]
    rw [@connStep_eq_tick Rat (ratScalar e fin infv), @connPre_run Rat (ratScalar e fin infv)]
    rfl
  obtain ⟨kt, ks, -⟩ := @keeps_connPre Rat (ratScalar e fin infv) s c now
  rw [@connPre_run Rat (ratScalar e fin infv)] at kt ks
  have k := C16_growth e fin infv hfin (ops ++ @connPre Rat (ratScalar e fin infv) c now) obs now
  simp only [← es', kt, ks] at k
  exact k

/-- Lowering rule at controller level: for a controller reachable from the empty map, a link that
has an entry `s` and occurs once in the `tick_all` call (`conns = pre ++ c :: post`): its entry
after the call is `s'` and `s'.target < s.target` only by a loss back-off (≥ ⌊0.85·t⌋, ≥ the
delivered rate `min observed t`, ≤ t) or on entry to Drain (= `max ⌊0.75·t⌋ 100000`).  Exact
arithmetic.  (Ids may repeat in *earlier* calls and among the other links of this call.) -/
theorem C16_lowered_only_by_ctl (m : Ctl Rat) (hm : @CtlReach Rat (ratScalar e fin infv) m)
    (pre post : List (ConnIn Rat)) (c : ConnIn Rat) (now : Nat) (s : St Rat)
    (hg : m.get c.id = some s) (hpre : ∀ d ∈ pre, d.id ≠ c.id) (hpost : ∀ d ∈ post, d.id ≠ c.id) :
    letI := ratScalar e fin infv
    let s' := connStep s c now
    let obs := Scalar.toU64 (fmax c.bitrate zero)
    (tickAll m (pre ++ c :: post) now).get c.id = some s' ∧
    (s'.target < s.target →
      (s'.state = .backingOff ∧ s'.target ≤ s.target ∧ s.target * 850 / 1000 ≤ s'.target ∧
        min obs s.target ≤ s'.target) ∨
      (s'.state = .drain ∧ s.state ≠ .drain ∧ s'.target = max (s.target * 750 / 1000) 100000)) := by
  obtain ⟨ops, rfl⟩ := @CtlReach.entry_run Rat (ratScalar e fin infv) m hm c.id s hg
  exact ⟨@C16_gc_kept Rat (ratScalar e fin infv) m pre post c now _ hg hpre hpost,
    C16_lowered_only_by_step e fin infv hfin ops c now⟩

/-- Growth rule at controller level (same setting): once the entry has left Bootstrap, a `tick_all`
call raises its target by at most 6 %, only in Climbing, and a grown target is at most twice the
observed rate. -/
theorem C16_growth_ctl (m : Ctl Rat) (hm : @CtlReach Rat (ratScalar e fin infv) m)
    (pre post : List (ConnIn Rat)) (c : ConnIn Rat) (now : Nat) (s : St Rat)
    (hg : m.get c.id = some s) (hpre : ∀ d ∈ pre, d.id ≠ c.id) (hpost : ∀ d ∈ post, d.id ≠ c.id) :
    letI := ratScalar e fin infv
    let s' := connStep s c now
    let obs := Scalar.toU64 (fmax c.bitrate zero)
    (tickAll m (pre ++ c :: post) now).get c.id = some s' ∧
    (s.state ≠ .bootstrap →
      s'.target * 1000 ≤ s.target * 1060 ∧
      (s.target < s'.target → s'.state = .climbing ∧ s'.target ≤ 2 * obs ∧
        s'.target ≤ 2 * min obs (4 * max s.target 1000000))) := by
  obtain ⟨ops, rfl⟩ := @CtlReach.entry_run Rat (ratScalar e fin infv) m hm c.id s hg
  exact ⟨@C16_gc_kept Rat (ratScalar e fin infv) m pre post c now _ hg hpre hpost,
    C16_growth_step e fin infv hfin ops c now⟩

/-- Seeding at controller level: an entry of a reachable controller that has left Bootstrap is not
back in Bootstrap after a `tick_all` call, so it is seeded from measured throughput at most once
while the link stays present (a vanished link is collected and restarts, `C16_fresh_entry_ctl`). -/
theorem C16_seed_once_ctl (m : Ctl Rat) (hm : @CtlReach Rat (ratScalar e fin infv) m)
    (pre post : List (ConnIn Rat)) (c : ConnIn Rat) (now : Nat) (s : St Rat)
    (hg : m.get c.id = some s) (hpre : ∀ d ∈ pre, d.id ≠ c.id) (hpost : ∀ d ∈ post, d.id ≠ c.id) :
    letI := ratScalar e fin infv
    let s' := connStep s c now
    (tickAll m (pre ++ c :: post) now).get c.id = some s' ∧
    (s.state ≠ .bootstrap → s'.state ≠ .bootstrap) := by
  obtain ⟨ops, rfl⟩ := @CtlReach.entry_run Rat (ratScalar e fin infv) m hm c.id _ hg
  refine ⟨@C16_gc_kept Rat (ratScalar e fin infv) m pre post c now _ hg hpre hpost, fun hb => ?_⟩
  obtain ⟨-, ks, -⟩ := @keeps_connPre Rat (ratScalar e fin infv) (@run Rat (ratScalar e fin infv) ops) c now
  rw [@connPre_run Rat (ratScalar e fin infv)] at ks
  have k := C16_seed_once e fin infv hfin (ops ++ @connPre Rat (ratScalar e fin infv) c now)
    (.tick (@connObs Rat (ratScalar e fin infv) c) now) (by rw [ks]; exact hb)
  rw [@connStep_eq_tick Rat (ratScalar e fin infv), @connPre_run Rat (ratScalar e fin infv)]
  exact k

end exact_ctl

/-- Hypotheses of `C16_lowered_only_by_ctl` met with a cap that is in fact lowered. -/
example :
    letI := witScalar
    let c1 := witConn 0 0 1000000
    let c2 := witConn 13160 10 500000
    let m1 : Ctl Rat := tickAll [] ([] ++ c1 :: [witConn9]) 500
    let s := connStep St.default c1 500
    CtlReach m1 ∧ m1.get c2.id = some s ∧ (connStep s c2 1000).target < s.target ∧
      (∀ d ∈ [witConn9], d.id ≠ c2.id) :=
  ⟨@CtlReach.tick Rat witScalar _ _ _ (@CtlReach.empty Rat witScalar),
   @C16_gc_restart Rat witScalar [] [] [witConn9] (witConn 0 0 1000000) 500 rfl (by simp)
     (by simp [witConn9, witConn]),
   by decide +kernel, by simp [witConn9, witConn]⟩

/-- Hypotheses of `C16_growth_ctl` met with a cap that in fact grows (by the full 6 %). -/
example :
    letI := witScalar
    let c1 := witConn 0 0 1000000
    let c2 := witConn 13160 0 2000000
    let m1 : Ctl Rat := tickAll [] ([] ++ c1 :: []) 500
    let s := connStep St.default c1 500
    CtlReach m1 ∧ m1.get c2.id = some s ∧ s.state ≠ .bootstrap ∧ s.target < (connStep s c2 1000).target :=
  ⟨@CtlReach.tick Rat witScalar _ _ _ (@CtlReach.empty Rat witScalar),
   @C16_gc_restart Rat witScalar [] [] [] (witConn 0 0 1000000) 500 rfl (by simp) (by simp),
   by decide +kernel, by decide +kernel⟩

/-! ## Round 4 (P-C item 1): the seeding tick

The first tick that finds an RTT estimate leaves Bootstrap: the target is first SEEDED from the
outlier-clamped measured throughput and then the state arm of that same tick is applied to the seed.
`C16_growth` assumes `s.state ≠ bootstrap` and `C16_lowered_only_by` speaks only when the target
fell, so before this section the seeding tick (e.g. 100000 → 850000 in BackingOff,
`C16_reach_backingOff`) was constrained by `C16_bounds` alone. -/
section seed
variable (e : Rat → Rat) (fin : Rat → Bool) (infv : Rat)

/-- The seeding tick, exact arithmetic, every history: when a tick takes the controller out of
Bootstrap, with `seed := min (max (min obs 4000000) 1000000) 200000000` (the observed rate clamped to
the outlier bound `4 · INITIAL_TARGET_BPS`, raised to the initial target 1 Mbit/s, capped at the
maximum — so `seed ∈ [1000000, 4000000]`), the new target lies in
`[max ⌊0.75·seed⌋ 100000, ⌊1.06·seed⌋]`, and each state arm holds RELATIVE TO `seed`: Climbing grows
from `seed` by at most 6 % and only up to twice the (clamped) measured rate, Holding is exactly
`seed`, BackingOff is in `[⌊0.85·seed⌋, seed]` and not below the delivered rate `min obs 4000000`,
Drain (always an entry here) is exactly `max ⌊0.75·seed⌋ 100000`. -/
theorem C16_seed_tick (ops : List (Op Rat)) (obs now : Nat) :
    let s := @run Rat (ratScalar e fin infv) ops
    let s' := @tick Rat (ratScalar e fin infv) s obs now
    let seed := min (max (min obs 4000000) 1000000) 200000000
    s.state = .bootstrap → s'.state ≠ .bootstrap →
      1000000 ≤ seed ∧ seed ≤ 4000000 ∧
      max (seed * 750 / 1000) 100000 ≤ s'.target ∧ s'.target ≤ seed * 1060 / 1000 ∧
      (s'.state = .climbing → seed ≤ s'.target ∧ s'.target * 1000 ≤ seed * 1060 ∧
        (seed < s'.target → s'.target ≤ 2 * min obs 4000000)) ∧
      (s'.state = .holding → s'.target = seed) ∧
      (s'.state = .backingOff → s'.target ≤ seed ∧ seed * 850 / 1000 ≤ s'.target ∧
        min obs 4000000 ≤ s'.target) ∧
      (s'.state = .drain → s'.target = max (seed * 750 / 1000) 100000) := by
  intro s s' seed hb hne
  have es : s = @run Rat (ratScalar e fin infv) ops := rfl
  have es' : s' = @tick Rat (ratScalar e fin infv) s obs now := rfl
  clear_value s' s
  have hinv : Inv s := es ▸ @inv_run Rat (ratScalar e fin infv) ops
  have ht0 : s.target = 100000 := hinv.2.2 hb
  have hn : @noRtt Rat (ratScalar e fin infv) (@evictExpired Rat s now) = false := by
    cases hc : @noRtt Rat (ratScalar e fin infv) (@evictExpired Rat s now)
    · rfl
    · exact absurd ((@tick_boot Rat (ratScalar e fin infv) s obs now hc).1) (es' ▸ hne)
  have k := tick_target_R e fin infv s obs now hinv hn
  simp only [hb, if_true, ht0] at k
  rw [← es'] at k
  have hso : min obs (4 * max 100000 1000000) = min obs 4000000 := by omega
  rw [hso] at k
  have hseed : seedTarget (min obs 4000000) = seed := (seedTarget_bounds _).2.2
  rw [hseed] at k
  obtain ⟨k1, k2, kne, kc, kh, kb, kd⟩ := k
  have hs1 : 1000000 ≤ seed := by omega
  have hs2 : seed ≤ 4000000 := by omega
  have hdne : CcState.bootstrap ≠ CcState.drain := by simp
  have hs3 : min obs 4000000 ≤ seed := by omega
  have hcases : ∀ st : CcState, st = .bootstrap ∨ st = .climbing ∨ st = .holding ∨ st = .backingOff ∨ st = .drain := by
    intro st; cases st <;> simp
  clear_value seed
  refine ⟨hs1, hs2, ?_, ?_, ?_, ?_, ?_, ?_⟩
  · rcases hcases s'.state with c | c | c | c | c
    · exact absurd c kne
    · have := (kc c).1; omega
    · have := kh c; omega
    · have := (kb c).2.1; omega
    · have := (kd c).2 hdne; omega
  · rcases hcases s'.state with c | c | c | c | c
    · exact absurd c kne
    · have := (kc c).2.1; omega
    · have := kh c; omega
    · have := (kb c).1; omega
    · have := (kd c).2 hdne; omega
  · intro c; exact kc c
  · intro c; exact kh c
  · intro c
    obtain ⟨a, b, d⟩ := kb c
    refine ⟨a, b, ?_⟩
    omega
  · intro c; exact (kd c).2 hdne

/-- `C16_seed_tick` for one loop body of `tick_all` applied to a history state: the RTT sample and
the counter snapshot of the body do not change `state`, and the body's tick is the seeding tick. -/
theorem C16_seed_tick_step (ops : List (Op Rat)) (c : ConnIn Rat) (now : Nat) :
    letI := ratScalar e fin infv
    let s := run ops
    let s' := connStep s c now
    let obs := Scalar.toU64 (fmax c.bitrate zero)
    let seed := min (max (min obs 4000000) 1000000) 200000000
    s.state = .bootstrap → s'.state ≠ .bootstrap →
      max (seed * 750 / 1000) 100000 ≤ s'.target ∧ s'.target ≤ seed * 1060 / 1000 ∧
      (s'.state = .climbing → seed ≤ s'.target ∧ s'.target * 1000 ≤ seed * 1060 ∧
        (seed < s'.target → s'.target ≤ 2 * min obs 4000000)) ∧
      (s'.state = .holding → s'.target = seed) ∧
      (s'.state = .backingOff → s'.target ≤ seed ∧ seed * 850 / 1000 ≤ s'.target ∧
        min obs 4000000 ≤ s'.target) ∧
      (s'.state = .drain → s'.target = max (seed * 750 / 1000) 100000) := by
  intro s s' obs seed
  have es' : s' = @tick Rat (ratScalar e fin infv)
      (@run Rat (ratScalar e fin infv) (ops ++ @connPre Rat (ratScalar e fin infv) c now)) obs now := by
    simp only [s', s]
    rw [@connStep_eq_tick Rat (ratScalar e fin infv), @connPre_run Rat (ratScalar e fin infv)]
    rfl
  obtain ⟨-, ks, -⟩ := @keeps_connPre Rat (ratScalar e fin infv) s c now
  rw [@connPre_run Rat (ratScalar e fin infv)] at ks
  have k := C16_seed_tick e fin infv (ops ++ @connPre Rat (ratScalar e fin infv) c now) obs now
  simp only [← es', ks] at k
  intro hb hne
  exact (k hb hne).2.2

/-- `C16_seed_tick` at controller level: for a controller reachable from the empty map and a link
that occurs once in the `tick_all` call, WITH OR WITHOUT an entry (a link seen for the first time, or
collected after it vanished, starts from the default state, which is in Bootstrap): if the state the
loop body starts from is in Bootstrap and the entry after the call is not, the new target obeys the
seeding envelope relative to `seed`. -/
theorem C16_seed_tick_ctl (m : Ctl Rat) (hm : @CtlReach Rat (ratScalar e fin infv) m)
    (pre post : List (ConnIn Rat)) (c : ConnIn Rat) (now : Nat)
    (hpre : ∀ d ∈ pre, d.id ≠ c.id) (hpost : ∀ d ∈ post, d.id ≠ c.id) :
    letI := ratScalar e fin infv
    let s := (m.get c.id).getD St.default
    let s' := connStep s c now
    let obs := Scalar.toU64 (fmax c.bitrate zero)
    let seed := min (max (min obs 4000000) 1000000) 200000000
    (tickAll m (pre ++ c :: post) now).get c.id = some s' ∧
    (s.state = .bootstrap → s'.state ≠ .bootstrap →
      max (seed * 750 / 1000) 100000 ≤ s'.target ∧ s'.target ≤ seed * 1060 / 1000 ∧
      (s'.state = .climbing → seed ≤ s'.target ∧ s'.target * 1000 ≤ seed * 1060 ∧
        (seed < s'.target → s'.target ≤ 2 * min obs 4000000)) ∧
      (s'.state = .holding → s'.target = seed) ∧
      (s'.state = .backingOff → s'.target ≤ seed ∧ seed * 850 / 1000 ≤ s'.target ∧
        min obs 4000000 ≤ s'.target) ∧
      (s'.state = .drain → s'.target = max (seed * 750 / 1000) 100000)) := by
  obtain ⟨ops, hops⟩ := @CtlReach.getD_run Rat (ratScalar e fin infv) m hm c.id
  refine ⟨@tickAll_get_present Rat (ratScalar e fin infv) m pre post c now hpre hpost, ?_⟩
  rw [hops]
  exact C16_seed_tick_step e fin infv ops c now

end seed

/-- Non-vacuity of `C16_seed_tick` on the witness of `C16_reach_backingOff`: the state before the tick
is Bootstrap at the floor, the tick (observed 500 kbit/s, 100 % loss) leaves Bootstrap into BackingOff;
`seed = 1000000` and the new target is `⌊0.85·seed⌋ = 850000` — inside
`[max ⌊0.75·seed⌋ 100000, ⌊1.06·seed⌋] = [750000, 1060000]`, NOT within 6 % of the old target 100000. -/
example :
    letI := witScalar
    let ops : List (Op Rat) := [.rtt 10 1, .loss 10 10 1000]
    (run ops).state = .bootstrap ∧ (run ops).target = 100000 ∧
    (tick (run ops) 500000 1000).state = .backingOff ∧ (tick (run ops) 500000 1000).target = 850000 ∧
    min (max (min 500000 4000000) 1000000) 200000000 = 1000000 := by decide +kernel

/-- … and a seeding tick into Climbing with a burst (observed 9 Mbit/s, clamped to 4 Mbit/s):
`seed = 4000000`, new target `⌊1.06·seed⌋ = 4240000`. -/
example :
    letI := witScalar
    let ops : List (Op Rat) := [.rtt 10 1]
    (run ops).state = .bootstrap ∧
    (tick (run ops) 9000000 500).state = .climbing ∧ (tick (run ops) 9000000 500).target = 4240000 ∧
    min (max (min 9000000 4000000) 1000000) 200000000 = 4000000 := by decide +kernel

/-- `C16_seed_tick_ctl` on a link without entry: the empty controller, link 7 once in the call; the
body starts from the default state (Bootstrap) and ends in Climbing at `⌊1.06·1000000⌋`. -/
example :
    letI := witScalar
    ((Ctl.get ([] : Ctl Rat) 7).getD St.default).state = .bootstrap ∧
    (connStep ((Ctl.get ([] : Ctl Rat) 7).getD St.default) (witConn 0 0 1000000) 500).state = .climbing ∧
    (connStep ((Ctl.get ([] : Ctl Rat) 7).getD St.default) (witConn 0 0 1000000) 500).target = 1060000 := by
  decide +kernel

/-! ## Round 4 (P-C item 2): controller level — which history an entry is the state of

`C16_entry_is_run` says every entry of a reachable controller is `run ops` for SOME op list.  Here the
op list is identified: index the controller by the `tick_all` calls that produced it (`ctlOf calls`,
oldest first; every `CtlReach` controller is one, `C16_reach_is_calls`); the entry of key `id` is
`run` of the concatenation of `connOps c now` (RTT sample if `> 0.0`, counter snapshot, tick) over
exactly the inputs `c` with `c.id = id` of the calls since the entry was (re)created (`Session`: the
maximal suffix of calls that all contain `id`).  With that, the three run-level theorems whose
hypotheses mention the ops — floor until an RTT sample, latch set, latch clear — get `tick_all`
forms whose hypotheses mention the INPUTS of the calls. -/
section session
variable {F : Type} [Scalar F]

/-- `CtlReach` = "is `ctlOf calls` for some list of calls". -/
theorem C16_reach_is_calls (m : Ctl F) : CtlReach m ↔ ∃ calls : List (Call F), m = ctlOf calls :=
  ⟨fun h => h.exists_calls, fun ⟨calls, h⟩ => h ▸ ctlOf_reach calls⟩

/-- **Strengthened `C16_entry_is_run`.** Every entry of a reachable controller: the calls split as
`pre ++ suf` with the entry absent after `pre` (no call yet, or the last call of `pre` lacks `id`:
garbage-collected), every call of the non-empty `suf` containing `id`, and the entry is the state
after exactly the loop bodies of the inputs with that id in `suf`, in call order. -/
theorem C16_entry_is_session_run (m : Ctl F) (hm : CtlReach m) (id : Nat) (s : St F) (hg : m.get id = some s) :
    ∃ pre suf : List (Call F), m = ctlOf (pre ++ suf) ∧ Session id pre suf ∧
      s = run (sessionOps id suf) ∧
      sessionOps id suf = suf.flatMap (fun call => (call.1.filter (·.id == id)).flatMap (connOps · call.2)) := by
  obtain ⟨pre, suf, h1, h2, h3⟩ := hm.entry_session id s hg
  exact ⟨pre, suf, h1, h2, h3, rfl⟩

/-- … and conversely every session determines the entry. -/
theorem C16_session_entry (id : Nat) (pre suf : List (Call F)) (hS : Session id pre suf) :
    (ctlOf (pre ++ suf)).get id = some (run (sessionOps id suf)) :=
  ctlOf_get_session id pre suf hS

/-- The setting of the two latch theorems below: a session, then one more call in which `id` occurs
once.  The entry before is `s = run (sessionOps id suf)`, after the call `connStep s c now`. -/
theorem C16_session_step (id : Nat) (pre suf : List (Call F)) (hS : Session id pre suf)
    (cpre cpost : List (ConnIn F)) (c : ConnIn F) (now : Nat) (hid : c.id = id)
    (hpre : ∀ d ∈ cpre, d.id ≠ id) (hpost : ∀ d ∈ cpost, d.id ≠ id) :
    let s := run (sessionOps id suf)
    (ctlOf (pre ++ suf)).get id = some s ∧
    (ctlOf (pre ++ (suf ++ [(cpre ++ c :: cpost, now)]))).get id = some (connStep s c now) ∧
    connStep s c now = run (sessionOps id suf ++ connOps c now) := by
  intro s
  have hh : hasId id (cpre ++ c :: cpost, now) = true := by simp [hasId, hid]
  have h2 := ctlOf_get_session id pre _ (session_snoc id pre suf hS _ hh)
  have e : sessionOps id (suf ++ [(cpre ++ c :: cpost, now)]) = sessionOps id suf ++ connOps c now := by
    simp only [sessionOps, List.flatMap_append, List.flatMap_cons, List.flatMap_nil, List.append_nil]
    rw [callOps_once id cpre cpost c now hid hpre hpost]
  rw [e] at h2
  exact ⟨ctlOf_get_session id pre suf hS, by rw [h2, connStep_run], connStep_run _ c now⟩

/-- **`C16_latch_set` over `tick_all`.**  For the entry of `id` in a reachable controller (session
`suf`) and one more call in which `id` occurs once: if the verdict was not latched before the call and
is latched after it, then the ghost trace of ALL loss-EWMA evaluations of this link since it was
(re)created — `(now, ewma)` of every call of the session whose tick got past Bootstrap, newest first
— starts with this call's evaluation, which compared `> 0.55`, followed by a run of evaluations that
all compared `> 0.55` whose oldest is at least 4000 ms older.  Every scalar instance. -/
theorem C16_latch_set_ctl (id : Nat) (pre suf : List (Call F)) (hS : Session id pre suf)
    (cpre cpost : List (ConnIn F)) (c : ConnIn F) (now : Nat) (hid : c.id = id)
    (hpre : ∀ d ∈ cpre, d.id ≠ id) (hpost : ∀ d ∈ cpost, d.id ≠ id) :
    let s := run (sessionOps id suf)
    let s' := connStep s c now
    let tr' := (runG (sessionOps id suf ++ connOps c now) (St.default, [])).2
    (ctlOf (pre ++ suf)).get id = some s ∧
    (ctlOf (pre ++ (suf ++ [(cpre ++ c :: cpost, now)]))).get id = some s' ∧
    (s.lossDegraded = false → s'.lossDegraded = true →
      ∃ hrun rest first, tr' = (now, s'.lossEwma) :: (hrun ++ first :: rest) ∧
        High s'.lossEwma ∧ (∀ p ∈ hrun, High p.2) ∧ High first.2 ∧ now - first.1 ≥ 4000) := by
  intro s s' tr'
  obtain ⟨g1, g2, -⟩ := C16_session_step id pre suf hS cpre cpost c now hid hpre hpost
  refine ⟨g1, g2, ?_⟩
  intro h0 h1
  have k := C16_latch_set (sessionOps id suf ++ connPre c now) (connObs c) now
  simp only [] at k
  have e1 : (runG (sessionOps id suf ++ connPre c now) (St.default, [])).1 =
      (connPre c now).foldl apply s := by
    rw [C16_ghost_run, ← connPre_run]
  have e2 : tick ((connPre c now).foldl apply s) (connObs c) now = s' := (connStep_eq_tick s c now).symm
  have e3 : tr' = traceStep ((connPre c now).foldl apply s) (.tick (connObs c) now)
      (runG (sessionOps id suf ++ connPre c now) (St.default, [])).2 := by
    simp only [tr', connOps]
    rw [← List.append_assoc, runG_append]
    generalize hp : runG (sessionOps id suf ++ connPre c now) (St.default, []) = p at e1
    obtain ⟨s1, tr1⟩ := p
    simp only [runG]
    simp only at e1
    rw [e1]
  rw [e1, e2] at k
  have hk := (keeps_connPre s c now).2.2.1
  obtain ⟨hrun, rest, first, a, b, d, f, g⟩ := k (by rw [hk]; exact h0) h1
  exact ⟨hrun, rest, first, by rw [e3]; exact a, b, d, f, g⟩

/-- **`C16_latch_clear` over `tick_all`.**  Same setting: if the verdict was latched before the call
and is clear after it, then this call's tick got past the Bootstrap test (it evaluated the loss EWMA
on the state `s1` left by the body's RTT sample and counter snapshot) and the EWMA compared `< 0.25`
(and not `> 0.55`).  Every scalar instance. -/
theorem C16_latch_clear_ctl (id : Nat) (pre suf : List (Call F)) (hS : Session id pre suf)
    (cpre cpost : List (ConnIn F)) (c : ConnIn F) (now : Nat) (hid : c.id = id)
    (hpre : ∀ d ∈ cpre, d.id ≠ id) (hpost : ∀ d ∈ cpost, d.id ≠ id) :
    let s := run (sessionOps id suf)
    let s' := connStep s c now
    let s1 := (connPre c now).foldl apply s
    (ctlOf (pre ++ suf)).get id = some s ∧
    (ctlOf (pre ++ (suf ++ [(cpre ++ c :: cpost, now)]))).get id = some s' ∧
    (s.lossDegraded = true → s'.lossDegraded = false →
      noRtt (evictExpired s1 now) = false ∧ Low s'.lossEwma ∧ ¬ High s'.lossEwma) := by
  intro s s' s1
  obtain ⟨g1, g2, -⟩ := C16_session_step id pre suf hS cpre cpost c now hid hpre hpost
  refine ⟨g1, g2, ?_⟩
  intro h1 h2
  have e1 : run (sessionOps id suf ++ connPre c now) = s1 := (connPre_run _ c now).symm
  have e2 : tick s1 (connObs c) now = s' := (connStep_eq_tick s c now).symm
  have hk := (keeps_connPre s c now).2.2.1
  have k := C16_latch_clear (sessionOps id suf ++ connPre c now) (.tick (connObs c) now)
    (by rw [e1]; show s1.lossDegraded = true; rw [hk]; exact h1)
    (by rw [e1]; show (tick s1 (connObs c) now).lossDegraded = false; rw [e2]; exact h2)
  obtain ⟨o, now', ho, a, b, d⟩ := k
  cases ho
  rw [e1] at a b d
  rw [e2] at b d
  exact ⟨a, b, d⟩

end session

section session_exact
variable (e : Rat → Rat) (fin : Rat → Bool) (infv : Rat)

/-- **`C16_floor_until_rtt` over `tick_all`.**  Exact arithmetic.  A link whose entry was (re)created
by the session `suf` and none of whose inputs since carried a usable smoothed RTT (`> 0` and finite)
— e.g. a link that has not yet had a keepalive echo, `get_smooth_rtt_ms() = 0.0` — sits at the floor
100 kbit/s in Bootstrap, whatever its byte / NAK counters and measured bitrate did, whatever the
other links did, and whatever happened in earlier lives of the same conn id. -/
theorem C16_floor_until_rtt_ctl (id : Nat) (pre suf : List (Call Rat))
    (hS : Session (F := Rat) id pre suf)
    (hrtt : ∀ call ∈ suf, ∀ c ∈ call.1, c.id = id → ¬ (0 < c.smoothRtt ∧ fin c.smoothRtt = true)) :
    letI := ratScalar e fin infv
    ∃ s, (ctlOf (pre ++ suf)).get id = some s ∧ s.target = 100000 ∧ s.state = .bootstrap := by
  refine ⟨_, @ctlOf_get_session Rat (ratScalar e fin infv) id pre suf hS, ?_⟩
  apply C16_floor_until_rtt e fin infv
  intro x t hx
  obtain ⟨call, hc, c, hcm, hcid, hop⟩ := @mem_sessionOps Rat (ratScalar e fin infv) _ _ _ hx
  obtain ⟨rfl, -, hlt⟩ := @mem_connOps_rtt Rat (ratScalar e fin infv) _ _ _ _ hop
  have hpos : 0 < c.smoothRtt := by
    have h' : decide (((0 : Nat) : Rat) < c.smoothRtt) = true := hlt
    have := of_decide_eq_true h'
    simpa using this
  have hf : fin c.smoothRtt = false := by
    cases hfc : fin c.smoothRtt
    · rfl
    · exact absurd ⟨hpos, hfc⟩ (hrtt call hc c hcm hcid)
  simp [rttAccepted, Scalar.isFinite, hf]

/-- `C16_latch_set_ctl` with the literal numbers (exact arithmetic). -/
theorem C16_latch_set_ctl_literal (id : Nat) (pre suf : List (Call Rat))
    (hS : Session (F := Rat) id pre suf)
    (cpre cpost : List (ConnIn Rat)) (c : ConnIn Rat) (now : Nat) (hid : c.id = id)
    (hpre : ∀ d ∈ cpre, d.id ≠ id) (hpost : ∀ d ∈ cpost, d.id ≠ id) :
    letI := ratScalar e fin infv
    let s := run (sessionOps id suf)
    let s' := connStep s c now
    let tr' := (runG (sessionOps id suf ++ connOps c now) (St.default, [])).2
    s.lossDegraded = false → s'.lossDegraded = true →
      ∃ hrun rest first, tr' = (now, s'.lossEwma) :: (hrun ++ first :: rest) ∧
        (55 : Rat) / 100 < s'.lossEwma ∧ (∀ p ∈ hrun, (55 : Rat) / 100 < p.2) ∧
        (55 : Rat) / 100 < first.2 ∧ now - first.1 ≥ 4000 := by
  intro s s' tr' h0 h1
  obtain ⟨hrun, rest, first, a, b, d, f, g⟩ :=
    (@C16_latch_set_ctl Rat (ratScalar e fin infv) id pre suf hS cpre cpost c now hid hpre hpost).2.2 h0 h1
  exact ⟨hrun, rest, first, a, (High_R e fin infv _).1 b, fun p hp => (High_R e fin infv _).1 (d p hp),
    (High_R e fin infv _).1 f, g⟩

/-- `C16_latch_clear_ctl` with the literal numbers (exact arithmetic). -/
theorem C16_latch_clear_ctl_literal (id : Nat) (pre suf : List (Call Rat))
    (hS : Session (F := Rat) id pre suf)
    (cpre cpost : List (ConnIn Rat)) (c : ConnIn Rat) (now : Nat) (hid : c.id = id)
    (hpre : ∀ d ∈ cpre, d.id ≠ id) (hpost : ∀ d ∈ cpost, d.id ≠ id) :
    letI := ratScalar e fin infv
    let s := run (sessionOps id suf)
    let s' := connStep s c now
    s.lossDegraded = true → s'.lossDegraded = false →
      s'.lossEwma < (25 : Rat) / 100 ∧ ¬ ((55 : Rat) / 100 < s'.lossEwma) := by
  intro s s' h1 h2
  obtain ⟨-, b, d⟩ :=
    (@C16_latch_clear_ctl Rat (ratScalar e fin infv) id pre suf hS cpre cpost c now hid hpre hpost).2.2 h1 h2
  exact ⟨(Low_R e fin infv _).1 b, fun h => d ((High_R e fin infv _).2 h)⟩

end session_exact

/-! ### Witnesses for the session theorems (the calls of `C16_reach_ctl`) -/

/-- the first two calls of `C16_reach_ctl` -/
def witCalls : List (Call Rat) :=
  [([witConn 0 0 1000000, witConn9], 500), ([witConn 13160 10 500000], 1000)]

/-- link 7 is present in both calls: its session is the whole list -/
theorem C16_reach_session : Session (F := Rat) 7 [] witCalls :=
  ⟨by simp, by intro call hc; simp [witCalls] at hc; rcases hc with rfl | rfl <;> simp [hasId, witConn], by simp [witCalls]⟩

/-- Hypotheses of `C16_latch_set_ctl` / `_literal` met: not latched after the two calls, latched by
the third call `([witConn 26320 20 500000], 5000)`; the theorem then yields the trace decomposition
(here: this call's evaluation `(5000, 1)` on top of `first = (1000, 1)`, `hrun = []`, `rest = [(500, 0)]`
— the loss-free evaluation of the first call). -/
example :
    letI := witScalar
    let s := run (sessionOps 7 witCalls)
    (s.lossDegraded = false ∧ (connStep s (witConn 26320 20 500000) 5000).lossDegraded = true) ∧
    (runG (sessionOps 7 witCalls ++ connOps (witConn 26320 20 500000) 5000) (St.default, [])).2 =
      [(5000, 1), (1000, 1), (500, 0)] := by
  decide +kernel

example :=
  (@C16_latch_set_ctl Rat witScalar 7 [] witCalls C16_reach_session [] [] (witConn 26320 20 500000) 5000 rfl
    (by simp) (by simp)).2.2

/-- Hypotheses of `C16_latch_clear_ctl` met: three calls latch (as above), a fourth, loss-free call
6000 ms later (the 10/10 samples have left the 5 s window, EWMA 0 < 25/100) clears. -/
example :
    letI := witScalar
    let calls3 := witCalls ++ [([witConn 26320 20 500000], 5000)]
    let s := run (sessionOps 7 calls3)
    s.lossDegraded = true ∧ (connStep s (witConn 26320 20 500000) 11000).lossDegraded = false := by
  decide +kernel

/-- Hypotheses of `C16_floor_until_rtt_ctl` met by link 9 (smoothed RTT 0.0 — no sample yet) in the
first call, next to link 7, which does have an RTT and leaves Bootstrap in the same call. -/
example :
    letI := witScalar
    Session (F := Rat) 9 [] [([witConn 0 0 1000000, witConn9], 500)] ∧
    (∀ call ∈ [(([witConn 0 0 1000000, witConn9], 500) : Call Rat)], ∀ c ∈ call.1, c.id = 9 →
      ¬ (0 < c.smoothRtt ∧ (fun x : Rat => decide (x ≠ -1)) c.smoothRtt = true)) := by
  refine ⟨⟨by simp, by intro call hc; simp at hc; subst hc; simp [hasId, witConn9], by simp⟩, ?_⟩
  intro call hc c hcm hid
  simp at hc; subst hc
  simp at hcm
  rcases hcm with rfl | rfl
  · simp [witConn] at hid
  · simp [witConn9]

/-- … while after the second call of `witCalls` link 9 has vanished: no entry, and a later
re-appearance starts a NEW session (`pre` = the two calls, whose last lacks id 9). -/
example :
    letI := witScalar
    (ctlOf witCalls).get 9 = none ∧
    Session (F := Rat) 9 witCalls [([witConn9], 2000)] :=
  ⟨by decide +kernel,
   ⟨by intro last h; simp [witCalls] at h; subst h; simp [hasId, witConn],
    by intro call hc; simp at hc; subst hc; simp [hasId, witConn9], by simp⟩⟩

end Srtla.Props.C16
