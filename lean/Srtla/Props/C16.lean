import Srtla.Model.LinkCc
import Srtla.Lemmas.LinkCc
/-!
# C16 — per-link CC soft cap and loss latch stay bounded and honest

Property theorems only.  Histories are arbitrary lists of `Op` (RTT samples, cumulative counters,
direct loss samples, ticks; any values, any time stamps, also non-monotone) applied to
`LinkCongestionState::default()`; `run ops` is the state after the history.

Two levels (see `tools/props/C16.json`):

* **every scalar** (`[Scalar F]`, in particular the `Float` instance the compiled driver runs and
  that is compared bit-for-bit with the Rust code): bounds, Bootstrap-at-floor, "only `tick` moves
  the cap / the latch", the loss-degraded latch clauses (over the model's own comparisons
  `ewma > 0.55`, `ewma < 0.25`, ghost trace of all EWMA evaluations), garbage collection.
* **exact arithmetic** (`ratScalar e fin infv : Scalar Rat`, `as u64 = ⌊·⌋`, any `exp`, any
  finiteness predicate): the clauses that need the value of the float expressions — floor until an
  RTT sample, lowered only by back-off / Drain entry with the quantitative bounds, growth ≤ 6 % and
  ≤ 2× measured, seeded at most once.  IEEE rounding / overflow is *not* covered by these proofs;
  on the real code they are checked by the integer-arithmetic monitors of `harness/src/bin/linkcc.rs`.
-/
namespace Srtla.Props.C16
open Srtla.LinkCc Srtla.Gen.LinkCc

/-! ## Inductive invariant (every scalar) -/

def Inv {F : Type} (s : St F) : Prop :=
  100000 ≤ s.target ∧ s.target ≤ 200000000 ∧ (s.state = .bootstrap → s.target = 100000)

/-- what every op other than `tick` leaves untouched -/
def Keeps {F : Type} (s s' : St F) : Prop :=
  s'.target = s.target ∧ s'.state = s.state ∧ s'.lossDegraded = s.lossDegraded ∧
  s'.lossHighSince = s.lossHighSince ∧ s'.lossEwma = s.lossEwma ∧ s'.climbMode = s.climbMode

section generic
variable {F : Type} [Scalar F]

theorem keeps_updateRttMin (s : St F) (x : F) (now : Nat) : Keeps s (updateRttMin s x now) := by
  simp only [updateRttMin, Keeps]; split <;> simp

theorem keeps_recordRtt (s : St F) (x : F) (now : Nat) : Keeps s (recordRtt s x now) := by
  simp only [recordRtt]
  split
  · simp [Keeps]
  · split
    · exact keeps_updateRttMin _ x now
    · generalize hs1 : ({ s with rttEwma := _, rttVar := _ } : St F) = s1
      have k := keeps_updateRttMin s1 x now
      have e : Keeps s s1 := by subst hs1; simp [Keeps]
      simp only [Keeps] at k e ⊢
      obtain ⟨k1, k2, k3, k4, k5, k6⟩ := k
      obtain ⟨e1, e2, e3, e4, e5, e6⟩ := e
      exact ⟨k1.trans e1, k2.trans e2, k3.trans e3, k4.trans e4, k5.trans e5, k6.trans e6⟩

omit [Scalar F] in
theorem keeps_recordLoss (s : St F) (a l now : Nat) : Keeps s (recordLoss s a l now) := by
  simp [Keeps, recordLoss, evictExpired]

theorem keeps_observeTraffic (s : St F) (b : Nat) (n : Int) (now : Nat) :
    Keeps s (observeTraffic s b n now) := by
  simp only [observeTraffic, Keeps, recordLoss, evictExpired]
  repeat' split
  all_goals simp

theorem inv_tick (s : St F) (obs now : Nat) : Inv (tick s obs now) := by
  cases h : noRtt (evictExpired s now)
  · obtain ⟨-, -, -, -, hne, ht⟩ := tick_run s obs now h
    have := tickTarget_bounds (F := F) (tick s obs now).state s.state (tick s obs now).climbMode
      (if s.state = .bootstrap then seedTarget (saneObserved (F := F) s.target obs) else s.target)
      (saneObserved (F := F) s.target obs)
    rw [← ht] at this
    exact ⟨this.1, this.2, fun hb => absurd hb hne⟩
  · obtain ⟨h1, h2, -⟩ := tick_boot s obs now h
    exact ⟨by omega, by omega, fun _ => h2⟩

theorem inv_apply (s : St F) (op : Op F) (h : Inv s) : Inv (apply s op) := by
  cases op with
  | tick o now => exact inv_tick s o now
  | rtt x now =>
    obtain ⟨a, b, -⟩ := keeps_recordRtt s x now
    simp only [Inv, apply, a, b]; exact h
  | traffic bt n now =>
    obtain ⟨a, b, -⟩ := keeps_observeTraffic s bt n now
    simp only [Inv, apply, a, b]; exact h
  | loss sn l now =>
    obtain ⟨a, b, -⟩ := keeps_recordLoss s sn l now
    simp only [Inv, apply, a, b]; exact h

theorem inv_foldl (ops : List (Op F)) (s : St F) (h : Inv s) : Inv (ops.foldl apply s) := by
  induction ops generalizing s with
  | nil => exact h
  | cons op ops ih => exact ih _ (inv_apply s op h)

theorem inv_run (ops : List (Op F)) : Inv (run ops) :=
  inv_foldl ops _ (by simp [Inv, St.default])

/-! ## Bounds (every scalar, every history) -/

/-- The target stays within [100 kbit/s, 200 Mbit/s] after every history. -/
theorem C16_bounds (ops : List (Op F)) :
    100000 ≤ (run ops).target ∧ (run ops).target ≤ 200000000 :=
  ⟨(inv_run ops).1, (inv_run ops).2.1⟩

/-- Bootstrap is always at the floor. -/
theorem C16_bootstrap_at_floor (ops : List (Op F)) (h : (run ops).state = .bootstrap) :
    (run ops).target = 100000 :=
  (inv_run ops).2.2 h

/-- Only `tick` moves the cap, the state, the loss EWMA or the degraded latch: RTT samples, counter
snapshots (including counter resets) and loss samples leave them untouched. -/
theorem C16_only_tick_moves (ops : List (Op F)) (op : Op F) (h : ∀ o now, op ≠ .tick o now) :
    (apply (run ops) op).target = (run ops).target ∧ (apply (run ops) op).state = (run ops).state ∧
    (apply (run ops) op).lossDegraded = (run ops).lossDegraded := by
  cases op with
  | tick o now => exact absurd rfl (h o now)
  | rtt x now => obtain ⟨a, b, c, -⟩ := keeps_recordRtt (run ops) x now; exact ⟨a, b, c⟩
  | traffic bt n now => obtain ⟨a, b, c, -⟩ := keeps_observeTraffic (run ops) bt n now; exact ⟨a, b, c⟩
  | loss sn l now => obtain ⟨a, b, c, -⟩ := keeps_recordLoss (run ops) sn l now; exact ⟨a, b, c⟩

example : (apply (run ([] : List (Op Float))) (.loss 1000 100 5)).target = 100000 := by
  simp [run, apply, recordLoss, evictExpired, St.default]

end generic

end Srtla.Props.C16
