import Srtla.Model.Select
import Srtla.Model.Sys
import Srtla.Lemmas.SelectFrame
/-!
# C12 — the stall guard is a routing penalty only; off means baseline

`selectIdx ls last now cfg` is the model of `select_connection_idx` (stall gate, then the classic or
enhanced selector); it returns the links as the call leaves them and the decision.  It is run
bit-for-bit against the real function by component `sel`.

* `C12_frame` / `C12_frame_fields`: a routing decision changes NOTHING of a link except the
  guard-private fields (`connTimeoutMs` stamp, `stallGated`, `latchedSince`, `recoverySince`,
  `gateEvents`, `silencePulled`, `pullMark`, `silencePulls`) and the quality cache
  (`qualMult`, `qualAt`) — whatever the guard decides, in either mode, for any config.
  `Srtla.Select.frame` (Lemmas/SelectFrame.lean) is the projection onto all 23 other fields.
* `C12_counters_monotone`: the two guard counters never go backwards.
* `C12_off_clears`: guard off ⇒ every gate flag, pull and latch is cleared by the call.
* `C12_off_baseline`: guard off ⇒ the decision equals the decision on the same links with ALL stall
  history erased (`eraseStall`: gate flag, latch, recovery run, gate-event counter, probe counter,
  pull flag, heard-mark, pull counter all zero).  `C12_off_noninterference` is the inductive form:
  two states that agree up to stall history get the same decision and still agree afterwards, so the
  statement extends to every history of selections, state changes and toggles.

* Which `SrtlaConnection` fields are inside / outside `Frame` is spelled out in the section
  "What is inside and what is outside `Frame`" below; `C12_frame_shell` is the full-connection form
  for the shell model (`Model/Sys.lean` `runSelect`).

All theorems hold for every scalar type `F` and every `[Scalar F]` instance (float comparisons are
opaque Booleans): in particular for the `Float` instance the compiled driver runs.
-/
namespace Srtla.Props.C12
open Srtla.Select Srtla.Conn Srtla

variable {F : Type} [Scalar F]

/-- **Frame**: the call returns as many links as it was given, in the same order, and the
projection of every link onto its liveness / accounting fields is unchanged. -/
theorem C12_frame (ls : List (SLink F)) (last : Option Nat) (now : Nat) (cfg : Cfg) :
    (selectIdx ls last now cfg).1.length = ls.length ∧
    (selectIdx ls last now cfg).1.map frame = ls.map frame := by
  obtain ⟨g, hg, hp⟩ := selectIdx_map ls last now cfg
  rw [hg]
  refine ⟨List.length_map _, ?_⟩
  rw [List.map_map]
  exact List.map_congr_left fun c _ => (hp c).1

/-- The frame, field by field: link `i` before (`c`) and after (`c'`) the call. -/
theorem C12_frame_fields (ls : List (SLink F)) (last : Option Nat) (now : Nat) (cfg : Cfg) (i : Nat)
    (c c' : SLink F) (h : ls[i]? = some c) (h' : (selectIdx ls last now cfg).1[i]? = some c') :
    c'.connId = c.connId ∧ c'.connected = c.connected ∧ c'.phase = c.phase ∧ c'.window = c.window ∧
    c'.inFlight = c.inFlight ∧ c'.queued = c.queued ∧ c'.lastReceived = c.lastReceived ∧
    c'.lastSent = c.lastSent ∧ c'.proofMs = c.proofMs ∧ c'.established = c.established ∧
    c'.graceDeadline = c.graceDeadline ∧ c'.probeCounter = c.probeCounter ∧ c'.weak = c.weak ∧
    c'.lossDegraded = c.lossDegraded ∧ c'.ccTarget = c.ccTarget ∧ c'.srttPos = c.srttPos ∧
    c'.srttTrunc = c.srttTrunc ∧ c'.srtt = c.srtt ∧ c'.rttMin = c.rttMin ∧ c'.bitrate = c.bitrate ∧
    c'.nakCount = c.nakCount ∧ c'.lastNakMs = c.lastNakMs ∧ c'.nakBurst = c.nakBurst := by
  obtain ⟨g, hg, hp⟩ := selectIdx_map ls last now cfg
  rw [hg, List.getElem?_map, h] at h'
  have e : c' = g c := by simpa using h'.symm
  have hf : frame c' = frame c := by rw [e]; exact (hp c).1
  exact ⟨congrArg Frame.connId hf, congrArg Frame.connected hf, congrArg Frame.phase hf,
    congrArg Frame.window hf, congrArg Frame.inFlight hf, congrArg Frame.queued hf,
    congrArg Frame.lastReceived hf, congrArg Frame.lastSent hf, congrArg Frame.proofMs hf,
    congrArg Frame.established hf, congrArg Frame.graceDeadline hf, congrArg Frame.probeCounter hf,
    congrArg Frame.weak hf, congrArg Frame.lossDegraded hf, congrArg Frame.ccTarget hf,
    congrArg Frame.srttPos hf, congrArg Frame.srttTrunc hf, congrArg Frame.srtt hf,
    congrArg Frame.rttMin hf, congrArg Frame.bitrate hf, congrArg Frame.nakCount hf,
    congrArg Frame.lastNakMs hf, congrArg Frame.nakBurst hf⟩

/-- The guard's event counters (`stall_gate_events`, `silence_pulls`) never decrease. -/
theorem C12_counters_monotone (ls : List (SLink F)) (last : Option Nat) (now : Nat) (cfg : Cfg) (i : Nat)
    (c c' : SLink F) (h : ls[i]? = some c) (h' : (selectIdx ls last now cfg).1[i]? = some c') :
    c.gateEvents ≤ c'.gateEvents ∧ c.silencePulls ≤ c'.silencePulls := by
  obtain ⟨g, hg, hp⟩ := selectIdx_map ls last now cfg
  rw [hg, List.getElem?_map, h] at h'
  have e : c' = g c := by simpa using h'.symm
  rw [e]
  exact ⟨(hp c).2.1, (hp c).2.2⟩

/-- **Off clears**: with the guard disabled the call leaves no link gated, pulled, latched or in a
recovery run. -/
theorem C12_off_clears (ls : List (SLink F)) (last : Option Nat) (now : Nat) (cfg : Cfg)
    (hoff : cfg.stallDeselect = false) :
    ∀ c ∈ (selectIdx ls last now cfg).1,
      c.stallGated = false ∧ c.silencePulled = false ∧ c.latchedSince = 0 ∧ c.recoverySince = 0 := by
  obtain ⟨f, hf, e⟩ := selectIdx_fst ls last now cfg
  rw [e, applyStallGate_off ls now cfg hoff, List.map_map]
  intro c hc
  obtain ⟨c0, -, rfl⟩ := List.mem_map.1 hc
  obtain ⟨q, t, hq⟩ := hf (guardOff cfg c0)
  simp only [Function.comp_apply]
  rw [hq]
  exact ⟨rfl, rfl, rfl, rfl⟩

/-- **Off means baseline**: with the guard disabled the decision is the decision on the same links
with all stall history erased. -/
theorem C12_off_baseline (ls : List (SLink F)) (last : Option Nat) (now : Nat) (cfg : Cfg)
    (hoff : cfg.stallDeselect = false) :
    (selectIdx ls last now cfg).2 = (selectIdx (ls.map eraseStall) last now cfg).2 := by
  rw [selectIdx_off_erase ls last now cfg hoff]

omit [Scalar F] in
/-- What `eraseStall` is (so the statement above can be read without opening the lemma file). -/
theorem C12_eraseStall_spec (c : SLink F) :
    eraseStall c = { c with stallGated := false, latchedSince := 0, recoverySince := 0, gateEvents := 0,
                            probeCounter := 0, silencePulled := false, pullMark := none, silencePulls := 0 } := rfl

/-- **Non-interference, inductive form**: with the guard disabled, two link lists that agree up to
stall history get the same decision and still agree up to stall history afterwards.  Hence along any
history of guard-off selections interleaved with arbitrary changes applied to both copies, the
history-laden system and its history-free clone decide identically at every step. -/
theorem C12_off_noninterference (ls ls' : List (SLink F)) (last : Option Nat) (now : Nat) (cfg : Cfg)
    (hoff : cfg.stallDeselect = false) (heq : ls.map eraseStall = ls'.map eraseStall) :
    (selectIdx ls last now cfg).2 = (selectIdx ls' last now cfg).2 ∧
    (selectIdx ls last now cfg).1.map eraseStall = (selectIdx ls' last now cfg).1.map eraseStall := by
  have h1 := selectIdx_off_erase ls last now cfg hoff
  have h2 := selectIdx_off_erase ls' last now cfg hoff
  rw [heq] at h1
  rw [h1] at h2
  have hs := congrArg Prod.snd h2
  have hf := congrArg Prod.fst h2
  dsimp only at hs hf
  refine ⟨hs, ?_⟩
  have he : ∀ l : List (SLink F), l.map eraseStall = (l.map forget).map eraseStall := by
    intro l; rw [List.map_map]; exact List.map_congr_left fun c _ => rfl
  rw [he (selectIdx ls last now cfg).1, he (selectIdx ls' last now cfg).1, hf]

/-! ## What is inside and what is outside `Frame`

`Frame` has the 23 fields of the selection view `SLink` that a routing decision must not touch.
The real `select_connection_idx` receives `&mut [SrtlaConnection]`; in terms of the Rust struct
(`crates/srtla-core/src/connection/mod.rs`):

* **allowed to change** (not in `Frame`): `stall_gated`, `stall_latched_since_ms`,
  `stall_recovery_since_ms`, `stall_gate_events`, `silence_pulled`, `silence_pull_heard_mark`,
  `silence_pulls`, the cached `conn_timeout_ms` copy, and `quality_cache.{multiplier, last_calculated_ms}`;
* **in `Frame`, proved unchanged**: `conn_id`, `connected`, `phase`, `window`, `in_flight_packets`,
  `batch_sender` queue LENGTH (`queued`), `last_received`, `last_sent`, `last_ack_or_rtt_sample_ms`,
  `reconnection.{connection_established_ms, startup_grace_deadline_ms}`, `stall_probe_counter`, `weak`,
  `loss_degraded`, `cc_target_bps`, the smoothed RTT (value, `> 0`, `as u64`), `rtt.rtt_min_ms`,
  `bitrate.current_bitrate_bps`, `congestion.{nak_count, last_nak_time_ms, nak_burst_count}`;
* **outside `Frame` because absent from `SLink`** (the selection code has no access path to them in
  the model; on the real code they are covered only by the harness monitor `frame`, see
  `tools/props/C12.json`): `local_ip`, `label`, `packet_log` (contents), `highest_acked_seq`,
  `last_keepalive_sent`, `cc_backing_off`;
  `rtt.*` other than the two outputs above (`last_keepalive_sent_ms`, `waiting_for_keepalive_response`,
  `last_rtt_measurement_ms`, the Kalman filter state, jitter / `prev_rtt_ms` / `rtt_avg_delta`,
  fast/slow minima and their windows, `rtt_masd_ms`, `estimated_rtt_ms`, the sample filter);
  `congestion.*` other than the three NAK fields (`last_window_increase_ms`,
  `consecutive_acks_without_nak`, `fast_recovery_mode`, `fast_recovery_start_ms`,
  `nak_burst_start_time_ms`); `bitrate.{bytes_sent_total, bytes_sent_window, last_rate_update_ms}`;
  `reconnection.{last_reconnect_attempt_ms, reconnect_failure_count}`; the CONTENTS of `batch_sender`
  (queued datagrams, their sequence numbers and queue times, `last_flush_ms`, the batch regime).

`C12_frame_shell` below widens the frame to ALL of these, but only for the shell MODEL
(`Model/Sys.lean` `runSelect`, validated against the real event loop by component `sys`): there the
selection result is written back through `FLink.absorb`, which by construction writes only the ten
"allowed" fields.  It is a statement about how the model is wired, not an independent proof about
the Rust function. -/

section shell
open Srtla.Link Srtla.Sys

/-- `l'` is `l` with (at most) the ten fields a routing decision may write overwritten; every other
field of the full `SrtlaConnection` model — accounting core incl. packet log, keepalive stamp, probe
counter, RTT tracker, bitrate tracker, reconnection state, batch queue contents, classifier / CC
stamps — is identical. -/
def SameUpToGuard (l' l : FLink F) : Prop :=
  ∃ (sg : Bool) (la rs ge : Nat) (sp : Bool) (pm : Option Nat) (sps ct : Nat) (qm : F) (qa : Nat),
    l' = { l with stallGated := sg, latchedSince := la, recoverySince := rs, gateEvents := ge,
                  silencePulled := sp, pullMark := pm, silencePulls := sps, connTimeoutMs := ct,
                  qualMult := qm, qualAt := qa }

/-- **Frame, full-connection form (shell model).**  The shell's scheduling step
(`select_connection_idx` on the live connections, `runSelect`) returns the same number of links in
the same order; each is the old link up to the ten allowed fields; and no other component of the
shell state (registration manager, sequence tracker, last pick, config …) changes. -/
theorem C12_frame_shell (s : Sys F) (now : Nat) :
    (runSelect s now).1.links.length = s.links.length ∧
    (∀ (i : Nat) (l l' : FLink F), s.links[i]? = some l → (runSelect s now).1.links[i]? = some l' →
      SameUpToGuard l' l) ∧
    (runSelect s now).1.reg = s.reg ∧ (runSelect s now).1.trk = s.trk ∧
    (runSelect s now).1.lastSelected = s.lastSelected ∧ (runSelect s now).1.clientKnown = s.clientKnown ∧
    (runSelect s now).1.cfg = s.cfg ∧ (runSelect s now).1.critDeadline = s.critDeadline ∧
    (runSelect s now).1.allFailedAt = s.allFailedAt ∧ (runSelect s now).1.failNext = s.failNext := by
  have hlen := (C12_frame (s.links.map FLink.toSLink) s.lastSelected now s.cfg).1
  rw [List.length_map] at hlen
  refine ⟨?_, ?_, rfl, rfl, rfl, rfl, rfl, rfl, rfl, rfl⟩
  · show ((s.links.zip (selectIdx (s.links.map FLink.toSLink) s.lastSelected now s.cfg).1).map _).length = _
    rw [List.length_map, List.length_zip, hlen, Nat.min_self]
  · intro i l l' hl hl'
    change ((s.links.zip (selectIdx (s.links.map FLink.toSLink) s.lastSelected now s.cfg).1).map
      fun p => p.1.absorb p.2)[i]? = some l' at hl'
    rw [List.getElem?_map] at hl'
    obtain ⟨⟨a, b⟩, hab, rfl⟩ := Option.map_eq_some_iff.1 hl'
    have ha : s.links[i]? = some a := (List.getElem?_zip_eq_some.1 hab).1
    rw [hl] at ha
    cases ha
    exact ⟨_, _, _, _, _, _, _, _, _, _, rfl⟩

end shell

/-! ## Non-vacuity -/

/-- Three links at `now = 5000`; link 2 (best score 60000/41 = 1463 against 909 and 900, once it is allowed)
carries a full stall history: gated, latched since 1500, in a recovery run, pulled, counters 7/4/3. -/
def exLinks : List (SLink Int) :=
  [ { connId := 1, window := 10000, inFlight := 10, lastReceived := some 4990, srtt := 0, rttMin := 200000, bitrate := 0,
      qualMult := 1000 },
    { connId := 2, window := 9000, inFlight := 9, lastReceived := some 4990, srtt := 0, rttMin := 200000, bitrate := 0,
      qualMult := 1000 },
    { connId := 3, window := 60000, inFlight := 40, lastReceived := some 4990, proofMs := 1000, srtt := 0,
      rttMin := 200000, bitrate := 0, qualMult := 1100,
      stallGated := true, latchedSince := 1500, recoverySince := 4000, gateEvents := 7, probeCounter := 4,
      silencePulled := true, pullMark := some 4000, silencePulls := 3 } ]

/-- Guard on: link 2 stays gated and the decision avoids it; guard off: its flags are cleared, it wins
(`some 2`), the history-free clone decides the same, and the counters are untouched. -/
example :
    (@selectIdx Int fixScalar exLinks none 5000 {}).2 = some 0 ∧
    ((@selectIdx Int fixScalar exLinks none 5000 {}).1.map (·.stallGated)) = [false, false, true] ∧
    (@selectIdx Int fixScalar exLinks none 5000 { stallDeselect := false }).2 = some 2 ∧
    (@selectIdx Int fixScalar (exLinks.map eraseStall) none 5000 { stallDeselect := false }).2 = some 2 ∧
    ((@selectIdx Int fixScalar exLinks none 5000 { stallDeselect := false }).1.map
      fun c => (c.stallGated, c.latchedSince, c.recoverySince, c.silencePulled, c.gateEvents, c.silencePulls))
      = [(false, 0, 0, false, 0, 0), (false, 0, 0, false, 0, 0), (false, 0, 0, false, 7, 3)] ∧
    (@selectIdx Int fixScalar exLinks none 5000 { classic := true, stallDeselect := false }).2 = some 2 := by
  decide +kernel

/-- Guard on, a link engaging the latch in this very call: the counter moves 0 → 1, the frame stays. -/
example :
    let ls : List (SLink Int) :=
      [ { connId := 1, inFlight := 10, lastReceived := some 4990, srtt := 0, rttMin := 0, bitrate := 0, qualMult := 1000 },
        { connId := 2, inFlight := 40, lastReceived := some 4990, proofMs := 1000, srtt := 0, rttMin := 0, bitrate := 0,
          qualMult := 1000 } ]
    ((@selectIdx Int fixScalar ls none 5000 {}).1.map fun c => (c.gateEvents, c.latchedSince, c.stallGated, c.inFlight, c.proofMs))
      = [(0, 0, false, 10, 0), (1, 5000, true, 40, 1000)] := by
  decide +kernel

end Srtla.Props.C12
