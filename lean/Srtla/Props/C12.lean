import Srtla.Model.Select
import Srtla.Model.Sys
import Srtla.Lemmas.SelectFrame
import Srtla.Lemmas.SelShellFrame
import Srtla.Lemmas.Audit2BGuard
/-!
# C12 — the stall guard is a routing penalty only; off means baseline

`selectIdx ls last now cfg` is the model of `select_connection_idx` (stall gate, then the classic or
enhanced selector); it returns the links as the call leaves them and the decision.  It is run
bit-for-bit against the real function by component `sel`.

* `C12_frame` / `C12_frame_fields`: a routing decision changes NOTHING of a link except the
  guard-private fields (`connTimeoutMs` stamp, `stallGated`, `latchedSince`, `recoverySince`,
  `gateEvents`, `silencePulled`, `pullMark`, `silencePulls`) and the quality cache
  (`qualMult`, `qualAt`) — whatever the guard decides, in either mode, for any config.
  `Srtla.Select.frame` (Lemmas/SelectFrame.lean) is the projection onto all 23 other fields.
* `C12_counters_monotone`: the two guard counters never go backwards.
* `C12_off_clears`: guard off ⇒ every gate flag, pull and latch is cleared by the call.
* `C12_off_baseline`: guard off ⇒ the decision equals the decision on the same links with ALL stall
  history erased (`eraseStall`: gate flag, latch, recovery run, gate-event counter, probe counter,
  pull flag, heard-mark, pull counter all zero).  `C12_off_noninterference` is the inductive form:
  two states that agree up to stall history get the same decision and still agree afterwards, so the
  statement extends to every history of selections, state changes and toggles.

* Which `SrtlaConnection` fields are inside / outside `Frame` is spelled out in the section
  "What is inside and what is outside `Frame`" below; `C12_frame_shell` is the full-connection form
  for the shell model (`Model/Sys.lean` `runSelect`).

* Round 3 — the shell (`Model/Sys.lean`, `Sys.step`, validated by component `sys`), section "Shell level:
  events and runs": `C12_frame_client` (a `client` event moves the liveness / accounting fields of a link
  only by queueing the datagram — or a duplicate probe copy — on it, exactly as forwarding does, whatever
  the guard decided), `C12_guard_decides_only_the_route` (guard on vs. off from the same state),
  `C12_guard_switch_elsewhere` (no other event reads the switch), `C12_off_clears_sys`,
  `C12_off_stays_clear_run` and the packaging `C12_frame_run`.

All theorems hold for every scalar type `F` and every `[Scalar F]` instance (float comparisons are
opaque Booleans): in particular for the `Float` instance the compiled driver runs.
-/
namespace Srtla.Props.C12
open Srtla.Select Srtla.Conn Srtla

variable {F : Type} [Scalar F]
variable {fa : List (Nat × Nat)}

/-- **Frame**: the call returns as many links as it was given, in the same order, and the
projection of every link onto its liveness / accounting fields is unchanged. -/
theorem C12_frame (ls : List (SLink F)) (last : Option Nat) (now : Nat) (cfg : Cfg) :
    (selectIdx ls last now cfg).1.length = ls.length ∧
    (selectIdx ls last now cfg).1.map frame = ls.map frame := by
  obtain ⟨g, hg, hp⟩ := selectIdx_map ls last now cfg
  rw [hg]
  refine ⟨List.length_map _, ?_⟩
  rw [List.map_map]
  exact List.map_congr_left fun c _ => (hp c).1

/-- The frame, field by field: link `i` before (`c`) and after (`c'`) the call. -/
theorem C12_frame_fields (ls : List (SLink F)) (last : Option Nat) (now : Nat) (cfg : Cfg) (i : Nat)
    (c c' : SLink F) (h : ls[i]? = some c) (h' : (selectIdx ls last now cfg).1[i]? = some c') :
    c'.connId = c.connId ∧ c'.connected = c.connected ∧ c'.phase = c.phase ∧ c'.window = c.window ∧
    c'.inFlight = c.inFlight ∧ c'.queued = c.queued ∧ c'.lastReceived = c.lastReceived ∧
    c'.lastSent = c.lastSent ∧ c'.proofMs = c.proofMs ∧ c'.established = c.established ∧
    c'.graceDeadline = c.graceDeadline ∧ c'.probeCounter = c.probeCounter ∧ c'.weak = c.weak ∧
    c'.lossDegraded = c.lossDegraded ∧ c'.ccTarget = c.ccTarget ∧ c'.srttPos = c.srttPos ∧
    c'.srttTrunc = c.srttTrunc ∧ c'.srtt = c.srtt ∧ c'.rttMin = c.rttMin ∧ c'.bitrate = c.bitrate ∧
    c'.nakCount = c.nakCount ∧ c'.lastNakMs = c.lastNakMs ∧ c'.nakBurst = c.nakBurst := by
  obtain ⟨g, hg, hp⟩ := selectIdx_map ls last now cfg
  rw [hg, List.getElem?_map, h] at h'
  have e : c' = g c := by simpa using h'.symm
  have hf : frame c' = frame c := by rw [e]; exact (hp c).1
  exact ⟨congrArg Frame.connId hf, congrArg Frame.connected hf, congrArg Frame.phase hf,
    congrArg Frame.window hf, congrArg Frame.inFlight hf, congrArg Frame.queued hf,
    congrArg Frame.lastReceived hf, congrArg Frame.lastSent hf, congrArg Frame.proofMs hf,
    congrArg Frame.established hf, congrArg Frame.graceDeadline hf, congrArg Frame.probeCounter hf,
    congrArg Frame.weak hf, congrArg Frame.lossDegraded hf, congrArg Frame.ccTarget hf,
    congrArg Frame.srttPos hf, congrArg Frame.srttTrunc hf, congrArg Frame.srtt hf,
    congrArg Frame.rttMin hf, congrArg Frame.bitrate hf, congrArg Frame.nakCount hf,
    congrArg Frame.lastNakMs hf, congrArg Frame.nakBurst hf⟩

/-- The guard's event counters (`stall_gate_events`, `silence_pulls`) never decrease. -/
theorem C12_counters_monotone (ls : List (SLink F)) (last : Option Nat) (now : Nat) (cfg : Cfg) (i : Nat)
    (c c' : SLink F) (h : ls[i]? = some c) (h' : (selectIdx ls last now cfg).1[i]? = some c') :
    c.gateEvents ≤ c'.gateEvents ∧ c.silencePulls ≤ c'.silencePulls := by
  obtain ⟨g, hg, hp⟩ := selectIdx_map ls last now cfg
  rw [hg, List.getElem?_map, h] at h'
  have e : c' = g c := by simpa using h'.symm
  rw [e]
  exact ⟨(hp c).2.1, (hp c).2.2⟩

/-- **Off clears**: with the guard disabled the call leaves no link gated, pulled, latched or in a
recovery run. -/
theorem C12_off_clears (ls : List (SLink F)) (last : Option Nat) (now : Nat) (cfg : Cfg)
    (hoff : cfg.stallDeselect = false) :
    ∀ c ∈ (selectIdx ls last now cfg).1,
      c.stallGated = false ∧ c.silencePulled = false ∧ c.latchedSince = 0 ∧ c.recoverySince = 0 := by
  obtain ⟨f, hf, e⟩ := selectIdx_fst ls last now cfg
  rw [e, applyStallGate_off ls now cfg hoff, List.map_map]
  intro c hc
  obtain ⟨c0, -, rfl⟩ := List.mem_map.1 hc
  obtain ⟨q, t, hq⟩ := hf (guardOff cfg c0)
  simp only [Function.comp_apply]
  rw [hq]
  exact ⟨rfl, rfl, rfl, rfl⟩

/-- **Off means baseline**: with the guard disabled the decision is the decision on the same links
with all stall history erased. -/
theorem C12_off_baseline (ls : List (SLink F)) (last : Option Nat) (now : Nat) (cfg : Cfg)
    (hoff : cfg.stallDeselect = false) :
    (selectIdx ls last now cfg).2 = (selectIdx (ls.map eraseStall) last now cfg).2 := by
  rw [selectIdx_off_erase ls last now cfg hoff]

omit [Scalar F] in
/-- What `eraseStall` is (so the statement above can be read without opening the lemma file). -/
theorem C12_eraseStall_spec (c : SLink F) :
    eraseStall c = { c with stallGated := false, latchedSince := 0, recoverySince := 0, gateEvents := 0,
                            probeCounter := 0, silencePulled := false, pullMark := none, silencePulls := 0 } := rfl

/-- **Non-interference, inductive form**: with the guard disabled, two link lists that agree up to
stall history get the same decision and still agree up to stall history afterwards.  Hence along any
history of guard-off selections interleaved with arbitrary changes applied to both copies, the
history-laden system and its history-free clone decide identically at every step. -/
theorem C12_off_noninterference (ls ls' : List (SLink F)) (last : Option Nat) (now : Nat) (cfg : Cfg)
    (hoff : cfg.stallDeselect = false) (heq : ls.map eraseStall = ls'.map eraseStall) :
    (selectIdx ls last now cfg).2 = (selectIdx ls' last now cfg).2 ∧
    (selectIdx ls last now cfg).1.map eraseStall = (selectIdx ls' last now cfg).1.map eraseStall := by
  have h1 := selectIdx_off_erase ls last now cfg hoff
  have h2 := selectIdx_off_erase ls' last now cfg hoff
  rw [heq] at h1
  rw [h1] at h2
  have hs := congrArg Prod.snd h2
  have hf := congrArg Prod.fst h2
  dsimp only at hs hf
  refine ⟨hs, ?_⟩
  have he : ∀ l : List (SLink F), l.map eraseStall = (l.map forget).map eraseStall := by
    intro l; rw [List.map_map]; exact List.map_congr_left fun c _ => rfl
  rw [he (selectIdx ls last now cfg).1, he (selectIdx ls' last now cfg).1, hf]

/-! ## What is inside and what is outside `Frame`

`Frame` has the 23 fields of the selection view `SLink` that a routing decision must not touch.
The real `select_connection_idx` receives `&mut [SrtlaConnection]`; in terms of the Rust struct
(`crates/srtla-core/src/connection/mod.rs`):

* **allowed to change** (not in `Frame`): `stall_gated`, `stall_latched_since_ms`,
  `stall_recovery_since_ms`, `stall_gate_events`, `silence_pulled`, `silence_pull_heard_mark`,
  `silence_pulls`, the cached `conn_timeout_ms` copy, and `quality_cache.{multiplier, last_calculated_ms}`;
* **in `Frame`, proved unchanged**: `conn_id`, `connected`, `phase`, `window`, `in_flight_packets`,
  `batch_sender` queue LENGTH (`queued`), `last_received`, `last_sent`, `last_ack_or_rtt_sample_ms`,
  `reconnection.{connection_established_ms, startup_grace_deadline_ms}`, `stall_probe_counter`, `weak`,
  `loss_degraded`, `cc_target_bps`, the smoothed RTT (value, `> 0`, `as u64`), `rtt.rtt_min_ms`,
  `bitrate.current_bitrate_bps`, `congestion.{nak_count, last_nak_time_ms, nak_burst_count}`;
* **outside `Frame` because absent from `SLink`** (the selection code has no access path to them in
  the model; on the real code they are covered only by the harness monitor `frame`, see
  `tools/props/C12.json`): `local_ip`, `label`, `packet_log` (contents), `highest_acked_seq`,
  `last_keepalive_sent`, `cc_backing_off`;
  `rtt.*` other than the two outputs above (`last_keepalive_sent_ms`, `waiting_for_keepalive_response`,
  `last_rtt_measurement_ms`, the Kalman filter state, jitter / `prev_rtt_ms` / `rtt_avg_delta`,
  fast/slow minima and their windows, `rtt_masd_ms`, `estimated_rtt_ms`, the sample filter);
  `congestion.*` other than the three NAK fields (`last_window_increase_ms`,
  `consecutive_acks_without_nak`, `fast_recovery_mode`, `fast_recovery_start_ms`,
  `nak_burst_start_time_ms`); `bitrate.{bytes_sent_total, bytes_sent_window, last_rate_update_ms}`;
  `reconnection.{last_reconnect_attempt_ms, reconnect_failure_count}`; the CONTENTS of `batch_sender`
  (queued datagrams, their sequence numbers and queue times, `last_flush_ms`, the batch regime).

`C12_frame_shell` below widens the frame to ALL of these, but only for the shell MODEL
(`Model/Sys.lean` `runSelect`, validated against the real event loop by component `sys`): there the
selection result is written back through `FLink.absorb`, which by construction writes only the ten
"allowed" fields.  It is a statement about how the model is wired, not an independent proof about
the Rust function. -/

section shell
open Srtla.Link Srtla.Sys

/-- `l'` is `l` with (at most) the ten fields a routing decision may write overwritten; every other
field of the full `SrtlaConnection` model — accounting core incl. packet log, keepalive stamp, probe
counter, RTT tracker, bitrate tracker, reconnection state, batch queue contents, classifier / CC
stamps — is identical. -/
def SameUpToGuard (l' l : FLink F) : Prop :=
  ∃ (sg : Bool) (la rs ge : Nat) (sp : Bool) (pm : Option Nat) (sps ct : Nat) (qm : F) (qa : Nat),
    l' = { l with stallGated := sg, latchedSince := la, recoverySince := rs, gateEvents := ge,
                  silencePulled := sp, pullMark := pm, silencePulls := sps, connTimeoutMs := ct,
                  qualMult := qm, qualAt := qa }

/-- **Frame, full-connection form (shell model).**  The shell's scheduling step
(`select_connection_idx` on the live connections, `runSelect`) returns the same number of links in
the same order; each is the old link up to the ten allowed fields; and no other component of the
shell state (registration manager, sequence tracker, last pick, config …) changes. -/
theorem C12_frame_shell (s : Sys F) (now : Nat) :
    (runSelect s now).1.links.length = s.links.length ∧
    (∀ (i : Nat) (l l' : FLink F), s.links[i]? = some l → (runSelect s now).1.links[i]? = some l' →
      SameUpToGuard l' l) ∧
    (runSelect s now).1.reg = s.reg ∧ (runSelect s now).1.trk = s.trk ∧
    (runSelect s now).1.lastSelected = s.lastSelected ∧ (runSelect s now).1.clientKnown = s.clientKnown ∧
    (runSelect s now).1.cfg = s.cfg ∧ (runSelect s now).1.critDeadline = s.critDeadline ∧
    (runSelect s now).1.allFailedAt = s.allFailedAt ∧ (runSelect s now).1.failNext = s.failNext := by
  have hlen := (C12_frame (s.links.map FLink.toSLink) s.lastSelected now s.cfg).1
  rw [List.length_map] at hlen
  refine ⟨?_, ?_, rfl, rfl, rfl, rfl, rfl, rfl, rfl, rfl⟩
  · show ((s.links.zip (selectIdx (s.links.map FLink.toSLink) s.lastSelected now s.cfg).1).map _).length = _
    rw [List.length_map, List.length_zip, hlen, Nat.min_self]
  · intro i l l' hl hl'
    change ((s.links.zip (selectIdx (s.links.map FLink.toSLink) s.lastSelected now s.cfg).1).map
      fun p => p.1.absorb p.2)[i]? = some l' at hl'
    rw [List.getElem?_map] at hl'
    obtain ⟨⟨a, b⟩, hab, rfl⟩ := Option.map_eq_some_iff.1 hl'
    have ha : s.links[i]? = some a := (List.getElem?_zip_eq_some.1 hab).1
    rw [hl] at ha
    cases ha
    exact ⟨_, _, _, _, _, _, _, _, _, _, rfl⟩

end shell

/-! ## Non-vacuity -/

/-- Three links at `now = 5000`; link 2 (best score 60000/41 = 1463 against 909 and 900, once it is allowed)
carries a full stall history: gated, latched since 1500, in a recovery run, pulled, counters 7/4/3. -/
def exLinks : List (SLink Int) :=
  [ { connId := 1, window := 10000, inFlight := 10, lastReceived := some 4990, srtt := 0, rttMin := 200000, bitrate := 0,
      qualMult := 1000 },
    { connId := 2, window := 9000, inFlight := 9, lastReceived := some 4990, srtt := 0, rttMin := 200000, bitrate := 0,
      qualMult := 1000 },
    { connId := 3, window := 60000, inFlight := 40, lastReceived := some 4990, proofMs := 1000, srtt := 0,
      rttMin := 200000, bitrate := 0, qualMult := 1100,
      stallGated := true, latchedSince := 1500, recoverySince := 4000, gateEvents := 7, probeCounter := 4,
      silencePulled := true, pullMark := some 4000, silencePulls := 3 } ]

/-- Guard on: link 2 stays gated and the decision avoids it; guard off: its flags are cleared, it wins
(`some 2`), the history-free clone decides the same, and the counters are untouched. -/
example :
    (@selectIdx Int fixScalar exLinks none 5000 {}).2 = some 0 ∧
    ((@selectIdx Int fixScalar exLinks none 5000 {}).1.map (·.stallGated)) = [false, false, true] ∧
    (@selectIdx Int fixScalar exLinks none 5000 { stallDeselect := false }).2 = some 2 ∧
    (@selectIdx Int fixScalar (exLinks.map eraseStall) none 5000 { stallDeselect := false }).2 = some 2 ∧
    ((@selectIdx Int fixScalar exLinks none 5000 { stallDeselect := false }).1.map
      fun c => (c.stallGated, c.latchedSince, c.recoverySince, c.silencePulled, c.gateEvents, c.silencePulls))
      = [(false, 0, 0, false, 0, 0), (false, 0, 0, false, 0, 0), (false, 0, 0, false, 7, 3)] ∧
    (@selectIdx Int fixScalar exLinks none 5000 { classic := true, stallDeselect := false }).2 = some 2 := by
  decide +kernel

/-- Guard on, a link engaging the latch in this very call: the counter moves 0 → 1, the frame stays. -/
example :
    let ls : List (SLink Int) :=
      [ { connId := 1, inFlight := 10, lastReceived := some 4990, srtt := 0, rttMin := 0, bitrate := 0, qualMult := 1000 },
        { connId := 2, inFlight := 40, lastReceived := some 4990, proofMs := 1000, srtt := 0, rttMin := 0, bitrate := 0,
          qualMult := 1000 } ]
    ((@selectIdx Int fixScalar ls none 5000 {}).1.map fun c => (c.gateEvents, c.latchedSince, c.stallGated, c.inFlight, c.proofMs))
      = [(0, 0, false, 10, 0), (1, 5000, true, 40, 1000)] := by
  decide +kernel

/-! ## Shell level: events and runs (round 3)

`C12_frame_shell` is about ONE call of the scheduler.  Here: whole events of the shell model
(`Sys.step`), every link index `j` (`l` before, `l'` after, same index), and runs.

`liveAcct l` (Lemmas/SelShellFrame.lean) is the link with everything a routing decision may write
erased — the ten fields of `SameUpToGuard` and the probe counter (which only `send_stall_probes` moves,
and only for links the guard holds stall-gated) — so `liveAcct l' = liveAcct l` says: the accounting
core (`connected`, `last_received`, `last_sent`, window, in-flight count, packet log, NAK / congestion
counters, phase, proof stamp), keepalive stamp, RTT and bitrate trackers, reconnection state, batch
queue and the classifier / CC stamps are ALL unchanged.

`after s evs` is the state after the events `evs` (= `(Sys.run s evs).1`, `SysLevel.run_eq_foldl`; this
file cannot import `Sys.run`, whose file depends on this one). -/

section shellEvents
open Srtla.Link Srtla.Sys Srtla.SelShell

/-- What `liveAcct` erases (so the statements below can be read without opening the lemma file): the eight
guard-private fields, the probe counter, the per-link copy of the connection timeout and the quality cache
(multiplier and its time stamp).

Audit round 2 — which of the ERASED fields are INPUTS of later liveness / phase decisions made by events that
are not routing decisions:
* `connTimeoutMs` is read by `is_timed_out` (housekeeping's tear-down decision, the pre-registration pick, every
  selector).  It carries no guard decision: EVERY selection pass writes the configured value into every link
  before it consults the guard switch (`apply_stall_gate`, first line), and `sync_conn_timeout` does the same
  before every housekeeping pass — guard on or off, the copy is the same;
* `qualMult` is read by housekeeping's `update_phase` (the `live ↔ degraded` verdict); `qualAt` only decides when
  a SELECTION pass refreshes `qualMult`.  This one DOES carry a guard decision: the enhanced loop skips a
  stall-gated link before it refreshes the cache, so a gated link keeps a stale multiplier —
  `C12_guard_effect_on_later_phase` states the channel and shows that it ends at the `live` / `degraded` label;
* the guard-private fields and the probe counter are read by selection passes and `send_stall_probes` only. -/
theorem C12_liveAcct_spec (l : FLink F) :
    liveAcct l = { l with stallGated := false, latchedSince := 0, recoverySince := 0, gateEvents := 0,
                          probeCounter := 0, silencePulled := false, pullMark := none, silencePulls := 0,
                          connTimeoutMs := 0, qualMult := Rtt.one, qualAt := 0 } := rfl

/-- What forwarding a datagram on a link is (`forward_via_connection`): queue it; on reaching the batch
threshold drain the queue (`take_batch`: registers the tracked packets, stamps `last_sent`); if that send
fails (an injected failure pending for the conn id) tear the link down (`mark_for_recovery`). -/
theorem C12_fwdLink_spec (fa : List (Nat × Nat)) (l : FLink F) (pkt : Link.Bytes) (seq : Option Nat) (now : Nat) (fn : List Nat) :
    (Hk.fwdLink fa l pkt seq now fn).1 =
      if (l.queueDataPacket pkt seq now).2 = true then
        if (sendConnectionBatch fa (l.queueDataPacket pkt seq now).1 now fn).2.2.1 = true
        then ((l.queueDataPacket pkt seq now).1.takeBatch now).1
        else ((l.queueDataPacket pkt seq now).1.takeBatch now).1.markForRecovery
      else (l.queueDataPacket pkt seq now).1 := by
  unfold Hk.fwdLink
  split
  · dsimp only
    rw [(Hk.sendBatch_cases _ now fn).1]
  · rfl

omit [Scalar F] in
/-- A list that has every element at most as often as another is a sub-list in the `⊆` sense. -/
theorem fnLe_subset {fn fn0 : List Nat} (h : ∀ a, fn.count a ≤ fn0.count a) : fn ⊆ fn0 := by
  intro a ha
  have h1 : 0 < fn.count a := List.count_pos_iff.2 ha
  exact List.count_pos_iff.1 (Nat.lt_of_lt_of_le h1 (h a))

/-- **Frame of a `client` event.**  `handle_srt_packet` (selection pass, best-quality override,
forwarding, stall probes) moves the liveness / accounting fields of link `j` in exactly one of three ways:

1. `j` is not the target and got no probe copy: NOTHING changes — whatever the guard did to the link
   (latched it, released it, pulled it, gated it), in either mode;
2. `j` is the target (`clientTarget`: the scheduler's pick after the override, or the pre-registration
   pick): they change exactly as forwarding the datagram on the OLD link changes them
   (`C12_fwdLink_spec`) — a function of the old liveness / accounting fields alone (`liveAcct_fwdLink`),
   not of the guard's state;
3. `j` is another link that this pass holds stall-gated (so: guard on, registered session, data packet,
   the link connected before and — unless the copy's flush failed and tore it down — latched or pulled
   after): a duplicate probe copy was queued on it, again exactly as forwarding does, with the injected send
   failures the earlier sends of this event left: `fn ⊆ s.failNext`, no conn id more often than in `s.failNext`
   (audit round 2: the fault list is no longer a free witness).

So the guard influences liveness / accounting ONLY through where the datagram (and its sparse probe
copies) is queued. -/
theorem C12_frame_client (s : Sys F) (pkt : Sys.Bytes) (now j : Nat) (l l' : FLink F)
    (hl : s.links[j]? = some l) (hl' : (step s (.client now pkt)).1.links[j]? = some l') :
    (clientTarget s pkt now ≠ some j ∧ liveAcct l' = liveAcct l) ∨
    (clientTarget s pkt now = some j ∧
      liveAcct l' = liveAcct (Hk.fwdLink s.failAfter l pkt (Codec.getSrtSequenceNumberS pkt) now s.failNext).1) ∨
    (clientTarget s pkt now ≠ some j ∧ pkt ≠ [] ∧ s.reg.hasConnected = true ∧ s.cfg.stallDeselect = true ∧
      (Codec.getSrtSequenceNumberS pkt).isSome = true ∧ (clientTarget s pkt now).isSome = true ∧
      l.core.connected = true ∧
      (l'.core.connected = false ∨ l'.latchedSince ≠ 0 ∨ l'.silencePulled = true) ∧
      ∃ fn, fn ⊆ s.failNext ∧ (∀ a, fn.count a ≤ s.failNext.count a) ∧
        liveAcct l' = liveAcct (Hk.fwdLink s.failAfter l pkt (Codec.getSrtSequenceNumberS pkt) now fn).1) := by
  cases client_liveAcct s pkt now j l l' hl hl' with
  | idle ht h => exact .inl ⟨ht, h⟩
  | target ht h => exact .inr (.inl ⟨ht, h⟩)
  | probe ht hne hreg hon hseq hsome hc hg h =>
    obtain ⟨fn, hle, h⟩ := h
    exact .inr (.inr ⟨ht, hne, hreg, hon, hseq, hsome, hc, hg, fn, fnLe_subset hle, hle, h⟩)

/-- **The guard decides only the route.**  Run the same `client` event from the same state with the
guard switch as it is (`s`) and set to `b` (`withGuard b s`; everything else identical).  For every link
`j` that is the target in both executions or in neither, the liveness / accounting fields after the two
executions are IDENTICAL — unless `j` received a duplicate probe copy in one of them (possible only with
the guard on there). -/
theorem C12_guard_decides_only_the_route (s : Sys F) (b : Bool) (pkt : Sys.Bytes) (now j : Nat)
    (l l₁ l₂ : FLink F) (hl : s.links[j]? = some l)
    (h₁ : (step s (.client now pkt)).1.links[j]? = some l₁)
    (h₂ : (step (withGuard b s) (.client now pkt)).1.links[j]? = some l₂)
    (ht : clientTarget s pkt now = some j ↔ clientTarget (withGuard b s) pkt now = some j) :
    liveAcct l₁ = liveAcct l₂ ∨
    (s.cfg.stallDeselect = true ∧ clientTarget s pkt now ≠ some j ∧
      ∃ fn, fn ⊆ s.failNext ∧ liveAcct l₁ = liveAcct (Hk.fwdLink s.failAfter l pkt (Codec.getSrtSequenceNumberS pkt) now fn).1) ∨
    (b = true ∧ clientTarget (withGuard b s) pkt now ≠ some j ∧
      ∃ fn, fn ⊆ s.failNext ∧ liveAcct l₂ = liveAcct (Hk.fwdLink s.failAfter l pkt (Codec.getSrtSequenceNumberS pkt) now fn).1) := by
  have hl2 : (withGuard b s).links[j]? = some l := hl
  cases client_liveAcct s pkt now j l l₁ hl h₁ with
  | probe ht1 _ _ hon _ _ _ _ h =>
    obtain ⟨fn, hle, h⟩ := h
    exact .inr (.inl ⟨hon, ht1, fn, fnLe_subset hle, h⟩)
  | idle ht1 e1 =>
    cases client_liveAcct (withGuard b s) pkt now j l l₂ hl2 h₂ with
    | probe ht2 _ _ hon _ _ _ _ h =>
      obtain ⟨fn, hle, h⟩ := h
      exact .inr (.inr ⟨hon, ht2, fn, fnLe_subset hle, h⟩)
    | idle _ e2 => exact .inl (e1.trans e2.symm)
    | target ht2 _ => exact absurd (ht.2 ht2) ht1
  | target ht1 e1 =>
    cases client_liveAcct (withGuard b s) pkt now j l l₂ hl2 h₂ with
    | probe ht2 _ _ hon _ _ _ _ h =>
      obtain ⟨fn, hle, h⟩ := h
      exact .inr (.inr ⟨hon, ht2, fn, fnLe_subset hle, h⟩)
    | idle ht2 _ => exact absurd (ht.1 ht1) ht2
    | target _ e2 => exact .inl (e1.trans e2.symm)

/-- **No event other than a `client` datagram reads the guard switch**: an uplink datagram, a flush or
housekeeping tick, a configuration / fault-injection event gives the same links, registration state,
sequence tracker, fault set and output whether the guard is on or off. -/
theorem C12_guard_switch_elsewhere (b : Bool) (s : Sys F) (e : Ev) (hne : ∀ now pkt, e ≠ .client now pkt) :
    (step (withGuard b s) e).1.links = (step s e).1.links ∧
    (step (withGuard b s) e).1.reg = (step s e).1.reg ∧
    (step (withGuard b s) e).1.trk = (step s e).1.trk ∧
    (step (withGuard b s) e).1.failNext = (step s e).1.failNext ∧
    (step (withGuard b s) e).2 = (step s e).2 :=
  step_withGuard b s e hne

/-- The guard holds nothing on this link: not gated, not pulled, not latched, no recovery run. -/
def GuardClear (l : FLink F) : Prop :=
  l.stallGated = false ∧ l.silencePulled = false ∧ l.latchedSince = 0 ∧ l.recoverySince = 0

omit [Scalar F] in
theorem guardClear_of_same {l l' : FLink F} (h : GSame l l' ∨ SelShell.Torn l l') (hc : GuardClear l) :
    GuardClear l' := by
  obtain ⟨c1, c2, c3, c4⟩ := hc
  rcases h with h | h
  · exact ⟨h.gated.trans c1, h.pulled.trans c2, h.latched.trans c3, h.recovery.trans c4⟩
  · exact ⟨h.gated, h.pulled, h.latched, h.recovery⟩

/-- **Off clears, at shell level**: a `client` datagram routed by the scheduler (non-empty, registration
completed) with the guard off leaves EVERY link of the shell un-gated, un-pulled, un-latched and without
a recovery run — also the links the datagram and the (then impossible) probes did not touch. -/
theorem C12_off_clears_sys (s : Sys F) (pkt : Sys.Bytes) (now : Nat) (hne : pkt ≠ [])
    (hreg : s.reg.hasConnected = true) (hoff : s.cfg.stallDeselect = false) :
    ∀ l' ∈ (step s (.client now pkt)).1.links, GuardClear l' := by
  intro l' hmem
  obtain ⟨j, hj, hget⟩ := List.getElem_of_mem hmem
  have hl' : (step s (.client now pkt)).1.links[j]? = some l' := by
    rw [← hget]; exact List.getElem?_eq_getElem hj
  have hlen : (step s (.client now pkt)).1.links.length = s.links.length := client_length s pkt now
  have hj' : j < s.links.length := by omega
  obtain ⟨m, hk, hp⟩ := client_guard s pkt now j s.links[j] l' (List.getElem?_eq_getElem hj') hl'
  have hpr : passRan s pkt = true := (passRan_iff' s pkt).2 ⟨hne, hreg⟩
  rcases hp with ⟨hp, -⟩ | ⟨-, hm⟩
  · rw [hpr] at hp; cases hp
  · obtain ⟨a1, a2, a3, a4, -⟩ := (pass_guard s now j _ m (List.getElem?_eq_getElem hj') hm).2.2 hoff
    exact guardClear_of_same (hk.elim (fun h => .inl h.same) .inr) ⟨a4, a3, a1, a2⟩

/-- One event with the guard off keeps every link clear. -/
theorem off_clear_step (s : Sys F) (e : Ev) (hoff : s.cfg.stallDeselect = false)
    (h : ∀ l ∈ s.links, GuardClear l) : ∀ l' ∈ (step s e).1.links, GuardClear l' := by
  intro l' hmem
  cases hnr : e.isReload with
  | true =>
    -- a reload keeps the records of the retained links; a fresh link has a clear guard
    cases e with
    | reload now addrs outs =>
      rcases mem_reload hmem with ⟨h1, -⟩ | ⟨id, a, -, -, rfl⟩
      · exact h l' h1
      · exact ⟨rfl, rfl, rfl, rfl⟩
    | _ => cases hnr
  | false =>
  obtain ⟨j, hj, hget⟩ := List.getElem_of_mem hmem
  have hl' : (step s e).1.links[j]? = some l' := by rw [← hget]; exact List.getElem?_eq_getElem hj
  have hlen : (step s e).1.links.length = s.links.length := (Hk.step_link s e hnr).2.1
  have hj' : j < s.links.length := by omega
  have hl : s.links[j]? = some s.links[j] := List.getElem?_eq_getElem hj'
  have hc := h s.links[j] (List.getElem_mem hj')
  by_cases hcl : ∃ now pkt, e = .client now pkt
  · obtain ⟨now, pkt, rfl⟩ := hcl
    obtain ⟨m, hk, hp⟩ := client_guard s pkt now j s.links[j] l' hl hl'
    refine guardClear_of_same (hk.elim (fun h => .inl h.same) .inr) ?_
    rcases hp with ⟨-, rfl⟩ | ⟨-, hm⟩
    · exact hc
    · obtain ⟨a1, a2, a3, a4, -⟩ := (pass_guard s now j _ m hl hm).2.2 hoff
      exact ⟨a4, a3, a1, a2⟩
  · exact guardClear_of_same
      (other_guard s e (fun now pkt h => hcl ⟨now, pkt, h⟩) hnr j _ l' hl hl') hc

/-- The state after a list of events (`= (Sys.run s evs).1`). -/
def after (s : Sys F) (evs : List Ev) : Sys F := evs.foldl (fun s e => (step s e).1) s

theorem after_snoc (s : Sys F) (pre : List Ev) (e : Ev) : after s (pre ++ [e]) = (step (after s pre) e).1 := by
  unfold after
  rw [List.foldl_append]
  rfl

/-- **Off stays clear, along runs.**  Start with the guard off and every link clear (e.g. fresh links) and
let ANY events happen that do not switch the guard on (client and uplink datagrams, ticks, reconnects,
tear-downs, other configuration changes, fault injections, any clock): at the end the guard is still off
and no link of the shell is gated, pulled, latched or in a recovery run — the stall machinery never
becomes visible in the state. -/
theorem C12_off_stays_clear_run (s : Sys F) (evs : List Ev) (hoff : s.cfg.stallDeselect = false)
    (hevs : ∀ e ∈ evs, ∀ cfg, e = .setCfg cfg → cfg.stallDeselect = false)
    (h : ∀ l ∈ s.links, GuardClear l) :
    (after s evs).cfg.stallDeselect = false ∧ ∀ l ∈ (after s evs).links, GuardClear l := by
  induction evs generalizing s with
  | nil => exact ⟨hoff, h⟩
  | cons e evs ih =>
    have hoff' : (step s e).1.cfg.stallDeselect = false := by
      by_cases hc : ∃ cfg, e = .setCfg cfg
      · obtain ⟨cfg, rfl⟩ := hc
        exact hevs _ List.mem_cons_self cfg rfl
      · rw [step_cfg s e (fun cfg h => hc ⟨cfg, h⟩)]; exact hoff
    exact ih (step s e).1 hoff' (fun x hx => hevs x (List.mem_cons_of_mem _ hx)) (off_clear_step s e hoff h)

/-- **Frame, along runs.**  At every position of every run of the shell (state `after s pre`, next event
`e`), for every link:
* if `e` makes a routing decision (a `client` datagram), the liveness / accounting fields of the link
  move only by the datagram — or a duplicate probe copy — being queued on it, exactly as forwarding moves
  them (the three cases of `C12_frame_client`);
* if `e` is any other event, the whole link after the event is the same whether the guard is on or off:
  the event does not read the switch (`C12_guard_switch_elsewhere`).
So WITHIN ONE EVENT the guard's decisions reach a link's liveness / accounting fields only through the choice of
the link a client datagram and its probe copies are queued on.

What this does NOT say (audit round 2; the sentence "the ONLY way … along any history" that stood here was too
strong): `liveAcct` also erases the timeout copy and the quality cache, and LATER events that are not routing
decisions read them — `is_timed_out` reads `connTimeoutMs`, housekeeping's `update_phase` reads `qualMult`.  The
second bullet compares two executions of ONE event from the SAME state; it does not compare two histories that
differ in the guard switch, because after the first client event their states differ in the erased fields.  The
timeout copy is written with the configured value by every pass whatever the guard does, so it carries nothing;
the quality cache of a stall-gated link is not refreshed, and that can keep the link `degraded` where the
guard-off history returns it to `live`: `C12_guard_effect_on_later_phase` states this one indirect channel, with
a concrete pair of runs, and proves that it ends there — no routing decision tells the two phases apart. -/
theorem C12_frame_run (s : Sys F) (pre : List Ev) (e : Ev) (j : Nat) (l l' : FLink F)
    (hl : (after s pre).links[j]? = some l) (hl' : (after s (pre ++ [e])).links[j]? = some l') :
    (∀ now pkt, e = .client now pkt →
      (clientTarget (after s pre) pkt now ≠ some j ∧ liveAcct l' = liveAcct l) ∨
      (clientTarget (after s pre) pkt now = some j ∧
        liveAcct l' = liveAcct (Hk.fwdLink (after s pre).failAfter l pkt (Codec.getSrtSequenceNumberS pkt) now (after s pre).failNext).1) ∨
      (clientTarget (after s pre) pkt now ≠ some j ∧ pkt ≠ [] ∧ (after s pre).reg.hasConnected = true ∧
        (after s pre).cfg.stallDeselect = true ∧
        (Codec.getSrtSequenceNumberS pkt).isSome = true ∧ (clientTarget (after s pre) pkt now).isSome = true ∧
        l.core.connected = true ∧
        (l'.core.connected = false ∨ l'.latchedSince ≠ 0 ∨ l'.silencePulled = true) ∧
        ∃ fn, fn ⊆ (after s pre).failNext ∧ (∀ a, fn.count a ≤ (after s pre).failNext.count a) ∧
          liveAcct l' = liveAcct (Hk.fwdLink (after s pre).failAfter l pkt (Codec.getSrtSequenceNumberS pkt) now fn).1)) ∧
    ((∀ now pkt, e ≠ .client now pkt) →
      ∀ b, (step (withGuard b (after s pre)) e).1.links[j]? = some l') := by
  rw [after_snoc] at hl'
  refine ⟨?_, ?_⟩
  · rintro now pkt rfl
    exact C12_frame_client (after s pre) pkt now j l l' hl hl'
  · intro hne b
    rw [(step_withGuard b (after s pre) e hne).1]
    exact hl'

/-! ### The one indirect channel: a gated link's quality cache and the later `live` / `degraded` verdict -/

/-- `setPhase`, `unDegrade` (Lemmas/Audit2BGuard.lean), spelled out (definition check). -/
theorem C12_phase_defs (p : Phase) (x : FLink F) (c : SLink F) :
    Audit2B.setPhase p x = { x with core := { x.core with phase := p } } ∧
    Audit2B.unDegrade c = { c with phase := Audit2B.unPhase c.phase } ∧
    Audit2B.unPhase .degraded = .live ∧ Audit2B.unPhase .live = .live ∧
    Audit2B.unPhase .registering = .registering ∧ ∀ n e, Audit2B.unPhase (.warming n e) = .warming n e :=
  ⟨rfl, rfl, rfl, rfl, rfl, fun _ _ => rfl⟩

/-- **The guard's effect on a LATER phase verdict — the one indirect channel, and where it ends** (audit round 2).

`C12_frame_client` / `C12_frame_run` are about the fields `liveAcct` keeps, event by event.  Among the fields it
erases, the quality cache is read later by an event that is not a routing decision: housekeeping's `update_phase`
compares `qualMult` with 0.5 to move a link between `live` and `degraded`.  The guard reaches it as follows.

1. MECHANISM (every state, datagram, link, both modes): a link that a `client` event leaves stall-gated has
   EXACTLY the quality cache it went in with — the enhanced loop skips a gated link before it consults
   `get_cached_quality_multiplier`, so the cache of a gated link is not refreshed, however stale.  (A link that is
   not gated may have it refreshed; with the guard off no link is gated.)
2. READER: `update_phase` reads, of the erased fields, only `qualMult`, and writes only the phase.  Two links
   with the same liveness / accounting fields and the same cached multiplier come out with the same such fields;
   with DIFFERENT multipliers they come out the same EXCEPT, possibly, that one is `live` where the other is
   `degraded` (`warming` and `registering` links are not affected at all).
3. WHERE IT ENDS: `live` and `degraded` carry the same weight (`phase_weight`: 1.0 both) and are both
   schedulable; `select_connection_idx` (stall gate, classic and enhanced selector, every configuration) and the
   best-quality override return the same decision and leave the same state when every `degraded` is read as
   `live` (`unDegrade`); `select_pre_registration_connection` and `is_timed_out` do not read the phase.  So the
   difference is visible in the `phase` field (telemetry, logs) and in the next `update_phase` verdict — never in
   where a packet goes, nor in any window, in-flight set, stamp or reconnect state.

`C12_guard_effect_witness` is a concrete pair of runs on which the channel is taken. -/
theorem C12_guard_effect_on_later_phase :
    (∀ (s : Sys F) (pkt : Sys.Bytes) (now j : Nat) (l l' : FLink F),
      s.links[j]? = some l → (step s (.client now pkt)).1.links[j]? = some l' → l'.stallGated = true →
      l'.qualMult = l.qualMult ∧ l'.qualAt = l.qualAt) ∧
    (∀ (a b : FLink F) (now : Nat), liveAcct a = liveAcct b →
      (a.qualMult = b.qualMult → liveAcct (a.updatePhase now) = liveAcct (b.updatePhase now)) ∧
      ∃ p, liveAcct (a.updatePhase now) = liveAcct (Audit2B.setPhase p (b.updatePhase now)) ∧
        (p = (b.updatePhase now).core.phase ∨
         ((p = .live ∨ p = .degraded) ∧
          ((b.updatePhase now).core.phase = .live ∨ (b.updatePhase now).core.phase = .degraded)))) ∧
    ((phaseWeight .live : F) = phaseWeight .degraded ∧
      ∀ c : SLink F, schedulable (Audit2B.unDegrade c) = schedulable c) ∧
    (∀ (ls : List (SLink F)) (last : Option Nat) (now : Nat) (cfg : Cfg),
      selectIdx (ls.map Audit2B.unDegrade) last now cfg =
        ((selectIdx ls last now cfg).1.map Audit2B.unDegrade, (selectIdx ls last now cfg).2)) ∧
    (∀ (ls : List (SLink F)) (now : Nat),
      bestQualityEligible (ls.map Audit2B.unDegrade) now = bestQualityEligible ls now) :=
  ⟨fun s pkt now j l l' hl hl' hg => Audit2B.client_gated_cache s pkt now j l l' hl hl' hg,
   fun a b now h => Audit2B.updatePhase_reads a b now h,
   ⟨rfl, Audit2B.schedulable_unDegrade⟩,
   Audit2B.selectIdx_unDegrade, Audit2B.bestQualityEligible_unDegrade⟩

/-! ### non-vacuity -/

/-- Two live links at `now ≈ 5000`, registered session, guard on (threshold 2, ceiling 1000 ms).  Link 0
(conn id 1, window 20000, two packets in flight: score 6666) has stale delivery proof (2000); link 1
(conn id 2, window 3000: score 3000) is idle.  Guard on: the pass latches and gates link 0, the datagram
goes to link 1.  Guard off: link 0 wins. -/
def exShell : Sys Int :=
  { links :=
      [ { (@FLink.newRegistering Int fixScalar 1 0) with
          core := { connId := 1, connected := true, phase := .live, inFlight := 2,
                    log := [(5, 100), (7, 120)], highestAcked := 4, lastReceived := some 4990, proofMs := 2000 },
          established := 1 },
        { (@FLink.newRegistering Int fixScalar 2 0) with
          core := { connId := 2, connected := true, phase := .live, window := 3000, lastReceived := some 4990 },
          established := 1 } ],
    reg := { (Srtla.Reg.Reg.new [] []) with hasConnected := true },
    cfg := { stallMinInFlight := 2, stallCeilingMs := 1000 } }

/-- An SRT data packet with sequence number 9. -/
def exData9 : List UInt8 := [0, 0, 0, 9, 0, 0, 0, 0, 1, 2, 3, 4, 9, 9, 9, 9, 42]

/-- `exShell` with link 0 `degraded` on a stale, low quality cache (0.3, computed at time 0; fixed-point 1/1000)
and link 1 with the full window, so that link 1 is the routing target with the guard on AND off. -/
def exPhase : Sys Int :=
  { exShell with links := exShell.links.mapIdx fun i l =>
      if i = 0 then { l with core := { l.core with phase := .degraded }, qualMult := 300, qualAt := 0 }
      else { l with core := { l.core with window := 60000 } } }

/-- **The channel of `C12_guard_effect_on_later_phase`, taken** (decide-checked pair of runs that differ ONLY in
the guard switch): one routed datagram at 5000, one housekeeping tick at 5010.
* Both runs route the datagram to link 1.
* Guard ON: the pass latches and gates link 0 (stale delivery proof), the enhanced loop skips it, its cache stays
  `(0.3 @ 0)`; the tick's `update_phase` sees `0.3 < 0.5` and keeps link 0 `degraded`.
* Guard OFF: link 0 is scored, its cache is refreshed to `(1.1 @ 5000)` (no NAKs inside the 30 s start-up window);
  the tick returns it to `live`.
* Apart from that label, the guard-private fields and the cache, the two end states agree: the whole accounting core
  with the phase masked, queue, keepalive stamp, reconnection state, batch regime of BOTH links. -/
theorem C12_guard_effect_witness :
    @clientTarget Int fixScalar exPhase exData9 5000 = some 1 ∧
    @clientTarget Int fixScalar (@withGuard Int false exPhase) exData9 5000 = some 1 ∧
    ((@step Int fixScalar exPhase (.client 5000 exData9)).1.links.map fun l => (l.stallGated, l.qualMult, l.qualAt)) =
      [(true, 300, 0), (false, 1100, 5000)] ∧
    ((@step Int fixScalar (@withGuard Int false exPhase) (.client 5000 exData9)).1.links.map fun l =>
      (l.stallGated, l.qualMult, l.qualAt)) = [(false, 1100, 5000), (false, 1100, 5000)] ∧
    (@after Int fixScalar exPhase [.client 5000 exData9, .hk 5010]).links.map (·.core.phase) = [.degraded, .live] ∧
    (@after Int fixScalar (@withGuard Int false exPhase) [.client 5000 exData9, .hk 5010]).links.map (·.core.phase)
      = [.live, .live] ∧
    ((@after Int fixScalar exPhase [.client 5000 exData9, .hk 5010]).links.map fun l =>
        ({ l.core with phase := .live } : Conn)) =
      ((@after Int fixScalar (@withGuard Int false exPhase) [.client 5000 exData9, .hk 5010]).links.map fun l =>
        ({ l.core with phase := .live } : Conn)) ∧
    ((@after Int fixScalar exPhase [.client 5000 exData9, .hk 5010]).links.map fun l =>
        (l.queue, l.lastKeepaliveSent, l.established, l.lastAttemptMs)) =
      ((@after Int fixScalar (@withGuard Int false exPhase) [.client 5000 exData9, .hk 5010]).links.map fun l =>
        (l.queue, l.lastKeepaliveSent, l.established, l.lastAttemptMs)) ∧
    ((@after Int fixScalar exPhase [.client 5000 exData9, .hk 5010]).links.map fun l =>
        (l.failCount, l.graceDeadline, l.regime, l.lastFlushMs, l.connTimeoutMs)) =
      ((@after Int fixScalar (@withGuard Int false exPhase) [.client 5000 exData9, .hk 5010]).links.map fun l =>
        (l.failCount, l.graceDeadline, l.regime, l.lastFlushMs, l.connTimeoutMs)) := by
  refine ⟨by decide +kernel, by decide +kernel, by decide +kernel, by decide +kernel, by decide +kernel,
    by decide +kernel, by decide +kernel, by decide +kernel, by decide +kernel⟩

/-- The mechanism clause of `C12_guard_effect_on_later_phase` instantiated on the run above: link 0 comes out of
the client event gated, hence with the cache it went in with. -/
example := (@C12_guard_effect_on_later_phase Int fixScalar).1 exPhase exData9 5000 0 _ _ rfl rfl (by decide +kernel)

/-- Cases 1 and 2 of `C12_frame_client`, and `C12_guard_decides_only_the_route` with DIFFERENT routes:
guard on → target 1, link 0 is latched + gated by the pass but its queue, log, in-flight count, window,
stamps are untouched; guard off → target 0.  In both executions the link that is not the target keeps its
liveness / accounting fields (queue length, in-flight, window shown). -/
example :
    @clientTarget Int fixScalar exShell exData9 5000 = some 1 ∧
    @clientTarget Int fixScalar (@withGuard Int false exShell) exData9 5000 = some 0 ∧
    ((@step Int fixScalar exShell (.client 5000 exData9)).1.links.map fun l =>
      (l.latchedSince, l.stallGated, l.queue.length, l.core.inFlight, l.core.window)) =
      [(5000, true, 0, 2, 20000), (0, false, 1, 0, 3000)] ∧
    ((@step Int fixScalar (@withGuard Int false exShell) (.client 5000 exData9)).1.links.map fun l =>
      (l.latchedSince, l.stallGated, l.queue.length, l.core.inFlight, l.core.window)) =
      [(0, false, 1, 2, 20000), (0, false, 0, 0, 3000)] := by
  decide +kernel

/-- Case 3 (probe copy): link 0 gated with its probe counter at 99 — the next routed data packet puts a
duplicate on it too (queue length 1 on BOTH links); with the counter at 0 it does not. -/
example :
    let s99 : Sys Int := { exShell with links := exShell.links.mapIdx fun i l =>
      if i = 0 then { l with probeCounter := 99 } else l }
    ((@step Int fixScalar s99 (.client 5000 exData9)).1.links.map fun l =>
      (l.stallGated, l.probeCounter, l.queue.length)) = [(true, 0, 1), (false, 0, 1)] ∧
    ((@step Int fixScalar exShell (.client 5000 exData9)).1.links.map fun l =>
      (l.stallGated, l.probeCounter, l.queue.length)) = [(true, 1, 0), (false, 0, 1)] := by
  decide +kernel

/-- Hypotheses of `C12_off_clears_sys` / `C12_off_stays_clear_run` met: after latching link 0, switch the
guard off — the next routed datagram clears everything, and it stays clear through an uplink datagram, a
flush, a housekeeping tick and more datagrams. -/
example :
    ((@after Int fixScalar (@step Int fixScalar exShell (.client 5000 exData9)).1
        [.setCfg { stallDeselect := false }, .client 5001 exData9]).links.map fun l =>
      (l.stallGated, l.silencePulled, l.latchedSince, l.recoverySince)) =
      [(false, false, 0, 0), (false, false, 0, 0)] ∧
    ((@after Int fixScalar (@withGuard Int false exShell)
        [.client 5000 exData9, .uplink 5001 1 [0x91, 0x00, 0, 0, 0, 0, 0, 5], .flush 5020, .hk 6000,
         .client 9000 exData9, .client 20000 exData9]).links.map fun l =>
      (l.stallGated, l.silencePulled, l.latchedSince, l.recoverySince)) =
      [(false, false, 0, 0), (false, false, 0, 0)] := by
  decide +kernel

example : (@withGuard Int false exShell).cfg.stallDeselect = false ∧
    ∀ l ∈ (@withGuard Int false exShell).links, GuardClear l := by
  refine ⟨rfl, ?_⟩
  intro l hl
  simp only [withGuard, exShell, List.mem_cons, List.not_mem_nil, or_false] at hl
  rcases hl with rfl | rfl <;> exact ⟨rfl, rfl, rfl, rfl⟩

end shellEvents

end Srtla.Props.C12
