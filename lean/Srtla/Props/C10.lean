import Srtla.Model.Sys
import Srtla.Spec.ClassicRef
import Srtla.Lemmas.Conn
import Srtla.Lemmas.SelectFrame
import Srtla.Lemmas.ClassicRef
import Srtla.Lemmas.ClassicRun
import Srtla.Lemmas.Audit2BClassic
import Srtla.Props.C06
/-!
# C10 — classic mode reproduces the reference `srtla_send` algorithm

The yardstick is `Srtla/Spec/ClassicRef.lean`: an import-free transcription of the reference
`srtla_send.c` rules (`refSelect`, `refAck`, `refGlobal`, `refNak`, `refTick`, and the window-vector
events `refSackEvent` / `refNakEvent`).  The theorems below relate the shell model
(`Model/Sys.lean`, run bit-exactly against the real event-loop arms) to it.

All theorems hold for an arbitrary scalar type `F` with an arbitrary `[Scalar F]` instance
(`Float` in the compiled driver): classic mode never reads a scalar.

The last clause of C06 ("classic mode never applies time-based recovery") is
`C10_no_time_recovery`.
-/
namespace Srtla.Props.C10
open Srtla Srtla.Gen Srtla.Conn Srtla.Select Srtla.Link Srtla.Sys Srtla.Spec.ClassicRef Srtla.ClassicRef

variable {F : Type}

/-! ## 1. Choice -/

/-- The Rust score is the reference score `window / (in_flight + queued + 1)` on every connected
link whose counts are non-negative and whose sum `+ 1` fits an `i32` (the saturating adds and the
`max(.., 1)` are inert there); a disconnected link scores `-1`, which never beats the initial best
score `-1`, so it is never chosen — the reference skips it as timed out. -/
theorem C10_score (c : SLink F) :
    (c.connected = false → Select.score c = -1) ∧
    (c.connected = true → 0 ≤ c.inFlight → 0 ≤ c.queued → c.inFlight + c.queued + 1 ≤ 2147483647 →
      Select.score c = c.window / (c.inFlight + c.queued + 1) ∧
      Select.score c = refScore { timedOut := false, window := c.window, inFlight := c.inFlight + c.queued }) := by
  refine ⟨fun h => by simp [Select.score, h], fun hc h0 hq hm => ?_⟩
  have := score_eq_ref c hc ⟨h0, hq, hm⟩
  exact ⟨this, this⟩

example :
    Select.score ({ window := 20000, inFlight := 6, queued := 3, srtt := (), rttMin := (), bitrate := (),
                    qualMult := () } : SLink Unit) = 2000 ∧
    Select.score ({ connected := false, srtt := (), rttMin := (), bitrate := (), qualMult := () } : SLink Unit) = -1 ∧
    -- at the edge of the domain the saturating adds are still exact
    Select.score ({ window := 60000, inFlight := 2147483640, queued := 6, srtt := (), rttMin := (),
                    bitrate := (), qualMult := () } : SLink Unit) = 0 := by
  decide

/-- The classic selector IS the reference loop (same fold: skip, integer score, strict `>`, first
maximum, initial best score `-1`) on the reference view `toRef` of the links it is given: a link is
skipped iff timed out, still registering, gated, or disconnected. -/
theorem C10_selector (ls : List (SLink F)) (now : Nat)
    (hdom : ∀ c ∈ ls, 0 ≤ c.inFlight ∧ 0 ≤ c.queued ∧ c.inFlight + c.queued + 1 ≤ 2147483647) :
    classicSelect ls now =
      refSelect (ls.map fun c =>
        { timedOut := isTimedOut c now || !schedulable c || c.stallGated || !c.connected,
          window := c.window, inFlight := c.inFlight + c.queued }) :=
  classicSelect_eq_refSelect ls now hdom

/-- Two links with equal score 2000 and a better third one hidden behind a time-out: the first
maximum (index 0) wins; the model and the reference agree. -/
example :
    let ls : List (SLink Unit) :=
      [ { window := 20000, inFlight := 9, lastReceived := some 4990, srtt := (), rttMin := (), bitrate := (), qualMult := () },
        { window := 40000, inFlight := 12, queued := 7, lastReceived := some 4990, srtt := (), rttMin := (), bitrate := (),
          qualMult := () },
        { window := 60000, lastReceived := some 10, srtt := (), rttMin := (), bitrate := (), qualMult := () } ]
    (∀ c ∈ ls, 0 ≤ c.inFlight ∧ 0 ≤ c.queued ∧ c.inFlight + c.queued + 1 ≤ 2147483647) ∧
    classicSelect ls 6000 = some 0 := by
  decide

section scalar
variable [Scalar F]

omit [Scalar F] in
/-- What the reference sees of the system (definition check, by `rfl`): one `RefLink` per link,
usable = connected ∧ phase ≠ registering ∧ not timed out under the CONFIGURED timeout
`s.cfg.connTimeoutMs` (the selection pass stamps it on every link before deciding), in-flight =
logged in-flight + packets still waiting in the link's batch queue. -/
theorem C10_view (s : Sys F) (now : Nat) :
    refView s now = s.links.map fun l =>
      { timedOut := !(l.core.connected && l.core.phase != .registering &&
                      !timedOutAt l.core.connected l.established l.graceDeadline l.core.lastReceived
                        s.cfg.connTimeoutMs now),
        window := l.core.window,
        inFlight := l.core.inFlight + (l.queue.length : Int) } := rfl

/-- `timedOutAt` is `is_timed_out` with the timeout passed explicitly. -/
theorem C10_view_timeout (l : FLink F) (T now : Nat) :
    timedOutAt l.core.connected l.established l.graceDeadline l.core.lastReceived T now =
      Select.isTimedOut { l.toSLink with connTimeoutMs := T } now := rfl

/-- **Choice.**  Classic mode, stall guard off, after registration, any non-empty datagram from the
SRT endpoint — data, control, retransmit-flagged data, inside or outside a critical window
(`s.critDeadline` is arbitrary): the shell routes it exactly as the reference does.

* If the reference picks link `i`, then `i` is a link, `last_selected` becomes `i`, every other
  link only has its guard fields cleared (nothing queued, nothing sent, no probe copy), and the
  datagram `Landed` on link `i`: appended to its batch queue behind what was already waiting, or —
  batch threshold reached — the whole queue with this datagram last is put on link `i`'s socket, or
  (injected socket error on that flush) the batch is lost and link `i` is torn down for recovery.
* If the reference picks nobody, nothing is queued or sent anywhere and `last_selected` is kept.

The choice depends on nothing but `refView`: not on weak / loss-degraded / CC target / quality
cache / RTT / previous selection / stall history / packet bytes (`C10_choice_noninterference`). -/
theorem C10_choice (s : Sys F) (pkt : List UInt8) (now : Nat)
    (hclassic : s.cfg.classic = true) (hguard : s.cfg.stallDeselect = false)
    (hreg : s.reg.hasConnected = true) (hpkt : pkt ≠ [])
    (hdom : ∀ l ∈ s.links, 0 ≤ l.core.inFlight ∧ l.core.inFlight + l.queue.length + 1 ≤ 2147483647) :
    (∀ i, refSelect (refView s now) = some i →
      ∃ l l' wire, s.links[i]? = some l ∧
        (handleSrtPacket s pkt now).1.lastSelected = some i ∧
        (handleSrtPacket s pkt now).1.links[i]? = some l' ∧
        (∀ j, j ≠ i → (handleSrtPacket s pkt now).1.links[j]? = (s.links[j]?).map (clearGuard s.cfg)) ∧
        (handleSrtPacket s pkt now).2.wire = wire ∧
        Landed (clearGuard s.cfg l) pkt (Codec.getSrtSequenceNumberS pkt) now s.failNext l' wire) ∧
    (refSelect (refView s now) = none →
      (handleSrtPacket s pkt now).1.links = s.links.map (clearGuard s.cfg) ∧
      (handleSrtPacket s pkt now).1.lastSelected = s.lastSelected ∧
      (handleSrtPacket s pkt now).2.wire = []) := by
  have hdom' : ∀ c ∈ (s.links.map FLink.toSLink).map (guardOff s.cfg), ScoreDom c.inFlight c.queued := by
    intro c hc
    rw [List.map_map] at hc
    obtain ⟨l, hl, rfl⟩ := List.mem_map.1 hc
    obtain ⟨h0, h1⟩ := hdom l hl
    exact ⟨h0, Int.natCast_nonneg _, h1⟩
  have hsel : classicSelect ((s.links.map FLink.toSLink).map (guardOff s.cfg)) now = refSelect (refView s now) := by
    rw [classicSelect_eq_refSelect _ _ hdom']
    congr 1
    rw [List.map_map, List.map_map]
    exact List.map_congr_left fun l _ => toRef_guardOff s.cfg now l
  have hstep := handleSrtPacket_classic s pkt now hclassic hguard hreg hpkt
  constructor
  · intro i hi
    rw [← hsel] at hi
    obtain ⟨c, hc, -, -⟩ := classicSelect_eligible _ now i hi
    rw [hi] at hstep
    have hlt : i < s.links.length := by
      have := (List.getElem?_eq_some_iff.1 hc).1
      simpa using this
    have hl : s.links[i]? = some s.links[i] := List.getElem?_eq_getElem hlt
    have hl' : (s.links.map (clearGuard s.cfg))[i]? = some (clearGuard s.cfg s.links[i]) := by
      rw [List.getElem?_map, hl]; rfl
    obtain ⟨l', wire, fn, trk, e, hland, -⟩ :=
      forwardVia_cases { s with links := s.links.map (clearGuard s.cfg) } i pkt
        (Codec.getSrtSequenceNumberS pkt) now _ hl'
    dsimp only at hstep
    rw [e] at hstep
    rw [hstep]
    refine ⟨s.links[i], l', wire, hl, rfl, ?_, ?_, rfl, hland⟩
    · show (setAt (s.links.map (clearGuard s.cfg)) i l')[i]? = some l'
      rw [getElem?_setAt, if_pos rfl, hl']; rfl
    · intro j hj
      show (setAt (s.links.map (clearGuard s.cfg)) i l')[j]? = _
      rw [getElem?_setAt, if_neg hj, List.getElem?_map]
  · intro hn
    rw [← hsel] at hn
    rw [hn] at hstep
    rw [hstep]
    exact ⟨rfl, rfl, rfl⟩

omit [Scalar F] in
/-- `Landed`, spelled out (definition check). -/
theorem C10_landed_def (l : FLink F) (pkt : List UInt8) (seq : Option Nat) (now : Nat) (failNext : List Nat)
    (l' : FLink F) (wire : List (Nat × List UInt8)) :
    Landed l pkt seq now failNext l' wire ↔
      (((l.queue ++ [(pkt, seq, now)]).length < l.regime.batchSize ∧ l'.queue = l.queue ++ [(pkt, seq, now)] ∧
          l'.core = l.core ∧ wire = []) ∨
       (l.regime.batchSize ≤ (l.queue ++ [(pkt, seq, now)]).length ∧ failNext.contains l.core.connId = false ∧
          l'.queue = [] ∧ l'.core.window = l.core.window ∧ l'.core.cong = l.core.cong ∧
          wire = (l.queue ++ [(pkt, seq, now)]).map (fun it => (l.core.connId, it.1))) ∨
       (l.regime.batchSize ≤ (l.queue ++ [(pkt, seq, now)]).length ∧ failNext.contains l.core.connId = true ∧
          l'.queue = [] ∧ l'.core.window = 20000 ∧ l'.core.connected = false ∧ l'.core.cong = l.core.cong ∧
          -- a failed send puts a PREFIX of the batch on the wire (none of it for a plain `failNext` injection,
          -- the first `min k len` datagrams for `failAfter cid k`), the rest is lost
          ∃ k, wire = ((l.queue ++ [(pkt, seq, now)]).take k).map (fun it => (l.core.connId, it.1)))) := Iff.rfl

/-- **Non-interference.**  Two systems (classic, guard off, registered) whose links agree on
`(connected, phase, window, in_flight, queue length, last_received, established, grace deadline)`
and whose configured timeouts agree make the same choice at the same instant, for ANY two
datagrams — whatever `weak`, `loss_degraded`, CC target, quality cache, RTT state, bitrate,
`last_selected`, stall-guard history, critical deadline or packet bytes are. -/
theorem C10_choice_noninterference (s s' : Sys F) (pkt pkt' : List UInt8) (now : Nat)
    (hclassic : s.cfg.classic = true) (hclassic' : s'.cfg.classic = true)
    (hguard : s.cfg.stallDeselect = false) (hguard' : s'.cfg.stallDeselect = false)
    (hreg : s.reg.hasConnected = true) (hreg' : s'.reg.hasConnected = true)
    (hpkt : pkt ≠ []) (hpkt' : pkt' ≠ [])
    (hdom : ∀ l ∈ s.links, 0 ≤ l.core.inFlight ∧ l.core.inFlight + l.queue.length + 1 ≤ 2147483647)
    (hdom' : ∀ l ∈ s'.links, 0 ≤ l.core.inFlight ∧ l.core.inFlight + l.queue.length + 1 ≤ 2147483647)
    (hkeys : s.links.map keyOf = s'.links.map keyOf) (hT : s.cfg.connTimeoutMs = s'.cfg.connTimeoutMs) :
    (∃ i, (handleSrtPacket s pkt now).1.lastSelected = some i ∧
          (handleSrtPacket s' pkt' now).1.lastSelected = some i ∧
          (∃ l', (handleSrtPacket s pkt now).1.links[i]? = some l') ∧
          (∃ l', (handleSrtPacket s' pkt' now).1.links[i]? = some l') ∧
          refSelect (refView s now) = some i) ∨
    ((handleSrtPacket s pkt now).2.wire = [] ∧ (handleSrtPacket s' pkt' now).2.wire = [] ∧
      (handleSrtPacket s pkt now).1.links = s.links.map (clearGuard s.cfg) ∧
      (handleSrtPacket s' pkt' now).1.links = s'.links.map (clearGuard s'.cfg) ∧
      refSelect (refView s now) = none) := by
  have hmm : ∀ (T : Nat) (ls : List (FLink F)),
      ls.map (fun l => refOfKey T now (keyOf l)) = (ls.map keyOf).map (refOfKey T now) := by
    intro T ls; rw [List.map_map]; rfl
  have hv : refView s now = refView s' now := by
    unfold refView
    rw [hmm, hmm, hkeys, hT]
  obtain ⟨a1, a2⟩ := C10_choice s pkt now hclassic hguard hreg hpkt hdom
  obtain ⟨b1, b2⟩ := C10_choice s' pkt' now hclassic' hguard' hreg' hpkt' hdom'
  cases h : refSelect (refView s now) with
  | some i =>
    left
    obtain ⟨l, l1, w, -, x1, x2, -, -, -⟩ := a1 i h
    obtain ⟨l', l1', w', -, y1, y2, -, -, -⟩ := b1 i (hv ▸ h)
    exact ⟨i, x1, y1, ⟨l1, x2⟩, ⟨l1', y2⟩, rfl⟩
  | none =>
    right
    obtain ⟨x1, -, x3⟩ := a2 h
    obtain ⟨y1, -, y3⟩ := b2 (hv ▸ h)
    exact ⟨x3, y3, x1, y1, rfl⟩

end scalar

/-! ### Non-vacuity of the choice theorems

Three links at `now = 1000`, classic, guard off, registered, configured timeout 3000 ms while the
links still carry the stale per-link value 5000:
* link 0: window 20000, 9 in flight, nothing queued  → score 2000;
* link 1: window 40000, 12 in flight + 3 queued       → score 2500  (without the queue it would be 3076);
* link 2: window 60000, idle, but last heard at 0 … its score 60000 would win under the stale
  5000 ms timeout; under the CONFIGURED 3000 ms it is timed out at `now = 4000`.
Link 0 is flagged weak / loss-degraded with a CC target and a poor cached quality, a critical window is
open, the previous selection is link 0 and the datagram is a retransmit-flagged data packet: none of
that matters.  The reference and the shell both pick link 1. -/

def exLink (id : Nat) (w inf : Int) (heard : Nat) (q : List QItem) : FLink Int :=
  { core := { connId := id, connected := true, window := w, inFlight := inf, lastReceived := some heard,
              phase := .live },
    rtt := @Rtt.RttTracker.new Int fixScalar, bitrate := @Rtt.Bitrate.new Int fixScalar 0,
    established := 1, qualMult := 1000, queue := q, connTimeoutMs := 5000 }

def exSys : Sys Int :=
  { links := [ { exLink 11 20000 9 3900 [] with weak := true, lossDegraded := true, ccTarget := 500000,
                                                qualMult := 100, latchedSince := 50, stallGated := true },
               exLink 12 40000 12 3900 [([1], none, 3990), ([2], none, 3991), ([3], none, 3992)],
               exLink 13 60000 0 0 [] ],
    reg := { id := [], probeId := [], hasConnected := true },
    lastSelected := some 0, critDeadline := 9000,
    cfg := { classic := true, stallDeselect := false, connTimeoutMs := 3000 } }

/-- SRT data packet, sequence number 5, retransmit flag set (byte 4, bit 2). -/
def exPkt : List UInt8 := [0, 0, 0, 5, 4, 0, 0, 0, 0, 0, 0, 0, 0, 0, 0, 0, 1, 2, 3]

example :
    exSys.cfg.classic = true ∧ exSys.cfg.stallDeselect = false ∧ exSys.reg.hasConnected = true ∧ exPkt ≠ [] ∧
    (∀ l ∈ exSys.links, 0 ≤ l.core.inFlight ∧ l.core.inFlight + l.queue.length + 1 ≤ 2147483647) ∧
    Codec.isSrtDataRetransmitS exPkt = true ∧ Codec.getSrtSequenceNumberS exPkt = some 5 ∧
    (refView exSys 4000).map refScore = [2000, 2500, 60000] ∧
    (refView exSys 4000).map (·.timedOut) = [false, false, true] ∧
    refSelect (refView exSys 4000) = some 1 ∧
    (@handleSrtPacket Int fixScalar exSys exPkt 4000).1.lastSelected = some 1 ∧
    ((@handleSrtPacket Int fixScalar exSys exPkt 4000).1.links.map (·.queue.length)) = [0, 4, 0] ∧
    ((@handleSrtPacket Int fixScalar exSys exPkt 4000).1.links.map (·.stallGated)) = [false, false, false] ∧
    (@handleSrtPacket Int fixScalar exSys exPkt 4000).2.wire = [] ∧
    -- `C10_windows_client`: the client event moved no window
    ((@handleSrtPacket Int fixScalar exSys exPkt 4000).1.links.map (·.core.window)) = [20000, 40000, 60000] := by
  decide +kernel

/-- Non-interference, concretely: `exSys'` differs from `exSys` in every field a classic decision must
not read (gates, CC target, quality cache, stall history, per-link stale timeout, previous selection,
critical deadline, connection ids, queue CONTENTS) and gets a different datagram (a 1-byte control
packet): same keys, same configured timeout, same choice. -/
def exSys' : Sys Int :=
  { links := [ exLink 21 20000 9 3900 [],
               { exLink 22 40000 12 3900 [([9], some 1, 1), ([9], some 2, 2), ([9], some 3, 3)] with
                   weak := true, lossDegraded := true, qualMult := 1, silencePulled := true, latchedSince := 7,
                   gateEvents := 3, connTimeoutMs := 1, ccTarget := 1 },
               { exLink 23 60000 0 0 [] with qualMult := 5000 } ],
    reg := { id := [], probeId := [], hasConnected := true },
    lastSelected := some 2, critDeadline := 0,
    cfg := { classic := true, stallDeselect := false, connTimeoutMs := 3000, quality := false, stallMinInFlight := 1 } }

example :
    exSys.links.map (@keyOf Int) = exSys'.links.map (@keyOf Int) ∧
    exSys.cfg.connTimeoutMs = exSys'.cfg.connTimeoutMs ∧
    exSys'.cfg.classic = true ∧ exSys'.cfg.stallDeselect = false ∧ exSys'.reg.hasConnected = true ∧
    (∀ l ∈ exSys'.links, 0 ≤ l.core.inFlight ∧ l.core.inFlight + l.queue.length + 1 ≤ 2147483647) ∧
    (@handleSrtPacket Int fixScalar exSys exPkt 4000).1.lastSelected = some 1 ∧
    (@handleSrtPacket Int fixScalar exSys' [0x80] 4000).1.lastSelected = some 1 := by
  decide +kernel

/-! ## 2. Windows -/

/-- The saturating multiply of the ACK rule never changes the verdict: for a non-negative in-flight
count and any window below `i32::MAX` (in particular every window in 1000..60000),
`in_flight.saturating_mul(1000) > window` iff `in_flight × 1000 > window`. -/
theorem C10_ack_condition (inFlight w : Int) (h0 : 0 ≤ inFlight) (hw : w < 2147483647) :
    satMulI32 inFlight 1000 > w ↔ inFlight * 1000 > w :=
  satMul_gt_iff inFlight w h0 hw

example : satMulI32 2147483647 1000 = 2147483647 ∧ (satMulI32 2147483647 1000 > 60000) ∧
    ((2147483647 : Int) * 1000 > 60000) ∧ ¬ (satMulI32 20 1000 > 20000) ∧ (satMulI32 21 1000 > 20000) := by
  decide

/-- **Window rules on one connection** (classic mode) are the reference rules:
* `handle_srtla_ack_specific`: if the number is in the link's log it is erased, in-flight becomes
  the new log length `n`, and the window becomes `refAck window n` (`+29` capped at 60000 iff
  `n × 1000 > window`); otherwise the connection is untouched;
* `handle_srtla_ack_global`: `refGlobal` (`+1` capped at 60000) iff connected and has received
  anything, nothing else changes;
* `handle_nak`: if the number is in the log, window becomes `refNak window` (`-100` floored at
  1000); otherwise the connection is untouched. -/
theorem C10_windows (c : Conn) (seq : Int) (now : Nat) (hw : c.window < 2147483647) :
    (c.log.any (·.1 == seq) = true →
      c.srtlaAck seq true now =
        ({ c with log := logErase c.log seq, inFlight := ((logErase c.log seq).length : Int), proofMs := now,
                  window := refAck c.window ((logErase c.log seq).length : Int) }, true)) ∧
    (c.log.any (·.1 == seq) = false → c.srtlaAck seq true now = (c, false)) ∧
    c.ackGlobal = (if c.connected && c.lastReceived.isSome then { c with window := refGlobal c.window } else c) ∧
    (c.log.any (·.1 == seq) = true →
      (c.nak seq now).2 = true ∧ (c.nak seq now).1.window = refNak c.window ∧
      (c.nak seq now).1.inFlight = ((logErase c.log seq).length : Int)) ∧
    (c.log.any (·.1 == seq) = false → c.nak seq now = (c, false)) :=
  ⟨fun h => srtlaAck_classic_found c seq now h hw, fun h => srtlaAck_notfound c seq true now h,
   ackGlobal_eq c,
   fun h => ⟨(nak_found c seq now h).1, (nak_found c seq now h).2.1, (nak_found c seq now h).2.2.2.2.2⟩,
   fun h => nak_notfound c seq now h⟩

/-- Window 20000 with 22 logged packets: an earned ACK leaves 21 in flight, 21000 > 20000, so
`+29`; the global pass adds 1; a NAK takes 100. -/
example :
    let c : Conn := { connId := 1, connected := true, lastReceived := some 5, window := 20000, inFlight := 22,
                      log := (List.range 22).map fun (k : Nat) => ((k : Int), (0 : Nat)) }
    c.window < 2147483647 ∧ c.log.any (·.1 == 7) = true ∧
    (c.srtlaAck 7 true 100).1.window = 20029 ∧ (c.srtlaAck 7 true 100).1.inFlight = 21 ∧
    c.ackGlobal.window = 20001 ∧ (c.nak 7 100).1.window = 19900 ∧ (c.srtlaAck 99 true 100).1.window = 20000 := by
  decide

/-- The same rules, read through C06's operation semantics (`Props/C06.lean`: `applyOp`, tied to
the connection model by `C06_ops_are_conn_ops`): C06's classic-mode ops are the reference rules. -/
theorem C10_windows_ops (s : C06.WS) (n : Int) (now : Nat) (h0 : 0 ≤ n) (hw : s.w < 2147483647) :
    (C06.applyOp s (.ackClassic n)).w = refAck s.w n ∧ (C06.applyOp s (.ackClassic n)).cong = s.cong ∧
    (C06.applyOp s .ackGlobal).w = (if s.connected && s.heard then refGlobal s.w else s.w) ∧
    (C06.applyOp s (.nak now)).w = refNak s.w := by
  obtain ⟨hF, hC, -, -, -, hD, -, -⟩ := wconsts
  refine ⟨ackClassic_eq_refAck s.w n h0 hw, rfl, ?_, ?_⟩
  · simp only [C06.applyOp, refGlobal, hC]
    split <;> rfl
  · simp only [C06.applyOp, Cong.handleNak, refNak, hF, hD]

example :
    (C06.applyOp { w := 59990, cong := {}, connected := true, heard := true } (.ackClassic 70)).w = 60000 ∧
    (C06.applyOp { w := 60000, cong := {}, connected := true, heard := true } .ackGlobal).w = 60000 ∧
    (C06.applyOp { w := 1050, cong := {}, connected := true, heard := true } (.nak 9)).w = 1000 ∧
    refAck 59990 70 = 60000 ∧ refGlobal 60000 = 60000 ∧ refNak 1050 = 1000 := by
  decide

/-- **Fan-out.**  One SRTLA-acknowledged number (classic mode): the earned rule is applied to at
most one link — one whose log holds the number — and then the global `+1` pass runs over EVERY link
exactly once, whether or not anybody held the number.  One NAKed number: at most one link — one
whose log holds the number — is charged. -/
theorem C10_windows_fanout (cs : Links) (idx : Nat) (seq : Int) (trk : Tracker) (nak now : Nat) :
    (∃ ls1, evSrtlaAck cs idx seq true now = ls1.map Conn.ackGlobal ∧
      (ls1 = cs ∨ ∃ k c, cs[k]? = some c ∧ c.log.any (·.1 == seq) = true ∧
        ls1 = cs.set k (c.srtlaAck seq true now).1)) ∧
    (attributeNak cs trk nak now = (cs, none) ∨
      ∃ k c, cs[k]? = some c ∧ c.log.any (·.1 == toI32 nak) = true ∧
        attributeNak cs trk nak now = (cs.set k (c.nak (toI32 nak) now).1, some k)) := by
  constructor
  · obtain ⟨ls1, e, h⟩ := evSrtlaAck_cases cs idx seq true now
    refine ⟨ls1, e, ?_⟩
    rcases h with h | ⟨k, c, h1, h2, h3⟩
    · exact Or.inl h
    · exact Or.inr ⟨k, c, h1, by rw [← srtlaAck_snd c seq true now]; exact h2, h3⟩
  · rcases attributeNak_cases cs trk nak now with h | ⟨k, c, h1, h2, h3⟩
    · exact Or.inl h
    · exact Or.inr ⟨k, c, h1, by rw [← nak_snd c (toI32 nak) now]; exact h2, h3⟩

/-- Number 7 arrives on link 0 but is held by link 1: link 1 earns `+29`, then all three live links
get `+1` (the unconnected one does not); an unknown number still gives the `+1`; the NAK of 7 is
charged to link 1 only. -/
example :
    let cs : Links :=
      [ { connId := 1, connected := true, lastReceived := some 5, window := 20000 },
        { connId := 2, connected := true, lastReceived := some 5, window := 1000, inFlight := 3,
          log := [(6, 0), (7, 0), (8, 0)] },
        { connId := 3, connected := false, window := 30000 } ]
    (evSrtlaAck cs 0 7 true 100).map (·.window) = [20001, 1030, 30000] ∧
    (evSrtlaAck cs 0 99 true 100).map (·.window) = [20001, 1001, 30000] ∧
    (attributeNak cs Tracker.empty 7 100).2 = some 1 ∧
    (attributeNak cs Tracker.empty 7 100).1.map (·.window) = [20000, 1000, 30000] := by
  decide

section scalar2
variable [Scalar F]

/-- **Uplink events, fan-out part** (`process_connection_events`, classic mode): on the window vector
`wv` = `(window, connected ∧ heard)` of all links, the cumulative SRT ACKs move nothing; each
SRTLA-acknowledged number is exactly one reference SACK event (`refSackEvent`: earned `+29` rule on
at most one link, then `+1` on every live link); each NAKed number is at most one reference NAK
event (`refNakEvent`, `-100` floored at 1000 on one link).  Nothing else touches a window. -/
theorem C10_windows_uplink (s : Sys F) (idx : Nat) (inc : Incoming) (now : Nat)
    (hclassic : s.cfg.classic = true) (hrange : ∀ l ∈ s.links, l.core.window ≤ 60000) :
    ∃ (es : List (Option (Nat × Int))) (ns : List Nat),
      es.length = inc.sacks.length ∧ ns.length ≤ inc.naks.length ∧
      wv (cores (processConnectionEvents s idx inc now).1.links) =
        ns.foldl refNakEvent (es.foldl refSackEvent (wv (cores s.links))) :=
  processConnectionEvents_wv s idx inc now hclassic hrange

omit [Scalar F] in
/-- `wv`, spelled out (definition check). -/
theorem C10_wv_def (ls : List (FLink F)) :
    wv (cores ls) = ls.map fun l => (l.core.window, l.core.connected && l.core.lastReceived.isSome) := by
  unfold wv cores live
  rw [List.map_map]
  rfl

/-- **Uplink events, whole arm** (`handle_uplink_packet`, classic mode): either nothing changes
(empty datagram / unknown link), or the arrival-link bookkeeping yields an intermediate window
vector `ws0` that agrees with the old windows everywhere except that a REG_ERR tears the arrival
link down to the initial window 20000 (not live), and the windows after the event are `ws0` moved by
reference SACK / NAK events only. -/
theorem C10_windows_uplink_packet (s : Sys F) (connId : Nat) (data : List UInt8) (now : Nat)
    (hclassic : s.cfg.classic = true) (hrange : ∀ l ∈ s.links, l.core.window ≤ 60000) :
    (handleUplinkPacket s connId data now).1 = s ∨
    ∃ (ws0 : WVec) (es : List (Option (Nat × Int))) (ns : List Nat),
      ws0.length = s.links.length ∧
      (∀ (j : Nat) l, s.links[j]? = some l →
        ∃ p, ws0[j]? = some p ∧ (p.1 = l.core.window ∨ (p.1 = 20000 ∧ p.2 = false))) ∧
      wv (cores (handleUplinkPacket s connId data now).1.links) = ns.foldl refNakEvent (es.foldl refSackEvent ws0) := by
  rcases handleUplinkPacket_cases s connId data now with h | ⟨idx, l, l2, reg1, inc, hl, hw, e⟩
  · exact Or.inl h
  · right
    have hr1 : ∀ x ∈ setAt s.links idx l2, x.core.window ≤ 60000 := by
      intro x hx
      rcases mem_setAt _ _ _ _ hx with rfl | hm
      · rcases hw with hw | ⟨hw, -⟩
        · rw [hw]; exact hrange l (List.mem_of_getElem? hl)
        · rw [hw]; omega
      · exact hrange x hm
    obtain ⟨es, ns, -, -, hwv⟩ :=
      processConnectionEvents_wv { s with links := setAt s.links idx l2, reg := reg1 } idx inc now hclassic hr1
    refine ⟨wv (cores (setAt s.links idx l2)), es, ns, ?_, ?_, by rw [e]; exact hwv⟩
    · rw [length_wv, length_cores, length_setAt]
    · intro j x hx
      rw [C10_wv_def, List.getElem?_map, getElem?_setAt]
      by_cases hj : j = idx
      · subst hj
        rw [if_pos rfl, hx]
        have : x = l := by rw [hl] at hx; exact (Option.some.inj hx).symm
        subst this
        refine ⟨_, rfl, ?_⟩
        rcases hw with hw | ⟨hw, hc⟩
        · exact Or.inl hw
        · exact Or.inr ⟨hw, by simp [hc]⟩
      · rw [if_neg hj, hx]
        exact ⟨_, rfl, Or.inl rfl⟩

/-- **Flush events** move no window, congestion state, connected flag or phase (a failed periodic
flush only warns). -/
theorem C10_windows_flush (s : Sys F) (now : Nat) :
    (flushAllBatches s now).1.links.length = s.links.length ∧
    ∀ (j : Nat) l, s.links[j]? = some l → ∃ l', (flushAllBatches s now).1.links[j]? = some l' ∧
      l'.core.window = l.core.window ∧ l'.core.cong = l.core.cong ∧ l'.core.connected = l.core.connected ∧
      l'.core.phase = l.core.phase := by
  obtain ⟨h1, h2⟩ := flushAllBatches_PW s now
  exact ⟨h1.symm, h2⟩

/-- **Client events** move no window in classic mode (guard off, registered) — except that an
(injected) socket error on the batch flush tears the CHOSEN link down to the initial window 20000,
as in every mode. -/
theorem C10_windows_client (s : Sys F) (pkt : List UInt8) (now : Nat)
    (hclassic : s.cfg.classic = true) (hguard : s.cfg.stallDeselect = false)
    (hreg : s.reg.hasConnected = true) (hpkt : pkt ≠ [])
    (hdom : ∀ l ∈ s.links, 0 ≤ l.core.inFlight ∧ l.core.inFlight + l.queue.length + 1 ≤ 2147483647) :
    ∀ (j : Nat) l, s.links[j]? = some l → ∃ l', (handleSrtPacket s pkt now).1.links[j]? = some l' ∧
      ((l'.core.window = l.core.window ∧ l'.core.cong = l.core.cong) ∨
       (l'.core.window = 20000 ∧ l'.core.connected = false ∧ refSelect (refView s now) = some j)) := by
  intro j l hl
  obtain ⟨a1, a2⟩ := C10_choice s pkt now hclassic hguard hreg hpkt hdom
  cases h : refSelect (refView s now) with
  | none =>
    obtain ⟨x1, -, -⟩ := a2 h
    rw [x1, List.getElem?_map, hl]
    exact ⟨_, rfl, Or.inl ⟨rfl, rfl⟩⟩
  | some i =>
    obtain ⟨li, l', w, hi, -, x2, x3, -, hland⟩ := a1 i h
    by_cases hj : j = i
    · subst hj
      have : li = l := by rw [hl] at hi; exact (Option.some.inj hi).symm
      subst this
      refine ⟨l', x2, ?_⟩
      rcases hland with ⟨-, -, hc, -⟩ | ⟨-, -, -, hw, hg, -⟩ | ⟨-, -, -, hw, hc, -, -⟩
      · left; rw [hc]; exact ⟨rfl, rfl⟩
      · left; rw [hw, hg]; exact ⟨rfl, rfl⟩
      · right; exact ⟨hw, hc, rfl⟩
    · rw [x3 j hj, hl]
      exact ⟨_, rfl, Or.inl ⟨rfl, rfl⟩⟩

/-- The remaining events (configuration reload, critical-window notice, failure injection) do not
touch any link. -/
theorem C10_windows_other_events (s : Sys F) (cfg : Select.Cfg) (d cid : Nat) :
    (step s (.setCfg cfg)).1.links = s.links ∧ (step s (.crit d)).1.links = s.links ∧
    (step s (.failNext cid)).1.links = s.links := ⟨rfl, rfl, rfl⟩

end scalar2

/-- An uplink datagram's fan-out on `exSys`-like links: SRTLA ACK of 7 (held by link 1) and of an
unknown 99, then a NAK of 8 (held by link 1): windows `[20000, 1000]` become
`[20002, 1000 + 29 + 1 + 1 - 100 → 1000 (floor)]`; the reference events give the same vector. -/
example :
    let mk (id : Nat) (w : Int) (log : List (Int × Nat)) : FLink Int :=
      { core := { connId := id, connected := true, window := w, inFlight := log.length, log := log,
                  lastReceived := some 5, phase := .live },
        rtt := @Rtt.RttTracker.new Int fixScalar, bitrate := @Rtt.Bitrate.new Int fixScalar 0, qualMult := 1000 }
    let s : Sys Int :=
      { links := [mk 1 20000 [], mk 2 1000 [(6, 0), (7, 0), (8, 0)]], reg := { id := [], probeId := [] },
        cfg := { classic := true } }
    s.cfg.classic = true ∧ (∀ l ∈ s.links, l.core.window ≤ 60000) ∧
    ((@processConnectionEvents Int fixScalar s 0 { sacks := [7, 99], naks := [8] } 100).1.links.map (·.core.window))
      = [20002, 1000] ∧
    (refNakEvent (refSackEvent (refSackEvent [(20000, true), (1000, true)] (some (1, 2))) none) 1)
      = [(20002, true), (1000, true)] := by
  decide +kernel

/-- Whole uplink arm on two links (windows 20000 and 1000; link 1 holds 6, 7, 8): an SRTLA ACK
datagram `[7, 99]` arriving on link 0 gives `[20002, 1031]` (link 1 earns `+29` once, both live links
get `+1` twice); a REG_ERR on link 1 tears it down to 20000, disconnected.  The periodic flush of
`exSys` puts link 1's three queued datagrams on the wire and moves no window. -/
example :
    let mk (id : Nat) (w : Int) (log : List (Int × Nat)) : FLink Int :=
      { core := { connId := id, connected := true, window := w, inFlight := log.length, log := log,
                  lastReceived := some 5, phase := .live },
        rtt := @Rtt.RttTracker.new Int fixScalar, bitrate := @Rtt.Bitrate.new Int fixScalar 0, qualMult := 1000 }
    let s : Sys Int :=
      { links := [mk 1 20000 [], mk 2 1000 [(6, 0), (7, 0), (8, 0)]],
        reg := { id := [], probeId := [], hasConnected := true }, cfg := { classic := true } }
    s.cfg.classic = true ∧ (∀ l ∈ s.links, l.core.window ≤ 60000) ∧
    ((@handleUplinkPacket Int fixScalar s 1 [0x91, 0x00, 0, 0, 0, 0, 0, 7, 0, 0, 0, 99] 100).1.links.map
      (·.core.window)) = [20002, 1031] ∧
    ((@handleUplinkPacket Int fixScalar s 2 [0x92, 0x10] 100).1.links.map (·.core.window)) = [20000, 20000] ∧
    ((@handleUplinkPacket Int fixScalar s 2 [0x92, 0x10] 100).1.links.map (·.core.connected)) = [true, false] ∧
    ((flushAllBatches exSys 4000).1.links.map (·.core.window)) = [20000, 40000, 60000] ∧
    ((flushAllBatches exSys 4000).1.links.map (·.queue.length)) = [0, 0, 0] ∧
    (flushAllBatches exSys 4000).2.wire = [(12, [1]), (12, [2]), (12, [3])] := by
  decide +kernel

/-! ## 3. No time-based recovery -/

section scalar3
variable [Scalar F]

/-- **Classic mode never applies time-based recovery** (this is also the last clause of C06).

Per-link pass (`hkLinksGo true`, from any start index, registration state and set of injected
socket re-creation failures): every link either
takes the reconnect branch — it was timed out and a reconnect attempt was due; it comes out with the
initial window 20000, disconnected, registering, fresh congestion state (or, when the socket
re-creation failed and the link was only marked for recovery, the congestion state it had) — or its window and its
whole congestion state (`CongestionControl`: NAK counters, fast-recovery flag, pacing stamps) come
out exactly as they went in: `perform_window_recovery` is not applied.

Whole tick (`handle_housekeeping` with `classic = true`): the same, where "timed out and attempt
due" is evaluated on the link as the per-link pass sees it, i.e. after probing completion may have
re-armed the grace deadline of the chosen link (`g`); the later steps of the tick only stamp
`last_sent`.  So a classic tick changes a window only by resetting it to 20000 on reconnect. -/
theorem C10_no_time_recovery (now : Nat) :
    (∀ (ls : List (FLink F)) (i : Nat) (reg : Reg.Reg) (fb : List Nat),
      (hkLinksGo true now ls i reg fb).1.length = ls.length ∧
      ∀ (j : Nat) l, ls[j]? = some l → ∃ l', (hkLinksGo true now ls i reg fb).1[j]? = some l' ∧
        ((l.isTimedOut now = true ∧ l.shouldAttemptReconnect now = true ∧ l'.core.window = 20000 ∧
            l'.core.connected = false ∧ l'.core.phase = .registering ∧
            (l'.core.cong = {} ∨ l'.core.cong = l.core.cong)) ∨
         (l'.core.window = refTick l.core.window ∧ l'.core.cong = l.core.cong))) ∧
    (∀ s : Sys F, s.cfg.classic = true →
      (handleHousekeeping s now).1.links.length = s.links.length ∧
      ∀ (j : Nat) l, s.links[j]? = some l → ∃ l', (handleHousekeeping s now).1.links[j]? = some l' ∧
        ((l'.core.window = refTick l.core.window ∧ l'.core.cong = l.core.cong) ∨
         (l'.core.window = 20000 ∧ l'.core.connected = false ∧ l'.core.phase = .registering ∧
            (l'.core.cong = {} ∨ l'.core.cong = l.core.cong) ∧
            ∃ g, ({ l with graceDeadline := g } : FLink F).isTimedOut now = true ∧
                 ({ l with graceDeadline := g } : FLink F).shouldAttemptReconnect now = true))) := by
  constructor
  · intro ls i reg fb
    obtain ⟨h1, h2⟩ := hkLinksGo_PW now ls i reg fb
    exact ⟨h1.symm, h2⟩
  · intro s hc
    obtain ⟨h1, h2⟩ := handleHousekeeping_PW s now hc
    exact ⟨h1.symm, h2⟩

end scalar3

/-- A classic tick at `now = 20000` over two links: link 0 is live with a NAK 3 s ago and window
5000 (enhanced mode WOULD add a recovery increment here: the same tick with `classic = false` gives 5007); link 1 fell
silent 15 s ago with its last reconnect attempt 10 s old, so it reconnects.  After the tick: window
5000 untouched, congestion state untouched; link 1 reset to 20000. -/
example :
    let mk (id : Nat) (w : Int) (heard : Nat) (cg : Cong) : FLink Int :=
      { core := { connId := id, connected := true, window := w, lastReceived := some heard, phase := .live, cong := cg },
        rtt := @Rtt.RttTracker.new Int fixScalar, bitrate := @Rtt.Bitrate.new Int fixScalar 0, qualMult := 1000,
        established := 1, lastAttemptMs := 10000, lastKeepaliveSent := some 19900 }
    let s : Sys Int :=
      { links := [mk 1 5000 19990 { nakCount := 4, lastNakMs := 17000 }, mk 2 7000 5000 {}],
        reg := { id := [], probeId := [], hasConnected := true, active := 2 }, cfg := { classic := true } }
    s.cfg.classic = true ∧
    (s.links.map fun l => @FLink.isTimedOut Int fixScalar l 20000) = [false, true] ∧
    ((@handleHousekeeping Int fixScalar s 20000).1.links.map (·.core.window)) = [5000, 20000] ∧
    ((@handleHousekeeping Int fixScalar s 20000).1.links.map (·.core.cong.nakCount)) = [4, 0] ∧
    ((@handleHousekeeping Int fixScalar { s with cfg := { classic := false } } 20000).1.links.map (·.core.window))
      = [5007, 20000] := by
  decide +kernel

open Srtla.ClassicRun Srtla.SysInv

/-! ## 4. Round 3: the reference MACHINE, in lock-step

`Spec/ClassicRef.lean` now also defines the reference as a state machine (`RLink`, `REv`, `rstep`,
`rrun`: per link `usable`, `live`, `window`, `inFlight`, outstanding numbers `out`; events `route`,
`srtlaAck`, `nak`, `cumAck`, `tick` and the environment events `linkState`, `linkReset`).  This
section relates every event of the shell model to steps of that machine on an ABSTRACTION of the shell
state, and composes the per-event statements over runs.

Two abstractions are needed, and that is the deliberate difference between the implementation and
the reference (it is stated as the abstraction, not as a hypothesis):
* `absRoute s now` — in-flight := logged + waiting in the batch queue.  This is what `select_conn`
  must be given for the shell to make the reference's choice (the property's first sentence).
* `absSent s now`  — in-flight := logged only.  This is what the `+29` test and the ACK / NAK attribution
  read: the implementation registers a packet (`register_packet`) when its BATCH is put on the socket,
  the reference (`reg_pkt`) when the packet is ROUTED.
`C10_abs_def` spells both out; they coincide on every link whose queue is empty.  Consequently no single
machine state can be carried along a history: `C10_observation_ack_rule` is a concrete run on which the
reference machine carried from the start ends with a different window; `C10_observation_choice_control`
and `C10_observation_nak_memory` are the analogous runs for a choice and for NAK attribution.  What does
hold, for EVERY event from EVERY invariant state: re-abstract, run the machine, get the same choice and
the same window vector (`C10_lockstep_step`, run form `C10_lockstep_run`).
-/

/-! ### 4.1 `refSelect` is the first argmax -/

/-- **`select_conn` characterised.**  `refSelect ls = some i` iff link `i` is usable, its score
`window / (inFlight + 1)` beats the initial best score `-1`, no usable link scores higher, and every
usable link before it scores strictly lower (ties go to the lowest-numbered link); `none` iff no
usable link scores above `-1`; for non-negative windows and in-flight counts (every reachable state: C06
range, C02 count) `none` iff there is no usable link at all. -/
theorem C10_refSelect_argmax (ls : List RefLink) :
    (∀ i, refSelect ls = some i ↔
      ∃ l, ls[i]? = some l ∧ l.timedOut = false ∧ l.window / (l.inFlight + 1) > -1 ∧
        (∀ (j : Nat) l', ls[j]? = some l' → l'.timedOut = false →
          l'.window / (l'.inFlight + 1) ≤ l.window / (l.inFlight + 1)) ∧
        (∀ (j : Nat) l', j < i → ls[j]? = some l' → l'.timedOut = false →
          l'.window / (l'.inFlight + 1) < l.window / (l.inFlight + 1))) ∧
    (refSelect ls = none ↔ ∀ l ∈ ls, l.timedOut = false → l.window / (l.inFlight + 1) ≤ -1) ∧
    ((∀ l ∈ ls, 0 ≤ l.window ∧ 0 ≤ l.inFlight) → (refSelect ls = none ↔ ∀ l ∈ ls, l.timedOut = true)) := by
  refine ⟨fun i => refSelect_some_iff ls i, refSelect_none_iff ls, fun hnn => ?_⟩
  rw [refSelect_none_iff]
  constructor
  · intro h l hl
    cases ht : l.timedOut with
    | true => rfl
    | false =>
      have h1 := h l hl ht
      obtain ⟨hw, hi⟩ := hnn l hl
      have h2 := refScore_nonneg l hw hi
      omega
  · intro h l hl ht
    rw [h l hl] at ht; cases ht

/-- Four links: scores 2000, (timed out), 2500, 2500 — the first of the two maxima (index 2) wins; with
everything timed out nobody is chosen; a usable link with window 0 (score 0 > -1) is still chosen. -/
example :
    let ls : List RefLink :=
      [ { timedOut := false, window := 20000, inFlight := 9 }, { timedOut := true, window := 60000, inFlight := 0 },
        { timedOut := false, window := 40000, inFlight := 15 }, { timedOut := false, window := 20000, inFlight := 7 } ]
    refSelect ls = some 2 ∧ ls.map refScore = [2000, 60000, 2500, 2500] ∧
    (∀ l ∈ ls, 0 ≤ l.window ∧ 0 ≤ l.inFlight) ∧
    refSelect [{ timedOut := true, window := 60000, inFlight := 0 }] = none ∧
    refSelect [{ timedOut := false, window := 0, inFlight := 5 }] = some 0 := by
  decide

/-! ### 4.2 The abstractions -/

section lock
variable [Scalar F]

/-- The two abstractions, spelled out (definition check).  They differ ONLY in the in-flight count and
the outstanding set: `absRoute` counts and lists what is still waiting in the batch queue, `absSent`
does not.  `usable` is the expression of `C10_view`; `live` is `connected ∧ last_received.is_some()`. -/
theorem C10_abs_def (s : Sys F) (now : Nat) :
    absSent s now = s.links.map (fun l =>
      { usable := l.core.connected && l.core.phase != .registering &&
                  !timedOutAt l.core.connected l.established l.graceDeadline l.core.lastReceived
                    s.cfg.connTimeoutMs now,
        live := l.core.connected && l.core.lastReceived.isSome,
        window := l.core.window, inFlight := l.core.inFlight, out := l.core.log.map Prod.fst }) ∧
    absRoute s now = s.links.map (fun l =>
      { usable := l.core.connected && l.core.phase != .registering &&
                  !timedOutAt l.core.connected l.established l.graceDeadline l.core.lastReceived
                    s.cfg.connTimeoutMs now,
        live := l.core.connected && l.core.lastReceived.isSome,
        window := l.core.window, inFlight := l.core.inFlight + (l.queue.length : Int),
        out := l.core.log.map Prod.fst ++ l.queue.filterMap fun it => it.2.1.map toI32 }) ∧
    (absRoute s now).map RLink.view = refView s now ∧
    rWindows (absRoute s now) = s.links.map (·.core.window) ∧
    rWindows (absSent s now) = s.links.map (·.core.window) ∧
    ((∀ l ∈ s.links, l.queue = []) → absRoute s now = absSent s now) :=
  ⟨rfl, rfl, absRoute_view s now, rWindows_absRoute s now, rWindows_absSent s now, fun h => by
    unfold absRoute absSent
    exact List.map_congr_left fun l hl => absRouteL_eq_absSentL _ _ l (h l hl)⟩

/-- On `exSys` (link 1 has 12 logged packets and 3 datagrams in its batch queue; link 2 is timed out under
the configured 3000 ms): the two abstractions differ exactly in link 1's in-flight count. -/
example :
    (absRoute exSys 4000).map (·.inFlight) = [9, 15, 0] ∧ (absSent exSys 4000).map (·.inFlight) = [9, 12, 0] ∧
    (absRoute exSys 4000).map (·.usable) = [true, true, false] ∧
    (absRoute exSys 4000).map (·.live) = [true, true, true] ∧
    rWindows (absSent exSys 4000) = [20000, 40000, 60000] ∧
    (rstep (absRoute exSys 4000) (.route (some 5))).2 = some 1 := by
  decide +kernel

end lock

/-! ### 4.3 Who earns an SRTLA ACK, who is charged a NAK -/

/-- **The holder, named** (reference machine).  For one SRTLA-acknowledged number `seq` arriving on
`onLink`:
* link `k` earns it iff `k` is the arrival link and holds `seq`, or the arrival link does not hold it
  and `k` is the FIRST link in list order that does;
* nobody earns it iff nobody holds it;
* if at most one link holds `seq` the arrival link is irrelevant: the holder is the one a plain
  list-order scan (the C reference's) finds;
* on the window vector the step is exactly `refSackEvent` with `earnedOf` = that holder and its
  in-flight count AFTER the removal (`+29` iff that count × 1000 > window), then `+1` on every live link. -/
theorem C10_sack_holder (st : RState) (onLink : Nat) (seq : Int) :
    (∀ k, holder st onLink seq = some k ↔
      (k = onLink ∧ ∃ l, st[onLink]? = some l ∧ l.out.contains seq = true) ∨
      ((∀ l, st[onLink]? = some l → l.out.contains seq = false) ∧
        ∃ l, st[k]? = some l ∧ l.out.contains seq = true ∧
          ∀ (j : Nat) l', j < k → st[j]? = some l' → l'.out.contains seq = false)) ∧
    (holder st onLink seq = none ↔ ∀ l ∈ st, l.out.contains seq = false) ∧
    ((∀ (i j : Nat) a b, st[i]? = some a → st[j]? = some b → a.out.contains seq = true →
        b.out.contains seq = true → i = j) → holder st onLink seq = firstHolder st seq) ∧
    earnedOf st onLink seq =
      (match holder st onLink seq with
       | some k => (st[k]?).map fun l => (k, l.inFlight - 1)
       | none => none) ∧
    rWv (rSackOne st onLink seq) = refSackEvent (rWv st) (earnedOf st onLink seq) := by
  refine ⟨holder_spec st onLink seq, holder_none st onLink seq, holder_eq_firstHolder_of_unique st onLink seq, ?_,
    rWv_rSackOne st onLink seq⟩
  unfold earnedOf
  cases holder st onLink seq with
  | none => rfl
  | some k => dsimp only; cases st[k]? <;> rfl

/-- Three links; 7 is held by links 1 and 2, 8 by link 2 only.  An ACK of 7 arriving on link 2 is earned
by link 2 (arrival link first); arriving on link 0 by link 1 (first holder in list order); an ACK of 9 by
nobody; for 8 (unique holder) arrival-first and the plain scan agree.  Link 1: window 1000, 3 in flight →
2 after removal, `2000 > 1000`: `+29`, then `+1` on the two live links. -/
example :
    let st : RState :=
      [ { usable := true, live := true, window := 20000, inFlight := 0, out := [] },
        { usable := true, live := true, window := 1000, inFlight := 3, out := [6, 7, 5] },
        { usable := true, live := false, window := 30000, inFlight := 2, out := [7, 8] } ]
    holder st 2 7 = some 2 ∧ holder st 0 7 = some 1 ∧ firstHolder st 7 = some 1 ∧ holder st 0 9 = none ∧
    holder st 0 8 = some 2 ∧ firstHolder st 8 = some 2 ∧
    earnedOf st 0 7 = some (1, 2) ∧
    rWv (rSackOne st 0 7) = [(20001, true), (1030, true), (30000, false)] ∧
    (rSackOne st 0 7).map (·.out) = [[], [6, 5], [7, 8]] ∧ (rSackOne st 0 7).map (·.inFlight) = [0, 2, 2] := by
  decide

/-- **One NAK, named** (reference machine): link `k` is charged iff (the sender remembers link `r`:
`k = r` and link `r` holds the number) or (it remembers nothing: `k` is the first holder in list order);
the charge on the window vector is `refNakEvent` on that link, otherwise nothing moves. -/
theorem C10_nak_target (st : RState) (seq : Int) (remembered : Option Nat) :
    (∀ r k, remembered = some r →
      (nakTarget st seq remembered = some k ↔ k = r ∧ ∃ l, st[r]? = some l ∧ l.out.contains seq = true)) ∧
    (remembered = none → nakTarget st seq remembered = firstHolder st seq) ∧
    rWv (rNak st seq remembered) =
      (match nakTarget st seq remembered with
       | some k => refNakEvent (rWv st) k
       | none => rWv st) := by
  refine ⟨?_, fun h => by rw [h]; rfl, rWv_rNak st seq remembered⟩
  intro r k hr
  subst hr
  unfold nakTarget
  dsimp only
  cases hs : st[r]? with
  | none =>
    dsimp only
    constructor
    · intro h; cases h
    · rintro ⟨-, l, hl, -⟩; cases hl
  | some l =>
    dsimp only
    by_cases hc : l.out.contains seq = true
    · rw [if_pos hc]
      constructor
      · intro h
        have : r = k := by simpa using h
        exact ⟨this.symm, l, rfl, hc⟩
      · rintro ⟨e, -⟩; rw [e]
    · rw [if_neg hc]
      constructor
      · intro h; cases h
      · rintro ⟨-, l', hl', hc'⟩
        cases hl'; exact absurd hc' hc

/-- 7 is held by links 1 and 2: remembered link 2 → link 2 is charged; remembered link 0 (which does not
hold it) → nobody; nothing remembered → the first holder, link 1 (window 1000: floored). -/
example :
    let st : RState :=
      [ { usable := true, live := true, window := 20000, inFlight := 0, out := [] },
        { usable := true, live := true, window := 1000, inFlight := 3, out := [6, 7, 5] },
        { usable := true, live := false, window := 30000, inFlight := 2, out := [7, 8] } ]
    nakTarget st 7 (some 2) = some 2 ∧ nakTarget st 7 (some 0) = none ∧ nakTarget st 7 none = some 1 ∧
    rWindows (rNak st 7 (some 2)) = [20000, 1000, 29900] ∧ rWindows (rNak st 7 (some 0)) = [20000, 1000, 30000] ∧
    rWindows (rNak st 7 none) = [20000, 1000, 30000] ∧ (rNak st 7 none).map (·.inFlight) = [0, 2, 2] := by
  decide

/-- The accounting invariant of a shell state with the property's literal numbers.  This is, word for
word, `Props.SysLevel.SysInv` (that file imports this one, so the name cannot be used here); it holds of
the initial state and along every run (`SysLevel.SysInv_init`, `SysLevel.SysInv_run`). -/
def AcctInv (s : Sys F) : Prop :=
  ∀ l ∈ s.links, LogInv l.core ∧ 1000 ≤ l.core.window ∧ l.core.window ≤ 60000 ∧ 0 ≤ l.core.inFlight ∧
    ∀ it ∈ l.queue, ∀ sq, it.2.1 = some sq → sq < 2147483648

section lock2
variable [Scalar F]

omit [Scalar F] in
theorem acctInv_all (s : Sys F) (h : AcctInv s) : All LinkInv s.links := by
  intro l hl
  obtain ⟨a, b, c, d, f⟩ := h l hl
  exact ⟨a, b, c, d, f⟩

/-- What the abstraction of a list of connection cores is (definition check): entry `k` is
`(u k, connected ∧ heard, window, in_flight_packets, logged numbers)`. -/
theorem C10_absFrom_def (u : Nat → Bool) (cs : Links) (k : Nat) :
    (absFrom u 0 cs)[k]? = (cs[k]?).map fun c =>
      { usable := u k, live := c.connected && c.lastReceived.isSome, window := c.window,
        inFlight := c.inFlight, out := c.log.map Prod.fst } := by
  rw [getElem?_absFrom, Nat.zero_add]
  rfl

/-- **`C10_windows_uplink` with the holders named** (item: "the `es` are exactly, per SRTLA-ACKed number
in datagram order, the first link — arrival link first — that holds it, if any").  From a state that
satisfies the accounting invariant, with `idx` a link: the lists `es`, `ns` of `C10_windows_uplink` are
the ones the reference machine computes on the abstraction of the cores:
`es = sackEs idx st₁ sacks` — entry by entry `earnedOf` (see `C10_sack_holder`) in the state the earlier
numbers of the datagram left — and `ns = nakNs st₂ naks` — the links `nakTarget` names (see
`C10_nak_target`), where the tracker's memory `rememberedM` is `trk.get` (≤ 5000 ms old, not displaced)
resolved to the index of the link with that conn id. -/
theorem C10_windows_uplink_named (u : Nat → Bool) (s : Sys F) (idx : Nat) (inc : Incoming) (now : Nat)
    (hclassic : s.cfg.classic = true) (hinv : AcctInv s) (hidx : idx < s.links.length) :
    let st0 := absFrom u 0 (cores s.links)
    let st1 := rrun st0 (inc.acks.map fun a => REv.cumAck (toI32 a))
    let st2 := (inc.sacks.map toI32).foldl (fun st a => rSackOne st idx a) st1
    let es := sackEs idx st1 (inc.sacks.map toI32)
    let ns := nakNs st2 (inc.naks.map fun n => (toI32 n, rememberedM (cores s.links) s.trk n now))
    es.length = inc.sacks.length ∧ ns.length ≤ inc.naks.length ∧
    wv (cores (processConnectionEvents s idx inc now).1.links) =
      ns.foldl refNakEvent (es.foldl refSackEvent (wv (cores s.links))) :=
  pCE_wv_named u s idx inc now hclassic (allCore_cores _ (acctInv_all s hinv)) hidx

omit [Scalar F] in
/-- `sackEs`, `nakNs`, `rememberedM`, spelled out (definition check). -/
theorem C10_named_def (st : RState) (onLink : Nat) (a : Int) (rest : List Int) (r : Option Nat)
    (nrest : List (Int × Option Nat)) (cs : Links) (trk : Tracker) (nak now : Nat) :
    sackEs onLink st [] = [] ∧
    sackEs onLink st (a :: rest) = earnedOf st onLink a :: sackEs onLink (rSackOne st onLink a) rest ∧
    nakNs st [] = [] ∧
    nakNs st ((a, r) :: nrest) =
      (match nakTarget st a r with
       | some k => k :: nakNs (rNak st a r) nrest
       | none => nakNs (rNak st a r) nrest) ∧
    rememberedM cs trk nak now =
      (match trk.get nak now with
       | some cid => cs.findIdx? (·.connId == cid)
       | none => none) := ⟨rfl, rfl, rfl, rfl, rfl⟩

/-- **The ACK / NAK fan-out IS the reference machine** (classic mode), full machine state: for every
`usable` assignment `u`, the abstraction of the cores after `process_connection_events` is the machine
run on `fanEvents` — one `cumAck` per cumulative SRT ACK, one `srtlaAck` event with the datagram's
numbers on the arrival link, one `nak` per NAKed number with what the tracker remembers — windows, in-flight
counts, outstanding sets and live flags included.  In particular the `+29` test reads the SAME number on
both sides: the in-flight count after the acknowledged packet was removed (`absSent`: logged packets
only — packets still waiting in a batch queue are not counted; that is the implementation's reading). -/
theorem C10_lockstep_fanout (u : Nat → Bool) (s : Sys F) (idx : Nat) (inc : Incoming) (now : Nat)
    (hclassic : s.cfg.classic = true) (hinv : AcctInv s) (hidx : idx < s.links.length) :
    absFrom u 0 (cores (processConnectionEvents s idx inc now).1.links) =
      rrun (absFrom u 0 (cores s.links))
        ((inc.acks.map fun a => REv.cumAck (toI32 a)) ++ [REv.srtlaAck (inc.sacks.map toI32) idx] ++
          (inc.naks.map fun n => REv.nak (toI32 n) (rememberedM (cores s.links) s.trk n now))) :=
  (processConnectionEvents_sim u s idx inc now hclassic (allCore_cores _ (acctInv_all s hinv)) hidx).1

/-- **Uplink events in lock-step.**  Classic mode, accounting invariant.  Either the event changes
nothing (empty datagram / unknown conn id), or — `idx` the arrival link, `inc` what
`process_uplink_packet` parsed — the `(window, live)` vector afterwards is that of the reference machine
run from `absSent s now` on: ONE environment event for the arrival link (`linkReset idx` for a REG_ERR
tear-down, otherwise `linkState idx …`: it was heard from, REG3 connected it, …) followed by `fanEvents`.
For a datagram that carries cumulative ACKs, SRTLA ACKs or NAKs the WHOLE machine state agrees
(`absSent` after = machine after: usable, live, windows, in-flight counts, outstanding sets). -/
theorem C10_lockstep_uplink (s : Sys F) (connId : Nat) (data : List UInt8) (now : Nat)
    (hclassic : s.cfg.classic = true) (hinv : AcctInv s) :
    (handleUplinkPacket s connId data now).1 = s ∨
    ∃ idx l env, s.links.findIdx? (·.core.connId == connId) = some idx ∧ s.links[idx]? = some l ∧
      (env = .linkReset idx ∨ ∃ u lv, env = .linkState idx u lv) ∧
      rWv (absSent (handleUplinkPacket s connId data now).1 now) =
        rWv (rrun (absSent s now)
          (env :: fanEvents (cores s.links) s.trk idx (processUplinkPacket l idx s.reg s.clientKnown data now).2.2 now)) ∧
      (((processUplinkPacket l idx s.reg s.clientKnown data now).2.2.acks ≠ [] ∨
        (processUplinkPacket l idx s.reg s.clientKnown data now).2.2.sacks ≠ [] ∨
        (processUplinkPacket l idx s.reg s.clientKnown data now).2.2.naks ≠ []) →
        absSent (handleUplinkPacket s connId data now).1 now =
          rrun (absSent s now)
            (env :: fanEvents (cores s.links) s.trk idx
              (processUplinkPacket l idx s.reg s.clientKnown data now).2.2 now)) :=
  uplink_sim s connId data now hclassic (acctInv_all s hinv)

omit [Scalar F] in
/-- `fanEvents`, spelled out (definition check). -/
theorem C10_fanEvents_def (cs : Links) (trk : Tracker) (idx : Nat) (inc : Incoming) (now : Nat) :
    fanEvents cs trk idx inc now =
      (inc.acks.map fun a => REv.cumAck (toI32 a)) ++ [REv.srtlaAck (inc.sacks.map toI32) idx] ++
        (inc.naks.map fun n => REv.nak (toI32 n) (rememberedM cs trk n now)) := rfl

/-- **Client events in lock-step** (classic mode, guard off, registered, score domain; any non-empty
datagram: data, control, retransmit-flagged, inside a critical window).  The machine's `route` on
`absRoute s now` outputs `refSelect (refView s now)`; that is the link the shell puts the datagram on
(`C10_choice`, repeated here); no window moves on either side — except that an injected socket error on
the batch flush this datagram triggered tears the CHOSEN link down, which is the environment event
`linkReset` on the machine. -/
theorem C10_lockstep_client (s : Sys F) (pkt : List UInt8) (now : Nat)
    (hclassic : s.cfg.classic = true) (hguard : s.cfg.stallDeselect = false)
    (hreg : s.reg.hasConnected = true) (hpkt : pkt ≠ [])
    (hdom : ∀ l ∈ s.links, 0 ≤ l.core.inFlight ∧ l.core.inFlight + l.queue.length + 1 ≤ 2147483647) :
    let r := rstep (absRoute s now) (.route ((Codec.getSrtSequenceNumberS pkt).map toI32))
    r.2 = refSelect (refView s now) ∧
    (∀ i, r.2 = some i →
      ∃ l l' wire, s.links[i]? = some l ∧
        (handleSrtPacket s pkt now).1.lastSelected = some i ∧
        (handleSrtPacket s pkt now).1.links[i]? = some l' ∧
        (∀ j, j ≠ i → (handleSrtPacket s pkt now).1.links[j]? = (s.links[j]?).map (clearGuard s.cfg)) ∧
        (handleSrtPacket s pkt now).2.wire = wire ∧
        Landed (clearGuard s.cfg l) pkt (Codec.getSrtSequenceNumberS pkt) now s.failNext l' wire) ∧
    (r.2 = none →
      (handleSrtPacket s pkt now).1.links = s.links.map (clearGuard s.cfg) ∧
      (handleSrtPacket s pkt now).1.lastSelected = s.lastSelected ∧
      (handleSrtPacket s pkt now).2.wire = []) ∧
    (windowsOf (handleSrtPacket s pkt now).1 = rWindows r.1 ∨
     ∃ i l, r.2 = some i ∧ s.links[i]? = some l ∧
       l.regime.batchSize ≤ l.queue.length + 1 ∧ s.failNext.contains l.core.connId = true ∧
       windowsOf (handleSrtPacket s pkt now).1 = rWindows (rstep r.1 (.linkReset i)).1) := by
  intro r
  obtain ⟨c1, -, c3⟩ := client_sim s pkt now hclassic hguard hreg hpkt hdom
  obtain ⟨a1, a2⟩ := C10_choice s pkt now hclassic hguard hreg hpkt hdom
  refine ⟨c1, fun i hi => a1 i (c1 ▸ hi), fun hn => a2 (c1 ▸ hn), ?_⟩
  rcases c3 with h | ⟨i, l, h1, h2, h3, h4, h5⟩
  · exact Or.inl h
  · exact Or.inr ⟨i, l, c1.trans h1, h2, h3, h4, h5⟩

/-- **Housekeeping ticks and periodic flushes in lock-step** (classic mode).  The reference's `tick`
does nothing; a tick moves the windows of exactly the links torn down for a reconnect attempt — with the
socket re-created or, when a re-creation failure is injected, only marked for recovery —
(environment `linkReset`: window 20000, disconnected, registering) and of no other link.  A flush is no
reference event at all and moves no window (it is where the implementation's deferred `reg_pkt`s
happen: `absSent` catches up with `absRoute`). -/
theorem C10_lockstep_hk_flush (s : Sys F) (now : Nat) :
    (s.cfg.classic = true →
      ∃ resets : List Nat,
        (∀ j ∈ resets, j < s.links.length ∧ ∃ l', (handleHousekeeping s now).1.links[j]? = some l' ∧
          l'.core.window = 20000 ∧ l'.core.connected = false ∧ l'.core.phase = .registering) ∧
        windowsOf (handleHousekeeping s now).1 =
          rWindows (rrun (absSent s now) (.tick :: resets.map REv.linkReset))) ∧
    windowsOf (flushAllBatches s now).1 = rWindows (rrun (absSent s now) []) :=
  ⟨fun hc => hk_sim s now hc, flush_sim s now⟩

/-- **Which links a tick tears down, on the PRE-state** (definition check of `Audit2B.hkResets`, audit
round 2).  `j ∈ hkResets s now` iff link `j` is timed out at `now` and a reconnect attempt is due at `now`
(`is_timed_out ∧ should_attempt_reconnect`, evaluated on the record the tick starts with) — except when this very
tick completes the start-up probing, chose link `j`, and link `j` has never been established: stage 1 of the
tick then re-arms its 5000 ms start-up grace window and the attempt is not made.  The exception cannot occur
unless the registration manager was still probing when the tick began.  The list is in index order without
repetitions. -/
theorem C10_hk_resets_def (s : Sys F) (now : Nat) :
    (∀ j, j ∈ Audit2B.hkResets s now ↔ ∃ l, s.links[j]? = some l ∧ l.isTimedOut now = true ∧
      l.shouldAttemptReconnect now = true ∧ ¬ (Hk.hkGraceIdx s now = some j ∧ l.established = 0)) ∧
    (Reg.isProbing s.reg = false → Hk.hkGraceIdx s now = none) ∧
    (Audit2B.hkResets s now).Pairwise (· < ·) :=
  ⟨Audit2B.mem_hkResets_iff s now, Hk.hkGraceIdx_none s now, by
    unfold Audit2B.hkResets
    exact List.Pairwise.filter _ List.pairwise_lt_range⟩

/-- **Housekeeping ticks in lock-step, exact form** (audit round 2: the reset set is a function of the
PRE-state).  Classic mode: the windows after the tick are the reference machine's after `tick` (which does
nothing) followed by the environment event `linkReset` on exactly the links of `hkResets s now`
(`C10_hk_resets_def`: timed out and a reconnect attempt due); each of them comes out with window 20000,
disconnected, registering; every other window is untouched. -/
theorem C10_lockstep_hk_exact (s : Sys F) (now : Nat) (hc : s.cfg.classic = true) :
    (∀ j ∈ Audit2B.hkResets s now, j < s.links.length ∧ ∃ l', (handleHousekeeping s now).1.links[j]? = some l' ∧
        l'.core.window = 20000 ∧ l'.core.connected = false ∧ l'.core.phase = .registering) ∧
    windowsOf (handleHousekeeping s now).1 =
      rWindows (rrun (absSent s now) (.tick :: (Audit2B.hkResets s now).map REv.linkReset)) ∧
    (∀ (j : Nat) l, s.links[j]? = some l → j ∉ Audit2B.hkResets s now →
      ∃ l', (handleHousekeeping s now).1.links[j]? = some l' ∧ l'.core.window = l.core.window) := by
  obtain ⟨h1, h2⟩ := Audit2B.hk_sim_exact s now hc
  refine ⟨fun j hj => ⟨?_, h1 j hj⟩, h2, fun j l hl hn => ?_⟩
  · obtain ⟨l, hl, -⟩ := (Audit2B.mem_hkResets s now j).1 hj
    exact (List.getElem?_eq_some_iff.1 hl).1
  · obtain ⟨l', hl', -, h4⟩ := Audit2B.hk_classic_pw s now hc j l hl
    refine ⟨l', hl', h4 ?_⟩
    cases hd : Audit2B.hkDue s now j l
    · rfl
    · exact absurd ((Audit2B.mem_hkResets s now j).2 ⟨l, hl, hd⟩) hn

/-- **Uplink events in lock-step, exact form** (audit round 2).  Classic mode, accounting invariant.
* The event changes nothing IFF the datagram is empty or no link has the conn id — and then the whole state
  is the same.
* Otherwise, `idx` the arrival link: the environment event is `linkReset idx` EXACTLY when the datagram is a
  REG_ERR (type code 0x9210), and for every other datagram it is `linkState idx u lv` with `u`, `lv` the
  arrival link's usable / live flags in the abstraction of the post-state (`absSent … now`, `C10_abs_def`);
  then `fanEvents` — with the same two conclusions as `C10_lockstep_uplink`. -/
theorem C10_lockstep_uplink_exact (s : Sys F) (connId : Nat) (data : List UInt8) (now : Nat)
    (hclassic : s.cfg.classic = true) (hinv : AcctInv s) :
    ((data = [] ∨ s.links.findIdx? (·.core.connId == connId) = none) ∧
      (handleUplinkPacket s connId data now).1 = s) ∨
    (data ≠ [] ∧
     ∃ idx l env, s.links.findIdx? (·.core.connId == connId) = some idx ∧ s.links[idx]? = some l ∧
      ((Codec.getPacketTypeS data = some 0x9210 ∧ env = .linkReset idx) ∨
       (Codec.getPacketTypeS data ≠ some 0x9210 ∧
         ∃ r, (absSent (handleUplinkPacket s connId data now).1 now)[idx]? = some r ∧
           env = .linkState idx r.usable r.live)) ∧
      rWv (absSent (handleUplinkPacket s connId data now).1 now) =
        rWv (rrun (absSent s now)
          (env :: fanEvents (cores s.links) s.trk idx (processUplinkPacket l idx s.reg s.clientKnown data now).2.2 now)) ∧
      (((processUplinkPacket l idx s.reg s.clientKnown data now).2.2.acks ≠ [] ∨
        (processUplinkPacket l idx s.reg s.clientKnown data now).2.2.sacks ≠ [] ∨
        (processUplinkPacket l idx s.reg s.clientKnown data now).2.2.naks ≠ []) →
        absSent (handleUplinkPacket s connId data now).1 now =
          rrun (absSent s now)
            (env :: fanEvents (cores s.links) s.trk idx
              (processUplinkPacket l idx s.reg s.clientKnown data now).2.2 now))) :=
  Audit2B.uplink_sim_exact s connId data now hclassic (acctInv_all s hinv)

/-- What "the model's step corresponds to the reference machine's step(s) on the abstraction" means,
event by event.  (Audit round 2 tightened the `uplink` and `hk` clauses: see the comments inside; the older,
weaker readings are `C10_lockstep_uplink` / `C10_lockstep_hk_flush`.)  A reload of the link set (`Ev.reload`) is no
reference event: no output, the retained links' windows unchanged and in order, 20000 for every fresh link. -/
def LockStep (s : Sys F) : Ev → Prop
  | .client now pkt => pkt ≠ [] →
    let r := rstep (absRoute s now) (.route ((Codec.getSrtSequenceNumberS pkt).map toI32))
    r.2 = refSelect (refView s now) ∧
    (∀ i, r.2 = some i →
      ∃ l l' wire, s.links[i]? = some l ∧
        (handleSrtPacket s pkt now).1.lastSelected = some i ∧
        (handleSrtPacket s pkt now).1.links[i]? = some l' ∧
        (∀ j, j ≠ i → (handleSrtPacket s pkt now).1.links[j]? = (s.links[j]?).map (clearGuard s.cfg)) ∧
        (handleSrtPacket s pkt now).2.wire = wire ∧
        Landed (clearGuard s.cfg l) pkt (Codec.getSrtSequenceNumberS pkt) now s.failNext l' wire) ∧
    (r.2 = none →
      (handleSrtPacket s pkt now).1.links = s.links.map (clearGuard s.cfg) ∧
      (handleSrtPacket s pkt now).1.lastSelected = s.lastSelected ∧
      (handleSrtPacket s pkt now).2.wire = []) ∧
    (windowsOf (handleSrtPacket s pkt now).1 = rWindows r.1 ∨
     ∃ i l, r.2 = some i ∧ s.links[i]? = some l ∧
       l.regime.batchSize ≤ l.queue.length + 1 ∧ s.failNext.contains l.core.connId = true ∧
       windowsOf (handleSrtPacket s pkt now).1 = rWindows (rstep r.1 (.linkReset i)).1)
  -- (audit round 2) "nothing changes" is allowed ONLY for an empty datagram or a conn id no link has; otherwise
  -- the arrival link's environment event is `linkReset` exactly for REG_ERR (type code 0x9210) and, for every
  -- other datagram, `linkState idx u lv` with `u`, `lv` the usable / live flags of the arrival link in the
  -- abstraction of the POST-state (they are outputs of the shell, not free witnesses)
  | .uplink now connId data =>
    ((data = [] ∨ s.links.findIdx? (·.core.connId == connId) = none) ∧
      (handleUplinkPacket s connId data now).1 = s) ∨
    (data ≠ [] ∧
     ∃ idx l env, s.links.findIdx? (·.core.connId == connId) = some idx ∧ s.links[idx]? = some l ∧
      ((Codec.getPacketTypeS data = some 0x9210 ∧ env = .linkReset idx) ∨
       (Codec.getPacketTypeS data ≠ some 0x9210 ∧
         ∃ r, (absSent (handleUplinkPacket s connId data now).1 now)[idx]? = some r ∧
           env = .linkState idx r.usable r.live)) ∧
      rWv (absSent (handleUplinkPacket s connId data now).1 now) =
        rWv (rrun (absSent s now)
          (env :: fanEvents (cores s.links) s.trk idx (processUplinkPacket l idx s.reg s.clientKnown data now).2.2 now)) ∧
      (((processUplinkPacket l idx s.reg s.clientKnown data now).2.2.acks ≠ [] ∨
        (processUplinkPacket l idx s.reg s.clientKnown data now).2.2.sacks ≠ [] ∨
        (processUplinkPacket l idx s.reg s.clientKnown data now).2.2.naks ≠ []) →
        absSent (handleUplinkPacket s connId data now).1 now =
          rrun (absSent s now)
            (env :: fanEvents (cores s.links) s.trk idx
              (processUplinkPacket l idx s.reg s.clientKnown data now).2.2 now)))
  | .flush now => windowsOf (flushAllBatches s now).1 = rWindows (rrun (absSent s now) [])
  -- (audit round 2) the reset links are named by their CAUSE in the PRE-state — timed out and a reconnect attempt
  -- due (the condition of `C10_no_time_recovery`), minus the one never-established link whose start-up grace
  -- window this very tick re-arms because probing completes in it (`Hk.hkGraceIdx`; `none` unless the
  -- registration manager was still probing when the tick began) — not by what they look like afterwards
  | .hk now =>
    ∃ resets : List Nat,
      (∀ j, j ∈ resets ↔ ∃ l, s.links[j]? = some l ∧ l.isTimedOut now = true ∧
          l.shouldAttemptReconnect now = true ∧ ¬ (Hk.hkGraceIdx s now = some j ∧ l.established = 0)) ∧
      (∀ j ∈ resets, j < s.links.length ∧ ∃ l', (handleHousekeeping s now).1.links[j]? = some l' ∧
        l'.core.window = 20000 ∧ l'.core.connected = false ∧ l'.core.phase = .registering) ∧
      windowsOf (handleHousekeeping s now).1 =
        rWindows (rrun (absSent s now) (.tick :: resets.map REv.linkReset))
  | .setCfg cfg => windowsOf (step s (.setCfg cfg)).1 = windowsOf s
  | .crit d => windowsOf (step s (.crit d)).1 = windowsOf s
  | .failNext c => windowsOf (step s (.failNext c)).1 = windowsOf s
  | .failAfter c kfa => windowsOf (step s (.failAfter c kfa)).1 = windowsOf s
  -- injecting a socket re-creation failure is no reference event and moves no window; the tick that
  -- consumes it tears the link down like any other reconnect attempt (a `linkReset` in the `.hk` clause)
  | .failBind c => windowsOf (step s (.failBind c)).1 = windowsOf s
  -- a verdict stamp (`weak` / `loss_degraded` / `cc_backing_off` / `cc_target_bps` of one link) is no
  -- reference event: classic mode ignores the stamps — the windows and BOTH abstractions (hence every
  -- reference choice) are unchanged
  | .stamp idx w ld cb ct =>
    windowsOf (step s (.stamp idx w ld cb ct)).1 = windowsOf s ∧
    ∀ now, absRoute (step s (.stamp idx w ld cb ct)).1 now = absRoute s now ∧
      absSent (step s (.stamp idx w ld cb ct)).1 now = absSent s now

  -- `sync_conn_timeout` is no reference event either: the abstraction reads the CONFIGURED timeout, never the
  -- links' copies, so windows and both abstractions are unchanged
  | .syncTimeout =>
    windowsOf (step s .syncTimeout).1 = windowsOf s ∧
    ∀ now, absRoute (step s .syncTimeout).1 now = absRoute s now ∧
      absSent (step s .syncTimeout).1 now = absSent s now
  -- `apply_connection_changes` (`Ev.reload`) is no reference event and makes no routing choice (it has no output
  -- at all): the window vector afterwards is the windows of the RETAINED links (address still desired),
  -- unchanged and in their order, followed by 20000 for every freshly created link
  | .reload now addrs outs =>
    (step s (.reload now addrs outs)).2 = {} ∧
    ∃ k, windowsOf (step s (.reload now addrs outs)).1 =
      (retained s.links addrs).map (·.core.window) ++ List.replicate k 20000

/-- `sync_conn_timeout` changes neither the windows nor the reference abstraction of the state. -/
theorem sync_abs (s : Sys F) :
    windowsOf (step s .syncTimeout).1 = windowsOf s ∧
    ∀ now, absRoute (step s .syncTimeout).1 now = absRoute s now ∧
      absSent (step s .syncTimeout).1 now = absSent s now := by
  have key : ∀ {β : Type} (f : FLink F → β),
      (∀ (l : FLink F), f { l with connTimeoutMs := s.cfg.connTimeoutMs } = f l) →
      (s.links.map fun l => ({ l with connTimeoutMs := s.cfg.connTimeoutMs } : FLink F)).map f = s.links.map f := by
    intro β f hf
    rw [List.map_map]
    exact List.map_congr_left (fun l _ => hf l)
  refine ⟨key _ (fun _ => rfl), fun now => ⟨key _ (fun _ => rfl), key _ (fun _ => rfl)⟩⟩

/-- A verdict stamp changes neither the windows nor the reference abstraction of the state. -/
theorem stamp_abs (s : Sys F) (idx : Nat) (w ld cb : Bool) (ct : Nat) :
    windowsOf (step s (.stamp idx w ld cb ct)).1 = windowsOf s ∧
    ∀ now, absRoute (step s (.stamp idx w ld cb ct)).1 now = absRoute s now ∧
      absSent (step s (.stamp idx w ld cb ct)).1 now = absSent s now := by
  have key : ∀ {β : Type} (f : FLink F → β),
      (∀ (l : FLink F), f { l with weak := w, lossDegraded := ld, ccBackingOff := cb, ccTarget := ct } = f l) →
      (stampLink s.links idx w ld cb ct).map f = s.links.map f := by
    intro β f hf
    apply List.ext_getElem?
    intro j
    simp only [List.getElem?_map, Hk.stampLink_get]
    cases s.links[j]? with
    | none => rfl
    | some l =>
      simp only [Option.map_some, Hk.stampOne]
      split
      · rw [hf]
      · rfl
  refine ⟨key _ (fun _ => rfl), fun now => ⟨key _ (fun _ => rfl), key _ (fun _ => rfl)⟩⟩

/-- **Per-event conformance, every `Ev` of `Sys.step` — the reference state is RE-DERIVED from the shell
state before every event (this is per-event conformance to the reference rules, NOT a simulation in which a
reference state is carried from event to event).**  From a state that satisfies the run invariant
`RunInv B` (accounting invariant, logged + queued `≤ B` on every link, classic mode, guard off,
`has_connected`) with `B + 1 ≤ i32::MAX`: the model's step is the reference machine's step(s) on the
abstraction — same chosen link for the packet (no override for retransmit-flagged data or inside a
critical window), same window vector afterwards.  `LockStep` (audit round 2) names every environment event
by its cause: an uplink event changes nothing only for an empty datagram / unknown conn id, tears the arrival
link down (`linkReset`) exactly for REG_ERR, and otherwise reports the arrival link's post-state usable / live
flags (`linkState`); a tick resets exactly the links that were timed out with a reconnect attempt due in the
pre-state.

The reference state is RE-DERIVED from the shell state at each event, it is not carried from event to
event: the window vector is the shell's; for `route` (client events) the machine is given
in-flight = logged + queued, so its divisor is `logged + queued + 1` (`absRoute`); for the window rules
(uplink events) it is given in-flight = logged and outstanding = the logged numbers (`absSent`).  The
three `C10_observation_*` runs show that a carried machine would not do. -/
theorem C10_lockstep_step (B : Nat) (s : Sys F) (e : Ev) (h : RunInv B s) (hB : B + 1 ≤ 2147483647) :
    LockStep s e := by
  have hall : All LinkInv s.links := fun l hl => (h.pot l hl).1
  cases e with
  | client now pkt =>
    intro hpkt
    exact C10_lockstep_client s pkt now h.classic h.guard h.reg hpkt (runInv_dom B s h hB)
  | uplink now cid data => exact Audit2B.uplink_sim_exact s cid data now h.classic hall
  | flush now => exact flush_sim s now
  | hk now =>
    obtain ⟨h1, h2, -⟩ := C10_lockstep_hk_exact s now h.classic
    exact ⟨Audit2B.hkResets s now, Audit2B.mem_hkResets_iff s now, h1, h2⟩
  | setCfg cfg => rfl
  | crit d => rfl
  | failNext c => rfl
  | failAfter c kfa => rfl
  | failBind c => rfl
  | stamp idx w ld cb ct => exact stamp_abs s idx w ld cb ct
  | syncTimeout => exact sync_abs s
  | reload rnow raddrs routs =>
    refine ⟨rfl, (createConnections rnow (neededAddrs s.links raddrs) routs : List (FLink F)).length, ?_⟩
    show (retained s.links raddrs ++ createConnections rnow (neededAddrs s.links raddrs) routs).map _ = _
    rw [List.map_append]
    congr 1
    rw [List.eq_replicate_iff]
    refine ⟨List.length_map _, fun b hb => ?_⟩
    obtain ⟨l, hl, rfl⟩ := List.mem_map.1 hb
    obtain ⟨id, a, -, -, rfl⟩ := mem_createConnections hl
    rfl

omit [Scalar F] in
/-- `RunInv`, `KeepsMode`, `runS`, spelled out (definition check). -/
theorem C10_runInv_def (B : Nat) (s : Sys F) :
    (RunInv B s ↔
      (∀ l ∈ s.links, LinkInv l ∧ l.core.inFlight + (l.queue.length : Int) ≤ (B : Int)) ∧
      s.cfg.classic = true ∧ s.cfg.stallDeselect = false ∧ s.reg.hasConnected = true) ∧
    (∀ cfg, KeepsMode (.setCfg cfg) ↔ cfg.classic = true ∧ cfg.stallDeselect = false) ∧
    (∀ now pkt, KeepsMode (.client now pkt)) ∧ (∀ now c d, KeepsMode (.uplink now c d)) ∧
    (∀ now, KeepsMode (.flush now)) ∧ (∀ now, KeepsMode (.hk now)) ∧ (∀ d, KeepsMode (.crit d)) ∧
    (∀ c, KeepsMode (.failNext c)) ∧ (∀ c, KeepsMode (.failBind c)) ∧
    (∀ i w ld cb ct, KeepsMode (.stamp i w ld cb ct)) ∧ KeepsMode .syncTimeout :=
  ⟨⟨fun h => ⟨h.pot, h.classic, h.guard, h.reg⟩, fun h => ⟨h.1, h.2.1, h.2.2.1, h.2.2.2⟩⟩,
   fun _ => Iff.rfl, fun _ _ => trivial, fun _ _ _ => trivial, fun _ => trivial, fun _ => trivial,
   fun _ => trivial, fun _ => trivial, fun _ => trivial, fun _ _ _ _ _ => trivial, trivial⟩

/-- **Per-event conformance along runs — the reference state is RE-DERIVED from the shell state before
every event (per-event conformance, not a simulation with a carried reference state: see
`C10_lockstep_step` and the three `C10_observation_*` runs); what `_run` ADDS to `_step` is the INVARIANCE of
its hypotheses along the run: the accounting invariant and the score domain (logged + queued `≤ B + #events`
on every link), classic mode with the guard off, and the registration flag `has_connected` hold in every
reached state, from hypotheses on the initial state and on the `setCfg` events only.**
Hypotheses on the INITIAL state and the mode only:
the accounting invariant (`AcctInv` = `SysLevel.SysInv`; it holds of the initial state), classic mode with
the guard off, `has_connected`, configuration reloads in the run keep the mode, and logged + queued of
every link is `≤ B` with `B + (number of events) + 1 ≤ i32::MAX` (each client event raises it by at most
one — that is all the score domain of `C10_choice` needs).  Then EVERY event of the run, in the state
the earlier events produced (`runS s₀ pre` — the left fold of `step`, i.e. `(Sys.run s₀ pre).1`:
`SysLevel.run_eq_foldl`), satisfies `LockStep`: same choice, same windows as the reference machine on the
abstraction of that state.  The run invariant itself holds in every reached state. -/
theorem C10_lockstep_run (B : Nat) (s0 : Sys F) (evs : List Ev)
    (hinv : AcctInv s0) (hclassic : s0.cfg.classic = true) (hguard : s0.cfg.stallDeselect = false)
    (hreg : s0.reg.hasConnected = true) (hmode : ∀ e ∈ evs, KeepsMode e)
    (hpot : ∀ l ∈ s0.links, l.core.inFlight + (l.queue.length : Int) ≤ (B : Int))
    (hB : B + evs.length + 1 ≤ 2147483647) :
    ∀ pre e post, evs = pre ++ e :: post →
      RunInv (B + pre.length) (runS s0 pre) ∧ LockStep (runS s0 pre) e := by
  intro pre e post hsplit
  have h0 : RunInv B s0 := ⟨fun l hl => ⟨acctInv_all s0 hinv l hl, hpot l hl⟩, hclassic, hguard, hreg⟩
  have hpre : ∀ x ∈ pre, KeepsMode x := fun x hx => hmode x (by rw [hsplit]; exact List.mem_append_left _ hx)
  have hrun := runInv_run B s0 pre h0 hpre
  have hlen : pre.length + 1 ≤ evs.length := by
    rw [hsplit]; simp only [List.length_append, List.length_cons]; omega
  exact ⟨hrun, C10_lockstep_step (B + pre.length) (runS s0 pre) e hrun (by omega)⟩

end lock2

/-! ### 4.4 Non-vacuity, and three OBSERVATIONS: runs on which a CARRIED reference machine parts ways

`lsSys1` / `lsSys2`: one / two connected, live, registered links (conn ids 11, 12) with empty logs and
queues, classic mode, guard off, `has_connected`.  Datagrams: `lsData n` = SRT data packet with sequence
number `n`; `lsCtl` = an SRT control packet (no sequence number); `lsSack n` / `lsNak n` = SRTLA ACK / SRT NAK
of `n`. -/

def lsLink (id : Nat) (w : Int) : FLink Int :=
  { core := { connId := id, connected := true, window := w, lastReceived := some 0, phase := .live },
    rtt := @Rtt.RttTracker.new Int fixScalar, bitrate := @Rtt.Bitrate.new Int fixScalar 0,
    established := 1, qualMult := 1000 }

def lsSys1 : Sys Int :=
  { links := [lsLink 11 2000], reg := { id := [], probeId := [], hasConnected := true },
    cfg := { classic := true, stallDeselect := false } }

def lsSys2 : Sys Int :=
  { links := [lsLink 11 20000, lsLink 12 20000], reg := { id := [], probeId := [], hasConnected := true },
    cfg := { classic := true, stallDeselect := false } }

def lsData (n : UInt8) : List UInt8 := [0, 0, 0, n]
def lsCtl : List UInt8 := [0x80, 0x01, 0, 0]
def lsSack (n : UInt8) : List UInt8 := [0x91, 0x00, 0, 0, 0, 0, 0, n]
def lsNak (n : UInt8) : List UInt8 := [0x80, 0x03, 0, 0, 0, 0, 0, n]

theorem lsLink_inv (id : Nat) (w : Int) (h1 : 1000 ≤ w) (h2 : w ≤ 60000) :
    LogInv (lsLink id w).core ∧ 1000 ≤ (lsLink id w).core.window ∧ (lsLink id w).core.window ≤ 60000 ∧
      0 ≤ (lsLink id w).core.inFlight ∧ ∀ it ∈ (lsLink id w).queue, ∀ sq, it.2.1 = some sq → sq < 2147483648 :=
  ⟨⟨List.nodup_nil, fun _ h => (by cases h), rfl⟩, h1, h2, Int.le_refl _, fun _ h => (by cases h)⟩

theorem lsSys1_inv : AcctInv lsSys1 := by
  intro l hl
  have : l = lsLink 11 2000 := by simpa [lsSys1] using hl
  subst this
  exact lsLink_inv 11 2000 (by decide) (by decide)

theorem lsSys2_inv : AcctInv lsSys2 := by
  intro l hl
  have : l = lsLink 11 20000 ∨ l = lsLink 12 20000 := by simpa [lsSys2] using hl
  rcases this with rfl | rfl
  · exact lsLink_inv 11 20000 (by decide) (by decide)
  · exact lsLink_inv 12 20000 (by decide) (by decide)

/-- The hypotheses of `C10_lockstep_run` are satisfiable (here with `B = 0` and a 6-event run that
contains every kind of event the observation runs below use). -/
example :
    AcctInv lsSys2 ∧ lsSys2.cfg.classic = true ∧ lsSys2.cfg.stallDeselect = false ∧ lsSys2.reg.hasConnected = true ∧
    (∀ l ∈ lsSys2.links, l.core.inFlight + (l.queue.length : Int) ≤ ((0 : Nat) : Int)) ∧
    (∀ e ∈ [Ev.client 10 (lsData 5), .flush 30, .hk 35, .setCfg { classic := true, stallDeselect := false },
            .uplink 40 11 (lsNak 5), .failNext 11], KeepsMode e) := by
  refine ⟨lsSys2_inv, rfl, rfl, rfl, by decide, ?_⟩
  intro e he
  simp only [List.mem_cons, List.not_mem_nil, or_false] at he
  rcases he with rfl | rfl | rfl | rfl | rfl | rfl <;> first | trivial | exact ⟨rfl, rfl⟩

/-- `C10_windows_uplink_named` / `C10_lockstep_fanout` on the two-link state of the earlier examples
(link 1 holds 6, 7, 8; window 1000): SRTLA ACKs `[7, 99]` arriving on link 0 and a NAK of 8 —
`es = [some (1, 2), none]` (7: link 1, first holder, 2 left in flight; 99: nobody), `ns = [1]`, and the
whole machine state after the fan-out is the abstraction of the cores. -/
example :
    let mk (id : Nat) (w : Int) (log : List (Int × Nat)) : FLink Int :=
      { core := { connId := id, connected := true, window := w, inFlight := log.length, log := log,
                  lastReceived := some 5, phase := .live },
        rtt := @Rtt.RttTracker.new Int fixScalar, bitrate := @Rtt.Bitrate.new Int fixScalar 0, qualMult := 1000 }
    let s : Sys Int :=
      { links := [mk 1 20000 [], mk 2 1000 [(6, 0), (7, 0), (8, 0)]], reg := { id := [], probeId := [] },
        cfg := { classic := true } }
    let inc : Incoming := { sacks := [7, 99], naks := [8] }
    let st0 := absFrom (fun _ => true) 0 (cores s.links)
    sackEs 0 st0 [7, 99] = [some (1, 2), none] ∧
    nakNs ([7, 99].foldl (fun st a => rSackOne st 0 a) st0) [(8, rememberedM (cores s.links) s.trk 8 100)] = [1] ∧
    absFrom (fun _ => true) 0 (cores (@processConnectionEvents Int fixScalar s 0 inc 100).1.links) =
      rrun st0 (fanEvents (cores s.links) s.trk 0 inc 100) ∧
    rWindows (rrun st0 (fanEvents (cores s.links) s.trk 0 inc 100)) = [20002, 1000] ∧
    (rrun st0 (fanEvents (cores s.links) s.trk 0 inc 100)).map (·.out) = [[], [6]] := by
  decide +kernel

/-- **OBSERVATION 1 (not a violation of C10 as worded) — the `+29` test: a CARRIED reference machine ends
with a different window.**  Link 0, window 2000.  Three data packets are
routed and flushed (3 logged), a fourth is routed and still waits in the batch queue when the SRTLA ACK of
packet 1 arrives.  The implementation tests the logged count after removal: `2 × 1000 > 2000` is false — no
`+29`, window `2001`.  The reference counted packet 4 when it was routed: `3 × 1000 > 2000` — `+29`, window
`2030`.  Re-abstracted at the ACK (`absSent`: 3 in flight, 1 queued) the machine agrees with the shell
(`C10_lockstep_step`); carried from the start it does not.  The property's wording ("+29 … only when
in-flight × 1000 exceeds the window", with "in-flight" and "queued" distinguished in its first sentence)
is met by the implementation; the reference `srtla_send.c`, which has no queue, is not reproduced. -/
theorem C10_observation_ack_rule :
    let evs : List Ev :=
      [.client 10 (lsData 1), .client 11 (lsData 2), .client 12 (lsData 3), .flush 30, .client 31 (lsData 4),
       .uplink 40 11 (lsSack 1)]
    let ref : List REv :=
      [.route (some 1), .route (some 2), .route (some 3), .tick, .route (some 4), .linkState 0 true true,
       .srtlaAck [1] 0]
    windowsOf (@runS Int fixScalar lsSys1 evs) = [2001] ∧
    rWindows (rrun (absRoute lsSys1 10) ref) = [2030] ∧
    ((@runS Int fixScalar lsSys1 (evs.take 5)).links.map fun l => (l.core.inFlight, l.queue.length)) = [(3, 1)] ∧
    rWindows (rrun (absSent (@runS Int fixScalar lsSys1 (evs.take 5)) 40)
      [.linkState 0 true true, .srtlaAck [1] 0]) = [2001] := by
  decide +kernel

/-- **OBSERVATION 2 (not a violation of C10 as worded) — a queued control datagram counts in the divisor: a
CARRIED reference machine makes a different choice.**  Two links,
windows 20000.  An SRT control packet is routed (link 0, lowest index) and waits in link 0's batch queue;
the next data packet: the implementation scores link 0 as `20000 / (0 + 1 + 1) = 10000` and picks link 1;
the reference never counts a control packet (`reg_pkt` is for data only), scores both 20000 and picks
link 0.  Re-abstracted (`absRoute`: link 0 in-flight 1) the machine picks link 1 like the shell.  Within
the property's wording (`in-flight + queued + 1`). -/
theorem C10_observation_choice_control :
    (@runS Int fixScalar lsSys2 [.client 10 lsCtl, .client 11 (lsData 1)]).lastSelected = some 1 ∧
    ((@runS Int fixScalar lsSys2 [.client 10 lsCtl, .client 11 (lsData 1)]).links.map fun l => l.queue.length) = [1, 1] ∧
    (rstep (rstep (absRoute lsSys2 10) (.route none)).1 (.route (some 1))).2 = some 0 ∧
    (rstep (absRoute (@runS Int fixScalar lsSys2 [.client 10 lsCtl]) 11) (.route (some 1))).2 = some 1 := by
  decide +kernel

/-- **OBSERVATION 3 (not a violation of C10 / C05 as worded) — NAK attribution by the sender's memory: a
CARRIED reference machine ends with a different window.**  Packet 5 is sent on
link 0 (logged there); its retransmission is routed to link 1 (better score) and still waits in link 1's
queue — the sequence tracker now remembers link 1 — when the NAK of 5 arrives.  The implementation asks
the remembered link only; link 1 has not logged 5 yet: NOBODY is charged, windows `[20000, 20000]`.  The
reference scans every link's log: link 0 holds 5 and pays `-100`: `[19900, 20000]`.  With the memory as an
input (`nak 5 (some 1)`) the machine agrees with the shell.  This is C05's reading ("no other uplink can
be charged while the sender remembers the carrier"); it is not the reference's. -/
theorem C10_observation_nak_memory :
    let evs : List Ev := [.client 10 (lsData 5), .flush 30, .client 31 (lsData 5), .uplink 40 11 (lsNak 5)]
    let ref : List REv := [.route (some 5), .tick, .route (some 5), .linkState 0 true true, .nak 5 none]
    windowsOf (@runS Int fixScalar lsSys2 evs) = [20000, 20000] ∧
    rWindows (rrun (absRoute lsSys2 10) ref) = [19900, 20000] ∧
    ((@runS Int fixScalar lsSys2 (evs.take 3)).links.map fun l => (l.core.keys, l.queue.length)) = [([5], 0), ([], 1)] ∧
    rememberedM (cores (@runS Int fixScalar lsSys2 (evs.take 3)).links) (@runS Int fixScalar lsSys2 (evs.take 3)).trk 5 40
      = some 1 ∧
    rWindows (rrun (absSent (@runS Int fixScalar lsSys2 (evs.take 3)) 40) [.linkState 0 true true, .nak 5 (some 1)])
      = [20000, 20000] := by
  decide +kernel

/-- The lock-step statements, concretely, on the last event of the first observation run (the hypotheses of
`C10_lockstep_step` hold there by `C10_lockstep_run`): the uplink arm's own witnesses. -/
example :
    let s := @runS Int fixScalar lsSys1
      [.client 10 (lsData 1), .client 11 (lsData 2), .client 12 (lsData 3), .flush 30, .client 31 (lsData 4)]
    (@processUplinkPacket Int fixScalar (lsLink 11 2000) 0 s.reg s.clientKnown (lsSack 1) 40).2.2.sacks = [1] ∧
    absSent (@handleUplinkPacket Int fixScalar s 11 (lsSack 1) 40).1 40 =
      rrun (absSent s 40) (.linkState 0 true true :: fanEvents (cores s.links) s.trk 0 { sacks := [1] } 40) ∧
    absSent (@handleUplinkPacket Int fixScalar s 11 (lsSack 1) 40).1 40 =
      [{ usable := true, live := true, window := 2001, inFlight := 2, out := [2, 3] }] ∧
    absRoute (@handleUplinkPacket Int fixScalar s 11 (lsSack 1) 40).1 40 =
      [{ usable := true, live := true, window := 2001, inFlight := 3, out := [2, 3, 4] }] := by
  decide +kernel

/-- A classic housekeeping tick and a failed threshold flush as environment resets: on `exSys`-like
states the `resets` of `C10_lockstep_hk_flush` / the `linkReset` of `C10_lockstep_client` are non-empty. -/
example :
    let mk (id : Nat) (w : Int) (heard : Nat) : FLink Int :=
      { core := { connId := id, connected := true, window := w, lastReceived := some heard, phase := .live },
        rtt := @Rtt.RttTracker.new Int fixScalar, bitrate := @Rtt.Bitrate.new Int fixScalar 0, qualMult := 1000,
        established := 1, lastAttemptMs := 10000, lastKeepaliveSent := some 19900 }
    let s : Sys Int :=
      { links := [mk 1 5000 19990, mk 2 7000 5000],
        reg := { id := [], probeId := [], hasConnected := true, active := 2 }, cfg := { classic := true } }
    windowsOf (@handleHousekeeping Int fixScalar s 20000).1 = [5000, 20000] ∧
    rWindows (rrun (absSent s 20000) (.tick :: [1].map REv.linkReset)) = [5000, 20000] ∧
    -- a client datagram whose threshold flush fails (regime `low`: batch of 4; send failure injected)
    (let q : List QItem := [(lsData 1, some 1, 5), (lsData 2, some 2, 6), (lsData 3, some 3, 7)]
     let l0 : FLink Int := { lsLink 11 3000 with regime := .low, queue := q }
     let t : Sys Int := { lsSys1 with links := [l0], failNext := [11] }
     windowsOf (@handleSrtPacket Int fixScalar t (lsData 4) 9).1 = [20000] ∧
     rWindows (rstep (rstep (absRoute t 9) (.route (some 4))).1 (.linkReset 0)).1 = [20000] ∧
     (rstep (absRoute t 9) (.route (some 4))).2 = some 0) := by
  decide +kernel


/-- `C10_hk_resets_def` / `C10_lockstep_hk_exact` (the `hk` clause of `LockStep`) on the two-link state of the
example above at `now = 20000`: link 1 fell silent 15 s ago with its last reconnect attempt 10 s old — timed out
and due — so the reset set, computed on the PRE-state, is `[1]`; link 0 is not timed out.  Second state: ONE
never-established, disconnected link past its grace window (timed out, attempt due on the raw record) while the
registration manager completes its start-up probing in this very tick and picks that link: stage 1 re-arms the
link's grace window, the attempt is NOT made, the reset set is empty and the link stays as it was. -/
example :
    let mk (id : Nat) (w : Int) (heard : Nat) : FLink Int :=
      { core := { connId := id, connected := true, window := w, lastReceived := some heard, phase := .live },
        rtt := @Rtt.RttTracker.new Int fixScalar, bitrate := @Rtt.Bitrate.new Int fixScalar 0, qualMult := 1000,
        established := 1, lastAttemptMs := 10000, lastKeepaliveSent := some 19900 }
    let s : Sys Int :=
      { links := [mk 1 5000 19990, mk 2 7000 5000],
        reg := { id := [], probeId := [], hasConnected := true, active := 2 }, cfg := { classic := true } }
    let l0 : FLink Int :=
      { core := { connId := 7, connected := false, window := 23000 },
        rtt := @Rtt.RttTracker.new Int fixScalar, bitrate := @Rtt.Bitrate.new Int fixScalar 0, qualMult := 1000,
        established := 0, graceDeadline := 100 }
    let p : Sys Int :=
      { links := [l0],
        reg := { id := [], probeId := [], probing := .waiting, probeResults := [{ connIdx := 0, sentMs := 0, rtt := some 5 }] },
        cfg := { classic := true } }
    @Audit2B.hkResets Int fixScalar s 20000 = [1] ∧
    (s.links.map fun l => (@FLink.isTimedOut Int fixScalar l 20000, l.shouldAttemptReconnect 20000))
      = [(false, true), (true, true)] ∧
    Hk.hkGraceIdx s 20000 = none ∧
    windowsOf (@handleHousekeeping Int fixScalar s 20000).1 = [5000, 20000] ∧
    rWindows (rrun (absSent s 20000) (.tick :: (@Audit2B.hkResets Int fixScalar s 20000).map REv.linkReset)) = [5000, 20000] ∧
    -- the grace exception
    (@FLink.isTimedOut Int fixScalar l0 20000, l0.shouldAttemptReconnect 20000) = (true, true) ∧
    Hk.hkGraceIdx p 20000 = some 0 ∧ @Audit2B.hkResets Int fixScalar p 20000 = [] ∧
    windowsOf (@handleHousekeeping Int fixScalar p 20000).1 = [23000] ∧
    ((@handleHousekeeping Int fixScalar p 20000).1.links.map fun l => (l.graceDeadline, l.lastAttemptMs)) = [(25000, 0)] := by
  decide +kernel

/-- `C10_lockstep_uplink_exact` (the `uplink` clause of `LockStep`), the three kinds of environment event on the
two-link state `[window 20000; window 1000 holding 6, 7, 8]`:
* a REG_ERR datagram (`0x9210`) on link 1: `linkReset 1` — window vector `[(20000, live), (20000, not live)]`;
* an SRTLA ACK datagram on link 0 (not `0x9210`): `linkState 0 u lv` with `u = lv = true`, the arrival link's
  flags in the post-state abstraction, then the fan-out;
* an empty datagram, or a datagram for a conn id no link has: the state is unchanged — and ONLY then may the first
  disjunct be used: for the two datagrams above the conn id is found and the datagram is non-empty. -/
example :
    let mk (id : Nat) (w : Int) (log : List (Int × Nat)) : FLink Int :=
      { core := { connId := id, connected := true, window := w, inFlight := log.length, log := log,
                  lastReceived := some 5, phase := .live },
        rtt := @Rtt.RttTracker.new Int fixScalar, bitrate := @Rtt.Bitrate.new Int fixScalar 0, qualMult := 1000 }
    let s : Sys Int :=
      { links := [mk 1 20000 [], mk 2 1000 [(6, 0), (7, 0), (8, 0)]],
        reg := { id := [], probeId := [], hasConnected := true }, cfg := { classic := true } }
    let regErr : List UInt8 := [0x92, 0x10]
    let sack : List UInt8 := [0x91, 0x00, 0, 0, 0, 0, 0, 7, 0, 0, 0, 99]
    Codec.getPacketTypeS regErr = some 0x9210 ∧ s.links.findIdx? (·.core.connId == 2) = some 1 ∧
    rWv (absSent (@handleUplinkPacket Int fixScalar s 2 regErr 100).1 100) =
      rWv (rrun (absSent s 100) [.linkReset 1]) ∧
    rWv (rrun (absSent s 100) [.linkReset 1]) = [(20000, true), (20000, false)] ∧
    Codec.getPacketTypeS sack = some 0x9100 ∧
    ((absSent (@handleUplinkPacket Int fixScalar s 1 sack 100).1 100)[0]?.map fun r => (r.usable, r.live)) = some (true, true) ∧
    absSent (@handleUplinkPacket Int fixScalar s 1 sack 100).1 100 =
      rrun (absSent s 100) (.linkState 0 true true :: fanEvents (cores s.links) s.trk 0 { sacks := [7, 99] } 100) ∧
    rWindows (absSent (@handleUplinkPacket Int fixScalar s 1 sack 100).1 100) = [20002, 1031] ∧
    s.links.findIdx? (·.core.connId == 9) = none ∧
    windowsOf (@handleUplinkPacket Int fixScalar s 9 sack 100).1 = windowsOf s ∧
    windowsOf (@handleUplinkPacket Int fixScalar s 1 [] 100).1 = windowsOf s := by
  decide +kernel


end Srtla.Props.C10
