import Srtla.Model.Sys
import Srtla.Spec.ClassicRef
import Srtla.Lemmas.Conn
import Srtla.Lemmas.SelectFrame
import Srtla.Lemmas.ClassicRef
import Srtla.Props.C06
/-!
# C10 — classic mode reproduces the reference `srtla_send` algorithm

The yardstick is `Srtla/Spec/ClassicRef.lean`: an import-free transcription of the reference
`srtla_send.c` rules (`refSelect`, `refAck`, `refGlobal`, `refNak`, `refTick`, and the window-vector
events `refSackEvent` / `refNakEvent`).  The theorems below relate the shell model
(`Model/Sys.lean`, run bit-exactly against the real event-loop arms) to it.

All theorems hold for an arbitrary scalar type `F` with an arbitrary `[Scalar F]` instance
(`Float` in the compiled driver): classic mode never reads a scalar.

The last clause of C06 ("classic mode never applies time-based recovery") is
`C10_no_time_recovery`.
-/
namespace Srtla.Props.C10
open Srtla Srtla.Gen Srtla.Conn Srtla.Select Srtla.Link Srtla.Sys Srtla.Spec.ClassicRef Srtla.ClassicRef

variable {F : Type}

/-! ## 1. Choice -/

/-- The Rust score is the reference score `window / (in_flight + queued + 1)` on every connected
link whose counts are non-negative and whose sum `+ 1` fits an `i32` (the saturating adds and the
`max(.., 1)` are inert there); a disconnected link scores `-1`, which never beats the initial best
score `-1`, so it is never chosen — the reference skips it as timed out. -/
theorem C10_score (c : SLink F) :
    (c.connected = false → Select.score c = -1) ∧
    (c.connected = true → 0 ≤ c.inFlight → 0 ≤ c.queued → c.inFlight + c.queued + 1 ≤ 2147483647 →
      Select.score c = c.window / (c.inFlight + c.queued + 1) ∧
      Select.score c = refScore { timedOut := false, window := c.window, inFlight := c.inFlight + c.queued }) := by
  refine ⟨fun h => by simp [Select.score, h], fun hc h0 hq hm => ?_⟩
  have := score_eq_ref c hc ⟨h0, hq, hm⟩
  exact ⟨this, this⟩

example :
    Select.score ({ window := 20000, inFlight := 6, queued := 3, srtt := (), rttMin := (), bitrate := (),
                    qualMult := () } : SLink Unit) = 2000 ∧
    Select.score ({ connected := false, srtt := (), rttMin := (), bitrate := (), qualMult := () } : SLink Unit) = -1 ∧
    -- at the edge of the domain the saturating adds are still exact
    Select.score ({ window := 60000, inFlight := 2147483640, queued := 6, srtt := (), rttMin := (),
                    bitrate := (), qualMult := () } : SLink Unit) = 0 := by
  decide

/-- The classic selector IS the reference loop (same fold: skip, integer score, strict `>`, first
maximum, initial best score `-1`) on the reference view `toRef` of the links it is given: a link is
skipped iff timed out, still registering, gated, or disconnected. -/
theorem C10_selector (ls : List (SLink F)) (now : Nat)
    (hdom : ∀ c ∈ ls, 0 ≤ c.inFlight ∧ 0 ≤ c.queued ∧ c.inFlight + c.queued + 1 ≤ 2147483647) :
    classicSelect ls now =
      refSelect (ls.map fun c =>
        { timedOut := isTimedOut c now || !schedulable c || c.stallGated || !c.connected,
          window := c.window, inFlight := c.inFlight + c.queued }) :=
  classicSelect_eq_refSelect ls now hdom

/-- Two links with equal score 2000 and a better third one hidden behind a time-out: the first
maximum (index 0) wins; the model and the reference agree. -/
example :
    let ls : List (SLink Unit) :=
      [ { window := 20000, inFlight := 9, lastReceived := some 4990, srtt := (), rttMin := (), bitrate := (), qualMult := () },
        { window := 40000, inFlight := 12, queued := 7, lastReceived := some 4990, srtt := (), rttMin := (), bitrate := (),
          qualMult := () },
        { window := 60000, lastReceived := some 10, srtt := (), rttMin := (), bitrate := (), qualMult := () } ]
    (∀ c ∈ ls, 0 ≤ c.inFlight ∧ 0 ≤ c.queued ∧ c.inFlight + c.queued + 1 ≤ 2147483647) ∧
    classicSelect ls 6000 = some 0 := by
  decide

section scalar
variable [Scalar F]

omit [Scalar F] in
/-- What the reference sees of the system (definition check, by `rfl`): one `RefLink` per link,
usable = connected ∧ phase ≠ registering ∧ not timed out under the CONFIGURED timeout
`s.cfg.connTimeoutMs` (the selection pass stamps it on every link before deciding), in-flight =
logged in-flight + packets still waiting in the link's batch queue. -/
theorem C10_view (s : Sys F) (now : Nat) :
    refView s now = s.links.map fun l =>
      { timedOut := !(l.core.connected && l.core.phase != .registering &&
                      !timedOutAt l.core.connected l.established l.graceDeadline l.core.lastReceived
                        s.cfg.connTimeoutMs now),
        window := l.core.window,
        inFlight := l.core.inFlight + (l.queue.length : Int) } := rfl

/-- `timedOutAt` is `is_timed_out` with the timeout passed explicitly. -/
theorem C10_view_timeout (l : FLink F) (T now : Nat) :
    timedOutAt l.core.connected l.established l.graceDeadline l.core.lastReceived T now =
      Select.isTimedOut { l.toSLink with connTimeoutMs := T } now := rfl

/-- **Choice.**  Classic mode, stall guard off, after registration, any non-empty datagram from the
SRT endpoint — data, control, retransmit-flagged data, inside or outside a critical window
(`s.critDeadline` is arbitrary): the shell routes it exactly as the reference does.

* If the reference picks link `i`, then `i` is a link, `last_selected` becomes `i`, every other
  link only has its guard fields cleared (nothing queued, nothing sent, no probe copy), and the
  datagram `Landed` on link `i`: appended to its batch queue behind what was already waiting, or —
  batch threshold reached — the whole queue with this datagram last is put on link `i`'s socket, or
  (injected socket error on that flush) the batch is lost and link `i` is torn down for recovery.
* If the reference picks nobody, nothing is queued or sent anywhere and `last_selected` is kept.

The choice depends on nothing but `refView`: not on weak / loss-degraded / CC target / quality
cache / RTT / previous selection / stall history / packet bytes (`C10_choice_noninterference`). -/
theorem C10_choice (s : Sys F) (pkt : List UInt8) (now : Nat)
    (hclassic : s.cfg.classic = true) (hguard : s.cfg.stallDeselect = false)
    (hreg : s.reg.hasConnected = true) (hpkt : pkt ≠ [])
    (hdom : ∀ l ∈ s.links, 0 ≤ l.core.inFlight ∧ l.core.inFlight + l.queue.length + 1 ≤ 2147483647) :
    (∀ i, refSelect (refView s now) = some i →
      ∃ l l' wire, s.links[i]? = some l ∧
        (handleSrtPacket s pkt now).1.lastSelected = some i ∧
        (handleSrtPacket s pkt now).1.links[i]? = some l' ∧
        (∀ j, j ≠ i → (handleSrtPacket s pkt now).1.links[j]? = (s.links[j]?).map (clearGuard s.cfg)) ∧
        (handleSrtPacket s pkt now).2.wire = wire ∧
        Landed (clearGuard s.cfg l) pkt (Codec.getSrtSequenceNumberS pkt) now s.failNext l' wire) ∧
    (refSelect (refView s now) = none →
      (handleSrtPacket s pkt now).1.links = s.links.map (clearGuard s.cfg) ∧
      (handleSrtPacket s pkt now).1.lastSelected = s.lastSelected ∧
      (handleSrtPacket s pkt now).2.wire = []) := by
  have hdom' : ∀ c ∈ (s.links.map FLink.toSLink).map (guardOff s.cfg), ScoreDom c.inFlight c.queued := by
    intro c hc
    rw [List.map_map] at hc
    obtain ⟨l, hl, rfl⟩ := List.mem_map.1 hc
    obtain ⟨h0, h1⟩ := hdom l hl
    exact ⟨h0, Int.natCast_nonneg _, h1⟩
  have hsel : classicSelect ((s.links.map FLink.toSLink).map (guardOff s.cfg)) now = refSelect (refView s now) := by
    rw [classicSelect_eq_refSelect _ _ hdom']
    congr 1
    rw [List.map_map, List.map_map]
    exact List.map_congr_left fun l _ => toRef_guardOff s.cfg now l
  have hstep := handleSrtPacket_classic s pkt now hclassic hguard hreg hpkt
  constructor
  · intro i hi
    rw [← hsel] at hi
    obtain ⟨c, hc, -, -⟩ := classicSelect_eligible _ now i hi
    rw [hi] at hstep
    have hlt : i < s.links.length := by
      have := (List.getElem?_eq_some_iff.1 hc).1
      simpa using this
    have hl : s.links[i]? = some s.links[i] := List.getElem?_eq_getElem hlt
    have hl' : (s.links.map (clearGuard s.cfg))[i]? = some (clearGuard s.cfg s.links[i]) := by
      rw [List.getElem?_map, hl]; rfl
    obtain ⟨l', wire, fn, trk, e, hland, -⟩ :=
      forwardVia_cases { s with links := s.links.map (clearGuard s.cfg) } i pkt
        (Codec.getSrtSequenceNumberS pkt) now _ hl'
    dsimp only at hstep
    rw [e] at hstep
    rw [hstep]
    refine ⟨s.links[i], l', wire, hl, rfl, ?_, ?_, rfl, hland⟩
    · show (setAt (s.links.map (clearGuard s.cfg)) i l')[i]? = some l'
      rw [getElem?_setAt, if_pos rfl, hl']; rfl
    · intro j hj
      show (setAt (s.links.map (clearGuard s.cfg)) i l')[j]? = _
      rw [getElem?_setAt, if_neg hj, List.getElem?_map]
  · intro hn
    rw [← hsel] at hn
    rw [hn] at hstep
    rw [hstep]
    exact ⟨rfl, rfl, rfl⟩

omit [Scalar F] in
/-- `Landed`, spelled out (definition check). -/
theorem C10_landed_def (l : FLink F) (pkt : List UInt8) (seq : Option Nat) (now : Nat) (failNext : List Nat)
    (l' : FLink F) (wire : List (Nat × List UInt8)) :
    Landed l pkt seq now failNext l' wire ↔
      (((l.queue ++ [(pkt, seq, now)]).length < l.regime.batchSize ∧ l'.queue = l.queue ++ [(pkt, seq, now)] ∧
          l'.core = l.core ∧ wire = []) ∨
       (l.regime.batchSize ≤ (l.queue ++ [(pkt, seq, now)]).length ∧ failNext.contains l.core.connId = false ∧
          l'.queue = [] ∧ l'.core.window = l.core.window ∧ l'.core.cong = l.core.cong ∧
          wire = (l.queue ++ [(pkt, seq, now)]).map (fun it => (l.core.connId, it.1))) ∨
       (l.regime.batchSize ≤ (l.queue ++ [(pkt, seq, now)]).length ∧ failNext.contains l.core.connId = true ∧
          l'.queue = [] ∧ l'.core.window = 20000 ∧ l'.core.connected = false ∧ l'.core.cong = l.core.cong ∧
          wire = [])) := Iff.rfl

/-- **Non-interference.**  Two systems (classic, guard off, registered) whose links agree on
`(connected, phase, window, in_flight, queue length, last_received, established, grace deadline)`
and whose configured timeouts agree make the same choice at the same instant, for ANY two
datagrams — whatever `weak`, `loss_degraded`, CC target, quality cache, RTT state, bitrate,
`last_selected`, stall-guard history, critical deadline or packet bytes are. -/
theorem C10_choice_noninterference (s s' : Sys F) (pkt pkt' : List UInt8) (now : Nat)
    (hclassic : s.cfg.classic = true) (hclassic' : s'.cfg.classic = true)
    (hguard : s.cfg.stallDeselect = false) (hguard' : s'.cfg.stallDeselect = false)
    (hreg : s.reg.hasConnected = true) (hreg' : s'.reg.hasConnected = true)
    (hpkt : pkt ≠ []) (hpkt' : pkt' ≠ [])
    (hdom : ∀ l ∈ s.links, 0 ≤ l.core.inFlight ∧ l.core.inFlight + l.queue.length + 1 ≤ 2147483647)
    (hdom' : ∀ l ∈ s'.links, 0 ≤ l.core.inFlight ∧ l.core.inFlight + l.queue.length + 1 ≤ 2147483647)
    (hkeys : s.links.map keyOf = s'.links.map keyOf) (hT : s.cfg.connTimeoutMs = s'.cfg.connTimeoutMs) :
    (∃ i, (handleSrtPacket s pkt now).1.lastSelected = some i ∧
          (handleSrtPacket s' pkt' now).1.lastSelected = some i ∧
          (∃ l', (handleSrtPacket s pkt now).1.links[i]? = some l') ∧
          (∃ l', (handleSrtPacket s' pkt' now).1.links[i]? = some l') ∧
          refSelect (refView s now) = some i) ∨
    ((handleSrtPacket s pkt now).2.wire = [] ∧ (handleSrtPacket s' pkt' now).2.wire = [] ∧
      (handleSrtPacket s pkt now).1.links = s.links.map (clearGuard s.cfg) ∧
      (handleSrtPacket s' pkt' now).1.links = s'.links.map (clearGuard s'.cfg) ∧
      refSelect (refView s now) = none) := by
  have hmm : ∀ (T : Nat) (ls : List (FLink F)),
      ls.map (fun l => refOfKey T now (keyOf l)) = (ls.map keyOf).map (refOfKey T now) := by
    intro T ls; rw [List.map_map]; rfl
  have hv : refView s now = refView s' now := by
    unfold refView
    rw [hmm, hmm, hkeys, hT]
  obtain ⟨a1, a2⟩ := C10_choice s pkt now hclassic hguard hreg hpkt hdom
  obtain ⟨b1, b2⟩ := C10_choice s' pkt' now hclassic' hguard' hreg' hpkt' hdom'
  cases h : refSelect (refView s now) with
  | some i =>
    left
    obtain ⟨l, l1, w, -, x1, x2, -, -, -⟩ := a1 i h
    obtain ⟨l', l1', w', -, y1, y2, -, -, -⟩ := b1 i (hv ▸ h)
    exact ⟨i, x1, y1, ⟨l1, x2⟩, ⟨l1', y2⟩, rfl⟩
  | none =>
    right
    obtain ⟨x1, -, x3⟩ := a2 h
    obtain ⟨y1, -, y3⟩ := b2 (hv ▸ h)
    exact ⟨x3, y3, x1, y1, rfl⟩

end scalar

/-! ### Non-vacuity of the choice theorems

Three links at `now = 1000`, classic, guard off, registered, configured timeout 3000 ms while the
links still carry the stale per-link value 5000:
* link 0: window 20000, 9 in flight, nothing queued  → score 2000;
* link 1: window 40000, 12 in flight + 3 queued       → score 2500  (without the queue it would be 3076);
* link 2: window 60000, idle, but last heard at 0 … its score 60000 would win under the stale
  5000 ms timeout; under the CONFIGURED 3000 ms it is timed out at `now = 4000`.
Link 0 is flagged weak / loss-degraded with a CC target and a poor cached quality, a critical window is
open, the previous selection is link 0 and the datagram is a retransmit-flagged data packet: none of
that matters.  The reference and the shell both pick link 1. -/

def exLink (id : Nat) (w inf : Int) (heard : Nat) (q : List QItem) : FLink Int :=
  { core := { connId := id, connected := true, window := w, inFlight := inf, lastReceived := some heard,
              phase := .live },
    rtt := @Rtt.RttTracker.new Int fixScalar, bitrate := @Rtt.Bitrate.new Int fixScalar 0,
    established := 1, qualMult := 1000, queue := q, connTimeoutMs := 5000 }

def exSys : Sys Int :=
  { links := [ { exLink 11 20000 9 3900 [] with weak := true, lossDegraded := true, ccTarget := 500000,
                                                qualMult := 100, latchedSince := 50, stallGated := true },
               exLink 12 40000 12 3900 [([1], none, 3990), ([2], none, 3991), ([3], none, 3992)],
               exLink 13 60000 0 0 [] ],
    reg := { id := [], probeId := [], hasConnected := true },
    lastSelected := some 0, critDeadline := 9000,
    cfg := { classic := true, stallDeselect := false, connTimeoutMs := 3000 } }

/-- SRT data packet, sequence number 5, retransmit flag set (byte 4, bit 2). -/
def exPkt : List UInt8 := [0, 0, 0, 5, 4, 0, 0, 0, 0, 0, 0, 0, 0, 0, 0, 0, 1, 2, 3]

example :
    exSys.cfg.classic = true ∧ exSys.cfg.stallDeselect = false ∧ exSys.reg.hasConnected = true ∧ exPkt ≠ [] ∧
    (∀ l ∈ exSys.links, 0 ≤ l.core.inFlight ∧ l.core.inFlight + l.queue.length + 1 ≤ 2147483647) ∧
    Codec.isSrtDataRetransmitS exPkt = true ∧ Codec.getSrtSequenceNumberS exPkt = some 5 ∧
    (refView exSys 4000).map refScore = [2000, 2500, 60000] ∧
    (refView exSys 4000).map (·.timedOut) = [false, false, true] ∧
    refSelect (refView exSys 4000) = some 1 ∧
    (@handleSrtPacket Int fixScalar exSys exPkt 4000).1.lastSelected = some 1 ∧
    ((@handleSrtPacket Int fixScalar exSys exPkt 4000).1.links.map (·.queue.length)) = [0, 4, 0] ∧
    ((@handleSrtPacket Int fixScalar exSys exPkt 4000).1.links.map (·.stallGated)) = [false, false, false] ∧
    (@handleSrtPacket Int fixScalar exSys exPkt 4000).2.wire = [] ∧
    -- `C10_windows_client`: the client event moved no window
    ((@handleSrtPacket Int fixScalar exSys exPkt 4000).1.links.map (·.core.window)) = [20000, 40000, 60000] := by
  decide +kernel

/-- Non-interference, concretely: `exSys'` differs from `exSys` in every field a classic decision must
not read (gates, CC target, quality cache, stall history, per-link stale timeout, previous selection,
critical deadline, connection ids, queue CONTENTS) and gets a different datagram (a 1-byte control
packet): same keys, same configured timeout, same choice. -/
def exSys' : Sys Int :=
  { links := [ exLink 21 20000 9 3900 [],
               { exLink 22 40000 12 3900 [([9], some 1, 1), ([9], some 2, 2), ([9], some 3, 3)] with
                   weak := true, lossDegraded := true, qualMult := 1, silencePulled := true, latchedSince := 7,
                   gateEvents := 3, connTimeoutMs := 1, ccTarget := 1 },
               { exLink 23 60000 0 0 [] with qualMult := 5000 } ],
    reg := { id := [], probeId := [], hasConnected := true },
    lastSelected := some 2, critDeadline := 0,
    cfg := { classic := true, stallDeselect := false, connTimeoutMs := 3000, quality := false, stallMinInFlight := 1 } }

example :
    exSys.links.map (@keyOf Int) = exSys'.links.map (@keyOf Int) ∧
    exSys.cfg.connTimeoutMs = exSys'.cfg.connTimeoutMs ∧
    exSys'.cfg.classic = true ∧ exSys'.cfg.stallDeselect = false ∧ exSys'.reg.hasConnected = true ∧
    (∀ l ∈ exSys'.links, 0 ≤ l.core.inFlight ∧ l.core.inFlight + l.queue.length + 1 ≤ 2147483647) ∧
    (@handleSrtPacket Int fixScalar exSys exPkt 4000).1.lastSelected = some 1 ∧
    (@handleSrtPacket Int fixScalar exSys' [0x80] 4000).1.lastSelected = some 1 := by
  decide +kernel

/-! ## 2. Windows -/

/-- The saturating multiply of the ACK rule never changes the verdict: for a non-negative in-flight
count and any window below `i32::MAX` (in particular every window in 1000..60000),
`in_flight.saturating_mul(1000) > window` iff `in_flight × 1000 > window`. -/
theorem C10_ack_condition (inFlight w : Int) (h0 : 0 ≤ inFlight) (hw : w < 2147483647) :
    satMulI32 inFlight 1000 > w ↔ inFlight * 1000 > w :=
  satMul_gt_iff inFlight w h0 hw

example : satMulI32 2147483647 1000 = 2147483647 ∧ (satMulI32 2147483647 1000 > 60000) ∧
    ((2147483647 : Int) * 1000 > 60000) ∧ ¬ (satMulI32 20 1000 > 20000) ∧ (satMulI32 21 1000 > 20000) := by
  decide

/-- **Window rules on one connection** (classic mode) are the reference rules:
* `handle_srtla_ack_specific`: if the number is in the link's log it is erased, in-flight becomes
  the new log length `n`, and the window becomes `refAck window n` (`+29` capped at 60000 iff
  `n × 1000 > window`); otherwise the connection is untouched;
* `handle_srtla_ack_global`: `refGlobal` (`+1` capped at 60000) iff connected and has received
  anything, nothing else changes;
* `handle_nak`: if the number is in the log, window becomes `refNak window` (`-100` floored at
  1000); otherwise the connection is untouched. -/
theorem C10_windows (c : Conn) (seq : Int) (now : Nat) (hw : c.window < 2147483647) :
    (c.log.any (·.1 == seq) = true →
      c.srtlaAck seq true now =
        ({ c with log := logErase c.log seq, inFlight := ((logErase c.log seq).length : Int), proofMs := now,
                  window := refAck c.window ((logErase c.log seq).length : Int) }, true)) ∧
    (c.log.any (·.1 == seq) = false → c.srtlaAck seq true now = (c, false)) ∧
    c.ackGlobal = (if c.connected && c.lastReceived.isSome then { c with window := refGlobal c.window } else c) ∧
    (c.log.any (·.1 == seq) = true →
      (c.nak seq now).2 = true ∧ (c.nak seq now).1.window = refNak c.window ∧
      (c.nak seq now).1.inFlight = ((logErase c.log seq).length : Int)) ∧
    (c.log.any (·.1 == seq) = false → c.nak seq now = (c, false)) :=
  ⟨fun h => srtlaAck_classic_found c seq now h hw, fun h => srtlaAck_notfound c seq true now h,
   ackGlobal_eq c,
   fun h => ⟨(nak_found c seq now h).1, (nak_found c seq now h).2.1, (nak_found c seq now h).2.2.2.2.2⟩,
   fun h => nak_notfound c seq now h⟩

/-- Window 20000 with 22 logged packets: an earned ACK leaves 21 in flight, 21000 > 20000, so
`+29`; the global pass adds 1; a NAK takes 100. -/
example :
    let c : Conn := { connId := 1, connected := true, lastReceived := some 5, window := 20000, inFlight := 22,
                      log := (List.range 22).map fun (k : Nat) => ((k : Int), (0 : Nat)) }
    c.window < 2147483647 ∧ c.log.any (·.1 == 7) = true ∧
    (c.srtlaAck 7 true 100).1.window = 20029 ∧ (c.srtlaAck 7 true 100).1.inFlight = 21 ∧
    c.ackGlobal.window = 20001 ∧ (c.nak 7 100).1.window = 19900 ∧ (c.srtlaAck 99 true 100).1.window = 20000 := by
  decide

/-- The same rules, read through C06's operation semantics (`Props/C06.lean`: `applyOp`, tied to
the connection model by `C06_ops_are_conn_ops`): C06's classic-mode ops are the reference rules. -/
theorem C10_windows_ops (s : C06.WS) (n : Int) (now : Nat) (h0 : 0 ≤ n) (hw : s.w < 2147483647) :
    (C06.applyOp s (.ackClassic n)).w = refAck s.w n ∧ (C06.applyOp s (.ackClassic n)).cong = s.cong ∧
    (C06.applyOp s .ackGlobal).w = (if s.connected && s.heard then refGlobal s.w else s.w) ∧
    (C06.applyOp s (.nak now)).w = refNak s.w := by
  obtain ⟨hF, hC, -, -, -, hD, -, -⟩ := wconsts
  refine ⟨ackClassic_eq_refAck s.w n h0 hw, rfl, ?_, ?_⟩
  · simp only [C06.applyOp, refGlobal, hC]
    split <;> rfl
  · simp only [C06.applyOp, Cong.handleNak, refNak, hF, hD]

example :
    (C06.applyOp { w := 59990, cong := {}, connected := true, heard := true } (.ackClassic 70)).w = 60000 ∧
    (C06.applyOp { w := 60000, cong := {}, connected := true, heard := true } .ackGlobal).w = 60000 ∧
    (C06.applyOp { w := 1050, cong := {}, connected := true, heard := true } (.nak 9)).w = 1000 ∧
    refAck 59990 70 = 60000 ∧ refGlobal 60000 = 60000 ∧ refNak 1050 = 1000 := by
  decide

/-- **Fan-out.**  One SRTLA-acknowledged number (classic mode): the earned rule is applied to at
most one link — one whose log holds the number — and then the global `+1` pass runs over EVERY link
exactly once, whether or not anybody held the number.  One NAKed number: at most one link — one
whose log holds the number — is charged. -/
theorem C10_windows_fanout (cs : Links) (idx : Nat) (seq : Int) (trk : Tracker) (nak now : Nat) :
    (∃ ls1, evSrtlaAck cs idx seq true now = ls1.map Conn.ackGlobal ∧
      (ls1 = cs ∨ ∃ k c, cs[k]? = some c ∧ c.log.any (·.1 == seq) = true ∧
        ls1 = cs.set k (c.srtlaAck seq true now).1)) ∧
    (attributeNak cs trk nak now = (cs, none) ∨
      ∃ k c, cs[k]? = some c ∧ c.log.any (·.1 == toI32 nak) = true ∧
        attributeNak cs trk nak now = (cs.set k (c.nak (toI32 nak) now).1, some k)) := by
  constructor
  · obtain ⟨ls1, e, h⟩ := evSrtlaAck_cases cs idx seq true now
    refine ⟨ls1, e, ?_⟩
    rcases h with h | ⟨k, c, h1, h2, h3⟩
    · exact Or.inl h
    · exact Or.inr ⟨k, c, h1, by rw [← srtlaAck_snd c seq true now]; exact h2, h3⟩
  · rcases attributeNak_cases cs trk nak now with h | ⟨k, c, h1, h2, h3⟩
    · exact Or.inl h
    · exact Or.inr ⟨k, c, h1, by rw [← nak_snd c (toI32 nak) now]; exact h2, h3⟩

/-- Number 7 arrives on link 0 but is held by link 1: link 1 earns `+29`, then all three live links
get `+1` (the unconnected one does not); an unknown number still gives the `+1`; the NAK of 7 is
charged to link 1 only. -/
example :
    let cs : Links :=
      [ { connId := 1, connected := true, lastReceived := some 5, window := 20000 },
        { connId := 2, connected := true, lastReceived := some 5, window := 1000, inFlight := 3,
          log := [(6, 0), (7, 0), (8, 0)] },
        { connId := 3, connected := false, window := 30000 } ]
    (evSrtlaAck cs 0 7 true 100).map (·.window) = [20001, 1030, 30000] ∧
    (evSrtlaAck cs 0 99 true 100).map (·.window) = [20001, 1001, 30000] ∧
    (attributeNak cs Tracker.empty 7 100).2 = some 1 ∧
    (attributeNak cs Tracker.empty 7 100).1.map (·.window) = [20000, 1000, 30000] := by
  decide

section scalar2
variable [Scalar F]

/-- **Uplink events, fan-out part** (`process_connection_events`, classic mode): on the window vector
`wv` = `(window, connected ∧ heard)` of all links, the cumulative SRT ACKs move nothing; each
SRTLA-acknowledged number is exactly one reference SACK event (`refSackEvent`: earned `+29` rule on
at most one link, then `+1` on every live link); each NAKed number is at most one reference NAK
event (`refNakEvent`, `-100` floored at 1000 on one link).  Nothing else touches a window. -/
theorem C10_windows_uplink (s : Sys F) (idx : Nat) (inc : Incoming) (now : Nat)
    (hclassic : s.cfg.classic = true) (hrange : ∀ l ∈ s.links, l.core.window ≤ 60000) :
    ∃ (es : List (Option (Nat × Int))) (ns : List Nat),
      es.length = inc.sacks.length ∧ ns.length ≤ inc.naks.length ∧
      wv (cores (processConnectionEvents s idx inc now).1.links) =
        ns.foldl refNakEvent (es.foldl refSackEvent (wv (cores s.links))) :=
  processConnectionEvents_wv s idx inc now hclassic hrange

omit [Scalar F] in
/-- `wv`, spelled out (definition check). -/
theorem C10_wv_def (ls : List (FLink F)) :
    wv (cores ls) = ls.map fun l => (l.core.window, l.core.connected && l.core.lastReceived.isSome) := by
  unfold wv cores live
  rw [List.map_map]
  rfl

/-- **Uplink events, whole arm** (`handle_uplink_packet`, classic mode): either nothing changes
(empty datagram / unknown link), or the arrival-link bookkeeping yields an intermediate window
vector `ws0` that agrees with the old windows everywhere except that a REG_ERR tears the arrival
link down to the initial window 20000 (not live), and the windows after the event are `ws0` moved by
reference SACK / NAK events only. -/
theorem C10_windows_uplink_packet (s : Sys F) (connId : Nat) (data : List UInt8) (now : Nat)
    (hclassic : s.cfg.classic = true) (hrange : ∀ l ∈ s.links, l.core.window ≤ 60000) :
    (handleUplinkPacket s connId data now).1 = s ∨
    ∃ (ws0 : WVec) (es : List (Option (Nat × Int))) (ns : List Nat),
      ws0.length = s.links.length ∧
      (∀ (j : Nat) l, s.links[j]? = some l →
        ∃ p, ws0[j]? = some p ∧ (p.1 = l.core.window ∨ (p.1 = 20000 ∧ p.2 = false))) ∧
      wv (cores (handleUplinkPacket s connId data now).1.links) = ns.foldl refNakEvent (es.foldl refSackEvent ws0) := by
  rcases handleUplinkPacket_cases s connId data now with h | ⟨idx, l, l2, reg1, inc, hl, hw, e⟩
  · exact Or.inl h
  · right
    have hr1 : ∀ x ∈ setAt s.links idx l2, x.core.window ≤ 60000 := by
      intro x hx
      rcases mem_setAt _ _ _ _ hx with rfl | hm
      · rcases hw with hw | ⟨hw, -⟩
        · rw [hw]; exact hrange l (List.mem_of_getElem? hl)
        · rw [hw]; omega
      · exact hrange x hm
    obtain ⟨es, ns, -, -, hwv⟩ :=
      processConnectionEvents_wv { s with links := setAt s.links idx l2, reg := reg1 } idx inc now hclassic hr1
    refine ⟨wv (cores (setAt s.links idx l2)), es, ns, ?_, ?_, by rw [e]; exact hwv⟩
    · rw [length_wv, length_cores, length_setAt]
    · intro j x hx
      rw [C10_wv_def, List.getElem?_map, getElem?_setAt]
      by_cases hj : j = idx
      · subst hj
        rw [if_pos rfl, hx]
        have : x = l := by rw [hl] at hx; exact (Option.some.inj hx).symm
        subst this
        refine ⟨_, rfl, ?_⟩
        rcases hw with hw | ⟨hw, hc⟩
        · exact Or.inl hw
        · exact Or.inr ⟨hw, by simp [hc]⟩
      · rw [if_neg hj, hx]
        exact ⟨_, rfl, Or.inl rfl⟩

/-- **Flush events** move no window, congestion state, connected flag or phase (a failed periodic
flush only warns). -/
theorem C10_windows_flush (s : Sys F) (now : Nat) :
    (flushAllBatches s now).1.links.length = s.links.length ∧
    ∀ (j : Nat) l, s.links[j]? = some l → ∃ l', (flushAllBatches s now).1.links[j]? = some l' ∧
      l'.core.window = l.core.window ∧ l'.core.cong = l.core.cong ∧ l'.core.connected = l.core.connected ∧
      l'.core.phase = l.core.phase := by
  obtain ⟨h1, h2⟩ := flushAllBatches_PW s now
  exact ⟨h1.symm, h2⟩

/-- **Client events** move no window in classic mode (guard off, registered) — except that an
(injected) socket error on the batch flush tears the CHOSEN link down to the initial window 20000,
as in every mode. -/
theorem C10_windows_client (s : Sys F) (pkt : List UInt8) (now : Nat)
    (hclassic : s.cfg.classic = true) (hguard : s.cfg.stallDeselect = false)
    (hreg : s.reg.hasConnected = true) (hpkt : pkt ≠ [])
    (hdom : ∀ l ∈ s.links, 0 ≤ l.core.inFlight ∧ l.core.inFlight + l.queue.length + 1 ≤ 2147483647) :
    ∀ (j : Nat) l, s.links[j]? = some l → ∃ l', (handleSrtPacket s pkt now).1.links[j]? = some l' ∧
      ((l'.core.window = l.core.window ∧ l'.core.cong = l.core.cong) ∨
       (l'.core.window = 20000 ∧ l'.core.connected = false ∧ refSelect (refView s now) = some j)) := by
  intro j l hl
  obtain ⟨a1, a2⟩ := C10_choice s pkt now hclassic hguard hreg hpkt hdom
  cases h : refSelect (refView s now) with
  | none =>
    obtain ⟨x1, -, -⟩ := a2 h
    rw [x1, List.getElem?_map, hl]
    exact ⟨_, rfl, Or.inl ⟨rfl, rfl⟩⟩
  | some i =>
    obtain ⟨li, l', w, hi, -, x2, x3, -, hland⟩ := a1 i h
    by_cases hj : j = i
    · subst hj
      have : li = l := by rw [hl] at hi; exact (Option.some.inj hi).symm
      subst this
      refine ⟨l', x2, ?_⟩
      rcases hland with ⟨-, -, hc, -⟩ | ⟨-, -, -, hw, hg, -⟩ | ⟨-, -, -, hw, hc, -, -⟩
      · left; rw [hc]; exact ⟨rfl, rfl⟩
      · left; rw [hw, hg]; exact ⟨rfl, rfl⟩
      · right; exact ⟨hw, hc, rfl⟩
    · rw [x3 j hj, hl]
      exact ⟨_, rfl, Or.inl ⟨rfl, rfl⟩⟩

/-- The remaining events (configuration reload, critical-window notice, failure injection) do not
touch any link. -/
theorem C10_windows_other_events (s : Sys F) (cfg : Select.Cfg) (d cid : Nat) :
    (step s (.setCfg cfg)).1.links = s.links ∧ (step s (.crit d)).1.links = s.links ∧
    (step s (.failNext cid)).1.links = s.links := ⟨rfl, rfl, rfl⟩

end scalar2

/-- An uplink datagram's fan-out on `exSys`-like links: SRTLA ACK of 7 (held by link 1) and of an
unknown 99, then a NAK of 8 (held by link 1): windows `[20000, 1000]` become
`[20002, 1000 + 29 + 1 + 1 - 100 → 1000 (floor)]`; the reference events give the same vector. -/
example :
    let mk (id : Nat) (w : Int) (log : List (Int × Nat)) : FLink Int :=
      { core := { connId := id, connected := true, window := w, inFlight := log.length, log := log,
                  lastReceived := some 5, phase := .live },
        rtt := @Rtt.RttTracker.new Int fixScalar, bitrate := @Rtt.Bitrate.new Int fixScalar 0, qualMult := 1000 }
    let s : Sys Int :=
      { links := [mk 1 20000 [], mk 2 1000 [(6, 0), (7, 0), (8, 0)]], reg := { id := [], probeId := [] },
        cfg := { classic := true } }
    s.cfg.classic = true ∧ (∀ l ∈ s.links, l.core.window ≤ 60000) ∧
    ((@processConnectionEvents Int fixScalar s 0 { sacks := [7, 99], naks := [8] } 100).1.links.map (·.core.window))
      = [20002, 1000] ∧
    (refNakEvent (refSackEvent (refSackEvent [(20000, true), (1000, true)] (some (1, 2))) none) 1)
      = [(20002, true), (1000, true)] := by
  decide +kernel

/-- Whole uplink arm on two links (windows 20000 and 1000; link 1 holds 6, 7, 8): an SRTLA ACK
datagram `[7, 99]` arriving on link 0 gives `[20002, 1031]` (link 1 earns `+29` once, both live links
get `+1` twice); a REG_ERR on link 1 tears it down to 20000, disconnected.  The periodic flush of
`exSys` puts link 1's three queued datagrams on the wire and moves no window. -/
example :
    let mk (id : Nat) (w : Int) (log : List (Int × Nat)) : FLink Int :=
      { core := { connId := id, connected := true, window := w, inFlight := log.length, log := log,
                  lastReceived := some 5, phase := .live },
        rtt := @Rtt.RttTracker.new Int fixScalar, bitrate := @Rtt.Bitrate.new Int fixScalar 0, qualMult := 1000 }
    let s : Sys Int :=
      { links := [mk 1 20000 [], mk 2 1000 [(6, 0), (7, 0), (8, 0)]],
        reg := { id := [], probeId := [], hasConnected := true }, cfg := { classic := true } }
    s.cfg.classic = true ∧ (∀ l ∈ s.links, l.core.window ≤ 60000) ∧
    ((@handleUplinkPacket Int fixScalar s 1 [0x91, 0x00, 0, 0, 0, 0, 0, 7, 0, 0, 0, 99] 100).1.links.map
      (·.core.window)) = [20002, 1031] ∧
    ((@handleUplinkPacket Int fixScalar s 2 [0x92, 0x10] 100).1.links.map (·.core.window)) = [20000, 20000] ∧
    ((@handleUplinkPacket Int fixScalar s 2 [0x92, 0x10] 100).1.links.map (·.core.connected)) = [true, false] ∧
    ((flushAllBatches exSys 4000).1.links.map (·.core.window)) = [20000, 40000, 60000] ∧
    ((flushAllBatches exSys 4000).1.links.map (·.queue.length)) = [0, 0, 0] ∧
    (flushAllBatches exSys 4000).2.wire = [(12, [1]), (12, [2]), (12, [3])] := by
  decide +kernel

/-! ## 3. No time-based recovery -/

section scalar3
variable [Scalar F]

/-- **Classic mode never applies time-based recovery** (this is also the last clause of C06).

Per-link pass (`hkLinksGo true`, from any start index and registration state): every link either
takes the reconnect branch — it was timed out and a reconnect attempt was due; it comes out with the
initial window 20000, disconnected, registering, fresh congestion state — or its window and its
whole congestion state (`CongestionControl`: NAK counters, fast-recovery flag, pacing stamps) come
out exactly as they went in: `perform_window_recovery` is not applied.

Whole tick (`handle_housekeeping` with `classic = true`): the same, where "timed out and attempt
due" is evaluated on the link as the per-link pass sees it, i.e. after probing completion may have
re-armed the grace deadline of the chosen link (`g`); the later steps of the tick only stamp
`last_sent`.  So a classic tick changes a window only by resetting it to 20000 on reconnect. -/
theorem C10_no_time_recovery (now : Nat) :
    (∀ (ls : List (FLink F)) (i : Nat) (reg : Reg.Reg),
      (hkLinksGo true now ls i reg).1.length = ls.length ∧
      ∀ (j : Nat) l, ls[j]? = some l → ∃ l', (hkLinksGo true now ls i reg).1[j]? = some l' ∧
        ((l.isTimedOut now = true ∧ l.shouldAttemptReconnect now = true ∧ l'.core.window = 20000 ∧
            l'.core.connected = false ∧ l'.core.phase = .registering ∧ l'.core.cong = {}) ∨
         (l'.core.window = refTick l.core.window ∧ l'.core.cong = l.core.cong))) ∧
    (∀ s : Sys F, s.cfg.classic = true →
      (handleHousekeeping s now).1.links.length = s.links.length ∧
      ∀ (j : Nat) l, s.links[j]? = some l → ∃ l', (handleHousekeeping s now).1.links[j]? = some l' ∧
        ((l'.core.window = refTick l.core.window ∧ l'.core.cong = l.core.cong) ∨
         (l'.core.window = 20000 ∧ l'.core.connected = false ∧ l'.core.phase = .registering ∧
            l'.core.cong = {} ∧
            ∃ g, ({ l with graceDeadline := g } : FLink F).isTimedOut now = true ∧
                 ({ l with graceDeadline := g } : FLink F).shouldAttemptReconnect now = true))) := by
  constructor
  · intro ls i reg
    obtain ⟨h1, h2⟩ := hkLinksGo_PW now ls i reg
    exact ⟨h1.symm, h2⟩
  · intro s hc
    obtain ⟨h1, h2⟩ := handleHousekeeping_PW s now hc
    exact ⟨h1.symm, h2⟩

end scalar3

/-- A classic tick at `now = 20000` over two links: link 0 is live with a NAK 3 s ago and window
5000 (enhanced mode WOULD add a recovery increment here: the same tick with `classic = false` gives 5007); link 1 fell
silent 15 s ago with its last reconnect attempt 10 s old, so it reconnects.  After the tick: window
5000 untouched, congestion state untouched; link 1 reset to 20000. -/
example :
    let mk (id : Nat) (w : Int) (heard : Nat) (cg : Cong) : FLink Int :=
      { core := { connId := id, connected := true, window := w, lastReceived := some heard, phase := .live, cong := cg },
        rtt := @Rtt.RttTracker.new Int fixScalar, bitrate := @Rtt.Bitrate.new Int fixScalar 0, qualMult := 1000,
        established := 1, lastAttemptMs := 10000, lastKeepaliveSent := some 19900 }
    let s : Sys Int :=
      { links := [mk 1 5000 19990 { nakCount := 4, lastNakMs := 17000 }, mk 2 7000 5000 {}],
        reg := { id := [], probeId := [], hasConnected := true, active := 2 }, cfg := { classic := true } }
    s.cfg.classic = true ∧
    (s.links.map fun l => @FLink.isTimedOut Int fixScalar l 20000) = [false, true] ∧
    ((@handleHousekeeping Int fixScalar s 20000).1.links.map (·.core.window)) = [5000, 20000] ∧
    ((@handleHousekeeping Int fixScalar s 20000).1.links.map (·.core.cong.nakCount)) = [4, 0] ∧
    ((@handleHousekeeping Int fixScalar { s with cfg := { classic := false } } 20000).1.links.map (·.core.window))
      = [5007, 20000] := by
  decide +kernel

end Srtla.Props.C10
