import Srtla.Model.Codec
import Srtla.Lemmas.Codec
/-!
# C15 — wire codec is total, bounded and matches the SRTLA/SRT layouts

Property theorems only.  `Bytes = List UInt8`, every byte string, no bound on length.
-/
namespace Srtla.Props.C15
open Srtla.Codec Srtla.Gen

/-! ## Totality: no decoder can index out of bounds (Rust: panic) on any input -/

theorem C15_total_get_packet_type (b : Bytes) : getPacketType b ≠ .panic := by
  unfold getPacketType
  split
  · simp
  · rename_i h
    simp at h
    simp [rd16_ok b 0 (by omega)]

theorem C15_total_get_srt_sequence_number (b : Bytes) : getSrtSequenceNumber b ≠ .panic := by
  unfold getSrtSequenceNumber
  split
  · simp
  · rename_i h
    simp at h
    simp [rd32_ok b 0 (by omega)]

theorem C15_total_is_srt_data_retransmit (b : Bytes) : isSrtDataRetransmit b ≠ .panic := by
  unfold isSrtDataRetransmit
  split
  · rename_i h
    simp at h
    simp [rd_ok b 0 (by omega), rd_ok b 4 (by omega)]
    split <;> simp
  · simp


theorem C15_total_extract_keepalive_timestamp (b : Bytes) : extractKeepaliveTimestamp b ≠ .panic := by
  unfold extractKeepaliveTimestamp
  split
  · simp
  · rename_i h
    simp only [Lit.KEEPALIVE_TS_MIN_LEN_eq, Nat.not_lt] at h
    simp only [getPacketType_eq, Chk.bind_ok]
    split
    · simp
    · split
      · simp
      · obtain ⟨r, hr⟩ := tsLoop_ok b 8 0 0 (by omega)
        simp [hr]

theorem C15_total_extract_keepalive_conn_info (b : Bytes) : extractKeepaliveConnInfo b ≠ .panic := by
  unfold extractKeepaliveConnInfo
  split
  · simp
  · rename_i h
    simp only [Proto.SRTLA_KEEPALIVE_EXT_LEN_eq, Nat.not_lt] at h
    simp only [getPacketType_eq, Chk.bind_ok]
    split
    · simp
    · split
      · simp
      · simp only [rd16_ok b 10 (by omega), Chk.bind_ok]
        split
        · simp
        · simp only [rd16_ok b 12 (by omega), Chk.bind_ok]
          split
          · simp
          · simp [rd32_ok b 14 (by omega), rd32_ok b 18 (by omega), rd32_ok b 22 (by omega),
              rd32_ok b 26 (by omega), rd32_ok b 30 (by omega), rd32_ok b 34 (by omega)]

theorem C15_total_parse_srt_ack (b : Bytes) : parseSrtAck b ≠ .panic := by
  unfold parseSrtAck
  split
  · simp
  · rename_i h
    simp only [Lit.SRT_ACK_MIN_LEN_eq, Nat.not_lt] at h
    simp only [getPacketType_eq, Chk.bind_ok]
    split
    · simp
    · split
      · simp
      · simp [rd32_ok b 16 (by omega)]

/-- `parse_srt_nak` is total and yields at most 1000 range-expanded entries plus one entry
per 4 payload bytes. -/
theorem C15_nak_total_and_bound (b : Bytes) :
    ∃ l, parseSrtNak b = .ok l ∧ l.length ≤ 1000 + (b.length - 4) / 4 := by
  unfold parseSrtNak
  split
  · exact ⟨[], rfl, by simp⟩
  · rename_i h
    simp only [Lit.SRT_NAK_MIN_LEN_eq, Nat.not_lt] at h
    simp only [getPacketType_eq, Chk.bind_ok]
    split
    · exact ⟨[], rfl, by simp⟩
    · simp only [Lit.SRT_NAK_FIRST_OFFSET_eq]
      exact nakLoop_ok b b.length 4 [] (by omega) (by omega) (by simp)

theorem C15_total_parse_srt_nak (b : Bytes) : parseSrtNak b ≠ .panic := by
  obtain ⟨l, hl, _⟩ := C15_nak_total_and_bound b
  simp [hl]

theorem C15_total_parse_srtla_ack (b : Bytes) : parseSrtlaAck b ≠ .panic := by
  unfold parseSrtlaAck
  split
  · simp
  · simp only [getPacketType_eq, Chk.bind_ok]
    split
    · simp
    · obtain ⟨r, hr⟩ := ackLoop_ok b b.length Lit.SRTLA_ACK_FIRST_OFFSET []
      rw [hr]; simp

theorem C15_total_type_predicates (b : Bytes) :
    isSrtlaReg1 b ≠ .panic ∧ isSrtlaReg2 b ≠ .panic ∧ isSrtlaReg3 b ≠ .panic ∧
    isSrtlaKeepalive b ≠ .panic ∧ isSrtAck b ≠ .panic := by
  refine ⟨?_, ?_, ?_, ?_, ?_⟩ <;>
    simp only [isSrtlaReg1, isSrtlaReg2, isSrtlaReg3, isSrtlaKeepalive, isSrtAck, getPacketType_eq] <;>
    (try split) <;> simp

/-! ## Layouts -/

/-- SRT ACK number is the big-endian word at bytes 16..20 of a ≥ 20-byte 0x8002 packet. -/
theorem C15_layout_srt_ack (b : Bytes) (h : 20 ≤ b.length) (ht : getPacketTypeS b = some 0x8002) :
    parseSrtAck b = .ok (some (be32 (b[16]'(by omega)) (b[17]'(by omega)) (b[18]'(by omega)) (b[19]'(by omega)))) := by
  unfold parseSrtAck
  split
  · rename_i h'
    simp only [Lit.SRT_ACK_MIN_LEN_eq] at h'
    omega
  · simp [getPacketType_eq, ht, rd32_ok b 16 (by omega)]

/-- Data packets are identified by a clear top bit; the sequence number is the first word. -/
theorem C15_layout_data_seq (a c d e : UInt8) (rest : Bytes) :
    getSrtSequenceNumberS (a :: c :: d :: e :: rest) =
      if a.toNat < 128 then some (be32 a c d e) else none := by
  have := c.toNat_lt; have := d.toNat_lt; have := e.toNat_lt; have := a.toNat_lt
  have hb : be32 a c d e < 2147483648 ↔ a.toNat < 128 := by simp only [be32]; omega
  simp only [getSrtSequenceNumberS, hb]

/-- The retransmit flag is bit 2 of byte 4 of a data packet of at least 8 bytes. -/
theorem C15_layout_retransmit (b0 b1 b2 b3 b4 b5 b6 b7 : UInt8) (rest : Bytes) :
    isSrtDataRetransmitS (b0 :: b1 :: b2 :: b3 :: b4 :: b5 :: b6 :: b7 :: rest) =
      (decide (b0.toNat < 128) && decide (b4.toNat / 4 % 2 = 1)) := by
  have := b0.toNat_lt
  simp only [isSrtDataRetransmitS]
  by_cases h1 : b0.toNat < 128 <;> by_cases h2 : b4.toNat / 4 % 2 = 1 <;> simp [h1, h2] <;> omega

/-! ### The same two layouts on the CHECKED decoders (the forms the driver runs)

`C15_layout_data_seq` / `C15_layout_retransmit` above are about the pattern-matching "spec" forms
`…S` used by the rest of the model.  The differential run executes the checked forms
`getSrtSequenceNumber` / `isSrtDataRetransmit` (every index a bounds-checked read, length guards
regenerated from the source).  The statements below are about those, for EVERY byte string, with the
length guard explicit. -/

/-- Checked decoder, every byte string: the sequence number of a data packet is the big-endian first
word, present iff the packet has at least 4 bytes and the top bit of byte 0 is clear; never a panic. -/
theorem C15_layout_data_seq_checked (b : Bytes) :
    getSrtSequenceNumber b =
      .ok (if h : 4 ≤ b.length then
             (if (b[0]'(by omega)).toNat < 128
              then some (be32 (b[0]'(by omega)) (b[1]'(by omega)) (b[2]'(by omega)) (b[3]'(by omega)))
              else none)
           else none) := by
  rw [getSrtSequenceNumber_eq]
  match b with
  | [] => simp [getSrtSequenceNumberS]
  | [_] => simp [getSrtSequenceNumberS]
  | [_, _] => simp [getSrtSequenceNumberS]
  | [_, _, _] => simp [getSrtSequenceNumberS]
  | a :: c :: d :: e :: rest =>
    rw [C15_layout_data_seq]
    simp

/-- Fewer than 4 bytes ⇒ no sequence number (the guard `buf.len() < 4`). -/
theorem C15_short_no_seq (b : Bytes) (h : b.length < 4) : getSrtSequenceNumber b = .ok none := by
  rw [C15_layout_data_seq_checked, dif_neg (by omega)]

/-- Checked decoder, every byte string: a packet is a retransmitted data packet iff it has at least
8 bytes, the top bit of byte 0 is clear and bit 2 of byte 4 is set; never a panic. -/
theorem C15_layout_retransmit_checked (b : Bytes) :
    isSrtDataRetransmit b =
      .ok (if h : 8 ≤ b.length then
             (decide ((b[0]'(by omega)).toNat < 128) && decide ((b[4]'(by omega)).toNat / 4 % 2 = 1))
           else false) := by
  rw [isSrtDataRetransmit_eq]
  match b with
  | [] => simp [isSrtDataRetransmitS]
  | [_] => simp [isSrtDataRetransmitS]
  | [_, _] => simp [isSrtDataRetransmitS]
  | [_, _, _] => simp [isSrtDataRetransmitS]
  | [_, _, _, _] => simp [isSrtDataRetransmitS]
  | [_, _, _, _, _] => simp [isSrtDataRetransmitS]
  | [_, _, _, _, _, _] => simp [isSrtDataRetransmitS]
  | [_, _, _, _, _, _, _] => simp [isSrtDataRetransmitS]
  | b0 :: b1 :: b2 :: b3 :: b4 :: b5 :: b6 :: b7 :: rest =>
    rw [C15_layout_retransmit]
    simp

/-- **Fewer than 8 bytes ⇒ not a retransmit**, whatever the bytes are — in particular a 5-, 6- or
7-byte datagram whose byte 0 has a clear top bit and whose byte 4 has bit 2 set is NOT reported as a
retransmission (the guard is `buf.len() >= 8`, not `> 4`). -/
theorem C15_short_not_retransmit (b : Bytes) (h : b.length < 8) : isSrtDataRetransmit b = .ok false := by
  rw [C15_layout_retransmit_checked, dif_neg (by omega)]

/-- Non-vacuity: an 8-byte data packet with the flag set is a retransmit with sequence number
0x01020304; the same first 7 bytes are not (too short) but still carry the sequence number; a control
packet (top bit set) has neither; 3 bytes have no sequence number. -/
example :
    isSrtDataRetransmit [1, 2, 3, 4, 0x04, 0, 0, 0] = .ok true ∧
    getSrtSequenceNumber [1, 2, 3, 4, 0x04, 0, 0, 0] = .ok (some 0x01020304) ∧
    isSrtDataRetransmit [1, 2, 3, 4, 0x04, 0, 0] = .ok false ∧
    getSrtSequenceNumber [1, 2, 3, 4, 0x04, 0, 0] = .ok (some 0x01020304) ∧
    isSrtDataRetransmit [0x80, 2, 3, 4, 0x04, 0, 0, 0] = .ok false ∧
    getSrtSequenceNumber [0x80, 2, 3, 4, 0x04, 0, 0, 0] = .ok none ∧
    getSrtSequenceNumber [1, 2, 3] = .ok none := by decide

theorem C15_layout_reg (id : Bytes) (h : id.length = 256) :
    (createReg1 id).length = 258 ∧ (createReg2 id).length = 258 ∧
    getPacketTypeS (createReg1 id) = some 0x9200 ∧ getPacketTypeS (createReg2 id) = some 0x9201 ∧
    (createReg1 id).drop 2 = id ∧ (createReg2 id).drop 2 = id := by
  simp [createReg1, createReg2, toBE16, getPacketTypeS, be16, h]

/-! ## Round trips -/

theorem C15_roundtrip_keepalive (now : Nat) (h : now < 18446744073709551616) :
    (createKeepalive now).length = 10 ∧
    extractKeepaliveTimestamp (createKeepalive now) = .ok (some now) := by
  constructor
  · simp [createKeepalive, toBE16, toBE64, toBE32]
  · simp only [extractKeepaliveTimestamp, createKeepalive, toBE16, toBE64, toBE32, getPacketType_eq,
      getPacketTypeS, List.cons_append, List.nil_append, List.length_cons, List.length_nil,
      Lit.KEEPALIVE_TS_MIN_LEN_eq, Proto.SRTLA_TYPE_KEEPALIVE_eq, Chk.bind_ok]
    simp [tsLoop, rd, be16, UInt8.toNat_ofNat']
    omega


/-- Range predicate for the Rust field types of `ConnectionInfo`. -/
def InfoInRange (i : ConnInfo) : Prop :=
  i.connId < 4294967296 ∧ -2147483648 ≤ i.window ∧ i.window < 2147483648 ∧
  -2147483648 ≤ i.inFlight ∧ i.inFlight < 2147483648 ∧ i.rttMs < 4294967296 ∧
  i.nakCount < 4294967296 ∧ i.bitrate < 4294967296


theorem C15_roundtrip_keepalive_ext (info : ConnInfo) (now : Nat)
    (hi : InfoInRange info) (hn : now < 18446744073709551616) :
    (createKeepaliveExt info now).length = 38 ∧
    (createKeepaliveExt info now).take 10 = createKeepalive now ∧
    extractKeepaliveTimestamp (createKeepaliveExt info now) = .ok (some now) ∧
    extractKeepaliveConnInfo (createKeepaliveExt info now) = .ok (some info) := by
  obtain ⟨h1, h2, h3, h4, h5, h6, h7, h8⟩ := hi
  have hw := i32ToU32_lt info.window
  have hf := i32ToU32_lt info.inFlight
  have hlen : (createKeepaliveExt info now).length = 38 := by simp [createKeepaliveExt]
  have hty : getPacketTypeS (createKeepaliveExt info now) = some 36864 := by
    simp [createKeepaliveExt, toBE16, getPacketTypeS, be16]
  -- the packet, re-associated as prefix ++ (field ++ rest) for each field
  let T := toBE16 Proto.SRTLA_TYPE_KEEPALIVE
  let N := toBE64 now
  let M := toBE16 Proto.SRTLA_KEEPALIVE_MAGIC
  let V := toBE16 Proto.SRTLA_KEEPALIVE_EXT_VERSION
  let C := toBE32 info.connId
  let W := toBE32 (i32ToU32 info.window)
  let F := toBE32 (i32ToU32 info.inFlight)
  let R := toBE32 info.rttMs
  let K := toBE32 info.nakCount
  let B := toBE32 info.bitrate
  have ets : createKeepaliveExt info now = T ++ (N ++ (M ++ V ++ C ++ W ++ F ++ R ++ K ++ B)) := by
    simp [createKeepaliveExt, T, N, M, V, C, W, F, R, K, B, List.append_assoc]
  have r10 : rd16 (createKeepaliveExt info now) 10 = .ok 49183 := by
    rw [show createKeepaliveExt info now = (T ++ N) ++ (M ++ (V ++ C ++ W ++ F ++ R ++ K ++ B)) by
      simp [createKeepaliveExt, T, N, M, V, C, W, F, R, K, B, List.append_assoc]]
    exact rd16_field _ _ _ 10 (by simp [T, N]) (by simp)
  have r12 : rd16 (createKeepaliveExt info now) 12 = .ok 1 := by
    rw [show createKeepaliveExt info now = (T ++ N ++ M) ++ (V ++ (C ++ W ++ F ++ R ++ K ++ B)) by
      simp [createKeepaliveExt, T, N, M, V, C, W, F, R, K, B, List.append_assoc]]
    exact rd16_field _ _ _ 12 (by simp [T, N, M]) (by simp)
  have r14 : rd32 (createKeepaliveExt info now) 14 = .ok info.connId := by
    rw [show createKeepaliveExt info now = (T ++ N ++ M ++ V) ++ (C ++ (W ++ F ++ R ++ K ++ B)) by
      simp [createKeepaliveExt, T, N, M, V, C, W, F, R, K, B, List.append_assoc]]
    exact rd32_field _ _ _ 14 (by simp [T, N, M, V]) h1
  have r18 : rd32 (createKeepaliveExt info now) 18 = .ok (i32ToU32 info.window) := by
    rw [show createKeepaliveExt info now = (T ++ N ++ M ++ V ++ C) ++ (W ++ (F ++ R ++ K ++ B)) by
      simp [createKeepaliveExt, T, N, M, V, C, W, F, R, K, B, List.append_assoc]]
    exact rd32_field _ _ _ 18 (by simp [T, N, M, V, C]) hw
  have r22 : rd32 (createKeepaliveExt info now) 22 = .ok (i32ToU32 info.inFlight) := by
    rw [show createKeepaliveExt info now = (T ++ N ++ M ++ V ++ C ++ W) ++ (F ++ (R ++ K ++ B)) by
      simp [createKeepaliveExt, T, N, M, V, C, W, F, R, K, B, List.append_assoc]]
    exact rd32_field _ _ _ 22 (by simp [T, N, M, V, C, W]) hf
  have r26 : rd32 (createKeepaliveExt info now) 26 = .ok info.rttMs := by
    rw [show createKeepaliveExt info now = (T ++ N ++ M ++ V ++ C ++ W ++ F) ++ (R ++ (K ++ B)) by
      simp [createKeepaliveExt, T, N, M, V, C, W, F, R, K, B, List.append_assoc]]
    exact rd32_field _ _ _ 26 (by simp [T, N, M, V, C, W, F]) h6
  have r30 : rd32 (createKeepaliveExt info now) 30 = .ok info.nakCount := by
    rw [show createKeepaliveExt info now = (T ++ N ++ M ++ V ++ C ++ W ++ F ++ R) ++ (K ++ B) by
      simp [createKeepaliveExt, T, N, M, V, C, W, F, R, K, B, List.append_assoc]]
    exact rd32_field _ _ _ 30 (by simp [T, N, M, V, C, W, F, R]) h7
  have r34 : rd32 (createKeepaliveExt info now) 34 = .ok info.bitrate := by
    rw [show createKeepaliveExt info now = (T ++ N ++ M ++ V ++ C ++ W ++ F ++ R ++ K) ++ (B ++ []) by
      simp [createKeepaliveExt, T, N, M, V, C, W, F, R, K, B, List.append_assoc]]
    exact rd32_field _ _ _ 34 (by simp [T, N, M, V, C, W, F, R, K]) h8
  refine ⟨hlen, ?_, ?_, ?_⟩
  · simp [createKeepaliveExt, createKeepalive, toBE16, toBE64, toBE32]
  · unfold extractKeepaliveTimestamp
    split
    · rename_i h; simp [hlen] at h
    · simp only [getPacketType_eq, hty, Chk.bind_ok, Proto.SRTLA_TYPE_KEEPALIVE_eq]
      rw [ets, tsLoop_toBE64 now _ T (by simp [T]) hn]
      simp
  · unfold extractKeepaliveConnInfo
    split
    · rename_i h; simp [hlen] at h
    · simp only [getPacketType_eq, hty, Chk.bind_ok, r10, r12, r14, r18, r22, r26, r30, r34]
      simp [u32ToI32_i32ToU32 _ h2 h3, u32ToI32_i32ToU32 _ h4 h5]


/-- Every SRTLA ACK frame the builder makes has a 4-byte header followed by big-endian 32-bit
numbers, and decodes back to the list it was built from. -/
theorem C15_roundtrip_srtla_ack (acks : List Nat) (ha : ∀ a ∈ acks, a < 4294967296) :
    (createAck acks).length = 4 + 4 * acks.length ∧
    getPacketTypeS (createAck acks) = some 0x9100 ∧
    parseSrtlaAck (createAck acks) = .ok acks := by
  have hlen : (createAck acks).length = 4 + 4 * acks.length := by
    simp only [createAck, List.length_append, flatten_toBE32_length, toBE16_length,
      List.length_cons, List.length_nil]
  have hty : getPacketTypeS (createAck acks) = some 0x9100 := by
    simp [createAck, toBE16, getPacketTypeS, be16]
  refine ⟨hlen, hty, ?_⟩
  unfold parseSrtlaAck
  split
  · rename_i h
    simp only [hlen, Lit.SRTLA_ACK_MIN_LEN_eq] at h
    have : acks.length = 0 := by omega
    simp [List.length_eq_zero_iff.mp this]
  · simp only [getPacketType_eq, hty, Chk.bind_ok, Proto.SRTLA_TYPE_ACK_eq, Lit.SRTLA_ACK_FIRST_OFFSET_eq]
    have := ackLoop_roundtrip acks (toBE16 Proto.SRTLA_TYPE_ACK ++ [0, 0]) (createAck acks).length 4 []
      (by simp) (by rw [hlen]; omega) ha
    simp only [createAck] at this ⊢
    simpa using this


/-! ## Round 2 (a): literal length / type pins -/

/-- The regenerated length and type constants have the values the property names.  Editing a
`*_LEN` / type constant in `constants.rs` (or a bare guard literal in `parsers.rs`/`types.rs`) makes
this proof fail. -/
theorem C15_length_pins :
    Proto.SRTLA_TYPE_REG1_LEN = 258 ∧ Proto.SRTLA_TYPE_REG2_LEN = 258 ∧ Proto.SRTLA_TYPE_REG3_LEN = 2 ∧
    Proto.SRTLA_ID_LEN = 256 ∧ Proto.SRTLA_KEEPALIVE_EXT_LEN = 38 ∧
    Proto.SRTLA_TYPE_REG1 = 0x9200 ∧ Proto.SRTLA_TYPE_REG2 = 0x9201 ∧ Proto.SRTLA_TYPE_REG3 = 0x9202 ∧
    Proto.SRTLA_TYPE_KEEPALIVE = 0x9000 ∧ Proto.SRTLA_TYPE_ACK = 0x9100 ∧
    Proto.SRT_TYPE_ACK = 0x8002 ∧ Proto.SRT_TYPE_NAK = 0x8003 ∧
    Proto.SRTLA_KEEPALIVE_MAGIC = 0xC01F ∧ Proto.SRTLA_KEEPALIVE_EXT_VERSION = 1 ∧
    Lit.PKT_TYPE_MIN_LEN = 2 ∧ Lit.SRT_SEQ_MIN_LEN = 4 ∧ Lit.RETRANSMIT_MIN_LEN = 8 ∧
    Lit.KEEPALIVE_TS_MIN_LEN = 10 ∧ Lit.SRT_ACK_MIN_LEN = 20 ∧ Lit.SRT_ACK_OFFSET = 16 ∧
    Lit.SRT_NAK_MIN_LEN = 8 ∧ Lit.SRT_NAK_FIRST_OFFSET = 4 ∧ Lit.SRT_NAK_MAX_EXPAND = 1000 ∧
    Lit.SRTLA_ACK_MIN_LEN = 8 ∧ Lit.SRTLA_ACK_FIRST_OFFSET = 4 := by
  decide

/-- REG3 is exactly 2 bytes: the predicate accepts a byte string iff it has length 2 and type 0x9202. -/
theorem C15_reg3_is_2_bytes (b : Bytes) :
    isSrtlaReg3 b = .ok true ↔ b.length = 2 ∧ getPacketTypeS b = some 0x9202 := by
  simp only [isSrtlaReg3, getPacketType_eq, Proto.SRTLA_TYPE_REG3_LEN_eq, Proto.SRTLA_TYPE_REG3_eq]
  by_cases h : b.length = 2 <;> simp [h]

/-- … i.e. iff it is the two bytes `92 02`. -/
theorem C15_reg3_exact (b : Bytes) : isSrtlaReg3 b = .ok true ↔ b = [0x92, 0x02] := by
  rw [C15_reg3_is_2_bytes]
  constructor
  · rintro ⟨hl, ht⟩
    match b, hl with
    | [a, c], _ =>
      simp only [getPacketTypeS, be16, Option.some.injEq] at ht
      have ha := a.toNat_lt; have hc := c.toNat_lt
      have h1 : a.toNat = 146 := by omega
      have h2 : c.toNat = 2 := by omega
      have ea : a = 146 := UInt8.toNat_inj.1 h1
      have ec : c = 2 := UInt8.toNat_inj.1 h2
      rw [ea, ec]
  · rintro rfl; decide

/-- REG1 is exactly 258 bytes of type 0x9200. -/
theorem C15_reg1_is_258_bytes (b : Bytes) :
    isSrtlaReg1 b = .ok true ↔ b.length = 258 ∧ getPacketTypeS b = some 0x9200 := by
  simp only [isSrtlaReg1, getPacketType_eq, Proto.SRTLA_TYPE_REG1_LEN_eq, Proto.SRTLA_TYPE_REG1_eq]
  by_cases h : b.length = 258 <;> simp [h]

/-- REG2 is exactly 258 bytes of type 0x9201. -/
theorem C15_reg2_is_258_bytes (b : Bytes) :
    isSrtlaReg2 b = .ok true ↔ b.length = 258 ∧ getPacketTypeS b = some 0x9201 := by
  simp only [isSrtlaReg2, getPacketType_eq, Proto.SRTLA_TYPE_REG2_LEN_eq, Proto.SRTLA_TYPE_REG2_eq]
  by_cases h : b.length = 258 <;> simp [h]

/-- The keepalive / SRT ACK predicates look at the type only (any length ≥ 2). -/
theorem C15_type_only_predicates (b : Bytes) :
    (isSrtlaKeepalive b = .ok true ↔ getPacketTypeS b = some 0x9000) ∧
    (isSrtAck b = .ok true ↔ getPacketTypeS b = some 0x8002) := by
  simp [isSrtlaKeepalive, isSrtAck, getPacketType_eq]

/-- The type is the big-endian 16-bit number in the first two bytes; fewer than 2 bytes have none. -/
theorem C15_packet_type (b : Bytes) :
    getPacketType b = .ok (getPacketTypeS b) ∧
    (b.length < 2 → getPacketTypeS b = none) ∧
    (∀ h : 2 ≤ b.length, getPacketTypeS b = some ((b[0]'(by omega)).toNat * 256 + (b[1]'(by omega)).toNat)) := by
  refine ⟨getPacketType_eq b, ?_, ?_⟩
  · intro h
    match b, h with
    | [], _ => rfl
    | [_], _ => rfl
  · intro h
    match b, h with
    | a :: c :: rest, _ => simp [getPacketTypeS, be16]

/-- A keepalive timestamp is only ever extracted from a frame of at least 10 bytes with type 0x9000,
connection info only from one of at least 38 bytes with type 0x9000, magic 0xC01F at bytes 10..12 and
version 1 at bytes 12..14. -/
theorem C15_keepalive_min_len (b : Bytes) :
    (∀ ts, extractKeepaliveTimestamp b = .ok (some ts) → 10 ≤ b.length ∧ getPacketTypeS b = some 0x9000) ∧
    (∀ ci, extractKeepaliveConnInfo b = .ok (some ci) → 38 ≤ b.length ∧ getPacketTypeS b = some 0x9000 ∧
      rd16 b 10 = .ok 0xC01F ∧ rd16 b 12 = .ok 1) := by
  have c1 := Proto.SRTLA_TYPE_KEEPALIVE_eq
  have c2 := Proto.SRTLA_KEEPALIVE_MAGIC_eq
  have c3 := Proto.SRTLA_KEEPALIVE_EXT_VERSION_eq
  constructor
  · intro ts h
    unfold extractKeepaliveTimestamp at h
    by_cases hl : b.length < Lit.KEEPALIVE_TS_MIN_LEN
    · rw [if_pos hl] at h; cases h
    · rw [if_neg hl] at h
      simp only [Lit.KEEPALIVE_TS_MIN_LEN_eq, Nat.not_lt] at hl
      simp only [getPacketType_eq, Chk.bind_ok] at h
      cases ht : getPacketTypeS b with
      | none => rw [ht] at h; cases h
      | some t =>
        rw [ht] at h
        by_cases hne : t = 36864
        · exact ⟨hl, by rw [hne]⟩
        · simp [hne] at h
  · intro ci h
    unfold extractKeepaliveConnInfo at h
    by_cases hl : b.length < Proto.SRTLA_KEEPALIVE_EXT_LEN
    · rw [if_pos hl] at h; cases h
    · rw [if_neg hl] at h
      simp only [Proto.SRTLA_KEEPALIVE_EXT_LEN_eq, Nat.not_lt] at hl
      simp only [getPacketType_eq, Chk.bind_ok] at h
      cases ht : getPacketTypeS b with
      | none => rw [ht] at h; cases h
      | some t =>
        rw [ht] at h
        by_cases hne : t = 36864
        · obtain ⟨m, hm⟩ : ∃ m, rd16 b 10 = .ok m := ⟨_, rd16_ok b 10 (by omega)⟩
          obtain ⟨v, hv⟩ : ∃ v, rd16 b 12 = .ok v := ⟨_, rd16_ok b 12 (by omega)⟩
          simp only [c1, hne, bne_self_eq_false, Bool.false_eq_true, if_false, hm, hv, Chk.bind_ok] at h
          by_cases hmg : m = 49183
          · by_cases hvs : v = 1
            · exact ⟨hl, by rw [hne], by rw [hm, hmg], by rw [hv, hvs]⟩
            · simp [hmg, hvs] at h
          · simp [hmg] at h
        · simp [hne] at h

example : isSrtlaReg3 [0x92, 0x02] = .ok true ∧ isSrtlaReg3 [0x92, 0x02, 0] = .ok false ∧
    isSrtlaReg3 [0x92] = .ok false ∧ isSrtlaReg3 [0x92, 0x01] = .ok false := by decide

/-! ## Round 2 (b): NAK decode CONTENT -/

/-- The word view used by the two list decoders: `wordsOf p` has one entry per complete 4 bytes of
`p`, and entry `k` is the big-endian word at bytes `4k..4k+4` (a trailing 1–3 byte fragment is ignored). -/
theorem C15_words_spec (p : Bytes) :
    (wordsOf p).length = p.length / 4 ∧
    ∀ k (h : 4 * k + 3 < p.length),
      (wordsOf p)[k]? = some (be32 (p[4 * k]'(by omega)) (p[4 * k + 1]'(by omega))
        (p[4 * k + 2]'(by omega)) (p[4 * k + 3]'h)) := by
  constructor
  · have := wordsOf_drop_length p 0; simpa using this
  · intro k h
    have := wordsOf_drop_getElem? p 0 k (by omega)
    simpa using this

/-- The NAK content specification, clause by clause (these four equations DEFINE `nakWords`):
end of payload; a word with a clear top bit is one lost sequence number; a word with the top bit set
opens the range `w & 0x7fffffff ..= next word`, expanded in increasing order and cut off so that the
output never grows beyond 1000 entries by range expansion; a range marker without a following complete
word (truncated range) is dropped. -/
theorem C15_nak_spec_clauses (w e : Nat) (ws out : List Nat) :
    nakWords [] out = out ∧
    (w < 0x80000000 → nakWords (w :: ws) out = nakWords ws (out ++ [w])) ∧
    (0x80000000 ≤ w → nakWords (w :: e :: ws) out =
      nakWords ws (out ++ (List.range' (w &&& 0x7fffffff) (e + 1 - (w &&& 0x7fffffff))).take (1000 - out.length))) ∧
    (0x80000000 ≤ w → nakWords [w] out = out) :=
  ⟨by simp [nakWords], nakWords_single w ws out, nakWords_range w e ws out, nakWords_truncated w out⟩

/-- `List.range' lo (hi + 1 - lo)` is the inclusive range `lo ..= hi` (empty when `hi < lo`). -/
theorem C15_nak_range_members (lo hi x : Nat) :
    x ∈ List.range' lo (hi + 1 - lo) ↔ lo ≤ x ∧ x ≤ hi := by
  rw [List.mem_range'_1]; omega

/-- NAK decode content, for EVERY byte string: a string shorter than 8 bytes or not of type 0x8003
decodes to nothing; otherwise the result is the specification `nakWords` applied to the big-endian
words of the payload from byte 4 on. -/
theorem C15_nak_decode_spec (b : Bytes) :
    parseSrtNak b = .ok (if 8 ≤ b.length ∧ getPacketTypeS b = some 0x8003
      then nakWords (wordsOf (b.drop 4)) [] else []) := by
  unfold parseSrtNak
  have c1 := Lit.SRT_NAK_MIN_LEN_eq
  have c2 := Proto.SRT_TYPE_NAK_eq
  have c3 := Lit.SRT_NAK_FIRST_OFFSET_eq
  by_cases hl : b.length < Lit.SRT_NAK_MIN_LEN
  · have h8 : ¬ 8 ≤ b.length := by omega
    simp [h8]
  · have h8 : 8 ≤ b.length := by omega
    rw [if_neg hl]
    simp only [getPacketType_eq, Chk.bind_ok, c2, c3]
    rw [nakLoop_spec b b.length 4 [] (by omega)]
    by_cases ht : getPacketTypeS b = some 0x8003 <;> simp [ht, h8]

/-- A single (non-range) entry decodes to itself, a full range to its members in order, a truncated
range to nothing — on concrete frames (type 0x8003, two padding bytes, payload). -/
example :
    parseSrtNak [0x80, 0x03, 0, 0, 0, 0, 0, 5] = .ok [5] ∧
    parseSrtNak [0x80, 0x03, 0, 0, 0x80, 0, 0, 10, 0, 0, 0, 12] = .ok [10, 11, 12] ∧
    parseSrtNak [0x80, 0x03, 0, 0, 0, 0, 0, 5, 0x80, 0, 0, 10, 0, 0, 0, 12, 0, 0, 0, 7, 0x80, 0, 0, 1, 9, 9] =
      .ok [5, 10, 11, 12, 7] ∧
    parseSrtNak [0x80, 0x03, 0, 0, 0x80, 0, 0, 10, 0, 0, 0, 9] = .ok [] ∧
    parseSrtNak [0x80, 0x02, 0, 0, 0, 0, 0, 5] = .ok [] := by
  simp only [C15_nak_decode_spec]
  decide

/-- The 1000 bound is on range expansion: a range of 2^31 numbers yields exactly 1000 entries, and
single entries after it are still appended (the `+ one per 4 payload bytes` of the bound). -/
example :
    (nakWords [0x80000000, 0x7fffffff, 77] []).length = 1001 ∧
    (nakWords [0x80000000, 0x7fffffff, 77] []).getLast? = some 77 := by
  rw [nakWords_range _ _ _ _ (by decide), nakWords_single _ _ _ (by decide)]
  simp [nakWords, nakRange]

/-! ## Round 2 (c): SRTLA ACK decode side, arbitrary frame -/

/-- SRTLA ACK decode, for EVERY byte string: shorter than 8 bytes or not of type 0x9100 ⇒ nothing;
otherwise exactly the big-endian words from byte 4 on. -/
theorem C15_srtla_ack_decode_spec (b : Bytes) :
    parseSrtlaAck b = .ok (if 8 ≤ b.length ∧ getPacketTypeS b = some 0x9100
      then wordsOf (b.drop 4) else []) := by
  unfold parseSrtlaAck
  have c1 := Lit.SRTLA_ACK_MIN_LEN_eq
  have c2 := Proto.SRTLA_TYPE_ACK_eq
  have c3 := Lit.SRTLA_ACK_FIRST_OFFSET_eq
  by_cases hl : b.length < Lit.SRTLA_ACK_MIN_LEN
  · have h8 : ¬ 8 ≤ b.length := by omega
    simp [h8]
  · have h8 : 8 ≤ b.length := by omega
    rw [if_neg hl]
    simp only [getPacketType_eq, Chk.bind_ok, c2, c3]
    rw [ackLoop_spec b b.length 4 [] (by omega)]
    by_cases ht : getPacketTypeS b = some 0x9100 <;> simp [ht, h8]

/-- … so for an ARBITRARY frame of type 0x9100 and at least 8 bytes the decoder returns
`(len − 4) / 4` entries and entry `i` is the big-endian 32-bit word at byte offset `4 + 4·i`. -/
theorem C15_srtla_ack_entries (b : Bytes) (h8 : 8 ≤ b.length) (ht : getPacketTypeS b = some 0x9100) :
    ∃ l, parseSrtlaAck b = .ok l ∧ l.length = (b.length - 4) / 4 ∧
      ∀ i (h : 4 + 4 * i + 3 < b.length),
        l[i]? = some (be32 (b[4 + 4 * i]'(by omega)) (b[4 + 4 * i + 1]'(by omega))
          (b[4 + 4 * i + 2]'(by omega)) (b[4 + 4 * i + 3]'h)) := by
  refine ⟨wordsOf (b.drop 4), ?_, wordsOf_drop_length b 4, fun i h => wordsOf_drop_getElem? b 4 i h⟩
  rw [C15_srtla_ack_decode_spec, if_pos ⟨h8, ht⟩]

example : parseSrtlaAck [0x91, 0x00, 7, 7, 0, 0, 1, 0, 0xff, 0xff, 0xff, 0xff, 1, 2, 3] =
    .ok [256, 4294967295] := by
  simp only [C15_srtla_ack_decode_spec]; decide

/-! ## Round 2 (d): predicate round trips -/

/-- Every frame the builders make is recognised by its own predicate and by no other one. -/
theorem C15_roundtrip_predicates (id : Bytes) (h : id.length = 256) (now : Nat) (info : ConnInfo) :
    isSrtlaReg1 (createReg1 id) = .ok true ∧ isSrtlaReg2 (createReg2 id) = .ok true ∧
    isSrtlaReg2 (createReg1 id) = .ok false ∧ isSrtlaReg3 (createReg1 id) = .ok false ∧
    isSrtlaReg1 (createReg2 id) = .ok false ∧ isSrtlaReg3 (createReg2 id) = .ok false ∧
    isSrtlaKeepalive (createKeepalive now) = .ok true ∧
    isSrtlaKeepalive (createKeepaliveExt info now) = .ok true ∧
    isSrtlaKeepalive (createReg1 id) = .ok false ∧ isSrtlaKeepalive (createReg2 id) = .ok false ∧
    isSrtAck (createKeepalive now) = .ok false ∧ isSrtAck (createReg1 id) = .ok false := by
  have l1 : (createReg1 id).length = 258 := by simp [createReg1, h]
  have l2 : (createReg2 id).length = 258 := by simp [createReg2, h]
  have t1 : getPacketTypeS (createReg1 id) = some 37376 := by simp [createReg1, toBE16, getPacketTypeS, be16]
  have t2 : getPacketTypeS (createReg2 id) = some 37377 := by simp [createReg2, toBE16, getPacketTypeS, be16]
  have t3 : getPacketTypeS (createKeepalive now) = some 36864 := by
    simp [createKeepalive, toBE16, getPacketTypeS, be16]
  have t4 : getPacketTypeS (createKeepaliveExt info now) = some 36864 := by
    simp [createKeepaliveExt, toBE16, getPacketTypeS, be16]
  simp [isSrtlaReg1, isSrtlaReg2, isSrtlaReg3, isSrtlaKeepalive, isSrtAck, getPacketType_eq,
    l1, l2, t1, t2, t3, t4]

example : isSrtlaReg1 (createReg1 (List.replicate 256 7)) = .ok true :=
  (C15_roundtrip_predicates _ (List.length_replicate ..) 0 ⟨0, 0, 0, 0, 0, 0⟩).1

/-! ## Round 2 (e): fuel sufficiency -/

/-- No loop of the model is ever stopped by its fuel: with ANY fuel of at least `b.length` (the model
passes exactly `b.length`) the two fuelled byte loops return the fuel-free specification, and the range
loop with its fuel 1000 (or more) returns the fuel-free `take`/`range'` specification for every start
below 2^31 (the masked range start) — so `seq.wrapping_add(1)` never wraps either. -/
theorem C15_fuel_sufficient (b : Bytes) (f : Nat) (hf : b.length ≤ f) :
    nakLoop b f 4 [] = .ok (nakWords (wordsOf (b.drop 4)) []) ∧
    nakLoop b f 4 [] = nakLoop b b.length 4 [] ∧
    ackLoop b f 4 [] = .ok (wordsOf (b.drop 4)) ∧
    ackLoop b f 4 [] = ackLoop b b.length 4 [] ∧
    ∀ g seq e out, 1000 ≤ g → seq < 2147483648 → g ≤ 2147483648 →
      expandLoop g seq e out = out ++ (List.range' seq (e + 1 - seq)).take (1000 - out.length) ∧
      expandLoop g seq e out = expandLoop 1000 seq e out := by
  have n1 := nakLoop_spec b f 4 [] (by omega)
  have n2 := nakLoop_spec b b.length 4 [] (by omega)
  have a1 := ackLoop_spec b f 4 [] (by omega)
  have a2 := ackLoop_spec b b.length 4 [] (by omega)
  refine ⟨n1, n1.trans n2.symm, by simpa using a1, a1.trans a2.symm, ?_⟩
  intro g seq e out hg hs hg2
  have e1 := expandLoop_spec g seq e out (by omega) (by omega)
  have e2 := expandLoop_spec 1000 seq e out (by omega) (by omega)
  exact ⟨e1, e1.trans e2.symm⟩

end Srtla.Props.C15
