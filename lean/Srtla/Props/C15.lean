import Srtla.Model.Codec
import Srtla.Lemmas.Codec
/-!
# C15 — wire codec is total, bounded and matches the SRTLA/SRT layouts

Property theorems only.  `Bytes = List UInt8`, every byte string, no bound on length.
-/
namespace Srtla.Props.C15
open Srtla.Codec Srtla.Gen

/-! ## Totality: no decoder can index out of bounds (Rust: panic) on any input -/

theorem C15_total_get_packet_type (b : Bytes) : getPacketType b ≠ .panic := by
  unfold getPacketType
  split
  · simp
  · rename_i h
    simp at h
    simp [rd16_ok b 0 (by omega)]

theorem C15_total_get_srt_sequence_number (b : Bytes) : getSrtSequenceNumber b ≠ .panic := by
  unfold getSrtSequenceNumber
  split
  · simp
  · rename_i h
    simp at h
    simp [rd32_ok b 0 (by omega)]

theorem C15_total_is_srt_data_retransmit (b : Bytes) : isSrtDataRetransmit b ≠ .panic := by
  unfold isSrtDataRetransmit
  split
  · rename_i h
    simp at h
    simp [rd_ok b 0 (by omega), rd_ok b 4 (by omega)]
    split <;> simp
  · simp


theorem C15_total_extract_keepalive_timestamp (b : Bytes) : extractKeepaliveTimestamp b ≠ .panic := by
  unfold extractKeepaliveTimestamp
  split
  · simp
  · rename_i h
    simp only [Lit.KEEPALIVE_TS_MIN_LEN_eq, Nat.not_lt] at h
    simp only [getPacketType_eq, Chk.bind_ok]
    split
    · simp
    · split
      · simp
      · obtain ⟨r, hr⟩ := tsLoop_ok b 8 0 0 (by omega)
        simp [hr]

theorem C15_total_extract_keepalive_conn_info (b : Bytes) : extractKeepaliveConnInfo b ≠ .panic := by
  unfold extractKeepaliveConnInfo
  split
  · simp
  · rename_i h
    simp only [Proto.SRTLA_KEEPALIVE_EXT_LEN_eq, Nat.not_lt] at h
    simp only [getPacketType_eq, Chk.bind_ok]
    split
    · simp
    · split
      · simp
      · simp only [rd16_ok b 10 (by omega), Chk.bind_ok]
        split
        · simp
        · simp only [rd16_ok b 12 (by omega), Chk.bind_ok]
          split
          · simp
          · simp [rd32_ok b 14 (by omega), rd32_ok b 18 (by omega), rd32_ok b 22 (by omega),
              rd32_ok b 26 (by omega), rd32_ok b 30 (by omega), rd32_ok b 34 (by omega)]

theorem C15_total_parse_srt_ack (b : Bytes) : parseSrtAck b ≠ .panic := by
  unfold parseSrtAck
  split
  · simp
  · rename_i h
    simp only [Lit.SRT_ACK_MIN_LEN_eq, Nat.not_lt] at h
    simp only [getPacketType_eq, Chk.bind_ok]
    split
    · simp
    · split
      · simp
      · simp [rd32_ok b 16 (by omega)]

/-- `parse_srt_nak` is total and yields at most 1000 range-expanded entries plus one entry
per 4 payload bytes. -/
theorem C15_nak_total_and_bound (b : Bytes) :
    ∃ l, parseSrtNak b = .ok l ∧ l.length ≤ 1000 + (b.length - 4) / 4 := by
  unfold parseSrtNak
  split
  · exact ⟨[], rfl, by simp⟩
  · rename_i h
    simp only [Lit.SRT_NAK_MIN_LEN_eq, Nat.not_lt] at h
    simp only [getPacketType_eq, Chk.bind_ok]
    split
    · exact ⟨[], rfl, by simp⟩
    · simp only [Lit.SRT_NAK_FIRST_OFFSET_eq]
      exact nakLoop_ok b b.length 4 [] (by omega) (by omega) (by simp)

theorem C15_total_parse_srt_nak (b : Bytes) : parseSrtNak b ≠ .panic := by
  obtain ⟨l, hl, _⟩ := C15_nak_total_and_bound b
  simp [hl]

theorem C15_total_parse_srtla_ack (b : Bytes) : parseSrtlaAck b ≠ .panic := by
  unfold parseSrtlaAck
  split
  · simp
  · simp only [getPacketType_eq, Chk.bind_ok]
    split
    · simp
    · obtain ⟨r, hr⟩ := ackLoop_ok b b.length Lit.SRTLA_ACK_FIRST_OFFSET []
      rw [hr]; simp

theorem C15_total_type_predicates (b : Bytes) :
    isSrtlaReg1 b ≠ .panic ∧ isSrtlaReg2 b ≠ .panic ∧ isSrtlaReg3 b ≠ .panic ∧
    isSrtlaKeepalive b ≠ .panic ∧ isSrtAck b ≠ .panic := by
  refine ⟨?_, ?_, ?_, ?_, ?_⟩ <;>
    simp only [isSrtlaReg1, isSrtlaReg2, isSrtlaReg3, isSrtlaKeepalive, isSrtAck, getPacketType_eq] <;>
    (try split) <;> simp

/-! ## Layouts -/

/-- SRT ACK number is the big-endian word at bytes 16..20 of a ≥ 20-byte 0x8002 packet. -/
theorem C15_layout_srt_ack (b : Bytes) (h : 20 ≤ b.length) (ht : getPacketTypeS b = some 0x8002) :
    parseSrtAck b = .ok (some (be32 (b[16]'(by omega)) (b[17]'(by omega)) (b[18]'(by omega)) (b[19]'(by omega)))) := by
  unfold parseSrtAck
  split
  · rename_i h'
    simp only [Lit.SRT_ACK_MIN_LEN_eq] at h'
    omega
  · simp [getPacketType_eq, ht, rd32_ok b 16 (by omega)]

/-- Data packets are identified by a clear top bit; the sequence number is the first word. -/
theorem C15_layout_data_seq (a c d e : UInt8) (rest : Bytes) :
    getSrtSequenceNumberS (a :: c :: d :: e :: rest) =
      if a.toNat < 128 then some (be32 a c d e) else none := by
  have := c.toNat_lt; have := d.toNat_lt; have := e.toNat_lt; have := a.toNat_lt
  have hb : be32 a c d e < 2147483648 ↔ a.toNat < 128 := by simp only [be32]; omega
  simp only [getSrtSequenceNumberS, hb]

/-- The retransmit flag is bit 2 of byte 4 of a data packet of at least 8 bytes. -/
theorem C15_layout_retransmit (b0 b1 b2 b3 b4 b5 b6 b7 : UInt8) (rest : Bytes) :
    isSrtDataRetransmitS (b0 :: b1 :: b2 :: b3 :: b4 :: b5 :: b6 :: b7 :: rest) =
      (decide (b0.toNat < 128) && decide (b4.toNat / 4 % 2 = 1)) := by
  have := b0.toNat_lt
  simp only [isSrtDataRetransmitS]
  by_cases h1 : b0.toNat < 128 <;> by_cases h2 : b4.toNat / 4 % 2 = 1 <;> simp [h1, h2] <;> omega

theorem C15_layout_reg (id : Bytes) (h : id.length = 256) :
    (createReg1 id).length = 258 ∧ (createReg2 id).length = 258 ∧
    getPacketTypeS (createReg1 id) = some 0x9200 ∧ getPacketTypeS (createReg2 id) = some 0x9201 ∧
    (createReg1 id).drop 2 = id ∧ (createReg2 id).drop 2 = id := by
  simp [createReg1, createReg2, toBE16, getPacketTypeS, be16, h]

/-! ## Round trips -/

theorem C15_roundtrip_keepalive (now : Nat) (h : now < 18446744073709551616) :
    (createKeepalive now).length = 10 ∧
    extractKeepaliveTimestamp (createKeepalive now) = .ok (some now) := by
  constructor
  · simp [createKeepalive, toBE16, toBE64, toBE32]
  · simp only [extractKeepaliveTimestamp, createKeepalive, toBE16, toBE64, toBE32, getPacketType_eq,
      getPacketTypeS, List.cons_append, List.nil_append, List.length_cons, List.length_nil,
      Lit.KEEPALIVE_TS_MIN_LEN_eq, Proto.SRTLA_TYPE_KEEPALIVE_eq, Chk.bind_ok]
    simp [tsLoop, rd, be16, UInt8.toNat_ofNat']
    omega


/-- Range predicate for the Rust field types of `ConnectionInfo`. -/
def InfoInRange (i : ConnInfo) : Prop :=
  i.connId < 4294967296 ∧ -2147483648 ≤ i.window ∧ i.window < 2147483648 ∧
  -2147483648 ≤ i.inFlight ∧ i.inFlight < 2147483648 ∧ i.rttMs < 4294967296 ∧
  i.nakCount < 4294967296 ∧ i.bitrate < 4294967296


theorem C15_roundtrip_keepalive_ext (info : ConnInfo) (now : Nat)
    (hi : InfoInRange info) (hn : now < 18446744073709551616) :
    (createKeepaliveExt info now).length = 38 ∧
    (createKeepaliveExt info now).take 10 = createKeepalive now ∧
    extractKeepaliveTimestamp (createKeepaliveExt info now) = .ok (some now) ∧
    extractKeepaliveConnInfo (createKeepaliveExt info now) = .ok (some info) := by
  obtain ⟨h1, h2, h3, h4, h5, h6, h7, h8⟩ := hi
  have hw := i32ToU32_lt info.window
  have hf := i32ToU32_lt info.inFlight
  have hlen : (createKeepaliveExt info now).length = 38 := by simp [createKeepaliveExt]
  have hty : getPacketTypeS (createKeepaliveExt info now) = some 36864 := by
    simp [createKeepaliveExt, toBE16, getPacketTypeS, be16]
  -- the packet, re-associated as prefix ++ (field ++ rest) for each field
  let T := toBE16 Proto.SRTLA_TYPE_KEEPALIVE
  let N := toBE64 now
  let M := toBE16 Proto.SRTLA_KEEPALIVE_MAGIC
  let V := toBE16 Proto.SRTLA_KEEPALIVE_EXT_VERSION
  let C := toBE32 info.connId
  let W := toBE32 (i32ToU32 info.window)
  let F := toBE32 (i32ToU32 info.inFlight)
  let R := toBE32 info.rttMs
  let K := toBE32 info.nakCount
  let B := toBE32 info.bitrate
  have ets : createKeepaliveExt info now = T ++ (N ++ (M ++ V ++ C ++ W ++ F ++ R ++ K ++ B)) := by
    simp [createKeepaliveExt, T, N, M, V, C, W, F, R, K, B, List.append_assoc]
  have r10 : rd16 (createKeepaliveExt info now) 10 = .ok 49183 := by
    rw [show createKeepaliveExt info now = (T ++ N) ++ (M ++ (V ++ C ++ W ++ F ++ R ++ K ++ B)) by
      simp [createKeepaliveExt, T, N, M, V, C, W, F, R, K, B, List.append_assoc]]
    exact rd16_field _ _ _ 10 (by simp [T, N]) (by simp)
  have r12 : rd16 (createKeepaliveExt info now) 12 = .ok 1 := by
    rw [show createKeepaliveExt info now = (T ++ N ++ M) ++ (V ++ (C ++ W ++ F ++ R ++ K ++ B)) by
      simp [createKeepaliveExt, T, N, M, V, C, W, F, R, K, B, List.append_assoc]]
    exact rd16_field _ _ _ 12 (by simp [T, N, M]) (by simp)
  have r14 : rd32 (createKeepaliveExt info now) 14 = .ok info.connId := by
    rw [show createKeepaliveExt info now = (T ++ N ++ M ++ V) ++ (C ++ (W ++ F ++ R ++ K ++ B)) by
      simp [createKeepaliveExt, T, N, M, V, C, W, F, R, K, B, List.append_assoc]]
    exact rd32_field _ _ _ 14 (by simp [T, N, M, V]) h1
  have r18 : rd32 (createKeepaliveExt info now) 18 = .ok (i32ToU32 info.window) := by
    rw [show createKeepaliveExt info now = (T ++ N ++ M ++ V ++ C) ++ (W ++ (F ++ R ++ K ++ B)) by
      simp [createKeepaliveExt, T, N, M, V, C, W, F, R, K, B, List.append_assoc]]
    exact rd32_field _ _ _ 18 (by simp [T, N, M, V, C]) hw
  have r22 : rd32 (createKeepaliveExt info now) 22 = .ok (i32ToU32 info.inFlight) := by
    rw [show createKeepaliveExt info now = (T ++ N ++ M ++ V ++ C ++ W) ++ (F ++ (R ++ K ++ B)) by
      simp [createKeepaliveExt, T, N, M, V, C, W, F, R, K, B, List.append_assoc]]
    exact rd32_field _ _ _ 22 (by simp [T, N, M, V, C, W]) hf
  have r26 : rd32 (createKeepaliveExt info now) 26 = .ok info.rttMs := by
    rw [show createKeepaliveExt info now = (T ++ N ++ M ++ V ++ C ++ W ++ F) ++ (R ++ (K ++ B)) by
      simp [createKeepaliveExt, T, N, M, V, C, W, F, R, K, B, List.append_assoc]]
    exact rd32_field _ _ _ 26 (by simp [T, N, M, V, C, W, F]) h6
  have r30 : rd32 (createKeepaliveExt info now) 30 = .ok info.nakCount := by
    rw [show createKeepaliveExt info now = (T ++ N ++ M ++ V ++ C ++ W ++ F ++ R) ++ (K ++ B) by
      simp [createKeepaliveExt, T, N, M, V, C, W, F, R, K, B, List.append_assoc]]
    exact rd32_field _ _ _ 30 (by simp [T, N, M, V, C, W, F, R]) h7
  have r34 : rd32 (createKeepaliveExt info now) 34 = .ok info.bitrate := by
    rw [show createKeepaliveExt info now = (T ++ N ++ M ++ V ++ C ++ W ++ F ++ R ++ K) ++ (B ++ []) by
      simp [createKeepaliveExt, T, N, M, V, C, W, F, R, K, B, List.append_assoc]]
    exact rd32_field _ _ _ 34 (by simp [T, N, M, V, C, W, F, R, K]) h8
  refine ⟨hlen, ?_, ?_, ?_⟩
  · simp [createKeepaliveExt, createKeepalive, toBE16, toBE64, toBE32]
  · unfold extractKeepaliveTimestamp
    split
    · rename_i h; simp [hlen] at h
    · simp only [getPacketType_eq, hty, Chk.bind_ok, Proto.SRTLA_TYPE_KEEPALIVE_eq]
      rw [ets, tsLoop_toBE64 now _ T (by simp [T]) hn]
      simp
  · unfold extractKeepaliveConnInfo
    split
    · rename_i h; simp [hlen] at h
    · simp only [getPacketType_eq, hty, Chk.bind_ok, r10, r12, r14, r18, r22, r26, r30, r34]
      simp [u32ToI32_i32ToU32 _ h2 h3, u32ToI32_i32ToU32 _ h4 h5]


/-- Every SRTLA ACK frame the builder makes has a 4-byte header followed by big-endian 32-bit
numbers, and decodes back to the list it was built from. -/
theorem C15_roundtrip_srtla_ack (acks : List Nat) (ha : ∀ a ∈ acks, a < 4294967296) :
    (createAck acks).length = 4 + 4 * acks.length ∧
    getPacketTypeS (createAck acks) = some 0x9100 ∧
    parseSrtlaAck (createAck acks) = .ok acks := by
  have hlen : (createAck acks).length = 4 + 4 * acks.length := by
    simp only [createAck, List.length_append, flatten_toBE32_length, toBE16_length,
      List.length_cons, List.length_nil]
  have hty : getPacketTypeS (createAck acks) = some 0x9100 := by
    simp [createAck, toBE16, getPacketTypeS, be16]
  refine ⟨hlen, hty, ?_⟩
  unfold parseSrtlaAck
  split
  · rename_i h
    simp only [hlen, Lit.SRTLA_ACK_MIN_LEN_eq] at h
    have : acks.length = 0 := by omega
    simp [List.length_eq_zero_iff.mp this]
  · simp only [getPacketType_eq, hty, Chk.bind_ok, Proto.SRTLA_TYPE_ACK_eq, Lit.SRTLA_ACK_FIRST_OFFSET_eq]
    have := ackLoop_roundtrip acks (toBE16 Proto.SRTLA_TYPE_ACK ++ [0, 0]) (createAck acks).length 4 []
      (by simp) (by rw [hlen]; omega) ha
    simp only [createAck] at this ⊢
    simpa using this

end Srtla.Props.C15
