import Srtla.Model.Classifier
import Srtla.Lemmas.Classifier
/-!
# C17 — the weak-link classifier cannot starve a link forever or flap on a blip

Property theorems only.  They are about `Srtla.Classifier.classify` (model of
`WeakLinkFilter::classify`), for ALL histories: a history is any `h : Nat → Tick` (tick `k` is the
slice `h k` of per-link readings handed to the `k`-th call on a fresh filter; any number of links,
any floats, links joining / leaving / reordering freely).  `stateAt h k` is the filter memory before
call `k`, `verdictAt h k l` the `LinkClassification` call `k` pushes for link `l ∈ h k`.

Floats: `bypass`, `delaySignal`, `sharePermille`, `connectedCount` are the model's bit-exact
renderings of the f64 code (executed against the real code in the differential runs).  Lean has no
theory of `Float`, so the theorems hold for WHATEVER values those functions return: they prove the
integer/boolean decision skeleton (streaks, hysteresis, probation, thresholds ⌊250/n⌋, ⌊750/n⌋) over
all histories, with the float comparisons as uninterpreted functions of the tick's input.

Input restriction `uniqueIds`: the conn_ids of one slice are pairwise distinct (random u64s in the
sender).  It is assumed only where a link's verdict has to be connected to the row stored for its id.
-/
namespace Srtla.Props.C17
open Srtla.Classifier Srtla.Gen

/-! ## Ghost vocabulary over a history -/

/-- The conn_ids of every slice are pairwise distinct. -/
def uniqueIds (h : Nat → Tick) : Prop := ∀ k, ((h k).map (·.id)).Nodup

/-- Link `id` is in the slice of tick `k` (so it gets a verdict). -/
def inSlice (h : Nat → Tick) (k id : Nat) : Prop := ∃ l ∈ h k, l.id = id

/-- Tick `k` reports link `id` weak. -/
def weakAt (h : Nat → Tick) (k id : Nat) : Prop :=
  ∃ l ∈ h k, l.id = id ∧ (verdictAt h k l).weak = true

/-- Tick `k` reports link `id` weak for LowShare or NoTraffic. -/
def shareWeakAt (h : Nat → Tick) (k id : Nat) : Prop :=
  ∃ l ∈ h k, l.id = id ∧ (verdictAt h k l).weak = true ∧
    ((verdictAt h k l).reason = .LowShare ∨ (verdictAt h k l).reason = .NoTraffic)

/-- At tick `k` link `id` is connected, the tick is above the floor, and the link's delay signal
(smoothed RTT over the chosen tier, or queue building) is present. -/
def delaySignalAt (h : Nat → Tick) (k id : Nat) : Prop :=
  bypass (h k) = false ∧ ∃ l ∈ h k, l.id = id ∧ l.connected = true ∧ (delaySignal (h k) l).isSome = true

/-! ## The model's `classify` is the function the history definitions talk about -/

theorem C17_history_is_classify (h : Nat → Tick) (k : Nat) :
    (classify (stateAt h k) (h k)).1 = stateAt h (k + 1) ∧
    (classify (stateAt h k) (h k)).2.perLink = (h k).map (verdictAt h k) ∧
    stateAt h 0 = State.init :=
  ⟨rfl, rfl, rfl⟩

/-- `delay_signal.unwrap()` never panics, and verdicts are reported for the ids of the slice in order. -/
theorem C17_no_panic_ids (h : Nat → Tick) (k : Nat) :
    (∀ l ∈ h k, (verdictAt h k l).panicked = false) ∧
    ((classify (stateAt h k) (h k)).2.perLink.map (·.id)) = (h k).map (·.id) := by
  constructor
  · intro l _
    unfold verdictAt verdictOf
    (repeat' split) <;> try rfl
    exact linkStep_no_panic _ _ _ _
  · simp only [classify, List.map_map]
    apply List.map_congr_left
    intro l _
    exact verdictOf_id _ _ l

/-- **The fair-share divisor is never 0.** The model's `250 / connectedCount` and `750 / connectedCount`
are `Nat` divisions (total in Lean: `x / 0 = 0`), whereas the Rust `ENTER_FAIR_SHARE_NUMERATOR /
n_connected` on `u32` would PANIC on a zero divisor.  Whenever the classified branch is taken
(`bypass t = false`) the divisor is `≥ 1`: the bypass test returns first when `connected_count == 0`.
Hence the model's total division and the Rust division agree wherever the Rust one is evaluated, and
the thresholds are the floors `⌊250/n⌋ ≤ 250`, `⌊750/n⌋ ≤ 750` with `n ≥ 1` (so `n = 4` gives 62 and
187 — the leave threshold is 187 permille, not 187.5). -/
theorem C17_fair_share_divisor_pos (t : Tick) (hb : bypass t = false) :
    connectedCount t ≠ 0 ∧ 1 ≤ connectedCount t ∧
    enterThr t = 250 / connectedCount t ∧ leaveThr t = 750 / connectedCount t ∧
    enterThr t ≤ 250 ∧ leaveThr t ≤ 750 ∧
    (connectedCount t = 4 → enterThr t = 62 ∧ leaveThr t = 187) := by
  have hn : connectedCount t ≠ 0 := by
    intro h0
    simp [bypass, h0] at hb
  have hE : enterThr t = 250 / connectedCount t := by simp [enterThr]
  have hL : leaveThr t = 750 / connectedCount t := by simp [leaveThr]
  refine ⟨hn, by omega, hE, hL, ?_, ?_, ?_⟩
  · rw [hE]; exact Nat.div_le_self _ _
  · rw [hL]; exact Nat.div_le_self _ _
  · intro h4; rw [hE, hL, h4]; exact ⟨rfl, rfl⟩

/-- History form: every verdict that is not `Bypassed` for a CONNECTED link — in particular every weak
verdict — was computed with a non-zero divisor (the only place the division is evaluated is
`stepOf`, i.e. a connected link of a non-bypassed tick). -/
theorem C17_fair_share_divisor_pos_run (h : Nat → Tick) (k : Nat) (l : LinkIn)
    (hv : (verdictAt h k l).reason ≠ .Bypassed) : connectedCount (h k) ≠ 0 := by
  have hb : bypass (h k) = false := by
    cases hb : bypass (h k)
    · rfl
    · exfalso; apply hv; unfold verdictAt verdictOf; simp [hb]
  exact (C17_fair_share_divisor_pos (h k) hb).1

/-- Non-vacuity.  A concrete `t` with `bypass t = false` cannot be exhibited inside Lean (`bypass`
compares an f64 sum with `100000.0`, and `Float` comparison is opaque to the kernel); on the real code
the branch is counted by the harness (`tick:classified`).  What can be shown in Lean: the
contrapositive on a concrete tick — an empty slice has `connectedCount = 0`, hence is bypassed — and
that the hypothesis follows from any weak verdict (`verdictOf_weak_classified`). -/
example : connectedCount [] = 0 ∧ bypass [] = true := by
  refine ⟨rfl, ?_⟩
  simp [bypass, connectedCount]

example (s : State) (t : Tick) (l : LinkIn) (hw : (verdictOf s t l).weak = true) :
    connectedCount t ≠ 0 :=
  (C17_fair_share_divisor_pos t (verdictOf_weak_classified hw).1).1

/-! ## Never weak while disconnected -/

theorem C17_not_weak_when_disconnected (h : Nat → Tick) (k : Nat) (l : LinkIn)
    (_hl : l ∈ h k) (hc : l.connected = false) :
    (verdictAt h k l).weak = false ∧
    ((verdictAt h k l).reason = .Healthy ∨ (verdictAt h k l).reason = .Bypassed) := by
  unfold verdictAt verdictOf
  split
  · simp
  · simp [hc]

example : ∃ (h : Nat → Tick) (k : Nat) (l : LinkIn), l ∈ h k ∧ l.connected = false :=
  ⟨fun _ => [{ id := 1, connected := false, bps := 0.0, kalman := none, minFast := 0.0, minSlow := 0.0,
               masd := 0.0, rttMin := 0.0 }], 0, _, List.mem_cons_self, rfl⟩

/-! ## Never weak below the 100 kbit/s floor; hysteresis history cleared -/

/-- `total < 100000.0` (the model's f64 sum over connected links, f64 comparison) or no connected
link: every verdict is not-weak / `Bypassed`, the reported tiers are 0, and afterwards no id has a
`prev_weak`, delay streak or share-weak streak left (only probation counters in progress survive,
minus one). -/
theorem C17_bypass_below_floor (h : Nat → Tick) (k : Nat)
    (hf : totalBps (h k) < 100000.0 ∨ connectedCount (h k) = 0) :
    (∀ l ∈ h k, (verdictAt h k l).weak = false ∧ (verdictAt h k l).reason = .Bypassed) ∧
    (classify (stateAt h k) (h k)).2.selectedDelay = 0 ∧
    (classify (stateAt h k) (h k)).2.estimatedMaxDelay = 0 ∧
    (∀ id, (memOf (stateAt h (k + 1)) id).prevWeak = false ∧
           (memOf (stateAt h (k + 1)) id).delayStreak = 0 ∧
           (memOf (stateAt h (k + 1)) id).weakStreak = 0 ∧
           (memOf (stateAt h (k + 1)) id).probation = (memOf (stateAt h k) id).probation - 1) := by
  have hb : bypass (h k) = true := by
    unfold bypass
    rcases hf with hf | hf
    · have : decide (totalBps (h k) < Classifier.MIN_TOTAL_BPS_FOR_CLASSIFICATION_f) = true :=
        decide_eq_true hf
      simp [this]
    · simp [hf]
  refine ⟨?_, ?_, ?_, ?_⟩
  · intro l _
    unfold verdictAt verdictOf
    simp [hb]
  · simp [classify, hb]
  · simp [classify, hb]
  · intro id
    have e : memOf (stateAt h (k + 1)) id =
        if (memOf (stateAt h k) id).probation > 1 then probRow ((memOf (stateAt h k) id).probation - 1)
        else {} := memOf_nextState_bypass hb id
    rw [e]
    split
    · simp [probRow]
    · simp; omega

/-! ## A delay verdict needs the signal on two consecutive ticks -/

/-- Weak with reason HighRtt / QueueBuilding at tick `k` ⇒ that very signal is present at tick `k`
(link connected, tick above the floor) AND `k ≥ 1` and at tick `k-1` — the immediately preceding
call — the link (same conn_id) was connected, above the floor, with a delay signal. A one-tick blip
therefore never marks a link weak. (No `uniqueIds` needed.) -/
theorem C17_delay_needs_two_ticks (h : Nat → Tick) (k : Nat) (l : LinkIn) (hl : l ∈ h k)
    (hw : (verdictAt h k l).weak = true)
    (hr : (verdictAt h k l).reason = .HighRtt ∨ (verdictAt h k l).reason = .QueueBuilding) :
    delaySignal (h k) l = some (verdictAt h k l).reason ∧ delaySignalAt h k l.id ∧
    ∃ k', k = k' + 1 ∧ delaySignalAt h k' l.id := by
  obtain ⟨hb, hc⟩ := verdictOf_weak_classified hw
  obtain ⟨e1, e2, _, _, _⟩ := verdictOf_classified (s := stateAt h k) hb hc
  unfold verdictAt at hw hr ⊢
  rw [e1] at hw
  rw [e2] at hr ⊢
  have hd := linkStep_delay_verdict _ _ _ _ (sigOf_wf (h k) l) hw hr
  have hsig : delaySignal (h k) l = some (stepOf (stateAt h k) (h k) l).2.reason := hd.1
  refine ⟨hsig, ⟨hb, l, hl, rfl, hc, by rw [hsig]; rfl⟩, ?_⟩
  have hstreak : (memOf (stateAt h k) l.id).delayStreak ≥ 1 := hd.2
  cases k with
  | zero => simp [stateAt, State.init, memOf_nil] at hstreak
  | succ k' =>
    refine ⟨k', rfl, ?_⟩
    simp only [stateAt] at hstreak
    rcases memOf_nextState_cases (stateAt h k') (h k') l.id with h0 | ⟨hb', l', hl', hc', hid', hm⟩ | ⟨_, hm⟩
    · rw [h0] at hstreak; simp at hstreak
    · rw [hm] at hstreak
      have := linkStep_delayStreak_pos _ _ _ _ hstreak
      exact ⟨hb', l', hl', hid', hc', this⟩
    · rw [hm] at hstreak; simp [probRow] at hstreak

/-! ## Probation: at most 15 consecutive share-weak verdicts, then three not-weak verdicts -/

/-- One share-weak verdict: the stored row moves as `linkStep_share_verdict` says. -/
theorem C17_aux_share_step {h : Nat → Tick} (hu : uniqueIds h) {k id : Nat} (hs : shareWeakAt h k id) :
    (memOf (stateAt h k) id).probation = 0 ∧
    (((memOf (stateAt h k) id).weakStreak = 14 ∧ (memOf (stateAt h (k + 1)) id).probation = 3) ∨
     ((memOf (stateAt h (k + 1)) id).weakStreak = (memOf (stateAt h k) id).weakStreak + 1 ∧
       (memOf (stateAt h (k + 1)) id).probation = 0)) := by
  obtain ⟨l, hl, hid, hw, hr⟩ := hs
  subst hid
  obtain ⟨hb, hc⟩ := verdictOf_weak_classified hw
  obtain ⟨e1, e2, _, _, _⟩ := verdictOf_classified (s := stateAt h k) hb hc
  unfold verdictAt at hw hr
  rw [e1] at hw
  rw [e2] at hr
  have hm : memOf (stateAt h (k + 1)) l.id = (stepOf (stateAt h k) (h k) l).1 :=
    memOf_nextState_connected (hu k) hb hl hc
  rw [hm]
  have := linkStep_share_verdict _ _ _ (sigOf (h k) l) (stateAt_bounds h k l.id).1 hw hr
  refine ⟨this.1, ?_⟩
  rcases this.2 with ⟨a, b, _⟩ | ⟨_, b, c⟩
  · left; exact ⟨a, b⟩
  · right; exact ⟨b, c⟩

/-- After `r ≥ 1` consecutive share-weak verdicts the stored streak is at least `r`, or the
probation window has just been armed. -/
theorem C17_aux_share_run {h : Nat → Tick} (hu : uniqueIds h) (k id : Nat) :
    ∀ r, (∀ j < r + 1, shareWeakAt h (k + j) id) →
      ((memOf (stateAt h (k + (r + 1))) id).probation = 0 ∧
        (memOf (stateAt h (k + (r + 1))) id).weakStreak ≥ r + 1) ∨
      (memOf (stateAt h (k + (r + 1))) id).probation = 3
  | 0, hrun => by
    have h0 : shareWeakAt h k id := by simpa using hrun 0 (by omega)
    have := C17_aux_share_step hu h0
    rw [show k + (0 + 1) = k + 1 by omega]
    rcases this.2 with ⟨_, b⟩ | ⟨b, c⟩
    · right; exact b
    · left; exact ⟨c, by omega⟩
  | r + 1, hrun => by
    have ih := C17_aux_share_run hu k id r (fun j hj => hrun j (by omega))
    have hs := C17_aux_share_step hu (hrun (r + 1) (by omega))
    rw [show k + (r + 1 + 1) = k + (r + 1) + 1 by omega]
    rcases ih with ⟨_, hws⟩ | hp3
    · rcases hs.2 with ⟨_, b⟩ | ⟨b, c⟩
      · right; exact b
      · left; exact ⟨c, by omega⟩
    · rw [hs.1] at hp3; exact absurd hp3 (by simp)

/-- While the stored probation counter is positive every verdict for the id is not-weak. -/
theorem C17_aux_not_weak_in_probation {s : State} {t : Tick} {l : LinkIn}
    (hp : (memOf s l.id).probation > 0) :
    (verdictOf s t l).weak = false ∧
    ((verdictOf s t l).reason = .Healthy ∨ (verdictOf s t l).reason = .Bypassed) := by
  unfold verdictOf
  split
  · simp
  · split
    · simp
    · have := linkStep_probation (enterThr t) (leaveThr t) (memOf s l.id) (sigOf t l) hp
      unfold stepOf
      simp [this.1, this.2.1]

/-- **Probation.** If link `id` is reported weak for LowShare/NoTraffic at 15 consecutive ticks
`k … k+14`, then at each of the next three ticks `k+15, k+16, k+17` its verdict is not-weak —
through bypassed ticks, disconnected ticks and reordering — as long as the link has not been REMOVED
from the slice on an earlier tick of the window while the tick was classified (a removed link has no
"next verdicts": its rows are dropped and a link re-added with the same id starts fresh). -/
theorem C17_probation (h : Nat → Tick) (hu : uniqueIds h) (k id : Nat)
    (hrun : ∀ j < 15, shareWeakAt h (k + j) id) :
    ∀ m < 3, (∀ u < m, bypass (h (k + 15 + u)) = true ∨ inSlice h (k + 15 + u) id) →
      ∀ l ∈ h (k + 15 + m), l.id = id →
        (verdictAt h (k + 15 + m) l).weak = false ∧
        ((verdictAt h (k + 15 + m) l).reason = .Healthy ∨ (verdictAt h (k + 15 + m) l).reason = .Bypassed) := by
  have harm : (memOf (stateAt h (k + 15)) id).probation = 3 := by
    have hr := C17_aux_share_run hu k id 14 hrun
    rw [show k + (14 + 1) = k + 15 by omega] at hr
    rcases hr with ⟨_, hws⟩ | hp
    · have := (stateAt_bounds h (k + 15) id).1
      omega
    · exact hp
  have hcount : ∀ m, m ≤ 3 → (∀ u < m, bypass (h (k + 15 + u)) = true ∨ inSlice h (k + 15 + u) id) →
      (memOf (stateAt h (k + 15 + m)) id).probation = 3 - m := by
    intro m
    induction m with
    | zero => intro _ _; simpa using harm
    | succ m ih =>
      intro hm hpres
      have ih' := ih (by omega) (fun u hu' => hpres u (by omega))
      rw [show k + 15 + (m + 1) = k + 15 + m + 1 by omega]
      show (memOf (nextState (stateAt h (k + 15 + m)) (h (k + 15 + m))) id).probation = _
      rw [probation_countdown (hu _) (by omega) (hpres m (by omega)), ih']
      omega
  intro m hm hpres l _ hid
  have hp := hcount m (by omega) hpres
  subst hid
  exact C17_aux_not_weak_in_probation (by omega)

/-- The literal reading: a link that stays in the slice gets three not-weak verdicts in a row after
its 15th consecutive share-weak verdict. -/
theorem C17_probation_three_verdicts (h : Nat → Tick) (hu : uniqueIds h) (k id : Nat)
    (hrun : ∀ j < 15, shareWeakAt h (k + j) id) (hin : ∀ u < 3, inSlice h (k + 15 + u) id) :
    ∀ m < 3, ¬ weakAt h (k + 15 + m) id := by
  intro m hm ⟨l, hl, hid, hw⟩
  have := (C17_probation h hu k id hrun m hm (fun u hu' => Or.inr (hin u (by omega))) l hl hid).1
  rw [this] at hw
  exact absurd hw (by simp)

/-- Never 16 share-weak verdicts in a row ("at most 15"). -/
theorem C17_at_most_15_in_a_row (h : Nat → Tick) (hu : uniqueIds h) (k id : Nat) :
    ¬ (∀ j < 16, shareWeakAt h (k + j) id) := by
  intro hrun
  obtain ⟨l, hl, hid, hw, _⟩ := hrun 15 (by omega)
  have := (C17_probation h hu k id (fun j hj => hrun j (by omega)) 0 (by omega)
    (fun u hu' => absurd hu' (by omega)) l hl hid).1
  simp only [Nat.add_zero] at this
  rw [this] at hw
  exact absurd hw (by simp)

/-! ## Entering and leaving thresholds -/

/-- `prev_weak` stored for an id is true only if the preceding tick reported that id weak. -/
theorem C17_aux_prevWeak_was_weak {h : Nat → Tick} {k id : Nat}
    (hp : (memOf (stateAt h k) id).prevWeak = true) : ∃ k', k = k' + 1 ∧ weakAt h k' id := by
  cases k with
  | zero => simp [stateAt, State.init, memOf_nil] at hp
  | succ k' =>
    refine ⟨k', rfl, ?_⟩
    simp only [stateAt] at hp
    rcases memOf_nextState_cases (stateAt h k') (h k') id with h0 | ⟨hb, l, hl, hc, hid, hm⟩ | ⟨_, hm⟩
    · rw [h0] at hp; simp at hp
    · rw [hm] at hp
      unfold stepOf at hp
      rw [linkStep_prevWeak] at hp
      refine ⟨l, hl, hid, ?_⟩
      unfold verdictAt
      rw [(verdictOf_classified hb hc).1]
      exact hp
    · rw [hm] at hp; simp [probRow] at hp

/-- **Entering.** A LowShare verdict for a link that was not reported weak at the preceding tick
(or at the first tick) needs `share_permille < ⌊250 / n⌋`, `n` = connected links of this tick; the
reported threshold is that number. Any LowShare verdict needs `share_permille < ⌊750 / n⌋`. -/
theorem C17_enter_threshold (h : Nat → Tick) (k : Nat) (l : LinkIn) (_hl : l ∈ h k)
    (hw : (verdictAt h k l).weak = true) (hr : (verdictAt h k l).reason = .LowShare) :
    (verdictAt h k l).share = sharePermille (h k) l ∧
    (verdictAt h k l).share < 750 / connectedCount (h k) ∧
    ((k = 0 ∨ ¬ weakAt h (k - 1) l.id) →
      (verdictAt h k l).share < 250 / connectedCount (h k) ∧
      (verdictAt h k l).threshold = 250 / connectedCount (h k)) := by
  obtain ⟨hb, hc⟩ := verdictOf_weak_classified hw
  obtain ⟨e1, e2, e3, e4, _⟩ := verdictOf_classified (s := stateAt h k) hb hc
  unfold verdictAt at hw hr ⊢
  rw [e1] at hw
  rw [e2] at hr
  rw [e3, e4]
  have hls := linkStep_lowshare _ _ _ _ (sigOf_wf (h k) l) hw hr
  have hthr := linkStep_threshold (enterThr (h k)) (leaveThr (h k)) (memOf (stateAt h k) l.id) (sigOf (h k) l)
  have hshare : (sigOf (h k) l).share = sharePermille (h k) l := rfl
  have hE : enterThr (h k) = 250 / connectedCount (h k) := by simp [enterThr]
  have hL : leaveThr (h k) = 750 / connectedCount (h k) := by simp [leaveThr]
  have hle : 250 / connectedCount (h k) ≤ 750 / connectedCount (h k) := Nat.div_le_div_right (by omega)
  refine ⟨rfl, ?_, ?_⟩
  · cases hpw : (memOf (stateAt h k) l.id).prevWeak
    · have := hls.1 hpw; rw [hshare, hE] at this; omega
    · have := hls.2 hpw; rw [hshare, hL] at this; exact this
  · intro hfresh
    have hpw : (memOf (stateAt h k) l.id).prevWeak = false := by
      cases hpw : (memOf (stateAt h k) l.id).prevWeak
      · rfl
      · obtain ⟨k', hk, hwk⟩ := C17_aux_prevWeak_was_weak hpw
        rcases hfresh with h0 | hnw
        · omega
        · rw [hk] at hnw; exact absurd hwk hnw
    have := hls.1 hpw
    rw [hshare, hE] at this
    refine ⟨this, ?_⟩
    unfold stepOf
    rw [hthr, hpw, ← hE]
    rfl

/-- **Leaving.** A link reported weak at tick `k` that is classified at tick `k+1` (connected, above
the floor), is not inside a probation window (stored counter 0) and whose share is below
`⌊750 / n⌋` is reported weak again at `k+1` — whatever its traffic, RTT or the entering threshold.
So a weak link only leaves by reaching three quarters of fair share (or through probation / a
bypass or disconnect reset). -/
theorem C17_leave_threshold (h : Nat → Tick) (hu : uniqueIds h) (k id : Nat) (hwk : weakAt h k id)
    (l : LinkIn) (_hl : l ∈ h (k + 1)) (hid : l.id = id) (hc : l.connected = true)
    (hb : bypass (h (k + 1)) = false)
    (hnp : (memOf (stateAt h (k + 1)) id).probation = 0)
    (hs : sharePermille (h (k + 1)) l < 750 / connectedCount (h (k + 1))) :
    (verdictAt h (k + 1) l).weak = true := by
  obtain ⟨l0, hl0, hid0, hw0⟩ := hwk
  obtain ⟨hb0, hc0⟩ := verdictOf_weak_classified hw0
  have hm : memOf (stateAt h (k + 1)) l0.id = (stepOf (stateAt h k) (h k) l0).1 :=
    memOf_nextState_connected (hu k) hb0 hl0 hc0
  have hpw : (memOf (stateAt h (k + 1)) id).prevWeak = true := by
    rw [← hid0, hm]
    unfold stepOf
    rw [linkStep_prevWeak]
    unfold verdictAt at hw0
    rw [(verdictOf_classified hb0 hc0).1] at hw0
    exact hw0
  unfold verdictAt
  rw [(verdictOf_classified hb hc).1]
  unfold stepOf
  rw [hid]
  apply linkStep_stays_weak _ _ _ _ hpw hnp
  show sharePermille (h (k + 1)) l < leaveThr (h (k + 1))
  simpa [leaveThr] using hs

/-! ## Ghost characterisation of the stored counters (what "streak" and "in probation" mean in
terms of past verdicts), and the leaving clause stated without reference to the stored counter -/

/-- The stored share-weak streak of an id counts verdicts that really happened: if it is `s` before
tick `k`, the `s` ticks `k-1, …, k-s` all reported the id weak for LowShare/NoTraffic. -/
theorem C17_aux_streak_ghost (h : Nat → Tick) (k id : Nat) :
    ∀ j < (memOf (stateAt h k) id).weakStreak, j < k ∧ shareWeakAt h (k - 1 - j) id := by
  induction k generalizing id with
  | zero => simp [stateAt, State.init, memOf_nil]
  | succ k ih =>
    simp only [stateAt]
    rcases memOf_nextState_cases (stateAt h k) (h k) id with h0 | ⟨hb, l, hl, hc, hid, hm⟩ | ⟨_, hm⟩
    · rw [h0]; simp
    · rw [hm]
      subst hid
      unfold stepOf
      obtain ⟨e1, e2, _, _, _⟩ := verdictOf_classified (s := stateAt h k) hb hc
      by_cases hsw : (linkStep (enterThr (h k)) (leaveThr (h k)) (memOf (stateAt h k) l.id) (sigOf (h k) l)).2.weak = true ∧
          (linkStep (enterThr (h k)) (leaveThr (h k)) (memOf (stateAt h k) l.id) (sigOf (h k) l)).2.reason.isShare
      · have hnow : shareWeakAt h k l.id := by
          refine ⟨l, hl, rfl, ?_, ?_⟩
          · unfold verdictAt; rw [e1]; exact hsw.1
          · unfold verdictAt; rw [e2]; exact hsw.2
        have := linkStep_share_verdict _ _ _ _ (stateAt_bounds h k l.id).1 hsw.1 hsw.2
        rcases this.2 with ⟨_, _, hz⟩ | ⟨_, hs1, _⟩
        · rw [hz]; intro j hj; omega
        · rw [hs1]
          intro j hj
          cases j with
          | zero => exact ⟨by omega, by simpa using hnow⟩
          | succ j =>
            have := ih l.id j (by omega)
            refine ⟨by omega, ?_⟩
            rw [show k + 1 - 1 - (j + 1) = k - 1 - j by omega]
            exact this.2
      · rw [linkStep_streak_reset _ _ _ _ hsw]
        intro j hj; omega
    · rw [hm]; simp [probRow]

/-- A positive stored probation counter `p` before tick `k` means: the window was armed at tick
`a = k - 1 - (3 - p)` (one of the last three ticks), which was the last of 15 consecutive
share-weak verdicts for the id. -/
theorem C17_aux_probation_ghost (h : Nat → Tick) (k id : Nat)
    (hp : (memOf (stateAt h k) id).probation > 0) :
    ∃ a, a < k ∧ 14 ≤ a ∧ (memOf (stateAt h k) id).probation + (k - 1 - a) = 3 ∧
      ∀ j < 15, shareWeakAt h (a - j) id := by
  induction k generalizing id with
  | zero => simp [stateAt, State.init, memOf_nil] at hp
  | succ k ih =>
    simp only [stateAt] at hp ⊢
    rcases memOf_nextState_cases (stateAt h k) (h k) id with h0 | ⟨hb, l, hl, hc, hid, hm⟩ | ⟨hold, hm⟩
    · rw [h0] at hp; simp at hp
    · rw [hm] at hp ⊢
      subst hid
      unfold stepOf at hp ⊢
      rcases linkStep_probation_after _ _ _ _ (stateAt_bounds h k l.id).1 hp with ⟨hpo, heq⟩ | ⟨_, hws, h3, hw, hr⟩
      · obtain ⟨a, ha, h14, hsum, hrun⟩ := ih l.id hpo
        exact ⟨a, by omega, h14, by rw [heq]; omega, hrun⟩
      · obtain ⟨e1, e2, _, _, _⟩ := verdictOf_classified (s := stateAt h k) hb hc
        have hnow : shareWeakAt h k l.id := by
          refine ⟨l, hl, rfl, ?_, ?_⟩
          · unfold verdictAt; rw [e1]; exact hw
          · unfold verdictAt; rw [e2]; exact hr
        have hg := C17_aux_streak_ghost h k l.id
        rw [hws] at hg
        refine ⟨k, by omega, (hg 13 (by omega)).1, by rw [h3]; omega, ?_⟩
        intro j hj
        cases j with
        | zero => simpa using hnow
        | succ j =>
          have := (hg j (by omega)).2
          rw [show k - (j + 1) = k - 1 - j by omega]
          exact this
    · rw [hm] at hp ⊢
      obtain ⟨a, ha, h14, hsum, hrun⟩ := ih id (by omega)
      refine ⟨a, by omega, h14, ?_, hrun⟩
      simp only [probRow]
      omega

/-- **Leaving, in terms of verdicts only.** A link reported weak at tick `k`, unless tick `k` was
its 15th consecutive share-weak verdict (then probation starts), that is classified at `k+1` with a
share below `⌊750 / n⌋` is reported weak again at `k+1`. -/
theorem C17_leave_threshold_ghost (h : Nat → Tick) (hu : uniqueIds h) (k id : Nat)
    (hwk : weakAt h k id)
    (hnorun : ¬ (14 ≤ k ∧ ∀ j < 15, shareWeakAt h (k - j) id))
    (l : LinkIn) (hl : l ∈ h (k + 1)) (hid : l.id = id) (hc : l.connected = true)
    (hb : bypass (h (k + 1)) = false)
    (hs : sharePermille (h (k + 1)) l < 750 / connectedCount (h (k + 1))) :
    (verdictAt h (k + 1) l).weak = true := by
  apply C17_leave_threshold h hu k id hwk l hl hid hc hb _ hs
  rcases Nat.eq_zero_or_pos (memOf (stateAt h (k + 1)) id).probation with h0 | hpos
  · exact h0
  · exfalso
    obtain ⟨a, ha, h14, hsum, hrun⟩ := C17_aux_probation_ghost h (k + 1) id hpos
    -- tick k reported weak, so the counter before tick k was 0 and the window was armed AT tick k
    obtain ⟨l0, hl0, hid0, hw0⟩ := hwk
    obtain ⟨hb0, hc0⟩ := verdictOf_weak_classified hw0
    have hm : memOf (stateAt h (k + 1)) l0.id = (stepOf (stateAt h k) (h k) l0).1 :=
      memOf_nextState_connected (hu k) hb0 hl0 hc0
    unfold verdictAt at hw0
    rw [(verdictOf_classified hb0 hc0).1] at hw0
    have hp0 := linkStep_weak_no_probation _ _ _ _ hw0
    rw [← hid0, hm] at hpos hsum
    unfold stepOf at hpos hsum hw0
    rcases linkStep_probation_after _ _ _ _ (stateAt_bounds h k l0.id).1 hpos with ⟨hpo, _⟩ | ⟨_, _, h3, _, _⟩
    · omega
    · rw [h3] at hsum
      have hak : a = k := by omega
      rw [hak] at h14 hrun
      exact hnorun ⟨h14, hrun⟩

/-! ## Non-vacuity: the decision skeleton on concrete inputs (kernel-evaluated).
History-level satisfiability (e.g. 15 consecutive NoTraffic verdicts, a window interrupted by a
bypass tick) involves f64 sums, which the kernel cannot evaluate; it is exhibited by the executed
cases `corpus/classifier/*.ops`, on which model and real code agree line by line. -/

/-- `n`-fold iteration (core has no `Nat.iterate`). -/
def iter {α : Type} (f : α → α) : Nat → α → α
  | 0, a => a
  | n + 1, a => iter f n (f a)

/-- two links (thresholds 125 / 375), an idle link: NoTraffic at once … -/
example : (linkStep 125 375 {} { delay := none, bpsZero := true, share := 0 }).2 =
    { weak := true, reason := .NoTraffic, threshold := 125 } := by decide

/-- … after 15 such verdicts the window is armed, the next three verdicts are Healthy, the 19th is weak again. -/
example :
    let stp := fun m : Mem => (linkStep 125 375 m { delay := none, bpsZero := true, share := 0 }).1
    iter stp 15 ({} : Mem) = { prevWeak := true, delayStreak := 0, weakStreak := 0, probation := 3 } ∧
    (linkStep 125 375 (iter stp 15 ({} : Mem)) { delay := none, bpsZero := true, share := 0 }).2.weak = false ∧
    (linkStep 125 375 (iter stp 17 ({} : Mem)) { delay := none, bpsZero := true, share := 0 }).2.weak = false ∧
    (linkStep 125 375 (iter stp 18 ({} : Mem)) { delay := none, bpsZero := true, share := 0 }).2.weak = true := by
  decide

/-- a delay signal: first tick Healthy, second tick HighRtt; a one-tick blip leaves no trace. -/
example :
    let sg : Sig := { delay := some .HighRtt, bpsZero := false, share := 500 }
    (linkStep 125 375 {} sg).2.weak = false ∧
    (linkStep 125 375 (linkStep 125 375 {} sg).1 sg).2 = { weak := true, reason := .HighRtt, threshold := 125 } ∧
    (linkStep 125 375 (linkStep 125 375 {} sg).1 { sg with delay := none }).1.delayStreak = 0 := by
  decide

/-- hysteresis band: share 200 ∈ [125, 375) keeps a weak link weak but does not make a healthy one weak;
exactly 125 does not enter, 124 does; exactly 375 leaves, 374 does not. -/
example :
    (linkStep 125 375 { prevWeak := true } { delay := none, bpsZero := false, share := 200 }).2.weak = true ∧
    (linkStep 125 375 {} { delay := none, bpsZero := false, share := 200 }).2.weak = false ∧
    (linkStep 125 375 {} { delay := none, bpsZero := false, share := 125 }).2.weak = false ∧
    (linkStep 125 375 {} { delay := none, bpsZero := false, share := 124 }).2.weak = true ∧
    (linkStep 125 375 { prevWeak := true } { delay := none, bpsZero := false, share := 375 }).2.weak = false ∧
    (linkStep 125 375 { prevWeak := true } { delay := none, bpsZero := false, share := 374 }).2.weak = true := by
  decide

end Srtla.Props.C17
