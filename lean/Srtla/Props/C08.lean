import Srtla.Model.Sys
import Srtla.Lemmas.Housekeeping
import Srtla.Lemmas.ReconnectLive
import Srtla.Lemmas.Audit2BLive
import Srtla.Lemmas.Audit2BRegroup
/-!
# C08 — failed uplinks are detected, retried forever, and rejoin cleanly

Model: `Model/Link.lean` (reconnection state, resets), `Model/Sys.lean` (`hkLinksGo`,
`handleHousekeeping`, `handleUplinkPacket`, `handleSrtPacket`, `step`).  All statements hold for every
scalar type `F` with every `[Scalar F]` instance (`Float` in the compiled driver): no float reasoning
is involved.  `Hk.*` names are helper definitions of `Lemmas/Housekeeping.lean`:

* `reconnectLink l now` — the record the reconnect branch of housekeeping leaves when the socket
  re-creation succeeds (`record_attempt`, `reset_for_reconnect`, `mark_success`, `reset_startup_grace`),
  `failedLink l now` — the record it leaves when the re-creation FAILS (`record_attempt`, then the
  `mark_for_recovery` fallback: failure counter kept, no grace), `attemptLink fails l now` — the one or
  the other, `withSent` = a `last_sent` stamp;
* `reg3Link l now` — the record the REG3 arm of `process_uplink_packet` leaves;
* `hkLink classic now pending fails j l` — what one pass of the per-link housekeeping loop does to
  link `j` (`fails`: a socket re-creation failure is injected for its conn id, `Sys.failBind`);
* `Clean l` — window 20000, empty packet log, empty batch queue, in-flight 0, not connected.

Sections 11–13 (audit round 2): the liveness clause with a LATE answer (`C08_reconnect_within_30s_sys_late_answer`),
for the FIRST registration of a never-established link (`C08_first_registration_cadence`,
`C08_first_registration_live_sys`, `_bound`) and the re-grouping chain when all links are down and the receiver forgot
the group (`C08_regroup_chain_sys_partial`); helper lemmas in `Lemmas/Audit2B{Hk,Live,Regroup}.lean`
(`Audit2B.hkDue`, `Audit2B.bystander`).
-/
namespace Srtla.Props.C08
open Srtla Srtla.Gen Srtla.Conn Srtla.Select Srtla.Link Srtla.Sys Srtla.Hk Scalar

set_option linter.unusedSectionVars false
set_option linter.unusedVariables false

variable {F : Type} [Scalar F]

/-- Toy scalar (`Lemmas/SelectFrame.lean`) used ONLY by the `example`s, to have concrete links. -/
local instance exScalar : Scalar Int := fixScalar

/-- A concrete link for the examples: `SrtlaConnection::new_registering(7)` at time 0. -/
def exLink : FLink Int := FLink.newRegistering 7 0

/-- A live link: connected, last heard at 1000, a moved window and two packets in flight. -/
def exLive : FLink Int :=
  { exLink with
      core := { exLink.core with connId := 5, connected := true, phase := .live, lastReceived := some 1000,
                                 window := 23000, inFlight := 2, log := [(10, 900), (11, 950)] },
      established := 50, graceDeadline := 0 }

/-- A torn-down link that was established before and last retried at 2000. -/
def exDown : FLink Int := { exLink with established := 100, lastAttemptMs := 2000, graceDeadline := 0 }

/-- A registered group of two uplinks: one live, one down. -/
def exSys : Sys Int :=
  { links := [exLive, exDown],
    reg := { (Reg.Reg.new [1] [2]) with hasConnected := true, probing := .complete, active := 1 } }

/-! ## 1. Back-off bounds -/

/-- The reconnect back-off is between 5 s and 120 s for EVERY failure count. -/
theorem C08_backoff_bounds (l : FLink F) : 5000 ≤ l.backoffDelay ∧ l.backoffDelay ≤ 120000 :=
  backoff_bounds l

/-- The table: 5, 10, 20, 40, 80 s for 0..4 recorded failures, 120 s (the cap; 5000·2⁵ = 160000 is
cut) from 5 failures on — whatever the counter holds, up to `u32::MAX`. -/
theorem C08_backoff_table (l : FLink F) :
    (l.failCount = 0 → l.backoffDelay = 5000) ∧ (l.failCount = 1 → l.backoffDelay = 10000) ∧
    (l.failCount = 2 → l.backoffDelay = 20000) ∧ (l.failCount = 3 → l.backoffDelay = 40000) ∧
    (l.failCount = 4 → l.backoffDelay = 80000) ∧ (5 ≤ l.failCount → l.backoffDelay = 120000) := by
  rw [backoff_table]
  refine ⟨fun h => by simp [h], fun h => by simp [h], fun h => by simp [h], fun h => by simp [h],
    fun h => by simp [h], fun h => ?_⟩
  rw [if_neg (by omega), if_neg (by omega), if_neg (by omega), if_neg (by omega), if_neg (by omega)]

example : ({ exLink with failCount := 3 } : FLink Int).backoffDelay = 40000 ∧
    ({ exLink with failCount := 4294967295 } : FLink Int).backoffDelay = 120000 := by
  constructor <;> (rw [backoff_table]; decide)

/-! ## 2. Retry spacing -/

/-- A `true` verdict of `should_attempt_reconnect` means: never attempted before, or — during
initial registration — past the start-up grace and at least 1000 ms after the last attempt, or —
once established — at least the back-off (≥ 5000 ms) after the last attempt. -/
theorem C08_retry_spacing (l : FLink F) (now : Nat) (h : l.shouldAttemptReconnect now = true) :
    l.lastAttemptMs = 0 ∨
    (l.established = 0 ∧ l.graceDeadline < now ∧ now - l.lastAttemptMs ≥ 1000) ∨
    (l.established ≠ 0 ∧ now - l.lastAttemptMs ≥ l.backoffDelay ∧ l.backoffDelay ≥ 5000) := by
  rcases shouldAttempt_true l now h with ⟨h1, h2, h3 | h3⟩ | ⟨h1, h3 | h3⟩
  · left; exact h3
  · right; left; exact ⟨h1, h2, h3⟩
  · left; exact h3
  · right; right; exact ⟨h1, h3, (backoff_bounds l).1⟩

example : ({ exLink with established := 100, lastAttemptMs := 2000 } : FLink Int).shouldAttemptReconnect 7000 = true ∧
    ({ exLink with established := 100, lastAttemptMs := 2000 } : FLink Int).shouldAttemptReconnect 6999 = false ∧
    ({ exLink with lastAttemptMs := 6000 } : FLink Int).shouldAttemptReconnect 7000 = true ∧
    ({ exLink with lastAttemptMs := 6001 } : FLink Int).shouldAttemptReconnect 7000 = false := by decide

/-- What the code really does with the failure counter: `record_attempt` increments it, and the
reconnect that follows in the same housekeeping pass (`reset_for_reconnect`, `mark_success`) zeroes
it again — as does REG3.  So after every attempt the counter is 0 and the next back-off is the 5000 ms
base (the exponential table of section 1 is reached only from a state that already holds a non-zero
counter). -/
theorem C08_attempt_resets_failcount (l : FLink F) (now : Nat) (t : Option Nat) :
    (withSent (reconnectLink l now) t).failCount = 0 ∧
    (withSent (reconnectLink l now) t).backoffDelay = 5000 ∧
    (withSent (reconnectLink l now) t).lastAttemptMs = now ∧
    (reg3Link l now).failCount = 0 := by
  have h := (reconnectLink_fields l now).2.1
  refine ⟨h, ?_, (reconnectLink_fields l now).1, rfl⟩
  rw [backoff_table]
  have : (withSent (reconnectLink l now) t).failCount = 0 := h
  simp [this]

/-- Runs of the shell. -/
def run (s : Sys F) : List Ev → Sys F
  | [] => s
  | e :: es => run (step s e).1 es

/-- Link `j` takes the reconnect branch of housekeeping in event `e` (a tick at `now`): it was timed
out and `should_attempt_reconnect` held on the record the tick started with, and the tick left the
reconnect record — of a successful (`fails = false`) or a failed socket re-creation. -/
def AttemptAt (s : Sys F) (e : Ev) (j now : Nat) : Prop :=
  e = .hk now ∧ ∃ l, s.links[j]? = some l ∧ l.isTimedOut now = true ∧ l.shouldAttemptReconnect now = true ∧
    ∃ t fails, (step s e).1.links[j]? = some (withSent (attemptLink fails l now) t)

/-- No reconnect attempt of link `j` along the events `es` from `s`. -/
def Quiet (j : Nat) : Sys F → List Ev → Prop
  | _, [] => True
  | s, e :: es => (∀ now, ¬ AttemptAt s e j now) ∧ Quiet j (step s e).1 es

/-- One event changes `last_reconnect_attempt_ms` of a link only by a reconnect attempt, which stamps
the tick's clock; `connection_established_ms` changes only by REG3 (0 → arrival time, never back). -/
theorem C08_attempt_stamp (s : Sys F) (e : Ev) (hnr : e.isReload = false) (j : Nat) (l : FLink F)
    (hl : s.links[j]? = some l) :
    ∃ l', (step s e).1.links[j]? = some l' ∧
      ((l'.lastAttemptMs = l.lastAttemptMs ∧ (l.established ≠ 0 → l'.established = l.established)) ∨
       (∃ now, AttemptAt s e j now ∧ l'.lastAttemptMs = now ∧ l'.established = l.established)) := by
  obtain ⟨l', hl', hs⟩ := (step_link s e hnr).1 j l hl
  refine ⟨l', hl', ?_⟩
  cases hs with
  | evolves cto _ h => left; exact ⟨h.lastAttempt, fun _ => h.established⟩
  | sendFail now pkt he h _ => left; exact ⟨h.lastAttempt, fun _ => h.established⟩
  | reg3 now cid data he hidx hev hl3 _ =>
    left; subst hl3
    refine ⟨rfl, fun h => ?_⟩
    show (if (l.established == 0) = true then now else l.established) = l.established
    rw [if_neg (by simpa using h)]
  | regErr now cid data he hidx hev hlE => left; subst hlE; exact ⟨rfl, fun _ => rfl⟩
  | attempt now he hto hsa hlA =>
    right
    obtain ⟨t, ht⟩ := hlA
    refine ⟨now, ⟨he, l, hl, hto, hsa, t, false, by rw [hl', ht]; rfl⟩, ?_, ?_⟩
    · rw [ht]; exact (reconnectLink_fields l now).1
    · rw [ht]; exact (reconnectLink_fields l now).2.2.1
  | attemptFailed now he hto hsa _ hlA =>
    right
    obtain ⟨t, ht⟩ := hlA
    refine ⟨now, ⟨he, l, hl, hto, hsa, t, true, by rw [hl', ht]; rfl⟩, ?_, ?_⟩
    · rw [ht]; exact (failedLink_fields l now).1
    · rw [ht]; exact (failedLink_fields l now).2.2.1

theorem C08_aux_links_length_run (s : Sys F) (es : List Ev) (hnr : NoReload es) :
    (run s es).links.length = s.links.length := by
  induction es generalizing s with
  | nil => rfl
  | cons e es ih => rw [run, ih _ hnr.tail, (step_link s e hnr.head).2.1]

/-- Along a run without an attempt of link `j`, its attempt stamp does not move. -/
theorem C08_aux_quiet_keeps_stamp (j : Nat) (s : Sys F) (es : List Ev) (hq : Quiet j s es) (hnr : NoReload es)
    (l : FLink F) (hl : s.links[j]? = some l) :
    ∃ l', (run s es).links[j]? = some l' ∧ l'.lastAttemptMs = l.lastAttemptMs := by
  induction es generalizing s l with
  | nil => exact ⟨l, hl, rfl⟩
  | cons e es ih =>
    obtain ⟨hq1, hq2⟩ := hq
    obtain ⟨l1, hl1, hc⟩ := C08_attempt_stamp s e hnr.head j l hl
    rcases hc with ⟨h1, -⟩ | ⟨now, ha, -, -⟩
    · obtain ⟨l', hl', h'⟩ := ih (step s e).1 hq2 hnr.tail l1 hl1
      exact ⟨l', hl', h'.trans h1⟩
    · exact absurd ha (hq1 now)

/-- **Retry spacing over runs**: two consecutive reconnect attempts of a link (at ticks `t1`, then
`t2`, no attempt of that link in between, ANY other events in between) are at least 1000 ms apart
while the link has never been established and at least 5000 ms apart afterwards (`t1 = 0` is the
"never attempted" sentinel of the code: an attempt stamped at clock value 0 does not count). -/
theorem C08_retry_spacing_trace (s : Sys F) (j t1 t2 : Nat) (mid : List Ev)
    (h1 : AttemptAt s (.hk t1) j t1) (hq : Quiet j (step s (.hk t1)).1 mid) (hnr : NoReload mid)
    (h2 : AttemptAt (run (step s (.hk t1)).1 mid) (.hk t2) j t2) :
    ∃ l, (run (step s (.hk t1)).1 mid).links[j]? = some l ∧ l.lastAttemptMs = t1 ∧
      (t1 = 0 ∨ (l.established = 0 ∧ t2 - t1 ≥ 1000) ∨ (l.established ≠ 0 ∧ t2 - t1 ≥ 5000)) := by
  obtain ⟨-, l0, hl0, -, -, t, fails, hpost⟩ := h1
  obtain ⟨l, hl, hstamp⟩ := C08_aux_quiet_keeps_stamp j _ mid hq hnr _ hpost
  have hst : l.lastAttemptMs = t1 := hstamp.trans (attemptLink_fields fails l0 t1).1
  obtain ⟨-, l', hl', -, hsa, -⟩ := h2
  rw [hl] at hl'; cases hl'
  refine ⟨l, hl, hst, ?_⟩
  rcases C08_retry_spacing l t2 hsa with h | ⟨he, -, h⟩ | ⟨he, h, hb⟩
  · left; omega
  · right; left; exact ⟨he, by omega⟩
  · right; right; exact ⟨he, by omega⟩

/-- Non-vacuity: in `exSys` the down link (last attempt at 2000, established before) is re-attempted
by the tick at 7000 and — nothing else happening — again by the tick at 12000; the theorem's
hypotheses hold and its conclusion reads "5000 apart". -/
example : ∃ l, (run (step exSys (.hk 7000)).1 ([] : List Ev)).links[1]? = some l ∧ l.lastAttemptMs = 7000 ∧
    (7000 = 0 ∨ (l.established = 0 ∧ 12000 - 7000 ≥ 1000) ∨ (l.established ≠ 0 ∧ 12000 - 7000 ≥ 5000)) := by
  obtain ⟨t, hpost⟩ := hk_attempts_ok exSys 7000 1 exDown rfl (by decide) (by decide) (Or.inr (by decide))
    (by decide)
  have h1 : AttemptAt exSys (.hk 7000) 1 7000 := ⟨rfl, exDown, rfl, by decide, by decide, t, false, hpost⟩
  have h2 : AttemptAt (run (step exSys (.hk 7000)).1 []) (.hk 12000) 1 12000 :=
    hk_attempts _ 12000 1 _ hpost rfl rfl
        (Or.inr (by show (reconnectLink exDown 7000).established ≠ 0; decide)) |>
      fun ⟨t', ht'⟩ => ⟨rfl, _, hpost, rfl, rfl, t', _, ht'⟩
  exact C08_retry_spacing_trace exSys 1 7000 12000 [] h1 trivial NoReload.nil h2

/-- … and the tick at 11999 does not re-attempt (4999 ms after the attempt at 7000). -/
example : (withSent (reconnectLink exDown 7000) none).shouldAttemptReconnect 11999 = false ∧
    (withSent (reconnectLink exDown 7000) none).shouldAttemptReconnect 12000 = true := by decide

/-! ## 3. Retries continue forever -/

/-- **The per-link loop**: a link that is timed out at the tick, past its grace (or established
before), and whose last attempt is absent or at least 120000 ms old takes the reconnect branch —
for every value of every other field (failure counter, phase, window, stall/quality state, …): no
state disables retries, there is no attempt limit. -/
theorem C08_retries_forever_loop (classic : Bool) (now : Nat) (ls : List (FLink F)) (i : Nat) (reg : Reg.Reg)
    (fb : List Nat)
    (j : Nat) (l : FLink F) (hl : ls[j]? = some l) (hto : l.isTimedOut now = true)
    (hg : l.established ≠ 0 ∨ l.graceDeadline < now)
    (ha : l.lastAttemptMs = 0 ∨ now - l.lastAttemptMs ≥ 120000) :
    ∃ t, (hkLinksGo classic now ls i reg fb).1[j]? =
      some (withSent (attemptLink ((hkBindLeft now (ls.take j) fb).contains l.core.connId) l now) t) := by
  have hsa := shouldAttempt_of_old l now hg ha
  rw [(hkLinksGo_links classic now ls i reg fb).1, List.getElem?_mapIdx, hl]
  simp only [Option.map_some]
  unfold hkLink
  rw [if_pos hto, if_pos hsa]
  split
  · split
    · exact ⟨_, rfl⟩
    · exact ⟨(attemptLink _ l now).core.lastSent, rfl⟩
  · exact ⟨_, rfl⟩

/-- **The whole tick**: the same for `handle_housekeeping`.  The only qualification is the very tick
in which start-up probing completes: it re-arms the start-up grace of the probed link it selects, so a
never-established link is exempt in that one tick (`is_probing` is false for ever after). -/
theorem C08_retries_forever (s : Sys F) (now j : Nat) (l : FLink F) (hl : s.links[j]? = some l)
    (hto : l.isTimedOut now = true)
    (hg : l.established ≠ 0 ∨ l.graceDeadline < now)
    (ha : l.lastAttemptMs = 0 ∨ now - l.lastAttemptMs ≥ 120000)
    (hp : Reg.isProbing s.reg = false ∨ l.established ≠ 0) :
    AttemptAt s (.hk now) j now := by
  have hsa := shouldAttempt_of_old l now hg ha
  have hg' : hkGraceIdx s now ≠ some j ∨ l.established ≠ 0 := by
    rcases hp with hp | hp
    · left; rw [hkGraceIdx_none s now hp]; simp
    · right; exact hp
  obtain ⟨t, ht⟩ := hk_attempts s now j l hl hto hsa hg'
  exact ⟨rfl, l, hl, hto, hsa, t, _, ht⟩

/-- Whenever the branch condition holds the attempt is made (so `Quiet` in section 2 really means
"the reconnect branch was not taken"). -/
theorem C08_attempt_taken (s : Sys F) (now j : Nat) (l : FLink F) (hl : s.links[j]? = some l)
    (hto : l.isTimedOut now = true) (hsa : l.shouldAttemptReconnect now = true)
    (hp : Reg.isProbing s.reg = false ∨ l.established ≠ 0) :
    AttemptAt s (.hk now) j now := by
  have hg' : hkGraceIdx s now ≠ some j ∨ l.established ≠ 0 := by
    rcases hp with hp | hp
    · left; rw [hkGraceIdx_none s now hp]; simp
    · right; exact hp
  obtain ⟨t, ht⟩ := hk_attempts s now j l hl hto hsa hg'
  exact ⟨rfl, l, hl, hto, hsa, t, _, ht⟩

/-- Non-vacuity: a link with a huge failure counter, last attempt 120000 ms ago, is re-attempted. -/
example : AttemptAt ({ exSys with links := [exLive, { exDown with failCount := 4000000000 }] } : Sys Int)
    (.hk 122000) 1 122000 :=
  C08_retries_forever _ 122000 1 { exDown with failCount := 4000000000 } rfl (by decide) (Or.inl (by decide))
    (Or.inr (by decide)) (Or.inl (by decide))

/-- … whereas 119999 ms after the last attempt it is not (back-off at the 120 s cap). -/
example : ({ exDown with failCount := 4000000000 } : FLink Int).shouldAttemptReconnect 121999 = false := by decide

/-! ## 4. Causes of a tear-down -/

/-- Link torn down: `connected` true → false, or phase non-`Registering` → `Registering`. -/
def TornDown (l l' : FLink F) : Prop :=
  (l.core.connected = true ∧ l'.core.connected = false) ∨
  (l.core.phase ≠ .registering ∧ l'.core.phase = .registering)

/-- The three causes. -/
def Cause (s : Sys F) (e : Ev) (j : Nat) (l : FLink F) : Prop :=
  (∃ now, e = .hk now ∧ l.isTimedOut now = true ∧ l.shouldAttemptReconnect now = true) ∨
  (∃ now pkt, e = .client now pkt ∧
    (step s e).1.failNext.count l.core.connId < s.failNext.count l.core.connId) ∨
  (∃ now cid data, e = .uplink now cid data ∧ s.links.findIdx? (·.core.connId == cid) = some j ∧
    Codec.getPacketTypeS data = some 37392)

/-- **Tear-down causes**: for EVERY event and EVERY link index, the link is torn down only if
(a) the event is a housekeeping tick at which the link `is_timed_out` and `should_attempt_reconnect`,
or (b) the event is a client datagram during which an injected send failure for this link's conn id
was consumed (the threshold flush on it failed), or (c) the event is an uplink datagram on this very
link whose type is REG_ERR (0x9210 = 37392).  No other event — flush ticks, ACK/NAK/keepalive
traffic, selection passes with any stall / weak / loss-degraded verdict, config changes — tears a
link down. -/
theorem C08_teardown_causes (s : Sys F) (e : Ev) (hnr : e.isReload = false) (j : Nat) (l l' : FLink F)
    (hl : s.links[j]? = some l) (hl' : (step s e).1.links[j]? = some l') (ht : TornDown l l') :
    Cause s e j l := by
  obtain ⟨l'', hl'', hs⟩ := (step_link s e hnr).1 j l hl
  rw [hl'] at hl''; cases hl''
  cases hs with
  | evolves cto _ h =>
    rcases ht with ⟨h1, h2⟩ | ⟨h1, h2⟩
    · rw [h.connected, h1] at h2; cases h2
    · exact absurd (h.phaseReg.mp h2) h1
  | sendFail now pkt he h hcons => right; left; exact ⟨now, pkt, he, hcons⟩
  | reg3 now cid data he hidx hev hl3 _ =>
    subst hl3
    rcases ht with ⟨-, h2⟩ | ⟨-, h2⟩
    · cases h2
    · cases h2
  | regErr now cid data he hidx hev hlE =>
    right; right
    exact ⟨now, cid, data, he, hidx, (regEvent_of_type s.reg j data now).1.mp hev⟩
  | attempt now he hto hsa _ => left; exact ⟨now, he, hto, hsa⟩
  | attemptFailed now he hto hsa _ _ => left; exact ⟨now, he, hto, hsa⟩

/-- Non-vacuity: the live link of `exSys` (last heard at 1000, timeout 5000, never attempted) is torn
down by the tick at 6000 — cause (a). -/
example : ∃ l', (step exSys (.hk 6000)).1.links[0]? = some l' ∧ TornDown exLive l' ∧
    Cause exSys (.hk 6000) 0 exLive := by
  obtain ⟨t, ht⟩ := hk_attempts_ok exSys 6000 0 exLive rfl (by decide) (by decide) (Or.inr (by decide))
    (by decide)
  exact ⟨_, ht, Or.inl ⟨by decide, rfl⟩, C08_teardown_causes exSys (.hk 6000) rfl 0 exLive _ rfl ht (Or.inl ⟨by decide, rfl⟩)⟩

/-- For a connected link "timed out" means exactly: something was received before, and the silence
since then is at least the link's `conn_timeout_ms`.  (A link that never received anything is not
timed out while connected.) -/
theorem C08_timed_out_connected (l : FLink F) (now : Nat) (hc : l.core.connected = true) :
    l.isTimedOut now = true ↔ ∃ lr, l.core.lastReceived = some lr ∧ now - lr ≥ l.connTimeoutMs := by
  unfold FLink.isTimedOut Select.isTimedOut FLink.toSLink
  simp only [hc, Bool.not_true, Bool.false_eq_true, if_false]
  cases l.core.lastReceived with
  | none => simp
  | some lr => simp

example : exLive.isTimedOut 5999 = false ∧ exLive.isTimedOut 6000 = true ∧
    ({ exLive with connTimeoutMs := 9000 } : FLink Int).isTimedOut 9999 = false ∧
    ({ exLive with connTimeoutMs := 9000 } : FLink Int).isTimedOut 10000 = true := by decide

/-- For a torn-down link (`connected = false`): past the start-up grace (or once established) it is
always timed out, i.e. due for (re-)registration, whatever it has heard since the reset (a straggler
datagram refreshing `last_received` does not postpone the next attempt). -/
theorem C08_timed_out_disconnected (l : FLink F) (now : Nat) (hc : l.core.connected = false) :
    l.isTimedOut now = true ↔ ¬ (l.established = 0 ∧ now < l.graceDeadline) := by
  unfold FLink.isTimedOut Select.isTimedOut FLink.toSLink
  simp only [hc, Bool.not_false, if_true]
  by_cases hg : l.established = 0 ∧ now < l.graceDeadline
  · simp [hg]
  · have : (l.established == 0 && decide (now < l.graceDeadline)) = false := by
      simp only [Bool.and_eq_false_iff, beq_eq_false_iff_ne, decide_eq_false_iff_not]
      by_cases h0 : l.established = 0
      · right; exact fun h => hg ⟨h0, h⟩
      · left; exact h0
    simp only [this, Bool.false_eq_true, if_false, hg, not_false_eq_true]

/-- **The timeout a link is judged by is the configured one as of the latest selection pass or
`sync_conn_timeout`.**
(a) a selection pass (`select_connection_idx`, run for every client datagram after registration)
leaves `conn_timeout_ms = cfg.conn_timeout_ms` on every link; (b) no event changes a link's copy
except a client event and `syncTimeout` (`sync_conn_timeout`, called by the housekeeping arm right before
`handle_housekeeping`), which can only set it to the value configured at that event; (c) after
`syncTimeout` EVERY link's copy is the configured value, and nothing else of the link has changed. -/
theorem C08_timeout_copy (s : Sys F) :
    (∀ now, ∀ l ∈ (runSelect s now).1.links, l.connTimeoutMs = s.cfg.connTimeoutMs) ∧
    (∀ (e : Ev), e.isReload = false → ∀ (j : Nat) (l l' : FLink F), s.links[j]? = some l →
      (step s e).1.links[j]? = some l' →
      l'.connTimeoutMs = l.connTimeoutMs ∨
      (((∃ now pkt, e = .client now pkt) ∨ e = .syncTimeout) ∧ l'.connTimeoutMs = s.cfg.connTimeoutMs)) ∧
    (∀ (j : Nat) (l : FLink F), s.links[j]? = some l →
      (step s .syncTimeout).1.links[j]? = some { l with connTimeoutMs := s.cfg.connTimeoutMs }) ∧
    (∀ l ∈ (step s .syncTimeout).1.links, l.connTimeoutMs = s.cfg.connTimeoutMs) := by
  refine ⟨?_, ?_, ?_, ?_⟩
  · intro now l hl
    obtain ⟨g, h1, -, h3, -⟩ := runSelect_links s now
    rw [h1] at hl
    obtain ⟨x, hx, rfl⟩ := List.mem_map.1 hl
    exact h3 x hx
  rotate_left
  · intro j l hl
    show (s.links.map fun l => ({ l with connTimeoutMs := s.cfg.connTimeoutMs } : FLink F))[j]? = _
    rw [List.getElem?_map, hl]; rfl
  · intro l hl
    have hl' : l ∈ s.links.map fun l => ({ l with connTimeoutMs := s.cfg.connTimeoutMs } : FLink F) := hl
    obtain ⟨x, -, rfl⟩ := List.mem_map.1 hl'
    rfl
  · intro e hnr j l l' hl hl'
    obtain ⟨l'', hl'', hs⟩ := (step_link s e hnr).1 j l hl
    rw [hl'] at hl''; cases hl''
    have hTOk : ∀ cto : Option Nat,
        (cto = none ∨ (((∃ now pkt, e = .client now pkt) ∨ e = .syncTimeout) ∧ cto = some s.cfg.connTimeoutMs)) →
        TOk cto l l' →
        l'.connTimeoutMs = l.connTimeoutMs ∨
          (((∃ now pkt, e = .client now pkt) ∨ e = .syncTimeout) ∧ l'.connTimeoutMs = s.cfg.connTimeoutMs) := by
      intro cto hcto ht
      rcases ht with ht | ht
      · left; exact ht
      · rcases hcto with hcto | ⟨he, hcto⟩
        · rw [hcto] at ht; cases ht
        · right; rw [hcto] at ht
          exact ⟨he, (Option.some.inj ht).symm⟩
    cases hs with
    | evolves cto hcto h => exact hTOk cto hcto h.timeout
    | sendFail now pkt he h _ => exact hTOk _ (Or.inr ⟨.inl ⟨now, pkt, he⟩, rfl⟩) h.timeout
    | reg3 now cid data he hidx hev hl3 _ => left; subst hl3; rfl
    | regErr now cid data he hidx hev hlE => left; subst hlE; rfl
    | attempt now he hto hsa hlA =>
      left
      obtain ⟨t, ht⟩ := hlA
      rw [ht]
      exact (reconnectLink_fields l now).2.2.2.2.2.2.2.2.1
    | attemptFailed now he hto hsa _ hlA =>
      left
      obtain ⟨t, ht⟩ := hlA
      rw [ht]
      exact (failedLink_fields l now).2.2.2.2.2.2.2.1

/-- Non-vacuity: with the timeout reconfigured to 9000 the pass at 1500 stamps 9000 on both links. -/
example : ((runSelect ({ exSys with cfg := { connTimeoutMs := 9000 } } : Sys Int) 1500).1.links.map
    (·.connTimeoutMs)) = [9000, 9000] := by decide

/-- **Never because of a routing penalty**: `is_timed_out` and `should_attempt_reconnect` — the two
predicates that decide a tear-down by housekeeping — read none of the stall-guard fields, the weak /
loss-degraded / CC-back-off verdicts, the CC target, the quality cache, the phase, the window or the
in-flight count: two links that differ only there get the same verdicts. -/
theorem C08_not_by_routing_penalty (l : FLink F) (now : Nat)
    (stallGated silencePulled weak ccBackingOff lossDegraded : Bool)
    (latchedSince recoverySince gateEvents probeCounter silencePulls ccTarget qualAt : Nat)
    (pullMark : Option Nat) (qualMult : F) (phase : Phase) (window inFlight : Int) :
    let l' : FLink F :=
      { l with stallGated := stallGated, latchedSince := latchedSince, recoverySince := recoverySince,
               gateEvents := gateEvents, probeCounter := probeCounter, silencePulled := silencePulled,
               pullMark := pullMark, silencePulls := silencePulls, weak := weak,
               ccBackingOff := ccBackingOff, ccTarget := ccTarget, lossDegraded := lossDegraded,
               qualMult := qualMult, qualAt := qualAt,
               core := { l.core with phase := phase, window := window, inFlight := inFlight } }
    l'.isTimedOut now = l.isTimedOut now ∧ l'.shouldAttemptReconnect now = l.shouldAttemptReconnect now :=
  ⟨rfl, rfl⟩

/-- The verdict is a function of five fields only. -/
theorem C08_timed_out_reads (l l' : FLink F) (now : Nat)
    (h1 : l'.core.connected = l.core.connected) (h2 : l'.established = l.established)
    (h3 : l'.graceDeadline = l.graceDeadline) (h4 : l'.core.lastReceived = l.core.lastReceived)
    (h5 : l'.connTimeoutMs = l.connTimeoutMs) : l'.isTimedOut now = l.isTimedOut now := by
  unfold FLink.isTimedOut Select.isTimedOut FLink.toSLink
  simp only [h1, h2, h3, h4, h5]

/-! ## 5. Clean rejoin -/

/-- **REG3 on a link** (`process_uplink_packet`, registration arm): the link is connected, in phase
`Warming{0 probes, entered now}`, with in-flight 0, empty packet log, empty batch queue, a fresh
congestion state, `last_received = now`, failure counter 0, first-establishment time stamped — and its
window is what it was (`clear_pre_registration_state` does not touch the window). -/
theorem C08_reg3_link (l : FLink F) (now : Nat) :
    (reg3Link l now).core.connected = true ∧ (reg3Link l now).core.phase = .warming 0 now ∧
    (reg3Link l now).core.inFlight = 0 ∧ (reg3Link l now).core.log = [] ∧ (reg3Link l now).queue = [] ∧
    (reg3Link l now).core.cong = {} ∧ (reg3Link l now).core.lastReceived = some now ∧
    (reg3Link l now).failCount = 0 ∧
    (reg3Link l now).established = (if l.established = 0 then now else l.established) ∧
    (reg3Link l now).core.window = l.core.window := by
  refine ⟨rfl, rfl, rfl, rfl, rfl, rfl, rfl, rfl, ?_, rfl⟩
  show (if (l.established == 0) = true then now else l.established) = _
  by_cases h : l.established = 0 <;> simp [h]

/-- `reg3Link` IS what the shell does: an uplink datagram of type REG3 (0x9202 = 37378) arriving on
the link with index `j` leaves exactly `reg3Link` of the previous record there (and sets
`has_connected`). -/
theorem C08_reg3_applies (s : Sys F) (now cid : Nat) (data : Sys.Bytes) (j : Nat) (l : FLink F)
    (hl : s.links[j]? = some l) (hidx : s.links.findIdx? (·.core.connId == cid) = some j)
    (hne : data.isEmpty = false) (hty : Codec.getPacketTypeS data = some 37378) :
    (step s (.uplink now cid data)).1.links[j]? = some (reg3Link l now) ∧
    (step s (.uplink now cid data)).1.reg.hasConnected = true := by
  have hev : (Reg.processRegistrationPacket s.reg j data now).2 = some .reg3 :=
    (regEvent_of_type s.reg j data now).2.mpr hty
  obtain ⟨h1, -, -, h4, -⟩ := uplink_links s cid data now
  obtain ⟨l', hl', hs⟩ := h1 j l hl
  refine ⟨?_, h4 j hidx hev hne⟩
  show (handleUplinkPacket s cid data now).1.links[j]? = _
  rw [hl']
  cases hs with
  | evolves _ hn => exact absurd hev (hn hidx hne)
  | reg3 _ _ h3 _ => rw [h3]
  | regErr _ hE _ => rw [hev] at hE; cases hE

/-- Non-vacuity: REG3 (bytes `92 02`) for conn id 7 in `exSys` connects the down link. -/
example : (step exSys (.uplink 9000 7 [0x92, 0x02])).1.links[1]? = some (reg3Link exDown 9000) ∧
    (reg3Link exDown 9000).core.connected = true ∧ (reg3Link exDown 9000).core.phase = .warming 0 9000 :=
  ⟨(C08_reg3_applies exSys 9000 7 [0x92, 0x02] 1 exDown rfl (by decide) rfl (by decide)).1, rfl, rfl⟩

/-- `Clean` spelled out. -/
theorem C08_clean_def (l : FLink F) :
    Clean l ↔ l.core.window = 20000 ∧ l.core.log = [] ∧ l.queue = [] ∧ l.core.inFlight = 0 ∧
      l.core.connected = false :=
  ⟨fun h => ⟨h.window, h.log, h.queue, h.inFlight, h.connected⟩, fun ⟨a, b, c, d, e⟩ => ⟨a, b, c, d, e⟩⟩

/-- The invariant: every link that is not connected is in phase `Registering`; and every link that
has been established before (`connection_established_ms ≠ 0`) lives in a registered group
(`has_connected`) and, while `Registering`, has clean accounting: window 20000, empty log, empty
queue, in-flight 0. -/
def RejoinInv (s : Sys F) : Prop :=
  ∀ (j : Nat) (l : FLink F), s.links[j]? = some l →
    (l.core.connected = false → l.core.phase = .registering) ∧
    (l.established ≠ 0 → s.reg.hasConnected = true ∧ (l.core.phase = .registering → Clean l))

/-- Start-up states satisfy it: no link established, none connected, all `Registering`. -/
theorem C08_rejoin_invariant_init (s : Sys F)
    (h : ∀ l ∈ s.links, l.established = 0 ∧ l.core.phase = .registering) : RejoinInv s := by
  intro j l hl
  have := h l (List.mem_of_getElem? hl)
  exact ⟨fun _ => this.2, fun h0 => absurd this.1 h0⟩

/-- Non-vacuity: the state right after start-up (two fresh `new_registering` links). -/
example : RejoinInv ({ links := [exLink, exLink], reg := Reg.Reg.new [1] [2] } : Sys Int) :=
  C08_rejoin_invariant_init _ (by decide)

/-- **The invariant is preserved by every event.**  Why: tear-downs (`mark_for_recovery`,
`reset_for_reconnect`) leave the clean state; once `has_connected` holds there is no pre-registration
forwarding, the selectors and the override only return schedulable (non-`Registering`) links, stall
probes need a connected link, ACK/NAK fan-out cannot touch an empty log, the global +1 needs
`connected`, a flush of an empty queue registers nothing, and housekeeping's window recovery needs
`connected`. -/
theorem C08_rejoin_invariant_step (s : Sys F) (e : Ev) (h : RejoinInv s) : RejoinInv (step s e).1 := by
  cases hnr : e.isReload with
  | true =>
    -- a reload keeps the records of the retained links and the manager; a fresh link was never established
    cases e with
    | reload now addrs outs =>
      intro j l' hl'
      rcases mem_reload (List.mem_of_getElem? hl') with ⟨h1, -⟩ | ⟨id, a, -, -, rfl⟩
      · obtain ⟨j0, hj0⟩ := List.getElem?_of_mem h1
        exact h j0 l' hj0
      · exact ⟨fun _ => rfl, fun h0 => absurd rfl h0⟩
    | _ => cases hnr
  | false =>
  obtain ⟨hlinks, hlen, hmono⟩ := step_link s e hnr
  intro j l' hl'
  have hj : j < s.links.length := by
    rw [← hlen]; exact (List.getElem?_eq_some_iff.1 hl').1
  obtain ⟨l'', hl'', hs⟩ := hlinks j s.links[j] (List.getElem?_eq_getElem hj)
  rw [hl'] at hl''; cases hl''
  obtain ⟨i1, i2⟩ := h j s.links[j] (List.getElem?_eq_getElem hj)
  generalize s.links[j] = l at hs i1 i2
  cases hs with
  | evolves cto _ hev =>
    refine ⟨fun hc => hev.phaseReg.mpr (i1 (hev.connected ▸ hc)), fun he => ?_⟩
    obtain ⟨a, b⟩ := i2 (hev.established ▸ he)
    exact ⟨hmono a, fun hp => hev.clean a (hev.phaseReg.mp hp) (b (hev.phaseReg.mp hp))⟩
  | sendFail now pkt _ ht _ =>
    refine ⟨fun _ => ht.phase, fun he => ?_⟩
    obtain ⟨a, -⟩ := i2 (ht.established ▸ he)
    exact ⟨hmono a, fun _ => ht.clean⟩
  | reg3 now cid data _ _ _ hl3 hhc =>
    subst hl3
    exact ⟨fun hc => (by cases hc), fun _ => ⟨hhc, fun hp => (by cases hp)⟩⟩
  | regErr now cid data _ _ _ hlE =>
    subst hlE
    refine ⟨fun _ => rfl, fun he => ?_⟩
    obtain ⟨a, -⟩ := i2 he
    exact ⟨hmono a, fun _ => clean_markForRecovery l⟩
  | attempt now _ _ _ hlA =>
    obtain ⟨t, ht⟩ := hlA
    subst ht
    obtain ⟨-, -, f3, -, -, f6, -, -, -, f10⟩ := reconnectLink_fields l now
    refine ⟨fun _ => f6, fun he => ?_⟩
    have he' : l.established ≠ 0 := by
      have : (withSent (reconnectLink l now) t).established = l.established := f3
      rw [this] at he; exact he
    obtain ⟨a, -⟩ := i2 he'
    exact ⟨hmono a, fun _ => ⟨f10.window, f10.log, f10.queue, f10.inFlight, f10.connected⟩⟩
  | attemptFailed now _ _ _ _ hlA =>
    obtain ⟨t, ht⟩ := hlA
    subst ht
    obtain ⟨-, -, f3, -, -, f6, -, -, f9⟩ := failedLink_fields l now
    refine ⟨fun _ => f6, fun he => ?_⟩
    have he' : l.established ≠ 0 := by
      have : (withSent (failedLink l now) t).established = l.established := f3
      rw [this] at he; exact he
    obtain ⟨a, -⟩ := i2 he'
    exact ⟨hmono a, fun _ => ⟨f9.window, f9.log, f9.queue, f9.inFlight, f9.connected⟩⟩

/-- … hence it holds along every run (any events, any order, any length) from a start-up state. -/
theorem C08_rejoin_invariant (s : Sys F) (es : List Ev) (h : RejoinInv s) : RejoinInv (run s es) := by
  induction es generalizing s with
  | nil => exact h
  | cons e es ih => exact ih _ (C08_rejoin_invariant_step s e h)

/-- **Clean rejoin**: in any state reachable from start-up, a REG3 arriving on a link that is not
connected and has been established before (a RE-join) leaves it connected, `Warming{0, now}`, with
window exactly 20000, in-flight 0, empty log, empty queue and a fresh congestion state. -/
theorem C08_clean_rejoin (s0 : Sys F) (es : List Ev) (h0 : RejoinInv s0)
    (now cid : Nat) (data : Sys.Bytes) (j : Nat) (l : FLink F)
    (hl : (run s0 es).links[j]? = some l)
    (hidx : (run s0 es).links.findIdx? (·.core.connId == cid) = some j)
    (hne : data.isEmpty = false) (hty : Codec.getPacketTypeS data = some 37378)
    (hdis : l.core.connected = false) (hest : l.established ≠ 0) :
    ∃ l', (step (run s0 es) (.uplink now cid data)).1.links[j]? = some l' ∧
      l'.core.connected = true ∧ l'.core.phase = .warming 0 now ∧ l'.core.window = 20000 ∧
      l'.core.inFlight = 0 ∧ l'.core.log = [] ∧ l'.queue = [] ∧ l'.core.cong = {} ∧
      l'.established = l.established := by
  obtain ⟨i1, i2⟩ := C08_rejoin_invariant s0 es h0 j l hl
  have hcl : Clean l := (i2 hest).2 (i1 hdis)
  obtain ⟨h1, -⟩ := C08_reg3_applies (run s0 es) now cid data j l hl hidx hne hty
  obtain ⟨r1, r2, r3, r4, r5, r6, -, -, r9, r10⟩ := C08_reg3_link l now
  refine ⟨_, h1, r1, r2, r10.trans hcl.window, r3, r4, r5, r6, ?_⟩
  rw [r9, if_neg hest]

/-- Non-vacuity: `exSys` satisfies the invariant, and the REG3 of the previous example is a clean
re-join in the sense of the theorem (window 20000 although the link had been torn down). -/
example : RejoinInv exSys ∧
    ∃ l', (step (run exSys []) (.uplink 9000 7 [0x92, 0x02])).1.links[1]? = some l' ∧
      l'.core.connected = true ∧ l'.core.window = 20000 ∧ l'.core.inFlight = 0 := by
  have hinv : RejoinInv exSys := by
    intro j l hl
    match j, hl with
    | 0, hl =>
      cases hl
      exact ⟨by decide, fun _ => ⟨rfl, fun hp => by cases hp⟩⟩
    | 1, hl =>
      cases hl
      exact ⟨fun _ => rfl, fun _ => ⟨rfl, fun _ => (C08_clean_def exDown).2 (by decide)⟩⟩
    | (n + 2), hl => cases hl
  refine ⟨hinv, ?_⟩
  obtain ⟨l', h1, h2, -, h4, h5, -⟩ :=
    C08_clean_rejoin exSys [] hinv 9000 7 [0x92, 0x02] 1 exDown rfl (by decide) rfl (by decide) rfl (by decide)
  exact ⟨l', h1, h2, h4, h5⟩

/-- **The FIRST join** (`connection_established_ms = 0`): REG3 gives the same clean accounting
(in-flight 0, empty log and queue, fresh congestion state, `Warming`) but KEEPS the window the link
had: while no link of the group is registered yet (`has_connected = false`), the shell forwards the
SRT handshake over `Registering` links (`select_pre_registration_connection`), so NAKs (−100 each,
floor 1000) and earned ACKs may have moved the window away from 20000 before the first REG3.
After `has_connected` that forwarding stops and every later tear-down restores 20000. -/
theorem C08_first_join (s : Sys F) (now cid : Nat) (data : Sys.Bytes) (j : Nat) (l : FLink F)
    (hl : s.links[j]? = some l) (hidx : s.links.findIdx? (·.core.connId == cid) = some j)
    (hne : data.isEmpty = false) (hty : Codec.getPacketTypeS data = some 37378) :
    ∃ l', (step s (.uplink now cid data)).1.links[j]? = some l' ∧
      l'.core.connected = true ∧ l'.core.phase = .warming 0 now ∧ l'.core.window = l.core.window ∧
      l'.core.inFlight = 0 ∧ l'.core.log = [] ∧ l'.queue = [] ∧ l'.core.cong = {} := by
  obtain ⟨h1, -⟩ := C08_reg3_applies s now cid data j l hl hidx hne hty
  obtain ⟨r1, r2, r3, r4, r5, r6, -, -, -, r10⟩ := C08_reg3_link l now
  exact ⟨_, h1, r1, r2, r10, r3, r4, r5, r6⟩

/-- Non-vacuity: a never-established link whose window was moved to 19900 by a NAK during
pre-registration forwarding joins with window 19900. -/
example :
    let l0 : FLink Int := { exLink with core := { exLink.core with window := 19900, log := [(3, 10)], inFlight := 1 } }
    (reg3Link l0 500).core.window = 19900 ∧ (reg3Link l0 500).core.log = [] ∧
    (reg3Link l0 500).core.inFlight = 0 ∧ (reg3Link l0 500).established = 500 := by decide

/-- All tear-down paths leave the clean state, whatever the link held: `mark_for_recovery` (failed
send, REG_ERR), the reconnect branch of housekeeping with a successful socket re-creation, and the
same branch when the re-creation fails. -/
theorem C08_teardown_is_clean (l : FLink F) (now : Nat) (t : Option Nat) :
    Clean l.markForRecovery ∧ l.markForRecovery.core.phase = .registering ∧
    Clean (withSent (reconnectLink l now) t) ∧ (withSent (reconnectLink l now) t).core.phase = .registering ∧
    Clean (withSent (failedLink l now) t) ∧ (withSent (failedLink l now) t).core.phase = .registering := by
  obtain ⟨-, -, -, -, -, f6, -, -, -, f10⟩ := reconnectLink_fields l now
  obtain ⟨-, -, -, -, -, g6, -, -, g9⟩ := failedLink_fields l now
  exact ⟨clean_markForRecovery l, rfl, ⟨f10.window, f10.log, f10.queue, f10.inFlight, f10.connected⟩, f6,
    ⟨g9.window, g9.log, g9.queue, g9.inFlight, g9.connected⟩, g6⟩

/-! ## 6. Survivors are unaffected -/

/-- **Frame property of the per-link loop**: the record of link `j` after `hkLinksGo` is `hkLink` of
that link's own record, its index, the pending-REG2 index and whether a socket re-creation failure is
injected for ITS conn id when the loop reaches it — nothing else.  (The registration state threaded
through the loop only changes by `build_reg1_for` on the pending link itself, which leaves `pending`
as it was; so the dependence on "the registration state threaded so far" is a dependence on the
loop-invariant `reg.pending`.  The injection list `fb` is only ever consumed, by the attempt it
fails: `hkBindLeft` over the links before `j`.) -/
theorem C08_survivors_unaffected (classic : Bool) (now : Nat) (ls : List (FLink F)) (i : Nat) (reg : Reg.Reg)
    (fb : List Nat) (j : Nat) :
    (hkLinksGo classic now ls i reg fb).1[j]? =
      (ls[j]?).map (fun l => hkLink classic now reg.pending
        ((hkBindLeft now (ls.take j) fb).contains l.core.connId) (i + j) l) ∧
    (hkLinksGo classic now ls i reg fb).1.length = ls.length := by
  rw [(hkLinksGo_links classic now ls i reg fb).1]
  exact ⟨List.getElem?_mapIdx, List.length_mapIdx⟩

/-- Consequently two passes over link lists that agree at position `j` (and on the pending index, and
on whether the re-creation of link `j`'s socket is made to fail) produce the same record at `j`,
however the OTHER links differ — timed out, torn down, reconnecting with or without success, or
healthy. -/
theorem C08_survivors_unaffected_frame (classic : Bool) (now : Nat) (ls ls' : List (FLink F)) (i : Nat)
    (reg reg' : Reg.Reg) (fb fb' : List Nat) (j : Nat) (hj : ls[j]? = ls'[j]?) (hp : reg.pending = reg'.pending)
    (hf : ∀ l, ls[j]? = some l → (hkBindLeft now (ls.take j) fb).contains l.core.connId =
      (hkBindLeft now (ls'.take j) fb').contains l.core.connId) :
    (hkLinksGo classic now ls i reg fb).1[j]? = (hkLinksGo classic now ls' i reg' fb').1[j]? := by
  rw [(C08_survivors_unaffected classic now ls i reg fb j).1, (C08_survivors_unaffected classic now ls' i reg' fb' j).1,
    ← hj, hp]
  cases h : ls[j]? with
  | none => rfl
  | some l => simp only [Option.map_some, hf l h]

/-- In particular with no failure injected for link `j`'s conn id in either pass. -/
theorem C08_survivors_unaffected_frame_noinject (classic : Bool) (now : Nat) (ls ls' : List (FLink F)) (i : Nat)
    (reg reg' : Reg.Reg) (fb fb' : List Nat) (j : Nat) (hj : ls[j]? = ls'[j]?) (hp : reg.pending = reg'.pending)
    (hf : ∀ l, ls[j]? = some l → l.core.connId ∉ fb ∧ l.core.connId ∉ fb') :
    (hkLinksGo classic now ls i reg fb).1[j]? = (hkLinksGo classic now ls' i reg' fb').1[j]? := by
  refine C08_survivors_unaffected_frame classic now ls ls' i reg reg' fb fb' j hj hp (fun l hl => ?_)
  obtain ⟨h1, h2⟩ := hf l hl
  have e1 : (hkBindLeft now (ls.take j) fb).contains l.core.connId = false := by
    cases hc : (hkBindLeft now (ls.take j) fb).contains l.core.connId
    · rfl
    · exact absurd (hkBindLeft_mem now _ _ _ (by simpa using hc)) h1
  have e2 : (hkBindLeft now (ls'.take j) fb').contains l.core.connId = false := by
    cases hc : (hkBindLeft now (ls'.take j) fb').contains l.core.connId
    · rfl
    · exact absurd (hkBindLeft_mem now _ _ _ (by simpa using hc)) h2
  rw [e1, e2]

/-- Non-vacuity: the live link next to a link that is down, or next to one that is being
reconnected in this very pass, comes out the same. -/
example : (hkLinksGo false 7000 [exLive, exDown] 0 exSys.reg []).1[0]? =
    (hkLinksGo false 7000 [exLive, { exDown with lastAttemptMs := 6999 }] 0 exSys.reg [7]).1[0]? :=
  C08_survivors_unaffected_frame_noinject false 7000 _ _ 0 _ _ _ _ 0 rfl rfl
    (fun l hl => by cases hl; exact ⟨by decide, by decide⟩)

/-- A link that is NOT timed out at the tick keeps its batch queue, packet log, in-flight count,
`connected` flag, `last_received`, conn id and establishment time through the pass (it only gets
keepalives, window recovery, bitrate / phase / regime updates) — the surviving uplinks keep carrying
the stream while others are being torn down in the same pass. -/
theorem C08_survivor_keeps_carrying (classic : Bool) (now : Nat) (pending : Option Nat) (fails : Bool) (j : Nat)
    (l : FLink F) (h : l.isTimedOut now = false) :
    let l' := hkLink classic now pending fails j l
    l'.queue = l.queue ∧ l'.core.log = l.core.log ∧ l'.core.inFlight = l.core.inFlight ∧
    l'.core.connected = l.core.connected ∧ l'.core.connId = l.core.connId ∧
    l'.established = l.established ∧ l'.core.lastReceived = l.core.lastReceived := by
  dsimp only
  unfold hkLink
  rw [if_neg (by simp [h])]
  exact aliveLink_accounting classic now l

/-- Non-vacuity: at the tick at 1500 the live link of `exSys` is not timed out; it keeps its two
in-flight packets while the down link next to it is being retried. -/
example : exLive.isTimedOut 1500 = false ∧
    (hkLink false 1500 none false 0 exLive).core.log = [(10, 900), (11, 950)] ∧
    (hkLink false 1500 none false 0 exLive).core.connected = true :=
  ⟨by decide, (C08_survivor_keeps_carrying false 1500 none false 0 exLive (by decide)).2.1,
   (C08_survivor_keeps_carrying false 1500 none false 0 exLive (by decide)).2.2.2.1⟩

/-- The same on the whole tick (`handle_housekeeping`): every link's record afterwards is `hkLink` of
its own record (after stage 1's possible grace re-arm of the probed link), up to a `last_sent` stamp
by the registration driver's REG1 / REG2 broadcast. -/
theorem C08_survivors_unaffected_tick (s : Sys F) (now : Nat) :
    ∃ τ : Nat → Option Nat → Option Nat, ∀ j : Nat,
      (handleHousekeeping s now).1.links[j]? =
        (s.links[j]?).map (fun l =>
          let x := hkLink s.cfg.classic now (hkP1 s now).1.pending (hkFails s now j l.core.connId) j
            (graceFix (hkGraceIdx s now) now j l)
          withSent x (τ j x.core.lastSent)) := by
  obtain ⟨τ, h⟩ := hk_links s now
  exact ⟨τ, fun j => by rw [h, List.getElem?_mapIdx]⟩

/-! ## 7. Liveness on the link's own projection (partial; the run-level form is section 9) -/

/-- A tick that attempts a reconnect with no uplink awaiting REG2 puts a REG2 carrying the group id on
the wire of that link (`handle_housekeeping`, whole tick). -/
theorem C08_attempt_sends_reg2 (s : Sys F) (now j : Nat) (l : FLink F) (hl : s.links[j]? = some l)
    (hpend : s.reg.pending = none) (hprob : Reg.isProbing s.reg = false)
    (hto : l.isTimedOut now = true) (hsa : l.shouldAttemptReconnect now = true) :
    (l.core.connId, Codec.createReg2 s.reg.id) ∈ (step s (.hk now)).2.wire := by
  show _ ∈ (handleHousekeeping s now).2.wire
  rw [(hk_eq s now).2.2.1]
  apply List.mem_append_left
  apply List.mem_append_left
  obtain ⟨-, r2, r3⟩ := hkP1_reg s now
  have hls : (hkP1 s now).2 = s.links := by
    rw [hkP1_links, hkGraceIdx_none s now hprob]
    exact mapIdx_id' _ _ (fun j a => by simp [graceFix])
  have := hkLinksGo_wire_reg2 s.cfg.classic now (hkP1 s now).2 0 (hkP1 s now).1 s.failBind (r2 hpend) j l
    (by rw [hls]; exact hl) hto hsa
  unfold Reg.buildReg2 at this
  rw [r3] at this
  exact this

/-- Non-vacuity: the tick at 7000 in `exSys` (nobody awaiting REG2, probing long complete) re-sends
REG2 with the group id `[1]` on the down link (conn id 7). -/
example : (7, Codec.createReg2 [1]) ∈ (step exSys (.hk 7000)).2.wire :=
  C08_attempt_sends_reg2 exSys 7000 1 exDown rfl rfl (by decide) (by decide) (by decide)

/-- A torn-down, previously established link: not connected (whatever it has heard since the reset:
a straggler datagram may have refreshed `last_received`). -/
def Down (l : FLink F) : Prop :=
  l.core.connected = false ∧ l.established ≠ 0 ∧ l.failCount = 0

theorem C08_aux_down_timed_out (l : FLink F) (h : Down l) (now : Nat) : l.isTimedOut now = true := by
  obtain ⟨h1, h3, -⟩ := h
  rw [C08_timed_out_disconnected l now h1]
  exact fun hh => h3 hh.1

theorem C08_aux_down_ready (l : FLink F) (h : Down l) (now : Nat) :
    l.shouldAttemptReconnect now = true ↔ (l.lastAttemptMs = 0 ∨ now - l.lastAttemptMs ≥ 5000) := by
  obtain ⟨-, h3, h4⟩ := h
  have hb : l.backoffDelay = 5000 := (C08_backoff_table l).1 h4
  constructor
  · intro hs
    rcases shouldAttempt_true l now hs with ⟨h0, -⟩ | ⟨-, hh | hh⟩
    · exact absurd h0 h3
    · left; exact hh
    · right; omega
  · intro hr
    unfold FLink.shouldAttemptReconnect
    rw [if_neg (by simpa using h3)]
    split
    · rfl
    · rw [hb]; rename_i h0
      have : l.lastAttemptMs ≠ 0 := by simpa using h0
      exact decide_eq_true (by omega)

/-- One housekeeping tick at `t` as link `j` sees it UNDER THE ENVIRONMENT HYPOTHESES of the liveness
clause: no uplink is awaiting REG2 (`pending = none`: the group is alive on a survivor); socket
re-creation succeeds (no bind failure injected: `fails = false`); if the tick re-sends REG2 for this link, the receiver's
REG3 answer is processed at `d`, before the next tick; no other datagram arrives on the link. -/
def tickReply (classic : Bool) (j : Nat) (l : FLink F) (t d : Nat) : FLink F :=
  if l.isTimedOut t && l.shouldAttemptReconnect t then reg3Link (hkLink classic t none false j l) d
  else hkLink classic t none false j l

def liveRun (classic : Bool) (j : Nat) : FLink F → List (Nat × Nat) → FLink F
  | l, [] => l
  | l, (t, d) :: rest => liveRun classic j (tickReply classic j l t d) rest

/-- Consecutive ticks are at most 1100 ms apart (housekeeping period 1 s + scheduling slack). -/
def Gaps : Nat → List (Nat × Nat) → Prop
  | _, [] => True
  | prev, (t, _) :: rest => prev < t ∧ t ≤ prev + 1100 ∧ Gaps t rest

theorem C08_aux_liveRun_append (classic : Bool) (j : Nat) (l : FLink F) (a b : List (Nat × Nat)) :
    liveRun classic j l (a ++ b) = liveRun classic j (liveRun classic j l a) b := by
  induction a generalizing l with
  | nil => rfl
  | cons x a ih => obtain ⟨t, d⟩ := x; simp only [List.cons_append, liveRun]; exact ih _

theorem C08_aux_live (classic : Bool) (j : Nat) (l : FLink F) (hd : Down l) (t0 : Nat) (ticks : List (Nat × Nat)) :
    ∀ t d rest, ticks = (t, d) :: rest → (t < l.lastAttemptMs + 6100 ∨ t = t0) → Gaps t rest →
      (∃ x ∈ ticks, x.1 ≥ l.lastAttemptMs + 5000) →
      ∃ pre tk dk post, ticks = pre ++ (tk, dk) :: post ∧ (tk < l.lastAttemptMs + 6100 ∨ tk = t0) ∧
        liveRun classic j l (pre ++ [(tk, dk)]) = reg3Link (withSent (reconnectLink l tk) (some tk)) dk := by
  induction ticks with
  | nil => intro t d rest h; cases h
  | cons x xs ih =>
    intro t d rest hx hb hg hex
    cases hx
    by_cases hr : l.lastAttemptMs = 0 ∨ t - l.lastAttemptMs ≥ 5000
    · -- this tick attempts
      refine ⟨[], t, d, xs, rfl, hb, ?_⟩
      have hsa := (C08_aux_down_ready l hd t).2 hr
      have hto := C08_aux_down_timed_out l hd t
      simp only [List.nil_append, liveRun, tickReply, hto, hsa, Bool.and_self, if_true]
      unfold hkLink
      rw [if_pos hto, if_pos hsa]
      rfl
    · -- not yet: the record is unchanged, the next tick is < 1100 ms later
      have hsa : l.shouldAttemptReconnect t = false := by
        cases h : l.shouldAttemptReconnect t
        · rfl
        · exact absurd ((C08_aux_down_ready l hd t).1 h) hr
      have hto := C08_aux_down_timed_out l hd t
      have hsame : tickReply classic j l t d = l := by
        unfold tickReply hkLink
        simp [hto, hsa]
      have hlt : t < l.lastAttemptMs + 5000 := by omega
      cases xs with
      | nil =>
        obtain ⟨y, hy, hy2⟩ := hex
        simp at hy; subst hy
        simp at hy2; omega
      | cons y ys =>
        obtain ⟨t', d'⟩ := y
        obtain ⟨g1, g2, g3⟩ := hg
        have hex' : ∃ x ∈ (t', d') :: ys, x.1 ≥ l.lastAttemptMs + 5000 := by
          obtain ⟨z, hz, hz2⟩ := hex
          rcases List.mem_cons.1 hz with e | e
          · subst e; simp at hz2; omega
          · exact ⟨z, e, hz2⟩
        obtain ⟨pre, tk, dk, post, e1, e2, e3⟩ := ih t' d' ys rfl (Or.inl (by omega)) g3 hex'
        refine ⟨(t, d) :: pre, tk, dk, post, by rw [e1]; rfl, e2, ?_⟩
        simp only [List.cons_append, liveRun, hsame]
        exact e3

/-- **Liveness, under explicit environment hypotheses (PARTIAL).**  Link `j` is down (torn down,
established before, failure counter 0 — which sections 2/5 show is what every tear-down leaves).
Housekeeping ticks `(t, d)` start at `t0 ≥ last_attempt`, are at most 1100 ms apart and continue
until at least `last_attempt + 5000`; no uplink is awaiting REG2; every REG2 the link re-sends is
answered by a REG3 processed at `d` before the next tick; nothing else arrives on the link.  Then
there is a tick `tk`, either the very first one or earlier than `last_attempt + 5000 + 1100`, at which
the link re-sends REG2 and after whose REG3 the link is connected with clean accounting (window 20000,
in-flight 0, empty log/queue, `Warming{0, dk}`) — i.e. within 5000 + 1100 ms of the previous failed
attempt plus the answer delay (< 1100 ms): far inside the 30 s of the property.

What is NOT proved here (why this one is `_partial`): this is the link's own PROJECTION of a run
(`tickReply`); the lift to runs of the shell with arbitrary interleaved events — including datagrams
arriving on the link itself — is `C08_reconnect_within_30s_sys` in section 9.  Outside both: that the
ticks really come ≤ 1100 ms apart (tokio timers); the REG3 answer (receiver + network); a FAILED socket
re-creation (modelled since round 3, `Ev.failBind`: outside the property's fault classes, with it the
30 s clause does not hold — section 8); the case where another uplink is awaiting REG2 (`pending =
some p ≠ j`: the re-send is deferred until `clear_pending_if_timed_out`, ≤ 4000 ms) and the
all-links-down REG1 → REG2 → REG3 re-grouping chain. -/
theorem C08_reconnect_within_30s_partial (classic : Bool) (j : Nat) (l : FLink F) (hd : Down l)
    (hcto : 0 < l.connTimeoutMs)
    (t0 d0 : Nat) (rest : List (Nat × Nat)) (hg : Gaps t0 rest)
    (hlong : ∃ x ∈ (t0, d0) :: rest, x.1 ≥ l.lastAttemptMs + 5000) :
    ∃ pre tk dk post, (t0, d0) :: rest = pre ++ (tk, dk) :: post ∧
      (tk < l.lastAttemptMs + 5000 + 1100 ∨ tk = t0) ∧
      let l' := liveRun classic j l (pre ++ [(tk, dk)])
      l'.core.connected = true ∧ l'.core.phase = .warming 0 dk ∧ l'.core.window = 20000 ∧
      l'.core.inFlight = 0 ∧ l'.core.log = [] ∧ l'.queue = [] ∧ l'.core.lastReceived = some dk ∧
      l'.isTimedOut dk = false := by
  obtain ⟨pre, tk, dk, post, e1, e2, e3⟩ :=
    C08_aux_live classic j l hd t0 ((t0, d0) :: rest) t0 d0 rest rfl (Or.inr rfl) hg hlong
  refine ⟨pre, tk, dk, post, e1, by omega, ?_⟩
  dsimp only
  rw [e3]
  obtain ⟨r1, r2, r3, r4, r5, -, r7, -, -, r10⟩ := C08_reg3_link (withSent (reconnectLink l tk) (some tk)) dk
  obtain ⟨-, -, -, -, -, -, -, -, -, f10⟩ := reconnectLink_fields l tk
  refine ⟨r1, r2, r10.trans f10.window, r3, r4, r5, r7, ?_⟩
  rw [← Bool.not_eq_true, C08_timed_out_connected _ dk r1]
  rintro ⟨lr, hlr, hge⟩
  rw [r7] at hlr
  cases hlr
  have hct : (reg3Link (withSent (reconnectLink l tk) (some tk)) dk).connTimeoutMs = l.connTimeoutMs :=
    (reconnectLink_fields l tk).2.2.2.2.2.2.2.2.1
  rw [hct] at hge
  omega

/-- A down link that heard a straggler datagram at 2400 after its tear-down, under a 60 s timeout:
before the `fix:` commit recorded in known_findings.json this link made no attempt before 62400. -/
def exDownHeard : FLink Int :=
  { exDown with core := { exDown.core with lastReceived := some 2400 }, connTimeoutMs := 60000 }

/-- Non-vacuity: `exDownHeard` (last attempt at 2000, straggler heard at 2400, timeout 60 s) with ticks
at 2500, 3600, …, 8000 (1100 apart, REG3 answers 100 ms after each tick): the hypotheses hold; the
attempt happens at 8000 < 2000 + 6100. -/
example : Down exDownHeard ∧ 0 < exDownHeard.connTimeoutMs ∧
    Gaps 2500 [(3600, 3700), (4700, 4800), (5800, 5900), (6900, 7000), (8000, 8100)] ∧
    (∃ x ∈ [(2500, 2600), (3600, 3700), (4700, 4800), (5800, 5900), (6900, 7000), (8000, 8100)],
      x.1 ≥ exDownHeard.lastAttemptMs + 5000) ∧
    (liveRun false 1 exDownHeard
      [(2500, 2600), (3600, 3700), (4700, 4800), (5800, 5900), (6900, 7000), (8000, 8100)]).core.connected = true ∧
    (liveRun false 1 exDownHeard
      [(2500, 2600), (3600, 3700), (4700, 4800), (5800, 5900), (6900, 7000)]).core.connected = false := by
  refine ⟨⟨rfl, by decide, rfl⟩, by decide, by simp [Gaps], ⟨(8000, 8100), by simp, by decide⟩, by decide, by decide⟩

/-! ## 8. Failed socket re-creations: the back-off table is reached, retries go on

The reconnect branch of housekeeping calls `reconnect_uplink`, which re-creates the uplink's socket.
If that fails (the uplink binder refuses: interface gone) the code falls back to `mark_for_recovery`:
the failure counter `record_attempt` has just incremented is NOT reset, so the NEXT attempt waits for
`backoff_delay` = 10, 20, 40, 80, 120, 120, … s.  The model injects such failures by the event
`Ev.failBind connId` (the sys harness by a binder that refuses once).

Failed socket re-creation is not among C08's fault classes (silence, loss, lost handshake replies,
REG_NGP / REG_ERR, send errors): with it the "connected again within 30 s" clause does not hold — by
design, this is what the property's "back-off never exceeding 120 s" is about.  The liveness theorem
of section 9 therefore assumes no injected bind failure for the link; this section shows that the
table is really reached and that retries continue. -/

/-- The record a failed re-creation leaves, field by field: attempt stamp = tick time; failure counter
one more than before (saturating at `u32::MAX`) once the link has been established, unchanged during
initial registration; establishment time kept; start-up grace cleared (0); clean accounting, phase
`Registering`, `last_received` cleared. -/
theorem C08_failed_reconnect_link (l : FLink F) (now : Nat) (t : Option Nat) :
    let l' := withSent (failedLink l now) t
    l'.lastAttemptMs = now ∧
    l'.failCount = (if l.established = 0 then l.failCount else min (l.failCount + 1) 4294967295) ∧
    l'.established = l.established ∧ l'.graceDeadline = 0 ∧ l'.core.connId = l.core.connId ∧
    l'.core.phase = .registering ∧ l'.core.lastReceived = none ∧ Clean l' := by
  obtain ⟨f1, f2, f3, f4, f5, f6, f7, -, f9⟩ := failedLink_fields l now
  exact ⟨f1, f2, f3, f4, f5, f6, f7, ⟨f9.window, f9.log, f9.queue, f9.inFlight, f9.connected⟩⟩

/-- **After a failed re-creation the link keeps trying.**  `l'` is the record the failed attempt at
tick `now` leaves (`now ≠ 0`: clock value 0 is the code's "never attempted" sentinel).  Then
(1) `l'` is down-like: not connected, window 20000, empty log and queue, in-flight 0, `Registering`;
(2) it is timed out — due for re-registration — at EVERY later instant (no grace: `mark_for_recovery`
    zeroes the grace deadline), whatever it hears meanwhile;
(3) once established, `should_attempt_reconnect` is false before and true from exactly `now +
    backoff_delay` on, where `backoff_delay` is read off the INCREMENTED failure counter and lies in
    5000 … 120000; during initial registration the cadence stays 1000 ms;
(4) so a tick at or after `now + 120000` attempts again in every case: there is no failure count
    that stops the retries. -/
theorem C08_failed_reconnect_keeps_trying (l : FLink F) (now : Nat) (t : Option Nat) (hnow : now ≠ 0) :
    let l' := withSent (failedLink l now) t
    (l'.core.connected = false ∧ l'.core.window = 20000 ∧ l'.core.log = [] ∧ l'.queue = [] ∧
      l'.core.inFlight = 0 ∧ l'.core.phase = .registering) ∧
    (∀ now', l'.isTimedOut now' = true) ∧
    (l.established ≠ 0 → 5000 ≤ l'.backoffDelay ∧ l'.backoffDelay ≤ 120000 ∧
      ∀ now', l'.shouldAttemptReconnect now' = true ↔ now' - now ≥ l'.backoffDelay) ∧
    (l.established = 0 → ∀ now', l'.shouldAttemptReconnect now' = true ↔ (0 < now' ∧ now' - now ≥ 1000)) ∧
    (∀ now', now' - now ≥ 120000 → l'.shouldAttemptReconnect now' = true) := by
  intro l'
  obtain ⟨f1, f2, f3, f4, f5, f6, f7, f8⟩ := C08_failed_reconnect_link l now t
  have hI := Lit.INITIAL_RETRY_MS_eq
  have hla : (l'.lastAttemptMs == 0) = false := by
    have : l'.lastAttemptMs = now := f1
    rw [this]; simpa using hnow
  have hto : ∀ now', l'.isTimedOut now' = true := by
    intro now'
    rw [C08_timed_out_disconnected l' now' f8.connected]
    rintro ⟨-, h⟩
    have : l'.graceDeadline = 0 := f4
    omega
  refine ⟨⟨f8.connected, f8.window, f8.log, f8.queue, f8.inFlight, f6⟩, hto, ?_, ?_, ?_⟩
  · intro he
    have he' : (l'.established == 0) = false := by
      have : l'.established = l.established := f3
      rw [this]; simpa using he
    refine ⟨(backoff_bounds l').1, (backoff_bounds l').2, fun now' => ?_⟩
    unfold FLink.shouldAttemptReconnect
    simp only [he', hla, Bool.false_eq_true, if_false, decide_eq_true_eq]
    have : l'.lastAttemptMs = now := f1
    rw [this]
  · intro he now'
    have he' : (l'.established == 0) = true := by
      have : l'.established = l.established := f3
      rw [this]; simpa using he
    unfold FLink.shouldAttemptReconnect
    have h4 : l'.graceDeadline = 0 := f4
    have h1 : l'.lastAttemptMs = now := f1
    have hn0 : (now == 0) = false := by simpa using hnow
    simp only [he', if_true, h4, h1, hn0, Bool.false_eq_true, if_false, Lit.INITIAL_RETRY_MS_eq]
    by_cases h0 : now' ≤ 0
    · simp only [h0, if_true]
      constructor
      · intro h; cases h
      · intro h; omega
    · simp only [h0, if_false, decide_eq_true_eq]
      constructor
      · intro h; exact ⟨by omega, by omega⟩
      · intro h; omega
  · intro now' hge
    apply shouldAttempt_of_old l' now'
    · by_cases he : l.established = 0
      · right
        have : l'.graceDeadline = 0 := f4
        omega
      · left
        have : l'.established = l.established := f3
        rw [this]; exact he
    · right
      have : l'.lastAttemptMs = now := f1
      rw [this]; exact hge

/-- Non-vacuity: `exDown` (established, counter 0) after a failed re-creation at 7000: counter 1, the
next attempt is refused at 16999 and granted at 17000 = 7000 + 10000; with the counter at 4 before,
the next one comes 120000 ms later (5 recorded failures: the cap). -/
example :
    (withSent (failedLink exDown 7000) (some 7000)).failCount = 1 ∧
    (withSent (failedLink exDown 7000) (some 7000)).backoffDelay = 10000 ∧
    (withSent (failedLink exDown 7000) (some 7000)).shouldAttemptReconnect 16999 = false ∧
    (withSent (failedLink exDown 7000) (some 7000)).shouldAttemptReconnect 17000 = true ∧
    (withSent (failedLink { exDown with failCount := 4 } 7000) none).shouldAttemptReconnect 126999 = false ∧
    (withSent (failedLink { exDown with failCount := 4 } 7000) none).shouldAttemptReconnect 127000 = true := by
  decide

/-- In the shell: a tick in which link `j` is due while a bind failure is injected for its conn id
(and for no earlier link with the same id) leaves the failed-attempt record — and still puts the REG2
on the wire (old socket) when no uplink is awaiting REG2. -/
theorem C08_failed_reconnect_in_tick (s : Sys F) (now j : Nat) (l : FLink F) (hl : s.links[j]? = some l)
    (hto : l.isTimedOut now = true) (hsa : l.shouldAttemptReconnect now = true)
    (hest : l.established ≠ 0) (hf : hkFails s now j l.core.connId = true) :
    (∃ t, (step s (.hk now)).1.links[j]? = some (withSent (failedLink l now) t)) ∧
    AttemptAt s (.hk now) j now ∧
    (s.reg.pending = none → (l.core.connId, Codec.createReg2 s.reg.id) ∈ (step s (.hk now)).2.wire) := by
  obtain ⟨t, ht⟩ := hk_attempts s now j l hl hto hsa (Or.inr hest)
  have ht' : (step s (.hk now)).1.links[j]? = some (withSent (attemptLink true l now) t) := by
    rw [← hf]; exact ht
  exact ⟨⟨t, ht'⟩, ⟨rfl, l, hl, hto, hsa, t, true, ht'⟩, fun hp => hk_wire_reg2 s now j l hl hp hest hto hsa⟩

/-- The observations of link `j` after every housekeeping tick of a run: tick time, failure counter,
attempt stamp, and whether the tick returned the all-links-failed error. -/
def tickTrace (j : Nat) : Sys F → List Ev → List (Nat × Nat × Nat × Bool)
  | _, [] => []
  | s, .hk now :: es =>
    (match (step s (.hk now)).1.links[j]? with
      | some l => [(now, l.failCount, l.lastAttemptMs, (step s (.hk now)).2.hkErr)]
      | none => []) ++ tickTrace j (step s (.hk now)).1 es
  | s, e :: es => tickTrace j (step s e).1 es

/-- Start-up: two fresh uplinks (`new_registering` at clock 0), fresh registration manager. -/
def exStart : Sys Int :=
  { links := [FLink.newRegistering 7 0, FLink.newRegistering 8 0], reg := Reg.Reg.new [1] [2] }

/-- One round of the literal run: the survivor (conn id 8) hears a keepalive 2 ms before, a bind
failure is injected for conn id 7, a tick 1 ms before the back-off expires and a tick when it does. -/
def exRound (t : Nat) : List Ev := [.uplink (t - 2) 8 [0x90, 0x00], .failBind 7, .hk (t - 1), .hk t]

/-- The literal run: both links register (REG3 at 100), the receiver drops link 7 (REG_ERR at 200),
then every reconnect attempt of link 7 meets a refusing binder — seven times — and the eighth
re-creation succeeds and is answered by REG3. -/
def exBackoffRun : List Ev :=
  [.uplink 100 7 [0x92, 0x02], .uplink 100 8 [0x92, 0x02], .uplink 200 7 [0x92, 0x10],
   .uplink 998 8 [0x90, 0x00], .failBind 7, .hk 1000] ++
  exRound 11000 ++ exRound 31000 ++ exRound 71000 ++ exRound 151000 ++ exRound 271000 ++ exRound 391000 ++
  [.uplink 510998 8 [0x90, 0x00], .hk 510999, .hk 511000, .uplink 511050 7 [0x92, 0x02]]

/-- **The back-off table is reachable** (from START-UP, by events of the shell alone).  Along the
literal run `exBackoffRun` the failure counter of link 0 climbs 1, 2, 3, 4, 5, 6, 7 and the attempts
are stamped 1000, 11000, 31000, 71000, 151000, 271000, 391000: the gaps are 10000, 20000, 40000,
80000, 120000, 120000 ms — the table, capped — and exactly so: the tick 1 ms before each of them is
refused (same counter, same stamp as before).  The tick at 511000 (120000 ms after the seventh
failure) re-creates the socket, which zeroes the counter; the REG3 at 511050 re-joins the link with
window 20000 and in-flight 0.  No tick returns the all-links-failed error (link 1 survives), and all
seven injected failures are consumed. -/
theorem C08_backoff_reachable :
    tickTrace 0 exStart exBackoffRun =
      [(1000, 1, 1000, false),
       (10999, 1, 1000, false), (11000, 2, 11000, false),
       (30999, 2, 11000, false), (31000, 3, 31000, false),
       (70999, 3, 31000, false), (71000, 4, 71000, false),
       (150999, 4, 71000, false), (151000, 5, 151000, false),
       (270999, 5, 151000, false), (271000, 6, 271000, false),
       (390999, 6, 271000, false), (391000, 7, 391000, false),
       (510999, 7, 391000, false), (511000, 0, 511000, false)] ∧
    ((run exStart exBackoffRun).links.map fun l =>
      (l.core.connected, l.core.window, l.core.inFlight, l.failCount)) =
      [(true, 20000, 0, 0), (true, 20420, 0, 0)] ∧
    (run exStart exBackoffRun).failBind = [] := by
  decide +kernel

/-- Recognising an attempt of an established link from the state the tick starts in. -/
theorem C08_aux_attemptAt_of (s : Sys F) (now j : Nat)
    (h : (s.links[j]?.map fun l => l.isTimedOut now && l.shouldAttemptReconnect now && decide (l.established ≠ 0))
      = some true) : AttemptAt s (.hk now) j now := by
  cases hl : s.links[j]? with
  | none => rw [hl] at h; cases h
  | some l =>
    rw [hl] at h
    simp only [Option.map_some, Option.some.injEq, Bool.and_eq_true, decide_eq_true_eq] at h
    obtain ⟨⟨hto, hsa⟩, hest⟩ := h
    obtain ⟨t, ht⟩ := hk_attempts s now j l hl hto hsa (Or.inr hest)
    exact ⟨rfl, l, hl, hto, hsa, t, _, ht⟩

/-- … and a refused tick. -/
theorem C08_aux_not_attemptAt_of (s : Sys F) (now j : Nat)
    (h : (s.links[j]?.map fun l => l.shouldAttemptReconnect now) = some false) (now' : Nat) :
    ¬ AttemptAt s (.hk now) j now' := by
  rintro ⟨he, l, hl, -, hsa, -⟩
  rw [hl] at h
  simp only [Option.map_some, Option.some.injEq] at h
  have he' : now = now' := by injection he
  rw [← he', h] at hsa; cases hsa

/-- The state of the literal run just before the tick at 11000. -/
def exS1 : Sys Int :=
  run exStart
    [.uplink 100 7 [0x92, 0x02], .uplink 100 8 [0x92, 0x02], .uplink 200 7 [0x92, 0x10],
     .uplink 998 8 [0x90, 0x00], .failBind 7, .hk 1000, .uplink 10998 8 [0x90, 0x00], .failBind 7, .hk 10999]

/-- The extended alphabet in the trace theorems of sections 2 and 4: in the literal run the attempt at
11000 (failed re-creation, after the injection event `failBind 7` and a refused tick) and the next one
at 31000 are consecutive attempts of link 0 in the sense of `C08_retry_spacing_trace`, with an uplink
datagram, an injection event and a refused tick in between — the theorem's conclusion "≥ 5000 apart"
applies (here the gap is the 20000 ms back-off). -/
example :
    ∃ l, (run (step exS1 (.hk 11000)).1 [.uplink 30998 8 [0x90, 0x00], .failBind 7, .hk 30999]).links[0]? = some l ∧
      l.lastAttemptMs = 11000 ∧
      (11000 = 0 ∨ (l.established = 0 ∧ 31000 - 11000 ≥ 1000) ∨ (l.established ≠ 0 ∧ 31000 - 11000 ≥ 5000)) := by
  have h1 : AttemptAt exS1 (.hk 11000) 0 11000 := C08_aux_attemptAt_of _ _ _ (by decide +kernel)
  have hq : Quiet 0 (step exS1 (.hk 11000)).1 [.uplink 30998 8 [0x90, 0x00], .failBind 7, .hk 30999] := by
    refine ⟨?_, ?_, ?_, trivial⟩
    · rintro now ⟨he, -⟩; cases he
    · rintro now ⟨he, -⟩; cases he
    · exact C08_aux_not_attemptAt_of _ 30999 0 (by decide +kernel)
  have h2 : AttemptAt (run (step exS1 (.hk 11000)).1 [.uplink 30998 8 [0x90, 0x00], .failBind 7, .hk 30999])
      (.hk 31000) 0 31000 := C08_aux_attemptAt_of _ _ _ (by decide +kernel)
  exact C08_retry_spacing_trace exS1 0 11000 31000 _ h1 hq (by decide) h2

/-! ## 9. Liveness over runs of the shell

The liveness clause lifted from the per-link projection of section 7 (`tickReply`, `liveRun`) to runs
`evs : List Ev` of the real shell model `Sys.step`, with ARBITRARY other events interleaved: client
datagrams, uplink datagrams on any link — link `j` itself included (a straggler refreshing
`last_received` no longer postpones anything: a torn-down, previously established link is always
timed out, `C08_timed_out_disconnected`) —, flush ticks, configuration changes, critical windows,
injected send failures, injected bind failures for OTHER conn ids, verdict stamps (`Ev.stamp`). -/

/-- The clock value an event carries (`none`: configuration and injection events). -/
def evClock : Ev → Option Nat
  | .client now _ => some now
  | .uplink now _ _ => some now
  | .flush now => some now
  | .hk now => some now
  | _ => none

/-- Event clocks never go back (`lo` = the latest clock value so far): every arm of the event loop is
stamped with the monotonic `now_ms()`. -/
def MonoFrom : Nat → List Ev → Prop
  | _, [] => True
  | lo, e :: es =>
    match evClock e with
    | some t => lo ≤ t ∧ MonoFrom t es
    | none => MonoFrom lo es

/-- (i) Consecutive housekeeping ticks are at most 1100 ms apart (`pt` = the previous tick; period
1 s + scheduling slack). -/
def TickGaps : Nat → List Ev → Prop
  | _, [] => True
  | pt, .hk t :: es => t ≤ pt + 1100 ∧ TickGaps t es
  | pt, _ :: es => TickGaps pt es

/-- `e` is an uplink datagram of type REG3 (0x9202 = 37378) for conn id `cid`. -/
def isReg3For (cid : Nat) : Ev → Bool
  | .uplink _ c data => c == cid && Codec.getPacketTypeS data == some 37378
  | _ => false

/-- Before the next housekeeping tick a REG3 for conn id `cid` is processed, and the first such is
processed at a clock value `≤ dl`. -/
def AnswerBy (cid dl : Nat) : List Ev → Prop
  | [] => False
  | .hk _ :: _ => False
  | .uplink d c data :: es =>
    if isReg3For cid (.uplink d c data) then d ≤ dl else AnswerBy cid dl es
  | _ :: es => AnswerBy cid dl es

/-- (ii) The receiver answers: every tick (at `t`) whose wire output contains a REG2 (0x9201 = 37377)
for conn id `cid` is followed, before the next tick and within 1100 ms, by an uplink REG3 for `cid`. -/
def Answered (cid : Nat) : Sys F → List Ev → Prop
  | _, [] => True
  | s, e :: es =>
    (∀ t, e = .hk t → (∃ p ∈ (step s e).2.wire, p.1 = cid ∧ Codec.getPacketTypeS p.2 = some 37377) →
      AnswerBy cid (t + 1100) es) ∧
    Answered cid (step s e).1 es

/-- No uplink is awaiting REG2 when a tick starts (the group is alive on a survivor; otherwise the
re-send for link `j` is deferred, `C08_reconnect_within_30s_partial`'s docstring). -/
def NoPendingAtTicks : Sys F → List Ev → Prop
  | _, [] => True
  | s, e :: es => (∀ t, e = .hk t → s.reg.pending = none) ∧ NoPendingAtTicks (step s e).1 es

/-- What the walk along the run maintains about link `j` (conn id `cid`) until it re-joins. -/
structure LiveInv (cid j : Nat) (s : Sys F) (l : FLink F) : Prop where
  link : s.links[j]? = some l
  down : Down l
  id : l.core.connId = cid
  inv : RejoinInv s
  idx : s.links.findIdx? (·.core.connId == cid) = some j
  nofb : cid ∉ s.failBind

theorem C08_aux_type_nonempty (data : Sys.Bytes) (t : Nat) (h : Codec.getPacketTypeS data = some t) :
    data.isEmpty = false := by
  cases data with
  | nil => simp [Codec.getPacketTypeS] at h
  | cons a r => rfl

/-- One event from a `LiveInv` state, unless it injects a bind failure for `cid`: link `j` is still
down with the invariant intact — its attempt stamp unchanged, or the event was a tick at which a
reconnect attempt was due —, or the event was a REG3 for `cid`, which leaves `reg3Link`. -/
theorem C08_aux_liveInv_step (cid j : Nat) (s : Sys F) (l : FLink F) (e : Ev) (h : LiveInv cid j s l)
    (he : e ≠ .failBind cid) (hnr : e.isReload = false) :
    ∃ l1, (step s e).1.links[j]? = some l1 ∧
      ((LiveInv cid j (step s e).1 l1 ∧
          (l1.lastAttemptMs = l.lastAttemptMs ∨ ∃ now, e = .hk now ∧ l.shouldAttemptReconnect now = true)) ∨
       (∃ now data, e = .uplink now cid data ∧ Codec.getPacketTypeS data = some 37378 ∧ l1 = reg3Link l now)) := by
  obtain ⟨l1, hl1, hs⟩ := (step_link s e hnr).1 j l h.link
  refine ⟨l1, hl1, ?_⟩
  have hnofb : cid ∉ (step s e).1.failBind := by
    intro hm
    rcases step_failBind_mem s e cid hm with h1 | h1
    · exact h.nofb h1
    · exact he h1
  have hidx : (step s e).1.links.findIdx? (·.core.connId == cid) = some j := by
    rw [step_findIdx _ _ hnr]; exact h.idx
  have hinv := C08_rejoin_invariant_step s e h.inv
  obtain ⟨d1, d2, d3⟩ := h.down
  have mk : l1.core.connected = false → l1.established = l.established → l1.failCount = l.failCount →
      l1.core.connId = l.core.connId → LiveInv cid j (step s e).1 l1 :=
    fun a b c d => ⟨hl1, ⟨a, by rw [b]; exact d2, by rw [c]; exact d3⟩, d.trans h.id, hinv, hidx, hnofb⟩
  cases hs with
  | evolves cto _ hev =>
    exact Or.inl ⟨mk (hev.connected.trans d1) hev.established hev.failCount hev.connId, Or.inl hev.lastAttempt⟩
  | sendFail now pkt _ ht _ =>
    exact Or.inl ⟨mk ht.clean.connected ht.established ht.failCount ht.connId, Or.inl ht.lastAttempt⟩
  | reg3 now c data hev hidx' hty hl3 _ =>
    right
    have hc : c = cid := by
      have := findIdx_hit s.links c j l hidx' h.link
      rw [← this]; exact h.id
    subst hc
    exact ⟨now, data, hev, (regEvent_of_type s.reg j data now).2.mp hty, hl3⟩
  | regErr now c data _ _ _ hlE =>
    subst hlE
    exact Or.inl ⟨mk rfl rfl rfl rfl, Or.inl rfl⟩
  | attempt now hev hto hsa hlA =>
    obtain ⟨t, ht⟩ := hlA
    obtain ⟨-, f2, f3, -, f5, -, -, -, -, f10⟩ := reconnectLink_fields l now
    subst ht
    exact Or.inl ⟨mk f10.connected f3 (f2.trans d3.symm) f5, Or.inr ⟨now, hev, hsa⟩⟩
  | attemptFailed now _ _ _ hfb _ =>
    rw [h.id] at hfb
    exact absurd hfb h.nofb

/-- A REG3 for `cid` processed in a `LiveInv` state re-joins link `j` cleanly. -/
theorem C08_aux_rejoin (cid j : Nat) (s : Sys F) (l : FLink F) (h : LiveInv cid j s l) (d : Nat)
    (data : Sys.Bytes) (hty : Codec.getPacketTypeS data = some 37378) :
    ∃ l', (step s (.uplink d cid data)).1.links[j]? = some l' ∧
      l'.core.connected = true ∧ l'.core.window = 20000 ∧ l'.core.inFlight = 0 ∧ l'.core.log = [] ∧
      l'.queue = [] ∧ l'.core.phase = .warming 0 d := by
  obtain ⟨d1, d2, -⟩ := h.down
  obtain ⟨i1, i2⟩ := h.inv j l h.link
  have hcl : Clean l := (i2 d2).2 (i1 d1)
  obtain ⟨h1, -⟩ := C08_reg3_applies s d cid data j l h.link h.idx (C08_aux_type_nonempty data _ hty) hty
  obtain ⟨r1, r2, r3, r4, r5, -, -, -, -, r10⟩ := C08_reg3_link l d
  exact ⟨_, h1, r1, r10.trans hcl.window, r3, r4, r5, r2⟩

/-- The answer phase: from a `LiveInv` state, if a REG3 for `cid` comes before the next tick (the
first one by `dl`), then at the first such event link `j` re-joins. -/
theorem C08_aux_answer_sys (cid j dl : Nat) (evs : List Ev) :
    ∀ (s : Sys F) (l : FLink F), LiveInv cid j s l → (∀ e ∈ evs, e ≠ .failBind cid ∧ e.isReload = false) → AnswerBy cid dl evs →
      ∃ pre d data post, evs = pre ++ .uplink d cid data :: post ∧
        Codec.getPacketTypeS data = some 37378 ∧ d ≤ dl ∧
        ∃ l', (run s (pre ++ [.uplink d cid data])).links[j]? = some l' ∧
          l'.core.connected = true ∧ l'.core.window = 20000 ∧ l'.core.inFlight = 0 ∧ l'.core.log = [] ∧
          l'.queue = [] ∧ l'.core.phase = .warming 0 d := by
  induction evs with
  | nil => intro s l _ _ ha; exact absurd ha (by simp [AnswerBy])
  | cons e es ih =>
    intro s l hinv hne ha
    have hne' : ∀ e' ∈ es, e' ≠ .failBind cid ∧ e'.isReload = false := fun e' he' => hne e' (List.mem_cons_of_mem _ he')
    -- the event is the REG3 for `cid`, or it leaves the invariant intact
    by_cases hr : isReg3For cid e = true
    · cases e with
      | uplink d c data =>
        simp only [isReg3For, Bool.and_eq_true, beq_iff_eq] at hr
        obtain ⟨hc, hty⟩ := hr
        subst hc
        have hd : d ≤ dl := by
          have : isReg3For c (.uplink d c data) = true := by simp [isReg3For, hty]
          simp only [AnswerBy, this, if_true] at ha
          exact ha
        obtain ⟨l', hl', hp⟩ := C08_aux_rejoin c j s l hinv d data hty
        exact ⟨[], d, data, es, rfl, hty, hd, l', hl', hp⟩
      | _ => simp [isReg3For] at hr
    · have hr' : isReg3For cid e = false := by simpa using hr
      have ha' : AnswerBy cid dl es := by
        cases e with
        | hk t => simp [AnswerBy] at ha
        | uplink d c data => simpa only [AnswerBy, hr', Bool.false_eq_true, if_false] using ha
        | client now pkt => simpa only [AnswerBy] using ha
        | flush now => simpa only [AnswerBy] using ha
        | setCfg cfg => simpa only [AnswerBy] using ha
        | crit d => simpa only [AnswerBy] using ha
        | failNext c => simpa only [AnswerBy] using ha
        | failAfter c kfa => simpa only [AnswerBy] using ha
        | failBind c => simpa only [AnswerBy] using ha
        | syncTimeout => simpa only [AnswerBy] using ha
        | stamp idx weak ld ccb cct => simpa only [AnswerBy] using ha
        | reload rnow raddrs routs => simpa only [AnswerBy] using ha
      obtain ⟨l1, hl1, hc⟩ := C08_aux_liveInv_step cid j s l e hinv (hne e (List.mem_cons_self)).1 (hne e (List.mem_cons_self)).2
      rcases hc with ⟨hinv1, -⟩ | ⟨now, data, he, hty, -⟩
      · obtain ⟨pre, d, data, post, e1, e2, e3, l', hl', hp⟩ := ih _ l1 hinv1 hne' ha'
        exact ⟨e :: pre, d, data, post, by rw [e1]; rfl, e2, e3, l', hl', hp⟩
      · rw [he] at hr'
        simp [isReg3For, hty] at hr'

/-- An event before the next tick cannot carry a clock value beyond `pt + 1100`. -/
theorem C08_aux_clock_before_tick (d pt : Nat) (es : List Ev) (hm : MonoFrom d es) (hg : TickGaps pt es)
    (hex : ∃ t, Ev.hk t ∈ es) : d ≤ pt + 1100 := by
  induction es generalizing d with
  | nil => obtain ⟨t, ht⟩ := hex; cases ht
  | cons e es ih =>
    cases e with
    | hk t =>
      simp only [MonoFrom, evClock, TickGaps] at hm hg
      omega
    | client now pkt =>
      simp only [MonoFrom, evClock, TickGaps] at hm hg
      have := ih now hm.2 hg (by obtain ⟨t, ht⟩ := hex; exact ⟨t, by simpa using ht⟩)
      omega
    | uplink now c data =>
      simp only [MonoFrom, evClock, TickGaps] at hm hg
      have := ih now hm.2 hg (by obtain ⟨t, ht⟩ := hex; exact ⟨t, by simpa using ht⟩)
      omega
    | flush now =>
      simp only [MonoFrom, evClock, TickGaps] at hm hg
      have := ih now hm.2 hg (by obtain ⟨t, ht⟩ := hex; exact ⟨t, by simpa using ht⟩)
      omega
    | setCfg cfg =>
      simp only [MonoFrom, evClock, TickGaps] at hm hg
      exact ih d hm hg (by obtain ⟨t, ht⟩ := hex; exact ⟨t, by simpa using ht⟩)
    | crit x =>
      simp only [MonoFrom, evClock, TickGaps] at hm hg
      exact ih d hm hg (by obtain ⟨t, ht⟩ := hex; exact ⟨t, by simpa using ht⟩)
    | failNext c =>
      simp only [MonoFrom, evClock, TickGaps] at hm hg
      exact ih d hm hg (by obtain ⟨t, ht⟩ := hex; exact ⟨t, by simpa using ht⟩)
    | failAfter c kfa =>
      simp only [MonoFrom, evClock, TickGaps] at hm hg
      exact ih d hm hg (by obtain ⟨t, ht⟩ := hex; exact ⟨t, by simpa using ht⟩)
    | failBind c =>
      simp only [MonoFrom, evClock, TickGaps] at hm hg
      exact ih d hm hg (by obtain ⟨t, ht⟩ := hex; exact ⟨t, by simpa using ht⟩)
    | syncTimeout =>
      simp only [MonoFrom, evClock, TickGaps] at hm hg
      exact ih d hm hg (by obtain ⟨t, ht⟩ := hex; exact ⟨t, by simpa using ht⟩)
    | stamp idx weak ld ccb cct =>
      simp only [MonoFrom, evClock, TickGaps] at hm hg
      exact ih d hm hg (by obtain ⟨t, ht⟩ := hex; exact ⟨t, by simpa using ht⟩)
    | reload rnow raddrs routs =>
      simp only [MonoFrom, evClock, TickGaps] at hm hg
      exact ih d hm hg (by obtain ⟨t, ht⟩ := hex; exact ⟨t, by simpa using ht⟩)

theorem C08_aux_reg2_type (id : Codec.Bytes) : Codec.getPacketTypeS (Codec.createReg2 id) = some 37377 := by
  simp [Codec.createReg2, Codec.toBE16, Codec.getPacketTypeS, Codec.be16]

/-- The walk: from a `LiveInv` state, along a run with monotone clocks, tick gaps ≤ 1100 ms (`pt` = the
previous tick, `lo` = the latest clock), ticks going on until the back-off has expired, answered REG2s
and no pending REG2 wait at ticks — link `j` re-joins at a REG3 processed before `last_attempt + 5000
+ 1100 + 1100` (or, if the walk starts with the back-off already expired, within two tick periods of
the reference time `T0`). -/
theorem C08_aux_live_sys (cid j T0 : Nat) (evs : List Ev) :
    ∀ (s : Sys F) (l : FLink F) (pt lo : Nat), LiveInv cid j s l → (∀ e ∈ evs, e ≠ .failBind cid ∧ e.isReload = false) →
      MonoFrom lo evs → TickGaps pt evs → (pt < l.lastAttemptMs + 5000 ∨ pt ≤ T0) →
      (∃ t, Ev.hk t ∈ evs ∧ t ≥ l.lastAttemptMs + 5000) →
      Answered cid s evs → NoPendingAtTicks s evs →
      ∃ pre d data post, evs = pre ++ .uplink d cid data :: post ∧
        Codec.getPacketTypeS data = some 37378 ∧
        (d < l.lastAttemptMs + 5000 + 1100 + 1100 ∨ d ≤ T0 + 1100 + 1100) ∧
        ∃ l', (run s (pre ++ [.uplink d cid data])).links[j]? = some l' ∧
          l'.core.connected = true ∧ l'.core.window = 20000 ∧ l'.core.inFlight = 0 ∧ l'.core.log = [] ∧
          l'.queue = [] ∧ l'.core.phase = .warming 0 d := by
  induction evs with
  | nil => intro s l pt lo _ _ _ _ _ hex; obtain ⟨t, ht, -⟩ := hex; cases ht
  | cons e es ih =>
    intro s l pt lo hinv hne hm hg hpt hex hans hpend
    have hne' : ∀ e' ∈ es, e' ≠ .failBind cid ∧ e'.isReload = false := fun e' he' => hne e' (List.mem_cons_of_mem _ he')
    obtain ⟨hans0, hans'⟩ := hans
    obtain ⟨hpend0, hpend'⟩ := hpend
    obtain ⟨l1, hl1, hc⟩ := C08_aux_liveInv_step cid j s l e hinv (hne e (List.mem_cons_self)).1 (hne e (List.mem_cons_self)).2
    -- a tick in `es` (needed when the event itself is not the long tick)
    have hex_tail : (∀ t, e = .hk t → t < l.lastAttemptMs + 5000) →
        ∃ t, Ev.hk t ∈ es ∧ t ≥ l.lastAttemptMs + 5000 := by
      intro hnot
      obtain ⟨t, ht, hge⟩ := hex
      rcases List.mem_cons.1 ht with h0 | h0
      · have := hnot t h0.symm; omega
      · exact ⟨t, h0, hge⟩
    by_cases htick : ∃ t, e = .hk t
    · obtain ⟨t, rfl⟩ := htick
      simp only [MonoFrom, evClock, TickGaps] at hm hg
      have hto := C08_aux_down_timed_out l hinv.down t
      by_cases hsa : l.shouldAttemptReconnect t = true
      · -- the attempt tick: REG2 on the wire, answered; link `j` stays in the invariant until the REG3
        have hready := (C08_aux_down_ready l hinv.down t).1 hsa
        have hinv1 : LiveInv cid j (step s (.hk t)).1 l1 := by
          rcases hc with ⟨h1, -⟩ | ⟨now, data, he, -⟩
          · exact h1
          · cases he
        have hwire : (cid, Codec.createReg2 s.reg.id) ∈ (step s (.hk t)).2.wire := by
          have := hk_wire_reg2 s t j l hinv.link (hpend0 t rfl) hinv.down.2.1 hto hsa
          rw [hinv.id] at this; exact this
        have hab : AnswerBy cid (t + 1100) es :=
          hans0 t rfl ⟨_, hwire, rfl, C08_aux_reg2_type _⟩
        obtain ⟨pre, d, data, post, e1, e2, e3, l', hl', hp⟩ :=
          C08_aux_answer_sys cid j (t + 1100) es _ l1 hinv1 hne' hab
        refine ⟨.hk t :: pre, d, data, post, by rw [e1]; rfl, e2, ?_, l', hl', hp⟩
        omega
      · -- not due yet: `t < last_attempt + 5000`; nothing happens to link `j`
        have hsa' : ¬ (l.lastAttemptMs = 0 ∨ t - l.lastAttemptMs ≥ 5000) :=
          fun hr => hsa ((C08_aux_down_ready l hinv.down t).2 hr)
        have hlt : t < l.lastAttemptMs + 5000 := by omega
        rcases hc with ⟨hinv1, hla | ⟨now, he, hsa2⟩⟩ | ⟨now, data, he, -⟩
        · obtain ⟨pre, d, data, post, e1, e2, e3, l', hl', hp⟩ :=
            ih _ l1 t t hinv1 hne' hm.2 hg.2 (Or.inl (by rw [hla]; exact hlt))
              (by rw [hla]; exact hex_tail (fun t' ht' => by cases ht'; exact hlt)) hans' hpend'
          rw [hla] at e3
          exact ⟨.hk t :: pre, d, data, post, by rw [e1]; rfl, e2, e3, l', hl', hp⟩
        · cases he; exact absurd hsa2 hsa
        · cases he
    · -- not a tick
      have hnt : ∀ t, e ≠ .hk t := fun t h => htick ⟨t, h⟩
      have hex' := hex_tail (fun t h => absurd h (hnt t))
      have hg' : TickGaps pt es := by
        cases e with
        | hk t => exact absurd rfl (hnt t)
        | _ => simpa only [TickGaps] using hg
      rcases hc with ⟨hinv1, hla | ⟨now, he, -⟩⟩ | ⟨now, data, he, hty, -⟩
      · have hm' : ∃ lo', MonoFrom lo' es := by
          cases e with
          | hk t => exact absurd rfl (hnt t)
          | client now pkt => simp only [MonoFrom, evClock] at hm; exact ⟨_, hm.2⟩
          | uplink now c data => simp only [MonoFrom, evClock] at hm; exact ⟨_, hm.2⟩
          | flush now => simp only [MonoFrom, evClock] at hm; exact ⟨_, hm.2⟩
          | setCfg cfg => simp only [MonoFrom, evClock] at hm; exact ⟨_, hm⟩
          | crit x => simp only [MonoFrom, evClock] at hm; exact ⟨_, hm⟩
          | failNext c => simp only [MonoFrom, evClock] at hm; exact ⟨_, hm⟩
          | failAfter c kfa => simp only [MonoFrom, evClock] at hm; exact ⟨_, hm⟩
          | failBind c => simp only [MonoFrom, evClock] at hm; exact ⟨_, hm⟩
          | syncTimeout => simp only [MonoFrom, evClock] at hm; exact ⟨_, hm⟩
          | stamp idx weak ld ccb cct => simp only [MonoFrom, evClock] at hm; exact ⟨_, hm⟩
          | reload rnow raddrs routs => simp only [MonoFrom, evClock] at hm; exact ⟨_, hm⟩
        obtain ⟨lo', hm'⟩ := hm'
        obtain ⟨pre, d, data, post, e1, e2, e3, l', hl', hp⟩ :=
          ih _ l1 pt lo' hinv1 hne' hm' hg' (by rw [hla]; exact hpt) (by rw [hla]; exact hex') hans' hpend'
        rw [hla] at e3
        exact ⟨e :: pre, d, data, post, by rw [e1]; rfl, e2, e3, l', hl', hp⟩
      · exact absurd he (hnt now)
      · -- a REG3 for `cid` before the attempt (e.g. answering a REG2 broadcast): the link re-joins here
        subst he
        simp only [MonoFrom, evClock] at hm
        obtain ⟨t', ht', -⟩ := hex'
        have hd := C08_aux_clock_before_tick now pt es hm.2 hg' ⟨t', ht'⟩
        obtain ⟨l', hl', hp⟩ := C08_aux_rejoin cid j s l hinv now data hty
        refine ⟨[], now, data, es, rfl, hty, ?_, l', hl', hp⟩
        omega

/-- **Connected again (run level).**  State `s` of the shell, link `j` with record `l`:
* `l` is down — not connected, established before, failure counter 0 (what every tear-down cause of the
  property leaves) — and the state satisfies the rejoin invariant (every state reachable from start-up
  does, `C08_rejoin_invariant`); uplink datagrams for `l`'s conn id are dispatched to index `j` (conn ids
  are unique in the program);
* `evs` is ANY run of the shell in which (i) event clocks never go back and housekeeping ticks are at
  most 1100 ms apart (first tick at most 1100 ms after the reference time `t0`) and go on until the
  back-off has expired (some tick at or after `last_attempt + 5000`); (ii) every tick whose wire output
  contains a REG2 for this conn id is answered by a REG3 for it before the next tick and within
  1100 ms; (iii) no bind failure is injected for this conn id (`failBind`, not pending and not in the
  run: failed socket re-creation is outside the property's fault classes, section 8); (iv) no uplink is
  awaiting REG2 when a tick starts.  Everything else is arbitrary: client datagrams, uplink datagrams
  of every type on every link including `j`, flush ticks, configuration changes, critical windows,
  injected send failures, injected bind failures for other conn ids, verdict stamps (`Ev.stamp`), in any interleaving.

Then the run has a prefix ending in a REG3 for this conn id, processed at clock `d`, after which link
`j` is connected with window 20000, in-flight 0, empty packet log and batch queue, phase
`Warming{0, d}`; and `d < last_attempt + 5000 + 1100 + 1100` — or `d ≤ t0 + 1100 + 1100` when the
back-off had already expired at the reference time.  (Both far inside the property's 30 s.) -/
theorem C08_reconnect_within_30s_sys (s : Sys F) (j : Nat) (l : FLink F) (evs : List Ev) (t0 : Nat)
    (hl : s.links[j]? = some l) (hd : Down l) (hinv : RejoinInv s)
    (hidx : s.links.findIdx? (·.core.connId == l.core.connId) = some j)
    (hmono : MonoFrom t0 evs) (hgaps : TickGaps t0 evs)
    (hlong : ∃ t, Ev.hk t ∈ evs ∧ t ≥ l.lastAttemptMs + 5000)
    (hans : Answered l.core.connId s evs)
    (hfb : l.core.connId ∉ s.failBind) (hnofb : ∀ e ∈ evs, e ≠ .failBind l.core.connId ∧ e.isReload = false)
    (hpend : NoPendingAtTicks s evs) :
    ∃ pre d data post, evs = pre ++ .uplink d l.core.connId data :: post ∧
      Codec.getPacketTypeS data = some 37378 ∧
      (d < l.lastAttemptMs + 5000 + 1100 + 1100 ∨ d ≤ t0 + 1100 + 1100) ∧
      ∃ l', (run s (pre ++ [.uplink d l.core.connId data])).links[j]? = some l' ∧
        l'.core.connected = true ∧ l'.core.window = 20000 ∧ l'.core.inFlight = 0 ∧ l'.core.log = [] ∧
        l'.queue = [] ∧ l'.core.phase = .warming 0 d :=
  C08_aux_live_sys l.core.connId j t0 evs s l t0 t0 ⟨hl, hd, rfl, hinv, hidx, hfb⟩ hnofb hmono hgaps
    (Or.inr (Nat.le_refl _)) hlong hans hpend

/-- The bound in the property's terms: when the watch starts before the back-off has expired
(`t0 ≤ last_attempt + 5000`), the link is connected again less than 5000 + 1100 + 1100 ms after the
previous attempt — inside the 30 s. -/
theorem C08_reconnect_within_30s_sys_bound (s : Sys F) (j : Nat) (l : FLink F) (evs : List Ev) (t0 : Nat)
    (hl : s.links[j]? = some l) (hd : Down l) (hinv : RejoinInv s)
    (hidx : s.links.findIdx? (·.core.connId == l.core.connId) = some j)
    (hmono : MonoFrom t0 evs) (hgaps : TickGaps t0 evs) (ht0 : t0 < l.lastAttemptMs + 5000)
    (hlong : ∃ t, Ev.hk t ∈ evs ∧ t ≥ l.lastAttemptMs + 5000)
    (hans : Answered l.core.connId s evs)
    (hfb : l.core.connId ∉ s.failBind) (hnofb : ∀ e ∈ evs, e ≠ .failBind l.core.connId ∧ e.isReload = false)
    (hpend : NoPendingAtTicks s evs) :
    ∃ pre d data post, evs = pre ++ .uplink d l.core.connId data :: post ∧
      d < l.lastAttemptMs + 5000 + 1100 + 1100 ∧ d < l.lastAttemptMs + 30000 ∧
      ∃ l', (run s (pre ++ [.uplink d l.core.connId data])).links[j]? = some l' ∧
        l'.core.connected = true ∧ l'.core.window = 20000 ∧ l'.core.inFlight = 0 ∧ l'.core.log = [] ∧
        l'.queue = [] ∧ l'.core.phase = .warming 0 d := by
  obtain ⟨pre, d, data, post, e1, -, e3, hp⟩ :=
    C08_reconnect_within_30s_sys s j l evs t0 hl hd hinv hidx hmono hgaps hlong hans hfb hnofb hpend
  exact ⟨pre, d, data, post, e1, by omega, by omega, hp⟩

/-- Hypothesis (iv) from a condition on the initial state and a syntactic one on the run: if the
registration manager is at rest (`RegIdle`: no uplink awaiting REG2, no REG1 target, start-up probing
over — the steady state of a registered group) and no event of the run is an uplink datagram of type
REG_NGP (0x9211 = 37393: the receiver has not forgotten the group), then no uplink is awaiting REG2
at any tick. -/
theorem C08_aux_noPending_of_idle (evs : List Ev) :
    ∀ s : Sys F, RegIdle s.reg →
      (∀ e ∈ evs, ∀ now cid data, e = .uplink now cid data → Codec.getPacketTypeS data ≠ some 37393) →
      NoPendingAtTicks s evs := by
  induction evs with
  | nil => intro s _ _; trivial
  | cons e es ih =>
    intro s h hn
    exact ⟨fun _ _ => h.1,
      ih _ (step_reg_idle s e h (hn e List.mem_cons_self)) (fun e' he' => hn e' (List.mem_cons_of_mem _ he'))⟩

/-- **Connected again (run level), with (iv) discharged**: the same as `C08_reconnect_within_30s_sys`
for a state whose registration manager is at rest and a run without REG_NGP datagrams. -/
theorem C08_reconnect_within_30s_sys_no_ngp (s : Sys F) (j : Nat) (l : FLink F) (evs : List Ev) (t0 : Nat)
    (hl : s.links[j]? = some l) (hd : Down l) (hinv : RejoinInv s)
    (hidx : s.links.findIdx? (·.core.connId == l.core.connId) = some j)
    (hmono : MonoFrom t0 evs) (hgaps : TickGaps t0 evs)
    (hlong : ∃ t, Ev.hk t ∈ evs ∧ t ≥ l.lastAttemptMs + 5000)
    (hans : Answered l.core.connId s evs)
    (hfb : l.core.connId ∉ s.failBind) (hnofb : ∀ e ∈ evs, e ≠ .failBind l.core.connId ∧ e.isReload = false)
    (hidle : RegIdle s.reg)
    (hngp : ∀ e ∈ evs, ∀ now cid data, e = .uplink now cid data → Codec.getPacketTypeS data ≠ some 37393) :
    ∃ pre d data post, evs = pre ++ .uplink d l.core.connId data :: post ∧
      Codec.getPacketTypeS data = some 37378 ∧
      (d < l.lastAttemptMs + 5000 + 1100 + 1100 ∨ d ≤ t0 + 1100 + 1100) ∧
      ∃ l', (run s (pre ++ [.uplink d l.core.connId data])).links[j]? = some l' ∧
        l'.core.connected = true ∧ l'.core.window = 20000 ∧ l'.core.inFlight = 0 ∧ l'.core.log = [] ∧
        l'.queue = [] ∧ l'.core.phase = .warming 0 d :=
  C08_reconnect_within_30s_sys s j l evs t0 hl hd hinv hidx hmono hgaps hlong hans hfb hnofb
    (C08_aux_noPending_of_idle evs s hidle hngp)

/-- Executable form of `AnswerBy` / `Answered` (used to check hypothesis (ii) on literal runs). -/
def answerByB (cid dl : Nat) : List Ev → Bool
  | [] => false
  | .hk _ :: _ => false
  | .uplink d c data :: es =>
    if isReg3For cid (.uplink d c data) then decide (d ≤ dl) else answerByB cid dl es
  | _ :: es => answerByB cid dl es

theorem C08_aux_answerByB (cid dl : Nat) (es : List Ev) (h : answerByB cid dl es = true) : AnswerBy cid dl es := by
  induction es with
  | nil => simp [answerByB] at h
  | cons e es ih =>
    cases e with
    | hk t => simp [answerByB] at h
    | uplink d c data =>
      simp only [answerByB] at h
      simp only [AnswerBy]
      split
      · rename_i hc; rw [if_pos hc] at h; exact of_decide_eq_true h
      · rename_i hc; rw [if_neg hc] at h; exact ih h
    | client now pkt => exact ih (by simpa only [answerByB] using h)
    | flush now => exact ih (by simpa only [answerByB] using h)
    | setCfg cfg => exact ih (by simpa only [answerByB] using h)
    | crit d => exact ih (by simpa only [answerByB] using h)
    | failNext c => exact ih (by simpa only [answerByB] using h)
    | failAfter c kfa => exact ih (by simpa only [answerByB] using h)
    | failBind c => exact ih (by simpa only [answerByB] using h)
    | syncTimeout => exact ih (by simpa only [answerByB] using h)
    | stamp idx weak ld ccb cct => exact ih (by simpa only [answerByB] using h)
    | reload rnow raddrs routs => exact ih (by simpa only [answerByB] using h)

def answeredB (cid : Nat) : Sys F → List Ev → Bool
  | _, [] => true
  | s, e :: es =>
    (match e with
      | .hk t => !((step s e).2.wire.any fun p => p.1 == cid && Codec.getPacketTypeS p.2 == some 37377) ||
          answerByB cid (t + 1100) es
      | _ => true) && answeredB cid (step s e).1 es

theorem C08_aux_answeredB (cid : Nat) (evs : List Ev) :
    ∀ s : Sys F, answeredB cid s evs = true → Answered cid s evs := by
  induction evs with
  | nil => intro s _; trivial
  | cons e es ih =>
    intro s h
    simp only [answeredB, Bool.and_eq_true] at h
    refine ⟨fun t he hw => ?_, ih _ h.2⟩
    subst he
    have h1 := h.1
    simp only [Bool.or_eq_true, Bool.not_eq_true'] at h1
    rcases h1 with h1 | h1
    · obtain ⟨p, hp, hp1, hp2⟩ := hw
      have : ((step s (.hk t)).2.wire.any fun p => p.1 == cid && Codec.getPacketTypeS p.2 == some 37377) = true :=
        List.any_eq_true.2 ⟨p, hp, by simp [hp1, hp2]⟩
      rw [this] at h1; cases h1
    · exact C08_aux_answerByB cid _ es h1

/-- Non-vacuity of the run-level theorem on `exSys` (link 1 = `exDown`: conn id 7, down, last attempt
at 2000): reference time 6000 (every tick is the real arm `syncTimeout`, `hk`); a client datagram, a keepalive on the OTHER link, a tick at 6900 (not
due: 4900 ms after the last attempt), a straggler on link 1 ITSELF, a flush tick, a bind failure
injected for the OTHER link, a configuration change, a verdict stamp, the tick at 7900 (due: attempt, REG2 on the
wire), another client datagram, the REG3 at 8000, one more tick.  All hypotheses hold; the theorem
yields the re-join at the REG3 (`d = 8000 < 2000 + 5000 + 1100 + 1100`). -/
def exLiveRun : List Ev :=
  [.client 6100 [0x80, 0x02, 0, 0, 0, 0, 0, 0], .uplink 6200 5 [0x90, 0x00], .syncTimeout, .hk 6900,
   .uplink 6950 7 [0x90, 0x00], .flush 6960, .failBind 5, .setCfg {}, .stamp 0 true false false 100000,
   .syncTimeout, .hk 7900, .client 7950 [0x80, 0x02, 0, 0, 0, 0, 0, 1], .uplink 8000 7 [0x92, 0x02],
   .syncTimeout, .hk 8900]

theorem C08_aux_exSys_inv : RejoinInv exSys := by
  intro j l hl
  match j, hl with
  | 0, hl =>
    cases hl
    exact ⟨by decide, fun _ => ⟨rfl, fun hp => by cases hp⟩⟩
  | 1, hl =>
    cases hl
    exact ⟨fun _ => rfl, fun _ => ⟨rfl, fun _ => (C08_clean_def exDown).2 (by decide)⟩⟩
  | (n + 2), hl => cases hl

example :
    ∃ pre d data post, exLiveRun = pre ++ .uplink d 7 data :: post ∧
      Codec.getPacketTypeS data = some 37378 ∧
      (d < 2000 + 5000 + 1100 + 1100 ∨ d ≤ 6000 + 1100 + 1100) ∧
      ∃ l', (run exSys (pre ++ [.uplink d 7 data])).links[1]? = some l' ∧
        l'.core.connected = true ∧ l'.core.window = 20000 ∧ l'.core.inFlight = 0 ∧ l'.core.log = [] ∧
        l'.queue = [] ∧ l'.core.phase = .warming 0 d :=
  C08_reconnect_within_30s_sys_no_ngp exSys 1 exDown exLiveRun 6000 rfl ⟨rfl, by decide, rfl⟩ C08_aux_exSys_inv
    (by decide) (by simp [exLiveRun, MonoFrom, evClock]) (by simp [exLiveRun, TickGaps])
    ⟨7900, by simp [exLiveRun], by decide⟩
    (C08_aux_answeredB 7 exLiveRun exSys (by decide +kernel))
    (by decide) (by simp [exLiveRun]; decide)
    ⟨rfl, rfl, by decide⟩
    (by
      intro e he now cid data heq
      subst heq
      simp only [exLiveRun, List.mem_cons, Ev.uplink.injEq, reduceCtorEq, false_or, List.not_mem_nil, or_false] at he
      rcases he with ⟨-, -, rfl⟩ | ⟨-, -, rfl⟩ | ⟨-, -, rfl⟩ <;> decide)


/-- … and what that run really does: link 1 is connected (window 20000) after the REG3 at 8000 — the
prefix of 13 events — and not before; the tick at 6900 made no attempt (stamp still 2000), the tick at
7900 did; the live link 0 keeps its own window throughout. -/
example :
    ((run exSys (exLiveRun.take 13)).links.map fun l => (l.core.connected, l.core.window, l.lastAttemptMs)) =
      [(true, 23060, 0), (true, 20000, 7900)] ∧
    ((run exSys (exLiveRun.take 12)).links.map fun l => (l.core.connected, l.lastAttemptMs)) =
      [(true, 0), (false, 7900)] ∧
    ((run exSys (exLiveRun.take 4)).links.map fun l => (l.core.connected, l.lastAttemptMs)) =
      [(true, 0), (false, 2000)] := by
  decide +kernel

/-! ## 10. Never earlier than the CONFIGURED timeout: `sync_conn_timeout` before `handle_housekeeping`

`is_timed_out` reads the link's own COPY of the connection timeout.  Before the `fix:` commit recorded in
known_findings.json the copy was refreshed only by `apply_stall_gate` — i.e. when a client datagram was
routed —, so with `--conn-timeout-ms 30000` (or a runtime raise) and no client traffic a silent link was torn
down after the 5000 ms default.  Since the fix the housekeeping arm of the event loop is the two-event sequence
`[.syncTimeout, .hk now]` (`sync_conn_timeout`, then `handle_housekeeping`). -/

theorem C08_aux_run_cons (s : Sys F) (e : Ev) (es : List Ev) : run s (e :: es) = run (step s e).1 es := rfl

theorem C08_aux_run_append (s : Sys F) (a b : List Ev) : run s (a ++ b) = run (run s a) b := by
  induction a generalizing s with
  | nil => rfl
  | cons e a ih => exact ih _

/-- **The housekeeping arm judges by the configured timeout.**  For the arm `[.syncTimeout, .hk now]` from ANY
state `s` — whatever stale copy of the timeout a link carries —: a link that is connected before the arm and
not connected after it (torn down by the tick) had heard something, and the silence since then is at least the
CONFIGURED `s.cfg.connTimeoutMs`. -/
theorem C08_sync_then_hk_uses_configured (s : Sys F) (now j : Nat) (l l' : FLink F)
    (hl : s.links[j]? = some l) (hl' : (run s [.syncTimeout, .hk now]).links[j]? = some l')
    (hc : l.core.connected = true) (hd : l'.core.connected = false) :
    ∃ lr, l.core.lastReceived = some lr ∧ now - lr ≥ s.cfg.connTimeoutMs := by
  have h1 := (C08_timeout_copy s).2.2.1 j l hl
  have hl'' : (step (step s .syncTimeout).1 (.hk now)).1.links[j]? = some l' := hl'
  have hcause := C08_teardown_causes (step s .syncTimeout).1 (.hk now) rfl j _ l' h1 hl'' (Or.inl ⟨hc, hd⟩)
  rcases hcause with ⟨now', he, hto, -⟩ | ⟨now', pkt, he, -⟩ | ⟨now', cid, data, he, -⟩
  · cases he
    exact (C08_timed_out_connected ({ l with connTimeoutMs := s.cfg.connTimeoutMs } : FLink F) now hc).1 hto
  · cases he
  · cases he

/-- Every `.hk` event of the run is immediately preceded by `.syncTimeout` (`prevSync`: the previous event was
one): runs of the real event loop, whose housekeeping arm is `[.syncTimeout, .hk now]`. -/
def ArmRunFrom (prevSync : Bool) : List Ev → Prop
  | [] => True
  | .hk _ :: es => prevSync = true ∧ ArmRunFrom false es
  | .syncTimeout :: es => ArmRunFrom true es
  | _ :: es => ArmRunFrom false es

def ArmRun (evs : List Ev) : Prop := ArmRunFrom false evs

theorem C08_aux_armRun_split (now : Nat) (post : List Ev) :
    ∀ (pre : List Ev) (b : Bool), ArmRunFrom b (pre ++ .hk now :: post) →
      (pre = [] ∧ b = true) ∨ ∃ pre', pre = pre' ++ [.syncTimeout] := by
  intro pre
  induction pre with
  | nil => intro b h; exact .inl ⟨rfl, h.1⟩
  | cons e rest ih =>
    intro b h
    right
    have key : ∀ b', ArmRunFrom b' (rest ++ .hk now :: post) → (b' = true → e = .syncTimeout) →
        ∃ pre', e :: rest = pre' ++ [.syncTimeout] := by
      intro b' h' hb
      rcases ih b' h' with ⟨hr, hb'⟩ | ⟨pre', hr⟩
      · exact ⟨[], by rw [hr, hb hb']; rfl⟩
      · exact ⟨e :: pre', by rw [hr]; rfl⟩
    cases e with
    | hk t => exact key false h.2 (fun hb => by cases hb)
    | syncTimeout => exact key true h (fun _ => rfl)
    | client t pkt => exact key false h (fun hb => by cases hb)
    | uplink t c d => exact key false h (fun hb => by cases hb)
    | flush t => exact key false h (fun hb => by cases hb)
    | setCfg c => exact key false h (fun hb => by cases hb)
    | crit d => exact key false h (fun hb => by cases hb)
    | failNext c => exact key false h (fun hb => by cases hb)
    | failAfter c kfa => exact key false h (fun hb => by cases hb)
    | failBind c => exact key false h (fun hb => by cases hb)
    | stamp i w ld cb ct => exact key false h (fun hb => by cases hb)
    | reload rnow raddrs routs => exact key false h (fun hb => by cases hb)

/-- **Never earlier than the configured timeout, along runs of the event loop.**  Along ANY run in which every
housekeeping tick is the real arm (`ArmRun`: `.hk` immediately preceded by `.syncTimeout`; everything else
arbitrary), from ANY state: whenever a tick tears down a connected link — `l` the record the tick starts with,
`l'` the record it leaves — the cause is (a) of `C08_teardown_causes` (timed out and due for a reconnect attempt
at that tick), the copy the link is judged by IS the timeout configured at that moment, and the link had heard
something at least that CONFIGURED timeout ago: never earlier. -/
theorem C08_not_earlier_than_configured_run (s0 : Sys F) (evs : List Ev) (harm : ArmRun evs)
    (pre : List Ev) (now : Nat) (post : List Ev) (hsplit : evs = pre ++ .hk now :: post)
    (j : Nat) (l l' : FLink F) (hl : (run s0 pre).links[j]? = some l)
    (hl' : (run s0 (pre ++ [.hk now])).links[j]? = some l')
    (hc : l.core.connected = true) (hd : l'.core.connected = false) :
    Cause (run s0 pre) (.hk now) j l ∧
    l.isTimedOut now = true ∧ l.shouldAttemptReconnect now = true ∧
    l.connTimeoutMs = (run s0 pre).cfg.connTimeoutMs ∧
    ∃ lr, l.core.lastReceived = some lr ∧ now - lr ≥ (run s0 pre).cfg.connTimeoutMs := by
  -- the event before the tick is `syncTimeout`
  obtain ⟨pre', hpre⟩ : ∃ pre', pre = pre' ++ [.syncTimeout] := by
    rcases C08_aux_armRun_split now post pre false (hsplit ▸ harm) with ⟨-, hb⟩ | h
    · cases hb
    · exact h
  have hrun : run s0 pre = (step (run s0 pre') .syncTimeout).1 := by
    rw [hpre, C08_aux_run_append]; rfl
  have hcopy : l.connTimeoutMs = (run s0 pre).cfg.connTimeoutMs := by
    have := (C08_timeout_copy (run s0 pre')).2.2.2 l (by rw [← hrun]; exact List.mem_of_getElem? hl)
    rw [this, hrun]; rfl
  have hl'' : (step (run s0 pre) (.hk now)).1.links[j]? = some l' := by
    rw [C08_aux_run_append] at hl'; exact hl'
  have hcause := C08_teardown_causes (run s0 pre) (.hk now) rfl j l l' hl hl'' (Or.inl ⟨hc, hd⟩)
  refine ⟨hcause, ?_⟩
  rcases hcause with ⟨now', he, hto, hsa⟩ | ⟨now', pkt, he, -⟩ | ⟨now', cid, data, he, -⟩
  · cases he
    obtain ⟨lr, hlr, hge⟩ := (C08_timed_out_connected l now hc).1 hto
    exact ⟨hto, hsa, hcopy, lr, hlr, by rw [← hcopy]; exact hge⟩
  · cases he
  · cases he

/-- A live link that carries the 5000 ms DEFAULT as its copy while 30000 ms is configured (the timeout was
raised and no client datagram has been routed since): last heard at 1000. -/
def exStale : Sys Int :=
  { exSys with links := [exLive, exDown], cfg := { connTimeoutMs := 30000 } }

/-- Non-vacuity, and the defect the fix removes: `handle_housekeeping` ALONE at 6100 tears the live link down
after 5100 ms of silence (stale copy 5000); the arm `[syncTimeout, hk 6100]` does not — nor at 30999 —, and at
31000 (30000 ms of silence, the configured value) it does: the theorem's hypotheses are met and its conclusion
reads `31000 - 1000 ≥ 30000`. -/
example :
    ((run exStale [.hk 6100]).links.map fun l => l.core.connected) = [false, false] ∧
    ((run exStale [.syncTimeout, .hk 6100]).links.map fun l => (l.core.connected, l.connTimeoutMs)) =
      [(true, 30000), (false, 30000)] ∧
    ((run exStale [.syncTimeout, .hk 30999]).links.map fun l => l.core.connected) = [true, false] ∧
    ((run exStale [.syncTimeout, .hk 31000]).links.map fun l => l.core.connected) = [false, false] := by
  decide +kernel

example : ∃ lr, exLive.core.lastReceived = some lr ∧ 31000 - lr ≥ exStale.cfg.connTimeoutMs :=
  C08_sync_then_hk_uses_configured exStale 31000 0 exLive
    ((run exStale [.syncTimeout, .hk 31000]).links[0]'(by decide +kernel)) rfl
    (List.getElem?_eq_getElem _) (by decide) (by decide +kernel)

/-- A run of the event loop from the stale state (client datagram, verdict stamp, three arms): it is an
`ArmRun`; the arm at 31000 tears link 0 down, and the run theorem gives the configured bound for it. -/
def exArmRun : List Ev :=
  [.syncTimeout, .hk 6100, .stamp 0 true false false 0, .uplink 6200 7 [0x90, 0x00], .syncTimeout, .hk 30999,
   .syncTimeout, .hk 31000]

example : ArmRun exArmRun ∧ ¬ ArmRun [.syncTimeout, .flush 5, .hk 6100] := by
  constructor
  · simp [ArmRun, ArmRunFrom, exArmRun]
  · simp [ArmRun, ArmRunFrom]

example : ∃ lr, exLive.core.lastReceived = some lr ∧ 31000 - lr ≥ 30000 := by
  have h := C08_not_earlier_than_configured_run exStale exArmRun (by simp [ArmRun, ArmRunFrom, exArmRun])
    (exArmRun.take 7) 31000 [] rfl 0
    ((run exStale (exArmRun.take 7)).links[0]'(by decide +kernel))
    ((run exStale (exArmRun.take 7 ++ [.hk 31000])).links[0]'(by decide +kernel))
    (List.getElem?_eq_getElem _) (List.getElem?_eq_getElem _) (by decide +kernel) (by decide +kernel)
  obtain ⟨-, -, -, -, lr, h1, h2⟩ := h
  refine ⟨lr, ?_, ?_⟩
  · have : ((run exStale (exArmRun.take 7)).links[0]'(by decide +kernel)).core.lastReceived =
        exLive.core.lastReceived := by decide +kernel
    rw [← this]; exact h1
  · have : (run exStale (exArmRun.take 7)).cfg.connTimeoutMs = 30000 := by decide +kernel
    rw [this] at h2; exact h2

/-! ## 11. Audit round 2 (a): the answer may come LATE

Hypothesis (ii) of `C08_reconnect_within_30s_sys` asks for the REG3 "before the next tick and within 1100 ms".
The REG3 arm of `process_uplink_packet` is unconditional: whenever the REG3 arrives — after any number of further
ticks, also after the link's NEXT reconnect attempt — the link is connected.  Here (ii) is relaxed to "within
`D` ms, at any later point of the run" (`AnswerLate`, `AnsweredLate`); the bound becomes
`last_attempt + 5000 + 1100 + D`. -/

/-- Somewhere in the rest of the run a REG3 for conn id `cid` is processed, and the FIRST such is processed at a
clock value `≤ dl` — housekeeping ticks, reconnect attempts included, may come in between. -/
def AnswerLate (cid dl : Nat) : List Ev → Prop
  | [] => False
  | .uplink d c data :: es =>
    if isReg3For cid (.uplink d c data) then d ≤ dl else AnswerLate cid dl es
  | _ :: es => AnswerLate cid dl es

/-- (ii, relaxed) Every tick (at `t`) whose wire output contains a REG2 (0x9201 = 37377) for conn id `cid` is
followed, at ANY later point of the run, by an uplink REG3 for `cid` processed by `t + D`. -/
def AnsweredLate (D cid : Nat) : Sys F → List Ev → Prop
  | _, [] => True
  | s, e :: es =>
    (∀ t, e = .hk t → (∃ p ∈ (step s e).2.wire, p.1 = cid ∧ Codec.getPacketTypeS p.2 = some 37377) →
      AnswerLate cid (t + D) es) ∧
    AnsweredLate D cid (step s e).1 es

/-- The old hypothesis implies the relaxed one. -/
theorem C08_aux_answerBy_late (cid dl : Nat) (es : List Ev) (h : AnswerBy cid dl es) : AnswerLate cid dl es := by
  induction es with
  | nil => exact h
  | cons e es ih =>
    cases e with
    | hk t => simp [AnswerBy] at h
    | uplink d c data =>
      simp only [AnswerBy] at h
      simp only [AnswerLate]
      split
      · rename_i hc; rw [if_pos hc] at h; exact h
      · rename_i hc; rw [if_neg hc] at h; exact ih h
    | client now pkt => exact ih (by simpa only [AnswerBy] using h)
    | flush now => exact ih (by simpa only [AnswerBy] using h)
    | setCfg cfg => exact ih (by simpa only [AnswerBy] using h)
    | crit d => exact ih (by simpa only [AnswerBy] using h)
    | failNext c => exact ih (by simpa only [AnswerBy] using h)
    | failAfter c kfa => exact ih (by simpa only [AnswerBy] using h)
    | failBind c => exact ih (by simpa only [AnswerBy] using h)
    | syncTimeout => exact ih (by simpa only [AnswerBy] using h)
    | stamp idx weak ld ccb cct => exact ih (by simpa only [AnswerBy] using h)
    | reload rnow raddrs routs => exact ih (by simpa only [AnswerBy] using h)

theorem C08_aux_answered_late (cid : Nat) (evs : List Ev) :
    ∀ s : Sys F, Answered cid s evs → AnsweredLate 1100 cid s evs := by
  induction evs with
  | nil => intro s _; trivial
  | cons e es ih =>
    intro s h
    exact ⟨fun t he hw => C08_aux_answerBy_late cid _ es (h.1 t he hw), ih _ h.2⟩

/-- The answer phase, late form: from a `LiveInv` state, if a REG3 for `cid` comes ANYWHERE later in the run (the
first one by `dl`), then at the first such event link `j` re-joins — whatever happens in between (ticks, further
reconnect attempts, stragglers, tear-downs of the still-down link). -/
theorem C08_aux_answer_late (cid j dl : Nat) (evs : List Ev) :
    ∀ (s : Sys F) (l : FLink F), LiveInv cid j s l → (∀ e ∈ evs, e ≠ .failBind cid ∧ e.isReload = false) → AnswerLate cid dl evs →
      ∃ pre d data post, evs = pre ++ .uplink d cid data :: post ∧
        Codec.getPacketTypeS data = some 37378 ∧ d ≤ dl ∧
        ∃ l', (run s (pre ++ [.uplink d cid data])).links[j]? = some l' ∧
          l'.core.connected = true ∧ l'.core.window = 20000 ∧ l'.core.inFlight = 0 ∧ l'.core.log = [] ∧
          l'.queue = [] ∧ l'.core.phase = .warming 0 d := by
  induction evs with
  | nil => intro s l _ _ ha; exact absurd ha (by simp [AnswerLate])
  | cons e es ih =>
    intro s l hinv hne ha
    have hne' : ∀ e' ∈ es, e' ≠ .failBind cid ∧ e'.isReload = false := fun e' he' => hne e' (List.mem_cons_of_mem _ he')
    by_cases hr : isReg3For cid e = true
    · cases e with
      | uplink d c data =>
        simp only [isReg3For, Bool.and_eq_true, beq_iff_eq] at hr
        obtain ⟨hc, hty⟩ := hr
        subst hc
        have hd : d ≤ dl := by
          have : isReg3For c (.uplink d c data) = true := by simp [isReg3For, hty]
          simp only [AnswerLate, this, if_true] at ha
          exact ha
        obtain ⟨l', hl', hp⟩ := C08_aux_rejoin c j s l hinv d data hty
        exact ⟨[], d, data, es, rfl, hty, hd, l', hl', hp⟩
      | _ => simp [isReg3For] at hr
    · have hr' : isReg3For cid e = false := by simpa using hr
      have ha' : AnswerLate cid dl es := by
        cases e with
        | hk t => simpa only [AnswerLate] using ha
        | uplink d c data => simpa only [AnswerLate, hr', Bool.false_eq_true, if_false] using ha
        | client now pkt => simpa only [AnswerLate] using ha
        | flush now => simpa only [AnswerLate] using ha
        | setCfg cfg => simpa only [AnswerLate] using ha
        | crit d => simpa only [AnswerLate] using ha
        | failNext c => simpa only [AnswerLate] using ha
        | failAfter c kfa => simpa only [AnswerLate] using ha
        | failBind c => simpa only [AnswerLate] using ha
        | syncTimeout => simpa only [AnswerLate] using ha
        | stamp idx weak ld ccb cct => simpa only [AnswerLate] using ha
        | reload rnow raddrs routs => simpa only [AnswerLate] using ha
      obtain ⟨l1, hl1, hc⟩ := C08_aux_liveInv_step cid j s l e hinv (hne e (List.mem_cons_self)).1 (hne e (List.mem_cons_self)).2
      rcases hc with ⟨hinv1, -⟩ | ⟨now, data, he, hty, -⟩
      · obtain ⟨pre, d, data, post, e1, e2, e3, l', hl', hp⟩ := ih _ l1 hinv1 hne' ha'
        exact ⟨e :: pre, d, data, post, by rw [e1]; rfl, e2, e3, l', hl', hp⟩
      · rw [he] at hr'
        simp [isReg3For, hty] at hr'

/-- The walk of `C08_aux_live_sys` with the relaxed answer hypothesis. -/
theorem C08_aux_live_late (cid j T0 D : Nat) (evs : List Ev) :
    ∀ (s : Sys F) (l : FLink F) (pt lo : Nat), LiveInv cid j s l → (∀ e ∈ evs, e ≠ .failBind cid ∧ e.isReload = false) →
      MonoFrom lo evs → TickGaps pt evs → (pt < l.lastAttemptMs + 5000 ∨ pt ≤ T0) →
      (∃ t, Ev.hk t ∈ evs ∧ t ≥ l.lastAttemptMs + 5000) →
      AnsweredLate D cid s evs → NoPendingAtTicks s evs →
      ∃ pre d data post, evs = pre ++ .uplink d cid data :: post ∧
        Codec.getPacketTypeS data = some 37378 ∧
        (d < l.lastAttemptMs + 5000 + 1100 + max D 1100 ∨ d ≤ T0 + 1100 + max D 1100) ∧
        ∃ l', (run s (pre ++ [.uplink d cid data])).links[j]? = some l' ∧
          l'.core.connected = true ∧ l'.core.window = 20000 ∧ l'.core.inFlight = 0 ∧ l'.core.log = [] ∧
          l'.queue = [] ∧ l'.core.phase = .warming 0 d := by
  induction evs with
  | nil => intro s l pt lo _ _ _ _ _ hex; obtain ⟨t, ht, -⟩ := hex; cases ht
  | cons e es ih =>
    intro s l pt lo hinv hne hm hg hpt hex hans hpend
    have hne' : ∀ e' ∈ es, e' ≠ .failBind cid ∧ e'.isReload = false := fun e' he' => hne e' (List.mem_cons_of_mem _ he')
    obtain ⟨hans0, hans'⟩ := hans
    obtain ⟨hpend0, hpend'⟩ := hpend
    obtain ⟨l1, hl1, hc⟩ := C08_aux_liveInv_step cid j s l e hinv (hne e (List.mem_cons_self)).1 (hne e (List.mem_cons_self)).2
    have hex_tail : (∀ t, e = .hk t → t < l.lastAttemptMs + 5000) →
        ∃ t, Ev.hk t ∈ es ∧ t ≥ l.lastAttemptMs + 5000 := by
      intro hnot
      obtain ⟨t, ht, hge⟩ := hex
      rcases List.mem_cons.1 ht with h0 | h0
      · have := hnot t h0.symm; omega
      · exact ⟨t, h0, hge⟩
    by_cases htick : ∃ t, e = .hk t
    · obtain ⟨t, rfl⟩ := htick
      simp only [MonoFrom, evClock, TickGaps] at hm hg
      have hto := C08_aux_down_timed_out l hinv.down t
      by_cases hsa : l.shouldAttemptReconnect t = true
      · have hready := (C08_aux_down_ready l hinv.down t).1 hsa
        have hinv1 : LiveInv cid j (step s (.hk t)).1 l1 := by
          rcases hc with ⟨h1, -⟩ | ⟨now, data, he, -⟩
          · exact h1
          · cases he
        have hwire : (cid, Codec.createReg2 s.reg.id) ∈ (step s (.hk t)).2.wire := by
          have := hk_wire_reg2 s t j l hinv.link (hpend0 t rfl) hinv.down.2.1 hto hsa
          rw [hinv.id] at this; exact this
        have hab : AnswerLate cid (t + D) es :=
          hans0 t rfl ⟨_, hwire, rfl, C08_aux_reg2_type _⟩
        obtain ⟨pre, d, data, post, e1, e2, e3, l', hl', hp⟩ :=
          C08_aux_answer_late cid j (t + D) es _ l1 hinv1 hne' hab
        refine ⟨.hk t :: pre, d, data, post, by rw [e1]; rfl, e2, ?_, l', hl', hp⟩
        omega
      · have hsa' : ¬ (l.lastAttemptMs = 0 ∨ t - l.lastAttemptMs ≥ 5000) :=
          fun hr => hsa ((C08_aux_down_ready l hinv.down t).2 hr)
        have hlt : t < l.lastAttemptMs + 5000 := by omega
        rcases hc with ⟨hinv1, hla | ⟨now, he, hsa2⟩⟩ | ⟨now, data, he, -⟩
        · obtain ⟨pre, d, data, post, e1, e2, e3, l', hl', hp⟩ :=
            ih _ l1 t t hinv1 hne' hm.2 hg.2 (Or.inl (by rw [hla]; exact hlt))
              (by rw [hla]; exact hex_tail (fun t' ht' => by cases ht'; exact hlt)) hans' hpend'
          rw [hla] at e3
          exact ⟨.hk t :: pre, d, data, post, by rw [e1]; rfl, e2, e3, l', hl', hp⟩
        · cases he; exact absurd hsa2 hsa
        · cases he
    · have hnt : ∀ t, e ≠ .hk t := fun t h => htick ⟨t, h⟩
      have hex' := hex_tail (fun t h => absurd h (hnt t))
      have hg' : TickGaps pt es := by
        cases e with
        | hk t => exact absurd rfl (hnt t)
        | _ => simpa only [TickGaps] using hg
      rcases hc with ⟨hinv1, hla | ⟨now, he, -⟩⟩ | ⟨now, data, he, hty, -⟩
      · have hm' : ∃ lo', MonoFrom lo' es := by
          cases e with
          | hk t => exact absurd rfl (hnt t)
          | client now pkt => simp only [MonoFrom, evClock] at hm; exact ⟨_, hm.2⟩
          | uplink now c data => simp only [MonoFrom, evClock] at hm; exact ⟨_, hm.2⟩
          | flush now => simp only [MonoFrom, evClock] at hm; exact ⟨_, hm.2⟩
          | setCfg cfg => simp only [MonoFrom, evClock] at hm; exact ⟨_, hm⟩
          | crit x => simp only [MonoFrom, evClock] at hm; exact ⟨_, hm⟩
          | failNext c => simp only [MonoFrom, evClock] at hm; exact ⟨_, hm⟩
          | failAfter c kfa => simp only [MonoFrom, evClock] at hm; exact ⟨_, hm⟩
          | failBind c => simp only [MonoFrom, evClock] at hm; exact ⟨_, hm⟩
          | syncTimeout => simp only [MonoFrom, evClock] at hm; exact ⟨_, hm⟩
          | stamp idx weak ld ccb cct => simp only [MonoFrom, evClock] at hm; exact ⟨_, hm⟩
          | reload rnow raddrs routs => simp only [MonoFrom, evClock] at hm; exact ⟨_, hm⟩
        obtain ⟨lo', hm'⟩ := hm'
        obtain ⟨pre, d, data, post, e1, e2, e3, l', hl', hp⟩ :=
          ih _ l1 pt lo' hinv1 hne' hm' hg' (by rw [hla]; exact hpt) (by rw [hla]; exact hex') hans' hpend'
        rw [hla] at e3
        exact ⟨e :: pre, d, data, post, by rw [e1]; rfl, e2, e3, l', hl', hp⟩
      · exact absurd he (hnt now)
      · subst he
        simp only [MonoFrom, evClock] at hm
        obtain ⟨t', ht', -⟩ := hex'
        have hd := C08_aux_clock_before_tick now pt es hm.2 hg' ⟨t', ht'⟩
        obtain ⟨l', hl', hp⟩ := C08_aux_rejoin cid j s l hinv now data hty
        refine ⟨[], now, data, es, rfl, hty, ?_, l', hl', hp⟩
        omega

/-- **Connected again (run level), the answer may come late.**  As `C08_reconnect_within_30s_sys`, with hypothesis
(ii) relaxed: every tick whose wire output contains a REG2 for this conn id is followed, at ANY later point of the
run — after further ticks, after further (fruitless) reconnect attempts of the same link, interleaved with anything —
by a REG3 for it processed within `D` ms of that tick.  Then the run has a prefix ending in a REG3 for this conn id,
processed at clock `d`, after which link `j` is connected with clean accounting, and
`d < last_attempt + 5000 + 1100 + max D 1100` (or `d ≤ t0 + 1100 + max D 1100` when the back-off had already expired
at the reference time).  With any `D ≤ 23900` this is inside the property's 30 s.

Why it holds: the REG3 arm is unconditional (`C08_reg3_applies`), and every event that is not that REG3 — a further
attempt included — leaves the link down with the invariant intact (`C08_aux_liveInv_step`). -/
theorem C08_reconnect_within_30s_sys_late_answer (s : Sys F) (j : Nat) (l : FLink F) (evs : List Ev) (t0 D : Nat)
    (hl : s.links[j]? = some l) (hd : Down l) (hinv : RejoinInv s)
    (hidx : s.links.findIdx? (·.core.connId == l.core.connId) = some j)
    (hmono : MonoFrom t0 evs) (hgaps : TickGaps t0 evs)
    (hlong : ∃ t, Ev.hk t ∈ evs ∧ t ≥ l.lastAttemptMs + 5000)
    (hans : AnsweredLate D l.core.connId s evs)
    (hfb : l.core.connId ∉ s.failBind) (hnofb : ∀ e ∈ evs, e ≠ .failBind l.core.connId ∧ e.isReload = false)
    (hpend : NoPendingAtTicks s evs) :
    ∃ pre d data post, evs = pre ++ .uplink d l.core.connId data :: post ∧
      Codec.getPacketTypeS data = some 37378 ∧
      (d < l.lastAttemptMs + 5000 + 1100 + max D 1100 ∨ d ≤ t0 + 1100 + max D 1100) ∧
      ∃ l', (run s (pre ++ [.uplink d l.core.connId data])).links[j]? = some l' ∧
        l'.core.connected = true ∧ l'.core.window = 20000 ∧ l'.core.inFlight = 0 ∧ l'.core.log = [] ∧
        l'.queue = [] ∧ l'.core.phase = .warming 0 d :=
  C08_aux_live_late l.core.connId j t0 D evs s l t0 t0 ⟨hl, hd, rfl, hinv, hidx, hfb⟩ hnofb hmono hgaps
    (Or.inr (Nat.le_refl _)) hlong hans hpend

/-- Executable form of `AnswerLate` / `AnsweredLate` (to check the relaxed hypothesis on literal runs). -/
def answerLateB (cid dl : Nat) : List Ev → Bool
  | [] => false
  | .uplink d c data :: es =>
    if isReg3For cid (.uplink d c data) then decide (d ≤ dl) else answerLateB cid dl es
  | _ :: es => answerLateB cid dl es

theorem C08_aux_answerLateB (cid dl : Nat) (es : List Ev) (h : answerLateB cid dl es = true) :
    AnswerLate cid dl es := by
  induction es with
  | nil => simp [answerLateB] at h
  | cons e es ih =>
    cases e with
    | uplink d c data =>
      simp only [answerLateB] at h
      simp only [AnswerLate]
      split
      · rename_i hc; rw [if_pos hc] at h; exact of_decide_eq_true h
      · rename_i hc; rw [if_neg hc] at h; exact ih h
    | hk t => exact ih (by simpa only [answerLateB] using h)
    | client now pkt => exact ih (by simpa only [answerLateB] using h)
    | flush now => exact ih (by simpa only [answerLateB] using h)
    | setCfg cfg => exact ih (by simpa only [answerLateB] using h)
    | crit d => exact ih (by simpa only [answerLateB] using h)
    | failNext c => exact ih (by simpa only [answerLateB] using h)
    | failAfter c kfa => exact ih (by simpa only [answerLateB] using h)
    | failBind c => exact ih (by simpa only [answerLateB] using h)
    | syncTimeout => exact ih (by simpa only [answerLateB] using h)
    | stamp idx weak ld ccb cct => exact ih (by simpa only [answerLateB] using h)
    | reload rnow raddrs routs => exact ih (by simpa only [answerLateB] using h)

def answeredLateB (D cid : Nat) : Sys F → List Ev → Bool
  | _, [] => true
  | s, e :: es =>
    (match e with
      | .hk t => !((step s e).2.wire.any fun p => p.1 == cid && Codec.getPacketTypeS p.2 == some 37377) ||
          answerLateB cid (t + D) es
      | _ => true) && answeredLateB D cid (step s e).1 es

theorem C08_aux_answeredLateB (D cid : Nat) (evs : List Ev) :
    ∀ s : Sys F, answeredLateB D cid s evs = true → AnsweredLate D cid s evs := by
  induction evs with
  | nil => intro s _; trivial
  | cons e es ih =>
    intro s h
    simp only [answeredLateB, Bool.and_eq_true] at h
    refine ⟨fun t he hw => ?_, ih _ h.2⟩
    subst he
    have h1 := h.1
    simp only [Bool.or_eq_true, Bool.not_eq_true'] at h1
    rcases h1 with h1 | h1
    · obtain ⟨p, hp, hp1, hp2⟩ := hw
      have : ((step s (.hk t)).2.wire.any fun p => p.1 == cid && Codec.getPacketTypeS p.2 == some 37377) = true :=
        List.any_eq_true.2 ⟨p, hp, by simp [hp1, hp2]⟩
      rw [this] at h1; cases h1
    · exact C08_aux_answerLateB cid _ es h1

/-- Executable form of "no event of the run is an uplink datagram of type REG_NGP (0x9211 = 37393)". -/
def noNgpB (evs : List Ev) : Bool :=
  evs.all fun e => match e with
    | .uplink _ _ data => Codec.getPacketTypeS data != some 37393
    | _ => true

theorem C08_aux_noNgpB (evs : List Ev) (h : noNgpB evs = true) :
    ∀ e ∈ evs, ∀ now cid data, e = .uplink now cid data → Codec.getPacketTypeS data ≠ some 37393 := by
  intro e he now cid data heq
  subst heq
  have := List.all_eq_true.1 h _ he
  simpa using this

/-- Non-vacuity of the late-answer theorem on `exSys` (link 1 = `exDown`, conn id 7, last attempt at 2000): the
attempt tick is 7900 (REG2 on the wire); the REG3 comes only at 11500 — THREE ticks later (8900, 9900, 10900 make no
new attempt: 5000 ms back-off from 7900; keepalive answers at 6200 and 10000 keep the survivor, link 0, alive) — with
`D = 4000`.  The old hypothesis (ii) FAILS on this run (no REG3
before the tick at 8900); the relaxed one holds and the theorem yields the re-join at 11500
`< 2000 + 5000 + 1100 + 4000`. -/
def exLateRun : List Ev :=
  [.client 6100 [0x80, 0x02, 0, 0, 0, 0, 0, 0], .uplink 6200 5 [0x90, 0x00], .syncTimeout, .hk 6900, .syncTimeout,
   .hk 7900, .uplink 7950 7 [0x90, 0x00], .syncTimeout, .hk 8900, .flush 8910, .syncTimeout, .hk 9900,
   .uplink 10000 5 [0x90, 0x00], .syncTimeout, .hk 10900, .uplink 11500 7 [0x92, 0x02], .syncTimeout, .hk 11900]

example :
    ∃ pre d data post, exLateRun = pre ++ .uplink d 7 data :: post ∧
      Codec.getPacketTypeS data = some 37378 ∧
      (d < 2000 + 5000 + 1100 + max 4000 1100 ∨ d ≤ 6000 + 1100 + max 4000 1100) ∧
      ∃ l', (run exSys (pre ++ [.uplink d 7 data])).links[1]? = some l' ∧
        l'.core.connected = true ∧ l'.core.window = 20000 ∧ l'.core.inFlight = 0 ∧ l'.core.log = [] ∧
        l'.queue = [] ∧ l'.core.phase = .warming 0 d :=
  C08_reconnect_within_30s_sys_late_answer exSys 1 exDown exLateRun 6000 4000 rfl ⟨rfl, by decide, rfl⟩
    C08_aux_exSys_inv (by decide) (by simp [exLateRun, MonoFrom, evClock]) (by simp [exLateRun, TickGaps])
    ⟨7900, by simp [exLateRun], by decide⟩
    (C08_aux_answeredLateB 4000 7 exLateRun exSys (by decide +kernel))
    (by decide) (by simp [exLateRun, Ev.isReload])
    (C08_aux_noPending_of_idle exLateRun exSys ⟨rfl, rfl, by decide⟩ (C08_aux_noNgpB exLateRun (by decide)))


/-- … the old hypothesis (ii) really fails on that run, and the link is connected exactly from the REG3 at 11500
(prefix of 16 events; the survivor's window moves by time-based recovery meanwhile) on. -/
example :
    answeredB 7 exSys exLateRun = false ∧ answeredLateB 4000 7 exSys exLateRun = true ∧
    ((run exSys (exLateRun.take 16)).links.map fun l => (l.core.connected, l.core.window, l.lastAttemptMs)) =
      [(true, 23180, 0), (true, 20000, 7900)] ∧
    ((run exSys (exLateRun.take 15)).links.map fun l => (l.core.connected, l.lastAttemptMs)) =
      [(true, 0), (false, 7900)] := by
  decide +kernel

/-! ## 12. Audit round 2 (b): the FIRST registration of a link

`C08_reconnect_within_30s_sys` is about a link that WAS established (`Down`: `connection_established_ms ≠ 0`).  A
link that has never been registered — black-holed from start-up, repaired later, in a group that registered over
its other links — follows a different cadence (`should_attempt_reconnect`, first branch): an attempt is made when
the start-up grace has run out (`now > startup_grace_deadline_ms`) and the last attempt is at least 1000 ms old;
each attempt whose socket re-creation succeeds re-arms the 5000 ms grace (`reset_startup_grace`), so in practice
the attempts of a silent link are `5000 ms + one tick` apart.  The attempt re-sends REG2 with the group id exactly
like a re-join; the REG3 answer connects the link (`C08_first_join`). -/

/-- A never-registered link of a registered group: not connected, `connection_established_ms = 0`, `Registering`,
clean accounting (a `new_registering` link has it; every reconnect attempt and every tear-down restores it:
`C08_teardown_is_clean`). -/
def Fresh (l : FLink F) : Prop :=
  l.core.connected = false ∧ l.established = 0 ∧ l.core.phase = .registering ∧ Clean l

/-- **The cadence of a never-registered link**: a tick at `t` attempts it (timed out AND attempt due) iff the
start-up grace is over and the last attempt, if any, is at least 1000 ms old. -/
theorem C08_first_registration_cadence (l : FLink F) (h : Fresh l) (t : Nat) :
    (l.isTimedOut t = true ∧ l.shouldAttemptReconnect t = true) ↔
      (t > l.graceDeadline ∧ (l.lastAttemptMs = 0 ∨ t ≥ l.lastAttemptMs + 1000)) := by
  obtain ⟨h1, h2, -, -⟩ := h
  have hI := Lit.INITIAL_RETRY_MS_eq
  rw [C08_timed_out_disconnected l t h1]
  constructor
  · rintro ⟨-, hs⟩
    rcases shouldAttempt_true l t hs with ⟨-, hg, ha⟩ | ⟨he, -⟩
    · exact ⟨hg, ha.imp id (by omega)⟩
    · exact absurd h2 he
  · rintro ⟨hg, ha⟩
    refine ⟨fun hh => by omega, ?_⟩
    unfold FLink.shouldAttemptReconnect
    rw [if_pos (by simpa using h2), if_neg (by omega)]
    split
    · rfl
    · rename_i hl
      have : l.lastAttemptMs ≠ 0 := by simpa using hl
      exact decide_eq_true (by omega)

/-- After an attempt at `a` whose socket re-creation succeeded, the next one comes strictly after `a + 5000`. -/
example : Fresh (withSent (reconnectLink exLink 6000) none) ∧
    (withSent (reconnectLink exLink 6000) none).graceDeadline = 11000 ∧
    (withSent (reconnectLink exLink 6000) none).shouldAttemptReconnect 11000 = false ∧
    (withSent (reconnectLink exLink 6000) none).shouldAttemptReconnect 11001 = true ∧
    exLink.shouldAttemptReconnect 5000 = false ∧ exLink.shouldAttemptReconnect 5001 = true := by
  refine ⟨⟨rfl, rfl, rfl, (C08_clean_def _).2 (by decide)⟩, by decide, by decide, by decide, by decide, by decide⟩

/-- What the walk maintains about a never-registered link `j` (conn id `cid`) until it joins: the group is
registered (`has_connected`) and its manager at rest (`RegIdle`: no REG2 wait, no REG1 target, probing over). -/
structure FreshInv (cid j : Nat) (s : Sys F) (l : FLink F) : Prop where
  link : s.links[j]? = some l
  fresh : Fresh l
  id : l.core.connId = cid
  idx : s.links.findIdx? (·.core.connId == cid) = some j
  nofb : cid ∉ s.failBind
  idle : RegIdle s.reg
  hc : s.reg.hasConnected = true

/-- One event from a `FreshInv` state, unless it injects a bind failure for `cid` or is a REG_NGP datagram: link `j`
is still fresh with the invariant intact — attempt stamp unchanged and grace deadline unchanged or zeroed (a
tear-down), or the event was a tick that attempted it (stamp = tick, grace = tick + 5000) —, or the event was a REG3
for `cid`, which leaves `reg3Link`. -/
theorem C08_aux_freshInv_step (cid j : Nat) (s : Sys F) (l : FLink F) (e : Ev) (h : FreshInv cid j s l)
    (he : e ≠ .failBind cid) (hnr : e.isReload = false)
    (hngp : ∀ now c data, e = .uplink now c data → Codec.getPacketTypeS data ≠ some 37393) :
    ∃ l1, (step s e).1.links[j]? = some l1 ∧
      ((FreshInv cid j (step s e).1 l1 ∧
          ((l1.lastAttemptMs = l.lastAttemptMs ∧ (l1.graceDeadline = l.graceDeadline ∨ l1.graceDeadline = 0) ∧
              ∀ now, e = .hk now → ¬ (l.isTimedOut now = true ∧ l.shouldAttemptReconnect now = true)) ∨
           (∃ now, e = .hk now ∧ l.isTimedOut now = true ∧ l.shouldAttemptReconnect now = true ∧
              l1.lastAttemptMs = now ∧ l1.graceDeadline = now + 5000))) ∨
       (∃ now data, e = .uplink now cid data ∧ Codec.getPacketTypeS data = some 37378 ∧ l1 = reg3Link l now)) := by
  have hnofb : cid ∉ (step s e).1.failBind := by
    intro hm
    rcases step_failBind_mem s e cid hm with h1 | h1
    · exact h.nofb h1
    · exact he h1
  have hidx : (step s e).1.links.findIdx? (·.core.connId == cid) = some j := by
    rw [step_findIdx _ _ hnr]; exact h.idx
  have hidle : RegIdle (step s e).1.reg := step_reg_idle s e h.idle hngp
  have hhc : (step s e).1.reg.hasConnected = true := (step_link s e hnr).2.2 h.hc
  obtain ⟨d1, d2, d3, d4⟩ := h.fresh
  by_cases htick : ∃ now, e = .hk now
  · -- a tick: exact, by `hkDue`
    obtain ⟨now, rfl⟩ := htick
    have hdue := Audit2B.hkDue_idle s now j l h.idle
    cases hd : Audit2B.hkDue s now j l with
    | true =>
      obtain ⟨hto, hsa⟩ := hdue.1 hd
      obtain ⟨t, ht⟩ := Audit2B.hk_due_link s now j l h.link hd
      have hff : hkFails s now j l.core.connId = false := hkFails_false s now j _ (by rw [h.id]; exact h.nofb)
      rw [hff] at ht
      refine ⟨_, ht, Or.inl ⟨?_, Or.inr ⟨now, rfl, hto, hsa, ?_, ?_⟩⟩⟩
      · obtain ⟨-, -, f3, -, f5, f6, -, -, -, f10⟩ := reconnectLink_fields l now
        exact ⟨ht, ⟨f10.connected, f3.trans d2, f6, ⟨f10.window, f10.log, f10.queue, f10.inFlight, f10.connected⟩⟩,
          f5.trans h.id, hidx, hnofb, hidle, hhc⟩
      · exact (reconnectLink_fields l now).1
      · exact (reconnectLink_fields l now).2.2.2.1
    | false =>
      obtain ⟨l1, hl1, hev, hg⟩ := Audit2B.hk_not_due_grace s now j l h.link hd
      rw [Audit2B.graceFix_idle s now j l h.idle] at hg
      refine ⟨l1, hl1, Or.inl ⟨?_, Or.inl ⟨hev.lastAttempt, Or.inl hg, ?_⟩⟩⟩
      · exact ⟨hl1, ⟨hev.connected.trans d1, hev.established.trans d2, hev.phaseReg.mpr d3,
          hev.clean h.hc d3 d4⟩, hev.connId.trans h.id, hidx, hnofb, hidle, hhc⟩
      · intro now' he' hh
        cases he'
        rw [hdue.2 hh] at hd
        cases hd
  · -- not a tick: `LinkStep` for the flags, `step_grace_nonhk` for the grace deadline
    have hnt : ∀ now, e ≠ .hk now := fun now hh => htick ⟨now, hh⟩
    obtain ⟨l1, hl1, hs⟩ := (step_link s e hnr).1 j l h.link
    obtain ⟨l1', hl1', hg⟩ := Audit2B.step_grace_nonhk s e j l h.link hnt hnr
    rw [hl1] at hl1'
    cases hl1'
    refine ⟨l1, hl1, ?_⟩
    have mk : l1.core.connected = false → l1.established = 0 → l1.core.phase = .registering → Clean l1 →
        l1.core.connId = l.core.connId → FreshInv cid j (step s e).1 l1 :=
      fun a b c d f => ⟨hl1, ⟨a, b, c, d⟩, f.trans h.id, hidx, hnofb, hidle, hhc⟩
    have nohk : ∀ now, e = .hk now → ¬ (l.isTimedOut now = true ∧ l.shouldAttemptReconnect now = true) :=
      fun now hh => absurd hh (hnt now)
    cases hs with
    | evolves cto _ hev =>
      exact Or.inl ⟨mk (hev.connected.trans d1) (hev.established.trans d2) (hev.phaseReg.mpr d3)
        (hev.clean h.hc d3 d4) hev.connId, Or.inl ⟨hev.lastAttempt, hg, nohk⟩⟩
    | sendFail now pkt _ ht _ =>
      exact Or.inl ⟨mk ht.clean.connected (ht.established.trans d2) ht.phase ht.clean ht.connId,
        Or.inl ⟨ht.lastAttempt, hg, nohk⟩⟩
    | reg3 now c data hev hidx' hty hl3 _ =>
      right
      have hc : c = cid := by
        have := findIdx_hit s.links c j l hidx' h.link
        rw [← this]; exact h.id
      subst hc
      exact ⟨now, data, hev, (regEvent_of_type s.reg j data now).2.mp hty, hl3⟩
    | regErr now c data _ _ _ hlE =>
      subst hlE
      exact Or.inl ⟨mk rfl d2 rfl (clean_markForRecovery l) rfl, Or.inl ⟨rfl, hg, nohk⟩⟩
    | attempt now hev => exact absurd hev (hnt now)
    | attemptFailed now hev => exact absurd hev (hnt now)

/-- A REG3 for `cid` processed in a `FreshInv` state joins link `j`: connected, window 20000, nothing in flight,
logged or queued, `Warming{0, d}`, first-establishment stamp `d`. -/
theorem C08_aux_first_join (cid j : Nat) (s : Sys F) (l : FLink F) (h : FreshInv cid j s l) (d : Nat)
    (data : Sys.Bytes) (hty : Codec.getPacketTypeS data = some 37378) :
    ∃ l', (step s (.uplink d cid data)).1.links[j]? = some l' ∧
      l'.core.connected = true ∧ l'.core.window = 20000 ∧ l'.core.inFlight = 0 ∧ l'.core.log = [] ∧
      l'.queue = [] ∧ l'.core.phase = .warming 0 d ∧ l'.established = d := by
  obtain ⟨-, d2, -, hcl⟩ := h.fresh
  obtain ⟨h1, -⟩ := C08_reg3_applies s d cid data j l h.link h.idx (C08_aux_type_nonempty data _ hty) hty
  obtain ⟨r1, r2, r3, r4, r5, -, -, -, r9, r10⟩ := C08_reg3_link l d
  exact ⟨_, h1, r1, r10.trans hcl.window, r3, r4, r5, r2, by rw [r9, if_pos d2]⟩

/-- The answer phase for a never-registered link (late form): from a `FreshInv` state, the first REG3 for `cid`
anywhere later in the run joins link `j`. -/
theorem C08_aux_first_answer (cid j dl : Nat) (evs : List Ev) :
    ∀ (s : Sys F) (l : FLink F), FreshInv cid j s l → (∀ e ∈ evs, e ≠ .failBind cid ∧ e.isReload = false) →
      (∀ e ∈ evs, ∀ now c data, e = .uplink now c data → Codec.getPacketTypeS data ≠ some 37393) →
      AnswerLate cid dl evs →
      ∃ pre d data post, evs = pre ++ .uplink d cid data :: post ∧
        Codec.getPacketTypeS data = some 37378 ∧ d ≤ dl ∧
        ∃ l', (run s (pre ++ [.uplink d cid data])).links[j]? = some l' ∧
          l'.core.connected = true ∧ l'.core.window = 20000 ∧ l'.core.inFlight = 0 ∧ l'.core.log = [] ∧
          l'.queue = [] ∧ l'.core.phase = .warming 0 d ∧ l'.established = d := by
  induction evs with
  | nil => intro s l _ _ _ ha; exact absurd ha (by simp [AnswerLate])
  | cons e es ih =>
    intro s l hinv hne hng ha
    have hne' : ∀ e' ∈ es, e' ≠ .failBind cid ∧ e'.isReload = false := fun e' he' => hne e' (List.mem_cons_of_mem _ he')
    have hng' : ∀ e' ∈ es, ∀ now c data, e' = .uplink now c data → Codec.getPacketTypeS data ≠ some 37393 :=
      fun e' he' => hng e' (List.mem_cons_of_mem _ he')
    by_cases hr : isReg3For cid e = true
    · cases e with
      | uplink d c data =>
        simp only [isReg3For, Bool.and_eq_true, beq_iff_eq] at hr
        obtain ⟨hc, hty⟩ := hr
        subst hc
        have hd : d ≤ dl := by
          have : isReg3For c (.uplink d c data) = true := by simp [isReg3For, hty]
          simp only [AnswerLate, this, if_true] at ha
          exact ha
        obtain ⟨l', hl', hp⟩ := C08_aux_first_join c j s l hinv d data hty
        exact ⟨[], d, data, es, rfl, hty, hd, l', hl', hp⟩
      | _ => simp [isReg3For] at hr
    · have hr' : isReg3For cid e = false := by simpa using hr
      have ha' : AnswerLate cid dl es := by
        cases e with
        | hk t => simpa only [AnswerLate] using ha
        | uplink d c data => simpa only [AnswerLate, hr', Bool.false_eq_true, if_false] using ha
        | client now pkt => simpa only [AnswerLate] using ha
        | flush now => simpa only [AnswerLate] using ha
        | setCfg cfg => simpa only [AnswerLate] using ha
        | crit d => simpa only [AnswerLate] using ha
        | failNext c => simpa only [AnswerLate] using ha
        | failAfter c kfa => simpa only [AnswerLate] using ha
        | failBind c => simpa only [AnswerLate] using ha
        | syncTimeout => simpa only [AnswerLate] using ha
        | stamp idx weak ld ccb cct => simpa only [AnswerLate] using ha
        | reload rnow raddrs routs => simpa only [AnswerLate] using ha
      obtain ⟨l1, hl1, hc⟩ := C08_aux_freshInv_step cid j s l e hinv (hne e (List.mem_cons_self)).1 (hne e (List.mem_cons_self)).2
        (hng e List.mem_cons_self)
      rcases hc with ⟨hinv1, -⟩ | ⟨now, data, he, hty, -⟩
      · obtain ⟨pre, d, data, post, e1, e2, e3, l', hl', hp⟩ := ih _ l1 hinv1 hne' hng' ha'
        exact ⟨e :: pre, d, data, post, by rw [e1]; rfl, e2, e3, l', hl', hp⟩
      · rw [he] at hr'
        simp [isReg3For, hty] at hr'

/-- The walk for a never-registered link.  `B` bounds the time at which an attempt becomes due: the grace deadline is
below `B` and the last attempt, if any, is at least 1000 ms before `B` — both stay so along the walk (the grace
deadline is only ever zeroed; the stamp moves only by an attempt). -/
theorem C08_aux_first_live (cid j T0 D B : Nat) (evs : List Ev) :
    ∀ (s : Sys F) (l : FLink F) (pt lo : Nat), FreshInv cid j s l → (∀ e ∈ evs, e ≠ .failBind cid ∧ e.isReload = false) →
      (∀ e ∈ evs, ∀ now c data, e = .uplink now c data → Codec.getPacketTypeS data ≠ some 37393) →
      MonoFrom lo evs → TickGaps pt evs → (pt < B ∨ pt ≤ T0) →
      l.graceDeadline < B → (l.lastAttemptMs = 0 ∨ l.lastAttemptMs + 1000 ≤ B) →
      (∃ t, Ev.hk t ∈ evs ∧ t ≥ B) →
      AnsweredLate D cid s evs →
      ∃ pre d data post, evs = pre ++ .uplink d cid data :: post ∧
        Codec.getPacketTypeS data = some 37378 ∧
        (d < B + 1100 + max D 1100 ∨ d ≤ T0 + 1100 + max D 1100) ∧
        ∃ l', (run s (pre ++ [.uplink d cid data])).links[j]? = some l' ∧
          l'.core.connected = true ∧ l'.core.window = 20000 ∧ l'.core.inFlight = 0 ∧ l'.core.log = [] ∧
          l'.queue = [] ∧ l'.core.phase = .warming 0 d ∧ l'.established = d := by
  induction evs with
  | nil => intro s l pt lo _ _ _ _ _ _ _ _ hex; obtain ⟨t, ht, -⟩ := hex; cases ht
  | cons e es ih =>
    intro s l pt lo hinv hne hng hm hg hpt hG hA hex hans
    have hne' : ∀ e' ∈ es, e' ≠ .failBind cid ∧ e'.isReload = false := fun e' he' => hne e' (List.mem_cons_of_mem _ he')
    have hng' : ∀ e' ∈ es, ∀ now c data, e' = .uplink now c data → Codec.getPacketTypeS data ≠ some 37393 :=
      fun e' he' => hng e' (List.mem_cons_of_mem _ he')
    obtain ⟨hans0, hans'⟩ := hans
    obtain ⟨l1, hl1, hc⟩ := C08_aux_freshInv_step cid j s l e hinv (hne e (List.mem_cons_self)).1 (hne e (List.mem_cons_self)).2
      (hng e List.mem_cons_self)
    have hex_tail : (∀ t, e = .hk t → t < B) → ∃ t, Ev.hk t ∈ es ∧ t ≥ B := by
      intro hnot
      obtain ⟨t, ht, hge⟩ := hex
      rcases List.mem_cons.1 ht with h0 | h0
      · have := hnot t h0.symm; omega
      · exact ⟨t, h0, hge⟩
    by_cases htick : ∃ t, e = .hk t
    · obtain ⟨t, rfl⟩ := htick
      simp only [MonoFrom, evClock, TickGaps] at hm hg
      rcases hc with ⟨hinv1, ⟨hla, hgr, hnot⟩ | ⟨now, he, hto, hsa, -, -⟩⟩ | ⟨now, data, he, -⟩
      · -- not due: `t < B`
        have hnd := hnot t rfl
        rw [C08_first_registration_cadence l hinv.fresh t] at hnd
        have hlt : t < B := by
          by_cases h1 : t > l.graceDeadline
          · have : ¬ (l.lastAttemptMs = 0 ∨ t ≥ l.lastAttemptMs + 1000) := fun h2 => hnd ⟨h1, h2⟩
            omega
          · omega
        obtain ⟨pre, d, data, post, e1, e2, e3, hp⟩ :=
          ih _ l1 t t hinv1 hne' hng' hm.2 hg.2 (Or.inl hlt) (by rcases hgr with h | h <;> omega)
            (by rw [hla]; exact hA) (hex_tail (fun t' ht' => by cases ht'; exact hlt)) hans'
        exact ⟨.hk t :: pre, d, data, post, by rw [e1]; rfl, e2, e3, hp⟩
      · -- the attempt tick: REG2 on the wire, answered
        cases he
        have hd : Audit2B.hkDue s t j l = true := (Audit2B.hkDue_idle s t j l hinv.idle).2 ⟨hto, hsa⟩
        have hwire : (cid, Codec.createReg2 s.reg.id) ∈ (step s (.hk t)).2.wire := by
          have := Audit2B.hk_wire_reg2_due s t j l hinv.link hinv.idle.1 hd
          rw [hinv.id] at this; exact this
        have hab : AnswerLate cid (t + D) es := hans0 t rfl ⟨_, hwire, rfl, C08_aux_reg2_type _⟩
        obtain ⟨pre, d, data, post, e1, e2, e3, hp⟩ :=
          C08_aux_first_answer cid j (t + D) es _ l1 hinv1 hne' hng' hab
        refine ⟨.hk t :: pre, d, data, post, by rw [e1]; rfl, e2, ?_, hp⟩
        omega
      · cases he
    · have hnt : ∀ t, e ≠ .hk t := fun t h => htick ⟨t, h⟩
      have hex' := hex_tail (fun t h => absurd h (hnt t))
      have hg' : TickGaps pt es := by
        cases e with
        | hk t => exact absurd rfl (hnt t)
        | _ => simpa only [TickGaps] using hg
      rcases hc with ⟨hinv1, ⟨hla, hgr, -⟩ | ⟨now, he, -⟩⟩ | ⟨now, data, he, hty, -⟩
      · have hm' : ∃ lo', MonoFrom lo' es := by
          cases e with
          | hk t => exact absurd rfl (hnt t)
          | client now pkt => simp only [MonoFrom, evClock] at hm; exact ⟨_, hm.2⟩
          | uplink now c data => simp only [MonoFrom, evClock] at hm; exact ⟨_, hm.2⟩
          | flush now => simp only [MonoFrom, evClock] at hm; exact ⟨_, hm.2⟩
          | setCfg cfg => simp only [MonoFrom, evClock] at hm; exact ⟨_, hm⟩
          | crit x => simp only [MonoFrom, evClock] at hm; exact ⟨_, hm⟩
          | failNext c => simp only [MonoFrom, evClock] at hm; exact ⟨_, hm⟩
          | failAfter c kfa => simp only [MonoFrom, evClock] at hm; exact ⟨_, hm⟩
          | failBind c => simp only [MonoFrom, evClock] at hm; exact ⟨_, hm⟩
          | syncTimeout => simp only [MonoFrom, evClock] at hm; exact ⟨_, hm⟩
          | stamp idx weak ld ccb cct => simp only [MonoFrom, evClock] at hm; exact ⟨_, hm⟩
          | reload rnow raddrs routs => simp only [MonoFrom, evClock] at hm; exact ⟨_, hm⟩
        obtain ⟨lo', hm'⟩ := hm'
        obtain ⟨pre, d, data, post, e1, e2, e3, hp⟩ :=
          ih _ l1 pt lo' hinv1 hne' hng' hm' hg' hpt (by rcases hgr with h | h <;> omega)
            (by rw [hla]; exact hA) hex' hans'
        exact ⟨e :: pre, d, data, post, by rw [e1]; rfl, e2, e3, hp⟩
      · exact absurd he (hnt now)
      · -- a REG3 for `cid` before the attempt (answering an earlier REG2): the link joins here
        subst he
        simp only [MonoFrom, evClock] at hm
        obtain ⟨t', ht', -⟩ := hex'
        have hd := C08_aux_clock_before_tick now pt es hm.2 hg' ⟨t', ht'⟩
        obtain ⟨l', hl', hp⟩ := C08_aux_first_join cid j s l hinv now data hty
        refine ⟨[], now, data, es, rfl, hty, ?_, l', hl', hp⟩
        omega

/-- **First registration (run level).**  State `s` of the shell, link `j` with record `l`:
* `l` is `Fresh` — never established, not connected, `Registering`, clean accounting — in a REGISTERED group
  (`has_connected`) whose registration manager is at rest (`RegIdle`: no uplink awaiting REG2, no REG1 target, probing
  over); uplink datagrams for its conn id are dispatched to index `j`;
* `evs` is ANY run of the shell in which (i) event clocks never go back, housekeeping ticks are at most 1100 ms apart
  (first tick at most 1100 ms after the reference time `t0`) and go on until the attempt is due — some tick at or
  after `B := max (grace_deadline + 1) (last_attempt + 1000)` (`last_attempt + 1000` only if there was an attempt); (ii)
  every tick whose wire output contains a REG2 for this conn id is followed, at any later point of the run, by a REG3
  for it processed within `D` ms (the relaxed form of section 11); (iii) no bind failure is injected for this conn id;
  (iv) no REG_NGP datagram (the receiver has not forgotten the group).  Everything else is arbitrary and interleaved:
  client datagrams, datagrams of every other type on every link including `j` (a REG_ERR on `j` only zeroes its grace
  deadline and makes the attempt due EARLIER), flush ticks, configuration changes, stamps, faults on other links.

Then the run has a prefix ending in a REG3 for this conn id, processed at clock `d`, after which link `j` is
connected with window 20000, in-flight 0, empty packet log and batch queue, phase `Warming{0, d}` and
first-establishment stamp `d`; and `d < B + 1100 + max D 1100` — or `d ≤ t0 + 1100 + max D 1100` when the attempt was
already due at the reference time.  For a link whose last attempt (at `a`, socket re-created) re-armed the grace,
`B = a + 5001`: connected less than `5001 + 1100 + 1100` ms after that attempt when the receiver answers within a
tick — `C08_first_registration_live_sys_bound`. -/
theorem C08_first_registration_live_sys (s : Sys F) (j : Nat) (l : FLink F) (evs : List Ev) (t0 D : Nat)
    (hl : s.links[j]? = some l) (hf : Fresh l) (hhc : s.reg.hasConnected = true) (hidle : RegIdle s.reg)
    (hidx : s.links.findIdx? (·.core.connId == l.core.connId) = some j)
    (hmono : MonoFrom t0 evs) (hgaps : TickGaps t0 evs)
    (hlong : ∃ t, Ev.hk t ∈ evs ∧ t > l.graceDeadline ∧ (l.lastAttemptMs = 0 ∨ t ≥ l.lastAttemptMs + 1000))
    (hans : AnsweredLate D l.core.connId s evs)
    (hfb : l.core.connId ∉ s.failBind) (hnofb : ∀ e ∈ evs, e ≠ .failBind l.core.connId ∧ e.isReload = false)
    (hngp : ∀ e ∈ evs, ∀ now cid data, e = .uplink now cid data → Codec.getPacketTypeS data ≠ some 37393) :
    ∃ pre d data post, evs = pre ++ .uplink d l.core.connId data :: post ∧
      Codec.getPacketTypeS data = some 37378 ∧
      (d < max (l.graceDeadline + 1) (if l.lastAttemptMs = 0 then 0 else l.lastAttemptMs + 1000) + 1100 + max D 1100 ∨
        d ≤ t0 + 1100 + max D 1100) ∧
      ∃ l', (run s (pre ++ [.uplink d l.core.connId data])).links[j]? = some l' ∧
        l'.core.connected = true ∧ l'.core.window = 20000 ∧ l'.core.inFlight = 0 ∧ l'.core.log = [] ∧
        l'.queue = [] ∧ l'.core.phase = .warming 0 d ∧ l'.established = d := by
  obtain ⟨t, ht, hg, ha⟩ := hlong
  refine C08_aux_first_live l.core.connId j t0 D
    (max (l.graceDeadline + 1) (if l.lastAttemptMs = 0 then 0 else l.lastAttemptMs + 1000)) evs s l t0 t0
    ⟨hl, hf, rfl, hidx, hfb, hidle, hhc⟩ hnofb hngp hmono hgaps (Or.inr (Nat.le_refl _)) (by omega) ?_
    ⟨t, ht, ?_⟩ hans
  · by_cases h0 : l.lastAttemptMs = 0
    · exact Or.inl h0
    · right; rw [if_neg h0]; omega
  · by_cases h0 : l.lastAttemptMs = 0
    · rw [if_pos h0]; omega
    · rw [if_neg h0]
      rcases ha with h | h
      · exact absurd h h0
      · omega

/-- The bound in plain numbers for the common case: the link's last attempt, at `a`, re-armed the grace
(`grace_deadline = a + 5000`, as every attempt with a successful socket re-creation leaves it), the watch starts before
that grace is over, and the receiver answers within a tick (`D = 1100`): connected less than
`5000 + 1 + 1100 + 1100` ms after that attempt — well inside the property's 30 s. -/
theorem C08_first_registration_live_sys_bound (s : Sys F) (j : Nat) (l : FLink F) (evs : List Ev) (t0 : Nat)
    (hl : s.links[j]? = some l) (hf : Fresh l) (hhc : s.reg.hasConnected = true) (hidle : RegIdle s.reg)
    (hidx : s.links.findIdx? (·.core.connId == l.core.connId) = some j)
    (hgrace : l.graceDeadline = l.lastAttemptMs + 5000) (ht0 : t0 ≤ l.lastAttemptMs + 5000)
    (hmono : MonoFrom t0 evs) (hgaps : TickGaps t0 evs)
    (hlong : ∃ t, Ev.hk t ∈ evs ∧ t > l.lastAttemptMs + 5000)
    (hans : AnsweredLate 1100 l.core.connId s evs)
    (hfb : l.core.connId ∉ s.failBind) (hnofb : ∀ e ∈ evs, e ≠ .failBind l.core.connId ∧ e.isReload = false)
    (hngp : ∀ e ∈ evs, ∀ now cid data, e = .uplink now cid data → Codec.getPacketTypeS data ≠ some 37393) :
    ∃ pre d data post, evs = pre ++ .uplink d l.core.connId data :: post ∧
      d < l.lastAttemptMs + 5000 + 1 + 1100 + 1100 ∧ d < l.lastAttemptMs + 30000 ∧
      ∃ l', (run s (pre ++ [.uplink d l.core.connId data])).links[j]? = some l' ∧
        l'.core.connected = true ∧ l'.core.window = 20000 ∧ l'.core.inFlight = 0 ∧ l'.core.log = [] ∧
        l'.queue = [] ∧ l'.core.phase = .warming 0 d ∧ l'.established = d := by
  obtain ⟨t, ht, hgt⟩ := hlong
  obtain ⟨pre, d, data, post, e1, -, e3, hp⟩ :=
    C08_first_registration_live_sys s j l evs t0 1100 hl hf hhc hidle hidx hmono hgaps
      ⟨t, ht, by omega, Or.inr (by omega)⟩ hans hfb hnofb hngp
  refine ⟨pre, d, data, post, e1, ?_, ?_, hp⟩
  · rw [hgrace] at e3
    split at e3 <;> omega
  · rw [hgrace] at e3
    split at e3 <;> omega

/-- Non-vacuity of the first-registration theorem: a registered group of the live link (conn id 5) and a NEVER
registered link (conn id 7, `new_registering` at time 0: grace until 5000, no attempt yet).  Reference time 4000; a
keepalive answer on the survivor, the tick at 4900 (grace not over: no attempt), a client datagram, the tick at 5900
(due: attempt, REG2 with the group id on link 7's wire), a straggler on link 7 itself, the REG3 at 6000, one more tick. -/
def exFreshSys : Sys Int :=
  { links := [exLive, exLink],
    reg := { (Reg.Reg.new [1] [2]) with hasConnected := true, probing := .complete, active := 1 } }

def exFreshRun : List Ev :=
  [.uplink 4500 5 [0x90, 0x00], .syncTimeout, .hk 4900, .client 5000 [0x80, 0x02, 0, 0, 0, 0, 0, 0], .syncTimeout,
   .hk 5900, .uplink 5950 7 [0x90, 0x00], .uplink 6000 7 [0x92, 0x02], .syncTimeout, .hk 6900]

example :
    ∃ pre d data post, exFreshRun = pre ++ .uplink d 7 data :: post ∧
      Codec.getPacketTypeS data = some 37378 ∧
      (d < max (5000 + 1) 0 + 1100 + max 1100 1100 ∨ d ≤ 4000 + 1100 + max 1100 1100) ∧
      ∃ l', (run exFreshSys (pre ++ [.uplink d 7 data])).links[1]? = some l' ∧
        l'.core.connected = true ∧ l'.core.window = 20000 ∧ l'.core.inFlight = 0 ∧ l'.core.log = [] ∧
        l'.queue = [] ∧ l'.core.phase = .warming 0 d ∧ l'.established = d :=
  C08_first_registration_live_sys exFreshSys 1 exLink exFreshRun 4000 1100 rfl
    ⟨rfl, rfl, rfl, (C08_clean_def _).2 (by decide)⟩ rfl ⟨rfl, rfl, by decide⟩ (by decide)
    (by simp [exFreshRun, MonoFrom, evClock]) (by simp [exFreshRun, TickGaps])
    ⟨5900, by simp [exFreshRun], by decide, Or.inl rfl⟩
    (C08_aux_answeredLateB 1100 7 exFreshRun exFreshSys (by decide +kernel))
    (by decide) (by simp [exFreshRun, Ev.isReload]) (C08_aux_noNgpB exFreshRun (by decide))


/-- … and what that run does: no attempt at 4900 (stamp 0, grace 5000), the attempt at 5900 (stamp 5900, grace
re-armed to 10900, REG2 on the wire for conn id 7), connected from the REG3 at 6000 on with the first-establishment
stamp 6000. -/
example :
    ((run exFreshSys (exFreshRun.take 3)).links.map fun l => (l.core.connected, l.lastAttemptMs, l.graceDeadline)) =
      [(true, 0, 0), (false, 0, 5000)] ∧
    ((run exFreshSys (exFreshRun.take 6)).links.map fun l => (l.core.connected, l.lastAttemptMs, l.graceDeadline)) =
      [(true, 0, 0), (false, 5900, 10900)] ∧
    (7, Codec.createReg2 [1]) ∈ (step (run exFreshSys (exFreshRun.take 5)) (.hk 5900)).2.wire ∧
    ((run exFreshSys (exFreshRun.take 8)).links.map fun l => (l.core.connected, l.core.window, l.established)) =
      [(true, 23060, 50), (true, 20000, 6000)] := by
  decide +kernel

/-! ## 13. Audit round 2 (c): the re-grouping chain (ALL links down, the receiver forgot the group)

When no link is connected and the receiver has dropped the group, a REG2 re-send is answered by REG_NGP; the sender
answers that AT ONCE with REG1 (`reg1_if_ngp_immediate`), the receiver creates a new group and answers REG2 carrying
the new 256-byte id, the next housekeeping tick broadcasts REG2 with the new id on EVERY link, and the REG3 answers
connect the links.  `C08_regroup_chain_sys_partial` proves the whole chain on runs of the shape

    tick T1 · bystanders · REG_NGP · bystanders · REG2 · bystanders · tick T2 · bystanders · REG3

where a *bystander* (`Audit2B.bystander`) is any event that is not a tick, not a registration datagram and not a
fault injection: client datagrams, flush ticks, keepalive / ACK / NAK / data datagrams on any link, configuration
changes, critical windows, verdict stamps, `sync_conn_timeout`. -/

/-- `bystander`, spelled out (definition check): ticks, fault injections and uplink datagrams of the four
registration types — REG_NGP 0x9211, REG2 0x9201, REG3 0x9202, REG_ERR 0x9210 — are NOT bystanders; everything else
is; neither is a reload (`apply_connection_changes` may remove or shift the link the chain follows). -/
theorem C08_bystander_def (e : Ev) :
    Audit2B.bystander e = true ↔
      ((∀ t, e ≠ .hk t) ∧ (∀ c, e ≠ .failNext c) ∧ (∀ c k, e ≠ .failAfter c k) ∧ (∀ c, e ≠ .failBind c) ∧
       e.isReload = false ∧
       ∀ now c data t, e = .uplink now c data → Codec.getPacketTypeS data = some t →
         t ≠ 37393 ∧ t ≠ 37377 ∧ t ≠ 37378 ∧ t ≠ 37392) := by
  cases e with
  | hk t => simp [Audit2B.bystander, Ev.isReload]
  | failNext c => simp [Audit2B.bystander, Ev.isReload]
  | failAfter c kfa => simp [Audit2B.bystander, Ev.isReload]
  | failBind c => simp [Audit2B.bystander, Ev.isReload]
  | uplink now c data =>
    simp only [Audit2B.bystander, Audit2B.isRegType]
    cases ht : Codec.getPacketTypeS data with
    | none =>
      constructor
      · intro _
        refine ⟨fun t h => (by cases h), fun c h => (by cases h), fun c k h => (by cases h), fun c h => (by cases h),
          rfl, ?_⟩
        intro now' c' data' t' h ht'
        cases h
        rw [ht] at ht'; cases ht'
      · intro _; rfl
    | some t =>
      simp only [Bool.not_eq_true', Bool.or_eq_false_iff, beq_eq_false_iff_ne, ne_eq, reduceCtorEq, not_false_eq_true,
        implies_true, true_and, Ev.uplink.injEq, and_imp, Ev.isReload]
      constructor
      · rintro ⟨⟨⟨h1, h2⟩, h3⟩, h4⟩ now' c' data' t' - - rfl ht'
        rw [ht] at ht'; cases ht'
        exact ⟨h1, h2, h3, h4⟩
      · intro h
        obtain ⟨h1, h2, h3, h4⟩ := h now c data t rfl rfl rfl ht
        exact ⟨⟨⟨h1, h2⟩, h3⟩, h4⟩
  | client now pkt => simp [Audit2B.bystander, Ev.isReload]
  | flush now => simp [Audit2B.bystander, Ev.isReload]
  | setCfg cfg => simp [Audit2B.bystander, Ev.isReload]
  | crit d => simp [Audit2B.bystander, Ev.isReload]
  | stamp idx weak ld ccb cct => simp [Audit2B.bystander, Ev.isReload]
  | syncTimeout => simp [Audit2B.bystander, Ev.isReload]
  | reload rnow raddrs routs => simp [Audit2B.bystander, Ev.isReload]

/-- Bystanders leave the registration manager alone and the down link `j` down with its invariant. -/
theorem C08_aux_bystanders (cid j : Nat) (es : List Ev) (hb : ∀ e ∈ es, Audit2B.bystander e = true) :
    ∀ (s : Sys F) (l : FLink F), LiveInv cid j s l →
      ∃ l', LiveInv cid j (run s es) l' ∧ (run s es).reg = s.reg := by
  induction es with
  | nil => intro s l h; exact ⟨l, h, rfl⟩
  | cons e es ih =>
    intro s l h
    have hbe := hb e List.mem_cons_self
    have hnf : e ≠ .failBind cid := by
      intro he; rw [he] at hbe; cases hbe
    obtain ⟨l1, -, hc⟩ := C08_aux_liveInv_step cid j s l e h hnf (Audit2B.bystander_noReload (hb e List.mem_cons_self))
    rcases hc with ⟨h1, -⟩ | ⟨now, data, he, hty, -⟩
    · obtain ⟨l', h2, h3⟩ := ih (fun e' he' => hb e' (List.mem_cons_of_mem _ he')) _ l1 h1
      exact ⟨l', h2, h3.trans (Audit2B.bystander_reg s e hbe)⟩
    · rw [he] at hbe
      simp [Audit2B.bystander, hty, Audit2B.isRegType] at hbe

/-- **The re-grouping chain (PARTIAL: fixed frame order, bystanders in between).**  State `s`: NO link is connected;
link `j` (record `l`, conn id `cid`) is down — established before, failure counter 0 — and its reconnect attempt is due
at the tick `T1` (5000 ms back-off over); the rejoin invariant holds; the registration manager is at rest (nothing
awaited, no REG1 target, probing over); no bind failure pending for `cid`.  The run is

    .hk T1 :: m1 ++ .uplink d1 cid ngp :: m2 ++ .uplink d2 cid reg2 :: m3 ++ .hk T2 :: m4 ++ [.uplink d3 cid reg3]

(`sA`, `sC`, `sE` name the states after `.hk T1 :: m1`, after `… reg2 :: m3` and after the whole run) with `ngp` of type REG_NGP (0x9211), `reg2` of type REG2 (0x9201) and at least 2 + 256 bytes long, `reg3` of type REG3
(0x9202), and `m1 … m4` arbitrary lists of bystanders.  Then, frame by frame:

1. the tick `T1` tears link `j` down for a reconnect and puts REG2 with the OLD group id on its wire
   (and, no link being connected, leaves `active_connections = 0`);
2. the REG_NGP makes the shell put REG1 with the old id on link `j`'s wire IN THE SAME EVENT;
3. the REG2 answer replaces the group id by its 256-byte payload and arms the broadcast;
4. the tick `T2` puts REG2 with the NEW id on the wire of EVERY link of the shell;
5. after the REG3, link `j` is connected with window 20000, in-flight 0, empty packet log and batch queue, phase
   `Warming{0, d3}`, and the group is registered again (`has_connected`).
If the frames are answered before the next tick — `T2 ≤ T1 + 1100`, `d3 ≤ T2 + 1100` — the link is connected within
`1100 + 1100` ms of the attempt tick.

What is MISSING (why `_partial`): the frames come in this order with only bystanders in between — no OTHER tick and
no other registration datagram between two frames (a tick while REG2 is awaited takes the "deferred" branch of the
reconnect loop; a lost REG1 / REG2 answer is retried by `clear_pending_if_timed_out` after 4000 ms and the driver;
REG_NGP / REG3 answers on the OTHER links interleave), and no fault injections; the general interleaving is not
proved.  That the receiver answers at all, and in time, is the environment's. -/
theorem C08_regroup_chain_sys_partial (s : Sys F) (j : Nat) (l : FLink F) (T1 T2 d1 d2 d3 : Nat)
    (ngp reg2 reg3 : Sys.Bytes) (m1 m2 m3 m4 : List Ev) (sA sC sE : Sys F)
    (hsA : sA = run s (.hk T1 :: m1))
    (hsC : sC = run s (.hk T1 :: (m1 ++ .uplink d1 l.core.connId ngp :: (m2 ++ .uplink d2 l.core.connId reg2 :: m3))))
    (hsE : sE = run s (.hk T1 :: (m1 ++ .uplink d1 l.core.connId ngp :: (m2 ++ .uplink d2 l.core.connId reg2 ::
      (m3 ++ .hk T2 :: (m4 ++ [.uplink d3 l.core.connId reg3]))))))
    (hall : ∀ x ∈ s.links, x.core.connected = false)
    (hl : s.links[j]? = some l) (hd : Down l) (hinv : RejoinInv s)
    (hidx : s.links.findIdx? (·.core.connId == l.core.connId) = some j)
    (hfb : l.core.connId ∉ s.failBind) (hidle : RegIdle s.reg)
    (hdue : l.lastAttemptMs = 0 ∨ T1 - l.lastAttemptMs ≥ 5000)
    (hngp : Codec.getPacketTypeS ngp = some 37393)
    (hreg2 : Codec.getPacketTypeS reg2 = some 37377) (hlen : 258 ≤ reg2.length)
    (hreg3 : Codec.getPacketTypeS reg3 = some 37378)
    (hm1 : ∀ e ∈ m1, Audit2B.bystander e = true) (hm2 : ∀ e ∈ m2, Audit2B.bystander e = true)
    (hm3 : ∀ e ∈ m3, Audit2B.bystander e = true) (hm4 : ∀ e ∈ m4, Audit2B.bystander e = true) :
    (l.core.connId, Codec.createReg2 s.reg.id) ∈ (step s (.hk T1)).2.wire ∧ (step s (.hk T1)).1.reg.active = 0 ∧
    (step sA (.uplink d1 l.core.connId ngp)).2.wire = [(l.core.connId, Codec.createReg1 s.reg.id)] ∧
    sC.reg.id = (reg2.drop 2).take 256 ∧ sC.reg.broadcastPending = true ∧
    (∀ (k : Nat) (x : FLink F), sC.links[k]? = some x →
      (x.core.connId, Codec.createReg2 ((reg2.drop 2).take 256)) ∈ (step sC (.hk T2)).2.wire) ∧
    (∃ l', sE.links[j]? = some l' ∧
      l'.core.connected = true ∧ l'.core.window = 20000 ∧ l'.core.inFlight = 0 ∧ l'.core.log = [] ∧
      l'.queue = [] ∧ l'.core.phase = .warming 0 d3) ∧
    sE.reg.hasConnected = true ∧
    (T2 ≤ T1 + 1100 → d3 ≤ T2 + 1100 → d3 ≤ T1 + 1100 + 1100) := by
  generalize hcid : l.core.connId = cid at *
  have hcons : ∀ (x : Sys F) (e : Ev) (m rest : List Ev),
      run x (e :: (m ++ rest)) = run (run (step x e).1 m) rest := fun x e m rest => by
    rw [C08_aux_run_cons, C08_aux_run_append]
  have h0 : LiveInv cid j s l := ⟨hl, hd, hcid, hinv, hidx, hfb⟩
  -- frame 1: the tick T1
  have hto := C08_aux_down_timed_out l hd T1
  have hsa := (C08_aux_down_ready l hd T1).2 hdue
  have hw1 : (cid, Codec.createReg2 s.reg.id) ∈ (step s (.hk T1)).2.wire := by
    have := hk_wire_reg2 s T1 j l hl hidle.1 hd.2.1 hto hsa
    rw [hcid] at this; exact this
  obtain ⟨ha1, hid1⟩ := Audit2B.hk_active_zero s T1 hall
  have hidle1 : RegIdle (step s (.hk T1)).1.reg := hk_reg_idle s T1 hidle
  obtain ⟨l1, -, hc1⟩ := C08_aux_liveInv_step cid j s l (.hk T1) h0 (by intro h; cases h) rfl
  have hL1 : LiveInv cid j (step s (.hk T1)).1 l1 := by
    rcases hc1 with ⟨h, -⟩ | ⟨_, _, he, -⟩
    · exact h
    · cases he
  -- bystanders m1
  obtain ⟨lA, hLA, hrA⟩ := C08_aux_bystanders cid j m1 hm1 _ l1 hL1
  have hsA' : sA = run (step s (.hk T1)).1 m1 := by rw [hsA, C08_aux_run_cons]
  rw [← hsA'] at hLA hrA
  -- frame 2: REG_NGP
  have hidleA : RegIdle sA.reg := by rw [hrA]; exact hidle1
  have hactA : sA.reg.active = 0 := by rw [hrA]; exact ha1
  obtain ⟨n1, n2, n3, n4, n5, -⟩ := Audit2B.ngp_step sA d1 cid ngp j lA hLA.link hLA.idx hngp hidleA hactA
  have hidA : sA.reg.id = s.reg.id := by rw [hrA]; exact hid1
  obtain ⟨l2, -, hc2⟩ := C08_aux_liveInv_step cid j sA lA (.uplink d1 cid ngp) hLA (by intro h; cases h) rfl
  have hL2 : LiveInv cid j (step sA (.uplink d1 cid ngp)).1 l2 := by
    rcases hc2 with ⟨h, -⟩ | ⟨_, _, he, hty, -⟩
    · exact h
    · cases he; rw [hngp] at hty; cases hty
  -- bystanders m2
  obtain ⟨lB, hLB, hrB⟩ := C08_aux_bystanders cid j m2 hm2 _ l2 hL2
  generalize hsB : run (step sA (.uplink d1 cid ngp)).1 m2 = sB at hLB hrB
  -- frame 3: REG2
  have hpB : sB.reg.pending = some j := by rw [hrB]; exact n2
  obtain ⟨r1, r2, r3, r4, -, r6, -⟩ := Audit2B.reg2_step sB d2 cid reg2 j lB hLB.link hLB.idx hreg2 hlen hpB
  obtain ⟨l3, -, hc3⟩ := C08_aux_liveInv_step cid j sB lB (.uplink d2 cid reg2) hLB (by intro h; cases h) rfl
  have hL3 : LiveInv cid j (step sB (.uplink d2 cid reg2)).1 l3 := by
    rcases hc3 with ⟨h, -⟩ | ⟨_, _, he, hty, -⟩
    · exact h
    · cases he; rw [hreg2] at hty; cases hty
  -- bystanders m3
  obtain ⟨lC, hLC, hrC⟩ := C08_aux_bystanders cid j m3 hm3 _ l3 hL3
  have hsC' : sC = run (step sB (.uplink d2 cid reg2)).1 m3 := by
    rw [hsC, hcons, ← hsA', hcons, hsB, C08_aux_run_cons]
  rw [← hsC'] at hLC hrC
  have hprobe : Reg.isProbing sC.reg = false := by
    have hp : sC.reg.probing = sA.reg.probing := by
      rw [hrC, r6, hrB, n5]
    unfold Reg.isProbing at hidleA ⊢
    rw [hp]
    exact hidleA.2.2
  have hidleC : RegIdle sC.reg := ⟨by rw [hrC]; exact r2, by rw [hrC]; exact r3, hprobe⟩
  have hidC : sC.reg.id = (reg2.drop 2).take 256 := by rw [hrC]; exact r1
  have hbC : sC.reg.broadcastPending = true := by rw [hrC]; exact r4
  -- frame 4: the broadcast tick
  obtain ⟨b1, -, -⟩ := Audit2B.hk_broadcast sC T2 hidleC hbC
  rw [hidC] at b1
  obtain ⟨l4, -, hc4⟩ := C08_aux_liveInv_step cid j sC lC (.hk T2) hLC (by intro h; cases h) rfl
  have hL4 : LiveInv cid j (step sC (.hk T2)).1 l4 := by
    rcases hc4 with ⟨h, -⟩ | ⟨_, _, he, -⟩
    · exact h
    · cases he
  -- bystanders m4
  obtain ⟨lD, hLD, -⟩ := C08_aux_bystanders cid j m4 hm4 _ l4 hL4
  generalize hsD : run (step sC (.hk T2)).1 m4 = sD at hLD
  -- frame 5: REG3
  obtain ⟨l', hl', hp⟩ := C08_aux_rejoin cid j sD lD hLD d3 reg3 hreg3
  have hhc := (C08_reg3_applies sD d3 cid reg3 j lD hLD.link hLD.idx (C08_aux_type_nonempty reg3 _ hreg3) hreg3).2
  have hfin : sE = (step sD (.uplink d3 cid reg3)).1 := by
    rw [hsE, hcons, ← hsA', hcons, hsB, hcons, ← hsC', hcons, hsD]
    rfl
  refine ⟨hw1, ha1, ?_, hidC, hbC, b1, ?_, ?_, fun a b => by omega⟩
  · rw [n1, hidA]
  · rw [hfin]; exact ⟨l', hl', hp⟩
  · rw [hfin]; exact hhc

/-- Non-vacuity of the chain: BOTH links down (conn id 5: last attempt at 6500, not due at 7000; conn id 7 = `exDown`:
last attempt at 2000, due), group id `[1]`, manager at rest.  Tick at 7000, a client datagram (dropped: no link),
REG_NGP on link 7 at 7050, a flush tick, the REG2 answer with the new id `9 × 256` at 7100, `sync_conn_timeout`, the
tick at 8000, the REG3 at 8050. -/
def exAllDown : Sys Int :=
  { links := [{ exDown with core := { exDown.core with connId := 5 }, lastAttemptMs := 6500 }, exDown],
    reg := { (Reg.Reg.new [1] [2]) with hasConnected := true, probing := .complete, active := 1 } }

def exNewId : List UInt8 := List.replicate 256 9

theorem C08_aux_exAllDown_inv : RejoinInv exAllDown := by
  intro j l hl
  match j, hl with
  | 0, hl =>
    cases hl
    exact ⟨fun _ => rfl, fun _ => ⟨rfl, fun _ => (C08_clean_def _).2 (by decide)⟩⟩
  | 1, hl =>
    cases hl
    exact ⟨fun _ => rfl, fun _ => ⟨rfl, fun _ => (C08_clean_def exDown).2 (by decide)⟩⟩
  | (n + 2), hl => cases hl

example :=
  C08_regroup_chain_sys_partial exAllDown 1 exDown 7000 8000 7050 7100 8050
    [0x92, 0x11] ([0x92, 0x01] ++ exNewId) [0x92, 0x02]
    [.client 7010 [0x80, 0x02, 0, 0, 0, 0, 0, 0]] [.flush 7060] [.syncTimeout] [] _ _ _ rfl rfl rfl
    (by intro x hx; simp only [exAllDown, List.mem_cons, List.not_mem_nil, or_false] at hx; rcases hx with rfl | rfl <;> rfl)
    rfl ⟨rfl, by decide, rfl⟩ C08_aux_exAllDown_inv (by decide) (by decide) ⟨rfl, rfl, by decide⟩
    (Or.inr (by decide)) (by decide) (by decide +kernel) (by decide +kernel) (by decide)
    (by decide) (by decide) (by decide) (by decide)

/-- … and what that run puts on the wire: the tick at 7000 re-sends REG2 with the old id `[1]` on link 7 only (link 5
is inside its back-off); the REG_NGP is answered in the same event by REG1 with the old id; after the REG2 answer the
tick at 8000 sends REG2 with the NEW id on both links; the REG3 at 8050 connects link 7 (window 20000). -/
example :
    let r2 : List UInt8 := [0x92, 0x01] ++ exNewId
    let pre : List Ev := [.hk 7000, .client 7010 [0x80, 0x02, 0, 0, 0, 0, 0, 0]]
    let mid : List Ev := pre ++ [.uplink 7050 7 [0x92, 0x11], .flush 7060, .uplink 7100 7 r2, .syncTimeout]
    (step exAllDown (.hk 7000)).2.wire = [(7, Codec.createReg2 [1])] ∧
    (step (run exAllDown pre) (.uplink 7050 7 [0x92, 0x11])).2.wire = [(7, Codec.createReg1 [1])] ∧
    (run exAllDown mid).reg.id = exNewId ∧
    (step (run exAllDown mid) (.hk 8000)).2.wire = [(5, Codec.createReg2 exNewId), (7, Codec.createReg2 exNewId)] ∧
    ((run exAllDown (mid ++ [.hk 8000, .uplink 8050 7 [0x92, 0x02]])).links.map fun l =>
      (l.core.connected, l.core.window)) = [(false, 20000), (true, 20000)] := by
  decide +kernel

end Srtla.Props.C08
