import Srtla.Lemmas.SelGate
import Srtla.Lemmas.Enhanced
import Srtla.Lemmas.EnhancedField
/-!
# C03 — no blackout: a usable uplink always gets the packet

`selectIdx` is the model of `select_connection_idx` (stall-guard pass, then the classic or the
enhanced selector); it is run bit-for-bit against the real function by component `sel`.

* `C03_gate_spares_usable`, `C03_gated_has_alternative`, `C03_classic_picks` hold for an arbitrary
  scalar type (the stall guard and the classic selector never look at a float).
* `C03_enhanced_picks`, `C03_no_blackout`, `C03_no_blackout_post` are about the scalar code
  interpreted in an arbitrary linearly ordered field `F` with floor (`fieldScalar F e ninf`, exact
  arithmetic, `e` = `exp` with `ExpLaw e : ∀ x ≤ 0, 0 < e x ≤ 1`).  IEEE rounding / NaN are not part
  of these proofs; the float outputs of the same definitions at `Float` are compared bit-for-bit with
  the real code, and the monitor `blackout` checks the statement on the real code.

Quantification: any number of links, any `last`, any `now`, any `Cfg` (mode, quality scoring,
guard on/off, stall thresholds, timeout), any link state in the property's domain (`InDomain`).
-/
namespace Srtla.Props.C03
open Srtla Srtla.Gen Srtla.Conn Srtla.Select Srtla.SelLemmas

/-- Usable in the sense of the property: registered (`phase ≠ Registering`), connected, and not
timed out at `now` (w.r.t. the timeout stored in the link). -/
def Usable {F : Type} (c : SLink F) (now : Nat) : Prop :=
  c.phase ≠ .registering ∧ c.connected = true ∧ isTimedOut c now = false

/-- `Usable` w.r.t. the configured timeout (the pass stamps it into every link first). -/
def UsableCfg {F : Type} (c : SLink F) (cfg : Cfg) (now : Nat) : Prop :=
  Usable { c with connTimeoutMs := cfg.connTimeoutMs } now

theorem usable_iff {F : Type} (c : SLink F) (now : Nat) : usable now c = true ↔ Usable c now := by
  unfold usable Usable schedulable
  simp only [Bool.and_eq_true, Bool.not_eq_true', bne_iff_ne, ne_eq]
  constructor
  · rintro ⟨⟨h1, h2⟩, h3⟩; exact ⟨h2, h1, h3⟩
  · rintro ⟨h2, h1, h3⟩; exact ⟨⟨h1, h2⟩, h3⟩

/-! ## The stall guard never removes the last usable link (any scalar type) -/

/-- **Gate spares a usable link.**  If some link is usable w.r.t. the configured timeout, then
after `apply_stall_gate` some link is usable and NOT stall-gated — whatever the latch / silence-pull
history, thresholds and guard switch. -/
theorem C03_gate_spares_usable {F : Type} (ls : List (SLink F)) (now : Nat) (cfg : Cfg)
    (h : ∃ c ∈ ls, UsableCfg c cfg now) :
    ∃ c' ∈ applyStallGate ls now cfg, Usable c' now ∧ c'.stallGated = false := by
  obtain ⟨c, hc, hu⟩ := h
  obtain ⟨c', hc', hu', hg⟩ := gate_spares_usable ls now cfg ⟨c, hc, (usable_iff _ now).2 hu⟩
  exact ⟨c', hc', (usable_iff c' now).1 hu', hg⟩

/-- **A link is gated only next to a healthy alternative** (monitor `gated-without-alternative`):
if any link is stall-gated after the pass, some link is connected, schedulable, not timed out, not
latched, not silence-pulled — and that link is not gated. -/
theorem C03_gated_has_alternative {F : Type} (ls : List (SLink F)) (now : Nat) (cfg : Cfg)
    (h : ∃ c' ∈ applyStallGate ls now cfg, c'.stallGated = true) :
    ∃ a ∈ applyStallGate ls now cfg, Usable a now ∧ a.latchedSince = 0 ∧ a.silencePulled = false ∧
      a.stallGated = false := by
  obtain ⟨a, ha, hh, hg⟩ := gated_has_alternative ls now cfg h
  refine ⟨a, ha, (usable_iff a now).1 (healthy_usable hh), ?_, ?_, hg⟩
  · unfold healthy latched at hh
    simp only [Bool.and_eq_true, Bool.not_eq_true', bne_eq_false_iff_eq] at hh
    exact hh.1.2
  · unfold healthy at hh
    simp only [Bool.and_eq_true, Bool.not_eq_true'] at hh
    exact hh.2

/-! ## Classic selector (any scalar type) -/

/-- **Classic mode picks.**  A connected, schedulable, not timed-out, un-gated link with a
non-negative window makes `classic::select_connection` return an index: its score
`window / max(in_flight + queued + 1, 1)` is `≥ 0 > -1`. -/
theorem C03_classic_picks {F : Type} (ls : List (SLink F)) (now : Nat)
    (h : ∃ c ∈ ls, Usable c now ∧ c.stallGated = false ∧ 0 ≤ c.window) :
    classicSelect ls now ≠ none := by
  obtain ⟨c, hc, ⟨hp, hconn, hto⟩, hg, hw⟩ := h
  apply classicGo_picks ls 0 now
  refine ⟨c, hc, hto, ?_, hg, score_nonneg c hconn hw⟩
  unfold schedulable; simpa using hp

/-! ## Enhanced selector and the whole of `select_connection_idx` (ordered field) -/

section field
variable {F : Type} [Field F] [LinearOrder F] [IsStrictOrderedRing F] [FloorRing F] (e : F → F) (ninf : F)

/-- The property's domain for one link (the harness's `in_domain`): window in `[1000, 60000]`,
non-negative in-flight and queue counts, cached quality multiplier within its documented range.
(The proofs below only use `0 ≤ window` and `0 < qualMult`.) -/
def InDomain (c : SLink F) : Prop :=
  1000 ≤ c.window ∧ c.window ≤ 60000 ∧ 0 ≤ c.inFlight ∧ 0 ≤ c.queued ∧
    0.35 ≤ c.qualMult ∧ c.qualMult ≤ 1.1 * 1.03

omit [FloorRing F] in
theorem InDomain.weak {c : SLink F} (h : InDomain c) : 0 ≤ c.window ∧ 0 < c.qualMult := by
  obtain ⟨h1, -, -, -, h5, -⟩ := h
  exact ⟨by omega, lt_of_lt_of_le (by norm_num) h5⟩

/-- **Enhanced mode picks.**  With every link in the domain, an un-gated usable link makes
`enhanced::select_connection` return an index, for every `last`, with quality scoring on or off,
whatever the weak / loss-degraded flags, CC targets, in-flight caps, NAK history and RTTs: the link
is either scored (`≥ 0 > -1`), or skipped because it exceeds its in-flight cap while an
unconstrained link exists — and that unconstrained link is scored. -/
theorem C03_enhanced_picks (he : ExpLaw e) (ls : List (SLink F)) (last : Option Nat) (now : Nat)
    (quality : Bool) (hdom : ∀ c ∈ ls, InDomain c)
    (h : ∃ c ∈ ls, Usable c now ∧ c.stallGated = false) :
    (@enhancedSelect F (fieldScalar F e ninf) ls last now quality).2 ≠ none := by
  obtain ⟨c, hc, ⟨hp, hconn, hto⟩, hg⟩ := h
  apply enhanced_picks e ninf he ls last now quality (fun c hc => (hdom c hc).weak)
  exact ⟨c, hc, hconn, hto, by unfold schedulable; simpa using hp, hg⟩

/-- **No blackout.**  For every list of links in the domain, every `last`, `now` and configuration
(classic or enhanced, quality scoring on or off, stall guard on or off, any stall thresholds, any
timeout): if at least one link is usable (registered, connected, not timed out w.r.t. the
configured timeout) then `select_connection_idx` returns an index. -/
theorem C03_no_blackout (he : ExpLaw e) (ls : List (SLink F)) (last : Option Nat) (now : Nat) (cfg : Cfg)
    (hdom : ∀ c ∈ ls, InDomain c) (h : ∃ c ∈ ls, UsableCfg c cfg now) :
    (@selectIdx F (fieldScalar F e ninf) ls last now cfg).2 ≠ none := by
  obtain ⟨c', hc', hu', hg'⟩ := C03_gate_spares_usable ls now cfg h
  -- the pass keeps every link in the domain
  have hdom' : ∀ x ∈ applyStallGate ls now cfg, InDomain x := by
    intro x hx
    obtain ⟨c, hc, hcore, -⟩ := gate_mem_core hx
    have hd := hdom c hc
    have h1 := congrArg SLink.window hcore
    have h2 := congrArg SLink.inFlight hcore
    have h3 := congrArg SLink.queued hcore
    have h4 := congrArg SLink.qualMult hcore
    simp only [core] at h1 h2 h3 h4
    unfold InDomain at hd ⊢
    rw [h1, h2, h3, h4]; exact hd
  cases hcl : cfg.classic
  · rw [@selectIdx_enhanced F (fieldScalar F e ninf) ls last now cfg hcl]
    exact C03_enhanced_picks e ninf he _ last now cfg.quality hdom' ⟨c', hc', hu', hg'⟩
  · rw [@selectIdx_classic F (fieldScalar F e ninf) ls last now cfg hcl]
    exact C03_classic_picks _ now ⟨c', hc', hu', hg', (hdom' c' hc').weak.1⟩

/-- The same with usability read off the state AFTER the select, as the monitor `blackout` does
(`usable := is_schedulable() && connected && !is_timed_out(now)` on the post-state). -/
theorem C03_no_blackout_post (he : ExpLaw e) (ls : List (SLink F)) (last : Option Nat) (now : Nat) (cfg : Cfg)
    (hdom : ∀ c ∈ ls, InDomain c)
    (h : ∃ c' ∈ (@selectIdx F (fieldScalar F e ninf) ls last now cfg).1, Usable c' now) :
    (@selectIdx F (fieldScalar F e ninf) ls last now cfg).2 ≠ none := by
  obtain ⟨c', hc', hu⟩ := h
  obtain ⟨c, hc, hu'⟩ := @selectIdx_usable_post F (fieldScalar F e ninf) ls last now cfg
    ⟨c', hc', (usable_iff c' now).2 hu⟩
  exact C03_no_blackout e ninf he ls last now cfg hdom ⟨c, hc, (usable_iff _ now).1 hu'⟩

end field

/-! ## Concrete states meeting the hypotheses (over `ℚ`, `exp x := 1/(1-x)`) -/

/-- Three links at `now = 10000`, 5 s timeout, guard on:
link 0 usable but stall-latched with stale proof (the guard gates it);
link 1 disconnected, Live, recently heard (the pre-fix blackout witness: not "healthy");
link 2 usable, weak, over its in-flight cap (`cc_target` 1 Mbit/s, 500 packets in flight). -/
def exLinks : List (SLink ℚ) :=
  [ { connId := 1, connected := true, phase := .live, window := 20000, inFlight := 40, lastReceived := some 9900,
      proofMs := 2000, latchedSince := 5000, srtt := 50, rttMin := 40, bitrate := 0, qualMult := 1 },
    { connId := 2, connected := false, phase := .live, window := 20000, lastReceived := some 9950,
      established := 1, srtt := 0, rttMin := 0, bitrate := 0, qualMult := 1 },
    { connId := 3, connected := true, phase := .warming 1 9000, window := 1000, inFlight := 500,
      lastReceived := some 9990, weak := true, ccTarget := 1000000, srtt := 80, rttMin := 60,
      bitrate := 900000, qualMult := 0.5, qualAt := 9990 } ]

def exCfg : Cfg := { classic := false, quality := true, stallDeselect := true, connTimeoutMs := 5000 }

example : ∀ c ∈ exLinks, InDomain c := by
  intro c hc
  simp only [exLinks, List.mem_cons, List.not_mem_nil, or_false] at hc
  rcases hc with rfl | rfl | rfl <;> (unfold InDomain; norm_num)

example : ∃ c ∈ exLinks, UsableCfg c exCfg 10000 :=
  ⟨_, List.mem_cons_self, by unfold UsableCfg Usable; decide⟩

/-- … hence (instance of `C03_no_blackout`) the enhanced selector returns an index here, and so
does the classic one. -/
example : (@selectIdx ℚ ratScalar exLinks (some 1) 10000 exCfg).2 ≠ none :=
  C03_no_blackout _ _ expLaw_rat exLinks (some 1) 10000 exCfg
    (by
      intro c hc
      simp only [exLinks, List.mem_cons, List.not_mem_nil, or_false] at hc
      rcases hc with rfl | rfl | rfl <;> (unfold InDomain; norm_num))
    ⟨_, List.mem_cons_self, by unfold UsableCfg Usable; decide⟩

example : ∃ c ∈ exLinks, Usable c 10000 ∧ c.stallGated = false ∧ 0 ≤ c.window :=
  ⟨_, List.mem_cons_self, by unfold Usable; decide⟩

end Srtla.Props.C03
