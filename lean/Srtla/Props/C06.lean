import Srtla.Model.Conn
import Srtla.Lemmas.Conn
import Srtla.Lemmas.SysDirWin
import Srtla.Lemmas.SelShellFrame
import Srtla.Lemmas.Audit2BReset
/-!
# C06 — congestion windows stay in range and move in the right direction

Every window-changing operation of a link is an `Op`; `applyOp` is the model of what the code
does to `(window, congestion state)`; histories are arbitrary `List Op` (arbitrary times,
in-flight counts anywhere in `0..i32::MAX`, arbitrary RTT-velocity verdicts).
-/
namespace Srtla.Props.C06
open Srtla.Conn Srtla.Gen

/-- The window-relevant state of one link. -/
structure WS where
  w : Int
  cong : Cong
  connected : Bool
  heard : Bool          -- `last_received.is_some()`

inductive Op where
  | nak (now : Nat)
  | ackClassic (inFlight : Int)                 -- earned SRTLA ACK, classic mode
  | ackEnhanced (inFlight : Int)                -- earned SRTLA ACK, enhanced mode
  | ackGlobal                                   -- +1 per SRTLA-acknowledged packet
  | recover (velHigh : Bool) (now : Nat)        -- housekeeping time-based recovery
  | resetRecovery                               -- mark_for_recovery
  | resetReconnect                              -- reset_for_reconnect
  | reg3                                        -- clear_pre_registration_state + connected
  | setLink (connected heard : Bool)            -- liveness flags change (environment)

def applyOp (s : WS) : Op → WS
  | .nak now => let (c, w) := s.cong.handleNak s.w now; { s with w := w, cong := c }
  | .ackClassic inf => { s with w := ackClassic s.w inf }
  | .ackEnhanced inf => let (c, w) := s.cong.ackEnhanced s.w inf; { s with w := w, cong := c }
  | .ackGlobal => if s.connected && s.heard then { s with w := min (s.w + 1) WINDOW_CEIL } else s
  | .recover v now => let (c, w) := s.cong.recover s.w s.connected v now; { s with w := w, cong := c }
  | .resetRecovery => { s with w := WINDOW_INIT, connected := false, heard := false }
  | .resetReconnect => { s with w := WINDOW_INIT, cong := {}, connected := false, heard := false }
  | .reg3 => { s with cong := {}, connected := true, heard := true }
  | .setLink c h => { s with connected := c, heard := h }

def run (s : WS) (ops : List Op) : WS := ops.foldl applyOp s

/-- A fresh link (`new_registering`). -/
def fresh : WS := { w := WINDOW_INIT, cong := {}, connected := false, heard := false }

def InRange (w : Int) : Prop := 1000 ≤ w ∧ w ≤ 60000

/-- One step keeps the window in `[1000, 60000]`, for any in-flight count (in particular any
value in `0..i32::MAX`: the saturating multiply only decides *whether* the window grows). -/
theorem C06_range_step (s : WS) (op : Op) (h : InRange s.w) : InRange (applyOp s op).w := by
  obtain ⟨h1, h2⟩ := h
  obtain ⟨hF, hC, hI, -, -, hD, -, -⟩ := wconsts
  cases op with
  | nak now =>
    simp only [applyOp, Cong.handleNak, InRange]
    omega
  | ackClassic inf => exact ⟨(ackClassic_bounds s.w inf h1 h2).1, (ackClassic_bounds s.w inf h1 h2).2.1⟩
  | ackEnhanced inf =>
    simp only [applyOp, Cong.ackEnhanced]
    exact ⟨(ackClassic_bounds s.w inf h1 h2).1, (ackClassic_bounds s.w inf h1 h2).2.1⟩
  | ackGlobal =>
    simp only [applyOp, InRange]
    split <;> (try dsimp only) <;> omega
  | recover v now =>
    simp only [applyOp]
    have := recover_window s.cong s.w s.connected v now h1 h2
    exact ⟨this.1, this.2.1⟩
  | resetRecovery => simp only [applyOp, InRange]; omega
  | resetReconnect => simp only [applyOp, InRange]; omega
  | reg3 => exact ⟨h1, h2⟩
  | setLink c hd => exact ⟨h1, h2⟩

/-- **Range invariant**: along every history from a fresh link the window is in `[1000, 60000]`. -/
theorem C06_range (ops : List Op) : InRange (run fresh ops).w := by
  have hgen : ∀ (ops : List Op) (s : WS), InRange s.w → InRange (run s ops).w := by
    intro ops
    induction ops with
    | nil => intro s h; exact h
    | cons op ops ih => intro s h; exact ih _ (C06_range_step s op h)
  exact hgen ops fresh (by simp only [fresh, InRange]; have := wconsts.2.2.1; omega)

/-- Starts at 20000 and returns to 20000 on every tear-down. -/
theorem C06_init_reset (s : WS) :
    fresh.w = 20000 ∧ (applyOp s .resetRecovery).w = 20000 ∧ (applyOp s .resetReconnect).w = 20000 := by
  simp [fresh, applyOp, wconsts.2.2.1]

/-- A NAK never increases the window; it lowers it by exactly 100, floored at 1000. -/
theorem C06_nak_nonincreasing (s : WS) (now : Nat) (h : InRange s.w) :
    (applyOp s (.nak now)).w ≤ s.w ∧ (applyOp s (.nak now)).w = max (s.w - 100) 1000 := by
  obtain ⟨h1, h2⟩ := h
  obtain ⟨hF, hC, hI, -, -, hD, -, -⟩ := wconsts
  simp only [applyOp, Cong.handleNak]
  omega

/-- An ACK (earned, classic or enhanced, or the global +1) never decreases the window, and an
earned ACK adds at most 29. -/
theorem C06_ack_nondecreasing (s : WS) (inf : Int) (h : InRange s.w) :
    s.w ≤ (applyOp s (.ackClassic inf)).w ∧ s.w ≤ (applyOp s (.ackEnhanced inf)).w ∧
    s.w ≤ (applyOp s .ackGlobal).w := by
  obtain ⟨h1, h2⟩ := h
  obtain ⟨hF, hC, hI, -, -, hD, -, -⟩ := wconsts
  refine ⟨(ackClassic_bounds s.w inf h1 h2).2.2.1, ?_, ?_⟩
  · simp only [applyOp, Cong.ackEnhanced]; exact (ackClassic_bounds s.w inf h1 h2).2.2.1
  · simp only [applyOp]
    split <;> (try dsimp only) <;> omega

/-- Time-based recovery never decreases the window. -/
theorem C06_recovery_nondecreasing (s : WS) (v : Bool) (now : Nat) (h : InRange s.w) :
    s.w ≤ (applyOp s (.recover v now)).w := by
  simp only [applyOp]
  exact (recover_window s.cong s.w s.connected v now h.1 h.2).2.2

/-- Fast recovery is entered only by a NAK that leaves the window at 2000 or less. -/
theorem C06_fast_recovery_enter (s : WS) (op : Op)
    (h0 : s.cong.fastRecovery = false) (h1 : (applyOp s op).cong.fastRecovery = true) :
    ∃ now, op = .nak now ∧ (applyOp s op).w ≤ 2000 := by
  have hE := wconsts.2.2.2.2.2.2.1
  cases op with
  | nak now =>
    refine ⟨now, rfl, ?_⟩
    simp only [applyOp, Cong.handleNak, h0] at h1 ⊢
    simp only [Bool.false_or, Bool.not_false, Bool.and_true, decide_eq_true_eq] at h1
    omega
  | ackClassic inf => simp [applyOp, h0] at h1
  | ackEnhanced inf => simp [applyOp, Cong.ackEnhanced, h0] at h1
  | ackGlobal => simp only [applyOp] at h1; split at h1 <;> simp [h0] at h1
  | recover v now =>
    simp only [applyOp, Cong.recover] at h1
    split at h1
    · simp [h0] at h1
    · split at h1 <;> simp [h0] at h1
  | resetRecovery => simp [applyOp, h0] at h1
  | resetReconnect => simp [applyOp] at h1
  | reg3 => simp [applyOp] at h1
  | setLink c hd => simp [applyOp, h0] at h1

/-- Fast recovery is left only at a window of 12000 or more, or on a link reset
(`reset_for_reconnect`, or REG3's `clear_pre_registration_state`). -/
theorem C06_fast_recovery_leave (s : WS) (op : Op)
    (h0 : s.cong.fastRecovery = true) (h1 : (applyOp s op).cong.fastRecovery = false) :
    (applyOp s op).w ≥ 12000 ∨ op = .resetReconnect ∨ op = .reg3 := by
  have hL := wconsts.2.2.2.2.2.2.2
  cases op with
  | nak now => simp [applyOp, Cong.handleNak, h0] at h1
  | ackClassic inf => simp [applyOp, h0] at h1
  | ackEnhanced inf =>
    left
    simp only [applyOp, Cong.ackEnhanced, h0] at h1 ⊢
    simp only [Bool.true_and, Bool.not_eq_false', decide_eq_true_eq] at h1
    omega
  | ackGlobal => simp only [applyOp] at h1; split at h1 <;> simp [h0] at h1
  | recover v now =>
    left
    simp only [applyOp, Cong.recover] at h1 ⊢
    split at h1
    · simp [h0] at h1
    · rename_i hc
      rw [if_neg hc]
      split at h1
      · rename_i hm
        rw [if_pos hm]
        simp only [clearBurst_fastRecovery, h0, Bool.true_and, Bool.not_eq_false', decide_eq_true_eq] at h1 ⊢
        omega
      · simp [h0] at h1
  | resetRecovery => simp [applyOp, h0] at h1
  | resetReconnect => right; left; rfl
  | reg3 => right; right; rfl
  | setLink c hd => simp [applyOp, h0] at h1

/-- The window view of a model connection. -/
def proj (c : Conn) : WS :=
  { w := c.window, cong := c.cong, connected := c.connected, heard := c.lastReceived.isSome }

/-- `applyOp` is exactly what the connection model's operations do to the window view, so the
theorems above are statements about `Srtla.Conn` (the model run against the real code). -/
theorem C06_ops_are_conn_ops (c : Conn) (seq : Int) (now : Nat) (v : Bool) :
    (proj (c.nak seq now).1 = proj c ∨ proj (c.nak seq now).1 = applyOp (proj c) (.nak now)) ∧
    (proj (c.srtlaAck seq true now).1 = proj c ∨
      ∃ inf, proj (c.srtlaAck seq true now).1 = applyOp (proj c) (.ackClassic inf)) ∧
    (proj (c.srtlaAck seq false now).1 = proj c ∨
      ∃ inf, proj (c.srtlaAck seq false now).1 = applyOp (proj c) (.ackEnhanced inf)) ∧
    proj c.ackGlobal = applyOp (proj c) .ackGlobal ∧
    proj (c.srtAck seq now).1 = proj c ∧
    proj (c.register seq now) = proj c ∧
    proj c.markForRecovery = applyOp (proj c) .resetRecovery ∧
    proj c.resetForReconnect = applyOp (proj c) .resetReconnect := by
  refine ⟨?_, ?_, ?_, ?_, ?_, ?_, ?_, ?_⟩
  · unfold Conn.nak; split
    · right; simp [proj, applyOp]
    · left; rfl
  · unfold Conn.srtlaAck; split
    · right; exact ⟨((logErase c.log seq).length : Int), by simp [proj, applyOp]⟩
    · left; rfl
  · unfold Conn.srtlaAck; split
    · right; exact ⟨((logErase c.log seq).length : Int), by simp [proj, applyOp]⟩
    · left; rfl
  · unfold Conn.ackGlobal; simp only [proj, applyOp]; split <;> simp_all
  · unfold Conn.srtAck; split <;> simp [proj]
  · simp [Conn.register, proj]
  · simp [Conn.markForRecovery, Conn.resetCore, proj, applyOp]
  · simp [Conn.resetForReconnect, Conn.resetCore, proj, applyOp]

/-- Non-vacuity: a link in fast recovery at window 11990 with a backlog leaves it on an earned
enhanced ACK (window 12019 ≥ 12000), and the hypotheses of the theorems above are met. -/
example :
    (1000 : Int) ≤ 11990 ∧ (11990 : Int) ≤ 60000 ∧
    (applyOp { w := 11990, cong := { fastRecovery := true }, connected := true, heard := true }
      (.ackEnhanced 50)).w = 12019 ∧
    (applyOp { w := 11990, cong := { fastRecovery := true }, connected := true, heard := true }
      (.ackEnhanced 50)).cong.fastRecovery = false := by
  decide

/-- Non-vacuity for the extreme in-flight clause: with `i32::MAX` packets in flight the
saturating product still reads "grow" and the window takes one ordinary +29 step. -/
example : ackClassic 1500 2147483647 = 1529 := by decide

/-! # Round 3 — shell level: direction, resets and fast recovery over `Sys.step`

`Lemmas/SysDir.lean` walks through `Sys.step` once for a two-state relation (`LinkRun`, `step_run`): the
record of the link at index `j` after ANY event is obtained from its record before the event by a finite
sequence of the per-link operations that event may apply to that link.  Here:

* `C06_shell_refines` — on the window view `proj l.core` every event is, link by link, a history of THIS
  file's abstract machine (`applyOp`), using only the abstract ops the event allows (`shellOk`): the NAK rule
  only in a NAK datagram (type 0x8003), the ACK rules only in an SRTLA-ACK datagram (0x9100; classic rule
  iff classic mode), `mark_for_recovery` only after a failed send of a client datagram or on REG_ERR (0x9210,
  arrival link only), `reset_for_reconnect` and the time-based recovery only in housekeeping (the latter only
  if NOT classic), REG3 (0x9202) only on its arrival link; liveness flags: only `heard` is free, `connected`
  changes only through those tear-downs / REG3.
* `C06_direction_client / _flush / _config / _uplink / _hk`, `C06_direction_sys` — direction of every window
  change of every link in every event.
* `C06_reset_ops`, `C06_reset_sys` — the tear-downs (effect ⇒ cause); `C06_teardown_resets_window_sys` — cause ⇒ reset
  (`TearCause`, `TornDown`), the converse frame, and the periodic flush that is never a tear-down.
* `C06_fast_recovery_sys`, `C06_fast_recovery_run` — entry / exit of fast recovery, per event and along runs.

Scalar-generic (hold at `Float`).
-/

section shell
open Srtla Srtla.Link

/-- History-level reachability in the abstract machine; the legality of an op may depend on the state it
is applied to. -/
inductive Reach (ok : WS → Op → Prop) : WS → WS → Prop
  | refl (a : WS) : Reach ok a a
  | step {a b : WS} (op : Op) : Reach ok a b → ok b op → Reach ok a (applyOp b op)

theorem Reach.trans {ok : WS → Op → Prop} {a b c : WS} (h1 : Reach ok a b) (h2 : Reach ok b c) : Reach ok a c := by
  induction h2 with
  | refl => exact h1
  | step op _ hok ih => exact .step op ih hok

/-- `Reach` is reachability by a history (`run`) of the abstract machine. -/
theorem Reach.exists_run {ok : WS → Op → Prop} {a b : WS} (h : Reach ok a b) : ∃ ops : List Op, b = run a ops := by
  induction h with
  | refl => exact ⟨[], rfl⟩
  | step op _ _ ih =>
    obtain ⟨ops, rfl⟩ := ih
    exact ⟨ops ++ [op], by simp [run, List.foldl_append]⟩

/-- The abstract ops a sequence of shell operations drawn from `A` can apply in mode `classic` when the
machine is in state `b`.  `connected` is NOT environment here: a `setLink` may only change `heard`. -/
def shellOk (classic : Bool) (A : SysDir.Op → Prop) (b : WS) : Op → Prop
  | .setLink c _ => c = b.connected
  | .resetRecovery => A .mark
  | .resetReconnect => A .reconnect
  | .reg3 => A .reg3
  | .recover _ _ => A .recover
  | .nak _ => A .nak
  | .ackClassic _ => A .sack ∧ classic = true
  | .ackEnhanced _ => A .sack ∧ classic = false
  | .ackGlobal => A .gack

theorem Reach.flags {classic : Bool} {A : SysDir.Op → Prop} {s a : WS}
    (h : Reach (shellOk classic A) s a) (b : WS) (hw : b.w = a.w) (hc : b.cong = a.cong)
    (hcn : b.connected = a.connected) : Reach (shellOk classic A) s b := by
  have : b = applyOp a (.setLink a.connected b.heard) := by
    cases b
    simp only at hw hc hcn
    subst hw hc hcn
    rfl
  rw [this]
  exact .step _ h rfl

theorem Reach.eqv {ok : WS → Op → Prop} {s a b : WS} (h : Reach ok s a) (e : b = a) : Reach ok s b := e ▸ h

variable {F : Type} [Scalar F]

/-- **Refinement, operation level**: a sequence of shell operations is, on the window view, a history of the
abstract machine. -/
theorem C06_refines_linkRun {now : Nat} {classic : Bool} {A : SysDir.Op → Prop} {l l' : FLink F}
    (h : SysDir.LinkRun now classic A l l') : Reach (shellOk classic A) (proj l.core) (proj l'.core) := by
  have neutral : ∀ {a b : FLink F}, Reach (shellOk classic A) (proj l.core) (proj a.core) → SysDir.SameW a b →
      Reach (shellOk classic A) (proj l.core) (proj b.core) :=
    fun hr hs => hr.flags _ hs.1 hs.2.1 hs.2.2
  induction h with
  | refl => exact .refl _
  | sent _ _ ih => exact neutral ih ⟨rfl, rfl, rfl⟩
  | heard _ _ ih => exact neutral ih ⟨rfl, rfl, rfl⟩
  | grace _ _ ih => exact neutral ih ⟨rfl, rfl, rfl⟩
  | probeDue _ _ ih => exact neutral ih (SysDir.sameW_probeDue _)
  | queue pkt seq _ _ _ ih => exact neutral ih ⟨rfl, rfl, rfl⟩
  | take _ _ ih => exact neutral ih (SysDir.sameW_take _ now)
  | @mark a ha _ ih =>
    have e : proj a.markForRecovery.core = applyOp (proj a.core) .resetRecovery := by
      rw [SysDir.markForRecovery_core]
      exact (C06_ops_are_conn_ops a.core 0 now false).2.2.2.2.2.2.1
    rw [e]
    exact .step _ ih ha
  | @attemptFail a ha _ ih =>
    -- failed socket re-creation: `record_attempt` (core untouched), then `mark_for_recovery`
    have hra : (a.recordAttempt now).core = a.core := by unfold FLink.recordAttempt; split <;> rfl
    have e : proj (Hk.failedLink a now).core = applyOp (proj a.core) .resetRecovery := by
      show proj (a.recordAttempt now).markForRecovery.core = _
      rw [SysDir.markForRecovery_core, hra]
      exact (C06_ops_are_conn_ops a.core 0 now false).2.2.2.2.2.2.1
    rw [e]
    exact .step _ ih ha
  | @reconnect a ha _ ih =>
    have e : proj (Hk.reconnectLink a now).core = applyOp (proj a.core) .resetReconnect := by
      rw [SysDir.reconnectLink_core]
      exact (C06_ops_are_conn_ops a.core 0 now false).2.2.2.2.2.2.2
    rw [e]
    exact .step _ ih ha
  | @reg3 a ha _ ih =>
    have e : proj (Uplink.reg3Link a now).core = applyOp (proj a.core) .reg3 := rfl
    rw [e]
    exact .step _ ih ha
  | kaSend _ _ ih => exact neutral ih ⟨rfl, rfl, rfl⟩
  | @recover a ha _ ih =>
    obtain ⟨v, hv⟩ := SysDir.recover_core a now
    have e : proj (a.performWindowRecovery now).core = applyOp (proj a.core) (.recover v now) := by
      rw [hv]; rfl
    rw [e]
    exact .step _ ih ha
  | tick _ _ ih => exact neutral ih (SysDir.sameW_tick _ now)
  | kaEcho data _ _ ih => exact neutral ih (SysDir.sameW_kaEcho _ data now)
  | srtAck x _ _ ih => exact neutral ih (SysDir.sameW_srtAck _ x now)
  | stamp w ld ccb cct _ _ ih => exact neutral ih ⟨rfl, rfl, rfl⟩
  | syncTimeout T _ _ ih => exact neutral ih ⟨rfl, rfl, rfl⟩
  | @sack a seq ha _ ih =>
    show Reach _ _ (proj (a.core.srtlaAck seq classic now).1)
    cases classic
    · rcases (C06_ops_are_conn_ops a.core seq now false).2.2.1 with e | ⟨inf, e⟩
      · exact ih.eqv e
      · rw [e]; exact .step _ ih ⟨ha, rfl⟩
    · rcases (C06_ops_are_conn_ops a.core seq now false).2.1 with e | ⟨inf, e⟩
      · exact ih.eqv e
      · rw [e]; exact .step _ ih ⟨ha, rfl⟩
  | @gack a ha _ ih =>
    show Reach _ _ (proj a.core.ackGlobal)
    rw [(C06_ops_are_conn_ops a.core 0 now false).2.2.2.1]
    exact .step _ ih ha
  | @nak a seq ha _ ih =>
    show Reach _ _ (proj (a.core.nak seq now).1)
    rcases (C06_ops_are_conn_ops a.core seq now false).1 with e | e
    · exact ih.eqv e
    · rw [e]; exact .step _ ih ha
  | select x _ _ ih => exact neutral ih ⟨rfl, rfl, rfl⟩

/-- **Refinement, event level** (every constructor of `Sys.Ev`, every link index): the list length is
invariant and the window view of link `j` after the event is reached from its view before the event by a
history of the abstract machine whose ops are all allowed by the event for that link.
`hnr`: over events / runs that keep the link set (no `Ev.reload`); a reload keeps the whole record of every retained link
(`Props/SysReload.lean: reload_frame`) and the theorem applies again from the state after it. -/
theorem C06_shell_refines (s : Sys.Sys F) (e : Sys.Ev) (hnr : e.isReload = false) :
    (Sys.step s e).1.links.length = s.links.length ∧
    ∀ (j : Nat) (l : FLink F), s.links[j]? = some l →
      ∃ l', (Sys.step s e).1.links[j]? = some l' ∧
        Reach (shellOk s.cfg.classic (SysDir.evOps s e j)) (proj l.core) (proj l'.core) := by
  obtain ⟨h1, h2⟩ := SysDir.step_run s e hnr
  refine ⟨h1, fun j l hl => ?_⟩
  obtain ⟨l', hl', hr⟩ := h2 j l hl
  exact ⟨l', hl', C06_refines_linkRun hr⟩

/-! ## Histories of the abstract machine, classified by the ops they may contain -/

section histories
variable {classic : Bool} {A : SysDir.Op → Prop} {s a : WS}

theorem ackGlobal_frame (b : WS) :
    (applyOp b .ackGlobal).cong = b.cong ∧ (applyOp b .ackGlobal).connected = b.connected := by
  simp only [applyOp]
  split <;> exact ⟨rfl, rfl⟩

theorem recover_off (b : WS) (v : Bool) (now : Nat) (hc : b.connected = false) : applyOp b (.recover v now) = b := by
  cases b with
  | mk w cong connected heard =>
    simp only at hc
    subst hc
    simp only [applyOp, Hk.recover_disconnected]

/-- A history without any window-changing op: only `heard` may change. -/
theorem reach_neutral (hm : ¬ A .mark) (hrc : ¬ A .reconnect) (hr3 : ¬ A .reg3) (hrv : ¬ A .recover)
    (hnk : ¬ A .nak) (hsk : ¬ A .sack) (hgk : ¬ A .gack) (h : Reach (shellOk classic A) s a) :
    a.w = s.w ∧ a.cong = s.cong ∧ a.connected = s.connected := by
  induction h with
  | refl => exact ⟨rfl, rfl, rfl⟩
  | step op _ hok ih =>
    cases op with
    | setLink c hd => exact ⟨ih.1, ih.2.1, Eq.trans hok ih.2.2⟩
    | nak now => exact absurd hok hnk
    | ackClassic inf => exact absurd hok.1 hsk
    | ackEnhanced inf => exact absurd hok.1 hsk
    | ackGlobal => exact absurd hok hgk
    | recover v now => exact absurd hok hrv
    | resetRecovery => exact absurd hok hm
    | resetReconnect => exact absurd hok hrc
    | reg3 => exact absurd hok hr3

/-- A history whose only window-changing op is `mark_for_recovery`: congestion state kept; the window is
kept, or the link was torn down (20000, not connected). -/
theorem reach_mark_only (hrc : ¬ A .reconnect) (hr3 : ¬ A .reg3) (hrv : ¬ A .recover)
    (hnk : ¬ A .nak) (hsk : ¬ A .sack) (hgk : ¬ A .gack) (h : Reach (shellOk classic A) s a) :
    a.cong = s.cong ∧ ((a.w = s.w ∧ a.connected = s.connected) ∨ (a.w = 20000 ∧ a.connected = false ∧ A .mark)) := by
  have hI := wconsts.2.2.1
  induction h with
  | refl => exact ⟨rfl, .inl ⟨rfl, rfl⟩⟩
  | step op _ hok ih =>
    cases op with
    | setLink c hd =>
      refine ⟨ih.1, ?_⟩
      rcases ih.2 with h | h
      · exact .inl ⟨h.1, Eq.trans hok h.2⟩
      · exact .inr ⟨h.1, Eq.trans hok h.2.1, h.2.2⟩
    | nak now => exact absurd hok hnk
    | ackClassic inf => exact absurd hok.1 hsk
    | ackEnhanced inf => exact absurd hok.1 hsk
    | ackGlobal => exact absurd hok hgk
    | recover v now => exact absurd hok hrv
    | resetRecovery => exact ⟨ih.1, .inr ⟨hI, rfl, hok⟩⟩
    | resetReconnect => exact absurd hok hrc
    | reg3 => exact absurd hok hr3

/-- A history whose only window-changing op is the NAK rule: the window never rises — it is the old window
lowered by 100 per charge and floored at 1000 — and fast recovery, if it turns on, turns on at 2000 or less. -/
theorem reach_naks_only (hm : ¬ A .mark) (hrc : ¬ A .reconnect) (hr3 : ¬ A .reg3) (hrv : ¬ A .recover)
    (hsk : ¬ A .sack) (hgk : ¬ A .gack) (hs : InRange s.w) (h : Reach (shellOk classic A) s a) :
    InRange a.w ∧ a.w ≤ s.w ∧ (∃ k : Nat, a.w = max (s.w - 100 * k) 1000) ∧ a.connected = s.connected ∧
    (s.cong.fastRecovery = true → a.cong.fastRecovery = true) ∧
    (s.cong.fastRecovery = false → a.cong.fastRecovery = true → a.w ≤ 2000) := by
  induction h with
  | refl =>
    refine ⟨hs, Int.le_refl _, ⟨0, ?_⟩, rfl, id, fun h0 h1 => by rw [h0] at h1; cases h1⟩
    have := hs.1
    omega
  | @step b op _ hok ih =>
    obtain ⟨r, le, ⟨k, hk⟩, cn, f1, f2⟩ := ih
    cases op with
    | setLink c hd => exact ⟨r, le, ⟨k, hk⟩, Eq.trans hok cn, f1, f2⟩
    | nak now =>
      obtain ⟨n1, n2⟩ := C06_nak_nonincreasing b now r
      refine ⟨C06_range_step b _ r, Int.le_trans n1 le, ⟨k + 1, ?_⟩, cn, ?_, ?_⟩
      · rw [n2, hk]
        have := hs.1
        omega
      · intro h0
        have hb := f1 h0
        simp [applyOp, Cong.handleNak, hb]
      · intro h0 h1
        by_cases hb : b.cong.fastRecovery = true
        · exact Int.le_trans n1 (f2 h0 hb)
        · obtain ⟨_, _, hw⟩ := C06_fast_recovery_enter b (.nak now) (by simpa using hb) h1
          exact hw
    | ackClassic inf => exact absurd hok.1 hsk
    | ackEnhanced inf => exact absurd hok.1 hsk
    | ackGlobal => exact absurd hok hgk
    | recover v now => exact absurd hok hrv
    | resetRecovery => exact absurd hok hm
    | resetReconnect => exact absurd hok hrc
    | reg3 => exact absurd hok hr3

/-- A history whose only window-changing ops are the ACK rules (earned ACK, global `+1`): the window never
falls; in classic mode the congestion state is untouched; fast recovery never turns on, and turns off only
in enhanced mode at 12000 or more. -/
theorem reach_acks_only (hm : ¬ A .mark) (hrc : ¬ A .reconnect) (hr3 : ¬ A .reg3) (hrv : ¬ A .recover)
    (hnk : ¬ A .nak) (hs : InRange s.w) (h : Reach (shellOk classic A) s a) :
    InRange a.w ∧ s.w ≤ a.w ∧ a.connected = s.connected ∧ (classic = true → a.cong = s.cong) ∧
    (a.cong.fastRecovery = true → s.cong.fastRecovery = true) ∧
    (s.cong.fastRecovery = true → a.cong.fastRecovery = false → classic = false ∧ 12000 ≤ a.w) := by
  induction h with
  | refl => exact ⟨hs, Int.le_refl _, rfl, fun _ => rfl, id, fun h0 h1 => by rw [h0] at h1; cases h1⟩
  | @step b op _ hok ih =>
    obtain ⟨r, le, cn, cc, f1, f2⟩ := ih
    obtain ⟨a1, a2, a3⟩ := C06_ack_nondecreasing b 0 r
    cases op with
    | setLink c hd => exact ⟨r, le, Eq.trans hok cn, cc, f1, f2⟩
    | nak now => exact absurd hok hnk
    | ackClassic inf =>
      have a1' := (C06_ack_nondecreasing b inf r).1
      refine ⟨C06_range_step b _ r, Int.le_trans le a1', cn, cc, f1, ?_⟩
      intro h0 h1
      obtain ⟨c1, c2⟩ := f2 h0 h1
      exact ⟨c1, Int.le_trans c2 a1'⟩
    | ackEnhanced inf =>
      have a2' := (C06_ack_nondecreasing b inf r).2.1
      have ncl : ¬ classic = true := by rw [hok.2]; simp
      refine ⟨C06_range_step b _ r, Int.le_trans le a2', cn, fun hc => absurd hc ncl, ?_, ?_⟩
      · intro h1
        apply f1
        simp only [applyOp, Cong.ackEnhanced, Bool.and_eq_true] at h1
        exact h1.1
      · intro h0 h1
        refine ⟨hok.2, ?_⟩
        by_cases hb : b.cong.fastRecovery = true
        · rcases C06_fast_recovery_leave b (.ackEnhanced inf) hb h1 with h | h | h
          · exact h
          · cases h
          · cases h
        · exact Int.le_trans (f2 h0 (by simpa using hb)).2 a2'
    | ackGlobal =>
      obtain ⟨g1, g2⟩ := ackGlobal_frame b
      refine ⟨C06_range_step b _ r, Int.le_trans le a3, g2.trans cn, fun hc => g1.trans (cc hc), ?_, ?_⟩
      · intro h1; rw [g1] at h1; exact f1 h1
      · intro h0 h1
        rw [g1] at h1
        obtain ⟨c1, c2⟩ := f2 h0 h1
        exact ⟨c1, Int.le_trans c2 a3⟩
    | recover v now => exact absurd hok hrv
    | resetRecovery => exact absurd hok hm
    | resetReconnect => exact absurd hok hrc
    | reg3 => exact absurd hok hr3

/-- A history whose only window-relevant op is REG3: the window is kept; the congestion state is kept or
cleared (then the link is connected). -/
theorem reach_reg3_only (hm : ¬ A .mark) (hrc : ¬ A .reconnect) (hrv : ¬ A .recover)
    (hnk : ¬ A .nak) (hsk : ¬ A .sack) (hgk : ¬ A .gack) (h : Reach (shellOk classic A) s a) :
    a.w = s.w ∧ ((a.cong = s.cong ∧ a.connected = s.connected) ∨ (a.cong = {} ∧ a.connected = true ∧ A .reg3)) := by
  induction h with
  | refl => exact ⟨rfl, .inl ⟨rfl, rfl⟩⟩
  | step op _ hok ih =>
    cases op with
    | setLink c hd =>
      refine ⟨ih.1, ?_⟩
      rcases ih.2 with h | h
      · exact .inl ⟨h.1, Eq.trans hok h.2⟩
      · exact .inr ⟨h.1, Eq.trans hok h.2.1, h.2.2⟩
    | nak now => exact absurd hok hnk
    | ackClassic inf => exact absurd hok.1 hsk
    | ackEnhanced inf => exact absurd hok.1 hsk
    | ackGlobal => exact absurd hok hgk
    | recover v now => exact absurd hok hrv
    | resetRecovery => exact absurd hok hm
    | resetReconnect => exact absurd hok hrc
    | reg3 => exact ⟨ih.1, .inr ⟨rfl, rfl, hok⟩⟩

/-- A housekeeping history (`reset_for_reconnect`, and the time-based recovery only if NOT classic): the link
was torn down (20000, congestion state cleared, not connected), or its window did not fall — in classic mode
window and congestion state are untouched — fast recovery did not turn on, and turned off only at 12000 or more. -/
theorem reach_hk (hm : ¬ A .mark) (hr3 : ¬ A .reg3) (hnk : ¬ A .nak) (hsk : ¬ A .sack) (hgk : ¬ A .gack)
    (hrvc : A .recover → classic = false) (hs : InRange s.w) (h : Reach (shellOk classic A) s a) :
    (a.w = 20000 ∧ a.cong = {} ∧ a.connected = false ∧ A .reconnect) ∨
    (InRange a.w ∧ s.w ≤ a.w ∧ a.connected = s.connected ∧ (classic = true → a.w = s.w ∧ a.cong = s.cong) ∧
      (a.cong.fastRecovery = true → s.cong.fastRecovery = true) ∧
      (s.cong.fastRecovery = true → a.cong.fastRecovery = false → 12000 ≤ a.w)) := by
  have hI := wconsts.2.2.1
  induction h with
  | refl => exact .inr ⟨hs, Int.le_refl _, rfl, fun _ => ⟨rfl, rfl⟩, id, fun h0 h1 => by rw [h0] at h1; cases h1⟩
  | @step b op _ hok ih =>
    cases op with
    | setLink c hd =>
      rcases ih with h | ⟨r, le, cn, cc, f1, f2⟩
      · exact .inl ⟨h.1, h.2.1, Eq.trans hok h.2.2.1, h.2.2.2⟩
      · exact .inr ⟨r, le, Eq.trans hok cn, cc, f1, f2⟩
    | nak now => exact absurd hok hnk
    | ackClassic inf => exact absurd hok.1 hsk
    | ackEnhanced inf => exact absurd hok.1 hsk
    | ackGlobal => exact absurd hok hgk
    | recover v now =>
      rcases ih with h | ⟨r, le, cn, cc, f1, f2⟩
      · rw [recover_off b v now h.2.2.1]; exact .inl h
      · have hcl := hrvc hok
        have hge := C06_recovery_nondecreasing b v now r
        have ncl : ¬ classic = true := by rw [hcl]; simp
        refine .inr ⟨C06_range_step b _ r, Int.le_trans le hge, cn, fun hc => absurd hc ncl, ?_, ?_⟩
        · intro h1
          by_cases hb : b.cong.fastRecovery = true
          · exact f1 hb
          · obtain ⟨_, hop, _⟩ := C06_fast_recovery_enter b (.recover v now) (by simpa using hb) h1
            cases hop
        · intro h0 h1
          by_cases hb : b.cong.fastRecovery = true
          · rcases C06_fast_recovery_leave b (.recover v now) hb h1 with h | h | h
            · exact h
            · cases h
            · cases h
          · exact Int.le_trans (f2 h0 (by simpa using hb)) hge
    | resetRecovery => exact absurd hok hm
    | resetReconnect => exact .inl ⟨hI, rfl, rfl, hok⟩
    | reg3 => exact absurd hok hr3

end histories

/-! ## (a) Direction of every window change, per event constructor -/

section direction
variable {F : Type} [Scalar F]

/-- Every link's window is in `[1000, 60000]` — the invariant `Props/SysLevel.lean` proves along every run
(`C06_range_sys`). -/
def RangeInv (s : Sys.Sys F) : Prop := ∀ l ∈ s.links, InRange l.core.window

theorem refines_at (s : Sys.Sys F) (e : Sys.Ev) (hnr : e.isReload = false) (j : Nat) (l l' : FLink F)
    (hl : s.links[j]? = some l) (hl' : (Sys.step s e).1.links[j]? = some l') :
    Reach (shellOk s.cfg.classic (SysDir.evOps s e j)) (proj l.core) (proj l'.core) := by
  obtain ⟨l'', h1, h2⟩ := (C06_shell_refines s e hnr).2 j l hl
  rw [hl'] at h1
  cases h1
  exact h2

/-- **Client datagram** (`handle_srt_packet`): no link's congestion state changes; a window changes only if the
link is torn down after a failed send (`mark_for_recovery`: 20000, not connected). -/
theorem C06_direction_client (s : Sys.Sys F) (now : Nat) (pkt : Sys.Bytes) (j : Nat) (l l' : FLink F)
    (hl : s.links[j]? = some l) (hl' : (Sys.step s (.client now pkt)).1.links[j]? = some l') :
    l'.core.cong = l.core.cong ∧
    ((l'.core.window = l.core.window ∧ l'.core.connected = l.core.connected) ∨
     (l'.core.window = 20000 ∧ l'.core.connected = false)) := by
  have h := refines_at s _ rfl j l l' hl hl'
  have hn : ∀ op, op = SysDir.Op.reconnect ∨ op = .reg3 ∨ op = .recover ∨ op = .nak ∨ op = .sack ∨ op = .gack →
      ¬ SysDir.evOps s (.client now pkt) j op := by
    intro op hop hA
    have hA' : SysDir.clientOps op := hA
    unfold SysDir.clientOps at hA'
    rcases hop with rfl | rfl | rfl | rfl | rfl | rfl <;> rcases hA' with h | h | h | h | h <;> cases h
  obtain ⟨h1, h2⟩ := reach_mark_only (hn _ (.inl rfl)) (hn _ (.inr (.inl rfl))) (hn _ (.inr (.inr (.inl rfl))))
    (hn _ (.inr (.inr (.inr (.inl rfl))))) (hn _ (.inr (.inr (.inr (.inr (.inl rfl))))))
    (hn _ (.inr (.inr (.inr (.inr (.inr rfl)))))) h
  refine ⟨h1, ?_⟩
  rcases h2 with h | h
  · exact .inl h
  · exact .inr ⟨h.1, h.2.1⟩

/-- **Periodic flush** (`flush_all_batches`): window, congestion state and `connected` of every link untouched
(a failed periodic flush only warns). -/
theorem C06_direction_flush (s : Sys.Sys F) (now : Nat) (j : Nat) (l l' : FLink F)
    (hl : s.links[j]? = some l) (hl' : (Sys.step s (.flush now)).1.links[j]? = some l') :
    l'.core.window = l.core.window ∧ l'.core.cong = l.core.cong ∧ l'.core.connected = l.core.connected := by
  have h := refines_at s _ rfl j l l' hl hl'
  have hn : ∀ op, op ≠ SysDir.Op.take → ¬ SysDir.evOps s (.flush now) j op := fun op hop hA => hop hA
  exact reach_neutral (hn _ (by decide)) (hn _ (by decide)) (hn _ (by decide)) (hn _ (by decide))
    (hn _ (by decide)) (hn _ (by decide)) (hn _ (by decide)) h

/-- **Configuration events** (`setCfg`, `crit`, `failNext`): the links are not touched at all. -/
theorem C06_direction_config (s : Sys.Sys F) (cfg : Select.Cfg) (d cid : Nat) :
    (Sys.step s (.setCfg cfg)).1.links = s.links ∧ (Sys.step s (.crit d)).1.links = s.links ∧
    (Sys.step s (.failNext cid)).1.links = s.links := ⟨rfl, rfl, rfl⟩

theorem upA (data : Sys.Bytes) (pt : Nat) (arr : Bool) (op : SysDir.Op) (hpt : Codec.getPacketTypeS data = some pt) :
    (∃ pt', Codec.getPacketTypeS data = some pt' ∧ SysDir.upOps pt' arr op) ↔ SysDir.upOps pt arr op := by
  constructor
  · rintro ⟨pt', h1, h2⟩
    rw [hpt] at h1
    cases h1
    exact h2
  · exact fun h => ⟨pt, hpt, h⟩

theorem upOps_spec (pt : Nat) (arr : Bool) :
    (SysDir.upOps pt arr .mark ↔ arr = true ∧ pt = 0x9210) ∧ ¬ SysDir.upOps pt arr .reconnect ∧
    (SysDir.upOps pt arr .reg3 ↔ arr = true ∧ pt = 0x9202) ∧ ¬ SysDir.upOps pt arr .recover ∧
    (SysDir.upOps pt arr .nak ↔ pt = 0x8003) ∧ (SysDir.upOps pt arr .sack ↔ pt = 0x9100) ∧
    (SysDir.upOps pt arr .gack ↔ pt = 0x9100) := by
  simp [SysDir.upOps, SysDir.fanOps, SysDir.arrOps]

/-- **Uplink datagram** (`handle_uplink_packet`), by its type code `pt`, for EVERY link `j`:

* too short to carry a type code: nothing changes;
* SRT NAK (0x8003): no window rises — each is the old window lowered by 100 per charge and floored at 1000;
  fast recovery stays on if it was on, and turns on only at a window of 2000 or less;
* SRTLA ACK (0x9100): no window falls (and none leaves `[1000, 60000]`); in classic mode no congestion state
  changes; fast recovery never turns on and turns off only in enhanced mode at 12000 or more;
* REG_ERR (0x9210): congestion state kept everywhere; a window changes only on the ARRIVAL link, to 20000
  (`mark_for_recovery`, not connected);
* REG3 (0x9202): every window kept; the arrival link's congestion state is cleared and it is connected;
* any other type (SRT ACK, keepalive, REG_NGP, REG2, data, unknown): window, congestion state and `connected`
  of every link untouched. -/
theorem C06_direction_uplink (s : Sys.Sys F) (now cid : Nat) (data : Sys.Bytes) (hr : RangeInv s) (j : Nat)
    (l l' : FLink F) (hl : s.links[j]? = some l) (hl' : (Sys.step s (.uplink now cid data)).1.links[j]? = some l') :
    (Codec.getPacketTypeS data = none → l' = l) ∧
    ∀ pt, Codec.getPacketTypeS data = some pt →
      (pt = 0x8003 →
        l'.core.window ≤ l.core.window ∧ (∃ k : Nat, l'.core.window = max (l.core.window - 100 * k) 1000) ∧
        l'.core.connected = l.core.connected ∧
        (l.core.cong.fastRecovery = true → l'.core.cong.fastRecovery = true) ∧
        (l.core.cong.fastRecovery = false → l'.core.cong.fastRecovery = true → l'.core.window ≤ 2000)) ∧
      (pt = 0x9100 →
        l.core.window ≤ l'.core.window ∧ l'.core.window ≤ 60000 ∧ l'.core.connected = l.core.connected ∧
        (s.cfg.classic = true → l'.core.cong = l.core.cong) ∧
        (l'.core.cong.fastRecovery = true → l.core.cong.fastRecovery = true) ∧
        (l.core.cong.fastRecovery = true → l'.core.cong.fastRecovery = false →
          s.cfg.classic = false ∧ 12000 ≤ l'.core.window)) ∧
      (pt = 0x9210 →
        l'.core.cong = l.core.cong ∧
        ((l'.core.window = l.core.window ∧ l'.core.connected = l.core.connected) ∨
         (l'.core.window = 20000 ∧ l'.core.connected = false ∧
            s.links.findIdx? (·.core.connId == cid) = some j))) ∧
      (pt = 0x9202 →
        l'.core.window = l.core.window ∧
        ((l'.core.cong = l.core.cong ∧ l'.core.connected = l.core.connected) ∨
         (l'.core.cong = {} ∧ l'.core.connected = true ∧ s.links.findIdx? (·.core.connId == cid) = some j))) ∧
      (pt ≠ 0x8003 → pt ≠ 0x9100 → pt ≠ 0x9210 → pt ≠ 0x9202 →
        l'.core.window = l.core.window ∧ l'.core.cong = l.core.cong ∧ l'.core.connected = l.core.connected) := by
  have hrun := (SysDir.step_run s (.uplink now cid data) rfl).2 j l hl
  obtain ⟨l'', h1, hrun⟩ := hrun
  rw [hl'] at h1
  cases h1
  have h := refines_at s _ rfl j l l' hl hl'
  have hin : InRange l.core.window := hr l (List.mem_of_getElem? hl)
  constructor
  · intro hnone
    apply hrun.eq_of_none
    rintro op ⟨pt, hpt, -⟩
    rw [hnone] at hpt
    cases hpt
  intro pt hpt
  obtain ⟨sm, src, sr3, srv, snk, ssk, sgk⟩ :=
    upOps_spec pt (s.links.findIdx? (·.core.connId == cid) == some j)
  have hA : ∀ op, SysDir.evOps s (.uplink now cid data) j op ↔
      SysDir.upOps pt (s.links.findIdx? (·.core.connId == cid) == some j) op := fun op => upA data pt _ op hpt
  have nrc : ¬ SysDir.evOps s (.uplink now cid data) j .reconnect := fun h => src ((hA _).1 h)
  have nrv : ¬ SysDir.evOps s (.uplink now cid data) j .recover := fun h => srv ((hA _).1 h)
  have arr : ∀ {p : Prop}, ((s.links.findIdx? (·.core.connId == cid) == some j) = true ∧ p) →
      s.links.findIdx? (·.core.connId == cid) = some j := fun h => by simpa using h.1
  refine ⟨?_, ?_, ?_, ?_, ?_⟩
  · intro hp
    obtain ⟨-, a2, a3, a4, a5, a6⟩ := reach_naks_only
      (fun h => by have := (sm.1 ((hA _).1 h)).2; omega) nrc
      (fun h => by have := (sr3.1 ((hA _).1 h)).2; omega) nrv
      (fun h => by have := ssk.1 ((hA _).1 h); omega) (fun h => by have := sgk.1 ((hA _).1 h); omega) hin h
    exact ⟨a2, a3, a4, a5, a6⟩
  · intro hp
    obtain ⟨a1, a2, a3, a4, a5, a6⟩ := reach_acks_only
      (fun h => by have := (sm.1 ((hA _).1 h)).2; omega) nrc
      (fun h => by have := (sr3.1 ((hA _).1 h)).2; omega) nrv
      (fun h => by have := snk.1 ((hA _).1 h); omega) hin h
    exact ⟨a2, a1.2, a3, a4, a5, a6⟩
  · intro hp
    obtain ⟨a1, a2⟩ := reach_mark_only nrc
      (fun h => by have := (sr3.1 ((hA _).1 h)).2; omega) nrv
      (fun h => by have := snk.1 ((hA _).1 h); omega) (fun h => by have := ssk.1 ((hA _).1 h); omega)
      (fun h => by have := sgk.1 ((hA _).1 h); omega) h
    refine ⟨a1, ?_⟩
    rcases a2 with a | a
    · exact .inl a
    · exact .inr ⟨a.1, a.2.1, arr (sm.1 ((hA _).1 a.2.2))⟩
  · intro hp
    obtain ⟨a1, a2⟩ := reach_reg3_only
      (fun h => by have := (sm.1 ((hA _).1 h)).2; omega) nrc nrv
      (fun h => by have := snk.1 ((hA _).1 h); omega) (fun h => by have := ssk.1 ((hA _).1 h); omega)
      (fun h => by have := sgk.1 ((hA _).1 h); omega) h
    refine ⟨a1, ?_⟩
    rcases a2 with a | a
    · exact .inl a
    · exact .inr ⟨a.1, a.2.1, arr (sr3.1 ((hA _).1 a.2.2))⟩
  · intro p1 p2 p3 p4
    exact reach_neutral
      (fun h => p3 (sm.1 ((hA _).1 h)).2) nrc (fun h => p4 (sr3.1 ((hA _).1 h)).2) nrv
      (fun h => p1 (snk.1 ((hA _).1 h))) (fun h => p2 (ssk.1 ((hA _).1 h))) (fun h => p2 (sgk.1 ((hA _).1 h))) h

/-- **Housekeeping tick** (`handle_housekeeping`): a link is torn down for reconnect (20000, congestion state
cleared, not connected) — or, ONLY when a socket re-creation failure is injected for its conn id and the
re-creation of its reconnect attempt fails, marked for recovery (20000, congestion state KEPT, not connected) —,
or its window does not fall and stays in `[1000, 60000]` — and in CLASSIC mode its
window and congestion state are untouched (no time-based recovery) — fast recovery does not turn on, and turns
off only at 12000 or more. -/
theorem C06_direction_hk (s : Sys.Sys F) (now : Nat) (hr : RangeInv s) (j : Nat) (l l' : FLink F)
    (hl : s.links[j]? = some l) (hl' : (Sys.step s (.hk now)).1.links[j]? = some l') :
    (l'.core.window = 20000 ∧ l'.core.cong = {} ∧ l'.core.connected = false) ∨
    (l'.core.window = 20000 ∧ l'.core.cong = l.core.cong ∧ l'.core.connected = false ∧
      l.core.connId ∈ s.failBind) ∨
    (1000 ≤ l'.core.window ∧ l'.core.window ≤ 60000 ∧ l.core.window ≤ l'.core.window ∧
      l'.core.connected = l.core.connected ∧
      (s.cfg.classic = true → l'.core.window = l.core.window ∧ l'.core.cong = l.core.cong) ∧
      (l'.core.cong.fastRecovery = true → l.core.cong.fastRecovery = true) ∧
      (l.core.cong.fastRecovery = true → l'.core.cong.fastRecovery = false → 12000 ≤ l'.core.window)) := by
  by_cases hfail : SysDir.hkFailsAt s now j
  · -- the socket re-creation of this link's attempt fails: `record_attempt`, then `mark_for_recovery`
    obtain ⟨l0, t, hl0, hmem, hpost⟩ := SysDir.hkFailsAt_link hfail
    rw [hl] at hl0; cases hl0
    have hl'' : (Sys.handleHousekeeping s now).1.links[j]? = some l' := hl'
    rw [hpost] at hl''
    cases hl''
    obtain ⟨-, -, -, -, -, -, -, -, f9⟩ := Hk.failedLink_fields l now
    have hra : (l.recordAttempt now).core = l.core := by unfold FLink.recordAttempt; split <;> rfl
    refine .inr (.inl ⟨f9.window, ?_, f9.connected, hmem⟩)
    show (l.recordAttempt now).core.cong = l.core.cong
    rw [hra]
  have h := refines_at s _ rfl j l l' hl hl'
  have hin : InRange l.core.window := hr l (List.mem_of_getElem? hl)
  have hn : ∀ op, op = SysDir.Op.mark ∨ op = .reg3 ∨ op = .nak ∨ op = .sack ∨ op = .gack →
      ¬ SysDir.evOps s (.hk now) j op := by
    intro op hop hA
    rcases (hA : SysDir.hkOpsAt s now j op) with hA' | ⟨-, hf⟩
    · unfold SysDir.hkOps at hA'
      rcases hop with rfl | rfl | rfl | rfl | rfl <;> rcases hA' with h | h | h | h | h | ⟨h, -⟩ <;> cases h
    · exact hfail hf
  have hrv : SysDir.evOps s (.hk now) j .recover → s.cfg.classic = false := by
    intro hA
    rcases (hA : SysDir.hkOpsAt s now j .recover) with hA' | ⟨hm, -⟩
    · unfold SysDir.hkOps at hA'
      rcases hA' with h | h | h | h | h | ⟨-, h⟩
      · cases h
      · cases h
      · cases h
      · cases h
      · cases h
      · exact h
    · cases hm
  rcases reach_hk (hn _ (.inl rfl)) (hn _ (.inr (.inl rfl))) (hn _ (.inr (.inr (.inl rfl))))
    (hn _ (.inr (.inr (.inr (.inl rfl))))) (hn _ (.inr (.inr (.inr (.inr rfl))))) hrv hin h with a | a
  · exact .inl ⟨a.1, a.2.1, a.2.2.1⟩
  · exact .inr (.inr ⟨a.1.1, a.1.2, a.2⟩)

/-- A verdict stamp (`Ev.stamp`) leaves the whole accounting core of every link as it was. -/
theorem stamp_core (s : Sys.Sys F) (idx : Nat) (weak ld ccb : Bool) (cct : Nat) (j : Nat) (l l' : FLink F)
    (hl : s.links[j]? = some l) (hl' : (Sys.step s (.stamp idx weak ld ccb cct)).1.links[j]? = some l') :
    l'.core = l.core := by
  have hg : (Sys.stampLink s.links idx weak ld ccb cct)[j]? = some l' := hl'
  rw [Hk.stampLink_get, hl] at hg
  simp only [Option.map_some, Option.some.injEq] at hg
  rw [← hg]
  unfold Hk.stampOne
  split <;> rfl

/-- `sync_conn_timeout` (`Ev.syncTimeout`) leaves the whole accounting core of every link as it was. -/
theorem sync_core (s : Sys.Sys F) (j : Nat) (l l' : FLink F)
    (hl : s.links[j]? = some l) (hl' : (Sys.step s .syncTimeout).1.links[j]? = some l') :
    l'.core = l.core := by
  have hg : (s.links.map fun l => ({ l with connTimeoutMs := s.cfg.connTimeoutMs } : FLink F))[j]? = some l' := hl'
  rw [List.getElem?_map, hl] at hg
  simp only [Option.map_some, Option.some.injEq] at hg
  rw [← hg]

/-- **(a) Direction, every event constructor, every link** (the summary; the per-arm theorems above say more):
a client datagram, a flush, the configuration / injection events and the verdict stamps never change a window except by the tear-down after a
failed send (20000); an uplink datagram that is not an SRTLA ACK (0x9100) and not REG_ERR (0x9210) never
increases a window, one that is not an SRT NAK (0x8003) and not REG_ERR never decreases one, REG_ERR leaves
every window or resets it to 20000; housekeeping never decreases a window except by tear-down to 20000, and in
classic mode leaves every window that is not torn down unchanged; a reload (`Ev.reload`, the only event that
moves indices) leaves at every index a link of the pre-state with its WHOLE record, or a fresh `new_registering`
record (window 20000). -/
theorem C06_direction_sys (s : Sys.Sys F) (e : Sys.Ev) (hr : RangeInv s) (j : Nat) (l l' : FLink F)
    (hl : s.links[j]? = some l) (hl' : (Sys.step s e).1.links[j]? = some l') :
    match (generalizing := false) e with
    | .client _ _ => l'.core.cong = l.core.cong ∧ (l'.core.window = l.core.window ∨ l'.core.window = 20000)
    | .flush _ => l'.core.window = l.core.window ∧ l'.core.cong = l.core.cong
    | .setCfg _ => l' = l
    | .crit _ => l' = l
    | .failNext _ => l' = l
    | .failAfter _ _ => l' = l
    | .failBind _ => l' = l
    | .stamp _ _ _ _ _ => l'.core = l.core
    | .syncTimeout => l'.core = l.core
    | .reload now _ _ => l' ∈ s.links ∨ ∃ id a, l' = FLink.newUplink id a now
    | .uplink _ _ data =>
        (Codec.getPacketTypeS data = none → l' = l) ∧
        ∀ pt, Codec.getPacketTypeS data = some pt →
          (pt ≠ 0x9100 → pt ≠ 0x9210 → l'.core.window ≤ l.core.window) ∧
          (pt ≠ 0x8003 → pt ≠ 0x9210 → l.core.window ≤ l'.core.window) ∧
          (pt = 0x9210 → l'.core.window = l.core.window ∨ l'.core.window = 20000)
    | .hk _ =>
        l'.core.window = 20000 ∨
        (l.core.window ≤ l'.core.window ∧ (s.cfg.classic = true → l'.core.window = l.core.window)) := by
  cases e with
  | client now pkt =>
    obtain ⟨h1, h2⟩ := C06_direction_client s now pkt j l l' hl hl'
    exact ⟨h1, h2.elim (fun h => .inl h.1) (fun h => .inr h.1)⟩
  | flush now =>
    obtain ⟨h1, h2, -⟩ := C06_direction_flush s now j l l' hl hl'
    exact ⟨h1, h2⟩
  | setCfg cfg => rw [show (Sys.step s (.setCfg cfg)).1.links = s.links from rfl, hl] at hl'; exact (Option.some.inj hl').symm
  | crit d => rw [show (Sys.step s (.crit d)).1.links = s.links from rfl, hl] at hl'; exact (Option.some.inj hl').symm
  | failNext cid => rw [show (Sys.step s (.failNext cid)).1.links = s.links from rfl, hl] at hl'; exact (Option.some.inj hl').symm
  | failAfter cid kfa => rw [show (Sys.step s (.failAfter cid kfa)).1.links = s.links from rfl, hl] at hl'; exact (Option.some.inj hl').symm
  | failBind cid => rw [show (Sys.step s (.failBind cid)).1.links = s.links from rfl, hl] at hl'; exact (Option.some.inj hl').symm
  | stamp idx weak ld ccb cct => exact stamp_core s idx weak ld ccb cct j l l' hl hl'
  | syncTimeout => exact sync_core s j l l' hl hl'
  | reload rnow raddrs routs =>
    rcases Sys.mem_reload (List.mem_of_getElem? hl') with ⟨h1, -⟩ | ⟨id, a, -, -, h⟩
    · exact .inl h1
    · exact .inr ⟨id, a, h⟩
  | uplink now cid data =>
    obtain ⟨h0, h⟩ := C06_direction_uplink s now cid data hr j l l' hl hl'
    refine ⟨h0, fun pt hpt => ?_⟩
    obtain ⟨hnak, hack, herr, hreg3, hoth⟩ := h pt hpt
    refine ⟨fun p1 p2 => ?_, fun p1 p2 => ?_, fun p => (herr p).2.elim (fun h => .inl h.1) (fun h => .inr h.1)⟩
    · by_cases q1 : pt = 0x8003
      · exact (hnak q1).1
      · by_cases q2 : pt = 0x9202
        · exact Int.le_of_eq (hreg3 q2).1
        · exact Int.le_of_eq (hoth q1 p1 p2 q2).1
    · by_cases q1 : pt = 0x9100
      · exact (hack q1).1
      · by_cases q2 : pt = 0x9202
        · exact Int.le_of_eq (hreg3 q2).1.symm
        · exact Int.le_of_eq (hoth p1 q1 p2 q2).1.symm
  | hk now =>
    rcases C06_direction_hk s now hr j l l' hl hl' with h | h | h
    · exact .inl h.1
    · exact .inl h.1
    · exact .inr ⟨h.2.2.1, fun hc => (h.2.2.2.2.1 hc).1⟩

end direction

/-! ## (b) Tear-downs -/

section reset
variable {F : Type} [Scalar F]

/-- **What each reset does to window and congestion state** (the functions the shell calls): a fresh link
(`new_registering`) starts at 20000 with fast recovery off; `mark_for_recovery` (failed send, REG_ERR) sets the
window to 20000 and KEEPS the congestion state — including the fast-recovery flag ("soft reset: preserves
congestion stats") — so does housekeeping's fallback when the socket re-creation of a reconnect attempt fails
(`Hk.failedLink` = `record_attempt`, then `mark_for_recovery`); `reset_for_reconnect` (housekeeping's reconnect)
sets 20000 and clears the congestion state; REG3's `clear_pre_registration_state` KEEPS the window and clears the congestion state. -/
theorem C06_reset_ops (l : FLink F) (now id t : Nat) :
    (FLink.newRegistering id t : FLink F).core.window = 20000 ∧
    (FLink.newRegistering id t : FLink F).core.cong.fastRecovery = false ∧
    l.markForRecovery.core.window = 20000 ∧ l.markForRecovery.core.cong = l.core.cong ∧
    (l.resetForReconnect now).core.window = 20000 ∧ (l.resetForReconnect now).core.cong = {} ∧
    (Hk.reconnectLink l now).core.window = 20000 ∧ (Hk.reconnectLink l now).core.cong = {} ∧
    (l.clearPreRegistration now).core.window = l.core.window ∧ (l.clearPreRegistration now).core.cong = {} ∧
    (Uplink.reg3Link l now).core.window = l.core.window ∧ (Uplink.reg3Link l now).core.cong = {} ∧
    (Hk.failedLink l now).core.window = 20000 ∧ (Hk.failedLink l now).core.cong = l.core.cong := by
  have hI := wconsts.2.2.1
  have hra : (l.recordAttempt now).core = l.core := by unfold FLink.recordAttempt; split <;> rfl
  refine ⟨hI, rfl, hI, rfl, hI, rfl, ?_, ?_, rfl, rfl, rfl, rfl, hI, ?_⟩
  · rw [SysDir.reconnectLink_core]; exact hI
  · rw [SysDir.reconnectLink_core]; rfl
  · show (l.recordAttempt now).core.cong = l.core.cong
    rw [hra]

/-- **(b) Every tear-down anywhere in `Sys.step`**, for every event constructor and every link `j`.  Exactly
one of four things happens to the link:

1. it is not torn down: `connected` and "is registering" are what they were;
2. `mark_for_recovery` — a failed threshold send while handling a client datagram, REG_ERR arriving on this
   link, or housekeeping's reconnect of a timed-out link that is due when the socket re-creation FAILS (only
   possible if a failure is injected for the link's conn id, `Sys.failBind`): window 20000, nothing logged / in flight / queued, not connected, registering; the congestion state
   (fast-recovery flag included) is KEPT;
3. housekeeping's reconnect of a timed-out link that is due: the same clean state, congestion state CLEARED
   (fast recovery off);
4. REG3 arriving on this link: window KEPT, congestion state cleared (fast recovery off), connected.

Audit round 2: every arm of case 2 / 3 now names its CAUSE in the pre-state — the client arm: an injected send
failure for this link's conn id was pending (`connId ∈ s.failNext`) and was CONSUMED by the event, and the link is
the chosen link (`clientTarget`) or a connected link of a registered session that received a stall-probe copy
(guard on, data packet); the uplink arm: the datagram is a REG_ERR (type 0x9210) on this link's conn id; the
housekeeping arms: the link is timed out, a reconnect attempt is due, and it is not the never-established link
whose start-up grace window this very tick re-arms (`Hk.hkGraceIdx`).  This theorem reads "IF the link looks torn
down THEN a cause"; the converse "IF a cause THEN reset" is `C06_teardown_resets_window_sys`.
`hnr`: over events / runs that keep the link set (no `Ev.reload`); a reload keeps the whole record of every retained link
(`Props/SysReload.lean: reload_frame`) and the theorem applies again from the state after it. -/
theorem C06_reset_sys (s : Sys.Sys F) (e : Sys.Ev) (hnr : e.isReload = false) (j : Nat) (l l' : FLink F)
    (hl : s.links[j]? = some l) (hl' : (Sys.step s e).1.links[j]? = some l') :
    (l'.core.connected = l.core.connected ∧ (l'.core.phase = .registering ↔ l.core.phase = .registering)) ∨
    (l'.core.window = 20000 ∧ l'.core.connected = false ∧ l'.core.phase = .registering ∧ l'.core.log = [] ∧
      l'.core.inFlight = 0 ∧ l'.queue = [] ∧
      ((l'.core.cong = l.core.cong ∧
          ((∃ now pkt, e = .client now pkt ∧ l.core.connId ∈ s.failNext ∧
              (Sys.step s e).1.failNext.count l.core.connId < s.failNext.count l.core.connId ∧
              (SelShell.clientTarget s pkt now = some j ∨
               (SelShell.clientTarget s pkt now ≠ some j ∧ s.cfg.stallDeselect = true ∧
                 s.reg.hasConnected = true ∧ l.core.connected = true ∧
                 (Codec.getSrtSequenceNumberS pkt).isSome = true))) ∨
           (∃ now cid data, e = .uplink now cid data ∧ s.links.findIdx? (·.core.connId == cid) = some j ∧
              Codec.getPacketTypeS data = some 0x9210 ∧ l' = l.markForRecovery) ∨
           (∃ now, e = .hk now ∧ l.isTimedOut now = true ∧ l.shouldAttemptReconnect now = true ∧
              ¬ (Hk.hkGraceIdx s now = some j ∧ l.established = 0) ∧ l.core.connId ∈ s.failBind))) ∨
       (l'.core.cong = {} ∧ ∃ now, e = .hk now ∧ l.isTimedOut now = true ∧ l.shouldAttemptReconnect now = true ∧
          ¬ (Hk.hkGraceIdx s now = some j ∧ l.established = 0)))) ∨
    (∃ now cid data, e = .uplink now cid data ∧ s.links.findIdx? (·.core.connId == cid) = some j ∧
      l' = Uplink.reg3Link l now ∧ l'.core.window = l.core.window ∧ l'.core.cong = {} ∧ l'.core.connected = true) := by
  cases e with
  | client now pkt =>
    have hl2 : (Sys.handleSrtPacket s pkt now).1.links[j]? = some l' := hl'
    have hcong := (C06_direction_client s now pkt j l l' hl hl').1
    have hx : Audit2B.SendX s.failNext (Sys.handleSrtPacket s pkt now).1.failNext l l' := by
      obtain ⟨l'', h1, hx⟩ := (Audit2B.client_px s pkt now).get j l hl
      rw [hl2] at h1; cases h1; exact hx
    cases SelShell.client_liveAcct s pkt now j l l' hl hl2 with
    | idle ht h =>
      have hc : l'.core = l.core := congrArg (·.core) h
      exact .inl ⟨by rw [hc], by rw [hc]⟩
    | target ht h =>
      rcases hx with hk | ⟨hr, -, hlt⟩
      · exact .inl ⟨hk.connected, hk.phaseReg⟩
      · exact .inr (.inl ⟨hr.1.window, hr.1.connected, hr.2, hr.1.log, hr.1.inFlight, hr.1.queue,
          .inl ⟨hcong, .inl ⟨now, pkt, rfl, List.count_pos_iff.1 (by omega), hlt, .inl ht⟩⟩⟩)
    | probe ht hne hreg hon hseq hsome hc hg h =>
      rcases hx with hk | ⟨hr, -, hlt⟩
      · exact .inl ⟨hk.connected, hk.phaseReg⟩
      · exact .inr (.inl ⟨hr.1.window, hr.1.connected, hr.2, hr.1.log, hr.1.inFlight, hr.1.queue,
          .inl ⟨hcong, .inl ⟨now, pkt, rfl, List.count_pos_iff.1 (by omega), hlt,
            .inr ⟨ht, hon, hreg, hc, hseq⟩⟩⟩⟩)
  | uplink now cid data =>
    obtain ⟨l'', h1, hs⟩ := (Hk.step_link s (.uplink now cid data) rfl).1 j l hl
    rw [hl'] at h1
    cases h1
    cases hs with
    | evolves cto hcto h => exact .inl ⟨h.connected, h.phaseReg⟩
    | sendFail now' pkt he h hcons => cases he
    | reg3 now' cid' data' he hidx hev hl3 hhc =>
      cases he
      have e3 : l' = Uplink.reg3Link l now := hl3
      exact .inr (.inr ⟨now, cid, data, rfl, hidx, e3, by rw [e3]; rfl, by rw [e3]; rfl, by rw [e3]; rfl⟩)
    | regErr now' cid' data' he hidx hev hlE =>
      cases he
      have hcl := Hk.clean_markForRecovery l
      rw [← hlE] at hcl
      exact .inr (.inl ⟨hcl.window, hcl.connected, by rw [hlE]; rfl, hcl.log, hcl.inFlight, hcl.queue,
        .inl ⟨by rw [hlE]; rfl, .inr (.inl ⟨now, cid, data, rfl, hidx,
          (Hk.regEvent_of_type s.reg j data now).1.1 hev, hlE⟩)⟩⟩)
    | attempt now' he => cases he
    | attemptFailed now' he => cases he
  | hk now =>
    have hl2 : (Sys.handleHousekeeping s now).1.links[j]? = some l' := hl'
    cases hd : Audit2B.hkDue s now j l with
    | false =>
      obtain ⟨l'', h1, h⟩ := Audit2B.hk_not_due_link s now j l hl hd
      rw [hl2] at h1; cases h1
      exact .inl ⟨h.connected, h.phaseReg⟩
    | true =>
      obtain ⟨hto, hsa, hgr⟩ := (Audit2B.hkDue_iff s now j l).1 hd
      obtain ⟨t, ht⟩ := Audit2B.hk_due_link s now j l hl hd
      rw [hl2] at ht
      have ht : l' = Hk.withSent (Hk.attemptLink (Hk.hkFails s now j l.core.connId) l now) t :=
        Option.some.inj ht
      cases hf : Hk.hkFails s now j l.core.connId with
      | false =>
        rw [hf] at ht
        have ht' : l' = Hk.withSent (Hk.reconnectLink l now) t := ht
        obtain ⟨-, -, -, -, -, f6, -, f8, -, f10⟩ := Hk.reconnectLink_fields l now
        exact .inr (.inl ⟨by rw [ht']; exact f10.window, by rw [ht']; exact f10.connected, by rw [ht']; exact f6,
          by rw [ht']; exact f10.log, by rw [ht']; exact f10.inFlight, by rw [ht']; exact f10.queue,
          .inr ⟨by rw [ht']; exact f8, now, rfl, hto, hsa, hgr⟩⟩)
      | true =>
        rw [hf] at ht
        have ht' : l' = Hk.withSent (Hk.failedLink l now) t := ht
        obtain ⟨-, -, -, -, -, f6, -, -, f9⟩ := Hk.failedLink_fields l now
        have hra : (l.recordAttempt now).core = l.core := by unfold FLink.recordAttempt; split <;> rfl
        have cg : l'.core.cong = l.core.cong := by
          rw [ht']
          show (l.recordAttempt now).core.cong = l.core.cong
          rw [hra]
        exact .inr (.inl ⟨by rw [ht']; exact f9.window, by rw [ht']; exact f9.connected, by rw [ht']; exact f6,
          by rw [ht']; exact f9.log, by rw [ht']; exact f9.inFlight, by rw [ht']; exact f9.queue,
          .inl ⟨cg, .inr (.inr ⟨now, rfl, hto, hsa, hgr, Hk.hkFails_mem s now j _ hf⟩)⟩⟩)
  | _ =>
    obtain ⟨l'', h1, hs⟩ := (Hk.step_link s _ hnr).1 j l hl
    rw [hl'] at h1
    cases h1
    cases hs with
    | evolves cto hcto h => exact .inl ⟨h.connected, h.phaseReg⟩
    | sendFail now' pkt he h hcons => cases he
    | reg3 now' cid' data' he => cases he
    | regErr now' cid' data' he => cases he
    | attempt now' he => cases he
    | attemptFailed now' he => cases he

/-- The state every tear-down leaves behind: window back at 20000, nothing in flight, logged or queued, not
connected, registering. -/
def TornDown (l' : FLink F) : Prop :=
  l'.core.window = 20000 ∧ l'.core.inFlight = 0 ∧ l'.core.log = [] ∧ l'.queue = [] ∧
  l'.core.connected = false ∧ l'.core.phase = .registering

/-- **The three causes of a tear-down of link `j`, as conditions on the event and the PRE-state** (`l` = the
link's record before the event):
* a REG_ERR datagram (type code 0x9210) arrives on the link's conn id (receiver-initiated);
* a client datagram whose handling CONSUMES an injected send failure for the link's conn id — i.e. a batch of
  this link was taken (`take_batch`) and its `send_all_datagrams` failed (the failure list loses one entry for
  that id); the link is the chosen link or one that got a stall-probe copy (`C06_reset_sys`);
* a housekeeping tick that finds the link timed out with a reconnect attempt due (`is_timed_out ∧
  should_attempt_reconnect` at the tick's clock) — whether the socket re-creation then succeeds or is refused —
  except the one never-established link whose start-up grace window this very tick re-arms because the
  start-up probing completes in it (`Hk.hkGraceIdx`, `none` unless the manager was still probing).
A periodic flush is NOT in the list: `flush_all_batches` only warns when its send fails. -/
def TearCause (s : Sys.Sys F) (e : Sys.Ev) (j : Nat) (l : FLink F) : Prop :=
  (∃ now cid data, e = .uplink now cid data ∧ s.links.findIdx? (·.core.connId == cid) = some j ∧
    Codec.getPacketTypeS data = some 0x9210) ∨
  (∃ now pkt, e = .client now pkt ∧
    (Sys.step s e).1.failNext.count l.core.connId < s.failNext.count l.core.connId) ∨
  (∃ now, e = .hk now ∧ l.isTimedOut now = true ∧ l.shouldAttemptReconnect now = true ∧
    ¬ (Hk.hkGraceIdx s now = some j ∧ l.established = 0))

/-- **Condition ⇒ reset** (audit round 2: `C06_reset_sys` reads "IF the flags changed THEN a cause" and is
silent about a link that was ALREADY registering and not connected; this is the direction the property sentence
"returns to 20000 whenever the link is torn down for recovery or reconnect" needs).  For every event of the shell
and every link `j` (`l` before, `l'` after):

1. IF a tear-down cause holds (`TearCause`: REG_ERR on the link's conn id / a client datagram that consumes an
   injected send failure for it / a tick that finds it timed out and due) THEN the link comes out `TornDown`:
   window 20000, in-flight 0, log and queue empty, not connected, registering — WHATEVER `connected`, the phase
   and the window were before (a never-registered link whose window moved on pre-registration traffic
   included).  For the client cause the conn ids of the links are assumed pairwise distinct (`C01`'s invariant:
   they are allocated from a counter), so that "a failure for this conn id" identifies the link.
2. The client cause for the CHOSEN link as a pure pre-state condition, no distinctness needed: if `j` is the link
   the datagram is forwarded on, the batch threshold is reached with this datagram
   (`batchSize ≤ queued + 1`) and a send failure is pending for its conn id, then the link comes out `TornDown`
   and that failure is consumed.
3. A periodic flush is never a tear-down, not even when it consumes an injected failure: window, `connected`
   and registering-ness of every link are what they were (the batch is lost: `C01`'s `LossCause (.flush)`).
4. The converse frame: with NO cause the link is not torn down — `connected` and registering-ness are kept, or
   the event is a REG3 on this link (window kept) — and the window moves only as `C06_direction_sys` says with
   the reset alternative REMOVED: a client datagram leaves it alone, a REG_ERR (necessarily on another link)
   leaves it alone, a tick does not lower it and in classic mode leaves it alone (`[1000, 60000]` assumed of the
   pre-state: `RangeInv`); the other uplink types are `C06_direction_uplink`.

`hnr`: over events / runs that keep the link set (no `Ev.reload`); a reload keeps the whole record of every retained link
(`Props/SysReload.lean: reload_frame`) and the theorem applies again from the state after it. -/
theorem C06_teardown_resets_window_sys (s : Sys.Sys F) (e : Sys.Ev) (hnr : e.isReload = false) (hr : RangeInv s)
    (j : Nat) (l l' : FLink F)
    (hl : s.links[j]? = some l) (hl' : (Sys.step s e).1.links[j]? = some l') :
    (TearCause s e j l → ((∃ now pkt, e = .client now pkt) → (s.links.map (·.core.connId)).Nodup) →
      TornDown l') ∧
    (∀ now pkt, e = .client now pkt → SelShell.clientTarget s pkt now = some j →
      l.regime.batchSize ≤ l.queue.length + 1 → s.failNext.contains l.core.connId = true →
      TornDown l' ∧ (Sys.step s e).1.failNext.count l.core.connId < s.failNext.count l.core.connId) ∧
    (∀ now, e = .flush now →
      l'.core.window = l.core.window ∧ l'.core.connected = l.core.connected ∧
      (l'.core.phase = .registering ↔ l.core.phase = .registering)) ∧
    (¬ TearCause s e j l →
      ((l'.core.connected = l.core.connected ∧ (l'.core.phase = .registering ↔ l.core.phase = .registering)) ∨
       (∃ now cid data, e = .uplink now cid data ∧ s.links.findIdx? (·.core.connId == cid) = some j ∧
          l' = Uplink.reg3Link l now ∧ l'.core.window = l.core.window ∧ l'.core.connected = true)) ∧
      (∀ now pkt, e = .client now pkt → l'.core.window = l.core.window) ∧
      (∀ now, e = .hk now →
        l.core.window ≤ l'.core.window ∧ (s.cfg.classic = true → l'.core.window = l.core.window)) ∧
      (∀ now cid data, e = .uplink now cid data → Codec.getPacketTypeS data = some 0x9210 →
        l'.core.window = l.core.window)) := by
  have hin : InRange l.core.window := hr l (List.mem_of_getElem? hl)
  have ofReset : ∀ {x : FLink F}, Audit2B.Reset x → TornDown x := fun h =>
    ⟨h.1.window, h.1.inFlight, h.1.log, h.1.queue, h.1.connected, h.2⟩
  refine ⟨?_, ?_, ?_, ?_⟩
  · -- (1) cause ⇒ reset
    rintro (⟨now, cid, data, rfl, hidx, hty⟩ | ⟨now, pkt, rfl, hlt⟩ | ⟨now, rfl, hto, hsa, hgr⟩) hnd
    · have h := Audit2B.regErr_link s cid data now j l hl hidx hty
      have hl2 : (Sys.handleUplinkPacket s cid data now).1.links[j]? = some l' := hl'
      rw [hl2] at h
      have e' : l' = l.markForRecovery := Option.some.inj h
      rw [e']
      exact ofReset (Audit2B.reset_markForRecovery l)
    · exact ofReset (Audit2B.client_consumed_link s pkt now j l l' (hnd ⟨now, pkt, rfl⟩) hl hl' hlt)
    · have hd : Audit2B.hkDue s now j l = true := (Audit2B.hkDue_iff s now j l).2 ⟨hto, hsa, hgr⟩
      obtain ⟨t, ht⟩ := Audit2B.hk_due_link s now j l hl hd
      have hl2 : (Sys.handleHousekeeping s now).1.links[j]? = some l' := hl'
      rw [hl2] at ht
      have e' : l' = Hk.withSent (Hk.attemptLink (Hk.hkFails s now j l.core.connId) l now) t := Option.some.inj ht
      obtain ⟨-, -, -, f4, -, -, f7⟩ := Hk.attemptLink_fields (Hk.hkFails s now j l.core.connId) l now
      rw [e']
      exact ⟨f7.window, f7.inFlight, f7.log, f7.queue, f7.connected, f4⟩
  · -- (2) the chosen link, pre-state form
    rintro now pkt rfl htgt hthr hfn
    have hl2 : (Sys.handleSrtPacket s pkt now).1.links[j]? = some l' := hl'
    have hq : (l.queueDataPacket pkt (Codec.getSrtSequenceNumberS pkt) now).2 = true := by
      unfold FLink.queueDataPacket
      simp only [List.length_append, List.length_cons, List.length_nil, decide_eq_true_eq]
      omega
    obtain ⟨h1, h2⟩ := Audit2B.client_target_fails s pkt now j l l' hl hl2 htgt hq hfn
    exact ⟨ofReset h1, h2⟩
  · -- (3) periodic flush
    rintro now rfl
    obtain ⟨a, -, c⟩ := C06_direction_flush s now j l l' hl hl'
    refine ⟨a, c, ?_⟩
    obtain ⟨l'', h1, hs⟩ := (Hk.step_link s (.flush now) rfl).1 j l hl
    rw [hl'] at h1; cases h1
    cases hs with
    | evolves cto hcto h => exact h.phaseReg
    | sendFail now' pkt he => cases he
    | reg3 now' cid' data' he => cases he
    | regErr now' cid' data' he => cases he
    | attempt now' he => cases he
    | attemptFailed now' he => cases he
  · -- (4) converse frame
    intro hno
    refine ⟨?_, ?_, ?_, ?_⟩
    · rcases C06_reset_sys s e hnr j l l' hl hl' with h | h | h
      · exact .inl h
      · exfalso
        obtain ⟨-, -, -, -, -, -, hc⟩ := h
        rcases hc with ⟨-, ⟨now, pkt, he, -, hlt, -⟩ | ⟨now, cid, data, he, hidx, hty, -⟩ | ⟨now, he, hto, hsa, hgr, -⟩⟩ |
          ⟨-, now, he, hto, hsa, hgr⟩
        · exact hno (.inr (.inl ⟨now, pkt, he, hlt⟩))
        · exact hno (.inl ⟨now, cid, data, he, hidx, hty⟩)
        · exact hno (.inr (.inr ⟨now, he, hto, hsa, hgr⟩))
        · exact hno (.inr (.inr ⟨now, he, hto, hsa, hgr⟩))
      · obtain ⟨now, cid, data, he, hidx, e3, hw, -, hcn⟩ := h
        exact .inr ⟨now, cid, data, he, hidx, e3, hw, hcn⟩
    · rintro now pkt rfl
      obtain ⟨l'', h1, hx⟩ := (Audit2B.client_px s pkt now).get j l hl
      have hl2 : (Sys.handleSrtPacket s pkt now).1.links[j]? = some l' := hl'
      rw [hl2] at h1; cases h1
      rcases hx with hk | ⟨-, -, hlt⟩
      · exact hk.window
      · exact absurd (.inr (.inl ⟨now, pkt, rfl, hlt⟩)) hno
    · rintro now rfl
      have hd : Audit2B.hkDue s now j l = false := by
        cases hd : Audit2B.hkDue s now j l with
        | false => rfl
        | true =>
          obtain ⟨hto, hsa, hgr⟩ := (Audit2B.hkDue_iff s now j l).1 hd
          exact absurd (.inr (.inr ⟨now, rfl, hto, hsa, hgr⟩)) hno
      obtain ⟨l'', h1, h2, h3⟩ := Audit2B.hk_not_due_window s now j l hl hd hin.1 hin.2
      have hl2 : (Sys.handleHousekeeping s now).1.links[j]? = some l' := hl'
      rw [hl2] at h1; cases h1
      exact ⟨h2, h3⟩
    · rintro now cid data rfl hty
      rcases ((C06_direction_uplink s now cid data hr j l l' hl hl').2 _ hty).2.2.1 rfl |>.2 with h | h
      · exact h.1
      · exact absurd (.inl ⟨now, cid, data, rfl, h.2.2, hty⟩) hno

end reset

/-! ## (c) Fast recovery -/

section fastrecovery
variable {F : Type} [Scalar F]

/-- **(c) Fast recovery, per event, every constructor, every link**: the flag turns ON only in an uplink event
carrying an SRT NAK (type 0x8003) that left this link's window at 2000 or less (and not above what it was);
it turns OFF only at a window of 12000 or more — in an uplink event carrying an SRTLA ACK (0x9100) in enhanced
mode, or in a housekeeping tick (time-based recovery in enhanced mode, or the reconnect reset to 20000) — or by
REG3 (0x9202) arriving on this link (`clear_pre_registration_state`).  `mark_for_recovery` (failed send,
REG_ERR, housekeeping's fallback after a failed socket re-creation) does NOT clear it.
`hnr`: over events / runs that keep the link set (no `Ev.reload`); a reload keeps the whole record of every retained link
(`Props/SysReload.lean: reload_frame`) and the theorem applies again from the state after it. -/
theorem C06_fast_recovery_sys (s : Sys.Sys F) (e : Sys.Ev) (hnr : e.isReload = false) (hr : RangeInv s) (j : Nat)
    (l l' : FLink F)
    (hl : s.links[j]? = some l) (hl' : (Sys.step s e).1.links[j]? = some l') :
    (l.core.cong.fastRecovery = false → l'.core.cong.fastRecovery = true →
      ∃ now cid data, e = .uplink now cid data ∧ Codec.getPacketTypeS data = some 0x8003 ∧
        l'.core.window ≤ 2000 ∧ l'.core.window ≤ l.core.window) ∧
    (l.core.cong.fastRecovery = true → l'.core.cong.fastRecovery = false →
      (12000 ≤ l'.core.window ∧
        ((∃ now cid data, e = .uplink now cid data ∧ Codec.getPacketTypeS data = some 0x9100 ∧
            s.cfg.classic = false) ∨
         (∃ now, e = .hk now))) ∨
      (∃ now cid data, e = .uplink now cid data ∧ Codec.getPacketTypeS data = some 0x9202 ∧
        s.links.findIdx? (·.core.connId == cid) = some j ∧ l'.core.cong = {})) := by
  have same : l'.core.cong = l.core.cong → ∀ {p q : Prop},
      (l.core.cong.fastRecovery = false → l'.core.cong.fastRecovery = true → p) ∧
      (l.core.cong.fastRecovery = true → l'.core.cong.fastRecovery = false → q) := by
    intro hc p q
    rw [hc]
    exact ⟨fun h0 h1 => (by rw [h0] at h1; cases h1), fun h0 h1 => (by rw [h0] at h1; cases h1)⟩
  cases e with
  | client now pkt => exact same (C06_direction_client s now pkt j l l' hl hl').1
  | flush now => exact same (C06_direction_flush s now j l l' hl hl').2.1
  | setCfg cfg =>
    rw [show (Sys.step s (.setCfg cfg)).1.links = s.links from rfl, hl] at hl'
    have e' : l'.core.cong = l.core.cong := by rw [Option.some.inj hl']
    exact same e'
  | crit d =>
    rw [show (Sys.step s (.crit d)).1.links = s.links from rfl, hl] at hl'
    have e' : l'.core.cong = l.core.cong := by rw [Option.some.inj hl']
    exact same e'
  | failNext cid =>
    rw [show (Sys.step s (.failNext cid)).1.links = s.links from rfl, hl] at hl'
    have e' : l'.core.cong = l.core.cong := by rw [Option.some.inj hl']
    exact same e'
  | failAfter cid kfa =>
    rw [show (Sys.step s (.failAfter cid kfa)).1.links = s.links from rfl, hl] at hl'
    have e' : l'.core.cong = l.core.cong := by rw [Option.some.inj hl']
    exact same e'
  | failBind cid =>
    rw [show (Sys.step s (.failBind cid)).1.links = s.links from rfl, hl] at hl'
    have e' : l'.core.cong = l.core.cong := by rw [Option.some.inj hl']
    exact same e'
  | stamp idx weak ld ccb cct =>
    have e' : l'.core.cong = l.core.cong := by rw [stamp_core s idx weak ld ccb cct j l l' hl hl']
    exact same e'
  | syncTimeout =>
    have e' : l'.core.cong = l.core.cong := by rw [sync_core s j l l' hl hl']
    exact same e'
  | reload rnow raddrs routs => cases hnr
  | uplink now cid data =>
    obtain ⟨h0, h⟩ := C06_direction_uplink s now cid data hr j l l' hl hl'
    cases hpt : Codec.getPacketTypeS data with
    | none =>
      have e' : l'.core.cong = l.core.cong := by rw [h0 hpt]
      exact same e'
    | some pt =>
      obtain ⟨hnak, hack, herr, hreg3, hoth⟩ := h pt hpt
      by_cases q1 : pt = 0x8003
      · obtain ⟨a1, -, -, a4, a5⟩ := hnak q1
        subst q1
        refine ⟨fun f0 f1 => ⟨now, cid, data, rfl, hpt, a5 f0 f1, a1⟩, fun f0 f1 => ?_⟩
        rw [a4 f0] at f1; cases f1
      by_cases q2 : pt = 0x9100
      · obtain ⟨-, -, -, -, a5, a6⟩ := hack q2
        subst q2
        refine ⟨fun f0 f1 => ?_, fun f0 f1 => ?_⟩
        · rw [a5 f1] at f0; cases f0
        · obtain ⟨c1, c2⟩ := a6 f0 f1
          exact .inl ⟨c2, .inl ⟨now, cid, data, rfl, hpt, c1⟩⟩
      by_cases q3 : pt = 0x9210
      · exact same (herr q3).1
      by_cases q4 : pt = 0x9202
      · subst q4
        rcases (hreg3 rfl).2 with a | a
        · exact same a.1
        · refine ⟨fun f0 f1 => ?_, fun f0 f1 => .inr ⟨now, cid, data, rfl, hpt, a.2.2, a.1⟩⟩
          rw [a.1] at f1; cases f1
      · exact same (hoth q1 q2 q3 q4).2.1
  | hk now =>
    rcases C06_direction_hk s now hr j l l' hl hl' with a | a | a
    · have hI : (12000 : Int) ≤ l'.core.window := by rw [a.1]; decide
      refine ⟨fun f0 f1 => ?_, fun f0 f1 => .inl ⟨hI, .inr ⟨now, rfl⟩⟩⟩
      rw [a.2.1] at f1; cases f1
    · exact same a.2.1
    · obtain ⟨-, -, -, -, -, a6, a7⟩ := a
      refine ⟨fun f0 f1 => ?_, fun f0 f1 => .inl ⟨a7 f0 f1, .inr ⟨now, rfl⟩⟩⟩
      rw [a6 f1] at f0; cases f0

/-- The accounting invariant of `Props/SysLevel.lean` (`SysInv`, stated there with the same literal body)
gives the window range in every state a run reaches. -/
theorem rangeInv_run (s : Sys.Sys F) (evs : List Sys.Ev)
    (h : ∀ l ∈ s.links, LogInv l.core ∧ 1000 ≤ l.core.window ∧ l.core.window ≤ 60000 ∧ 0 ≤ l.core.inFlight ∧
      ∀ it ∈ l.queue, ∀ sq, it.2.1 = some sq → sq < 2147483648) : RangeInv (Sys.run s evs).1 := by
  have h0 : SysInv.All SysInv.LinkInv s.links := by
    intro l hl
    obtain ⟨a, b, c, d, f⟩ := h l hl
    exact ⟨a, b, c, d, f⟩
  intro l hl
  have := SysDir.linkInv_run s evs h0 l hl
  exact ⟨this.wlo, this.whi⟩

theorem run_snoc (s : Sys.Sys F) (pre : List Sys.Ev) (e : Sys.Ev) :
    (Sys.run s (pre ++ [e])).1 = (Sys.step (Sys.run s pre).1 e).1 := by
  rw [SysDir.run_append]; rfl

/-- **(c) along any run**: for every run `pre ++ [e]` of the shell from an invariant state (in particular the
initial state), the last event `e` changes the fast-recovery flag of link `j` only as `C06_fast_recovery_sys`
says — ON only by a NAK datagram that left the window at 2000 or less, OFF only at 12000 or more (SRTLA ACK in
enhanced mode, housekeeping) or by REG3 on that link.
`hnr` (the LAST event only; `pre` may contain reloads): over events / runs that keep the link set (no `Ev.reload`); a
reload keeps the whole record of every retained link (`Props/SysReload.lean: reload_frame`) and the theorem applies
again from the state after it. -/
theorem C06_fast_recovery_run (s : Sys.Sys F) (pre : List Sys.Ev) (e : Sys.Ev) (hnr : e.isReload = false)
    (h : ∀ l ∈ s.links, LogInv l.core ∧ 1000 ≤ l.core.window ∧ l.core.window ≤ 60000 ∧ 0 ≤ l.core.inFlight ∧
      ∀ it ∈ l.queue, ∀ sq, it.2.1 = some sq → sq < 2147483648)
    (j : Nat) (l l' : FLink F) (hl : (Sys.run s pre).1.links[j]? = some l)
    (hl' : (Sys.run s (pre ++ [e])).1.links[j]? = some l') :
    (l.core.cong.fastRecovery = false → l'.core.cong.fastRecovery = true →
      ∃ now cid data, e = .uplink now cid data ∧ Codec.getPacketTypeS data = some 0x8003 ∧
        l'.core.window ≤ 2000 ∧ l'.core.window ≤ l.core.window) ∧
    (l.core.cong.fastRecovery = true → l'.core.cong.fastRecovery = false →
      (12000 ≤ l'.core.window ∧
        ((∃ now cid data, e = .uplink now cid data ∧ Codec.getPacketTypeS data = some 0x9100 ∧
            (Sys.run s pre).1.cfg.classic = false) ∨
         (∃ now, e = .hk now))) ∨
      (∃ now cid data, e = .uplink now cid data ∧ Codec.getPacketTypeS data = some 0x9202 ∧
        (Sys.run s pre).1.links.findIdx? (·.core.connId == cid) = some j ∧ l'.core.cong = {})) := by
  rw [run_snoc] at hl'
  exact C06_fast_recovery_sys _ e hnr (rangeInv_run s pre h) j l l' hl hl'

/-- **(a) along any run**: `C06_direction_sys` for the last event of every run from an invariant state. -/
theorem C06_direction_run (s : Sys.Sys F) (pre : List Sys.Ev) (e : Sys.Ev)
    (h : ∀ l ∈ s.links, LogInv l.core ∧ 1000 ≤ l.core.window ∧ l.core.window ≤ 60000 ∧ 0 ≤ l.core.inFlight ∧
      ∀ it ∈ l.queue, ∀ sq, it.2.1 = some sq → sq < 2147483648)
    (j : Nat) (l l' : FLink F) (hl : (Sys.run s pre).1.links[j]? = some l)
    (hl' : (Sys.run s (pre ++ [e])).1.links[j]? = some l') :
    match (generalizing := false) e with
    | .client _ _ => l'.core.cong = l.core.cong ∧ (l'.core.window = l.core.window ∨ l'.core.window = 20000)
    | .flush _ => l'.core.window = l.core.window ∧ l'.core.cong = l.core.cong
    | .setCfg _ => l' = l
    | .crit _ => l' = l
    | .failNext _ => l' = l
    | .failAfter _ _ => l' = l
    | .failBind _ => l' = l
    | .stamp _ _ _ _ _ => l'.core = l.core
    | .syncTimeout => l'.core = l.core
    | .reload now _ _ => l' ∈ (Sys.run s pre).1.links ∨ ∃ id a, l' = FLink.newUplink id a now
    | .uplink _ _ data =>
        (Codec.getPacketTypeS data = none → l' = l) ∧
        ∀ pt, Codec.getPacketTypeS data = some pt →
          (pt ≠ 0x9100 → pt ≠ 0x9210 → l'.core.window ≤ l.core.window) ∧
          (pt ≠ 0x8003 → pt ≠ 0x9210 → l.core.window ≤ l'.core.window) ∧
          (pt = 0x9210 → l'.core.window = l.core.window ∨ l'.core.window = 20000)
    | .hk _ =>
        l'.core.window = 20000 ∨
        (l.core.window ≤ l'.core.window ∧ ((Sys.run s pre).1.cfg.classic = true → l'.core.window = l.core.window)) := by
  rw [run_snoc] at hl'
  exact C06_direction_sys _ e (rangeInv_run s pre h) j l l' hl hl'

end fastrecovery

/-! ## Non-vacuity: a concrete shell state and concrete events for every clause -/

section examples

/-- Toy scalar (`Lemmas/SelectFrame.lean`) used ONLY by the `example`s, to have concrete links. -/
local instance exScalar : Scalar Int := Select.fixScalar

/-- Link 0 (conn id 1): live, window 2050 (one NAK above the fast-recovery threshold), holds 5 and 7, three
datagrams waiting in a low-activity batch queue (threshold 4).  Link 1 (conn id 2): live, IN fast recovery at
window 11990, last NAK at 1000. -/
def exSysD : Sys.Sys Int :=
  { links :=
      [{ (FLink.newRegistering 1 0 : FLink Int) with
          core := { connId := 1, connected := true, phase := .live, window := 2050, inFlight := 2,
                    log := [(5, 100), (7, 120)], highestAcked := 4, lastReceived := some 4990 },
          established := 1, regime := .low,
          queue := [([0, 0, 0, 9, 0, 0, 0, 0], some 9, 4000), ([0, 0, 0, 10, 0, 0, 0, 0], some 10, 4001),
                    ([0, 0, 0, 11, 0, 0, 0, 0], some 11, 4002)] },
       { (FLink.newRegistering 2 0 : FLink Int) with
          core := { connId := 2, connected := true, phase := .live, window := 11990, lastReceived := some 4990,
                    cong := { fastRecovery := true, lastNakMs := 1000, nakCount := 3 } },
          established := 1 }],
    reg := Srtla.Reg.Reg.new [] [] }

def exNak5 : Sys.Bytes := [0x80, 0x03, 0, 0, 0, 0, 0, 5]
def exSack7 : Sys.Bytes := [0x91, 0x00, 0, 0, 0, 0, 0, 7]
def exData12 : Sys.Bytes := [0, 0, 0, 12, 0, 0, 0, 0, 1, 2, 3, 4]
def exReg3 : Sys.Bytes := [0x92, 0x02]
def exRegErr : Sys.Bytes := [0x92, 0x10]

/-- The view the examples print: (window, fast-recovery flag, connected) per link. -/
def exView (s : Sys.Sys Int) : List (Int × Bool × Bool) :=
  s.links.map fun l => (l.core.window, l.core.cong.fastRecovery, l.core.connected)

theorem exSysD_range : RangeInv exSysD := by
  intro l hl
  simp only [exSysD, List.mem_cons, List.not_mem_nil, or_false] at hl
  rcases hl with rfl | rfl <;> exact ⟨by decide, by decide⟩

/-- The hypothesis of the run forms (`SysInv` of `Props/SysLevel.lean`) holds of `exSysD`. -/
theorem exSysD_inv : ∀ l ∈ exSysD.links, LogInv l.core ∧ 1000 ≤ l.core.window ∧ l.core.window ≤ 60000 ∧
    0 ≤ l.core.inFlight ∧ ∀ it ∈ l.queue, ∀ sq, it.2.1 = some sq → sq < 2147483648 := by
  intro l hl
  simp only [exSysD, List.mem_cons, List.not_mem_nil, or_false] at hl
  rcases hl with rfl | rfl
  · refine ⟨⟨by decide, by decide, by decide⟩, by decide, by decide, by decide, ?_⟩
    intro it hit sq hsq
    simp only [List.mem_cons, List.not_mem_nil, or_false] at hit
    rcases hit with rfl | rfl | rfl <;> (cases hsq; decide)
  · refine ⟨⟨by decide, by decide, by decide⟩, by decide, by decide, by decide, ?_⟩
    intro it hit
    cases hit

/-- The type codes of the example datagrams. -/
example : Codec.getPacketTypeS exNak5 = some 0x8003 ∧ Codec.getPacketTypeS exSack7 = some 0x9100 ∧
    Codec.getPacketTypeS exReg3 = some 0x9202 ∧ Codec.getPacketTypeS exRegErr = some 0x9210 := by decide

/-- NAK of 5 (`C06_direction_uplink`, NAK clause; `C06_fast_recovery_sys`, ON clause): link 0 goes
2050 → 1950 = max(2050 − 100·1, 1000) and ENTERS fast recovery at 1950 ≤ 2000; link 1 untouched. -/
example : exView exSysD = [(2050, false, true), (11990, true, true)] ∧
    exView (Sys.step exSysD (.uplink 5000 1 exNak5)).1 = [(1950, true, true), (11990, true, true)] := by
  decide +kernel

/-- SRTLA ACK of 7 (ACK clause): no window falls (global `+1` on both links; no earned `+29`: one packet left
in flight, 1·1000 ≤ 2050). -/
example : exView (Sys.step exSysD (.uplink 5000 1 exSack7)).1 = [(2051, false, true), (11991, true, true)] := by
  decide +kernel

/-- Housekeeping in enhanced mode (`C06_direction_hk`; `C06_fast_recovery_sys`, OFF clause): link 1 recovers
11990 → 12005 and LEAVES fast recovery at 12005 ≥ 12000; in classic mode the same tick changes nothing. -/
example : exView (Sys.step exSysD (.hk 6000)).1 = [(2110, false, true), (12005, false, true)] ∧
    exView (Sys.step { exSysD with cfg := { classic := true } } (.hk 6000)).1 =
      [(2050, false, true), (11990, true, true)] := by
  decide +kernel

/-- Housekeeping 15 s later: both links timed out and due — torn down to 20000, congestion state cleared. -/
example : exView (Sys.step exSysD (.hk 20000)).1 = [(20000, false, false), (20000, false, false)] := by
  decide +kernel

/-- REG_ERR on link 1 (`C06_reset_sys` case 2): window 20000, not connected — and STILL in fast recovery
(`mark_for_recovery` keeps the congestion state).  REG3 on link 1 (case 4): window 11990 KEPT, fast recovery
cleared. -/
example : exView (Sys.step exSysD (.uplink 5000 2 exRegErr)).1 = [(2050, false, true), (20000, true, false)] ∧
    exView (Sys.step exSysD (.uplink 5000 2 exReg3)).1 = [(2050, false, true), (11990, false, true)] := by
  decide +kernel

/-- A client datagram whose threshold flush fails (`C06_direction_client`, tear-down disjunct): with a send
failure injected for conn id 1 the fourth queued datagram triggers the flush on link 0, the send fails and the
link is torn down to 20000; without the injection every window is unchanged. -/
example : exView (Sys.step (Sys.step exSysD (.failNext 1)).1 (.client 5000 exData12)).1 =
      [(20000, false, false), (11990, true, true)] ∧
    exView (Sys.step exSysD (.client 5000 exData12)).1 = [(2050, false, true), (11990, true, true)] ∧
    exView (Sys.step exSysD (.flush 5000)).1 = [(2050, false, true), (11990, true, true)] := by
  decide +kernel

/-- Instances of the theorems on `exSysD`. -/
example (e : Sys.Ev) (hnr : e.isReload = false) (j : Nat) (l l' : FLink Int) (hl : exSysD.links[j]? = some l)
    (hl' : (Sys.step exSysD e).1.links[j]? = some l') :=
  C06_fast_recovery_sys exSysD e hnr exSysD_range j l l' hl hl'

example (e : Sys.Ev) (j : Nat) (l l' : FLink Int) (hl : exSysD.links[j]? = some l)
    (hl' : (Sys.step exSysD e).1.links[j]? = some l') :=
  C06_direction_sys exSysD e exSysD_range j l l' hl hl'

example (pre : List Sys.Ev) (e : Sys.Ev) (hnr : e.isReload = false) (j : Nat) (l l' : FLink Int)
    (hl : (Sys.run exSysD pre).1.links[j]? = some l) (hl' : (Sys.run exSysD (pre ++ [e])).1.links[j]? = some l') :=
  C06_fast_recovery_run exSysD pre e hnr exSysD_inv j l l' hl hl'

/-- … and the premises of the two fast-recovery clauses are met on it (OFF → ON by the NAK, ON → OFF by the tick). -/
example : ∃ l l', exSysD.links[0]? = some l ∧ (Sys.step exSysD (.uplink 5000 1 exNak5)).1.links[0]? = some l' ∧
    l.core.cong.fastRecovery = false ∧ l'.core.cong.fastRecovery = true ∧ l'.core.window = 1950 :=
  ⟨_, _, rfl, rfl, by decide +kernel, by decide +kernel, by decide +kernel⟩

example : ∃ l l', exSysD.links[1]? = some l ∧ (Sys.step exSysD (.hk 6000)).1.links[1]? = some l' ∧
    l.core.cong.fastRecovery = true ∧ l'.core.cong.fastRecovery = false ∧ l'.core.window = 12005 :=
  ⟨_, _, rfl, rfl, by decide +kernel, by decide +kernel, by decide +kernel⟩

example (e : Sys.Ev) (hnr : e.isReload = false) (j : Nat) (l : FLink Int) (hl : exSysD.links[j]? = some l) :=
  (C06_shell_refines exSysD e hnr).2 j l hl

example (e : Sys.Ev) (hnr : e.isReload = false) (j : Nat) (l l' : FLink Int) (hl : exSysD.links[j]? = some l)
    (hl' : (Sys.step exSysD e).1.links[j]? = some l') :=
  C06_reset_sys exSysD e hnr j l l' hl hl'

example (pre : List Sys.Ev) (e : Sys.Ev) (j : Nat) (l l' : FLink Int)
    (hl : (Sys.run exSysD pre).1.links[j]? = some l) (hl' : (Sys.run exSysD (pre ++ [e])).1.links[j]? = some l') :=
  C06_direction_run exSysD pre e exSysD_inv j l l' hl hl'

/-- The per-arm theorems at the concrete events printed above (links 0 / 1 of `exSysD`). -/
example := C06_direction_uplink exSysD 5000 1 exNak5 exSysD_range 0 _ _ rfl rfl
example := C06_direction_uplink exSysD 5000 2 exRegErr exSysD_range 1 _ _ rfl rfl
example := C06_direction_hk exSysD 6000 exSysD_range 1 _ _ rfl rfl
example := C06_direction_client (Sys.step exSysD (.failNext 1)).1 5000 exData12 0 _ _ rfl rfl
example := C06_direction_flush exSysD 5000 0 _ _ rfl rfl
example := C06_direction_config exSysD { classic := true } 7 1
example := C06_reset_ops (FLink.newRegistering 1 0 : FLink Int) 5000 3 0

/-! ### `C06_teardown_resets_window_sys`: the causes are satisfiable, and the case `C06_reset_sys` is silent about -/

/-- A NEVER-registered link (conn id 7: not connected, registering — so the first disjunct of `C06_reset_sys`
holds of ANY tear-down of it) whose window moved to 23000 and which logged / queued pre-registration traffic. -/
def exPre : Sys.Sys Int :=
  { links :=
      [{ (FLink.newRegistering 7 0 : FLink Int) with
          core := { connId := 7, window := 23000, inFlight := 1, log := [(3, 10)], lastReceived := some 90 },
          queue := [([0, 0, 0, 4, 0, 0, 0, 0], some 4, 95)], lastAttemptMs := 50 }],
    reg := Srtla.Reg.Reg.new [] [] }

theorem exPre_range : RangeInv exPre := by
  intro l hl
  simp only [exPre, List.mem_cons, List.not_mem_nil, or_false] at hl
  subst hl
  exact ⟨by decide, by decide⟩

/-- Cause 1 (REG_ERR on the link's conn id) on the never-registered link: the flags do not change
(`(false, registering)` before and after) and yet window 23000 → 20000, in-flight 1 → 0, log and queue emptied. -/
example :
    (exPre.links.map fun l => (l.core.window, l.core.inFlight, l.core.log.length, l.queue.length, l.core.connected))
      = [(23000, 1, 1, 1, false)] ∧
    exPre.links.map (·.core.phase) = [.registering] ∧
    ((Sys.step exPre (.uplink 100 7 exRegErr)).1.links.map fun l =>
      (l.core.window, l.core.inFlight, l.core.log.length, l.queue.length, l.core.connected))
      = [(20000, 0, 0, 0, false)] ∧
    (Sys.step exPre (.uplink 100 7 exRegErr)).1.links.map (·.core.phase) = [.registering] := by
  decide +kernel

example : TearCause exPre (.uplink 100 7 exRegErr) 0 exPre.links[0] :=
  .inl ⟨100, 7, exRegErr, rfl, by decide, by decide⟩

example := (C06_teardown_resets_window_sys exPre (.uplink 100 7 exRegErr) rfl exPre_range 0 _ _ rfl rfl).1
  (.inl ⟨100, 7, exRegErr, rfl, by decide, by decide⟩) (fun ⟨_, _, h⟩ => by cases h)

/-- Cause 3 (tick finds it timed out and due) on the same link: grace over at 5000, last attempt at 50 — at
`now = 20000` it is timed out and due, no probing in progress; window 23000 → 20000. -/
example :
    (exPre.links.map fun l => (FLink.isTimedOut l 20000, l.shouldAttemptReconnect 20000)) = [(true, true)] ∧
    Hk.hkGraceIdx exPre 20000 = none ∧
    ((Sys.step exPre (.hk 20000)).1.links.map fun l => (l.core.window, l.core.inFlight, l.core.log.length, l.queue.length))
      = [(20000, 0, 0, 0)] := by
  decide +kernel

example := (C06_teardown_resets_window_sys exPre (.hk 20000) rfl exPre_range 0 _ _ rfl rfl).1
  (.inr (.inr ⟨20000, rfl, by decide +kernel, by decide +kernel, fun h => by
    have : Hk.hkGraceIdx exPre 20000 = none := by decide +kernel
    rw [this] at h; cases h.1⟩)) (fun ⟨_, _, h⟩ => by cases h)

/-- Cause 2 (a client datagram consumes an injected send failure), both forms, on `exSysD` with a failure
injected for conn id 1: link 0 is the chosen link (`clientTarget`), its queue holds 3 and the low-activity
threshold is 4 (`4 ≤ 3 + 1`), a failure is pending for its conn id — the pre-state form of clause 2; the event
consumes it (count 1 → 0) and the conn ids `[1, 2]` are distinct — the form of clause 1; window 2050 → 20000. -/
example :
    let s := (Sys.step exSysD (.failNext 1)).1
    SelShell.clientTarget s exData12 5000 = some 0 ∧
    (s.links.map fun l => (l.regime.batchSize, l.queue.length, s.failNext.contains l.core.connId)) =
      [(4, 3, true), (16, 0, false)] ∧
    (s.failNext.count 1, (Sys.step s (.client 5000 exData12)).1.failNext.count 1) = (1, 0) ∧
    (s.links.map (·.core.connId)).Nodup ∧
    ((Sys.step s (.client 5000 exData12)).1.links.map fun l =>
      (l.core.window, l.core.inFlight, l.core.log.length, l.queue.length, l.core.connected)) =
      [(20000, 0, 0, 0, false), (11990, 0, 0, 0, true)] := by
  decide +kernel

example := (C06_teardown_resets_window_sys (Sys.step exSysD (.failNext 1)).1 (.client 5000 exData12) rfl
    (by intro l hl; exact exSysD_range l hl) 0 _ _ rfl rfl).2.1 5000 exData12 rfl
  (by decide +kernel) (by decide +kernel) (by decide +kernel)

/-- Clause 3 (a periodic flush is no tear-down, even when it consumes the injected failure): the flush of link 0's
three queued datagrams fails — the failure is consumed (count 1 → 0), the batch is lost (queue emptied, the three
packets registered: in-flight 2 → 5) — window, `connected` and phase untouched. -/
example :
    let s := (Sys.step exSysD (.failNext 1)).1
    (s.failNext.count 1, (Sys.step s (.flush 5000)).1.failNext.count 1) = (1, 0) ∧
    (Sys.step s (.flush 5000)).2.wire = [] ∧
    ((Sys.step s (.flush 5000)).1.links.map fun l =>
      (l.core.window, l.core.inFlight, l.queue.length, l.core.connected)) =
      [(2050, 5, 0, true), (11990, 0, 0, true)] := by
  decide +kernel

/-- Clause 4 (no cause): the same client datagram WITHOUT the injection — `TearCause` fails for link 0 (nothing
to consume), the window stays 2050. -/
example : ¬ TearCause exSysD (.client 5000 exData12) 0 exSysD.links[0] := by
  rintro (⟨_, _, _, h, -⟩ | ⟨_, _, h, hlt⟩ | ⟨_, h, -⟩)
  · cases h
  · cases h
    exact absurd hlt (by decide +kernel)
  · cases h

/-- The abstract history lemmas on a literal history: three NAKs from 2150 (fast recovery entered at 1950). -/
example : (run { w := 2150, cong := {}, connected := true, heard := true } [.nak 10, .nak 20, .nak 30]).w = 1850 ∧
    (run { w := 2150, cong := {}, connected := true, heard := true } [.nak 10, .nak 20]).cong.fastRecovery = true ∧
    (run { w := 2150, cong := {}, connected := true, heard := true } [.nak 10]).cong.fastRecovery = false := by
  decide

end examples

end shell

end Srtla.Props.C06
