import Srtla.Model.Conn
import Srtla.Lemmas.Conn
/-!
# C06 — congestion windows stay in range and move in the right direction

Every window-changing operation of a link is an `Op`; `applyOp` is the model of what the code
does to `(window, congestion state)`; histories are arbitrary `List Op` (arbitrary times,
in-flight counts anywhere in `0..i32::MAX`, arbitrary RTT-velocity verdicts).
-/
namespace Srtla.Props.C06
open Srtla.Conn Srtla.Gen

/-- The window-relevant state of one link. -/
structure WS where
  w : Int
  cong : Cong
  connected : Bool
  heard : Bool          -- `last_received.is_some()`

inductive Op where
  | nak (now : Nat)
  | ackClassic (inFlight : Int)                 -- earned SRTLA ACK, classic mode
  | ackEnhanced (inFlight : Int)                -- earned SRTLA ACK, enhanced mode
  | ackGlobal                                   -- +1 per SRTLA-acknowledged packet
  | recover (velHigh : Bool) (now : Nat)        -- housekeeping time-based recovery
  | resetRecovery                               -- mark_for_recovery
  | resetReconnect                              -- reset_for_reconnect
  | reg3                                        -- clear_pre_registration_state + connected
  | setLink (connected heard : Bool)            -- liveness flags change (environment)

def applyOp (s : WS) : Op → WS
  | .nak now => let (c, w) := s.cong.handleNak s.w now; { s with w := w, cong := c }
  | .ackClassic inf => { s with w := ackClassic s.w inf }
  | .ackEnhanced inf => let (c, w) := s.cong.ackEnhanced s.w inf; { s with w := w, cong := c }
  | .ackGlobal => if s.connected && s.heard then { s with w := min (s.w + 1) WINDOW_CEIL } else s
  | .recover v now => let (c, w) := s.cong.recover s.w s.connected v now; { s with w := w, cong := c }
  | .resetRecovery => { s with w := WINDOW_INIT, connected := false, heard := false }
  | .resetReconnect => { s with w := WINDOW_INIT, cong := {}, connected := false, heard := false }
  | .reg3 => { s with cong := {}, connected := true, heard := true }
  | .setLink c h => { s with connected := c, heard := h }

def run (s : WS) (ops : List Op) : WS := ops.foldl applyOp s

/-- A fresh link (`new_registering`). -/
def fresh : WS := { w := WINDOW_INIT, cong := {}, connected := false, heard := false }

def InRange (w : Int) : Prop := 1000 ≤ w ∧ w ≤ 60000

/-- One step keeps the window in `[1000, 60000]`, for any in-flight count (in particular any
value in `0..i32::MAX`: the saturating multiply only decides *whether* the window grows). -/
theorem C06_range_step (s : WS) (op : Op) (h : InRange s.w) : InRange (applyOp s op).w := by
  obtain ⟨h1, h2⟩ := h
  obtain ⟨hF, hC, hI, -, -, hD, -, -⟩ := wconsts
  cases op with
  | nak now =>
    simp only [applyOp, Cong.handleNak, InRange]
    omega
  | ackClassic inf => exact ⟨(ackClassic_bounds s.w inf h1 h2).1, (ackClassic_bounds s.w inf h1 h2).2.1⟩
  | ackEnhanced inf =>
    simp only [applyOp, Cong.ackEnhanced]
    exact ⟨(ackClassic_bounds s.w inf h1 h2).1, (ackClassic_bounds s.w inf h1 h2).2.1⟩
  | ackGlobal =>
    simp only [applyOp, InRange]
    split <;> (try dsimp only) <;> omega
  | recover v now =>
    simp only [applyOp]
    have := recover_window s.cong s.w s.connected v now h1 h2
    exact ⟨this.1, this.2.1⟩
  | resetRecovery => simp only [applyOp, InRange]; omega
  | resetReconnect => simp only [applyOp, InRange]; omega
  | reg3 => exact ⟨h1, h2⟩
  | setLink c hd => exact ⟨h1, h2⟩

/-- **Range invariant**: along every history from a fresh link the window is in `[1000, 60000]`. -/
theorem C06_range (ops : List Op) : InRange (run fresh ops).w := by
  have hgen : ∀ (ops : List Op) (s : WS), InRange s.w → InRange (run s ops).w := by
    intro ops
    induction ops with
    | nil => intro s h; exact h
    | cons op ops ih => intro s h; exact ih _ (C06_range_step s op h)
  exact hgen ops fresh (by simp only [fresh, InRange]; have := wconsts.2.2.1; omega)

/-- Starts at 20000 and returns to 20000 on every tear-down. -/
theorem C06_init_reset (s : WS) :
    fresh.w = 20000 ∧ (applyOp s .resetRecovery).w = 20000 ∧ (applyOp s .resetReconnect).w = 20000 := by
  simp [fresh, applyOp, wconsts.2.2.1]

/-- A NAK never increases the window; it lowers it by exactly 100, floored at 1000. -/
theorem C06_nak_nonincreasing (s : WS) (now : Nat) (h : InRange s.w) :
    (applyOp s (.nak now)).w ≤ s.w ∧ (applyOp s (.nak now)).w = max (s.w - 100) 1000 := by
  obtain ⟨h1, h2⟩ := h
  obtain ⟨hF, hC, hI, -, -, hD, -, -⟩ := wconsts
  simp only [applyOp, Cong.handleNak]
  omega

/-- An ACK (earned, classic or enhanced, or the global +1) never decreases the window, and an
earned ACK adds at most 29. -/
theorem C06_ack_nondecreasing (s : WS) (inf : Int) (h : InRange s.w) :
    s.w ≤ (applyOp s (.ackClassic inf)).w ∧ s.w ≤ (applyOp s (.ackEnhanced inf)).w ∧
    s.w ≤ (applyOp s .ackGlobal).w := by
  obtain ⟨h1, h2⟩ := h
  obtain ⟨hF, hC, hI, -, -, hD, -, -⟩ := wconsts
  refine ⟨(ackClassic_bounds s.w inf h1 h2).2.2.1, ?_, ?_⟩
  · simp only [applyOp, Cong.ackEnhanced]; exact (ackClassic_bounds s.w inf h1 h2).2.2.1
  · simp only [applyOp]
    split <;> (try dsimp only) <;> omega

/-- Time-based recovery never decreases the window. -/
theorem C06_recovery_nondecreasing (s : WS) (v : Bool) (now : Nat) (h : InRange s.w) :
    s.w ≤ (applyOp s (.recover v now)).w := by
  simp only [applyOp]
  exact (recover_window s.cong s.w s.connected v now h.1 h.2).2.2

/-- Fast recovery is entered only by a NAK that leaves the window at 2000 or less. -/
theorem C06_fast_recovery_enter (s : WS) (op : Op)
    (h0 : s.cong.fastRecovery = false) (h1 : (applyOp s op).cong.fastRecovery = true) :
    ∃ now, op = .nak now ∧ (applyOp s op).w ≤ 2000 := by
  have hE := wconsts.2.2.2.2.2.2.1
  cases op with
  | nak now =>
    refine ⟨now, rfl, ?_⟩
    simp only [applyOp, Cong.handleNak, h0] at h1 ⊢
    simp only [Bool.false_or, Bool.not_false, Bool.and_true, decide_eq_true_eq] at h1
    omega
  | ackClassic inf => simp [applyOp, h0] at h1
  | ackEnhanced inf => simp [applyOp, Cong.ackEnhanced, h0] at h1
  | ackGlobal => simp only [applyOp] at h1; split at h1 <;> simp [h0] at h1
  | recover v now =>
    simp only [applyOp, Cong.recover] at h1
    split at h1
    · simp [h0] at h1
    · split at h1 <;> simp [h0] at h1
  | resetRecovery => simp [applyOp, h0] at h1
  | resetReconnect => simp [applyOp] at h1
  | reg3 => simp [applyOp] at h1
  | setLink c hd => simp [applyOp, h0] at h1

/-- Fast recovery is left only at a window of 12000 or more, or on a link reset
(`reset_for_reconnect`, or REG3's `clear_pre_registration_state`). -/
theorem C06_fast_recovery_leave (s : WS) (op : Op)
    (h0 : s.cong.fastRecovery = true) (h1 : (applyOp s op).cong.fastRecovery = false) :
    (applyOp s op).w ≥ 12000 ∨ op = .resetReconnect ∨ op = .reg3 := by
  have hL := wconsts.2.2.2.2.2.2.2
  cases op with
  | nak now => simp [applyOp, Cong.handleNak, h0] at h1
  | ackClassic inf => simp [applyOp, h0] at h1
  | ackEnhanced inf =>
    left
    simp only [applyOp, Cong.ackEnhanced, h0] at h1 ⊢
    simp only [Bool.true_and, Bool.not_eq_false', decide_eq_true_eq] at h1
    omega
  | ackGlobal => simp only [applyOp] at h1; split at h1 <;> simp [h0] at h1
  | recover v now =>
    left
    simp only [applyOp, Cong.recover] at h1 ⊢
    split at h1
    · simp [h0] at h1
    · rename_i hc
      rw [if_neg hc]
      split at h1
      · rename_i hm
        rw [if_pos hm]
        simp only [clearBurst_fastRecovery, h0, Bool.true_and, Bool.not_eq_false', decide_eq_true_eq] at h1 ⊢
        omega
      · simp [h0] at h1
  | resetRecovery => simp [applyOp, h0] at h1
  | resetReconnect => right; left; rfl
  | reg3 => right; right; rfl
  | setLink c hd => simp [applyOp, h0] at h1

/-- The window view of a model connection. -/
def proj (c : Conn) : WS :=
  { w := c.window, cong := c.cong, connected := c.connected, heard := c.lastReceived.isSome }

/-- `applyOp` is exactly what the connection model's operations do to the window view, so the
theorems above are statements about `Srtla.Conn` (the model run against the real code). -/
theorem C06_ops_are_conn_ops (c : Conn) (seq : Int) (now : Nat) (v : Bool) :
    (proj (c.nak seq now).1 = proj c ∨ proj (c.nak seq now).1 = applyOp (proj c) (.nak now)) ∧
    (proj (c.srtlaAck seq true now).1 = proj c ∨
      ∃ inf, proj (c.srtlaAck seq true now).1 = applyOp (proj c) (.ackClassic inf)) ∧
    (proj (c.srtlaAck seq false now).1 = proj c ∨
      ∃ inf, proj (c.srtlaAck seq false now).1 = applyOp (proj c) (.ackEnhanced inf)) ∧
    proj c.ackGlobal = applyOp (proj c) .ackGlobal ∧
    proj (c.srtAck seq now).1 = proj c ∧
    proj (c.register seq now) = proj c ∧
    proj c.markForRecovery = applyOp (proj c) .resetRecovery ∧
    proj c.resetForReconnect = applyOp (proj c) .resetReconnect := by
  refine ⟨?_, ?_, ?_, ?_, ?_, ?_, ?_, ?_⟩
  · unfold Conn.nak; split
    · right; simp [proj, applyOp]
    · left; rfl
  · unfold Conn.srtlaAck; split
    · right; exact ⟨((logErase c.log seq).length : Int), by simp [proj, applyOp]⟩
    · left; rfl
  · unfold Conn.srtlaAck; split
    · right; exact ⟨((logErase c.log seq).length : Int), by simp [proj, applyOp]⟩
    · left; rfl
  · unfold Conn.ackGlobal; simp only [proj, applyOp]; split <;> simp_all
  · unfold Conn.srtAck; split <;> simp [proj]
  · simp [Conn.register, proj]
  · simp [Conn.markForRecovery, Conn.resetCore, proj, applyOp]
  · simp [Conn.resetForReconnect, Conn.resetCore, proj, applyOp]

/-- Non-vacuity: a link in fast recovery at window 11990 with a backlog leaves it on an earned
enhanced ACK (window 12019 ≥ 12000), and the hypotheses of the theorems above are met. -/
example :
    (1000 : Int) ≤ 11990 ∧ (11990 : Int) ≤ 60000 ∧
    (applyOp { w := 11990, cong := { fastRecovery := true }, connected := true, heard := true }
      (.ackEnhanced 50)).w = 12019 ∧
    (applyOp { w := 11990, cong := { fastRecovery := true }, connected := true, heard := true }
      (.ackEnhanced 50)).cong.fastRecovery = false := by
  decide

/-- Non-vacuity for the extreme in-flight clause: with `i32::MAX` packets in flight the
saturating product still reads "grow" and the window takes one ordinary +29 step. -/
example : ackClassic 1500 2147483647 = 1529 := by decide

end Srtla.Props.C06
