import Srtla.Model.Sys
import Srtla.Lemmas.Keepalive
import Srtla.Lemmas.KeepaliveTrace
import Srtla.Lemmas.KeepaliveReload
import Srtla.Lemmas.Uplink
import Srtla.Lemmas.Kalman
import Srtla.Lemmas.SelectFrame
import Srtla.Props.C15
import Srtla.Lemmas.SysDirRtt
/-!
# C14 — keepalives flow on every live uplink and RTT comes only from echoes

Model: `Srtla.Link.FLink.keepalivePacket / needsKeepalive / needsRttMeasurement /
handleKeepaliveResponse` (connection/mod.rs, connection/rtt.rs), `Srtla.Sys.handleHousekeeping`
(housekeeping.rs), `Srtla.Sys.handleUplinkPacket` (uplink_recv.rs), `Srtla.Rtt.Kalman`
(kalman.rs); run line by line against the real event-loop arms by component `sys`.

* `C14_frame` — the frame: 38 bytes, first 10 = standard keepalive of `now`, telemetry = the link
  state at the call, decodes back.
* `C14_cadence`, `C14_keepalives_on_wire`, `C14_at_most_two`, `C14_cadence_two_ticks` — the
  housekeeping tick and the trace-level gap bound.
* `C14_sample_only_if`, `C14_flag_clears`, `C14_no_sample_no_change`, `C14_rtt_changes_only_by` — RTT
  sampling.
* `C14_smooth_nonneg`, `C14_smooth_float_nan`, `C14_Kalman_denominator_pos` — the filter output
  (ordered field, exact arithmetic; IEEE rounding is NOT covered, see the comments there).
* Round 2, history level under a monotone clock: `C14_stamp_le_clock` (stamps never run ahead of the
  clock), `C14_stamp_has_frame` (every stamp value was put on the wire at that time),
  `C14_cadence_wire`, `C14_wire_cadence`, `C14_wire_cadence_two_periods` (consecutive keepalive FRAMES
  on a live link's wire, any two consecutive ticks of any run from start-up).

* Audit round 2: `C14_kalman_psd_run` (+ `_step`, `_fresh`) — along every run of the shell every link's Kalman
  covariance stays PSD and the next innovation denominator is `> 2`; `C14_Kalman_update_convex`,
  `C14_sample_convex_sys` — a fed sample moves the estimate to a point between the prediction `x + v` and the
  sample; `C14_estimate_overshoots_samples` — witness that the estimate is NOT bounded by the samples;
  `C14_smooth_nonneg_run` is true by definition of `get_smooth_rtt_ms` (says so).  RTT has TWO sampling sites
  (keepalive echo, cumulative SRT ACK): see the docstring of `C14_sample_only_from_echo_sys`.

Everything except the last group holds for every scalar type `F` with any `[Scalar F]` instance,
`Float` included.
-/
namespace Srtla.Props.C14
open Srtla Srtla.Sys Srtla.Link Srtla.Conn Srtla.Rtt Srtla.Uplink Srtla.Keepalive

section generic
variable {F : Type} [Scalar F]

/-! ## The frame -/

/-- **Frame**: for every link state whose `window` / `in_flight` are inside `i32` and every clock value
inside `u64`, `keepalive_packet(now)` is a 38-byte datagram of type 0x9000 whose first 10 bytes are
the standard keepalive of `now`; the receiver-side decoders give back `now` and exactly the link's
conn id (as `u32`), window, in-flight count, loss count (`i32 as u32`), the Kalman RTT and ⌊bitrate/8⌋
(both `as u32` of the saturating `as u64`) of the state AT THE CALL; the call stamps
`last_keepalive_sent = last_sent = now`. -/
theorem C14_frame (l : FLink F) (now : Nat)
    (hw : -2147483648 ≤ l.core.window ∧ l.core.window < 2147483648)
    (hi : -2147483648 ≤ l.core.inFlight ∧ l.core.inFlight < 2147483648)
    (hn : now < 18446744073709551616) :
    (l.keepalivePacket now).2.length = 38 ∧
    (l.keepalivePacket now).2.take 10 = Codec.createKeepalive now ∧
    Codec.getPacketTypeS (l.keepalivePacket now).2 = some 0x9000 ∧
    Codec.extractKeepaliveTimestamp (l.keepalivePacket now).2 = .ok (some now) ∧
    Codec.extractKeepaliveConnInfo (l.keepalivePacket now).2 = .ok (some
      { connId := l.core.connId % 4294967296,
        window := l.core.window,
        inFlight := l.core.inFlight,
        rttMs := min (Scalar.toNatSat l.rtt.kalman.x) 4294967295,
        nakCount := (l.core.cong.nakCount % 4294967296).toNat,
        bitrate := min (Scalar.toNatSat (Scalar.div l.bitrate.current (Scalar.lit 8.0 8 1))) 4294967295 }) ∧
    (l.keepalivePacket now).1.lastKeepaliveSent = some now ∧
    (l.keepalivePacket now).1.core.lastSent = some now := by
  have hr : C15.InfoInRange (kaInfo l) := by
    unfold C15.InfoInRange kaInfo
    refine ⟨by dsimp only; omega, hw.1, hw.2, hi.1, hi.2, by dsimp only; omega, Codec.i32ToU32_lt _, by dsimp only; omega⟩
  obtain ⟨h1, h2, h3, h4⟩ := C15.C15_roundtrip_keepalive_ext (kaInfo l) now hr hn
  rw [keepalivePacket_pkt]
  exact ⟨h1, h2, keepalive_type _ _, h3, h4, rfl, rfl⟩

/-! ## Cadence -/

/-- **One housekeeping tick.** A link that is connected and not timed out at the tick has, after the
tick, `last_keepalive_sent = Some(t)` with `now − t < 1000`: its latest keepalive is less than one
idle period old.  The stamp either did not move during the tick, or it is `now` and the link's frame
— `keepalive_packet(now)` of the state at the tick, see `C14_frame` — is in the tick's wire output
under the link's conn id. -/
theorem C14_cadence (s : Sys F) (now j : Nat) (l : FLink F) (hl : s.links[j]? = some l)
    (hc : l.core.connected = true) (hto : l.isTimedOut now = false) :
    ∃ l' t, (handleHousekeeping s now).1.links[j]? = some l' ∧ l'.core.connId = l.core.connId ∧
      l'.lastKeepaliveSent = some t ∧ now - t < 1000 ∧
      (l'.lastKeepaliveSent = l.lastKeepaliveSent ∨
        (t = now ∧ (l.core.connId, (l.keepalivePacket now).2) ∈ (handleHousekeeping s now).2.wire)) := by
  obtain ⟨-, h2, -, -⟩ := handleHousekeeping_spec s now
  obtain ⟨l', hl', hk⟩ := h2 j l hl
  obtain ⟨t, ht, hlt⟩ := hk.fresh hc hto
  refine ⟨l', t, hl', hk.connId, ht, hlt, ?_⟩
  rcases hk.change with h | h | ⟨h, hm⟩
  · exact Or.inl h
  · rw [ht] at h; cases h
  · rw [ht] at h; cases h; exact Or.inr ⟨rfl, hm⟩

/-- **Nothing else is sent as a keepalive**: every keepalive-typed (0x9000) datagram in a tick's wire
output is the frame of a link that is connected and not timed out at the tick, sent under that
link's conn id and built from that link's state at the tick.  (Timed-out links get none.) -/
theorem C14_keepalives_on_wire (s : Sys F) (now : Nat) (x : Nat × Codec.Bytes)
    (hx : x ∈ (handleHousekeeping s now).2.wire) (hty : Codec.getPacketTypeS x.2 = some 0x9000) :
    ∃ l ∈ s.links, x = (l.core.connId, (l.keepalivePacket now).2) ∧ l.core.connected = true ∧
      l.isTimedOut now = false :=
  (handleHousekeeping_spec s now).2.2.1 x hx hty

/-- **At most two keepalives per link per tick** (the due keepalive and the RTT probe): for every
conn id, the keepalive-typed datagrams sent under it in one tick number at most twice the links
carrying that id (ids are unique in the real program: at most 2). -/
theorem C14_at_most_two (s : Sys F) (now cid : Nat) :
    ((handleHousekeeping s now).2.wire.countP
        fun x => x.1 == cid && Codec.getPacketTypeS x.2 == some 0x9000) ≤
      2 * s.links.countP (·.core.connId == cid) :=
  (handleHousekeeping_spec s now).2.2.2 cid

/-- **Two consecutive ticks** (trace level).  Housekeeping runs at `t1`, then any events other than
housekeeping (client datagrams, uplink datagrams, flushes, config changes, injected send failures —
link resets included), then housekeeping runs again at `t2` with `t1 ≤ t2 ≤ t1 + D`.  If link `j` is
connected and not timed out at both ticks, then its latest keepalive send times `k1` (after tick 1)
and `k2` (after tick 2) satisfy `t1 − k1 < 1000`, `t2 − k2 < 1000` and `k2 − k1 < 1000 + D`; either no
keepalive was due (`k2 = k1`) or `k2 = t2` and the frame is on tick 2's wire.  With the 1 s
housekeeping period (`D = 1000`) the gap is below two periods.
`hnr`: over events / runs that keep the link set (no `Ev.reload`); a reload keeps the whole record of every retained link
(`Props/SysReload.lean: reload_frame`) and the theorem applies again from the state after it. -/
theorem C14_cadence_two_ticks (s : Sys F) (t1 t2 D j : Nat) (evs : List Ev) (l m : FLink F)
    (hevs : ∀ e ∈ evs, KaTrace.notHk e = true) (hnr : NoReload evs)
    (h12 : t1 ≤ t2) (hD : t2 - t1 ≤ D)
    (hl : s.links[j]? = some l) (hlc : l.core.connected = true) (hlt : l.isTimedOut t1 = false)
    (hm : (KaTrace.runEvs (step s (.hk t1)).1 evs).links[j]? = some m)
    (hmc : m.core.connected = true) (hmt : m.isTimedOut t2 = false) :
    ∃ l1 l2 k1 k2,
      (step s (.hk t1)).1.links[j]? = some l1 ∧ l1.lastKeepaliveSent = some k1 ∧ t1 - k1 < 1000 ∧
      (step (KaTrace.runEvs (step s (.hk t1)).1 evs) (.hk t2)).1.links[j]? = some l2 ∧
      l2.lastKeepaliveSent = some k2 ∧ t2 - k2 < 1000 ∧
      k2 - k1 < 1000 + D ∧
      (k2 = k1 ∨ (k2 = t2 ∧ (m.core.connId, (m.keepalivePacket t2).2) ∈
        (step (KaTrace.runEvs (step s (.hk t1)).1 evs) (.hk t2)).2.wire)) := by
  obtain ⟨l1, k1, hl1, -, hk1, hlt1, -⟩ := C14_cadence s t1 j l hl hlc hlt
  obtain ⟨l2, k2, hl2, -, hk2, hlt2, hch⟩ :=
    C14_cadence (KaTrace.runEvs (step s (.hk t1)).1 evs) t2 j m hm hmc hmt
  have hfr := KaTrace.runEvs_frame (step s (.hk t1)).1 evs hevs hnr
  obtain ⟨a, ha, hfa⟩ := hfr.get' hm
  have ha' : (handleHousekeeping s t1).1.links[j]? = some a := ha
  rw [hl1] at ha'; cases ha'
  refine ⟨l1, l2, k1, k2, hl1, hk1, hlt1, hl2, hk2, hlt2, ?_, ?_⟩
  · rcases hch with h | ⟨h, -⟩
    · rcases hfa with h' | h'
      · rw [h, h', hk1] at hk2; cases hk2; omega
      · rw [h, h'] at hk2; cases hk2
    · omega
  · rcases hch with h | ⟨h, hw⟩
    · rcases hfa with h' | h'
      · rw [h, h', hk1] at hk2; cases hk2; exact Or.inl rfl
      · rw [h, h'] at hk2; cases hk2
    · exact Or.inr ⟨h, hw⟩

/-! ## RTT sampling -/

/-- **A keepalive sample only from an answered probe**: `handle_keepalive_response` returns a sample
only if a probe was outstanding and the datagram decodes to a keepalive timestamp `ts` with
`0 < now − ts ≤ 10000`; the sample is exactly `now − ts`. -/
theorem C14_sample_only_if (l : FLink F) (data : Codec.Bytes) (now rtt : Nat)
    (h : (l.handleKeepaliveResponse data now).2 = some rtt) :
    l.rtt.waiting = true ∧
    ∃ ts, Codec.extractKeepaliveTimestamp data = .ok (some ts) ∧ rtt = now - ts ∧ 0 < rtt ∧ rtt ≤ 10000 := by
  obtain ⟨hw, ts, hts, hr, h0, h1, -⟩ := hkr_some l data now rtt h
  exact ⟨hw, ts, hts, hr, h0, h1⟩

/-- **The flag clears on any reply that reaches the function** — timely, late, zero / future
timestamp, truncated or undecodable alike. -/
theorem C14_flag_clears (l : FLink F) (data : Codec.Bytes) (now : Nat) :
    (l.handleKeepaliveResponse data now).1.rtt.waiting = false :=
  hkr_clears l data now

/-- **No sample, no change**: when no sample is returned the whole link is unchanged except that
the outstanding-probe flag is cleared; when a sample `rtt` is returned the only change is the tracker
fed with that one sample (`update_estimate(rtt)`), flag cleared. -/
theorem C14_no_sample_no_change (l : FLink F) (data : Codec.Bytes) (now : Nat) :
    ((l.handleKeepaliveResponse data now).2 = none →
      (l.handleKeepaliveResponse data now).1 =
        if l.rtt.waiting then { l with rtt := { l.rtt with waiting := false } } else l) ∧
    (∀ rtt, (l.handleKeepaliveResponse data now).2 = some rtt →
      (l.handleKeepaliveResponse data now).1 =
        { l with rtt := { (l.rtt.updateEstimate rtt now) with waiting := false } }) := by
  refine ⟨hkr_none l data now, ?_⟩
  intro rtt h
  obtain ⟨-, ts, -, -, -, -, he⟩ := hkr_some l data now rtt h
  exact he

/-- **Lift to the uplink arm**: during one uplink event the RTT tracker of ANY link `j` (`l → l'`)
either keeps its whole filter state (at most the probe bookkeeping `waiting` /
`last_keepalive_sent_ms` is cleared: echo without sample, or `mark_for_recovery` on REG_ERR), or is
fed exactly one sample by one of the two sampling paths that exist in the code:

* (a) *keepalive echo*: type 0x9000, `j` is the arrival link, a probe was outstanding, the echoed
  timestamp gives `0 < now − ts ≤ 10000`; the sample is `now − ts`;
* (b) *cumulative SRT ACK* (`handle_srt_ack`, a different sampling path — it runs on every link):
  type 0x8002, the acknowledged number is above the link's high-water mark, is in THIS link's packet
  log with send time `sent`, and `0 < now − sent ≤ 10000`; the sample is `now − sent`.

No other datagram (NAK, SRTLA ACK, registration, data, unknown) changes any RTT tracker. -/
theorem C14_rtt_changes_only_by (s : Sys F) (connId : Nat) (data : Codec.Bytes) (now j : Nat)
    (l l' : FLink F) (hl : s.links[j]? = some l)
    (hl' : (handleUplinkPacket s connId data now).1.links[j]? = some l') :
    (l'.rtt = l.rtt ∨ l'.rtt = { l.rtt with waiting := false } ∨
      l'.rtt = { l.rtt with lastKeepaliveSentMs := 0, waiting := false }) ∨
    (Codec.getPacketTypeS data = some 0x9000 ∧
      s.links.findIdx? (·.core.connId == connId) = some j ∧ l.rtt.waiting = true ∧
      ∃ ts, Codec.extractKeepaliveTimestamp data = .ok (some ts) ∧ 0 < now - ts ∧ now - ts ≤ 10000 ∧
        l'.rtt = { (l.rtt.updateEstimate (now - ts) now) with waiting := false }) ∨
    (Codec.getPacketTypeS data = some 0x8002 ∧
      ∃ a sent, Codec.parseSrtAck data = .ok (some a) ∧ l.core.highestAcked < toI32 a ∧
        logFind l.core.log (toI32 a) = some sent ∧ 0 < now - sent ∧ now - sent ≤ 10000 ∧
        l'.rtt = l.rtt.updateEstimate (now - sent) now) := by
  by_cases hlen : data.length < 2
  · rw [(short_datagram s connId data now hlen).1, hl] at hl'
    cases hl'; exact Or.inl (Or.inl rfl)
  cases hf : s.links.findIdx? (·.core.connId == connId) with
  | none =>
    rw [unknown_link s connId data now hf, hl] at hl'
    cases hl'; exact Or.inl (Or.inl rfl)
  | some idx =>
  obtain ⟨pt, hpt⟩ := type_of_len data (by omega)
  obtain ⟨l0, hl0, -⟩ := findIdx_get s.links connId idx hf
  have hne : data ≠ [] := by intro h; subst h; simp at hlen
  obtain ⟨b, hb, hev⟩ := handleUplinkPacket_link s connId data now idx l0 hne hf hl0 j l hl
  rw [hl'] at hb; cases hb
  obtain ⟨-, -, -, hacks, -, -⟩ := incoming_spec l0 idx s.reg s.clientKnown data now pt hpt
  have hrtt := hev.rtt
  rw [hacks] at hrtt
  by_cases h8 : pt = 0x8002
  · -- SRT ACK: the arm only stamps; the fan-out may sample
    subst h8
    have harr : arrival l0 idx s.reg s.clientKnown data now = stamp l0 now := by
      rcases arrival_cases l0 idx s.reg s.clientKnown data now _ hpt with
        ⟨h, -⟩ | ⟨h, -⟩ | ⟨h, -⟩ | ⟨h, -⟩ | ⟨h, -⟩ | ⟨-, -, -, -, -, h⟩
      · simp at h
      · simp at h
      · simp at h
      · simp at h
      · simp at h
      · exact h
    simp only [if_true] at hrtt
    obtain ⟨ack, hack, hun⟩ := ok_of_ne_panic (C15.C15_total_parse_srt_ack data)
    rw [hun] at hrtt
    cases ack with
    | none =>
      dsimp only at hrtt
      have hfold : ∀ x : FLink F, (ackFold [] now x).rtt = x.rtt := fun _ => rfl
      rw [hfold] at hrtt
      have : l'.rtt = l.rtt := by
        rw [hrtt]
        by_cases hj : j = idx
        · subst hj; rw [hl] at hl0; cases hl0; simp only [if_true]; rw [harr]; rfl
        · simp only [hj, if_false]
      exact Or.inl (Or.inl this)
    | some a =>
      dsimp only at hrtt
      -- one cumulative ACK applied to the link (stamped if it is the arrival link)
      have hcore : ∀ x : FLink F, (x = l ∨ x = stamp l now) →
          (ackFold [a] now x).rtt = match (l.core.srtAck (toI32 a) now).2 with
            | some r => l.rtt.updateEstimate r now
            | none => l.rtt := by
        intro x hx
        have : ackFold [a] now x = x.srtAck (toI32 a) now := rfl
        rw [this, rtt_srtAck]
        rcases hx with rfl | rfl
        · rfl
        · have := srtAck_stamp_irrelevant l.core (some now) (toI32 a) now
          unfold stamp
          dsimp only
          rw [this]
          cases (l.core.srtAck (toI32 a) now).2 <;> rfl
      have hx : (if j = idx then arrival l0 idx s.reg s.clientKnown data now else l) = l ∨
          (if j = idx then arrival l0 idx s.reg s.clientKnown data now else l) = stamp l now := by
        by_cases hj : j = idx
        · subst hj; rw [hl] at hl0; cases hl0; simp only [if_true]; exact Or.inr harr
        · simp only [hj, if_false]; exact Or.inl trivial
      rw [hcore _ hx] at hrtt
      cases hs : (l.core.srtAck (toI32 a) now).2 with
      | none => rw [hs] at hrtt; exact Or.inl (Or.inl hrtt)
      | some r =>
        rw [hs] at hrtt
        obtain ⟨hhi, sent, hsent, hr, h0, h1⟩ := srtAck_sample l.core (toI32 a) now r hs
        subst hr
        exact Or.inr (Or.inr ⟨hpt, a, sent, hack, hhi, hsent, h0, h1, hrtt⟩)
  · -- every other type: no ACK fan-out, only the arrival arm may touch the tracker
    simp only [h8, if_false] at hrtt
    have hfold : ∀ x : FLink F, (ackFold [] now x).rtt = x.rtt := fun _ => rfl
    rw [hfold] at hrtt
    by_cases hj : j = idx
    · subst hj
      rw [hl] at hl0; cases hl0
      simp only [if_true] at hrtt
      rcases arrival_cases l j s.reg s.clientKnown data now pt hpt with
        ⟨-, h | h⟩ | ⟨-, h⟩ | ⟨-, h⟩ | ⟨-, h⟩ | ⟨hp, h⟩ | ⟨-, -, -, -, -, h⟩
      · rw [h] at hrtt; exact Or.inl (Or.inl hrtt)
      · rw [h] at hrtt; exact Or.inl (Or.inl hrtt)
      · rw [h] at hrtt; exact Or.inl (Or.inl hrtt)
      · rw [h] at hrtt; exact Or.inl (Or.inl hrtt)
      · rw [h] at hrtt; exact Or.inl (Or.inr (Or.inr hrtt))
      · subst hp
        rw [h] at hrtt
        obtain ⟨-, -, -, -, -, -, hk⟩ := kaLink_spec l data now
        rcases hk with ⟨-, hk | ⟨-, hk⟩⟩ | ⟨hw, ts, hts, h0, h1, -, hk⟩
        · exact Or.inl (Or.inl (hrtt.trans hk))
        · exact Or.inl (Or.inr (Or.inl (hrtt.trans hk)))
        · exact Or.inr (Or.inl ⟨hpt, rfl, hw, ts, hts, h0, h1, hrtt.trans hk⟩)
      · rw [h] at hrtt; exact Or.inl (Or.inl hrtt)
    · simp only [hj, if_false] at hrtt
      exact Or.inl (Or.inl hrtt)

/-- The NaN case of Rust `f64::max` at the `Float` instance the driver runs: if the Kalman value is
NaN, `get_smooth_rtt_ms` is the literal `0.0`. (Finiteness of the filter itself under IEEE rounding
is not proved; the harness asserts `is_finite() && >= 0` on the real value after every uplink event:
monitor `smooth-rtt-invalid`.) -/
theorem C14_smooth_float_nan (t : RttTracker Float) (h : t.kalman.x.isNaN = true) :
    t.smooth = (0.0 : Float) := by
  unfold RttTracker.smooth Rtt.zero
  simp only [Scalar.fmax, Scalar.lit, rustFmax, h, if_true]

end generic

/-! ## The filter output (ordered field, exact arithmetic) -/

section field
variable {F : Type} [Field F] [LinearOrder F] [IsStrictOrderedRing F] [FloorRing F] (e : F → F)

local notation "𝕊" => fieldScalar F e

/-- The covariance `[[p0, p1], [p2, p3]]` is symmetric positive semi-definite. -/
def PSD (k : Kalman F) : Prop :=
  0 ≤ k.p0 ∧ 0 ≤ k.p3 ∧ k.p1 = k.p2 ∧ k.p1 * k.p2 ≤ k.p0 * k.p3

/-- **The smoothed RTT is never negative**, for every filter state whatsoever (`max x 0`). -/
theorem C14_smooth_nonneg (t : RttTracker F) : 0 ≤ @RttTracker.smooth F 𝕊 t :=
  KalmanField.smooth_nonneg e t

/-- In the field instance the frame's rate field is ⌊bitrate / 8⌋ and the RTT field ⌊x⌋ (both then
saturated to `u32` by `C14_frame`). -/
theorem C14_frame_rate_floor (x : F) :
    @Scalar.toNatSat F 𝕊 (@Scalar.div F 𝕊 x (@Scalar.lit F 𝕊 8.0 8 1)) = ⌊x / 8⌋₊ := by
  dsimp only [Scalar.toNatSat, Scalar.div, Scalar.lit]
  norm_num

/-- **No division by zero, for any sample history** (exact arithmetic).
1. The fresh filter is PSD and every `update` — initialising or correcting, any measurement —
   preserves PSD.
2. For a PSD covariance the innovation covariance `s = p0 + p2 + p1 + p3 + 1/2 + 2` that `update`
   divides by exceeds `r = 2`, so the `|s| < 1e-12` guard is false: the guard branch is never taken
   and both divisions of `update` are by a number `> 2`.
3. Hence after ANY list of measurements from the fresh filter, and after ANY list of
   `update_estimate(rtt, now)` calls from `RttTracker::new()` (the only code that writes the filter,
   see `C14_rtt_changes_only_by`), the covariance is PSD and the next denominator is `> 2`.

NOT covered: IEEE-754 rounding, overflow, NaN.  "Never non-finite" for the real `f64` filter is
therefore only partially proved (no zero / non-positive denominator in exact arithmetic); the
harness asserts `is_finite()` and `>= 0` on the real filter after every uplink event (monitor
`smooth-rtt-invalid`) and the Float model is compared bit for bit with the real filter. -/
theorem C14_Kalman_denominator_pos :
    PSD (@Kalman.new F 𝕊) ∧
    (∀ (k : Kalman F) (m : F), PSD k → PSD (@Kalman.update F 𝕊 k m)) ∧
    (∀ k : Kalman F, PSD k →
      2 < k.p0 + k.p2 + k.p1 + k.p3 + 1 / 2 + 2 ∧
      @Rtt.tiny F 𝕊 (@Scalar.add F 𝕊 (@Scalar.add F 𝕊 (@Scalar.add F 𝕊 (@Scalar.add F 𝕊
        (@Scalar.add F 𝕊 k.p0 k.p2) k.p1) k.p3) (@Rtt.qValue F 𝕊)) (@Rtt.rNoise F 𝕊)) = false) ∧
    (∀ ms : List F, PSD (ms.foldl (@Kalman.update F 𝕊) (@Kalman.new F 𝕊))) ∧
    (∀ samples : List (Nat × Nat),
      PSD (samples.foldl (fun t p => @RttTracker.updateEstimate F 𝕊 t p.1 p.2)
        (@RttTracker.new F 𝕊)).kalman) := by
  refine ⟨KalmanField.psd_new e, KalmanField.psd_update e, fun k hk => KalmanField.innov_gt e k hk,
    KalmanField.psd_history e, ?_⟩
  intro samples
  suffices h : ∀ t : RttTracker F, KalmanField.PSD t.kalman →
      KalmanField.PSD (samples.foldl (fun t p => @RttTracker.updateEstimate F 𝕊 t p.1 p.2) t).kalman from
    h _ (KalmanField.psd_tracker_new e)
  induction samples with
  | nil => intro t ht; exact ht
  | cons p ps ih => intro t ht; exact ih _ (KalmanField.psd_updateEstimate e t p.1 p.2 ht)

/-- With a PSD covariance the correcting update is the textbook formula with every division by the
innovation covariance `s > 2`. -/
theorem C14_Kalman_update_formula (k : Kalman F) (m : F) (h : PSD k) (hi : k.initialized = true) :
    @Kalman.update F 𝕊 k m =
      { x := k.x + k.v + (k.p0 + k.p2 + k.p1 + k.p3 + 1 / 2) / KalmanField.innov k * (m - (k.x + k.v)),
        v := k.v + (k.p2 + k.p3) / KalmanField.innov k * (m - (k.x + k.v)),
        p0 := (1 - (k.p0 + k.p2 + k.p1 + k.p3 + 1 / 2) / KalmanField.innov k) * (k.p0 + k.p2 + k.p1 + k.p3 + 1 / 2),
        p1 := (1 - (k.p0 + k.p2 + k.p1 + k.p3 + 1 / 2) / KalmanField.innov k) * (k.p1 + k.p3),
        p2 := k.p2 + k.p3 - (k.p2 + k.p3) / KalmanField.innov k * (k.p0 + k.p2 + k.p1 + k.p3 + 1 / 2),
        p3 := k.p3 + 1 / 10 - (k.p2 + k.p3) / KalmanField.innov k * (k.p1 + k.p3),
        initialized := true } ∧
    KalmanField.innov k = k.p0 + k.p2 + k.p1 + k.p3 + 1 / 2 + 2 ∧ 2 < KalmanField.innov k :=
  ⟨KalmanField.update_eq_of_psd e k m h hi, rfl, (KalmanField.innov_gt e k h).1⟩

end field

/-! ## Non-vacuity -/

open Srtla.Select in
/-- One established, connected link (conn id 7) at `now = 5000`: window 20000, 3 packets in flight,
4 NAKs, heard 100 ms ago, last keepalive 1200 ms ago. -/
def exLink : FLink Int :=
  letI := fixScalar
  { (FLink.newRegistering 7 0 : FLink Int) with
      core := { connId := 7, connected := true, phase := .live, window := 20000, inFlight := 3,
                log := [(41, 4900), (42, 4950), (43, 4990)], lastReceived := some 4900,
                cong := { nakCount := 4 } },
      established := 100, lastKeepaliveSent := some 3800 }

def exSys : Sys Int := { links := [exLink], reg := Reg.Reg.new [] [], clientKnown := true }

/-- `C14_frame` / `C14_cadence` hypotheses hold for `exLink`; the tick sends its frame. -/
example :
    (@FLink.keepalivePacket Int Select.fixScalar exLink 5000).2.length = 38 ∧
    (∃ l', (@handleHousekeeping Int Select.fixScalar exSys 5000).1.links[0]? = some l' ∧
      l'.lastKeepaliveSent = some 5000) ∧
    ((@handleHousekeeping Int Select.fixScalar exSys 5000).2.wire.map (·.1)) = [7] := by
  let _ := Select.fixScalar
  refine ⟨(C14_frame exLink 5000 (by decide) (by decide) (by decide)).1, ?_, by decide +kernel⟩
  obtain ⟨l', t, h1, -, h3, h4, h5⟩ := C14_cadence exSys 5000 0 exLink rfl rfl (by decide +kernel)
  refine ⟨l', h1, ?_⟩
  rcases h5 with h | ⟨h, -⟩
  · have h0 : exLink.lastKeepaliveSent = some 3800 := rfl
    rw [h, h0] at h3; cases h3; omega
  · rw [h3, h]

/-- The same link with a probe outstanding (sent at 4800). -/
def exLinkW : FLink Int :=
  { exLink with rtt := { exLink.rtt with waiting := true, lastKeepaliveSentMs := 4800 } }

/-- A keepalive echo carrying timestamp 4800 = 0x12C0; an SRT ACK (0x8002) for number 42. -/
def exEcho : Codec.Bytes := [0x90, 0x00, 0, 0, 0, 0, 0, 0, 0x12, 0xC0]
def exSrtAck : Codec.Bytes := [0x80, 0x02, 0, 0, 0, 0, 0, 0, 0, 0, 0, 0, 0, 0, 0, 0, 0, 0, 0, 42]

/-- `C14_sample_only_if` is not vacuous: the echo at 5000 yields the sample 200 and clears the flag;
at 15000 (age 10200 > 10000) and with no probe outstanding it yields none. Path (b) of
`C14_rtt_changes_only_by`: the SRT ACK for 42 (sent at 4950) feeds the tracker at 5000. -/
example :
    (@FLink.handleKeepaliveResponse Int Select.fixScalar exLinkW exEcho 5000).2 = some 200 ∧
    (@FLink.handleKeepaliveResponse Int Select.fixScalar exLinkW exEcho 5000).1.rtt.waiting = false ∧
    (@FLink.handleKeepaliveResponse Int Select.fixScalar exLinkW exEcho 15000).2 = none ∧
    (@FLink.handleKeepaliveResponse Int Select.fixScalar exLink exEcho 5000).2 = none ∧
    ((@handleUplinkPacket Int Select.fixScalar exSys 7 exSrtAck 5000).1.links.map (·.rtt.lastRttMeasMs)) = [5000] ∧
    ((@handleUplinkPacket Int Select.fixScalar exSys 7 exEcho 5000).1.links.map (·.rtt.lastRttMeasMs)) = [0] := by
  decide +kernel

/-- `C14_cadence_two_ticks` is not vacuous: ticks at 5000 and 6000 (`D = 1000`) with an echo, a client
datagram and a flush in between; the link is connected and live at both ticks, the stamps are 5000
and 6000 (gap 1000 < 2000). -/
example :
    let evs : List Ev := [.uplink 5300 7 exEcho, .client 5400 [0, 0, 0, 9, 0, 0, 0, 0], .flush 5500]
    exLink.core.connected = true ∧ @FLink.isTimedOut Int Select.fixScalar exLink 5000 = false ∧
    ((@KaTrace.runEvs Int Select.fixScalar (@step Int Select.fixScalar exSys (.hk 5000)).1 evs).links.map
      fun m => (m.core.connected, @FLink.isTimedOut Int Select.fixScalar m 6000, m.lastKeepaliveSent))
      = [(true, false, some 5000)] ∧
    ((@step Int Select.fixScalar
        (@KaTrace.runEvs Int Select.fixScalar (@step Int Select.fixScalar exSys (.hk 5000)).1 evs) (.hk 6000)).1.links.map
      (·.lastKeepaliveSent)) = [some 6000] := by
  decide +kernel

/-- The Kalman statements at a concrete ordered field (ℚ): after the initialising sample the
denominator of the next update is 13/2; after a second sample the covariance is still PSD. -/
example :
    KalmanField.innov (@Kalman.update ℚ ratScalar (@Kalman.new ℚ ratScalar) 100) = 13 / 2 ∧
    PSD (@Kalman.update ℚ ratScalar (@Kalman.update ℚ ratScalar (@Kalman.new ℚ ratScalar) 100) 130) := by
  refine ⟨?_, (C14_Kalman_denominator_pos (fun x : ℚ => 1 / (1 - x))).2.1 _ _
    ((C14_Kalman_denominator_pos (fun x : ℚ => 1 / (1 - x))).2.1 _ _
      (C14_Kalman_denominator_pos (fun x : ℚ => 1 / (1 - x))).1)⟩
  simp only [Kalman.update, Kalman.new, KalmanField.innov, Rtt.zero, Rtt.rNoise, Scalar.isFinite, Scalar.lit]
  norm_num


/-! ## Round 2: stamps vs. the clock, and the cadence on the WIRE over whole histories

The inequalities of `C14_cadence` / `C14_cadence_two_ticks` are in truncated `Nat` subtraction and are
about the stamp `last_keepalive_sent`; by themselves they would be satisfied by a stamp in the far
future, and they do not say that an old stamp ever corresponded to a datagram.  Both gaps are closed
here by invariants over EVERY run of the shell from a start-up state (no stamps: every link is
`SrtlaConnection::new_registering`, `FLink.newRegistering`), under the monotone-clock hypothesis
"housekeeping ticks read non-decreasing clock values". -/

section history
variable {F : Type} [Scalar F]
open Srtla.KaTrace

/-- Start-up links carry no stamp (the base case of the run theorems below is not vacuous). -/
example (id t : Nat) : (FLink.newRegistering id t : FLink F).lastKeepaliveSent = none := rfl

/-- **The cadence clock never runs ahead of the housekeeping clock.**  For every run from a start-up
state in which every housekeeping tick read a clock value `≤ T` (monotone clock: `T` = the value read
by the latest tick, or any later time), every stamp `last_keepalive_sent = Some(k)` in the final state
has `k ≤ T`.  No other event writes a stamp other than clearing it. -/
theorem C14_stamp_le_clock (s0 : Sys F) (evs : List Ev) (T : Nat)
    (h0 : ∀ l ∈ s0.links, l.lastKeepaliveSent = none)
    (hT : ∀ e ∈ evs, ∀ t, e = .hk t → t ≤ T) :
    ∀ l ∈ (runEvs s0 evs).links, ∀ k, l.lastKeepaliveSent = some k → k ≤ T :=
  stampLe_run T s0 evs (stampLe_fresh T s0 h0) hT

/-- A keepalive FRAME of conn id `cid` with send time `k` is in the wire history `tr`
(`(time, conn id, bytes)` of every datagram put on an uplink socket, `KaTrace.wireTrace`): the bytes
are `keepalive_packet(k)` of some state `m` of the link with that id (so `C14_frame` describes them:
38 bytes, timestamp `k`, telemetry of `m`), sent at time `k` under that id. -/
def FrameAt (tr : List (Nat × Nat × Codec.Bytes)) (cid k : Nat) : Prop :=
  ∃ m : FLink F, m.core.connId = cid ∧ (k, cid, (m.keepalivePacket k).2) ∈ tr

/-- A `FrameAt` witness is a keepalive-typed (0x9000) datagram in the history at that time. -/
theorem C14_frameAt_is_keepalive (tr : List (Nat × Nat × Codec.Bytes)) (cid k : Nat)
    (h : FrameAt (F := F) tr cid k) :
    ∃ b, (k, cid, b) ∈ tr ∧ Codec.getPacketTypeS b = some 0x9000 := by
  obtain ⟨m, -, hm⟩ := h
  exact ⟨_, hm, by rw [keepalivePacket_pkt]; exact keepalive_type _ _⟩

/-- **Every stamp was put on the wire** (the reverse direction of `C14_cadence`): in the state after
ANY run from a start-up state, whenever a link's stamp is `Some(k)`, the wire history of that run
contains that link's keepalive frame sent at time `k`. -/
theorem C14_stamp_has_frame (s0 : Sys F) (evs : List Ev)
    (h0 : ∀ l ∈ s0.links, l.lastKeepaliveSent = none) (j k : Nat) (l : FLink F)
    (hl : (runEvs s0 evs).links[j]? = some l) (hk : l.lastKeepaliveSent = some k) :
    FrameAt (F := F) (wireTrace s0 evs) l.core.connId k := by
  have := witnessed_run [] s0 evs (witnessed_fresh s0 h0) j l k hl hk
  simpa [FrameAt] using this

/-- **One tick, with history.**  After any run `pre` from start-up whose ticks read clock values
`≤ now`, a tick at `now` leaves a link that is connected and not timed out with a stamp `k` such that
`k ≤ now < k + 1000` (genuine inequalities, no truncation), and the link's keepalive frame sent at
time `k` is in the wire history. -/
theorem C14_cadence_wire (s0 : Sys F) (pre : List Ev) (now j : Nat) (l : FLink F)
    (h0 : ∀ l ∈ s0.links, l.lastKeepaliveSent = none)
    (hmono : ∀ e ∈ pre, ∀ t, e = .hk t → t ≤ now)
    (hl : (runEvs s0 pre).links[j]? = some l) (hc : l.core.connected = true)
    (hto : l.isTimedOut now = false) :
    ∃ l' k, (runEvs s0 (pre ++ [.hk now])).links[j]? = some l' ∧ l'.core.connId = l.core.connId ∧
      l'.lastKeepaliveSent = some k ∧ k ≤ now ∧ now < k + 1000 ∧
      FrameAt (F := F) (wireTrace s0 (pre ++ [.hk now])) l.core.connId k := by
  obtain ⟨l', k, hl', hid, hk, hlt, -⟩ := C14_cadence (runEvs s0 pre) now j l hl hc hto
  have hrun : runEvs s0 (pre ++ [.hk now]) = (handleHousekeeping (runEvs s0 pre) now).1 := by
    rw [runEvs_append]; rfl
  have hl'' : (runEvs s0 (pre ++ [.hk now])).links[j]? = some l' := by rw [hrun]; exact hl'
  have hle : k ≤ now := by
    refine C14_stamp_le_clock s0 (pre ++ [.hk now]) now h0 ?_ l' (List.mem_of_getElem? hl'') k hk
    intro e he t het
    rcases List.mem_append.mp he with he | he
    · exact hmono e he t het
    · simp only [List.mem_singleton] at he; subst he; cases het; exact Nat.le_refl _
  refine ⟨l', k, hl'', hid, hk, hle, by omega, ?_⟩
  have := C14_stamp_has_frame s0 (pre ++ [.hk now]) h0 j k l' hl'' hk
  rw [hid] at this; exact this

/-- **Cadence on the wire, any two consecutive ticks of any run.**  Let the shell run from start-up
through any events `pre` (ticks at clock values `≤ t1`), a housekeeping tick at `t1`, any events `mid`
other than housekeeping (client / uplink datagrams, flushes, configuration changes, injected send
failures — link resets included), and the next tick at `t2` with `t1 ≤ t2 ≤ t1 + D`.  If link `j` is
connected and not timed out at both ticks, there are send times `k1 ≤ k2` with
`k1 ≤ t1 < k1 + 1000`, `k2 ≤ t2 < k2 + 1000`, `k2 < k1 + 1000 + D`, and the link's keepalive FRAMES sent at
`k1` and at `k2` are both in the wire history of the run; `k2` is `k1` (no keepalive was due) or `t2`.
With the 1 s housekeeping period (`D = 1000`): consecutive keepalive frames on the link's wire are less
than 2000 ms = two housekeeping periods apart (`C14_wire_cadence_two_periods`).
`hnr` (on `mid` only; `pre` may contain reloads): over events / runs that keep the link set (no `Ev.reload`); a reload
keeps the whole record of every retained link (`Props/SysReload.lean: reload_frame`) and the theorem applies again
from the state after it. -/
theorem C14_wire_cadence (s0 : Sys F) (pre mid : List Ev) (t1 t2 D j : Nat) (l m : FLink F)
    (h0 : ∀ l ∈ s0.links, l.lastKeepaliveSent = none)
    (hpre : ∀ e ∈ pre, ∀ t, e = .hk t → t ≤ t1)
    (hmid : ∀ e ∈ mid, notHk e = true) (hnr : NoReload mid)
    (h12 : t1 ≤ t2) (hD : t2 - t1 ≤ D)
    (hl : (runEvs s0 pre).links[j]? = some l) (hlc : l.core.connected = true)
    (hlt : l.isTimedOut t1 = false)
    (hm : (runEvs s0 ((pre ++ [.hk t1]) ++ mid)).links[j]? = some m) (hmc : m.core.connected = true)
    (hmt : m.isTimedOut t2 = false) :
    ∃ k1 k2, k1 ≤ t1 ∧ t1 < k1 + 1000 ∧ k2 ≤ t2 ∧ t2 < k2 + 1000 ∧ k1 ≤ k2 ∧ k2 < k1 + 1000 + D ∧
      (k2 = k1 ∨ k2 = t2) ∧
      FrameAt (F := F) (wireTrace s0 (((pre ++ [.hk t1]) ++ mid) ++ [.hk t2])) l.core.connId k1 ∧
      FrameAt (F := F) (wireTrace s0 (((pre ++ [.hk t1]) ++ mid) ++ [.hk t2])) l.core.connId k2 := by
  -- tick 1
  obtain ⟨l1, k1, hl1, hid1, hk1, hle1, hlt1, hf1⟩ := C14_cadence_wire s0 pre t1 j l h0 hpre hl hlc hlt
  -- the events between the ticks keep or clear the stamp and keep the conn id
  have hrun2 : runEvs s0 ((pre ++ [.hk t1]) ++ mid) = runEvs (runEvs s0 (pre ++ [.hk t1])) mid :=
    runEvs_append _ _ _
  have hfr := runEvs_frame (runEvs s0 (pre ++ [.hk t1])) mid hmid hnr
  have hidm := runEvs_id (runEvs s0 (pre ++ [.hk t1])) mid hnr
  rw [← hrun2] at hfr hidm
  have hfm : LksFrame l1 m := hfr.2 j l1 m hl1 hm
  have hmid' : m.core.connId = l.core.connId :=
    Eq.trans (show m.core.connId = l1.core.connId from hidm.2 j l1 m hl1 hm) hid1
  -- tick 2
  have hpre2 : ∀ e ∈ (pre ++ [.hk t1]) ++ mid, ∀ t, e = .hk t → t ≤ t2 := by
    intro e he t het
    rcases List.mem_append.mp he with he | he
    · rcases List.mem_append.mp he with he | he
      · exact Nat.le_trans (hpre e he t het) h12
      · simp only [List.mem_singleton] at he; subst he; cases het; exact h12
    · have := hmid e he; subst het; simp [notHk] at this
  obtain ⟨l2, k2, hl2, hid2, hk2, hle2, hlt2, hf2⟩ :=
    C14_cadence_wire s0 ((pre ++ [.hk t1]) ++ mid) t2 j m h0 hpre2 hm hmc hmt
  -- how the second stamp relates to the first
  obtain ⟨l2', k2', hl2', -, hk2', -, hch⟩ :=
    C14_cadence (runEvs s0 ((pre ++ [.hk t1]) ++ mid)) t2 j m hm hmc hmt
  have hrun3 : runEvs s0 (((pre ++ [.hk t1]) ++ mid) ++ [.hk t2]) =
      (handleHousekeeping (runEvs s0 ((pre ++ [.hk t1]) ++ mid)) t2).1 := by
    rw [runEvs_append]; rfl
  rw [hrun3, hl2'] at hl2; cases hl2
  rw [hk2'] at hk2; cases hk2
  have hrel : k2 = k1 ∨ k2 = t2 := by
    rcases hch with h | ⟨h, -⟩
    · rcases hfm with h' | h'
      · rw [h, h', hk1] at hk2'; cases hk2'; exact Or.inl rfl
      · rw [h, h'] at hk2'; cases hk2'
    · exact Or.inr h
  refine ⟨k1, k2, hle1, hlt1, hle2, hlt2, ?_, ?_, hrel, ?_, ?_⟩
  · rcases hrel with h | h <;> omega
  · rcases hrel with h | h <;> omega
  · -- the first frame is in the prefix of the history
    obtain ⟨x, hx, hin⟩ := hf1
    refine ⟨x, hx, ?_⟩
    rw [List.append_assoc, wireTrace_append]
    exact List.mem_append_left _ hin
  · rw [hmid'] at hf2; exact hf2

/-- The literal reading of the property: housekeeping period 1000 ms, so two consecutive keepalive
frames on a live link's wire are less than 2000 ms (two periods) apart.
`hnr` (on `mid` only; `pre` may contain reloads): over events / runs that keep the link set (no `Ev.reload`); a reload
keeps the whole record of every retained link (`Props/SysReload.lean: reload_frame`) and the theorem applies again
from the state after it. -/
theorem C14_wire_cadence_two_periods (s0 : Sys F) (pre mid : List Ev) (t1 t2 j : Nat) (l m : FLink F)
    (h0 : ∀ l ∈ s0.links, l.lastKeepaliveSent = none)
    (hpre : ∀ e ∈ pre, ∀ t, e = .hk t → t ≤ t1)
    (hmid : ∀ e ∈ mid, notHk e = true) (hnr : NoReload mid)
    (h12 : t1 ≤ t2) (hD : t2 - t1 ≤ 1000)
    (hl : (runEvs s0 pre).links[j]? = some l) (hlc : l.core.connected = true)
    (hlt : l.isTimedOut t1 = false)
    (hm : (runEvs s0 ((pre ++ [.hk t1]) ++ mid)).links[j]? = some m) (hmc : m.core.connected = true)
    (hmt : m.isTimedOut t2 = false) :
    ∃ k1 k2, k1 ≤ k2 ∧ k2 < k1 + 2000 ∧ k1 ≤ t1 ∧ k2 ≤ t2 ∧ t2 < k2 + 1000 ∧
      FrameAt (F := F) (wireTrace s0 (((pre ++ [.hk t1]) ++ mid) ++ [.hk t2])) l.core.connId k1 ∧
      FrameAt (F := F) (wireTrace s0 (((pre ++ [.hk t1]) ++ mid) ++ [.hk t2])) l.core.connId k2 := by
  obtain ⟨k1, k2, a1, -, a3, a4, a5, a6, -, a8, a9⟩ :=
    C14_wire_cadence s0 pre mid t1 t2 1000 j l m h0 hpre hmid hnr h12 hD hl hlc hlt hm hmc hmt
  exact ⟨k1, k2, a5, by omega, a1, a3, a4, a8, a9⟩

/-- **Cadence on the wire BY CONN ID, across reloads.**  `C14_wire_cadence` with the link followed by its conn id `c`
instead of its index, so that `mid` may contain RELOADS (in the real loop a reload is the tail of the housekeeping arm,
i.e. it sits right after the tick at `t1`): no `NoReload` hypothesis anywhere.  Conn ids pairwise distinct in the state
before the first tick (`hnd`; only there).  If the link carrying `c` is connected and not timed out at the tick at `t1`,
and after `mid` — any events other than housekeeping ticks, reloads included: the link may have moved to another index,
links may have been removed and created — a link carrying `c` is connected and not timed out at the tick at `t2`, then the
conclusion of `C14_wire_cadence` holds for conn id `c`: send times `k1 ≤ k2`, `k1 ≤ t1 < k1 + 1000`,
`k2 ≤ t2 < k2 + 1000`, `k2 < k1 + 1000 + D`, `k2 = k1` or `k2 = t2`, and both keepalive FRAMES are in the wire history
under conn id `c`.  The reason it spans the reload: a retained link's whole record — its stamp in particular — is
unchanged by a reload (`reload_frame`), and a freshly created link carries no stamp (`KaTrace.runEvs_lksById`).  That a
link whose address stays in every reload's list IS present afterwards, with the same conn id, is
`Props/C09.lean: C09_link_set_closed_form` / `Props/SysReload.lean: reload_frame`. -/
theorem C14_wire_cadence_by_id (s0 : Sys F) (pre mid : List Ev) (t1 t2 D c : Nat) (l m : FLink F)
    (h0 : ∀ l ∈ s0.links, l.lastKeepaliveSent = none)
    (hpre : ∀ e ∈ pre, ∀ t, e = .hk t → t ≤ t1)
    (hmid : ∀ e ∈ mid, notHk e = true)
    (hnd : ((runEvs s0 pre).links.map (·.core.connId)).Nodup)
    (h12 : t1 ≤ t2) (hD : t2 - t1 ≤ D)
    (hl : l ∈ (runEvs s0 pre).links) (hlid : l.core.connId = c) (hlc : l.core.connected = true)
    (hlt : l.isTimedOut t1 = false)
    (hm : m ∈ (runEvs s0 ((pre ++ [.hk t1]) ++ mid)).links) (hmid' : m.core.connId = c)
    (hmc : m.core.connected = true) (hmt : m.isTimedOut t2 = false) :
    ∃ k1 k2, k1 ≤ t1 ∧ t1 < k1 + 1000 ∧ k2 ≤ t2 ∧ t2 < k2 + 1000 ∧ k1 ≤ k2 ∧ k2 < k1 + 1000 + D ∧
      (k2 = k1 ∨ k2 = t2) ∧
      FrameAt (F := F) (wireTrace s0 (((pre ++ [.hk t1]) ++ mid) ++ [.hk t2])) c k1 ∧
      FrameAt (F := F) (wireTrace s0 (((pre ++ [.hk t1]) ++ mid) ++ [.hk t2])) c k2 := by
  obtain ⟨j1, hj1, hget1⟩ := List.getElem_of_mem hl
  have hl' : (runEvs s0 pre).links[j1]? = some l := by rw [List.getElem?_eq_getElem hj1, hget1]
  obtain ⟨j2, hj2, hget2⟩ := List.getElem_of_mem hm
  have hm' : (runEvs s0 ((pre ++ [.hk t1]) ++ mid)).links[j2]? = some m := by
    rw [List.getElem?_eq_getElem hj2, hget2]
  -- tick 1
  obtain ⟨l1, k1, hl1, hid1, hk1, hle1, hlt1, hf1⟩ := C14_cadence_wire s0 pre t1 j1 l h0 hpre hl' hlc hlt
  have hrun1 : runEvs s0 (pre ++ [.hk t1]) = (step (runEvs s0 pre) (.hk t1)).1 := by
    rw [runEvs_append]; rfl
  have hnd1 : ((runEvs s0 (pre ++ [.hk t1])).links.map (·.core.connId)).Nodup := by
    rw [hrun1, ids_of_idFrame (step_id (runEvs s0 pre) (.hk t1) rfl)]; exact hnd
  -- between the ticks, by conn id
  have hrun2 : runEvs s0 ((pre ++ [.hk t1]) ++ mid) = runEvs (runEvs s0 (pre ++ [.hk t1])) mid :=
    runEvs_append _ _ _
  have hby := runEvs_lksById (runEvs s0 (pre ++ [.hk t1])) mid hmid
  rw [← hrun2] at hby
  have hfm : LksFrame l1 m := by
    rcases hby m hm with h | ⟨x, hx, hxid, hxs⟩
    · exact Or.inr h
    · have : x = l1 := eq_of_mem_of_id hnd1 hx (List.mem_of_getElem? hl1)
        (by rw [hxid, hmid', hid1, hlid])
      subst this
      exact Or.inl hxs
  -- tick 2
  have hpre2 : ∀ e ∈ (pre ++ [.hk t1]) ++ mid, ∀ t, e = .hk t → t ≤ t2 := by
    intro e he t het
    rcases List.mem_append.mp he with he | he
    · rcases List.mem_append.mp he with he | he
      · exact Nat.le_trans (hpre e he t het) h12
      · simp only [List.mem_singleton] at he; subst he; cases het; exact h12
    · have := hmid e he; subst het; simp [notHk] at this
  obtain ⟨l2, k2, hl2, hid2, hk2, hle2, hlt2, hf2⟩ :=
    C14_cadence_wire s0 ((pre ++ [.hk t1]) ++ mid) t2 j2 m h0 hpre2 hm' hmc hmt
  obtain ⟨l2', k2', hl2', -, hk2', -, hch⟩ :=
    C14_cadence (runEvs s0 ((pre ++ [.hk t1]) ++ mid)) t2 j2 m hm' hmc hmt
  have hrun3 : runEvs s0 (((pre ++ [.hk t1]) ++ mid) ++ [.hk t2]) =
      (handleHousekeeping (runEvs s0 ((pre ++ [.hk t1]) ++ mid)) t2).1 := by
    rw [runEvs_append]; rfl
  rw [hrun3, hl2'] at hl2; cases hl2
  rw [hk2'] at hk2; cases hk2
  have hrel : k2 = k1 ∨ k2 = t2 := by
    rcases hch with h | ⟨h, -⟩
    · rcases hfm with h' | h'
      · rw [h, h', hk1] at hk2'; cases hk2'; exact Or.inl rfl
      · rw [h, h'] at hk2'; cases hk2'
    · exact Or.inr h
  refine ⟨k1, k2, hle1, hlt1, hle2, hlt2, ?_, ?_, hrel, ?_, ?_⟩
  · rcases hrel with h | h <;> omega
  · rcases hrel with h | h <;> omega
  · rw [hlid] at hf1
    obtain ⟨x, hx, hin⟩ := hf1
    refine ⟨x, hx, ?_⟩
    rw [List.append_assoc, wireTrace_append]
    exact List.mem_append_left _ hin
  · rw [hmid'] at hf2; exact hf2

/-- The literal reading across reloads: with the 1 s housekeeping period two consecutive keepalive frames on the wire
of conn id `c` are less than 2000 ms apart, whatever reloads happened between the two ticks. -/
theorem C14_wire_cadence_two_periods_by_id (s0 : Sys F) (pre mid : List Ev) (t1 t2 c : Nat) (l m : FLink F)
    (h0 : ∀ l ∈ s0.links, l.lastKeepaliveSent = none)
    (hpre : ∀ e ∈ pre, ∀ t, e = .hk t → t ≤ t1)
    (hmid : ∀ e ∈ mid, notHk e = true)
    (hnd : ((runEvs s0 pre).links.map (·.core.connId)).Nodup)
    (h12 : t1 ≤ t2) (hD : t2 - t1 ≤ 1000)
    (hl : l ∈ (runEvs s0 pre).links) (hlid : l.core.connId = c) (hlc : l.core.connected = true)
    (hlt : l.isTimedOut t1 = false)
    (hm : m ∈ (runEvs s0 ((pre ++ [.hk t1]) ++ mid)).links) (hmid' : m.core.connId = c)
    (hmc : m.core.connected = true) (hmt : m.isTimedOut t2 = false) :
    ∃ k1 k2, k1 ≤ k2 ∧ k2 < k1 + 2000 ∧ k1 ≤ t1 ∧ k2 ≤ t2 ∧ t2 < k2 + 1000 ∧
      FrameAt (F := F) (wireTrace s0 (((pre ++ [.hk t1]) ++ mid) ++ [.hk t2])) c k1 ∧
      FrameAt (F := F) (wireTrace s0 (((pre ++ [.hk t1]) ++ mid) ++ [.hk t2])) c k2 := by
  obtain ⟨k1, k2, a1, -, a3, a4, a5, a6, -, a8, a9⟩ :=
    C14_wire_cadence_by_id s0 pre mid t1 t2 1000 c l m h0 hpre hmid hnd h12 hD hl hlid hlc hlt hm hmid' hmc hmt
  exact ⟨k1, k2, a5, by omega, a1, a3, a4, a8, a9⟩

end history

/-- `exLink` before its first keepalive (no stamp): a start-up-like state for the run theorems. -/
def exLink0 : FLink Int := { exLink with lastKeepaliveSent := none }
def exSys0 : Sys Int := { links := [exLink0], reg := Reg.Reg.new [] [], clientKnown := true }

/-- `C14_wire_cadence` is not vacuous: from `exSys0` (no stamps), a client datagram, a tick at 5000, an
echo + a client datagram + a flush, a tick at 6000: the link is connected and live at both ticks, and
the wire history holds exactly its keepalive-typed datagrams sent at 5000 and at 6000 (gap 1000 < 2000). -/
example :
    let pre : List Ev := [.client 4950 [0, 0, 0, 9, 0, 0, 0, 0]]
    let mid : List Ev := [.uplink 5300 7 exEcho, .client 5400 [0, 0, 0, 9, 0, 0, 0, 0], .flush 5500]
    (∀ l ∈ exSys0.links, l.lastKeepaliveSent = none) ∧
    ((@KaTrace.runEvs Int Select.fixScalar exSys0 pre).links.map
      fun m => (m.core.connected, @FLink.isTimedOut Int Select.fixScalar m 5000)) = [(true, false)] ∧
    ((@KaTrace.runEvs Int Select.fixScalar exSys0 ((pre ++ [.hk 5000]) ++ mid)).links.map
      fun m => (m.core.connected, @FLink.isTimedOut Int Select.fixScalar m 6000, m.lastKeepaliveSent))
      = [(true, false, some 5000)] ∧
    (((@KaTrace.wireTrace Int Select.fixScalar exSys0 (((pre ++ [.hk 5000]) ++ mid) ++ [.hk 6000])).filter
        fun x => Codec.getPacketTypeS x.2.2 == some 0x9000).map fun x => (x.1, x.2.1))
      = [(5000, 7), (6000, 7)] := by
  refine ⟨by intro l hl; simp [exSys0] at hl; subst hl; rfl, ?_⟩
  decide +kernel

/-- Two uplinks at distinct addresses (conn id 8 at address 1 in front, `exLink0` = conn id 7 at address 2 behind). -/
def exSys0R : Sys Int :=
  { links := [{ exLink0 with core := { exLink0.core with connId := 8 }, addr := 1 }, { exLink0 with addr := 2 }],
    reg := Reg.Reg.new [] [], clientKnown := true }

/-- `C14_wire_cadence_by_id` is not vacuous: between the tick at 5000 and the tick at 6000 a RELOAD removes the link in
front (address 1) — conn id 7 moves from index 1 to index 0 and keeps its stamp 5000 — and adds address 3 (conn id 11,
no stamp).  Conn id 7 is connected and not timed out at both ticks and the wire history holds its keepalive-typed
datagrams sent at 5000 and at 6000; the removed conn id 8 gets one at 5000 only, the new link none. -/
example :
    let pre : List Ev := [.client 4950 [0, 0, 0, 9, 0, 0, 0, 0]]
    let mid : List Ev := [.reload 5001 [2, 3] [some 11], .uplink 5300 7 exEcho, .flush 5500]
    (∀ l ∈ exSys0R.links, l.lastKeepaliveSent = none) ∧
    ((@KaTrace.runEvs Int Select.fixScalar exSys0R pre).links.map
      fun m => (m.core.connId, m.core.connected, @FLink.isTimedOut Int Select.fixScalar m 5000))
      = [(8, true, false), (7, true, false)] ∧
    ((@KaTrace.runEvs Int Select.fixScalar exSys0R ((pre ++ [.hk 5000]) ++ mid)).links.map
      fun m => (m.core.connId, m.core.connected, @FLink.isTimedOut Int Select.fixScalar m 6000, m.lastKeepaliveSent))
      = [(7, true, false, some 5000), (11, false, false, none)] ∧
    (((@KaTrace.wireTrace Int Select.fixScalar exSys0R (((pre ++ [.hk 5000]) ++ mid) ++ [.hk 6000])).filter
        fun x => Codec.getPacketTypeS x.2.2 == some 0x9000).map fun x => (x.1, x.2.1))
      = [(5000, 8), (5000, 7), (6000, 7)] := by
  refine ⟨by intro l hl; simp [exSys0R] at hl; rcases hl with rfl | rfl <;> rfl, ?_⟩
  decide +kernel

/-! ## Round 3: RTT sampling over `Sys.step` — every event constructor, every link, every run

`C14_rtt_changes_only_by` is about the uplink arm.  `Lemmas/SysDir.lean` walks through `Sys.step` once for a
two-state relation (`step_run`); `Lemmas/SysDirRtt.lean` reads off what the per-link operations of the OTHER
arms (client datagram, flush, housekeeping, configuration) do to the tracker: nothing, except that
`keepalive_packet` / `mark_for_recovery` move the probe bookkeeping (`waiting`, `last_keepalive_sent_ms`) and
housekeeping's reconnect resets the whole tracker (`RttTracker::reset`). -/

section shell
variable {F : Type} [Scalar F]
open Srtla.SysDir

/-- **RTT sampling at shell level, per event** (every constructor of `Sys.Ev`, every link index `j`,
`l → l'` the record of link `j` before / after the event).  Exactly these things can happen to the tracker:

1. its filter state (Kalman filter, jitter, minima, windows, `last_rtt_measurement_ms`) is untouched — at most
   the probe bookkeeping `waiting` / `last_keepalive_sent_ms` moves (`SameFilter`);
2. it is reset (`RttTracker::reset`, up to the probe bookkeeping) — only in a housekeeping event (reconnect of a
   timed-out link);
3. it is fed exactly one KEEPALIVE sample — only in an `uplink` event that arrived on THIS link's conn id,
   carrying a keepalive (0x9000) whose echoed timestamp `ts` gives `0 < now − ts ≤ 10000`, while a probe was
   outstanding; the sample is `now − ts`;
4. it is fed exactly one sample by the OTHER sampling path of the code, the cumulative SRT ACK
   (`handle_srt_ack`, 0x8002; runs on every link): the acknowledged number is above this link's high-water
   mark and in THIS link's packet log with send time `sent`, `0 < now − sent ≤ 10000`; the sample is
   `now − sent`.

So a client datagram, a flush, a configuration event, `mark_for_recovery` (failed send, REG_ERR), REG3, a NAK,
an SRTLA ACK never feed or reset the filter.
`hnr`: over events / runs that keep the link set (no `Ev.reload`); a reload keeps the whole record of every retained link
(`Props/SysReload.lean: reload_frame`) and the theorem applies again from the state after it.  (For a reload itself: a retained link keeps its tracker, a fresh link starts
with `RttTracker.new`; the per-link statement that covers it is `C14_kalman_psd_step`.) -/
theorem C14_rtt_changes_only_by_sys (s : Sys F) (e : Ev) (hnr : e.isReload = false) (j : Nat) (l l' : FLink F)
    (hl : s.links[j]? = some l) (hl' : (step s e).1.links[j]? = some l') :
    SameFilter l.rtt l'.rtt ∨
    ((∃ now, e = .hk now) ∧ SameFilter RttTracker.new l'.rtt) ∨
    (∃ now cid data, e = .uplink now cid data ∧ Codec.getPacketTypeS data = some 0x9000 ∧
      s.links.findIdx? (·.core.connId == cid) = some j ∧ l.rtt.waiting = true ∧
      ∃ ts, Codec.extractKeepaliveTimestamp data = .ok (some ts) ∧ 0 < now - ts ∧ now - ts ≤ 10000 ∧
        l'.rtt = { (l.rtt.updateEstimate (now - ts) now) with waiting := false }) ∨
    (∃ now cid data, e = .uplink now cid data ∧ Codec.getPacketTypeS data = some 0x8002 ∧
      ∃ a sent, Codec.parseSrtAck data = .ok (some a) ∧ l.core.highestAcked < toI32 a ∧
        logFind l.core.log (toI32 a) = some sent ∧ 0 < now - sent ∧ now - sent ≤ 10000 ∧
        l'.rtt = l.rtt.updateEstimate (now - sent) now) := by
  obtain ⟨l'', h1, hrun⟩ := (step_run s e hnr).2 j l hl
  rw [hl'] at h1
  cases h1
  cases e with
  | reload rnow raddrs routs => cases hnr
  | uplink now cid data =>
    rcases C14_rtt_changes_only_by s cid data now j l l' hl hl' with (h | h | h) | h | h
    · exact .inl (.of_eq h)
    · rw [h]; exact .inl (SameFilter.setW _ _)
    · rw [h]; exact .inl (SameFilter.set _ _ _)
    · exact .inr (.inr (.inl ⟨now, cid, data, rfl, h⟩))
    · exact .inr (.inr (.inr ⟨now, cid, data, rfl, h⟩))
  | client now pkt =>
    have hn : ∀ op, op = Op.kaEcho ∨ op = .srtAck ∨ op = .reconnect → ¬ evOps s (.client now pkt) j op := by
      intro op hop hA
      have hA' : clientOps op := hA
      unfold clientOps at hA'
      rcases hop with rfl | rfl | rfl <;> rcases hA' with h | h | h | h | h <;> cases h
    rcases rtt_run hrun (hn _ (.inl rfl)) (hn _ (.inr (.inl rfl))) with h | ⟨hr, -⟩
    · exact .inl h
    · exact absurd hr (hn _ (.inr (.inr rfl)))
  | flush now =>
    have hn : ∀ op, op ≠ Op.take → ¬ evOps s (.flush now) j op := fun op hop hA => hop hA
    rcases rtt_run hrun (hn _ (by decide)) (hn _ (by decide)) with h | ⟨hr, -⟩
    · exact .inl h
    · exact absurd hr (hn _ (by decide))
  | hk now =>
    have hn : ∀ op, op = Op.kaEcho ∨ op = .srtAck → ¬ evOps s (.hk now) j op := by
      intro op hop hA
      rcases (hA : hkOpsAt s now j op) with hA' | ⟨hm, -⟩
      · unfold hkOps at hA'
        rcases hop with rfl | rfl <;> rcases hA' with h | h | h | h | h | ⟨h, -⟩ <;> cases h
      · rcases hop with rfl | rfl <;> cases hm
    rcases rtt_run hrun (hn _ (.inl rfl)) (hn _ (.inr rfl)) with h | ⟨-, h⟩
    · exact .inl h
    · exact .inr (.inl ⟨⟨now, rfl⟩, h⟩)
  | setCfg cfg => rw [hrun.eq_of_none (fun _ h => h)]; exact .inl (.refl _)
  | crit d => rw [hrun.eq_of_none (fun _ h => h)]; exact .inl (.refl _)
  | failNext cid => rw [hrun.eq_of_none (fun _ h => h)]; exact .inl (.refl _)
  | failAfter cid kfa => rw [hrun.eq_of_none (fun _ h => h)]; exact .inl (.refl _)
  | failBind cid => rw [hrun.eq_of_none (fun _ h => h)]; exact .inl (.refl _)
  | stamp idx weak ld ccb cct =>
    -- the only operation of a verdict stamp is the neutral `stamp`
    have hn : ∀ op, op ≠ Op.stamp → ¬ evOps s (.stamp idx weak ld ccb cct) j op := fun op hop hA => hop hA.1
    rcases rtt_run hrun (hn _ (by decide)) (hn _ (by decide)) with h | ⟨hr, -⟩
    · exact .inl h
    · exact absurd hr (hn _ (by decide))
  | syncTimeout =>
    have hn : ∀ op, op ≠ Op.syncTimeout → ¬ evOps s .syncTimeout j op := fun op hop hA => hop hA
    rcases rtt_run hrun (hn _ (by decide)) (hn _ (by decide)) with h | ⟨hr, -⟩
    · exact .inl h
    · exact absurd hr (hn _ (by decide))

/-- **Along any run** (`C14_sample_only_from_echo_sys`).  READ THIS FIRST: the name follows the property TITLE
("RTT comes only from echoes"), but the code has TWO sampling sites and this theorem says so.  The property
STATEMENT restricts KEEPALIVE samples only ("a keepalive round-trip sample is taken only from an echo received
while a probe is outstanding, only if 0 < RTT ≤ 10 s"); that clause is the third disjunct.  The SECOND sampling
site — the cumulative SRT ACK (`handle_srt_ack`, type 0x8002: the send-to-ACK time of a packet logged on this
link, same `0 < rtt ≤ 10000` filter, NO outstanding probe required, runs on every link the ACK covers) — feeds the
same filter and is the fourth disjunct.  So "RTT comes only from echoes" is FALSE of the code as a literal
sentence; what holds is "only from keepalive echoes and cumulative SRT ACKs, each with the 10 s filter".

For every run `pre ++ [e]` of the shell from ANY state, the last event changes the FILTER state of link `j`'s RTT
tracker only

* by a keepalive echo: an `uplink` event on that link's conn id, type 0x9000, received while a probe was
  outstanding, with `0 < now − ts ≤ 10000` — the one sample `now − ts`;
* by the cumulative-SRT-ACK sampling path (type 0x8002, a logged packet of this link, `0 < now − sent ≤ 10000`);
* by the reset of a housekeeping reconnect.

In every other case (first disjunct) FIVE filter fields after the event equal those before it: the Kalman state
(`x`, `v`, the four covariance entries, `initialized`), `last_rtt_measurement_ms`, the minimum `rtt_min`, the
estimate `estimated`, and the smoothed value `get_smooth_rtt_ms`.  The comparison is of these five fields, not of
the whole tracker: jitter, the fast / slow windows, `masd`, `avg_delta` are also untouched (`SameFilter` in
`C14_rtt_changes_only_by_sys` says so) but are not restated here, and the probe bookkeeping (`waiting`,
`last_keepalive_sent_ms`) may move.
`hnr` (on the last event `e` only; `pre` may contain reloads): over events / runs that keep the link set (no
`Ev.reload`); a reload keeps the whole record of every retained link (`Props/SysReload.lean: reload_frame`) and the theorem
applies again from the state after it. -/
theorem C14_sample_only_from_echo_sys (s : Sys F) (pre : List Ev) (e : Ev) (hnr : e.isReload = false)
    (j : Nat) (l l' : FLink F)
    (hl : (Sys.run s pre).1.links[j]? = some l) (hl' : (Sys.run s (pre ++ [e])).1.links[j]? = some l') :
    (l'.rtt.kalman = l.rtt.kalman ∧ l'.rtt.lastRttMeasMs = l.rtt.lastRttMeasMs ∧ l'.rtt.rttMin = l.rtt.rttMin ∧
      l'.rtt.estimated = l.rtt.estimated ∧ l'.rtt.smooth = l.rtt.smooth) ∨
    ((∃ now, e = .hk now) ∧ SameFilter RttTracker.new l'.rtt) ∨
    (∃ now cid data, e = .uplink now cid data ∧ Codec.getPacketTypeS data = some 0x9000 ∧
      (Sys.run s pre).1.links.findIdx? (·.core.connId == cid) = some j ∧ l.rtt.waiting = true ∧
      ∃ ts, Codec.extractKeepaliveTimestamp data = .ok (some ts) ∧ 0 < now - ts ∧ now - ts ≤ 10000 ∧
        l'.rtt = { (l.rtt.updateEstimate (now - ts) now) with waiting := false }) ∨
    (∃ now cid data, e = .uplink now cid data ∧ Codec.getPacketTypeS data = some 0x8002 ∧
      ∃ a sent, Codec.parseSrtAck data = .ok (some a) ∧ l.core.highestAcked < toI32 a ∧
        logFind l.core.log (toI32 a) = some sent ∧ 0 < now - sent ∧ now - sent ≤ 10000 ∧
        l'.rtt = l.rtt.updateEstimate (now - sent) now) := by
  have hs : (Sys.run s (pre ++ [e])).1 = (step (Sys.run s pre).1 e).1 := by rw [run_append]; rfl
  rw [hs] at hl'
  rcases C14_rtt_changes_only_by_sys _ e hnr j l l' hl hl' with h | h | h | h
  · exact .inl h.fields
  · exact .inr (.inl h)
  · exact .inr (.inr (.inl h))
  · exact .inr (.inr (.inr h))

end shell

section shellField
variable {F : Type} [Field F] [LinearOrder F] [IsStrictOrderedRing F] [FloorRing F] (e : F → F)

local notation "𝕊" => fieldScalar F e

/-- **The smoothed RTT is `≥ 0` in every reached state** — TRUE BY DEFINITION: `get_smooth_rtt_ms` is
`max(kalman.x, 0)` (`RttTracker.smooth`), so the inequality holds of EVERY tracker whatsoever
(`C14_smooth_nonneg`); the run, the start state and the events play no role in the proof (see the proof term: the
membership hypothesis is not used).  It is kept under its name as the run-shaped reading of the property clause
"never makes the smoothed RTT negative"; the statement that DOES depend on the run is `C14_kalman_psd_run` below
(the filter the clamp is applied to stays well-conditioned).  Exact arithmetic over an ordered field, any `exp`;
the finiteness clause is about IEEE floats and stays as in `C14_smooth_float_nan` + monitor `smooth-rtt-invalid`. -/
theorem C14_smooth_nonneg_run (s : Sys F) (evs : List Ev) :
    ∀ l ∈ (@Sys.run F 𝕊 s evs).1.links, 0 ≤ @RttTracker.smooth F 𝕊 l.rtt :=
  fun l _ => C14_smooth_nonneg e l.rtt

/-- One event keeps every link's Kalman covariance PSD: by `C14_rtt_changes_only_by_sys` the filter is untouched,
reset to the fresh filter, or fed ONE sample through `update_estimate` — and each of the three preserves PSD. -/
theorem C14_kalman_psd_step (s : Sys F) (ev : Ev) (h : ∀ l ∈ s.links, PSD l.rtt.kalman) :
    ∀ l' ∈ (@step F 𝕊 s ev).1.links, PSD l'.rtt.kalman := by
  intro l' hl'
  cases hnr : ev.isReload with
  | true =>
    cases ev with
    | reload rnow raddrs routs =>
      rcases @mem_reload F 𝕊 s rnow raddrs routs l' hl' with ⟨h1, -⟩ | ⟨id, a, -, -, rfl⟩
      · exact h l' h1
      · exact KalmanField.psd_tracker_new e
    | _ => cases hnr
  | false =>
  obtain ⟨j, hj, hget⟩ := List.getElem_of_mem hl'
  have hlen := (@Hk.step_link F 𝕊 s ev hnr).2.1
  have hj' : j < s.links.length := by omega
  have hl : s.links[j]? = some s.links[j] := List.getElem?_eq_getElem hj'
  have hl'' : (@step F 𝕊 s ev).1.links[j]? = some l' := by rw [List.getElem?_eq_getElem hj, hget]
  have hp := h _ (List.getElem_mem hj')
  rcases @C14_rtt_changes_only_by_sys F 𝕊 s ev hnr j _ l' hl hl'' with hs | ⟨-, hs⟩ | hs | hs
  · rw [(@SysDir.SameFilter.fields F 𝕊 _ _ hs).1]; exact hp
  · rw [(@SysDir.SameFilter.fields F 𝕊 _ _ hs).1]; exact KalmanField.psd_tracker_new e
  · obtain ⟨now, cid, data, -, -, -, -, ts, -, -, -, hr⟩ := hs
    rw [hr]
    exact KalmanField.psd_updateEstimate e _ _ _ hp
  · obtain ⟨now, cid, data, -, -, a, sent, -, -, -, -, -, hr⟩ := hs
    rw [hr]
    exact KalmanField.psd_updateEstimate e _ _ _ hp

/-- **The Kalman filter stays well-conditioned along every run** (exact arithmetic over an ordered field; this
statement DOES depend on the run).  From any state whose links carry a PSD covariance — in particular fresh links
(`SrtlaConnection::new_registering`, second theorem) — after ANY finite list of shell events (echoes timely, late,
duplicated, truncated, with zero / future timestamps; SRT ACKs; resets; ticks; fault injections; verdict stamps),
for every link:
1. the covariance `[[p0, p1], [p2, p3]]` is symmetric positive semi-definite — the hypothesis `PSD` of
   `C14_Kalman_update_formula`;
2. the innovation covariance `s = p0 + p2 + p1 + p3 + 1/2 + 2` the NEXT `update` divides by exceeds `r = 2`;
3. so the degenerate-innovation guard `|s| < 1e-12` is false: the next update takes the correcting branch and
   both of its divisions are by a number `> 2`.
Which events feed the filter at all is `C14_rtt_changes_only_by_sys` (samples are in `(0, 10000]`); what a fed
sample does to the estimate is `C14_sample_convex_sys`.  NOT covered: IEEE-754 rounding, overflow, NaN. -/
theorem C14_kalman_psd_run (s : Sys F) (evs : List Ev) (h : ∀ l ∈ s.links, PSD l.rtt.kalman) :
    ∀ l ∈ (@Sys.run F 𝕊 s evs).1.links,
      PSD l.rtt.kalman ∧
      2 < l.rtt.kalman.p0 + l.rtt.kalman.p2 + l.rtt.kalman.p1 + l.rtt.kalman.p3 + 1 / 2 + 2 ∧
      @Rtt.tiny F 𝕊 (@Scalar.add F 𝕊 (@Scalar.add F 𝕊 (@Scalar.add F 𝕊 (@Scalar.add F 𝕊
        (@Scalar.add F 𝕊 l.rtt.kalman.p0 l.rtt.kalman.p2) l.rtt.kalman.p1) l.rtt.kalman.p3) (@Rtt.qValue F 𝕊))
        (@Rtt.rNoise F 𝕊)) = false := by
  have hrun : ∀ l ∈ (@Sys.run F 𝕊 s evs).1.links, PSD l.rtt.kalman := by
    induction evs generalizing s with
    | nil => exact h
    | cons ev evs ih => exact ih _ (C14_kalman_psd_step e s ev h)
  intro l hl
  have hp := hrun l hl
  exact ⟨hp, KalmanField.innov_gt e _ hp⟩

/-- The base case: every freshly constructed link has a PSD (all-zero) covariance — so the run statement holds
from the driver's / harness's initial state, and from any state reached from it. -/
theorem C14_kalman_psd_fresh (s : Sys F) (h : ∀ l ∈ s.links, ∃ id t, l = @FLink.newRegistering F 𝕊 id t) :
    ∀ l ∈ s.links, PSD l.rtt.kalman := by
  intro l hl
  obtain ⟨id, t, rfl⟩ := h l hl
  exact KalmanField.psd_tracker_new e

/-- **A correcting update is a convex combination of the prediction and the measurement.**  With a PSD covariance
and an initialised filter, the gain `g = (s − 2) / s` (`s` the innovation covariance, `> 2`) is strictly between 0
and 1 and the new value is `(1 − g)·(x + v) + g·m`: it lies between the PREDICTION `x + v` and the measurement `m`.
It is NOT bounded by the measurements alone: the prediction carries the velocity state, and the estimate can
overshoot every sample fed so far (`C14_estimate_overshoots_samples`) — and undershoot below zero on a falling
RTT, which is why `get_smooth_rtt_ms` clamps (`C14_smooth_nonneg`). -/
theorem C14_Kalman_update_convex (k : Kalman F) (m : F) (h : PSD k) (hi : k.initialized = true) :
    0 < (k.p0 + k.p2 + k.p1 + k.p3 + 1 / 2) / KalmanField.innov k ∧
    (k.p0 + k.p2 + k.p1 + k.p3 + 1 / 2) / KalmanField.innov k < 1 ∧
    (@Kalman.update F 𝕊 k m).x =
      (1 - (k.p0 + k.p2 + k.p1 + k.p3 + 1 / 2) / KalmanField.innov k) * (k.x + k.v) +
        (k.p0 + k.p2 + k.p1 + k.p3 + 1 / 2) / KalmanField.innov k * m ∧
    min (k.x + k.v) m ≤ (@Kalman.update F 𝕊 k m).x ∧ (@Kalman.update F 𝕊 k m).x ≤ max (k.x + k.v) m := by
  have hgt := (KalmanField.innov_gt e k h).1
  have hinn : KalmanField.innov k = (k.p0 + k.p2 + k.p1 + k.p3 + 1 / 2) + 2 := rfl
  generalize hA : k.p0 + k.p2 + k.p1 + k.p3 + 1 / 2 = A at hinn ⊢
  have hApos : 0 < A := by linarith
  have hspos : 0 < KalmanField.innov k := by linarith
  have hg0 : 0 < A / KalmanField.innov k := div_pos hApos hspos
  have hg1 : A / KalmanField.innov k < 1 := by rw [div_lt_one hspos]; linarith
  have hx : (@Kalman.update F 𝕊 k m).x = (1 - A / KalmanField.innov k) * (k.x + k.v) + A / KalmanField.innov k * m := by
    rw [KalmanField.update_eq_of_psd e k m h hi]
    simp only [hA]
    ring
  refine ⟨hg0, hg1, hx, ?_, ?_⟩
  · rw [hx]
    generalize A / KalmanField.innov k = g at hg0 hg1
    rcases le_total (k.x + k.v) m with hle | hle
    · rw [min_eq_left hle]; nlinarith
    · rw [min_eq_right hle]; nlinarith
  · rw [hx]
    generalize A / KalmanField.innov k = g at hg0 hg1
    rcases le_total (k.x + k.v) m with hle | hle
    · rw [max_eq_right hle]; nlinarith
    · rw [max_eq_left hle]; nlinarith

/-- **What a fed sample does to the estimate, along any run.**  Run `pre ++ [ev]` from a state with PSD covariances
(e.g. fresh links); the last event feeds link `j`'s filter — by `C14_rtt_changes_only_by_sys` exactly when its
tracker afterwards is `update_estimate(rtt, now)` of the tracker before (up to the probe flag), which happens only
for a keepalive echo or a cumulative SRT ACK with `0 < rtt ≤ 10000`.  Then the Kalman state afterwards is
`Kalman.update` of the state before with the measurement `rtt`, and
* first sample ever (filter not initialised): the estimate IS the sample;
* later samples: the estimate lies between the prediction `x + v` and the sample (`C14_Kalman_update_convex`; the
  division is by `s > 2`), hence the smoothed value is in `[0, max (x + v) rtt]`. -/
theorem C14_sample_convex_sys (s : Sys F) (pre : List Ev) (j : Nat) (l : FLink F) (rtt now : Nat) (w : Bool)
    (h : ∀ l ∈ s.links, PSD l.rtt.kalman) (hl : (@Sys.run F 𝕊 s pre).1.links[j]? = some l) :
    let t' : RttTracker F := { (@RttTracker.updateEstimate F 𝕊 l.rtt rtt now) with waiting := w }
    t'.kalman = @Kalman.update F 𝕊 l.rtt.kalman (rtt : F) ∧
    (l.rtt.kalman.initialized = false → t'.kalman.x = (rtt : F) ∧ @RttTracker.smooth F 𝕊 t' = max (rtt : F) 0) ∧
    (l.rtt.kalman.initialized = true →
      min (l.rtt.kalman.x + l.rtt.kalman.v) (rtt : F) ≤ t'.kalman.x ∧
      t'.kalman.x ≤ max (l.rtt.kalman.x + l.rtt.kalman.v) (rtt : F) ∧
      0 ≤ @RttTracker.smooth F 𝕊 t' ∧
      @RttTracker.smooth F 𝕊 t' ≤ max (max (l.rtt.kalman.x + l.rtt.kalman.v) (rtt : F)) 0) := by
  have hp : PSD l.rtt.kalman := (C14_kalman_psd_run e s pre h l (List.mem_of_getElem? hl)).1
  have hk : (@RttTracker.updateEstimate F 𝕊 l.rtt rtt now).kalman = @Kalman.update F 𝕊 l.rtt.kalman (rtt : F) := by
    unfold RttTracker.updateEstimate
    dsimp only
    split <;> rfl
  have hsm : ∀ t : RttTracker F, @RttTracker.smooth F 𝕊 t = max t.kalman.x 0 := by
    intro t
    unfold RttTracker.smooth
    rw [KalmanField.zero_eq]
    rfl
  dsimp only
  refine ⟨hk, fun hi => ?_, fun hi => ?_⟩
  · have hx : (@Kalman.update F 𝕊 l.rtt.kalman (rtt : F)).x = (rtt : F) := by
      unfold Kalman.update
      have hfin : (@Scalar.isFinite F 𝕊 (rtt : F)) = true := rfl
      simp only [hfin, hi, Bool.not_true, Bool.not_false, Bool.false_eq_true, if_false, if_true]
    refine ⟨by rw [hk, hx], ?_⟩
    rw [hsm]
    show max (@RttTracker.updateEstimate F 𝕊 l.rtt rtt now).kalman.x 0 = _
    rw [hk, hx]
  · obtain ⟨-, -, -, c1, c2⟩ := C14_Kalman_update_convex e l.rtt.kalman (rtt : F) hp hi
    refine ⟨by rw [hk]; exact c1, by rw [hk]; exact c2, C14_smooth_nonneg e _, ?_⟩
    rw [hsm]
    show max (@RttTracker.updateEstimate F 𝕊 l.rtt rtt now).kalman.x 0 ≤ _
    rw [hk]
    exact max_le_max c2 (le_refl _)

end shellField

/-- Non-vacuity of `C14_rtt_changes_only_by_sys` on `exSys` with a probe outstanding: the echo at 5000 is case 3
(the filter is fed: measurement stamp 0 → 5000); a client datagram, a flush and a housekeeping tick at 5000 are
case 1 (stamp unchanged; the tick only re-arms / keeps the probe); housekeeping at 20000 (link timed out, due)
is case 2 (tracker reset). -/
example :
    let s : Sys Int := { exSys with links := [exLinkW] }
    ((@step Int Select.fixScalar s (.uplink 5000 7 exEcho)).1.links.map fun l => (l.rtt.lastRttMeasMs, l.rtt.waiting)) = [(5000, false)] ∧
    ((@step Int Select.fixScalar s (.client 5000 [0, 0, 0, 9, 0, 0, 0, 0])).1.links.map fun l => (l.rtt.lastRttMeasMs, l.rtt.waiting)) = [(0, true)] ∧
    ((@step Int Select.fixScalar s (.flush 5000)).1.links.map fun l => (l.rtt.lastRttMeasMs, l.rtt.waiting)) = [(0, true)] ∧
    ((@step Int Select.fixScalar s (.hk 5000)).1.links.map fun l => (l.rtt.lastRttMeasMs, l.rtt.waiting)) = [(0, true)] ∧
    ((@step Int Select.fixScalar (@step Int Select.fixScalar s (.uplink 5000 7 exEcho)).1 (.hk 20000)).1.links.map
      fun l => (l.rtt.lastRttMeasMs, l.rtt.waiting, l.core.connected)) = [(0, false, false)] := by
  decide +kernel

example (pre : List Ev) (e : Ev) (hnr : e.isReload = false) (j : Nat) (l l' : FLink Int)
    (hl : (@Sys.run Int Select.fixScalar exSys pre).1.links[j]? = some l)
    (hl' : (@Sys.run Int Select.fixScalar exSys (pre ++ [e])).1.links[j]? = some l') :=
  @C14_sample_only_from_echo_sys Int Select.fixScalar exSys pre e hnr j l l' hl hl'

/-- A non-empty state over `ℚ`: two fresh links (conn ids 1, 2). -/
noncomputable def exSysQ : Sys ℚ :=
  { links := [@FLink.newRegistering ℚ (fieldScalar ℚ (fun x : ℚ => 1 / (1 - x))) 1 0,
              @FLink.newRegistering ℚ (fieldScalar ℚ (fun x : ℚ => 1 / (1 - x))) 2 0],
    reg := Reg.Reg.new [] [] }

theorem exSysQ_fresh : ∀ l ∈ exSysQ.links, ∃ id t,
    l = @FLink.newRegistering ℚ (fieldScalar ℚ (fun x : ℚ => 1 / (1 - x))) id t := by
  intro l hl
  simp only [exSysQ, List.mem_cons, List.not_mem_nil, or_false] at hl
  rcases hl with rfl | rfl
  · exact ⟨1, 0, rfl⟩
  · exact ⟨2, 0, rfl⟩

example (evs : List Ev) := C14_smooth_nonneg_run (fun x : ℚ => 1 / (1 - x)) exSysQ evs

/-- `C14_kalman_psd_run` from the two fresh links, any run. -/
example (evs : List Ev) :=
  C14_kalman_psd_run (fun x : ℚ => 1 / (1 - x)) exSysQ evs
    (C14_kalman_psd_fresh (fun x : ℚ => 1 / (1 - x)) exSysQ exSysQ_fresh)

example (pre : List Ev) (j : Nat) (l : FLink ℚ) (rtt now : Nat) (w : Bool)
    (hl : (@Sys.run ℚ (fieldScalar ℚ (fun x : ℚ => 1 / (1 - x))) exSysQ pre).1.links[j]? = some l) :=
  C14_sample_convex_sys (fun x : ℚ => 1 / (1 - x)) exSysQ pre j l rtt now w
    (C14_kalman_psd_fresh (fun x : ℚ => 1 / (1 - x)) exSysQ exSysQ_fresh) hl

example (ev : Ev) :=
  C14_kalman_psd_step (fun x : ℚ => 1 / (1 - x)) exSysQ ev
    (C14_kalman_psd_fresh (fun x : ℚ => 1 / (1 - x)) exSysQ exSysQ_fresh)

/-- `C14_Kalman_update_convex` on an explicit initialised PSD state (the filter after the samples 1, 100):
covariance `[[18/13, 8/13], [8/13, 193/130]]`, prediction `x + v = 100`. -/
example (m : ℚ) :=
  C14_Kalman_update_convex (fun x : ℚ => 1 / (1 - x))
    { x := 904 / 13, v := 396 / 13, p0 := 18 / 13, p1 := 8 / 13, p2 := 8 / 13, p3 := 193 / 130, initialized := true } m
    (by unfold PSD; norm_num) rfl

/-- **The estimate is NOT bounded by the samples** (witness, exact arithmetic over `ℚ`): feed the fresh filter the
samples 1, 100, 100, 100 ms.  After the fourth, the Kalman value is `5742020 / 52193 ≈ 110.01` — above EVERY
sample ever fed (velocity overshoot: the second sample left `v = 396/13 ≈ 30.5 ms / sample`).  So no statement of
the form "the smoothed RTT stays below the largest sample" holds; the bound that does hold is
`C14_Kalman_update_convex` (between the prediction `x + v` and the sample). -/
theorem C14_estimate_overshoots_samples :
    let 𝕢 := fieldScalar ℚ (fun x : ℚ => 1 / (1 - x))
    (([1, 100, 100, 100] : List ℚ).foldl (@Kalman.update ℚ 𝕢) (@Kalman.new ℚ 𝕢)).x = 5742020 / 52193 ∧
    (100 : ℚ) < 5742020 / 52193 := by
  intro 𝕢
  refine ⟨?_, by norm_num⟩
  have k1 : @Kalman.update ℚ 𝕢 (@Kalman.new ℚ 𝕢) 1 =
      { x := 1, v := 0, p0 := 2, p1 := 0, p2 := 0, p3 := 2, initialized := true } := by
    unfold Kalman.update Kalman.new
    have hfin : (@Scalar.isFinite ℚ 𝕢 1) = true := rfl
    simp only [hfin, Bool.not_true, Bool.not_false, Bool.false_eq_true, if_false, if_true,
      KalmanField.zero_eq, KalmanField.rNoise_eq]
  have step : ∀ (k k' : Kalman ℚ) (m : ℚ), KalmanField.PSD k → k.initialized = true →
      ({ x := k.x + k.v + (k.p0 + k.p2 + k.p1 + k.p3 + 1 / 2) / KalmanField.innov k * (m - (k.x + k.v)),
         v := k.v + (k.p2 + k.p3) / KalmanField.innov k * (m - (k.x + k.v)),
         p0 := (1 - (k.p0 + k.p2 + k.p1 + k.p3 + 1 / 2) / KalmanField.innov k) * (k.p0 + k.p2 + k.p1 + k.p3 + 1 / 2),
         p1 := (1 - (k.p0 + k.p2 + k.p1 + k.p3 + 1 / 2) / KalmanField.innov k) * (k.p1 + k.p3),
         p2 := k.p2 + k.p3 - (k.p2 + k.p3) / KalmanField.innov k * (k.p0 + k.p2 + k.p1 + k.p3 + 1 / 2),
         p3 := k.p3 + 1 / 10 - (k.p2 + k.p3) / KalmanField.innov k * (k.p1 + k.p3),
         initialized := true } : Kalman ℚ) = k' → @Kalman.update ℚ 𝕢 k m = k' := by
    intro k k' m hp hi hk
    rw [KalmanField.update_eq_of_psd _ k m hp hi]
    exact hk
  have k2 : @Kalman.update ℚ 𝕢 { x := 1, v := 0, p0 := 2, p1 := 0, p2 := 0, p3 := 2, initialized := true } 100 =
      { x := 904 / 13, v := 396 / 13, p0 := 18 / 13, p1 := 8 / 13, p2 := 8 / 13, p3 := 193 / 130, initialized := true } := by
    apply step _ _ _ (by unfold KalmanField.PSD; norm_num) rfl
    simp only [KalmanField.innov]
    norm_num
  have k3 : @Kalman.update ℚ 𝕢
        { x := 904 / 13, v := 396 / 13, p0 := 18 / 13, p1 := 8 / 13, p2 := 8 / 13, p3 := 193 / 130, initialized := true } 100 =
      { x := 100, v := 396 / 13, p0 := 46 / 33, p1 := 7 / 11, p2 := 7 / 11, p3 := 2621 / 2860, initialized := true } := by
    apply step _ _ _ (by unfold KalmanField.PSD; norm_num) rfl
    simp only [KalmanField.innov]
    norm_num
  have k4 : (@Kalman.update ℚ 𝕢
        { x := 100, v := 396 / 13, p0 := 46 / 33, p1 := 7 / 11, p2 := 7 / 11, p3 := 2621 / 2860, initialized := true }
        100).x = 5742020 / 52193 := by
    rw [KalmanField.update_eq_of_psd _ _ _ (by unfold KalmanField.PSD; norm_num) rfl]
    simp only [KalmanField.innov]
    norm_num
  simp only [List.foldl_cons, List.foldl_nil]
  rw [k1, k2, k3, k4]

end Srtla.Props.C14
