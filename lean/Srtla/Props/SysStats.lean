import Srtla.Model.Stats
import Srtla.Props.SysArm
/-!
# What the sender REPORTS about itself is honest: `SharedStats::update` composed with the housekeeping arm

`Model/Stats.lean`: `snapshot` = `SharedStats::update` field by field, `armSnapshot` = the snapshot the housekeeping arm
publishes (`hkArm`, then `update` over the stamped connections with the classification and the controller map of THIS
tick), `published` = the snapshots along a run of the whole sender.  Compared with the real `SharedStats::update` /
`get()` on every `hkarm` op of component `sys` (the `serde_json::Value` of the real `StatsSnapshot`, every field).

The snapshot is what `get_stats` returns, what the `stats` topic carries (C20), and what OUR end-to-end monitors read
as ground truth about links; none of it was in a model before.

* §1 **shape**: one entry per link, in link order, `total_links` = the number of links (`Stats_one_entry_per_link`);
* §2 **own fields** (`Stats_link_own_fields`): the entry built from a link reports THAT link's `connected`, `window`,
  `in_flight`, `nak_count`, address, regime, latch, counters, and `timed_out` judged against the link's own copy of the
  timeout; **verdict fields** are looked up BY THE LINK'S CONN ID (`Stats_link_verdicts_by_id`), never by position;
* §3 **the configuration block** is the configuration handed in (`Stats_config_block`); a `setCfg` is visible in
  EVERY snapshot published afterwards, whatever happens in between, until the next `setCfg`
  (`Stats_setCfg_visible_run`: C18's "a successful set_* is visible in the next status" at shell level, for the two
  knobs a stats snapshot carries), and from the next tick on `timed_out` is judged against the NEW timeout;
* §4 **the arm's snapshot is honest** (`Stats_arm_honest`): for every link at the tick, the entry at ITS index reports
  the link's own fields after the arm, `timed_out` w.r.t. the CONFIGURED timeout (`sync_conn_timeout` ran first),
  `weak` = the flag the arm stamped = the classifier's verdict for ITS conn id (with reason / share / threshold, never
  `"unknown"`), the CC fields = the snapshot of ITS controller entry = what the arm stamped (never `"unknown"`);
  aggregates (`Stats_aggregates`);
* §5 **across a reload the entries follow the links by conn id** (`Stats_entry_by_id`, `Stats_reload_follows_ids`);
  every snapshot published along ANY run is the arm's snapshot of a reachable state (`Stats_published_is_armSnapshot`).

Limits, stated honestly.  §1–§3 hold by unfolding the model: their force is the correspondence run (the model IS what
the real `update` computes, bit for bit, on every generated tick).  The `RwLock`, `to_json` and the Prometheus
rendering are not modelled.  One clock value and one configuration per arm (see `Model/Stats.lean`).
-/
namespace Srtla.Props.SysStats
open Srtla Srtla.Link Srtla.Sys Srtla.Arm Srtla.Stats Srtla.Props.SysReload Srtla.Props.SysArm

variable {F G : Type} [Scalar F] [LinkCc.Scalar G]

local instance : Scalar Int := Select.fixScalar
local instance : LinkCc.Scalar Rat := LinkCc.witScalar

/-! ## 1. Shape -/

/-- **One entry per link, same order.**  Whatever the arguments: the snapshot has exactly one entry per connection,
entry `i` is built from connection `i` (and from nothing else of the vector), `total_links` is the number of
connections. -/
theorem Stats_one_entry_per_link (ls : List (FLink F)) (cfg : Select.Cfg) (cls : Option Classifier.Result)
    (cc : Option (LinkCc.Ctl G)) (now : Nat) :
    (snapshot ls cfg cls cc now).links.length = ls.length ∧
    (snapshot ls cfg cls cc now).totalLinks = ls.length ∧
    ∀ i : Nat, (snapshot ls cfg cls cc now).links[i]? = ls[i]?.map fun l => linkStats l cfg cls cc now := by
  refine ⟨by simp [snapshot], rfl, fun i => ?_⟩
  simp [snapshot, List.getElem?_map]

/-! ## 2. What one entry says -/

/-- `is_timed_out` spelled out against an EXPLICIT timeout `cto`: a link that is not connected is timed out unless it
never was established and its start-up grace still runs; a connected link is timed out once nothing has been received
for `cto` ms (never, if nothing was ever received). -/
def timedOutAgainst (l : FLink F) (cto now : Nat) : Bool :=
  if l.core.connected then
    match l.core.lastReceived with
    | some lr => decide (now - lr ≥ cto)
    | none => false
  else !(l.established == 0 && decide (now < l.graceDeadline))

theorem isTimedOut_eq (l : FLink F) (now : Nat) : l.isTimedOut now = timedOutAgainst l l.connTimeoutMs now := by
  unfold FLink.isTimedOut Select.isTimedOut timedOutAgainst
  show (if (!l.core.connected) = true then
      (if (l.established == 0 && decide (now < l.graceDeadline)) = true then false else true)
    else match l.core.lastReceived with
      | some lr => decide (now - lr ≥ l.connTimeoutMs)
      | none => false) = _
  cases l.core.connected
  · cases (l.established == 0 && decide (now < l.graceDeadline)) <;> rfl
  · rfl

/-- **The entry built from a link reports THAT link's own fields.**  `timed_out` is `is_timed_out` at the tick's
clock against the link's OWN copy of the timeout (`conn_timeout_ms`); `stall_gated` is the LATCH, not the routing
flag. -/
theorem Stats_link_own_fields (l : FLink F) (cfg : Select.Cfg) (cls : Option Classifier.Result)
    (cc : Option (LinkCc.Ctl G)) (now : Nat) :
    ∀ e, e = linkStats l cfg cls cc now →
    e.addr = l.addr ∧ e.connected = l.core.connected ∧ e.window = l.core.window ∧ e.inFlight = l.core.inFlight ∧
    e.nakCount = l.core.cong.nakCount ∧ e.timedOut = timedOutAgainst l l.connTimeoutMs now ∧
    e.batchRegime = l.regime ∧ e.stallGated = (l.latchedSince != 0) ∧ e.stallGateEvents = l.gateEvents ∧
    e.silencePulls = l.silencePulls ∧ e.rttMin = l.rtt.rttMin ∧ e.rttVelocity = l.rtt.kalman.v ∧
    e.baseScore = Select.score l.toSLink := by
  rintro e rfl
  exact ⟨rfl, rfl, rfl, rfl, rfl, isTimedOut_eq l now, rfl, rfl, rfl, rfl, rfl, rfl, rfl⟩

-- non-vacuity: a link modified away from the constructor (live, window 25000, one packet in flight, heard at 4000):
-- at 9000 it is timed out against a 5000 ms timeout and not against 6000 ms
example : (timedOutAgainst (exBusy 1 1 : FLink Int) 5000 9000, timedOutAgainst (exBusy 1 1 : FLink Int) 6000 9000,
    (exBusy 1 1 : FLink Int).core.window, (exBusy 1 1 : FLink Int).core.inFlight) = (true, false, 25000, 1) := by
  decide +kernel

/-- **The verdict fields are looked up by the link's conn id.**  `weak` / reason / share / threshold are those of the
FIRST entry of `classification.per_link` carrying the link's conn id (`false` / `"unknown"` / 0 / 0 if none);
the CC fields are the snapshot of the controller's entry for the link's conn id (`"unknown"` / 0 / `false` if none).
The link's position in the vector plays no role. -/
theorem Stats_link_verdicts_by_id (l : FLink F) (cfg : Select.Cfg) (res : Classifier.Result) (ctl : LinkCc.Ctl G)
    (now : Nat) :
    ∀ e we ce, e = linkStats l cfg (some res) (some ctl) now →
    we = res.perLink.find? (·.id == l.core.connId) → ce = (ctl.get l.core.connId).map LinkCc.snapshot →
    e.weak = (we.map (·.weak)).getD false ∧ e.weakReason = we.map (·.reason) ∧
    e.weakShare = (we.map (·.share)).getD 0 ∧ e.weakThreshold = (we.map (·.threshold)).getD 0 ∧
    e.ccState = ce.map (·.state) ∧ e.ccTarget = (ce.map (·.target)).getD 0 ∧
    e.ccLossDegraded = (ce.map (·.lossDegraded)).getD false ∧
    e.ccLossPermille = (ce.map (·.lossPermille)).getD 0 ∧
    e.ccClimbMode = (ce.map (·.climbMode)).getD .normal := by
  rintro e we ce rfl rfl rfl
  exact ⟨rfl, rfl, rfl, rfl, rfl, rfl, rfl, rfl, rfl⟩

/-- The verdict fields of an entry when the lookups by the link's conn id succeed. -/
theorem linkStats_found (l : FLink F) (cfg : Select.Cfg) (res : Classifier.Result) (ctl : LinkCc.Ctl G) (now : Nat)
    (vd : Classifier.LinkOut) (st : LinkCc.St G)
    (hw : res.perLink.find? (·.id == l.core.connId) = some vd) (hc : ctl.get l.core.connId = some st) :
    ∀ e, e = linkStats l cfg (some res) (some ctl) now →
    e.weak = vd.weak ∧ e.weakReason = some vd.reason ∧ e.weakShare = vd.share ∧ e.weakThreshold = vd.threshold ∧
    e.ccState = some st.state ∧ e.ccTarget = st.target ∧ e.ccLossDegraded = st.lossDegraded := by
  rintro e rfl
  obtain ⟨a1, a2, a3, a4, a5, a6, a7, -, -⟩ := Stats_link_verdicts_by_id l cfg res ctl now _ _ _ rfl rfl rfl
  rw [a1, a2, a3, a4, a5, a6, a7, hw, hc]
  exact ⟨rfl, rfl, rfl, rfl, rfl, rfl, rfl⟩

/-- The reported in-flight cap flag is computed from the REPORTED target: when that is the link's stamped target, it
is exactly the admission gate `in_flight_cap_exceeded` Enhanced selection applies to the link. -/
theorem linkStats_cap (l : FLink F) (cfg : Select.Cfg) (cls : Option Classifier.Result) (cc : Option (LinkCc.Ctl G))
    (now : Nat) : ∀ e, e = linkStats l cfg cls cc now → e.ccTarget = l.ccTarget →
    e.inFlightCapActive = Select.capExceeded l.toSLink := by
  rintro e rfl ht
  have h1 : (linkStats l cfg cls cc now).inFlightCapActive =
      ((Select.inFlightCap (linkStats l cfg cls cc now).ccTarget l.rtt.rttMin).map
        fun c => decide (l.core.inFlight > c)).getD false := rfl
  have h2 : Select.capExceeded l.toSLink =
      match Select.inFlightCap l.ccTarget l.rtt.rttMin with
      | some cap => decide (l.core.inFlight > cap)
      | none => false := rfl
  rw [h1, h2, ht]
  cases Select.inFlightCap l.ccTarget l.rtt.rttMin <;> rfl

/-- Without a classification / a controller map (`None` arguments) the verdict fields are the neutral defaults. -/
theorem Stats_link_no_inputs (l : FLink F) (cfg : Select.Cfg) (now : Nat) :
    ∀ e : LinkStatsM F G, e = linkStats l cfg none none now →
    e.weak = false ∧ e.weakReason = none ∧ e.ccState = none ∧ e.ccTarget = 0 ∧ e.ccLossDegraded = false ∧
    e.inFlightCapPackets = 0 ∧ e.inFlightCapActive = false := by
  rintro e rfl
  refine ⟨rfl, rfl, rfl, rfl, rfl, ?_, ?_⟩ <;> simp [linkStats, ccEntry, Select.inFlightCap]

/-! ## 3. The configuration block -/

/-- **The configuration block of a snapshot is the configuration handed in**: `mode` is its mode,
`quality_enabled` is `quality_enabled && !classic`; with quality scoring off every entry reports the multiplier
`1.0`. -/
theorem Stats_config_block (ls : List (FLink F)) (cfg : Select.Cfg) (cls : Option Classifier.Result)
    (cc : Option (LinkCc.Ctl G)) (now : Nat) :
    (snapshot ls cfg cls cc now).classic = cfg.classic ∧
    (snapshot ls cfg cls cc now).qualityEnabled = (cfg.quality && !cfg.classic) ∧
    ((cfg.quality && !cfg.classic) = false →
      ∀ e ∈ (snapshot ls cfg cls cc now).links, e.qualityMult = Scalar.lit 1.0 1 1) := by
  refine ⟨rfl, rfl, fun hq e he => ?_⟩
  simp only [snapshot, List.mem_map] at he
  obtain ⟨l, -, rfl⟩ := he
  simp [linkStats, qualityEnabled, hq]

/-- No event other than `setCfg` changes the configuration. -/
theorem step_cfg (s : Sys F) (e : Ev) (h : ∀ c, e ≠ .setCfg c) : (step s e).1.cfg = s.cfg := by
  cases e with
  | client now pkt => exact (Hk.client_pw s pkt now).2.2
  | uplink now cid data =>
    obtain ⟨-, -, -, -, hc⟩ := Hk.uplink_links s cid data now
    exact hc
  | flush now => exact (Hk.flush_pw false none s now).2.2
  | hk now => exact (Hk.hk_eq s now).2.2.2.1
  | setCfg c => exact absurd rfl (h c)
  | _ => rfl

/-- The arm does not change the configuration. -/
theorem hkArm_cfg (v : Views F G) (s : Full F G) (now : Nat) : (hkArm v s now).1.sys.cfg = s.sys.cfg := by
  show (afterHk s.sys now).1.cfg = _
  unfold afterHk
  rw [step_cfg _ _ (fun c h => by cases h)]
  rfl

/-- The snapshot the arm publishes carries the configuration of the state the arm started from. -/
theorem Stats_arm_config_current (v : Views F G) (s : Full F G) (now : Nat) :
    (armSnapshot v s now).classic = s.sys.cfg.classic ∧
    (armSnapshot v s now).qualityEnabled = (s.sys.cfg.quality && !s.sys.cfg.classic) := by
  unfold armSnapshot
  rw [hkArm_cfg]
  exact ⟨rfl, rfl⟩

/-- The event is not a configuration change. -/
def notSetCfg : FEv → Bool
  | .other (.setCfg _) => false
  | _ => true

theorem run_cfg (v : Views F G) (s : Full F G) (es : List FEv) (h : ∀ e ∈ es, notSetCfg e = true) :
    (Full.run v s es).1.sys.cfg = s.sys.cfg := by
  induction es generalizing s with
  | nil => rfl
  | cons e es ih =>
    have h1 : (Full.step v s e).1.sys.cfg = s.sys.cfg := by
      cases e with
      | tick now => exact hkArm_cfg v s now
      | other e =>
        refine step_cfg s.sys e fun c hc => ?_
        subst hc
        exact absurd (h _ List.mem_cons_self) (by simp [notSetCfg])
    show (Full.run v (Full.step v s e).1 es).1.sys.cfg = _
    rw [ih _ fun x hx => h x (List.mem_cons_of_mem _ hx), h1]

theorem published_append (v : Views F G) (s : Full F G) (a b : List FEv) :
    published v s (a ++ b) = published v s a ++ published v (Full.run v s a).1 b := by
  induction a generalizing s with
  | nil => rfl
  | cons e a ih =>
    cases e with
    | tick now =>
      show armSnapshot v s now :: published v _ (a ++ b) = armSnapshot v s now :: _ ++ _
      rw [ih]; rfl
    | other e => exact ih _

theorem published_cfg (v : Views F G) (s : Full F G) (es : List FEv) (h : ∀ e ∈ es, notSetCfg e = true) :
    ∀ p ∈ published v s es, p.classic = s.sys.cfg.classic ∧
      p.qualityEnabled = (s.sys.cfg.quality && !s.sys.cfg.classic) := by
  induction es generalizing s with
  | nil => intro p hp; cases hp
  | cons e es ih =>
    have hrest : ∀ x ∈ es, notSetCfg x = true := fun x hx => h x (List.mem_cons_of_mem _ hx)
    cases e with
    | tick now =>
      intro p hp
      rcases List.mem_cons.1 hp with rfl | hp
      · exact Stats_arm_config_current v s now
      · have := ih (hkArm v s now).1 hrest p hp
        rwa [hkArm_cfg] at this
    | other e =>
      intro p hp
      have := ih (Full.step v s (.other e)).1 hrest p hp
      have hc : (Full.step v s (.other e)).1.sys.cfg = s.sys.cfg :=
        step_cfg s.sys e fun c hc => by subst hc; exact absurd (h _ List.mem_cons_self) (by simp [notSetCfg])
      rwa [hc] at this

/-- **A configuration change is visible in every snapshot published afterwards** (C18's visibility clause at shell
level, for the block a stats snapshot carries).  After ANY run `pre` of the whole sender, a `setCfg c`, then ANY
events `post` that are not configuration changes (ticks, client / uplink / flush traffic, reloads, injections):
every snapshot published during `post` reports `mode = c.mode` and `quality_enabled = c.quality && !c.classic`,
and the configuration the next arm will judge `timed_out` against is `c` (`Stats_arm_honest`). -/
theorem Stats_setCfg_visible_run (v : Views F G) (s : Full F G) (pre post : List FEv) (c : Select.Cfg)
    (hpost : ∀ e ∈ post, notSetCfg e = true) :
    let s1 := (Full.run v s (pre ++ [.other (.setCfg c)])).1
    published v s (pre ++ [.other (.setCfg c)] ++ post) = published v s pre ++ published v s1 post ∧
    (∀ p ∈ published v s1 post, p.classic = c.classic ∧ p.qualityEnabled = (c.quality && !c.classic)) ∧
    (Full.run v s1 post).1.sys.cfg = c := by
  intro s1
  have hs1 : s1.sys.cfg = c := by
    show (Full.run v s (pre ++ [.other (.setCfg c)])).1.sys.cfg = c
    have : ∀ (t : Full F G) (a : List FEv) (e : FEv),
        (Full.run v t (a ++ [e])).1 = (Full.step v (Full.run v t a).1 e).1 := by
      intro t a e
      induction a generalizing t with
      | nil => rfl
      | cons x a ih => exact ih _
    rw [this]; rfl
  refine ⟨?_, ?_, ?_⟩
  · rw [published_append, published_append]
    show (published v s pre ++ published v _ [.other (.setCfg c)]) ++ _ = _
    rw [show published v (Full.run v s pre).1 [FEv.other (.setCfg c)] = [] from rfl, List.append_nil]
  · intro p hp
    have := published_cfg v s1 post hpost p hp
    rwa [hs1] at this
  · rw [run_cfg v s1 post hpost, hs1]

/-! ## 4. The arm's snapshot is honest -/

/-- After `sync_conn_timeout; handle_housekeeping(now)` every link's own copy of the timeout is the configured one. -/
theorem hkStep_timeout {hc : Bool} {now : Nat} {fb : List Nat} {l l' : FLink F} (h : Hk.HkStep hc now fb l l') :
    l'.connTimeoutMs = l.connTimeoutMs := by
  cases h with
  | evolves h =>
    rcases h.timeout with h | h
    · exact h
    · cases h
  | attempt _ _ hl =>
    obtain ⟨t, rfl⟩ := hl
    unfold Hk.withSent Hk.reconnectLink FLink.recordAttempt
    split <;> rfl
  | attemptFailed _ _ _ hl =>
    obtain ⟨t, rfl⟩ := hl
    unfold Hk.withSent Hk.failedLink FLink.recordAttempt
    split <;> rfl

theorem afterHk_timeout (s : Sys F) (now : Nat) :
    ∀ l ∈ (afterHk s now).1.links, l.connTimeoutMs = s.cfg.connTimeoutMs := by
  intro l' hl'
  obtain ⟨j, hj, hget⟩ := List.getElem_of_mem hl'
  have hget' : (afterHk s now).1.links[j]? = some l' := by rw [List.getElem?_eq_getElem hj, hget]
  unfold afterHk at hget' hj
  obtain ⟨hstep, hlen⟩ := Hk.hk_step (step s .syncTimeout).1 now
  have hj' : j < (step s .syncTimeout).1.links.length := by
    have : j < (Sys.handleHousekeeping (step s .syncTimeout).1 now).1.links.length := hj
    rwa [hlen] at this
  obtain ⟨l0, hl0⟩ : ∃ l0, (step s .syncTimeout).1.links[j]? = some l0 := ⟨_, List.getElem?_eq_getElem hj'⟩
  obtain ⟨l1, h1, hs⟩ := hstep j l0 hl0
  have : l1 = l' := by
    have h1' : (step (step s .syncTimeout).1 (.hk now)).1.links[j]? = some l1 := h1
    rw [h1'] at hget'; exact Option.some.inj hget'
  subst this
  rw [hkStep_timeout hs]
  have hmem : l0 ∈ (step s .syncTimeout).1.links := List.mem_of_getElem? hl0
  have hmem' : l0 ∈ s.links.map fun l => ({ l with connTimeoutMs := s.cfg.connTimeoutMs } : FLink F) := hmem
  obtain ⟨x, -, rfl⟩ := List.mem_map.1 hmem'
  rfl

omit [Scalar F] in
theorem stamped_core (l : FLink F) (st : Stamp) : (FLink.stamped l st).core = l.core := rfl
omit [Scalar F] in
theorem stamped_addr (l : FLink F) (st : Stamp) : (FLink.stamped l st).addr = l.addr := rfl
omit [Scalar F] in
theorem stamped_cto (l : FLink F) (st : Stamp) : (FLink.stamped l st).connTimeoutMs = l.connTimeoutMs := rfl

omit [LinkCc.Scalar G] in
/-- The classification the arm computed holds, under distinct conn ids and faithful views, exactly ONE entry per
link, found by its conn id: the verdict the filter computed from THIS link's readings. -/
theorem armResult_find (v : Views F G) (hv : Faithful v) (s : Full F G) (now : Nat) (l : FLink F)
    (hnd : (ids s.sys.links).Nodup) (hl : l ∈ (afterHk s.sys now).1.links) :
    (armResult v s now).perLink.find? (·.id == l.core.connId) =
      some (Classifier.verdictOf s.cls (clsTick v (afterHk s.sys now).1.links) (v.cls l)) := by
  have hnd' : ((afterHk s.sys now).1.links.map (·.core.connId)).Nodup := by
    have := afterHk_ids s.sys now
    unfold ids at this; rw [this]; exact hnd
  have hfind := find_map_nodup (afterHk s.sys now).1.links (·.core.connId)
    (fun l => Classifier.verdictOf s.cls (clsTick v (afterHk s.sys now).1.links) (v.cls l)) (·.id)
    (fun x => by rw [Classifier.verdictOf_id, hv.clsId]) hnd' l hl
  have hper : (armResult v s now).perLink =
      (afterHk s.sys now).1.links.map
        (fun l => Classifier.verdictOf s.cls (clsTick v (afterHk s.sys now).1.links) (v.cls l)) := by
    simp only [armResult, Classifier.classify, clsTick, List.map_map]; rfl
  rw [hper]; exact hfind

/-- The entry at index `i` of the arm's snapshot is built from the link at index `i` after the arm. -/
theorem armSnapshot_get (v : Views F G) (s : Full F G) (now i : Nat) :
    (armSnapshot v s now).links[i]? =
      ((hkArm v s now).1.sys.links[i]?).map fun l' =>
        linkStats l' (hkArm v s now).1.sys.cfg (some (armResult v s now)) (some (hkArm v s now).1.ctl) now :=
  (Stats_one_entry_per_link _ _ _ _ _).2.2 i

/-- **The snapshot the housekeeping arm publishes is HONEST.**  For the link `l` at index `i` at the tick (after
`sync_conn_timeout; handle_housekeeping`): the connection `l'` at index `i` after the arm is `l` with its stamps, the
snapshot has an entry `e` at index `i`, and

* `e` reports `l'`'s own address, `connected`, `window`, `in_flight`, `nak_count` (= those of `l`: the stamping loop
  writes only the four verdict fields);
* `e.timed_out` is `is_timed_out` against the CONFIGURED timeout `s.sys.cfg.connTimeoutMs`;
* `e.weak` is the flag the arm stamped on `l'`; with pairwise distinct conn ids it is the classifier's verdict for
  THIS link's readings, reported with ITS reason, share and threshold — never `"unknown"`;
* the controller has an entry `st` for the link's conn id and `e` reports ITS state (never `"unknown"`), target and
  loss latch — the very values the arm stamped on `l'` (`cc_backing_off` iff the reported state is `backing_off`);
* `e.in_flight_cap_active` is exactly the admission gate `in_flight_cap_exceeded` Enhanced selection applies to `l'`
  until the next tick, `e.base_score` is `l'.get_score()`. -/
theorem Stats_arm_honest (v : Views F G) (hv : Faithful v) (s : Full F G) (now i : Nat) (l : FLink F)
    (hl : (afterHk s.sys now).1.links[i]? = some l) :
    ∃ l' e st, (hkArm v s now).1.sys.links[i]? = some l' ∧ (armSnapshot v s now).links[i]? = some e ∧
      l'.core = l.core ∧ l'.addr = l.addr ∧
      e.addr = l'.addr ∧ e.connected = l'.core.connected ∧ e.window = l'.core.window ∧
      e.inFlight = l'.core.inFlight ∧ e.nakCount = l'.core.cong.nakCount ∧
      e.timedOut = timedOutAgainst l' s.sys.cfg.connTimeoutMs now ∧
      e.weak = l'.weak ∧
      ((ids s.sys.links).Nodup →
        let vd := Classifier.verdictOf s.cls (clsTick v (afterHk s.sys now).1.links) (v.cls l)
        e.weak = vd.weak ∧ e.weakReason = some vd.reason ∧ e.weakShare = vd.share ∧
        e.weakThreshold = vd.threshold) ∧
      (hkArm v s now).1.ctl.get l.core.connId = some st ∧
      e.ccState = some st.state ∧ e.ccTarget = st.target ∧ e.ccLossDegraded = st.lossDegraded ∧
      e.ccTarget = l'.ccTarget ∧ e.ccLossDegraded = l'.lossDegraded ∧
      l'.ccBackingOff = decide (e.ccState = some .backingOff) ∧
      e.inFlightCapActive = Select.capExceeded l'.toSLink ∧ e.baseScore = Select.score l'.toSLink := by
  obtain ⟨l', st, h1, h2, hst, ht, hb, hd⟩ := C16_arm_target_is_snapshot v hv s now i l hl
  have hl'eq : l' = FLink.stamped l (armStamp v s now l.core.connId) := by
    have := hkArm_get v s now i
    rw [hl, h1] at this
    exact Option.some.inj this
  have hmem : l ∈ (afterHk s.sys now).1.links := List.mem_of_getElem? hl
  have hcto : l'.connTimeoutMs = s.sys.cfg.connTimeoutMs := by
    rw [hl'eq, stamped_cto]; exact afterHk_timeout s.sys now l hmem
  have hid : l'.core.connId = l.core.connId := h2
  have hcore : l'.core = l.core := by rw [hl'eq, stamped_core]
  have haddr : l'.addr = l.addr := by rw [hl'eq, stamped_addr]
  have hst' : (hkArm v s now).1.ctl.get l'.core.connId = some st := by rw [hid]; exact hst
  -- the entry, with the heavy arguments kept opaque
  generalize hcfg : (hkArm v s now).1.sys.cfg = cfg' at *
  generalize hres : armResult v s now = res at *
  generalize hctl : (hkArm v s now).1.ctl = ctl' at *
  obtain ⟨e, he⟩ : ∃ e, e = linkStats l' cfg' (some res) (some ctl') now := ⟨_, rfl⟩
  have hget : (armSnapshot v s now).links[i]? = some e := by
    rw [armSnapshot_get, h1, hcfg, hres, hctl, he]; rfl
  obtain ⟨o1, o2, o3, o4, o5, o6, -⟩ := Stats_link_own_fields l' cfg' (some res) (some ctl') now e he
  obtain ⟨w1, -, -, -, c5, c6, c7, -, -⟩ :=
    Stats_link_verdicts_by_id l' cfg' res ctl' now e _ _ he rfl rfl
  have hweak : e.weak = l'.weak := by
    rw [w1, hid, hl'eq, stamped_weak, armStamp_weak]
    show _ = (((armResult v s now).perLink.find? (·.id == l.core.connId)).map (·.weak)).getD false
    rw [hres]
  have hcs : e.ccState = some st.state := by rw [c5, hst']; rfl
  have hct : e.ccTarget = st.target := by rw [c6, hst']; rfl
  have hcd : e.ccLossDegraded = st.lossDegraded := by rw [c7, hst']; rfl
  refine ⟨l', e, st, h1, hget, hcore, haddr, o1, o2, o3, o4, o5, by rw [o6, hcto], hweak, fun hnd => ?_, hst,
    hcs, hct, hcd, by rw [hct, ht], by rw [hcd, hd], ?_,
    linkStats_cap l' cfg' (some res) (some ctl') now e he (by rw [hct, ht]), by rw [he]; rfl⟩
  · have hf := armResult_find v hv s now l hnd hmem
    rw [hres, ← hid] at hf
    obtain ⟨f1, f2, f3, f4, -⟩ := linkStats_found l' cfg' res ctl' now _ st hf hst' e he
    exact ⟨f1, f2, f3, f4⟩
  · rw [hb, hcs]
    cases st.state <;> rfl

/-- **Aggregates**: `active_links` counts the links that are connected and not timed out (against the configured
timeout — `Stats_arm_honest`), `total_window` / `total_in_flight` sum over exactly those; never more active links
than links. -/
theorem Stats_aggregates (ls : List (FLink F)) (cfg : Select.Cfg) (cls : Option Classifier.Result)
    (cc : Option (LinkCc.Ctl G)) (now : Nat) :
    let p := snapshot ls cfg cls cc now
    let act := ls.filter fun l => l.core.connected && !timedOutAgainst l l.connTimeoutMs now
    p.activeLinks = act.length ∧ p.activeLinks ≤ p.totalLinks ∧
    p.totalWindow = (act.map (·.core.window)).foldl (· + ·) 0 ∧
    p.totalInFlight = (act.map (·.core.inFlight)).foldl (· + ·) 0 := by
  have hf : (ls.filter fun l => isActive l now) =
      ls.filter fun l => l.core.connected && !timedOutAgainst l l.connTimeoutMs now :=
    List.filter_congr fun l _ => by unfold isActive; rw [isTimedOut_eq]
  refine ⟨?_, ?_, ?_, ?_⟩
  · show (ls.filter fun l => isActive l now).length = _
    rw [hf]
  · exact List.length_filter_le _ _
  · show ((ls.filter fun l => isActive l now).map (·.core.window)).foldl (· + ·) 0 = _
    rw [hf]
  · show ((ls.filter fun l => isActive l now).map (·.core.inFlight)).foldl (· + ·) 0 = _
    rw [hf]

/-! ## 5. Entries follow the links by conn id, also across a reload -/

/-- **The entry of conn id `c`.**  With pairwise distinct conn ids there is, for every link `l'` after the arm,
exactly one index holding a link with its conn id, and the snapshot's entry at THAT index is built from `l'` — at
whatever position a reload left the link. -/
theorem Stats_entry_by_id (v : Views F G) (s : Full F G) (now : Nat) (hnd : (ids s.sys.links).Nodup)
    (l' : FLink F) (hl' : l' ∈ (hkArm v s now).1.sys.links) :
    ∃ i, (hkArm v s now).1.sys.links[i]? = some l' ∧
      (armSnapshot v s now).links[i]? =
        some (linkStats l' (hkArm v s now).1.sys.cfg (some (armResult v s now)) (some (hkArm v s now).1.ctl) now) ∧
      ∀ (j : Nat) (l'' : FLink F), (hkArm v s now).1.sys.links[j]? = some l'' →
        l''.core.connId = l'.core.connId → j = i := by
  obtain ⟨i, hi, hget⟩ := List.getElem_of_mem hl'
  have hget' : (hkArm v s now).1.sys.links[i]? = some l' := by rw [List.getElem?_eq_getElem hi, hget]
  refine ⟨i, hget', by rw [armSnapshot_get, hget']; rfl, fun j l'' hj hid => ?_⟩
  have hnd' : (ids (hkArm v s now).1.sys.links).Nodup := by rw [ids_hkArm]; exact hnd
  have h1 : (ids (hkArm v s now).1.sys.links)[j]? = some l'.core.connId := by
    unfold ids; rw [List.getElem?_map, hj]; exact congrArg some hid
  have h2 : (ids (hkArm v s now).1.sys.links)[i]? = some l'.core.connId := by
    unfold ids; rw [List.getElem?_map, hget']; rfl
  have hjl : j < (ids (hkArm v s now).1.sys.links).length := by
    rcases Nat.lt_or_ge j (ids (hkArm v s now).1.sys.links).length with h | h
    · exact h
    · rw [List.getElem?_eq_none h] at h1; cases h1
  exact (List.getElem?_inj hjl hnd').1 (h1.trans h2.symm)

/-- **Across a reload the entries follow the links by conn id.**  Tick, then ANY events other than ticks (among them
reloads that remove links, shift the vector, append new links), then the next tick: for every link `l` at the second
tick, wherever it now sits, the entry at ITS index is honest about IT (`Stats_arm_honest` at the state after the
reloads) — in particular its `weak` is the filter's verdict for ITS conn id and its CC fields are the snapshot of the
controller entry of ITS conn id, which for a conn id no link had after the first tick is one loop body from
`LinkCongestionState::default()` (`C16_arm_reload_link_starts_default`). -/
theorem Stats_reload_follows_ids (v : Views F G) (hv : Faithful v) (s : Full F G) (now1 now2 : Nat)
    (es : List FEv) (hes : ∀ e ∈ es, ∃ e', e = FEv.other e') (i : Nat) (l : FLink F) :
    let s2 := (Full.run v (hkArm v s now1).1 es).1
    (ids s2.sys.links).Nodup →
    (afterHk s2.sys now2).1.links[i]? = some l →
    ∃ l' e st, (hkArm v s2 now2).1.sys.links[i]? = some l' ∧ (armSnapshot v s2 now2).links[i]? = some e ∧
      l'.core = l.core ∧ e.connected = l.core.connected ∧ e.window = l.core.window ∧
      e.inFlight = l.core.inFlight ∧ e.timedOut = timedOutAgainst l' s2.sys.cfg.connTimeoutMs now2 ∧
      e.weak = (Classifier.verdictOf s2.cls (clsTick v (afterHk s2.sys now2).1.links) (v.cls l)).weak ∧
      (hkArm v s2 now2).1.ctl.get l.core.connId = some st ∧ e.ccState = some st.state ∧ e.ccTarget = st.target ∧
      (l.core.connId ∉ ids (hkArm v s now1).1.sys.links →
        st = LinkCc.connStep (LinkCc.St.default : LinkCc.St G) (v.cc l) now2) := by
  intro s2 hnd hl
  obtain ⟨l', e, st, h1, h2, h3, -, -, h6, h7, h8, -, h10, -, h12, h13, h14, h15, -⟩ :=
    Stats_arm_honest v hv s2 now2 i l hl
  refine ⟨l', e, st, h1, h2, h3, by rw [h6, h3], by rw [h7, h3], by rw [h8, h3], h10, (h12 hnd).1, h13, h14, h15,
    fun hnew => ?_⟩
  have := C16_arm_reload_link_starts_default v hv s now1 now2 es hes l hnd (List.mem_of_getElem? hl) hnew
  have h13' : (hkArm v s2 now2).1.ctl.get l.core.connId = some st := h13
  rw [this] at h13'
  exact (Option.some.inj h13').symm

/-- **Every snapshot published along a run is the arm's snapshot of a reachable state**: a snapshot published during
ANY run `es` of the whole sender is `armSnapshot` of the state reached by the events before one of the run's ticks.
So `Stats_arm_honest` / `Stats_entry_by_id` (stated for EVERY state) speak about every snapshot a `get_stats` caller or
a `stats` subscriber can ever see; the side conditions (pairwise distinct conn ids) hold of every reachable state of a
run whose reloads draw new conn ids (`SysArm.Full_run_inv`). -/
theorem Stats_published_is_armSnapshot (v : Views F G) (s : Full F G) (es : List FEv) :
    ∀ p ∈ published v s es, ∃ pre now post, es = pre ++ FEv.tick now :: post ∧
      p = armSnapshot v (Full.run v s pre).1 now := by
  induction es generalizing s with
  | nil => intro p hp; cases hp
  | cons e es ih =>
    cases e with
    | tick now =>
      intro p hp
      rcases List.mem_cons.1 hp with rfl | hp
      · exact ⟨[], now, es, rfl, rfl⟩
      · obtain ⟨pre, now', post, rfl, rfl⟩ := ih (hkArm v s now).1 p hp
        exact ⟨.tick now :: pre, now', post, rfl, rfl⟩
    | other e =>
      intro p hp
      obtain ⟨pre, now', post, rfl, rfl⟩ := ih (Full.step v s (.other e)).1 p hp
      exact ⟨.other e :: pre, now', post, rfl, rfl⟩

/-! ## 6. Non-vacuity on the concrete state / run of `Props/SysArm.lean`

`exF`: two busy links (live, window 25000, a queued datagram, a packet in flight, non-default stamps), one fresh link;
a controller that went through a `tick_all`; a filter with a stored row.  `exEvs`: client datagram, tick at 5100, a
reload that removes link 2 and adds 7 and 8 (the vector shifts: ids `[1,2,3]` → `[1,3,7,8]`), an uplink datagram, tick
at 6100. -/

-- the hypotheses of `Stats_arm_honest` are met at every index of the example tick
example : Faithful exViews ∧ ((afterHk exF.sys 5100).1.links.map (·.core.connId)) = [1, 2, 3] :=
  ⟨exViews_faithful, by decide +kernel⟩

-- what the published snapshot of the example tick says: three entries, the two busy links connected with their
-- window (25000 + the tick's recovery step), the fresh link not connected; addresses in link order; every CC state known
example :
    ((armSnapshot exViews exF 5100).links.map fun e => (e.addr, e.connected, e.window, e.ccState.isSome)) =
      [(1, true, 25060, true), (2, true, 25060, true), (3, false, 20000, true)] ∧
    (armSnapshot exViews exF 5100).totalLinks = 3 := by
  refine ⟨by decide +kernel, by decide +kernel⟩

-- two snapshots are published along the example run; after the reload the second has FOUR entries whose addresses
-- follow the shifted vector
example : (published exViews exF exEvs).map (fun p => p.links.map (·.addr)) =
    [(Full.run exViews exF [.other (.client 5000 exData)]).1.sys.links.map (·.addr),
     (Full.run exViews exF exEvs).1.sys.links.map (·.addr)] ∧
    (published exViews exF exEvs).map (·.totalLinks) = [3, 4] := by
  refine ⟨by decide +kernel, by decide +kernel⟩

-- the hypotheses of `Stats_reload_follows_ids` are met by the example run: after the first tick only non-tick events
-- (among them the reload) until the second tick; the conn ids before the second tick are distinct; links 7 and 8 are new
example : (∀ e ∈ [FEv.other exReload, .other (.uplink 5200 2 exData)], ∃ e', e = FEv.other e') ∧
    (ids (Full.run exViews (hkArm exViews exF 5100).1 [.other exReload, .other (.uplink 5200 2 exData)]).1.sys.links).Nodup ∧
    (7 ∉ ids (hkArm exViews exF 5100).1.sys.links) := by
  refine ⟨?_, by decide +kernel, by decide +kernel⟩
  intro e he
  simp only [List.mem_cons, List.not_mem_nil, or_false] at he
  rcases he with rfl | rfl <;> exact ⟨_, rfl⟩

-- `Stats_setCfg_visible_run`: switching to classic mode before the example run is reported by both snapshots
example : (published exViews exF ([FEv.other (.setCfg { classic := true, connTimeoutMs := 7000 })] ++ exEvs)).map
    (fun p => (p.classic, p.qualityEnabled)) = [(true, false), (true, false)] ∧
    (∀ e ∈ exEvs, notSetCfg e = true) := by
  refine ⟨by decide +kernel, by decide⟩

-- `Stats_one_entry_per_link` / `Stats_aggregates` / `Stats_config_block` on the example state (no arm): three links,
-- the two busy ones active at 5100 with windows 25000 + 25000 and one packet in flight each; a classic configuration
-- reports quality scoring off
example :
    let p : SnapshotM Int Rat := snapshot exF.sys.links { classic := true, quality := true } none (some exF.ctl) 5100
    (p.links.length, p.totalLinks, p.activeLinks, p.totalWindow, p.totalInFlight, p.classic, p.qualityEnabled) =
      (3, 3, 2, 50000, 2, true, false) := by
  decide +kernel

-- `Stats_link_verdicts_by_id` / `Stats_link_no_inputs`: with the controller of the example state (entries for the
-- ids 1, 2 and the vanished id 5, none for 3) the entries of links 1 and 2 report a known CC state and a target,
-- link 3 reports `unknown` / 0; no classification: every reason `unknown`
example :
    ((snapshot exF.sys.links {} none (some exF.ctl) 5100 : SnapshotM Int Rat).links.map fun e =>
      (e.ccState.isSome, decide (e.ccTarget = 0), e.weakReason.isSome)) =
      [(true, false, false), (true, false, false), (false, true, false)] := by
  decide +kernel

-- `Stats_entry_by_id`: the conn ids of the example state are pairwise distinct
example : (ids exF.sys.links).Nodup := by decide +kernel

end Srtla.Props.SysStats
