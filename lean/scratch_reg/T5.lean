import Srtla.Lemmas.Reg
namespace Srtla.Reg
open Srtla.Gen

/-- `e` is the arrival of a packet of type `ty` on uplink `idx`. -/
def Ev.IsPktOn (e : Ev) (idx ty : Nat) : Prop :=
  match e with
  | .pkt i _ buf => i = idx ∧ pktType buf = some ty
  | _ => False

def Ev.IsDriver : Ev → Prop
  | .driver _ => True
  | _ => False

def Ev.IsReconnectOf (e : Ev) (idx : Nat) : Prop :=
  match e with
  | .reconnect i _ => i = idx
  | _ => False

/-- Every packet an atomic event emits, with the path that produced it and the state it was
produced from. -/
theorem step_sends (s : Sys) (e : Ev) (o : Send) (ho : o ∈ (s.step e).2) :
    (o.kind = .reg1Imm ∧ e.IsPktOn o.target 37393 ∧
      s.reg.pending = none ∧ s.reg.active = 0 ∧ o.pkt = Codec.createReg1 s.reg.id) ∨
    (o.kind = .reg1Drv ∧ e.IsDriver ∧ s.reg.pending = none ∧ s.reg.active = 0 ∧
      s.reg.target = some o.target ∧ o.pkt = Codec.createReg1 s.reg.id) ∨
    (o.kind = .reg1Hk ∧ e.IsReconnectOf o.target ∧ s.reg.pending = some o.target ∧
      o.pkt = Codec.createReg1 s.reg.id) ∨
    (o.kind = .reg2Hk ∧ e.IsReconnectOf o.target ∧ s.reg.pending = none ∧
      o.pkt = Codec.createReg2 s.reg.id) ∨
    (o.kind = .bcast ∧ e.IsDriver ∧ s.reg.broadcastPending = true ∧
      o.pkt = Codec.createReg2 s.reg.id) := by
  obtain ⟨r, c⟩ := s
  cases e with
  | pkt i now buf =>
    rcases processRegistrationPacket_cases r i now buf with ⟨ht, hp⟩ | ⟨ht, hp⟩ | ⟨_, hp⟩ | ⟨_, hp⟩ | ⟨_, _, _, _, hp⟩
    · left
      simp only [Sys.step, stepPkt, hp] at ho
      simp only [Ev.IsPktOn, ht]
      grind [handleRegNgp, handleProbeResponse, reg1IfNgpImmediate, buildReg1For]
    · simp [Sys.step, stepPkt, hp] at ho
    · simp [Sys.step, stepPkt, hp] at ho
    · simp [Sys.step, stepPkt, hp] at ho
    · simp [Sys.step, stepPkt, hp] at ho
  | clearTimeout now => simp [Sys.step] at ho
  | probeCheck now =>
    simp only [Sys.step] at ho
    split at ho <;> simp at ho
  | reconnect i now =>
    simp only [Sys.step, stepReconnect, buildReg1For, buildReg2] at ho
    simp only [Ev.IsReconnectOf, Ev.IsDriver, Ev.IsPktOn]
    grind
  | drop i => simp [Sys.step] at ho
  | updateActive => simp [Sys.step] at ho
  | driver now =>
    simp only [Sys.step, stepDriver, regDriverPendingSends, driverReg1, driverBroadcast] at ho
    simp only [Ev.IsReconnectOf, Ev.IsDriver, Ev.IsPktOn]
    grind
end Srtla.Reg
