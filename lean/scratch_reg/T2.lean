import Srtla.Lemmas.Reg
namespace Srtla.Reg
open Srtla.Gen

theorem inv_updateActive (x : St) (h : Inv x) : Inv (x.step .updateActive).1 := by
  obtain ⟨⟨r, c⟩, g⟩ := x
  obtain ⟨h1, h2, h3, h4, h5, h6⟩ := h
  simp only at h1 h2 h3 h4 h5 h6
  constructor
  all_goals simp only [St.step, Sys.step, Ghost.step, List.foldl_nil, Ghost.react, updateActiveConnections]
  all_goals grind

theorem inv_reconnect (x : St) (h : Inv x) (i now : Nat) : Inv (x.step (.reconnect i now)).1 := by
  obtain ⟨⟨r, c⟩, g⟩ := x
  obtain ⟨h1, h2, h3, h4, h5, h6⟩ := h
  simp only at h1 h2 h3 h4 h5 h6
  constructor
  all_goals simp only [St.step, Sys.step, Ghost.step, Ghost.react, stepReconnect, buildReg1For, buildReg2, reg2WaitMs,
    Proto.REG2_TIMEOUT_eq, Ev.time]
  all_goals grind [Ghost.note, Send.isReg1]

theorem inv_driver (x : St) (h : Inv x) (now : Nat) : Inv (x.step (.driver now)).1 := by
  obtain ⟨⟨r, c⟩, g⟩ := x
  obtain ⟨h1, h2, h3, h4, h5, h6⟩ := h
  simp only at h1 h2 h3 h4 h5 h6
  constructor
  all_goals simp only [St.step, Sys.step, Ghost.step, Ghost.react, stepDriver, regDriverPendingSends, driverReg1, driverBroadcast,
    reg2WaitMs, Proto.REG2_TIMEOUT_eq, Ev.time]
  all_goals grind [Ghost.note, Send.isReg1]
end Srtla.Reg
