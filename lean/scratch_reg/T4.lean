import Srtla.Lemmas.Reg
namespace Srtla.Reg
open Srtla.Gen
theorem reg2WaitMs_eq : reg2WaitMs = 4000 := rfl
theorem reg3WaitMs_eq : reg3WaitMs = 4000 := rfl

/-- Case analysis of `process_registration_packet` on the packet type. -/
theorem processRegistrationPacket_cases (r : Reg) (i now : Nat) (buf : Bytes) :
    (pktType buf = some 37393 ∧ processRegistrationPacket r i buf now = (handleRegNgp r i now, some .regNgp)) ∨
    (pktType buf = some 37377 ∧ processRegistrationPacket r i buf now = (handleReg2 r i buf now, some .reg2)) ∨
    (pktType buf = some 37378 ∧ processRegistrationPacket r i buf now = (handleReg3 r, some .reg3)) ∨
    (pktType buf = some 37392 ∧ processRegistrationPacket r i buf now = (handleRegErr r now, some .regErr)) ∨
    (pktType buf ≠ some 37393 ∧ pktType buf ≠ some 37377 ∧ pktType buf ≠ some 37378 ∧ pktType buf ≠ some 37392 ∧
      processRegistrationPacket r i buf now = (r, none)) := by
  unfold processRegistrationPacket pktType
  simp only [Proto.SRTLA_TYPE_REG_NGP_eq, Proto.SRTLA_TYPE_REG2_eq, Proto.SRTLA_TYPE_REG3_eq, Proto.SRTLA_TYPE_REG_ERR_eq]
  cases Codec.getPacketTypeS buf with
  | none => simp
  | some t =>
    by_cases h1 : t = 37393
    · simp [h1]
    · by_cases h2 : t = 37377
      · simp [h2]
      · by_cases h3 : t = 37378
        · simp [h3]
        · by_cases h4 : t = 37392
          · simp [h4]
          · simp [h1, h2, h3, h4]

theorem inv_pkt (x : St) (h : Inv x) (i now : Nat) (buf : Bytes) : Inv (x.step (.pkt i now buf)).1 := by
  obtain ⟨⟨r, c⟩, g⟩ := x
  obtain ⟨h1, h2, h3, h4, h5, h6⟩ := h
  simp only at h1 h2 h3 h4 h5 h6
  rcases processRegistrationPacket_cases r i now buf with ⟨ht, hp⟩ | ⟨ht, hp⟩ | ⟨ht, hp⟩ | ⟨ht, hp⟩ | ⟨n1, n2, n3, n4, hp⟩
  · constructor
    all_goals simp only [St.step, Sys.step, Ghost.step, Ghost.react, stepPkt, hp, ht, Ghost.Accepts, Ev.time]
    all_goals grind [Ghost.note, Send.isReg1, handleRegNgp, handleProbeResponse,
      reg1IfNgpImmediate, buildReg1For, reg2WaitMs_eq]
  · constructor
    all_goals simp only [St.step, Sys.step, Ghost.step, Ghost.react, stepPkt, hp, ht, Ghost.Accepts, Ev.time]
    all_goals grind [handleReg2, reg3WaitMs_eq, Proto.SRTLA_ID_LEN_eq]
  · constructor
    all_goals simp only [St.step, Sys.step, Ghost.step, Ghost.react, stepPkt, hp, ht, Ghost.Accepts, Ev.time]
    all_goals grind [handleReg3]
  · constructor
    all_goals simp only [St.step, Sys.step, Ghost.step, Ghost.react, stepPkt, hp, ht, Ghost.Accepts, Ev.time]
    all_goals grind [handleRegErr]
  · constructor
    all_goals simp only [St.step, Sys.step, Ghost.step, Ghost.react, stepPkt, hp, n1, n2, n3, n4, Ghost.Accepts, Ev.time]
    all_goals grind
end Srtla.Reg
