import Srtla.Lemmas.Reg
namespace Srtla.Reg
open Srtla.Gen

theorem inv_clearTimeout (x : St) (h : Inv x) (now : Nat) : Inv (x.step (.clearTimeout now)).1 := by
  obtain ⟨⟨r, c⟩, g⟩ := x
  obtain ⟨h1, h2, h3, h4, h5, h6, h7⟩ := h
  simp only at h1 h2 h3 h4 h5 h6 h7
  constructor <;>
  simp only [St.step, Sys.step, Ghost.step, List.foldl_nil, Ghost.react, clearPendingIfTimedOut, Ghost.Abandons] <;>
  grind
end Srtla.Reg
