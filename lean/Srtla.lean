-- Root of the `Srtla` library: model, lemmas and property theorems.
import Srtla.Gen.Constants
import Srtla.Model.Codec
