import Srtla.Drv.Reload
open Srtla.Drv
def main : IO UInt32 := do
  runLoop ({} : Reload.DState) Reload.step (← IO.getStdin) (← IO.getStdout) {}
  return 0
