import Srtla.Drv.Sel
open Srtla.Drv
def main : IO UInt32 := do
  runLoop ([] : List Sel.L) Sel.step (← IO.getStdin) (← IO.getStdout) []
  return 0
