import Srtla.Drv.Control
open Srtla.Drv
def main : IO UInt32 := do
  runLoop ({} : Control.DState) Control.step (← IO.getStdin) (← IO.getStdout) {}
  return 0
