import Srtla.Drv.Codec
open Srtla.Drv
def main : IO UInt32 := do
  runLoop () Codec.step (← IO.getStdin) (← IO.getStdout) ()
  return 0
