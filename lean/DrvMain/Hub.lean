import Srtla.Drv.Hub
open Srtla.Drv
def main : IO UInt32 := do
  runLoop Hub.init Hub.step (← IO.getStdin) (← IO.getStdout) Hub.init
  return 0
