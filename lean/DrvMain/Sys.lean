import Srtla.Drv.Sys
open Srtla.Drv
def main : IO UInt32 := do
  runLoop SysDrv.emptyD SysDrv.stepRx (← IO.getStdin) (← IO.getStdout) SysDrv.emptyD
  return 0
