import Srtla.Drv.Sys
open Srtla.Drv
def main : IO UInt32 := do
  runLoop SysDrv.empty SysDrv.step (← IO.getStdin) (← IO.getStdout) SysDrv.empty
  return 0
