import Srtla.Drv.Conn
open Srtla.Drv
def main : IO UInt32 := do
  runLoop ({} : ConnDrv.St) ConnDrv.step (← IO.getStdin) (← IO.getStdout) {}
  return 0
