import Srtla.Drv.Classifier
open Srtla.Drv
def main : IO UInt32 := do
  runLoop Srtla.Classifier.State.init Classifier.step (← IO.getStdin) (← IO.getStdout) Srtla.Classifier.State.init
  return 0
