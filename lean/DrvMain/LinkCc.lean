import Srtla.Drv.LinkCc
open Srtla.Drv
def main : IO UInt32 := do
  runLoop LinkCc.init LinkCc.step (← IO.getStdin) (← IO.getStdout) LinkCc.init
  return 0
