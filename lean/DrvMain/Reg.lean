import Srtla.Drv.Reg
open Srtla.Drv
def main : IO UInt32 := do
  runLoop Reg.DState.start Reg.step (← IO.getStdin) (← IO.getStdout) Reg.DState.start
  return 0
