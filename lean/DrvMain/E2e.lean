import Srtla.Drv.E2e
open Srtla.Drv
def main : IO UInt32 := do
  runLoop E2e.init E2e.step (← IO.getStdin) (← IO.getStdout) E2e.init
  return 0
