import re
p='lean/Srtla/Lemmas/Audit2AClient.lean'
s=open(p).read()
def rep(old,new,cnt=1):
    global s
    assert s.count(old)==cnt,(s.count(old),old)
    s=s.replace(old,new)
rep("    have hple := stallProbesGo_fnLe pkt seq now sel (setAt",
    "    rw [Hk.forwardVia_failAfter]\n    have hple := stallProbesGo_fnLe (fa := s1.failAfter) pkt seq now sel (setAt")
rep("    rw [hfn, hfa] at r1 r2 r3\n", "    rw [hfn] at r1 r2 r3\n    rw [hfa] at r2 r3\n")
rep("    | some sel => exact (client_exact (fa := s.failAfter) s pkt now sel hne ht).1", "    | some sel => exact (client_exact s pkt now sel hne ht).1")
# section 5 rewritten
i=s.index("/-- The three outcomes of `Hk.fwdLink`, seen from outside")
j=s.index("/-- A client event only ever REMOVES entries from the fault-injection list. -/")
new5='''theorem wireOf_sublist {c : Nat} {a b : List (Nat × Bytes)} (h : a.Sublist b) : (wireOf c a).Sublist (wireOf c b) := by
  unfold wireOf
  exact (h.filter _).map _

/-- The three outcomes of `Hk.fwdLink`, seen from outside: the queue is non-empty afterwards, or the WHOLE queue
incl. the new datagram, tagged with the link's conn id, is what the call put on the wire, or the injected failure
for the conn id is consumed (and then only a prefix went out). -/
theorem fwdLink_fate (l : FLink F) (pkt : Bytes) (seq : Option Nat) (now : Nat) (fn : List Nat) :
    (Hk.fwdLink fa l pkt seq now fn).1.queue ≠ [] ∨
    (wireOf l.core.connId (Hk.fwdLink fa l pkt seq now fn).2.1).length = l.queue.length + 1 ∨
    (Hk.fwdLink fa l pkt seq now fn).2.2.count l.core.connId < fn.count l.core.connId := by
  rcases fwdLink_cases l pkt seq now fn with h | h | h
  · left
    rw [h.2.1, (queueDataPacket_spec l pkt seq now).1]
    simp
  · right; left
    rw [h.2.2.2.1, wireOf_tag_self]
    simp [bytesOf]
  · right; right
    rw [h.2.2.2.2]
    exact Hk.count_erase_lt fn _ (by simpa using h.2.1)

/-- **Client event: nothing vanishes without a consumed injection.**  If link `i` held something before a client
event or was handed a copy by it (`l.queue ++ appendedClient … ≠ []`), and afterwards its queue is empty and the
event put FEWER datagrams on its socket than that (nothing, or only a prefix: a send that failed part-way), then the
event consumed an injected send failure for its conn id: the multiplicity of the conn id in `failNext` is strictly
smaller afterwards. -/
theorem client_consumed (s : Sys F) (pkt : Bytes) (now : Nat) (hnd : (ids s.links).Nodup) (i : Nat) (l l' : FLink F)
    (hl : s.links[i]? = some l) (hl' : (handleSrtPacket s pkt now).1.links[i]? = some l')
    (hne : l.queue ++ appendedClient s pkt now i ≠ []) (hq : l'.queue = [])
    (hw : (wireOf l.core.connId (handleSrtPacket s pkt now).2.wire).length <
      (l.queue ++ appendedClient s pkt now i).length) :
    (handleSrtPacket s pkt now).1.failNext.count l.core.connId < s.failNext.count l.core.connId := by
  obtain ⟨-, -, -, -, -, -, -, h8⟩ := client_links s pkt now hnd
  obtain ⟨l'', g1, -, -, g4⟩ := h8 i l hl
  rw [hl'] at g1; cases g1
  have hal : (l.queue ++ appendedClient s pkt now i).length ≤ l.queue.length + 1 := by
    rw [List.length_append]
    rcases appendedClient_cases s pkt now i with h | h <;> rw [h] <;> simp
  by_cases happ : appendedClient s pkt now i = []
  · exfalso
    rw [happ, List.append_nil] at hne
    rw [(g4 happ).1] at hq
    exact hne hq
  · -- something was appended: non-empty datagram, a target, link `i` is the target or a probe link
    have hpe : pkt.isEmpty = false := by
      cases h : pkt.isEmpty
      · rfl
      · exfalso; apply happ; unfold appendedClient; rw [if_pos h]
    obtain ⟨l1, r1, rq, rc, rp, rr⟩ := routedLinks_getElem? s now i l hl
    obtain ⟨sel, ht⟩ : ∃ sel, target s pkt now = some sel := by
      cases h : target s pkt now with
      | none => exfalso; apply happ; unfold appendedClient; rw [h]; simp
      | some sel => exact ⟨sel, rfl⟩
    have happ' : appendedClient s pkt now i =
        clientApp (clientItem pkt now) (s.reg.hasConnected && (Codec.getSrtSequenceNumberS pkt).isSome) sel i l1 := by
      unfold appendedClient
      rw [if_neg (by simp [hpe]), ht, r1]
    have hcid : l1.core.connId = l.core.connId := by rw [rc]
    obtain ⟨hfle, hx⟩ := client_exact s pkt now sel hpe ht
    -- the common end: a `fwdLink` on a record `m` with `m`'s conn id and queue length = `l`'s, from a list
    -- `fn0 ≤ failNext`
    have fin : ∀ (m : FLink F) (fn0 : List Nat), m.core.connId = l.core.connId → m.queue.length = l.queue.length →
        Hk.FnLe s.failNext fn0 →
        l' = (Hk.fwdLink s.failAfter m pkt (Codec.getSrtSequenceNumberS pkt) now fn0).1 →
        Hk.FnLe (Hk.fwdLink s.failAfter m pkt (Codec.getSrtSequenceNumberS pkt) now fn0).2.2 (handleSrtPacket s pkt now).1.failNext →
        ((Hk.fwdLink s.failAfter m pkt (Codec.getSrtSequenceNumberS pkt) now fn0).2.1.Sublist (handleSrtPacket s pkt now).2.wire) →
        (handleSrtPacket s pkt now).1.failNext.count l.core.connId < s.failNext.count l.core.connId := by
      intro m fn0 hm hmq h0 e1 e2 e3
      rcases fwdLink_fate (fa := s.failAfter) m pkt (Codec.getSrtSequenceNumberS pkt) now fn0 with h | h | h
      · rw [← e1] at h; exact absurd hq h
      · exfalso
        have := (wireOf_sublist (c := l.core.connId) e3).length_le
        rw [hm] at h
        omega
      · rw [hm] at h
        exact Nat.lt_of_le_of_lt (e2 _) (Nat.lt_of_lt_of_le h (h0 _))
    rcases hx i l1 r1 with ⟨hi, e1, e2, e3⟩ | ⟨hi, hnp, e1⟩ | ⟨hi, hp, hpc, fnk, f1, -, e1, e2, e3⟩
    · rw [hl'] at e1
      exact fin l1 s.failNext hcid (by rw [rq]) (Hk.FnLe.refl _) (Option.some.inj e1) e2 e3
    · exfalso
      apply happ
      rw [happ']
      unfold clientApp probeApp
      rw [if_neg hi]
      split
      · rename_i hpp
        rw [if_neg (fun h => hnp ⟨hpp, h.1⟩)]
      · rfl
    · rw [hl'] at e1
      rcases probeLink_cases (fa := s.failAfter) l1 pkt (Codec.getSrtSequenceNumberS pkt) now fnk with ⟨hlt, hpl⟩ | ⟨hge, hpl⟩
      · exfalso
        apply happ
        rw [happ']
        unfold clientApp probeApp
        rw [if_neg hi, if_pos hp, if_neg (fun h => by omega)]
      · rw [hpl] at e1 e2 e3
        obtain ⟨-, -, d3, d4, -⟩ := stallProbeDue_spec l1
        exact fin l1.stallProbeDue.1 fnk (by rw [d4, hcid]) (by rw [d3, rq]) f1 (Option.some.inj e1) e2 e3

/-- **Flush event: nothing vanishes without a consumed injection.**  If link `i`'s queue was non-empty before a
`flush` event and the event put fewer datagrams on its socket than the queue held (nothing, or only a prefix), then
the event consumed an injected send failure for its conn id. -/
theorem flush_consumed (s : Sys F) (now : Nat) (i : Nat) (l : FLink F) (hl : s.links[i]? = some l)
    (hne : l.queue ≠ []) (hw : (wireOf l.core.connId (flushAllBatches s now).2.wire).length < l.queue.length) :
    (flushAllBatches s now).1.failNext.count l.core.connId < s.failNext.count l.core.connId := by
  obtain ⟨-, h⟩ := flush_exact s now i l hl
  rcases h with ⟨h, -⟩ | ⟨-, fnk, f1, -, -, e2, e3⟩
  · exact absurd h hne
  · rw [sendBatch_exact] at e2 e3
    have hq : l.queue.isEmpty = false := by cases h : l.queue <;> simp_all
    rw [hq] at e2 e3
    simp only [Bool.false_eq_true, if_false] at e2 e3
    split at e2
    · rename_i hc
      exact Nat.lt_of_le_of_lt (e2 _) (Nat.lt_of_lt_of_le (Hk.count_erase_lt fnk _ hc) (f1 _))
    · rename_i hc
      rw [if_neg hc] at e3
      exfalso
      have := (wireOf_sublist (c := l.core.connId) e3).length_le
      rw [wireOf_tag_self] at this
      simp only [bytesOf, List.length_map] at this
      omega

'''
s=s[:i]+new5+s[j:]
open(p,'w').write(s)
