p='lean/Srtla/Lemmas/RegShell.lean'
s=open(p).read()
def rep(old,new,cnt=1):
    global s
    assert s.count(old)==cnt,(s.count(old),old)
    s=s.replace(old,new)
rep('''theorem projects_failNext (s : Sys F) (cid : Nat) : Projects s (.failNext cid) :=
  projects_frame s _ rfl (fun h => h) rfl rfl rfl
''','''theorem projects_failNext (s : Sys F) (cid : Nat) : Projects s (.failNext cid) :=
  projects_frame s _ rfl (fun h => h) rfl rfl rfl

theorem projects_failAfter (s : Sys F) (cid k : Nat) : Projects s (.failAfter cid k) :=
  projects_frame s _ rfl (fun h => h) rfl rfl rfl
''')
rep("  | failAfter cid kfa => exact projects_failNext s cid", "  | failAfter cid kfa => exact projects_failAfter s cid kfa")
rep("    (hstay : (step s e).1.reg.pending = some i) (hne : e ≠ .failNext cid) (hnb : e ≠ .failBind cid)",
    "    (hstay : (step s e).1.reg.pending = some i) (hne : e ≠ .failNext cid) (hna : ∀ k, e ≠ .failAfter cid k)\n    (hnb : e ≠ .failBind cid)")
rep('''  | failAfter c kfa =>
    refine ⟨att_frame h rfl rfl ?_ h.nobind, fun _ he => by cases he⟩
    show (c :: s.failNext).contains cid = false
    have hc : c ≠ cid := fun hc => hne (by rw [hc])''','''  | failAfter c kfa =>
    refine ⟨att_frame h rfl rfl ?_ h.nobind, fun _ he => by cases he⟩
    show (c :: s.failNext).contains cid = false
    have hc : c ≠ cid := fun hc => hna kfa (by rw [hc])''')
rep('''      (∀ e ∈ evs2, e ≠ .failNext l.core.connId ∧ ∀ now, e = .hk now → 0 < now) →
      (∀ e ∈ evs2, e ≠ .failBind l.core.connId) →''','''      (∀ e ∈ evs2, e ≠ .failNext l.core.connId ∧ ∀ now, e = .hk now → 0 < now) →
      (∀ e ∈ evs2, ∀ k, e ≠ .failAfter l.core.connId k) →
      (∀ e ∈ evs2, e ≠ .failBind l.core.connId) →''',2)
rep("      intro evs1 _ _ hA _ _ _\n", "      intro evs1 _ _ hA _ _ _ _\n")
rep("      intro evs1 hn1 hn2 hA hun hev hevb\n", "      intro evs1 hn1 hn2 hA hun hev heva hevb\n")
rep("      obtain ⟨hA', htick⟩ := att_step hA (regOk_run h0 evs1 hn1) e hstay hne (hevb e (by simp)) hpos hn2.head",
    "      obtain ⟨hA', htick⟩ := att_step hA (regOk_run h0 evs1 hn1) e hstay hne (heva e (by simp)) (hevb e (by simp)) hpos\n        hn2.head")
rep("        (fun e' he' => hev e' (by simp [he'])) (fun e' he' => hevb e' (by simp [he']))",
    "        (fun e' he' => hev e' (by simp [he'])) (fun e' he' => heva e' (by simp [he']))\n        (fun e' he' => hevb e' (by simp [he']))")
rep('''  intro evs2 evs1 hn1 hn2 hp hD hl hnf hnb hun hev hevb
  exact key evs2 evs1 hn1 hn2 ⟨hp, hnf, hnb, l, hl, rfl, Or.inl hD⟩ hun hev hevb''','''  intro evs2 evs1 hn1 hn2 hp hD hl hnf hnb hun hev heva hevb
  exact key evs2 evs1 hn1 hn2 ⟨hp, hnf, hnb, l, hl, rfl, Or.inl hD⟩ hun hev heva hevb''')
rep("continuation in which the attempt stays pending, no send failure and no socket re-creation failure is",
    "continuation in which the attempt stays pending, no send failure (plain or partial) and no socket re-creation failure is")
open(p,'w').write(s)
p='lean/Srtla/Props/C07.lean'
s=open(p).read()
rep('''    (hev : ∀ e ∈ evs2, e ≠ .failNext l.core.connId ∧ ∀ now, e = .hk now → 0 < now)
    (hevb : ∀ e ∈ evs2, e ≠ .failBind l.core.connId)''','''    (hev : ∀ e ∈ evs2, e ≠ .failNext l.core.connId ∧ ∀ now, e = .hk now → 0 < now)
    (heva : ∀ e ∈ evs2, ∀ k, e ≠ .failAfter l.core.connId k)
    (hevb : ∀ e ∈ evs2, e ≠ .failBind l.core.connId)''')
rep("abandon_bound h0 i D l evs2 evs1 hnr1 hnr2 hp hD hl hnf hnb hun hev hevb", "abandon_bound h0 i D l evs2 evs1 hnr1 hnr2 hp hD hl hnf hnb hun hev heva hevb")
rep("  is queued at the start, no `failNext` / `failBind` event for it),", "  is queued at the start, no `failNext` / `failAfter` / `failBind` event for it),")
open(p,'w').write(s)
