#!/usr/bin/env python3
"""Prepare a scratch worktree of /repo for a seeding sub-agent: tools/mk_seed_worktree.py <dir> <Cxx> [<target-dir-to-copy>]
Writes <dir>/PROPERTY.txt = the property's text (from properties.jsonl) + one-paragraph summaries of the changes earlier
sub-agents already delivered for it (from seeded/<Cxx>*/meta.json), so that the new change is of a different kind.
Nothing else from /verif goes into the worktree."""
import glob, json, os, subprocess, sys
root = os.path.dirname(os.path.dirname(os.path.abspath(__file__)))
d, pid = os.path.abspath(sys.argv[1]), sys.argv[2]
prop = next(json.loads(l) for l in open(os.path.join(root, "properties.jsonl")) if l.strip() and json.loads(l)["id"] == pid)
if not os.path.isdir(d):
    subprocess.check_call(["git", "-C", "/repo", "worktree", "add", "--detach", d, "HEAD"], stdout=subprocess.DEVNULL, stderr=subprocess.DEVNULL)
if len(sys.argv) > 3 and not os.path.isdir(os.path.join(d, "target")):
    subprocess.call(["cp", "-r", sys.argv[3], os.path.join(d, "target")])
tried = []
for m in sorted(glob.glob(os.path.join(root, "seeded", pid + "*", "meta.json"))):
    tried.append(json.load(open(m)).get("summary", "").strip())
anchor_files = ", ".join(prop.get("anchors", {}).get("files", []))
txt = f"""{pid} - {prop['title']}

STATEMENT: {prop['statement']}

QUANTIFIER: {prop['quantifier']['text']}

WHY TESTS CANNOT SETTLE IT: {prop['why_tests_cant']}

ANCHOR FILES: {anchor_files}
"""
if tried:
    txt += "\nALREADY TRIED BY EARLIER ENGINEERS (do something different):\n" + "\n".join(f"{i+1}. {t}" for i, t in enumerate(tried)) + "\n"
open(os.path.join(d, "PROPERTY.txt"), "w").write(txt)
print(d, "ready")
