#!/bin/bash
# Private copy of /repo (git worktree) + /verif (with build output) for mutation / seeded-change
# testing without disturbing /repo or a concurrently running check.
#   tools/mk_sandbox.sh <dir>        creates <dir>/repo and <dir>/verif
#   then:  (cd <dir>/repo && git apply patch.diff);  <dir>/verif/check C06 quick
# Remove with: git -C /repo worktree remove --force <dir>/repo; rm -rf <dir>
set -e
D=$(readlink -f "$1")
mkdir -p "$D"
if [ ! -d "$D/repo" ]; then
  git -C /repo worktree add --detach "$D/repo" HEAD >/dev/null 2>&1
fi
mkdir -p "$D/verif"
rsync -a --delete --exclude out --exclude .git --exclude .claude --exclude harness/target /verif/ "$D/verif/"
sed -i "s#path = \"/repo#path = \"$D/repo#g" "$D/verif/harness/Cargo.toml"
cat > "$D/env.sh" <<EOT
export VERIF_REPO=$D/repo
EOT
echo "sandbox ready: VERIF_REPO=$D/repo $D/verif/check <Cxx> quick"
