p='lean/Srtla/Props/C01.lean'
s=open(p).read()
def rep(old,new,cnt=1):
    global s
    assert s.count(old)==cnt,(s.count(old),old)
    s=s.replace(old,new)
rep('''/-- `send_connection_batch` puts on the wire exactly the queued payloads, in queue order, each tagged
with the link's conn id and never a modified byte — or nothing at all, and that only when the queue was
empty or a send failure was pending for this conn id (then the injection is consumed and `ok = false`).
The queue is empty afterwards in every case. -/
theorem C01_send_connection_batch (l : FLink F) (now : Nat) (fn : List Nat) :
    let r := sendConnectionBatch fa l now fn
    r.1.queue = [] ∧ r.1.core.connId = l.core.connId ∧
    ((r.2.1 = (l.queue.map (·.1)).map (fun x => (l.core.connId, x)) ∧ r.2.2.1 = true ∧ r.2.2.2 = fn) ∨
     (r.2.1 = [] ∧ r.2.2.1 = false ∧ l.queue ≠ [] ∧ l.core.connId ∈ fn ∧ r.2.2.2 = fn.erase l.core.connId)) := by
  obtain ⟨h1, h2, -, -, -, -, h7⟩ := sendConnectionBatch_spec l now fn
  exact ⟨h1, h2, h7⟩
''','''/-- `send_connection_batch` puts on the wire exactly the queued payloads, in queue order, each tagged
with the link's conn id and never a modified byte — or only a PREFIX of them (the first
`failPrefix fa connId …` payloads: what `send_all_datagrams` got out before the call that failed; none of them for
a plain `failNext` injection, `C01_fail_prefix`), and that only when a send failure was pending for this conn id
(then the injection is consumed and `ok = false`: the caller treats the WHOLE batch as failed).  The queue is empty
afterwards in every case.  `fa` is the prefix table of the partial injections (`Sys.failAfter`). -/
theorem C01_send_connection_batch (fa : List (Nat × Nat)) (l : FLink F) (now : Nat) (fn : List Nat) :
    let r := sendConnectionBatch fa l now fn
    r.1.queue = [] ∧ r.1.core.connId = l.core.connId ∧
    ((r.2.1 = (l.queue.map (·.1)).map (fun x => (l.core.connId, x)) ∧ r.2.2.1 = true ∧ r.2.2.2 = fn) ∨
     (r.2.1 = ((l.queue.map (·.1)).take (failPrefix fa l.core.connId (fn.count l.core.connId))).map
          (fun x => (l.core.connId, x)) ∧
        r.2.2.1 = false ∧ l.queue ≠ [] ∧ l.core.connId ∈ fn ∧ r.2.2.2 = fn.erase l.core.connId)) := by
  obtain ⟨h1, h2, -, -, -, -, h7⟩ := sendConnectionBatch_spec (fa := fa) l now fn
  exact ⟨h1, h2, h7⟩

/-- **How much of a batch a failing send puts on the wire** (`failPrefix`, the reading of the two injection
events): with NO partial injection pending for the conn id (`Ev.failNext` only) nothing goes out; when the conn id
occurs exactly once in `failNext` and its only partial injection is `(cid, k)`, the first `min k len` datagrams go
out (`List.take k`); a plain injection pending next to partial ones is consulted first (multiplicity above the
number of partial entries: nothing goes out). -/
theorem C01_fail_prefix (fa : List (Nat × Nat)) (cid c k : Nat) :
    ((∀ e ∈ fa, e.1 ≠ cid) → failPrefix fa cid c = 0) ∧
    ((fa.filter fun e => e.1 == cid) = [(cid, k)] → failPrefix fa cid 1 = k) ∧
    ((fa.filter fun e => e.1 == cid).length < c → failPrefix fa cid c = 0) := by
  refine ⟨fun h => ?_, fun h => ?_, fun h => ?_⟩
  · have : (fa.filter fun e => e.1 == cid) = [] := by
      rw [List.filter_eq_nil_iff]
      intro e he
      simpa using h e he
    unfold failPrefix
    simp [this]
  · unfold failPrefix
    simp [h]
  · unfold failPrefix
    simp only [List.length_map]
    rw [if_neg (by omega)]

example : failPrefix [(1, 3), (2, 5), (1, 7)] 1 3 = 0 ∧ failPrefix [(1, 3), (2, 5), (1, 7)] 1 2 = 3 ∧
    failPrefix [(1, 3), (2, 5), (1, 7)] 1 1 = 7 ∧ failPrefix [(1, 3), (2, 5), (1, 7)] 2 1 = 5 := by decide
''')
rep('''* *discarded*: the queue is empty, nothing of it went on the wire, and a `LossCause` holds.''',
'''* *discarded*: the queue is empty, at most a PREFIX of it went on the wire (`List.take k`: a send that failed
  part-way; `k = 0` for a reset or a send that failed before anything went out - whenever the whole content did go
  out the event is classified *sent* by `Lemmas/ForwardStep.lean: LinkFx.strengthen`, so the cause below is proved
  for the events that really lose something), and a `LossCause` holds.''')
rep('''       (l'.queue = [] ∧ dataWire ev (step s ev).2 l.core.connId = [] ∧ LossCause s ev i l l')) := by
  obtain ⟨h1, h2⟩ := step_link s ev hnd hnr''','''       (l'.queue = [] ∧
         (∃ k, dataWire ev (step s ev).2 l.core.connId = (bytesOf (l.queue ++ appended s ev i)).take k) ∧
         LossCause s ev i l l')) := by
  obtain ⟨h1, h2⟩ := step_link s ev hnd hnr''')
open(p,'w').write(s)
