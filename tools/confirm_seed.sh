#!/bin/bash
# Confirm a seeded change delivered in a scratch worktree: patch applies to a clean tree, builds,
# existing suite passes with it, demo fails with it and passes without it. Then store it under
# /verif/seeded/<name>/.   tools/confirm_seed.sh <worktree> <name> [demo-package-flags]
W=$(readlink -f "$1"); NAME=$2; shift 2
cd "$W" || exit 2
DEMO=$(ls demo/*.rs 2>/dev/null | head -1)
[ -f patch.diff ] && [ -n "$DEMO" ] || { echo "missing patch.diff or demo/*.rs"; exit 2; }
T=$(basename "$DEMO" .rs)
# which package does the demo belong to? default: root tests/
DEST=tests
grep -q "crates/srtla-protocol/tests" demo/README.md 2>/dev/null && DEST=crates/srtla-protocol/tests
grep -q "crates/srtla-core/tests" demo/README.md 2>/dev/null && DEST=crates/srtla-core/tests
PKG=""
[ "$DEST" = crates/srtla-protocol/tests ] && PKG="-p srtla-protocol"
[ "$DEST" = crates/srtla-core/tests ] && PKG="-p srtla-core --features test-internals"
# (no git stash: the stash is shared by all worktrees of a repository)
git checkout -q -- . 2>/dev/null
git apply --check patch.diff || { echo "CONFIRM: patch does not apply to the clean tree"; exit 1; }
mkdir -p "$DEST"; cp "$DEMO" "$DEST/"
echo "== without patch: demo must pass"
cargo test --offline $PKG --test "$T" "$@" > /tmp/confirm_$NAME.nopatch.log 2>&1; RC_NO=$?
git apply patch.diff
echo "== with patch: build + demo must fail"
cargo test --offline $PKG --test "$T" "$@" > /tmp/confirm_$NAME.patch.log 2>&1; RC_P=$?
rm -f "$DEST/$(basename $DEMO)"
echo "== with patch: existing suite must pass"
cargo nextest run --workspace --no-fail-fast --tool-config-file pb:/w/lib/nextest.toml --profile pb --test-threads 8 --offline > /tmp/confirm_$NAME.suite.log 2>&1; RC_S=$?
SUM=$(grep -E "Summary|tests run" /tmp/confirm_$NAME.suite.log | tail -1)
echo "demo without patch rc=$RC_NO (want 0); demo with patch rc=$RC_P (want !=0); suite with patch rc=$RC_S (want 0): $SUM"
if [ $RC_NO -eq 0 ] && [ $RC_P -ne 0 ] && [ $RC_S -eq 0 ]; then
  mkdir -p /verif/seeded/$NAME && cp patch.diff meta.json /verif/seeded/$NAME/ && cp -r demo /verif/seeded/$NAME/
  echo "CONFIRMED -> /verif/seeded/$NAME"
else
  echo "NOT CONFIRMED"; tail -5 /tmp/confirm_$NAME.nopatch.log; tail -5 /tmp/confirm_$NAME.patch.log
fi
