import re
p='lean/Srtla/Lemmas/Audit2AClient.lean'
s=open(p).read()
def rep(old,new,cnt=1):
    global s
    assert s.count(old)==cnt,(s.count(old),old)
    s=s.replace(old,new)
# statements: membership -> sublist
rep("        ∀ y ∈ (Hk.probeLink fa l pkt seq now fnk).2.1, y ∈ (stallProbesGo fa pkt seq now sel ls i fn).2.1) := by",
    "        (Hk.probeLink fa l pkt seq now fnk).2.1.Sublist (stallProbesGo fa pkt seq now sel ls i fn).2.1) := by")
rep("          stallProbesGo_fnLe _ _ _ _ _ _ _, fun y hy => List.mem_append_left _ hy⟩",
    "          stallProbesGo_fnLe _ _ _ _ _ _ _, List.sublist_append_left _ _⟩")
rep("            fun y hy => List.mem_append_right _ (h6 y hy)⟩\n          rw [h3 a (fun m hm => ha m (by rw [List.take_succ_cons]; exact List.mem_cons_of_mem _ hm))]\n          exact count_of_eq_or_erase hfn (ha l0 (by rw [List.take_succ_cons]; exact List.mem_cons_self))\n\n/-! ## 3.",
    "            h6.trans (List.sublist_append_right _ _)⟩\n          rw [h3 a (fun m hm => ha m (by rw [List.take_succ_cons]; exact List.mem_cons_of_mem _ hm))]\n          exact count_of_eq_or_erase hfn (ha l0 (by rw [List.take_succ_cons]; exact List.mem_cons_self))\n\n/-! ## 3.")
# routeTo_exact
rep("      ∀ y ∈ (Hk.fwdLink s1.failAfter lsel pkt seq now s1.failNext).2.1, y ∈ (routeTo s1 sel pkt seq now probes).2.wire) ∧",
    "      (Hk.fwdLink s1.failAfter lsel pkt seq now s1.failNext).2.1.Sublist (routeTo s1 sel pkt seq now probes).2.wire) ∧")
rep("        (routeTo s1 sel pkt seq now probes).1.links[i]? = some (Hk.probeLink fa l1 pkt seq now fnk).1 ∧",
    "        (routeTo s1 sel pkt seq now probes).1.links[i]? = some (Hk.probeLink s1.failAfter l1 pkt seq now fnk).1 ∧")
rep("        ∀ y ∈ (Hk.probeLink fa l1 pkt seq now fnk).2.1, y ∈ (routeTo s1 sel pkt seq now probes).2.wire) := by",
    "        (Hk.probeLink s1.failAfter l1 pkt seq now fnk).2.1.Sublist (routeTo s1 sel pkt seq now probes).2.wire) := by")
rep("  have hf := fwdLink_fn (fa := fa) lsel pkt seq now s1.failNext", "  have hf := fwdLink_fn (fa := s1.failAfter) lsel pkt seq now s1.failNext")
rep("    refine ⟨hfle, ⟨?_, Hk.FnLe.refl _, fun y hy => hy⟩, fun i l1 hi hl1 => Or.inl ?_⟩",
    "    refine ⟨hfle, ⟨?_, Hk.FnLe.refl _, List.Sublist.refl _⟩, fun i l1 hi hl1 => Or.inl ?_⟩")
rep("      · exact ⟨h2, hple, fun y hy => List.mem_append_left _ hy⟩", "      · exact ⟨h2, hple, List.sublist_append_left _ _⟩")
rep("        refine Or.inr ⟨h1, fnk, hfle.trans h2, fun hnd => ?_, h4, h5, fun y hy => List.mem_append_right _ (h6 y hy)⟩",
    "        refine Or.inr ⟨h1, fnk, hfle.trans h2, fun hnd => ?_, h4, h5, h6.trans (List.sublist_append_right _ _)⟩")
# client_exact
rep("        ∀ y ∈ (Hk.fwdLink s.failAfter l1 pkt (Codec.getSrtSequenceNumberS pkt) now s.failNext).2.1,\n          y ∈ (handleSrtPacket s pkt now).2.wire) ∨",
    "        (Hk.fwdLink s.failAfter l1 pkt (Codec.getSrtSequenceNumberS pkt) now s.failNext).2.1.Sublist\n          (handleSrtPacket s pkt now).2.wire) ∨")
rep("            some (Hk.probeLink fa l1 pkt (Codec.getSrtSequenceNumberS pkt) now fnk).1 ∧\n          Hk.FnLe (Hk.probeLink fa l1 pkt (Codec.getSrtSequenceNumberS pkt) now fnk).2.2\n            (handleSrtPacket s pkt now).1.failNext ∧\n          ∀ y ∈ (Hk.probeLink fa l1 pkt (Codec.getSrtSequenceNumberS pkt) now fnk).2.1,\n            y ∈ (handleSrtPacket s pkt now).2.wire) := by",
    "            some (Hk.probeLink s.failAfter l1 pkt (Codec.getSrtSequenceNumberS pkt) now fnk).1 ∧\n          Hk.FnLe (Hk.probeLink s.failAfter l1 pkt (Codec.getSrtSequenceNumberS pkt) now fnk).2.2\n            (handleSrtPacket s pkt now).1.failNext ∧\n          (Hk.probeLink s.failAfter l1 pkt (Codec.getSrtSequenceNumberS pkt) now fnk).2.1.Sublist\n            (handleSrtPacket s pkt now).2.wire) := by")
rep("    have hfn : (runSelect s now).1.failNext = s.failNext := rfl\n    rw [hfn] at r1 r2 r3\n    refine ⟨r1, fun i l1 hl1 => ?_⟩",
    "    have hfn : (runSelect s now).1.failNext = s.failNext := rfl\n    have hfa : (runSelect s now).1.failAfter = s.failAfter := rfl\n    rw [hfn, hfa] at r1 r2 r3\n    refine ⟨r1, fun i l1 hl1 => ?_⟩")
# flushGo_get / flush_exact
rep("        ∀ y ∈ (sendConnectionBatch fa l now fnk).2.1, y ∈ (flushGo fa now ls fn).2.1) := by",
    "        (sendConnectionBatch fa l now fnk).2.1.Sublist (flushGo fa now ls fn).2.1) := by")
rep("        exact Or.inr ⟨hc, fn, Hk.FnLe.refl _, fun _ _ => rfl, rfl, flushGo_fnLe _ _ _,\n          fun y hy => List.mem_append_left _ hy⟩",
    "        exact Or.inr ⟨hc, fn, Hk.FnLe.refl _, fun _ _ => rfl, rfl, flushGo_fnLe _ _ _,\n          List.sublist_append_left _ _⟩")
rep("            fun y hy => List.mem_append_right _ (h6 y hy)⟩", "            h6.trans (List.sublist_append_right _ _)⟩")
rep("        (flushAllBatches s now).1.links[i]? = some (sendConnectionBatch fa l now fnk).1 ∧",
    "        (flushAllBatches s now).1.links[i]? = some (sendConnectionBatch s.failAfter l now fnk).1 ∧")
rep("        ∀ y ∈ (sendConnectionBatch fa l now fnk).2.1, y ∈ (flushAllBatches s now).2.wire)) := by",
    "        (sendConnectionBatch s.failAfter l now fnk).2.1.Sublist (flushAllBatches s now).2.wire)) := by")
open(p,'w').write(s)
