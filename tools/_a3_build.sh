#!/bin/sh
# A3 helper (temporary): build a module, auto-insert `(fa := ..)`, rebuild, show the first errors.
cd "$(dirname "$0")/../lean" || exit 1
N=${2:-120}
lake build "$1" > /tmp/a3_build.out 2>&1
if grep -q "synthesize implicit argument \`fa\`" /tmp/a3_build.out; then
  python3 ../tools/_a3_fixfa.py < /tmp/a3_build.out
  lake build "$1" > /tmp/a3_build.out 2>&1
  if grep -q "synthesize implicit argument \`fa\`" /tmp/a3_build.out; then
    python3 ../tools/_a3_fixfa.py < /tmp/a3_build.out
    lake build "$1" > /tmp/a3_build.out 2>&1
  fi
fi
grep "^error" -A30 /tmp/a3_build.out | head -"$N"
tail -1 /tmp/a3_build.out
