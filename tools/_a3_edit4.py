p='lean/Srtla/Lemmas/RunLevelGhost.lean'
s=open(p).read()
def rep(old,new,cnt=1):
    global s
    assert s.count(old)==cnt,(s.count(old),old)
    s=s.replace(old,new)
rep('''  else if dataWire ev (step s ev).2 (connIdOf s i) = bytesOf q then { b with queued := [], wire := b.wire ++ all }
  else { b with queued := [], lost := b.lost ++ all.map fun x => (k, x) }''',
'''  else if dataWire ev (step s ev).2 (connIdOf s i) = bytesOf q then { b with queued := [], wire := b.wire ++ all }
  else
    -- discarded, after the first `n` copies went out (a send that failed part-way; `n = 0`: nothing went out)
    let n := (dataWire ev (step s ev).2 (connIdOf s i)).length
    { b with queued := [], wire := b.wire ++ all.take n, lost := b.lost ++ (all.drop n).map fun x => (k, x) }''')
rep('''link's socket is exactly that content (*sent*); otherwise the content was *discarded*. -/''',
'''link's socket is exactly that content (*sent*); otherwise the content was *discarded* - after the first `n` copies
of it went on the socket (`n` = what the event put there: a send that failed part-way; `n = 0` for a reset or a send
that failed before anything went out): those `n` are filed under `wire`, the rest under `lost`. -/''')
rep('''       (stepBins s ev k tag i b =
            { b with queued := [], lost := b.lost ++ (b.queued ++ newCopies s ev tag i).map fun x => (k, x) } ∧
          l'.queue = [] ∧ dataWire ev (step s ev).2 l.core.connId = [] ∧ LossCause s ev i l l')) := by''',
'''       (∃ n, stepBins s ev k tag i b =
            { b with queued := [], wire := b.wire ++ (b.queued ++ newCopies s ev tag i).take n,
                     lost := b.lost ++ ((b.queued ++ newCopies s ev tag i).drop n).map fun x => (k, x) } ∧
          l'.queue = [] ∧
          dataWire ev (step s ev).2 l.core.connId = (bytesOf (l.queue ++ appended s ev i)).take n ∧
          LossCause s ev i l l')) := by''')
rep('''  · by_cases hq : l.queue ++ appended s ev i = []
    · left
      rw [if_pos (by rw [g.1, hq])]
      exact ⟨rfl, by rw [g.1, hq], g.2.1⟩
    · right; right
      have hb : ¬ ([] : List Bytes) = bytesOf (l.queue ++ appended s ev i) := by
        intro h
        apply hq
        have := congrArg List.length h
        simp only [bytesOf, List.length_map, List.length_nil] at this
        exact List.eq_nil_of_length_eq_zero this.symm
      rw [if_neg (by rw [g.1]; exact fun h => hq h.symm), g.2.1, if_neg hb]
      exact ⟨rfl, g.1, rfl, g.2.2⟩''',
'''  · obtain ⟨gq, ⟨k0, gk⟩, gc⟩ := g
    by_cases hq : l.queue ++ appended s ev i = []
    · left
      rw [if_pos (by rw [gq, hq])]
      exact ⟨rfl, by rw [gq, hq], by rw [gk, hq]; simp⟩
    · by_cases hfull : dataWire ev (step s ev).2 l.core.connId = bytesOf (l.queue ++ appended s ev i)
      · right; left
        rw [if_neg (by rw [gq]; exact fun h => hq h.symm), if_pos hfull]
        exact ⟨rfl, gq, hfull⟩
      · right; right
        rw [if_neg (by rw [gq]; exact fun h => hq h.symm), if_neg hfull]
        refine ⟨_, rfl, gq, ?_, gc⟩
        rw [gk, List.length_take]
        by_cases hk0 : k0 ≤ (bytesOf (l.queue ++ appended s ev i)).length
        · rw [Nat.min_eq_left hk0]
        · rw [Nat.min_eq_right (by omega), List.take_length, List.take_of_length_le (by omega)]''')
rep('''theorem stepBins_all_eq (s : Sys F) (ev : Ev) (k tag i : Nat) (b : Bins) :
    (stepBins s ev k tag i b).all = b.wire ++ b.queued ++ newCopies s ev tag i ++ b.lost.map (·.2) ∨
    (stepBins s ev k tag i b).all = b.wire ++ b.lost.map (·.2) ++ (b.queued ++ newCopies s ev tag i) := by
  unfold stepBins
  dsimp only
  split
  · left; simp only [Bins.all, List.append_assoc]
  · split
    · left; simp only [Bins.all, List.append_assoc, List.append_nil]
    · right; simp only [Bins.all, List.append_nil, List.map_append, map_snd_pair, List.append_assoc]

theorem stepBins_all_count (s : Sys F) (ev : Ev) (k tag i : Nat) (b : Bins) (p : GItem → Bool) :
    (stepBins s ev k tag i b).all.countP p = b.all.countP p + (newCopies s ev tag i).countP p := by
  rcases stepBins_all_eq s ev k tag i b with h | h <;> rw [h] <;>
    simp only [Bins.all, List.countP_append] <;> omega

theorem mem_stepBins_all (s : Sys F) (ev : Ev) (k tag i : Nat) (b : Bins) (x : GItem) :
    x ∈ (stepBins s ev k tag i b).all ↔ x ∈ b.all ∨ x ∈ newCopies s ev tag i := by
  rcases stepBins_all_eq s ev k tag i b with h | h <;> rw [h] <;>
    simp only [Bins.all, List.mem_append] <;> grind''',
'''theorem stepBins_all_eq (s : Sys F) (ev : Ev) (k tag i : Nat) (b : Bins) :
    (stepBins s ev k tag i b).all = b.wire ++ b.queued ++ newCopies s ev tag i ++ b.lost.map (·.2) ∨
    ∃ n, (stepBins s ev k tag i b).all =
      b.wire ++ (b.queued ++ newCopies s ev tag i).take n ++ b.lost.map (·.2) ++
        (b.queued ++ newCopies s ev tag i).drop n := by
  unfold stepBins
  dsimp only
  split
  · left; simp only [Bins.all, List.append_assoc]
  · split
    · left; simp only [Bins.all, List.append_assoc, List.append_nil]
    · right
      exact ⟨_, by simp only [Bins.all, List.append_nil, List.map_append, map_snd_pair, List.append_assoc]⟩

theorem countP_take_drop {α : Type} (p : α → Bool) (n : Nat) (xs : List α) :
    (xs.take n).countP p + (xs.drop n).countP p = xs.countP p := by
  rw [← List.countP_append, List.take_append_drop]

theorem stepBins_all_count (s : Sys F) (ev : Ev) (k tag i : Nat) (b : Bins) (p : GItem → Bool) :
    (stepBins s ev k tag i b).all.countP p = b.all.countP p + (newCopies s ev tag i).countP p := by
  rcases stepBins_all_eq s ev k tag i b with h | ⟨n, h⟩
  · rw [h]; simp only [Bins.all, List.countP_append]; omega
  · rw [h]
    have := countP_take_drop p n (b.queued ++ newCopies s ev tag i)
    simp only [Bins.all, List.countP_append] at this ⊢
    omega

theorem mem_stepBins_all (s : Sys F) (ev : Ev) (k tag i : Nat) (b : Bins) (x : GItem) :
    x ∈ (stepBins s ev k tag i b).all ↔ x ∈ b.all ∨ x ∈ newCopies s ev tag i := by
  rcases stepBins_all_eq s ev k tag i b with h | ⟨n, h⟩
  · rw [h]; simp only [Bins.all, List.mem_append]; grind
  · rw [h]
    have hx : x ∈ (b.queued ++ newCopies s ev tag i).take n ∨ x ∈ (b.queued ++ newCopies s ev tag i).drop n ↔
        x ∈ b.queued ∨ x ∈ newCopies s ev tag i := by
      rw [← List.mem_append, List.take_append_drop, List.mem_append]
    simp only [Bins.all, List.mem_append] at hx ⊢
    grind''')
# BinOk.step sorted
rep('''      · rw [List.append_nil]
        exact (List.pairwise_append.1 h.sorted).1
  · intro x hx
    rcases (mem_stepBins_all _ _ _ _ _ _ _).1 hx with hx | hx
    · exact List.mem_append_left _ (h.bytes x hx)''',
'''      · rw [List.append_nil]
        refine hs.sublist ?_
        rw [List.append_assoc]
        exact (List.take_sublist _ _).append_left _
  · intro x hx
    rcases (mem_stepBins_all _ _ _ _ _ _ _).1 hx with hx | hx
    · exact List.mem_append_left _ (h.bytes x hx)''')
# alignment
rep('''      rcases hc with ⟨e, q, -⟩ | ⟨e, q, -⟩ | ⟨e, q, -⟩
      · rw [e, q, List.map_append, hal, newCopies_items]
      · rw [e, q]; rfl
      · rw [e, q]; rfl''',
'''      rcases hc with ⟨e, q, -⟩ | ⟨e, q, -⟩ | ⟨n, e, q, -⟩
      · rw [e, q, List.map_append, hal, newCopies_items]
      · rw [e, q]; rfl
      · rw [e, q]; rfl''')
# runG_wire
rep('''    rcases hc with ⟨e, -, w⟩ | ⟨e, -, w⟩ | ⟨e, -, w, -⟩
    · rw [e, w]; simp
    · rw [e, w, List.map_append, bytes_of_items (b.queued ++ _), List.map_append, hal, newCopies_items]
    · rw [e, w]; simp''',
'''    rcases hc with ⟨e, -, w⟩ | ⟨e, -, w⟩ | ⟨n, e, -, w, -⟩
    · rw [e, w]; simp
    · rw [e, w, List.map_append, bytes_of_items (b.queued ++ _), List.map_append, hal, newCopies_items]
    · rw [e, w, List.map_append, List.map_take, bytes_of_items (b.queued ++ _), List.map_append, hal,
        newCopies_items]
      simp [bytesOf]''')
# runG_lost
rep('''    rcases hc with ⟨e, -, -⟩ | ⟨e, -, -⟩ | ⟨e, -, -, hcause⟩
    · exact ⟨extra1, by rw [e1, e], hshift⟩
    · exact ⟨extra1, by rw [e1, e], hshift⟩
    · refine ⟨(b.queued ++ newCopies g.sys ev g.next i).map (fun x => (g.clock, x)) ++ extra1,
        by rw [e1, e, List.append_assoc], ?_⟩''',
'''    rcases hc with ⟨e, -, -⟩ | ⟨e, -, -⟩ | ⟨n, e, -, -, hcause⟩
    · exact ⟨extra1, by rw [e1, e], hshift⟩
    · exact ⟨extra1, by rw [e1, e], hshift⟩
    · refine ⟨((b.queued ++ newCopies g.sys ev g.next i).drop n).map (fun x => (g.clock, x)) ++ extra1,
        by rw [e1, e, List.append_assoc], ?_⟩''')
open(p,'w').write(s)
