p='lean/Srtla/Lemmas/RunLevelGhostReload.lean'
s=open(p).read()
def rep(old,new,cnt=1):
    global s
    assert s.count(old)==cnt,(s.count(old),old)
    s=s.replace(old,new)
rep('''      rcases hc with ⟨e, q, -⟩ | ⟨e, q, -⟩ | ⟨e, q, -⟩
      · rw [e, q, List.map_append, hal, newCopies_items]
      · rw [e, q]; rfl
      · rw [e, q]; rfl''','''      rcases hc with ⟨e, q, -⟩ | ⟨e, q, -⟩ | ⟨n, e, q, -⟩
      · rw [e, q, List.map_append, hal, newCopies_items]
      · rw [e, q]; rfl
      · rw [e, q]; rfl''')
rep('''           ((stepBins r.g.sys ev r.g.clock r.g.next i b).lost =
              b.lost ++ (b.queued ++ newCopies r.g.sys ev r.g.next i).map (fun x => (r.g.clock, x)) ∧
            LossCause r.g.sys ev i l l')) := by''','''           (∃ n, (stepBins r.g.sys ev r.g.clock r.g.next i b).lost =
              b.lost ++ ((b.queued ++ newCopies r.g.sys ev r.g.next i).drop n).map (fun x => (r.g.clock, x)) ∧
            LossCause r.g.sys ev i l l')) := by''')
rep('''      · rcases hc with ⟨e, -, w⟩ | ⟨e, -, w⟩ | ⟨e, -, w, -⟩
        · rw [e, w]; simp
        · rw [e, w, List.map_append, bytes_of_items (b.queued ++ _), List.map_append, hal, newCopies_items]
        · rw [e, w]; simp
      · rcases hc with ⟨e, -, -⟩ | ⟨e, -, -⟩ | ⟨e, -, -, hcause⟩
        · exact .inl (by rw [e])
        · exact .inl (by rw [e])
        · exact .inr ⟨by rw [e], hcause⟩''','''      · rcases hc with ⟨e, -, w⟩ | ⟨e, -, w⟩ | ⟨n, e, -, w, -⟩
        · rw [e, w]; simp
        · rw [e, w, List.map_append, bytes_of_items (b.queued ++ _), List.map_append, hal, newCopies_items]
        · rw [e, w, List.map_append, List.map_take, bytes_of_items (b.queued ++ _), List.map_append, hal,
            newCopies_items]
      · rcases hc with ⟨e, -, -⟩ | ⟨e, -, -⟩ | ⟨n, e, -, -, hcause⟩
        · exact .inl (by rw [e])
        · exact .inl (by rw [e])
        · exact .inr ⟨n, by rw [e], hcause⟩''')
rep('''      rcases q5 with e | ⟨e, hcause⟩
      · rw [e] at hkx; exact (hold kx hkx).mono _''','''      rcases q5 with e | ⟨n, e, hcause⟩
      · rw [e] at hkx; exact (hold kx hkx).mono _''')
open(p,'w').write(s)
