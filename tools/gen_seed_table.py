#!/usr/bin/env python3
"""Regenerate DESIGN.md section 11 (which checks catch which seeded / self-made changes) from
seeded/*/meta.json and seeded/self_made_mutations.json.  Text between the markers is replaced."""
import glob, json, os, re
ROOT = os.path.dirname(os.path.dirname(os.path.abspath(__file__)))
BEGIN, END = "<!-- BEGIN GENERATED SEED TABLE -->", "<!-- END GENERATED SEED TABLE -->"

def short(s, n=230):
    s = " ".join(str(s).split())
    return s if len(s) <= n else s[: n - 1] + "…"

def result_text(v):
    if isinstance(v, dict):
        return "; ".join(f"**{k}**: {short(t, 400)}" for k, t in v.items())
    return short(v, 500)

rows = []
for p in sorted(glob.glob(os.path.join(ROOT, "seeded", "C*", "meta.json"))):
    d = json.load(open(p))
    name = os.path.basename(os.path.dirname(p))
    rows.append(f"| `seeded/{name}` | {short(d.get('summary',''))} | {short(d.get('needs_to_manifest',''), 200)} | {result_text(d.get('verif_result','(not evaluated)'))} |")

muts = json.load(open(os.path.join(ROOT, "seeded", "self_made_mutations.json")))
mrows = []
n_ok = n_conc = n_total = 0
for m in muts:
    if not m.get("compiles", True):
        continue
    for prop, r in m.get("checks", {}).items():
        n_total += 1
        caught = r.get("rc") == 1
        n_ok += caught
        n_conc += bool(r.get("concrete_replay"))
        how = "concrete replay" if r.get("concrete_replay") else ("no-failing-input-found" if caught else "MISSED")
        mrows.append(f"| `{m['name']}` | `{m['file']}` | {prop} | {how} | {r.get('s','')} s |")

out = [BEGIN, "",
       "**Changes written by fresh sub-agents** (each given only the property text and a scratch worktree; kept only after",
       "`tools/confirm_seed.sh` re-confirmed: applies cleanly, demo passes without / fails with the patch, the 424-test suite",
       "passes with it). Evaluated with `tools/eval_seed.py` in a private sandbox (`tools/mk_sandbox.sh`), never in /repo.", "",
       "| change | what it does | needs to manifest | what `./check` reported |", "|---|---|---|---|"] + rows + ["",
       f"**Self-made mutations** (`tools/mutation_suite.py`, {n_total} (mutation, property) pairs that compile; {n_ok} reported, "
       f"{n_conc} with a concrete replay, the rest as a broken correspondence with `no-failing-input-found`):", "",
       "| mutation | file | property | result | time |", "|---|---|---|---|---|"] + mrows + ["", END]
path = os.path.join(ROOT, "DESIGN.md")
s = open(path).read()
block = "\n".join(out)
if BEGIN in s:
    s = re.sub(re.escape(BEGIN) + r".*?" + re.escape(END), lambda _: block, s, flags=re.S)
else:
    raise SystemExit("markers not found in DESIGN.md")
open(path, "w").write(s)
print(f"seed table: {len(rows)} seeded changes, {len(mrows)} mutation rows")
