p='lean/Srtla/Props/C08.lean'
s=open(p).read()
def rep(old,new,cnt=1):
    global s
    assert s.count(old)==cnt,(s.count(old),old)
    s=s.replace(old,new)
rep("      ((∀ t, e ≠ .hk t) ∧ (∀ c, e ≠ .failNext c) ∧ (∀ c, e ≠ .failBind c) ∧ e.isReload = false ∧",
    "      ((∀ t, e ≠ .hk t) ∧ (∀ c, e ≠ .failNext c) ∧ (∀ c k, e ≠ .failAfter c k) ∧ (∀ c, e ≠ .failBind c) ∧\n       e.isReload = false ∧")
rep("        refine ⟨fun t h => (by cases h), fun c h => (by cases h), fun c h => (by cases h), rfl, ?_⟩",
    "        refine ⟨fun t h => (by cases h), fun c h => (by cases h), fun c k h => (by cases h), fun c h => (by cases h),\n          rfl, ?_⟩")
open(p,'w').write(s)
