#!/bin/bash
# usage: run_batch.sh "C02 C05 ..."   confirm each round-3 seed (worktrees /tmp/seed3/Cxx -> seeded/Cxx-3), then evaluate in sandbox /tmp/mut2
# (sandbox /verif = committed HEAD over a copy of the working tree, so agents' half-done edits are not used)
cd /verif
for p in $1; do
  echo "=== confirm $p"
  tools/confirm_seed.sh /tmp/seed3/$p $p-3 --features test-internals,verif-hooks 2>&1 | tail -2
done
tools/mk_sandbox.sh /tmp/mut2 >/dev/null 2>&1
git -C /verif archive HEAD | tar -x -C /tmp/mut2/verif
sed -i "s#path = \"/repo#path = \"/tmp/mut2/repo#g" /tmp/mut2/verif/harness/Cargo.toml
for p in $1; do
  if [ -f /verif/seeded/$p-3/patch.diff ]; then
    echo "=== eval $p"
    python3 tools/eval_seed.py /tmp/mut2 /verif/seeded/$p-3/patch.diff $p 2>&1 | tail -1
  fi
done
