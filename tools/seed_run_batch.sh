#!/bin/bash
# usage: tools/seed_run_batch.sh <round> "C02 C05 ..."   confirm each seed delivered in /tmp/seed<round>/Cxx, store it as
# seeded/Cxx-<round>, then evaluate it in the private sandbox /tmp/mut<round> (worktree of /repo + committed /verif HEAD)
R=$1; shift
cd /verif
for p in $1; do
  echo "=== confirm $p"
  tools/confirm_seed.sh /tmp/seed$R/$p $p-$R --features test-internals,verif-hooks 2>&1 | tail -2
done
S=/tmp/mut$R
mkdir -p $S
[ -d $S/repo ] || git -C /repo worktree add --detach $S/repo HEAD >/dev/null 2>&1
mkdir -p $S/verif
rsync -a --delete --exclude out --exclude .git --exclude .claude --exclude harness/target /verif/ $S/verif/
git -C /verif archive ${VERIF_COMMIT:-HEAD} | tar -x -C $S/verif
sed -i "s#path = \"/repo#path = \"$S/repo#g" $S/verif/harness/Cargo.toml
for p in $1; do
  if [ -f /verif/seeded/$p-$R/patch.diff ]; then
    echo "=== eval $p"
    python3 tools/eval_seed.py $S /verif/seeded/$p-$R/patch.diff $p 2>&1 | tail -1
  fi
done
