p='lean/Srtla/Lemmas/ForwardStep.lean'
s=open(p).read()
def rep(old,new,cnt=1):
    global s
    assert s.count(old)==cnt,(s.count(old),old)
    s=s.replace(old,new)
rep('''/-- Strengthen the cause of a `LinkFx`: the new cause has to be shown only when something really vanished
(the queue with the appended items was non-empty, is empty now, and nothing went on the wire) — a "discard" of
nothing is a "held". -/
theorem LinkFx.strengthen {c1 c2 : Prop} {app : List QItem} {l l' : FLink F} {b : List Bytes}
    (h : LinkFx c1 app l l' b) (hc : l.queue ++ app ≠ [] → l'.queue = [] → b = [] → c1 → c2) :
    LinkFx c2 app l l' b := by
  obtain ⟨h1, h2 | h2 | h2⟩ := h
  · exact ⟨h1, Or.inl h2⟩
  · exact ⟨h1, Or.inr (Or.inl h2)⟩
  · by_cases hq : l.queue ++ app = []
    · exact ⟨h1, Or.inl ⟨by rw [h2.1, hq], h2.2.1, Or.inl (List.append_eq_nil_iff.1 hq).2⟩⟩
    · exact ⟨h1, Or.inr (Or.inr ⟨h2.1, h2.2.1, hc hq h2.1 h2.2.1 h2.2.2⟩)⟩
''','''/-- A prefix that is not shorter than the list is the list. -/
theorem take_eq_self_of_length_ge {α : Type} (k : Nat) (xs : List α) (h : ¬ (xs.take k).length < xs.length) :
    xs.take k = xs := by
  rw [List.length_take] at h
  exact List.take_of_length_le (by omega)

/-- Strengthen the cause of a `LinkFx`: the new cause has to be shown only when something really vanished
(the queue with the appended items was non-empty, is empty now, and FEWER datagrams went on the wire than it
held - nothing, or a proper prefix) — a "discard" of nothing is a "held", a "discard" after the whole queue went
out (a send that reported failure after the last datagram) is a "sent". -/
theorem LinkFx.strengthen {c1 c2 : Prop} {app : List QItem} {l l' : FLink F} {b : List Bytes}
    (h : LinkFx c1 app l l' b)
    (hc : l.queue ++ app ≠ [] → l'.queue = [] → b.length < (l.queue ++ app).length → c1 → c2) :
    LinkFx c2 app l l' b := by
  obtain ⟨h1, h2 | h2 | h2⟩ := h
  · exact ⟨h1, Or.inl h2⟩
  · exact ⟨h1, Or.inr (Or.inl h2)⟩
  · obtain ⟨hq', ⟨k, hk⟩, hcause⟩ := h2
    by_cases hq : l.queue ++ app = []
    · refine ⟨h1, Or.inl ⟨by rw [hq', hq], ?_, Or.inl (List.append_eq_nil_iff.1 hq).2⟩⟩
      rw [hk, hq]; simp
    · by_cases hlen : b.length < (l.queue ++ app).length
      · exact ⟨h1, Or.inr (Or.inr ⟨hq', ⟨k, hk⟩, hc hq hq' hlen hcause⟩)⟩
      · refine ⟨h1, Or.inr (Or.inl ⟨hq', ?_⟩)⟩
        rw [hk]
        apply take_eq_self_of_length_ge
        rw [← hk]
        simpa [bytesOf] using hlen
''')
rep('''  · exact Or.inr (Or.inr ⟨h.1, rfl, h.2⟩)

/-- **Master theorem**''','''  · exact Or.inr (Or.inr ⟨h.1, ⟨0, rfl⟩, h.2⟩)

/-- **Master theorem**''')
rep('''        ⟨hc, flush_consumed s now i l hl (by simpa [appended] using hne) hw⟩''',
    '''        ⟨hc, flush_consumed s now i l hl (by simpa [appended] using hne) (by simpa [appended] using hw)⟩''')
rep('''held, or put on the wire whole, in order, byte for byte (`dataWire` for its conn id), or discarded
with a `LossCause`;''','''held, or put on the wire whole, in order, byte for byte (`dataWire` for its conn id), or discarded
with a `LossCause` after at most a proper prefix of it went on the wire;''')
open(p,'w').write(s)
