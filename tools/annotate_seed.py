#!/usr/bin/env python3
"""tools/annotate_seed.py <seeded-name> <round> <props evaluated> <verif_result text>
Records in seeded/<name>/meta.json what the main session ran to confirm the change and what ./check reported."""
import json, os, subprocess, sys
root = os.path.dirname(os.path.dirname(os.path.abspath(__file__)))
name, rnd, props, res = sys.argv[1], int(sys.argv[2]), sys.argv[3], sys.argv[4]
p = os.path.join(root, "seeded", name, "meta.json")
m = json.load(open(p))
head = subprocess.run(["git", "-C", root, "rev-parse", "--short", "HEAD"], capture_output=True, text=True).stdout.strip()
m["round"] = rnd
m["confirmed_by_main_session"] = True
m["what_i_ran"] = [
    f"tools/confirm_seed.sh /tmp/seed{rnd}/{name[:3]} {name} --features test-internals,verif-hooks (patch applies to the clean tree; demo passes without the patch, fails with it; the 424-test suite passes with it)",
    f"tools/eval_seed.py /tmp/mut2 seeded/{name}/patch.diff {props} (private worktree of /repo + copy of /verif at {head}; ./check <prop> quick)",
]
m["verif_result"] = res
json.dump(m, open(p, "w"), indent=1)
print("annotated", p)
