#!/bin/bash
# every thorough check once, three at a time: tools/thorough_par.sh [props...]
ROOT=$(cd "$(dirname "$0")/.." && pwd)
PROPS=${@:-$(ls $ROOT/tools/props | sed 's/.json//')}
$ROOT/check --setup > /dev/null 2>&1
one() {
  p=$1; t0=$(date +%s)
  out=$("$2/check" $p thorough 2>&1); rc=$?
  echo "$p thorough rc=$rc $(( $(date +%s) - t0 ))s $(echo "$out" | grep -E 'VIOLATION|KNOWN|thorough:' | head -3 | tr '\n' ' ')"
}
export -f one
echo $PROPS | tr ' ' '\n' | xargs -P 2 -I{} bash -c "one {} $ROOT"
