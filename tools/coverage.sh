#!/bin/bash
# Which lines of /repo does the correspondence actually execute?  (one-off measurement, not a check)
#   tools/coverage.sh [scratch-dir]        default scratch dir: /tmp/verif-cov (removed at the end)
# Builds the harness with `-C instrument-coverage` on the nightly toolchain (it ships llvm-cov /
# llvm-profdata) in an out-of-tree target directory, runs every component the way the quick tier
# does (seed 1), merges the profiles and prints llvm-cov's per-file report for /repo plus the
# uncovered non-logging lines of the shell and core files.  The result was used to find generator
# blind spots (DESIGN.md section 13.3); nothing here is evidence for a property.
set -e
ROOT=$(cd "$(dirname "$0")/.." && pwd)
REPO=${VERIF_REPO:-/repo}
D=${1:-/tmp/verif-cov}
B=$(ls -d ~/.rustup/toolchains/nightly-x86_64-unknown-linux-gnu/lib/rustlib/x86_64-unknown-linux-gnu/bin 2>/dev/null | head -1)
[ -x "$B/llvm-cov" ] || { echo "nightly llvm-tools not found"; exit 2; }
mkdir -p "$D/prof" "$D/out"
# (build scripts and proc macros are instrumented too: their profiles go to the scratch dir, not into /repo)
(cd "$ROOT/harness" && LLVM_PROFILE_FILE="$D/build-%p-%m.profraw" CARGO_TARGET_DIR="$D/target" RUSTFLAGS="-C instrument-coverage" CARGO_NET_OFFLINE=true \
   cargo +nightly build --offline >"$D/build.log" 2>&1) || { tail -20 "$D/build.log"; exit 2; }
for c in "sys 120" "conn 1500" "sel 1200" "reg 112944" "codec 2500" "linkcc 6000" "classifier 5000" "control 4000" "reload 10000" "hub 20000" "e2e 48"; do
  set -- $c
  ( LLVM_PROFILE_FILE="$D/prof/$1-%p-%m.profraw" timeout 1800 "$D/target/debug/$1" run --seed 1 --cases "$2" --tier quick --out "$D/out/$1" >"$D/out/$1.log" 2>&1; echo "$1 rc=$?" ) &
done
wait
"$B/llvm-profdata" merge -sparse "$D"/prof/*.profraw -o "$D/all.profdata"
OBJS=""; for c in sys conn sel reg codec linkcc classifier control reload hub e2e; do OBJS="$OBJS -object $D/target/debug/$c"; done
"$B/llvm-cov" report $OBJS -instr-profile="$D/all.profdata" --ignore-filename-regex='(\.cargo|rustc|/verif/|rustup)' 2>/dev/null
for f in src/sender/packet_handler.rs src/sender/housekeeping.rs src/sender/uplink_recv.rs src/sender/connections.rs src/sender/sequence.rs \
         crates/srtla-core/src/priority.rs crates/srtla-core/src/selection/enhanced.rs crates/srtla-core/src/registration/mod.rs \
         crates/srtla-core/src/registration/probing.rs crates/srtla-core/src/connection/mod.rs crates/srtla-core/src/connection/rtt.rs \
         crates/srtla-core/src/connection/batch_send.rs; do
  echo "=== uncovered, not logging: $f"
  "$B/llvm-cov" show $OBJS -instr-profile="$D/all.profdata" --sources "$REPO/$f" 2>/dev/null \
    | grep -E "^ +[0-9]+\| +0\|" | grep -v "debug!\|trace!\|warn!\|info!\|error!\|^ *[0-9]*| *0| *[\"})]" || true
done
rm -rf "$D"
