#!/bin/bash
# every thorough check once, sequentially (long): tools/thorough_all.sh [props...]
ROOT=$(cd "$(dirname "$0")/.." && pwd)
PROPS=${@:-$(ls $ROOT/tools/props | sed 's/.json//')}
$ROOT/check --setup > /dev/null 2>&1
for p in $PROPS; do
  t0=$(date +%s)
  out=$($ROOT/check $p thorough 2>&1); rc=$?
  echo "$p thorough rc=$rc $(( $(date +%s) - t0 ))s $(echo "$out" | grep -E 'VIOLATION|KNOWN|thorough:' | head -3 | tr '\n' ' ')"
done
