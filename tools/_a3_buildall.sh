#!/bin/sh
# A3 helper (temporary): build every property module + the extra modules, with the (fa := ..) auto-fixer.
cd "$(dirname "$0")/../lean" || exit 1
MODS="Srtla.Props.C01 Srtla.Props.C02 Srtla.Props.C03 Srtla.Props.C04 Srtla.Props.C05 Srtla.Props.C06 Srtla.Props.C07 Srtla.Props.C08 Srtla.Props.C09 Srtla.Props.C10 Srtla.Props.C11 Srtla.Props.C12 Srtla.Props.C13 Srtla.Props.C14 Srtla.Props.C15 Srtla.Props.C16 Srtla.Props.C17 Srtla.Props.C18 Srtla.Props.C19 Srtla.Props.C20 Srtla.Props.SysLevel Srtla.Props.SysReload"
for i in 1 2 3; do
  lake build $MODS > /tmp/a3_build.out 2>&1
  if grep -q "synthesize implicit argument \`fa\`" /tmp/a3_build.out; then
    python3 ../tools/_a3_fixfa.py < /tmp/a3_build.out
  else
    break
  fi
done
grep "^error" -A25 /tmp/a3_build.out | head -"${1:-150}"
tail -2 /tmp/a3_build.out
