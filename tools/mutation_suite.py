#!/usr/bin/env python3
"""Self-made mutation suite: applies small realistic edits to a SANDBOX copy of /repo and runs
the checks that should notice.  Never touches /repo.

  tools/mutation_suite.py <sandbox-dir> [name-filter]

The sandbox is created with tools/mk_sandbox.sh.  Results: <sandbox>/mutation_results.json
"""
import json
import os
import subprocess
import sys
import time

M = [
    # (name, file, old, new, [properties expected to fail])
    ("c15-ack-guard-19", "crates/srtla-protocol/src/parsers.rs", "    if buf.len() < 20 {", "    if buf.len() < 19 {", ["C15"]),
    ("c15-nak-limit-2000", "crates/srtla-protocol/src/parsers.rs", "while seq <= end && out.len() < 1000 {", "while seq <= end && out.len() < 2000 {", ["C15"]),
    ("c15-retransmit-bit", "crates/srtla-protocol/src/types.rs", "(buf[4] & 0x04) != 0", "(buf[4] & 0x08) != 0", ["C15"]),
    ("c15-ka-field-swap", "crates/srtla-protocol/src/builders.rs", "pkt[18..22].copy_from_slice(&info.window.to_be_bytes());\n    pkt[22..26].copy_from_slice(&info.in_flight.to_be_bytes());", "pkt[18..22].copy_from_slice(&info.in_flight.to_be_bytes());\n    pkt[22..26].copy_from_slice(&info.window.to_be_bytes());", ["C15", "C14"]),
    ("c06-window-max-70", "crates/srtla-protocol/src/constants.rs", "pub const WINDOW_MAX: i32 = 60;", "pub const WINDOW_MAX: i32 = 70;", ["C06"]),
    ("c06-nak-floor-missing", "crates/srtla-core/src/connection/congestion/mod.rs", "*window = (*window - WINDOW_DECR).max(WINDOW_MIN * WINDOW_MULT);", "*window = (*window - WINDOW_DECR).max(0);", ["C06", "C05"]),
    ("c06-fast-recovery-enter-3000", "crates/srtla-core/src/connection/congestion/mod.rs", "if *window <= 2000 && !self.fast_recovery_mode {", "if *window <= 3000 && !self.fast_recovery_mode {", ["C06"]),
    ("c06-global-uncapped", "crates/srtla-core/src/connection/ack_nak.rs", "self.window = min(self.window + 1, WINDOW_MAX * WINDOW_MULT);", "self.window += 1;", ["C06"]),
    ("c02-revert-highwater-fix", "crates/srtla-core/src/connection/ack_nak.rs", "        if seq <= self.highest_acked_seq {\n            self.highest_acked_seq = i32::MIN;\n        }\n", "", ["C02"]),
    ("c02-fast-path-off-by-one", "crates/srtla-core/src/connection/ack_nak.rs", "for seq in (old_highest + 1)..=ack {", "for seq in (old_highest + 1)..ack {", ["C02"]),
    ("c02-nak-keeps-inflight", "crates/srtla-core/src/connection/ack_nak.rs", "        let found = self.packet_log.remove(&seq).is_some();\n        if found {\n            self.in_flight_packets = self.packet_log.len() as i32;\n            self.congestion\n", "        let found = self.packet_log.remove(&seq).is_some();\n        if found {\n            self.congestion\n", ["C02", "C05"]),
    ("c05-tracker-fallthrough", "src/sender/packet_handler.rs", "        return connections[pos]\n            .handle_nak(nak as i32, current_time_ms)\n            .then_some(pos);", "        if connections[pos].handle_nak(nak as i32, current_time_ms) {\n            return Some(pos);\n        }", ["C05"]),
    ("c05-tracker-age-6000", "src/sender/sequence.rs", "pub const SEQUENCE_TRACKING_MAX_AGE_MS: u64 = 5000;", "pub const SEQUENCE_TRACKING_MAX_AGE_MS: u64 = 6000;", ["C05"]),
    ("c03-revert-connected-healthy", "crates/srtla-core/src/selection/mod.rs", "        c.connected\n            && !c.is_timed_out(current_time_ms)\n            && c.is_schedulable()\n            && !c.stall_latched()", "        !c.is_timed_out(current_time_ms)\n            && c.is_schedulable()\n            && !c.stall_latched()", ["C03"]),
    ("c04-override-ignores-gate", "crates/srtla-core/src/priority.rs", "            || conn.is_timed_out(now_ms)\n            || conn.is_stall_gated()\n", "            || conn.is_timed_out(now_ms)\n", ["C04"]),
    ("c04-classic-ignores-gate", "crates/srtla-core/src/selection/classic.rs", "if c.is_timed_out(now_ms) || !c.is_schedulable() || c.stall_gated {", "if c.is_timed_out(now_ms) || !c.is_schedulable() {", ["C04", "C12"]),
    ("c11-hysteresis-5pct", "crates/srtla-core/src/selection/enhanced.rs", "const SWITCH_THRESHOLD: f64 = 1.10;", "const SWITCH_THRESHOLD: f64 = 1.05;", ["C11"]),
    ("c11-gated-penalty-20pct", "crates/srtla-core/src/selection/enhanced.rs", "const GATED_LINK_PENALTY: f64 = 0.02;", "const GATED_LINK_PENALTY: f64 = 0.2;", ["C11"]),
    ("c12-select-stamps-last-sent", "crates/srtla-core/src/selection/mod.rs", "    for c in conns.iter_mut() {\n        c.conn_timeout_ms = config.conn_timeout_ms;\n    }", "    for c in conns.iter_mut() {\n        c.conn_timeout_ms = config.conn_timeout_ms;\n        if c.stall_latched() {\n            c.last_received = None;\n        }\n    }", ["C12"]),
    ("c12-off-keeps-latch", "crates/srtla-core/src/selection/mod.rs", "            c.silence_pulled = false;\n            c.clear_stall_latch();", "            c.silence_pulled = false;", ["C12"]),
    ("c13-dwell-1x", "crates/srtla-core/src/config_snapshot.rs", "pub const STALL_REJOIN_DWELL_MULT: u64 = 2;", "pub const STALL_REJOIN_DWELL_MULT: u64 = 1;", ["C13"]),
    ("c13-latch-without-proof", "crates/srtla-core/src/connection/mod.rs", "            && self.in_flight_packets >= min_in_flight\n            && self.last_ack_or_rtt_sample_ms != 0\n            && now_ms", "            && self.in_flight_packets >= min_in_flight\n            && now_ms", ["C13"]),
    ("c13-revert-pull-fix", "crates/srtla-core/src/connection/mod.rs", "        let spoke = self.last_received != self.silence_pull_heard_mark\n            && self\n                .last_received\n                .is_some_and(|lr| now_ms.saturating_sub(lr) < window);", "        let spoke = self\n            .last_received\n            .is_some_and(|lr| now_ms.saturating_sub(lr) < window);", ["C13"]),
    ("c10-revert-classic-override", "src/sender/packet_handler.rs", "                && !config_snap.mode.is_classic()\n", "", ["C10"]),
    ("c10-classic-recovery", "src/sender/housekeeping.rs", "        if !classic {\n            conn.perform_window_recovery(current_ms);\n        }", "        conn.perform_window_recovery(current_ms);", ["C10"]),
    ("c09-nak-not-forwarded", "src/sender/uplink_recv.rs", "            incoming\n                .forward_to_client\n                .push(SmallVec::from_slice_copy(data));\n        } else if pt == SRTLA_TYPE_ACK {", "        } else if pt == SRTLA_TYPE_ACK {", ["C09"]),
    ("c09-keepalive-always-proof", "src/sender/uplink_recv.rs", "            if conn\n                .rtt\n                .handle_keepalive_response(data, &conn.label, now)\n                .is_some()\n            {", "            let _ = conn.rtt.handle_keepalive_response(data, &conn.label, now);\n            {", ["C09"]),
    ("c14-keepalive-2s", "crates/srtla-protocol/src/constants.rs", "pub const IDLE_TIME: u64 = 1; // sec", "pub const IDLE_TIME: u64 = 2; // sec", ["C14"]),
    ("c14-sample-20s", "crates/srtla-core/src/connection/rtt.rs", "if rtt > 0 && rtt <= 10_000 {", "if rtt > 0 && rtt <= 20_000 {", ["C14"]),
    ("c01-probe-tracked", "src/sender/packet_handler.rs", "        let needs_flush = conn.queue_data_packet(pkt, seq, packet_time_ms);\n        if needs_flush\n            && let Some(io) = conn_io.get(&conn.conn_id)", "        let needs_flush = conn.queue_data_packet(pkt, seq, packet_time_ms);\n        let _ = conn.queue_data_packet(pkt, seq, packet_time_ms);\n        if needs_flush\n            && let Some(io) = conn_io.get(&conn.conn_id)", ["C01"]),
    ("c01-probe-1-in-50", "crates/srtla-core/src/config_snapshot.rs", "pub const STALL_PROBE_ONE_IN_N: u32 = 100;", "pub const STALL_PROBE_ONE_IN_N: u32 = 50;", ["C01"]),
    ("c01-flush-skips-unselected", "src/sender/packet_handler.rs", "        if (conn.needs_batch_flush(now) || conn.has_queued_packets())\n", "        if conn.needs_batch_flush(now)\n", ["C01"]),
    ("c08-backoff-cap-300s", "crates/srtla-core/src/connection/reconnection.rs", "const MAX_BACKOFF_DELAY_MS: u64 = 120_000;", "const MAX_BACKOFF_DELAY_MS: u64 = 300_000;", ["C08"]),
    ("c08-revert-regerr-teardown", "src/sender/uplink_recv.rs", "                    conn.mark_for_recovery();\n                }\n                RegistrationEvent::Reg2 => {}", "                    conn.connected = false;\n                    conn.last_received = None;\n                }\n                RegistrationEvent::Reg2 => {}", ["C08"]),
    ("c08-stall-tears-down", "src/sender/housekeeping.rs", "        if conn.is_timed_out(current_ms) {\n            if conn.should_attempt_reconnect(current_ms) {", "        if conn.is_timed_out(current_ms) || conn.stall_latched() {\n            if conn.should_attempt_reconnect(current_ms) {", ["C08"]),
    ("c07-reg2-any-link", "crates/srtla-core/src/registration/mod.rs", "        if self.pending_reg2_idx == Some(conn_idx) {\n            // server returns full id", "        if self.pending_reg2_idx.is_some() {\n            // server returns full id", ["C07"]),
    ("c07-reg2-timeout-8s", "crates/srtla-protocol/src/constants.rs", "pub const REG2_TIMEOUT: u64 = 4; // sec", "pub const REG2_TIMEOUT: u64 = 8; // sec", ["C07"]),
    ("c16-revert-seed-fix", "crates/srtla-core/src/selection/link_cc.rs", "        if self.state == CcState::Bootstrap {\n            let seed", "        if self.target_bps == MIN_TARGET_BPS {\n            let seed", ["C16"]),
    ("c16-latch-3s", "crates/srtla-core/src/selection/link_cc.rs", "const LOSS_DEGRADE_SUSTAIN_MS: u64 = 4_000;", "const LOSS_DEGRADE_SUSTAIN_MS: u64 = 3_000;", ["C16"]),
    ("c17-sustain-1", "crates/srtla-core/src/selection/classifier.rs", "const WEAK_SUSTAIN_TICKS: u32 = 2;", "const WEAK_SUSTAIN_TICKS: u32 = 1;", ["C17"]),
    ("c17-revert-probation-fix", "crates/srtla-core/src/selection/classifier.rs", "            self.probation_ticks.retain(|_, ticks| {\n                *ticks = ticks.saturating_sub(1);\n                *ticks > 0\n            });", "            self.probation_ticks.clear();", ["C17"]),
    ("c18-clamp-max-120s", "crates/srtla-core/src/config_snapshot.rs", "pub const CONN_TIMEOUT_MS_MAX: u64 = 60_000;", "pub const CONN_TIMEOUT_MS_MAX: u64 = 120_000;", ["C18"]),
    ("c18-notification-skipped", "src/control.rs", "    let is_notification = req.id.is_none();\n    let id_for_response = req.id.clone().unwrap_or(Value::Null);\n    let result = handle_method(config, stats, critical_window, &req.method, &req.params);", "    let is_notification = req.id.is_none();\n    if is_notification {\n        return None;\n    }\n    let id_for_response = req.id.clone().unwrap_or(Value::Null);\n    let result = handle_method(config, stats, critical_window, &req.method, &req.params);", ["C18"]),
    ("c19-keeps-io-of-removed", "src/sender/connections.rs", "            seq_tracker.remove_connection(conn_id);\n            conn_io.remove(&conn_id);", "            seq_tracker.remove_connection(conn_id);", ["C19"]),
    ("c20-blocking-send", "src/subscriptions.rs", "match entry.sender.try_send(line) {", "match entry.sender.try_send(line.clone()).or_else(|e| match e { mpsc::error::TrySendError::Full(_) => { let _ = futures_free_block(&entry.sender, line); Ok(()) } e => Err(e) }) {", []),
]


def sh(cmd, cwd=None, env=None, timeout=3600):
    p = subprocess.run(cmd, cwd=cwd, env=env, shell=isinstance(cmd, str), stdout=subprocess.PIPE,
                       stderr=subprocess.STDOUT, text=True, timeout=timeout)
    return p.returncode, p.stdout


def main():
    sb = os.path.abspath(sys.argv[1])
    flt = sys.argv[2] if len(sys.argv) > 2 else ""
    repo = os.path.join(sb, "repo")
    verif = os.path.join(sb, "verif")
    env = dict(os.environ, VERIF_REPO=repo)
    results = []
    respath = os.path.join(sb, "mutation_results.json")
    if os.path.exists(respath):
        results = json.load(open(respath))
    done = {r["name"] for r in results}
    for name, rel, old, new, props in M:
        if flt and flt not in name:
            continue
        if name in done or not props:
            continue
        path = os.path.join(repo, rel)
        src = open(path).read()
        if src.count(old) != 1:
            results.append({"name": name, "error": f"pattern matches {src.count(old)} times"})
            print(name, "PATTERN-ERROR", src.count(old))
            continue
        open(path, "w").write(src.replace(old, new))
        try:
            rc, out = sh("cargo build --offline 2>&1 | tail -3", cwd=repo)
            compiles = "error" not in out
            entry = {"name": name, "file": rel, "expected": props, "compiles": compiles, "checks": {}}
            if compiles:
                for p in props:
                    if not os.path.exists(os.path.join(verif, "tools", "props", p + ".json")):
                        entry["checks"][p] = {"rc": None, "note": "property not claimed yet"}
                        continue
                    t0 = time.time()
                    rc, out = sh(["./check", p, "quick"], cwd=verif, env=env)
                    vio = [l for l in out.splitlines() if l.startswith("VIOLATION")]
                    entry["checks"][p] = {"rc": rc, "violation_lines": vio[:3], "s": round(time.time() - t0, 1),
                                          "concrete_replay": any("no-failing-input-found" not in v for v in vio)}
                    print(name, p, "rc=", rc, "concrete" if entry["checks"][p]["concrete_replay"] else "no-input", f"{time.time()-t0:.0f}s")
            else:
                print(name, "DOES NOT COMPILE", out[-300:])
            results.append(entry)
        finally:
            sh(["git", "checkout", "--", "."], cwd=repo)
        json.dump(results, open(respath, "w"), indent=1)
    missed = [(r["name"], p) for r in results for p, c in r.get("checks", {}).items() if c.get("rc") == 0]
    print("MISSED:", missed)


if __name__ == "__main__":
    main()
