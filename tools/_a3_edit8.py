p='lean/Srtla/Lemmas/Audit2BReset.lean'
s=open(p).read()
def rep(old,new,cnt=1):
    global s
    assert s.count(old)==cnt,(s.count(old),old)
    s=s.replace(old,new)
FV="(forwardVia (runSelect s now).1 i pkt (Codec.getSrtSequenceNumberS pkt) now).1.failAfter"
rep("      · have p1 := stallProbes_px (fa := s.failAfter) pkt", "      · have p1 := stallProbes_px (fa := "+FV+") pkt")
rep("        · have h3 : (stallProbesGo fa pkt (Codec.getSrtSequenceNumberS pkt) now i", "        · have h3 : (stallProbesGo "+FV+" pkt (Codec.getSrtSequenceNumberS pkt) now i")
rep('''    obtain ⟨-, e2, -, -⟩ := Hk.forwardVia_eq (runSelect s now).1 j pkt (Codec.getSrtSequenceNumberS pkt) now m hm
    rw [r3] at e2
    refine ⟨m, hml, ?_⟩''','''    obtain ⟨-, e2, -, -⟩ := Hk.forwardVia_eq (runSelect s now).1 j pkt (Codec.getSrtSequenceNumberS pkt) now m hm
    have hfa : (runSelect s now).1.failAfter = s.failAfter := rfl
    rw [r3, hfa] at e2
    refine ⟨m, hml, ?_⟩''')
open(p,'w').write(s)
