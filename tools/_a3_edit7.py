p='lean/Srtla/Lemmas/ClassicRef.lean'
s=open(p).read()
def rep(old,new,cnt=1):
    global s
    assert s.count(old)==cnt,(s.count(old),old)
    s=s.replace(old,new)
rep('''  -- threshold reached and the (injected) socket error: batch lost, link torn down for recovery
  (l.regime.batchSize ≤ q.length ∧ failNext.contains l.core.connId = true ∧ l'.queue = [] ∧
    l'.core.window = 20000 ∧ l'.core.connected = false ∧ l'.core.cong = l.core.cong ∧ wire = [])''',
'''  -- threshold reached and the (injected) socket error: batch lost - apart from the prefix `send_all_datagrams`
  -- got out before the failing call (none for a plain `failNext` injection) -, link torn down for recovery
  (l.regime.batchSize ≤ q.length ∧ failNext.contains l.core.connId = true ∧ l'.queue = [] ∧
    l'.core.window = 20000 ∧ l'.core.connected = false ∧ l'.core.cong = l.core.cong ∧
    ∃ k, wire = (q.take k).map (fun it => (l.core.connId, it.1)))''')
rep('''     (fn.contains l.core.connId = true ∧ (sendConnectionBatch fa l now fn).2.2.1 = false ∧
        (sendConnectionBatch fa l now fn).2.1 = [])) := by''',
'''     (fn.contains l.core.connId = true ∧ (sendConnectionBatch fa l now fn).2.2.1 = false ∧
        ∃ k, (sendConnectionBatch fa l now fn).2.1 = (l.queue.take k).map (fun it => (l.core.connId, it.1)))) := by''')
rep('''  cases hf : fn.contains l.core.connId
  · simp
  · simp

omit [Scalar F] in
theorem markForRecovery_facts''','''  cases hf : fn.contains l.core.connId
  · simp
  · simp only [if_true, true_and, Bool.true_eq_false, false_and, false_or]
    exact ⟨_, rfl⟩

omit [Scalar F] in
theorem markForRecovery_facts''')
rep('''      exact ⟨hb, by rw [← hc1]; exact hf, hm.1, hm.2.1, hm.2.2.1, by rw [hm.2.2.2.1, tg, hc1], hw⟩''',
'''      obtain ⟨k, hw⟩ := hw
      exact ⟨hb, by rw [← hc1]; exact hf, hm.1, hm.2.1, hm.2.2.1, by rw [hm.2.2.2.1, tg, hc1],
        ⟨k, by rw [hw, hq1, hc1]⟩⟩''')
open(p,'w').write(s)
