#!/usr/bin/env python3
"""Constants translator: /repo Rust source -> lean/Srtla/Gen/Constants.lean.

Every `const NAME: T = expr;` outside `#[cfg(test)]` test modules in the
anchored files is parsed and evaluated (integer / float literals, references to
earlier constants, + - * / << and parentheses, `as` casts ignored) and emitted
under a per-file namespace.  Integers become `Nat`/`Int`; floats are emitted
both as a Lean `Float` literal (same decimal text => same IEEE bits as rustc)
and as the exact decimal rational the literal denotes (numerator, denominator),
which is what the scalar-generic proofs use.

Thresholds the code writes as bare literals are extracted by *anchored
patterns*: a regex over the surrounding statement.  A pattern that no longer
matches exactly once is a broken tie and fails the run (exit 2) instead of
silently defaulting.

Usage: extract_constants.py <repo> <out.lean>   (prints a JSON summary)
"""
import json
import os
import re
import sys
from fractions import Fraction

FILES = [
    ("Proto", "crates/srtla-protocol/src/constants.rs"),
    ("Cfg", "crates/srtla-core/src/config_snapshot.rs"),
    ("Conn", "crates/srtla-core/src/connection/mod.rs"),
    ("Batch", "crates/srtla-core/src/connection/batch_send.rs"),
    ("Bitrate", "crates/srtla-core/src/connection/bitrate.rs"),
    ("Reconn", "crates/srtla-core/src/connection/reconnection.rs"),
    ("Rtt", "crates/srtla-core/src/connection/rtt.rs"),
    ("Cong", "crates/srtla-core/src/connection/congestion/mod.rs"),
    ("CongEnh", "crates/srtla-core/src/connection/congestion/enhanced.rs"),
    ("Quality", "crates/srtla-core/src/selection/quality.rs"),
    ("Enhanced", "crates/srtla-core/src/selection/enhanced.rs"),
    ("LinkCc", "crates/srtla-core/src/selection/link_cc.rs"),
    ("Classifier", "crates/srtla-core/src/selection/classifier.rs"),
    ("Priority", "crates/srtla-core/src/priority.rs"),
    ("Hk", "src/sender/housekeeping.rs"),
    ("Sender", "src/sender/mod.rs"),
    ("Pkt", "src/sender/packet_handler.rs"),
    ("BatchRecv", "src/net/batch_recv.rs"),
    ("Seq", "src/sender/sequence.rs"),
    ("Control", "src/control.rs"),
]

# (lean name, file, regex with exactly one capture group, kind)
# kind: int | float
PATTERNS = [
    # --- srtla-protocol parsers / types: length guards and bit masks -------
    ("Lit.PKT_TYPE_MIN_LEN", "crates/srtla-protocol/src/types.rs",
     r"pub fn get_packet_type\(buf: &\[u8\]\) -> Option<u16> \{\s*if buf\.len\(\) < (\d+) \{", "int"),
    ("Lit.SRT_SEQ_MIN_LEN", "crates/srtla-protocol/src/types.rs",
     r"pub fn get_srt_sequence_number\(buf: &\[u8\]\) -> Option<u32> \{\s*if buf\.len\(\) < (\d+) \{", "int"),
    ("Lit.RETRANSMIT_MIN_LEN", "crates/srtla-protocol/src/types.rs",
     r"buf\.len\(\) >= (\d+) && \(buf\[0\] & 0x80\) == 0 && \(buf\[4\] & 0x04\) != 0", "int"),
    ("Lit.KEEPALIVE_TS_MIN_LEN", "crates/srtla-protocol/src/parsers.rs",
     r"pub fn extract_keepalive_timestamp\(buf: &\[u8\]\) -> Option<u64> \{\s*if buf\.len\(\) < (\d+) \{", "int"),
    ("Lit.SRT_ACK_MIN_LEN", "crates/srtla-protocol/src/parsers.rs",
     r"pub fn parse_srt_ack\(buf: &\[u8\]\) -> Option<u32> \{\s*if buf\.len\(\) < (\d+) \{", "int"),
    ("Lit.SRT_ACK_OFFSET", "crates/srtla-protocol/src/parsers.rs",
     r"Some\(u32::from_be_bytes\(\[buf\[(\d+)\], buf\[17\], buf\[18\], buf\[19\]\]\)\)", "int"),
    ("Lit.SRT_NAK_MIN_LEN", "crates/srtla-protocol/src/parsers.rs",
     r"pub fn parse_srt_nak\(buf: &\[u8\]\) -> SmallVec<u32, 4> \{\s*if buf\.len\(\) < (\d+) \{", "int"),
    ("Lit.SRT_NAK_MAX_EXPAND", "crates/srtla-protocol/src/parsers.rs",
     r"while seq <= end && out\.len\(\) < (\d+) \{", "int"),
    ("Lit.SRTLA_ACK_MIN_LEN", "crates/srtla-protocol/src/parsers.rs",
     r"pub fn parse_srtla_ack\(buf: &\[u8\]\) -> SmallVec<u32, 4> \{\s*if buf\.len\(\) < (\d+) \{", "int"),
    ("Lit.SRTLA_ACK_FIRST_OFFSET", "crates/srtla-protocol/src/parsers.rs",
     r"let mut out = SmallVec::new\(\);\s*let mut i = (\d+)usize;\s*while i \+ 3 < buf\.len\(\) \{\s*let ack", "int"),
    ("Lit.SRT_NAK_FIRST_OFFSET", "crates/srtla-protocol/src/parsers.rs",
     r"let mut out = SmallVec::new\(\);\s*let mut i = (\d+)usize;\s*while i \+ 3 < buf\.len\(\) \{\s*let mut id", "int"),
    # --- congestion --------------------------------------------------------
    ("Lit.FAST_RECOVERY_ENTER_WINDOW", "crates/srtla-core/src/connection/congestion/mod.rs",
     r"if \*window <= (\d+) && !self\.fast_recovery_mode \{", "int"),
    ("Lit.RECOVERY_TIER3_MS", "crates/srtla-core/src/connection/congestion/enhanced.rs",
     r"let base_incr = if time_since_last_nak > ([\d_]+) \{", "int"),
    ("Lit.RECOVERY_TIER2_MS", "crates/srtla-core/src/connection/congestion/enhanced.rs",
     r"\} else if time_since_last_nak > ([\d_]+) \{\s*WINDOW_INCR \* fast_mode_bonus\s*\}", "int"),
    ("Lit.RECOVERY_TIER1_MS", "crates/srtla-core/src/connection/congestion/enhanced.rs",
     r"\} else if time_since_last_nak > ([\d_]+) \{\s*WINDOW_INCR \* fast_mode_bonus / 2", "int"),
    # --- packet log ----------------------------------------------------------
    ("Lit.ACK_FAST_PATH_RANGE", "crates/srtla-core/src/connection/ack_nak.rs",
     r"if range_size <= (\d+) && old_highest != i32::MIN \{", "int"),
    ("Lit.ACK_RTT_MAX_MS", "crates/srtla-core/src/connection/ack_nak.rs",
     r"if rtt > 0 && rtt <= ([\d_]+) \{", "int"),
    # --- keepalive / rtt -----------------------------------------------------
    ("Lit.KEEPALIVE_RTT_MAX_MS", "crates/srtla-core/src/connection/rtt.rs",
     r"if rtt > 0 && rtt <= ([\d_]+) \{", "int"),
    ("Lit.RTT_REMEASURE_MS", "crates/srtla-core/src/connection/rtt.rs",
     r"\|\| now_ms\.saturating_sub\(self\.last_rtt_measurement_ms\) > (\d+)\)", "int"),
    ("Lit.KEEPALIVE_ARM_REMEASURE_MS", "crates/srtla-core/src/connection/mod.rs",
     r"\|\| now\.saturating_sub\(self\.rtt\.last_rtt_measurement_ms\) > (\d+)\)", "int"),
    # --- reconnection ---------------------------------------------------------
    ("Lit.INITIAL_RETRY_MS", "crates/srtla-core/src/connection/reconnection.rs",
     r"return now\.saturating_sub\(self\.last_reconnect_attempt_ms\) >= (\d+);", "int"),
    # --- registration -----------------------------------------------------------
    ("Lit.REG1_RETRY_MS", "crates/srtla-core/src/registration/mod.rs",
     r"self\.reg1_next_send_at_ms = now \+ (\d+);", "int"),
    ("Lit.PROBE_TIMEOUT_MS", "crates/srtla-core/src/registration/probing.rs",
     r"self\.probing_state = ProbingState::WaitingForProbes;\s*self\.pending_timeout_at_ms = now \+ (\d+);", "int"),
    # --- phase weights ----------------------------------------------------------
    ("Lit.WARMING_WEIGHT", "crates/srtla-core/src/connection/mod.rs",
     r"LinkPhase::Warming \{ \.\. \} => ([\d.]+),", "float"),
]

CONST_RE = re.compile(
    r"^\s*(?:pub(?:\([a-z]+\))?\s+)?const\s+([A-Z][A-Z0-9_]*)\s*:\s*([A-Za-z0-9_&' ]+?)\s*=\s*(.+?);",
    re.M | re.S)


def strip_tests(src: str) -> str:
    i = src.find("#[cfg(test)]\nmod tests")
    if i < 0:
        i = src.find("#[cfg(all(test")
    return src if i < 0 else src[:i]


def strip_comments(src: str) -> str:
    return re.sub(r"//[^\n]*", "", src)


INT_T = {"u8", "u16", "u32", "u64", "usize", "i8", "i16", "i32", "i64", "isize"}


class Val:
    def __init__(self, kind, value, text=None):
        self.kind = kind      # int | float | str
        self.value = value    # int | Fraction | str
        self.text = text      # decimal literal text for floats


def eval_expr(expr: str, env, ty: str):
    e = expr.strip()
    e = re.sub(r"\s+as\s+[a-z0-9]+", "", e)
    if ty.startswith("&"):
        m = re.fullmatch(r'"(.*)"', e)
        if m:
            return Val("str", m.group(1))
        return None
    # tokens
    toks = re.findall(r"0x[0-9a-fA-F_]+|[\d_]+\.[\d_]*(?:e-?\d+)?(?:_?f64)?|[\d_]+(?:_?[iu](?:8|16|32|64|size))?|[A-Za-z_][A-Za-z0-9_:]*|<<|[-+*/()]", e)
    if "".join(toks).replace(" ", "") != re.sub(r"\s+", "", e):
        return None
    py = []
    is_float = ty == "f64"
    lit_text = None
    for t in toks:
        if re.fullmatch(r"0x[0-9a-fA-F_]+", t):
            py.append(str(int(t.replace("_", ""), 16)))
        elif re.fullmatch(r"[\d_]+\.[\d_]*(?:e-?\d+)?(?:_?f64)?", t):
            txt = re.sub(r"_?f64$", "", t).replace("_", "")
            if txt.endswith("."):
                txt += "0"
            lit_text = txt
            py.append(f"Fraction('{txt}')")
            is_float = True
        elif re.fullmatch(r"[\d_]+(?:_?[iu](?:8|16|32|64|size))?", t):
            n = re.sub(r"_?[iu](?:8|16|32|64|size)$", "", t).replace("_", "")
            py.append(f"Fraction({int(n)})" if is_float else str(int(n)))
        elif re.fullmatch(r"[A-Za-z_][A-Za-z0-9_:]*", t):
            name = t.split("::")[-1]
            if name not in env or env[name].kind == "str":
                return None
            v = env[name]
            if v.kind == "float":
                is_float = True
                py.append(f"Fraction({v.value.numerator},{v.value.denominator})")
            else:
                py.append(f"({v.value})")
        elif t == "/":
            py.append("/" if is_float else "//")
        else:
            py.append(t)
    try:
        val = eval(" ".join(py), {"Fraction": Fraction})
    except Exception:
        return None
    if is_float:
        val = Fraction(val)
        single = len(toks) == 1 and lit_text is not None
        return Val("float", val, lit_text if single else None)
    return Val("int", int(val))


def lean_float_text(v: Val) -> str:
    if v.text is not None:
        return v.text
    # non-literal float expression: print as exact decimal if terminating
    f = v.value
    d = f.denominator
    while d % 2 == 0:
        d //= 2
    while d % 5 == 0:
        d //= 5
    if d == 1:
        # terminating decimal
        from decimal import Decimal, getcontext
        getcontext().prec = 60
        s = format(Decimal(f.numerator) / Decimal(f.denominator), "f")
        return s if "." in s else s + ".0"
    return f"({f.numerator}.0 / {f.denominator}.0)"


def main():
    repo, out = sys.argv[1], sys.argv[2]
    lines = [
        "-- GENERATED by /verif/tools/extract_constants.py from /repo's working tree.",
        "-- Do not edit: rewritten on every check run.",
        "namespace Srtla.Gen",
        "",
    ]
    summary = {"constants": 0, "patterns": 0, "errors": []}
    proto_env = {}
    for ns, rel in FILES:
        path = os.path.join(repo, rel)
        try:
            src = open(path, encoding="utf-8").read()
        except OSError as e:
            summary["errors"].append(f"{rel}: cannot read ({e})")
            continue
        src = strip_comments(strip_tests(src))
        env = dict(proto_env)
        lines.append(f"namespace {ns}")
        seen = set()
        for m in CONST_RE.finditer(src):
            name, ty, expr = m.group(1), m.group(2).strip(), m.group(3)
            if name in seen:
                continue
            v = eval_expr(expr, env, ty)
            if v is None:
                lines.append(f"-- skipped {name} : {ty} (expression not understood: {expr.strip()[:60]!r})")
                continue
            seen.add(name)
            env[name] = v
            summary["constants"] += 1
            if v.kind == "int":
                if v.value >= 0:
                    lines.append(f"def {name} : Nat := {v.value}")
                    lines.append(f"@[simp] theorem {name}_eq : {name} = {v.value} := rfl")
                else:
                    lines.append(f"def {name} : Int := {v.value}")
                    lines.append(f"@[simp] theorem {name}_eq : {name} = {v.value} := rfl")
            elif v.kind == "float":
                lines.append(f"def {name}_f : Float := {lean_float_text(v)}")
                lines.append(f"def {name}_num : Int := {v.value.numerator}")
                lines.append(f"def {name}_den : Nat := {v.value.denominator}")
            else:
                lines.append(f"def {name} : String := {json.dumps(v.value)}")
        lines.append(f"end {ns}")
        lines.append("")
        if ns == "Proto":
            proto_env = dict(env)
    lines.append("namespace Lit")
    for lname, rel, rx, kind in PATTERNS:
        short = lname.split(".", 1)[1]
        path = os.path.join(repo, rel)
        try:
            src = strip_comments(strip_tests(open(path, encoding="utf-8").read()))
        except OSError as e:
            summary["errors"].append(f"{lname}: cannot read {rel} ({e})")
            continue
        ms = re.findall(rx, src)
        if len(ms) != 1:
            summary["errors"].append(
                f"{lname}: anchored pattern matched {len(ms)} times in {rel} (expected 1): /{rx}/")
            continue
        txt = ms[0].replace("_", "")
        summary["patterns"] += 1
        if kind == "int":
            lines.append(f"def {short} : Nat := {int(txt)}")
            lines.append(f"@[simp] theorem {short}_eq : {short} = {int(txt)} := rfl")
        else:
            fr = Fraction(txt)
            lines.append(f"def {short}_f : Float := {txt}")
            lines.append(f"def {short}_num : Int := {fr.numerator}")
            lines.append(f"def {short}_den : Nat := {fr.denominator}")
    lines.append("end Lit")
    lines.append("")
    lines.append("end Srtla.Gen")
    text = "\n".join(lines) + "\n"
    old = None
    try:
        old = open(out, encoding="utf-8").read()
    except OSError:
        pass
    if old != text:
        os.makedirs(os.path.dirname(out), exist_ok=True)
        with open(out, "w", encoding="utf-8") as f:
            f.write(text)
    summary["changed"] = old != text
    print(json.dumps(summary))
    return 2 if summary["errors"] else 0


if __name__ == "__main__":
    sys.exit(main())
