#!/usr/bin/env python3
"""Run checks against a seeded change in a SANDBOX (tools/mk_sandbox.sh), never in /repo.
  tools/eval_seed.py <sandbox> <patch.diff> <Cxx> [<Cyy> ...]
Prints one line per property and leaves the sandbox repo clean again."""
import json, os, subprocess, sys, time

def sh(cmd, cwd=None, env=None):
    p = subprocess.run(cmd, cwd=cwd, env=env, stdout=subprocess.PIPE, stderr=subprocess.STDOUT, text=True)
    return p.returncode, p.stdout

sb = os.path.abspath(sys.argv[1]); patch = os.path.abspath(sys.argv[2]); props = sys.argv[3:]
repo = os.path.join(sb, "repo"); verif = os.path.join(sb, "verif")
env = dict(os.environ, VERIF_REPO=repo)
sh(["git", "checkout", "--", "."], cwd=repo)
# a seeded change is a diff against the /repo commit it was written for (meta.json `base_commit`); the harness
# needs /repo's CURRENT API, so the change is applied on top of /repo's current HEAD (3-way); a change whose hunks
# overlap a later `fix:` commit is stored rebased as patch.rebased.diff next to patch.diff
if os.environ.get("VERIF_COMMIT"):
    # /verif is pinned to an older commit (a seed round in progress): evaluate at the change's own base commit
    try:
        base = json.load(open(os.path.join(os.path.dirname(patch), "meta.json"))).get("base_commit") or "5d44106"
    except Exception:
        base = "5d44106"
    sh(["git", "checkout", "-q", "--detach", base], cwd=repo)
    rc, out = sh(["git", "apply", patch], cwd=repo)
else:
    _, head = sh(["git", "-C", os.environ.get("VERIF_MAIN_REPO", "/repo"), "rev-parse", "HEAD"])
    sh(["git", "checkout", "-q", "--detach", head.strip()], cwd=repo)
    rebased = os.path.join(os.path.dirname(patch), "patch.rebased.diff")
    if os.path.exists(rebased):
        patch = rebased
    rc, out = sh(["git", "apply", "--3way", patch], cwd=repo)
    sh(["git", "reset", "-q"], cwd=repo)
if rc != 0:
    sh(["git", "checkout", "--", "."], cwd=repo)
    print("PATCH DOES NOT APPLY:", out[-400:]); sys.exit(2)
res = {}
try:
    for p in props:
        t0 = time.time()
        rc, out = sh(["./check", p, "quick"], cwd=verif, env=env)
        vio = [l for l in out.splitlines() if l.startswith("VIOLATION")]
        tail = [l for l in out.splitlines() if l.startswith("[check]")][-1:]
        res[p] = {"rc": rc, "violations": vio[:4], "s": round(time.time() - t0, 1)}
        print(p, "rc=%d" % rc, "; ".join(v[:160] for v in vio[:2]) or (tail[0] if tail else ""), "(%.0fs)" % (time.time() - t0), flush=True)
finally:
    sh(["git", "checkout", "--", "."], cwd=repo)
print(json.dumps(res))
