#!/bin/bash
# Multi-seed soak of every quick check on the unchanged tree: any non-zero exit is a false alarm
# (or a genuine finding) to investigate.  tools/soak.sh <first-seed> <last-seed> [props...]
A=$1; B=$2; shift 2
ROOT=$(cd "$(dirname "$0")/.." && pwd)
PROPS=${@:-$(ls $ROOT/tools/props | sed 's/.json//')}
$ROOT/check --setup > /dev/null 2>&1
for s in $(seq $A $B); do
  for p in $PROPS; do
    out=$(VERIF_SEED=$s $ROOT/check $p quick 2>&1); rc=$?
    echo "seed=$s $p rc=$rc $(echo "$out" | grep -E 'VIOLATION|KNOWN' | head -2 | tr '\n' ' ')"
  done
done
