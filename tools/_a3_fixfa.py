#!/usr/bin/env python3
"""A3 helper (temporary): read `lake build` output on stdin, insert `(fa := ...)` at the call sites lean says it
cannot synthesize the implicit `fa` for."""
import re, sys, collections
txt = sys.stdin.read()
blocks = re.split(r'(?m)^(?=error: |warning: )', txt)
fixes = collections.defaultdict(dict)
for b in blocks:
    m = re.match(r"error: (\S+?):(\d+):(\d+): don't know how to synthesize implicit argument `fa`\n\s+@([\w.']+)", b)
    if not m:
        continue
    f, L, C, name = m.group(1), int(m.group(2)), int(m.group(3)), m.group(4)
    has_fa = re.search(r'(?m)^fa : List \(Nat × Nat\)', b) is not None
    has_s = re.search(r'(?m)^(?:\w+ )*s(?: \w+)* : Sys F', b) is not None
    val = 'fa' if has_fa else ('s.failAfter' if has_s else None)
    if val is None:
        print('SKIP (no fa / s in context)', f, L, C, name); continue
    fixes[f][(L, C)] = (name, val)
for f, d in fixes.items():
    path = 'lean/' + f if not f.startswith('lean/') else f
    import os
    if not os.path.exists(path): path = f
    lines = open(path).read().split('\n')
    for (L, C), (name, val) in sorted(d.items(), reverse=True):
        line = lines[L - 1]
        short = name.split('.')[-1]
        # find the identifier at/after col C
        m = re.compile(r"[\w.']*" + re.escape(short)).search(line, C)
        if not m or m.start() > C + 2:
            print('NOFIND', f, L, C, name, line.strip()[:80]); continue
        if line[m.end():].startswith(' (fa :='):
            continue
        lines[L - 1] = line[:m.end()] + f' (fa := {val})' + line[m.end():]
        print('fixed', f, L, name, val)
    open(path, 'w').write('\n'.join(lines))
